import PhyloModel.Newick.Names2
import PhyloModel.Newick.Balanced
/-! Labels stored by the parser are in the domain of the C01 round trip — for EVERY text, quotes anywhere.

    The link between the parser's quote flag and the name buffer: `NameSync q buf` says that the quote
    automaton `nameOKFrom`, started outside quotes and run over `buf`, is alive and in state `q` (stated
    extensionally: for every continuation `rest`, `nameOKFrom false (buf ++ rest) = nameOKFrom q rest`).
    The flag is flipped only together with pushing the `"` onto the name buffer, characters are pushed
    unprotected only when plain, and a name is committed only by a structural character, which is only
    recognised when the flag is off — so committed names end outside quotes. -/
namespace NW
variable {L : Type} (parseLen : Label → Option L)

def NameSync (q : Bool) (o : Option Label) : Prop :=
  (∀ nm, o = some nm → nm ≠ []) ∧ ∀ rest, nameOKFrom false (o.getD [] ++ rest) = nameOKFrom q rest

theorem nameSync_none : NameSync false none := ⟨(by intro nm h; cases h), (by intro rest; simp)⟩

theorem pushc_ne_nil (o : Option Label) (c : Char) : ∀ nm, pushc o c = some nm → nm ≠ [] := by
  intro nm h; simp only [pushc, Option.some.injEq] at h; subst h; simp

theorem pushc_getD (o : Option Label) (c : Char) (rest : List Char) :
    (pushc o c).getD [] ++ rest = o.getD [] ++ (c :: rest) := by
  simp [pushc]

/-- inside quotes every character except `"` may be pushed -/
theorem nameSync_push_in (o : Option Label) (c : Char) (h : NameSync true o) (hc : c ≠ '"') :
    NameSync true (pushc o c) := by
  refine ⟨pushc_ne_nil o c, ?_⟩
  intro rest
  rw [pushc_getD, h.2 (c :: rest)]
  simp [nameOKFrom, hc]

/-- a `"` pushed together with flipping the flag -/
theorem nameSync_push_quote (q : Bool) (o : Option Label) (h : NameSync q o) :
    NameSync (!q) (pushc o '"') := by
  refine ⟨pushc_ne_nil o '"', ?_⟩
  intro rest
  rw [pushc_getD, h.2 ('"' :: rest)]
  cases q <;> simp [nameOKFrom]

/-- outside quotes a plain character may be pushed -/
theorem nameSync_push_plain (o : Option Label) (c : Char) (h : NameSync false o) (hc : plain c = true) :
    NameSync false (pushc o c) := by
  refine ⟨pushc_ne_nil o c, ?_⟩
  intro rest
  rw [pushc_getD, h.2 (c :: rest)]
  have hne : c ≠ '"' := by intro hq; subst hq; simp [plain, classify] at hc
  simp [nameOKFrom, hne, hc]

/-- a buffer in sync with "outside quotes" is a well-formed name -/
theorem nameSync_wf (o : Option Label) (h : NameSync false o) : nameWF o := by
  cases o with
  | none => simp [nameWF]
  | some nm =>
    refine ⟨h.1 nm rfl, ?_⟩
    have := h.2 []
    simpa [nameOKFrom] using this

theorem commentOK_wf (o : Option Label) (h : CommentOK o) : commentWF o := by
  cases o with
  | none => simp [commentWF]
  | some cm => exact h cm rfl

/-- all stored labels are in the domain of the round trip -/
def LabelsOK (a : Array (PNode L)) : Prop := ∀ i, nameWF (nd a i).name ∧ commentWF (nd a i).comment

theorem labelsOK_empty : LabelsOK (#[] : Array (PNode L)) := by
  intro i; simp [nd, dflt, nameWF, commentWF]

theorem labelsOK_push_dflt (a : Array (PNode L)) (h : LabelsOK a) : LabelsOK (a.push {}) := by
  intro i; rw [nd_push]; split
  · simp [nameWF, commentWF]
  · exact h i

theorem labelsOK_addChild (a : Array (PNode L)) (p : Nat) (hp : p < a.size) (h : LabelsOK a) :
    LabelsOK (addChild a p) := by
  intro i
  rw [nd_addChild a p hp]
  split
  · simp [nameWF, commentWF]
  · split
    · exact h p
    · exact h i

theorem labelsOK_setFields (a : Array (PNode L)) (j : Nat) (n : Option Label) (l : Option L) (c : Option Label)
    (h : LabelsOK a) (hn : nameWF n) (hc : commentWF c) : LabelsOK (setFields a j n l c) := by
  intro i
  simp only [setFields, nd_modify]
  split
  · refine ⟨?_, hc⟩
    cases n with
    | none => simpa [orKeep] using (h i).1
    | some nm => simpa [orKeep] using hn
  · exact h i

/-- the quote invariant -/
structure QI (s : St L) : Prop where
  qf : s.quotes = true → s.field = .name
  nm : NameSync s.quotes s.curName
  cm : CommentOK s.curComment
  ar : LabelsOK s.nodes

theorem qi_init : QI ({} : St L) := ⟨by simp, nameSync_none, commentOK_none, labelsOK_empty⟩

theorem commit_QI (s s' : St L) (hj : J s) (hne : s.stack ≠ []) (hq : s.quotes = false) (hn : QI s)
    (h : commit parseLen s = .cont s') : QI s' := by
  have hnm : nameWF s.curName := nameSync_wf _ (by have := hn.nm; rwa [hq] at this)
  have hcm : commentWF s.curComment := commentOK_wf _ hn.cm
  unfold commit at h
  cases hci : s.curIdx with
  | some i =>
    have hi := hj.cur i hci
    simp only [hci, hi, ↓reduceIte] at h
    cases hpe : parseEdge parseLen s.curLen with
    | none => simp [hpe] at h
    | some edge =>
      simp only [hpe, Res.cont.injEq] at h
      subst h
      exact ⟨by simp [hq], by simpa [hq] using nameSync_none, commentOK_none,
        labelsOK_setFields _ _ _ _ _ hn.ar hnm hcm⟩
  | none =>
    cases hst : s.stack with
    | nil => exact absurd hst hne
    | cons p ps =>
      have hp := hj.stack p (by simp [hst])
      simp only [hci, hst, hp, ↓reduceIte] at h
      cases hpe : parseEdge parseLen s.curLen with
      | none => simp [hpe] at h
      | some edge =>
        simp only [hpe, Res.cont.injEq] at h
        subst h
        exact ⟨by simp [hq], by simpa [hq] using nameSync_none, commentOK_none,
          labelsOK_setFields _ _ _ _ _ (labelsOK_addChild _ _ hp hn.ar) hnm hcm⟩

/-- an ordinary character outside quotes: pushed to the name (if plain) or to the length -/
theorem stepField_QI (s s' : St L) (c : Char) (hq : s.quotes = false) (hpl : s.field = .name → plain c = true)
    (hn : QI s) (h : stepField s c = .cont s') : QI s' := by
  unfold stepField at h
  split at h
  next hf =>
    cases h
    refine ⟨fun _ => hf, ?_, hn.cm, hn.ar⟩
    have := hn.nm
    rw [hq] at this
    simpa [hq] using nameSync_push_plain _ _ this (hpl hf)
  · split at h
    · cases h
    · cases h; exact ⟨hn.qf, hn.nm, hn.cm, hn.ar⟩
  · cases h

theorem step_QI (s s' : St L) (c : Char) (hj : J s) (hn : QI s)
    (h : step parseLen s c = .cont s') : QI s' := by
  unfold step at h
  split at h
  next hg =>
    cases h
    simp only [Bool.and_eq_true, beq_iff_eq, bne_iff_ne, ne_eq] at hg
    refine ⟨hn.qf, ?_, hn.cm, hn.ar⟩
    have := hn.nm
    rw [hg.1.1] at this
    simpa [hg.1.1] using nameSync_push_in _ _ this hg.2
  split at h
  next hg1 hg =>
    cases h
    simp only [Bool.and_eq_true, beq_iff_eq, bne_iff_ne, ne_eq] at hg
    exact ⟨hn.qf, hn.nm, commentOK_push _ _ hn.cm hg.2, hn.ar⟩
  next hg1 hg2 =>
  split at h
  · cases h; exact hn
  next hws =>
  simp only [Bool.and_eq_true, Bool.not_eq_true', beq_iff_eq, bne_iff_ne, ne_eq] at hws hg1 hg2
  -- outside the quote arm the flag is off
  have hq : c ≠ '"' → s.quotes = false := by
    intro hc
    cases hqq : s.quotes with
    | false => rfl
    | true => exact absurd ⟨⟨hqq, hn.qf hqq⟩, hc⟩ hg1
  split at h
  next hk =>
    -- quote
    have hcq := classify_quote hk
    subst hcq
    split at h
    next hf =>
      cases h
      simp only [beq_iff_eq] at hf
      exact ⟨fun _ => hf, nameSync_push_quote _ _ hn.nm, hn.cm, hn.ar⟩
    next hf =>
      simp only [beq_iff_eq] at hf
      have hq' : s.quotes = false := by
        cases hqq : s.quotes with
        | false => rfl
        | true => exact absurd (hn.qf hqq) hf
      exact stepField_QI s s' _ hq' (fun e => absurd e hf) hn h
  next hk =>
    have hc : c ≠ '"' := by intro e; subst e; simp [classify] at hk
    cases h; exact ⟨by simp [hq hc], hn.nm, hn.cm, hn.ar⟩
  next hk =>
    cases h; exact ⟨fun _ => rfl, hn.nm, hn.cm, hn.ar⟩
  next hk =>
    have hc : c ≠ '"' := by intro e; subst e; simp [classify] at hk
    cases h; exact ⟨by simp [hq hc], hn.nm, hn.cm, hn.ar⟩
  next hk =>
    -- lpar
    split at h
    · split at h
      · cases h; exact ⟨hn.qf, hn.nm, hn.cm, labelsOK_push_dflt _ hn.ar⟩
      · cases h
    next p ps hst =>
      split at h
      next hp => cases h; exact ⟨hn.qf, hn.nm, hn.cm, labelsOK_addChild _ _ hp hn.ar⟩
      · cases h
  next hk =>
    -- comma
    have hc : c ≠ '"' := by intro e; subst e; simp [classify] at hk
    split at h
    · cases h
    next hne =>
      cases hcm : commit parseLen s with
      | cont s1 =>
        simp only [hcm, Res.cont.injEq] at h; subst h
        have := commit_QI parseLen s s1 hj hne (hq hc) hn hcm
        exact ⟨this.qf, this.nm, this.cm, this.ar⟩
      | done a => simp [hcm] at h
      | err e => simp [hcm] at h
      | panic => simp [hcm] at h
  next hk =>
    -- rpar
    have hc : c ≠ '"' := by intro e; subst e; simp [classify] at hk
    split at h
    · cases h
    next hne =>
      cases hcm : commit parseLen s with
      | cont s1 =>
        simp only [hcm] at h
        have := commit_QI parseLen s s1 hj hne (hq hc) hn hcm
        split at h
        · cases h; exact ⟨this.qf, this.nm, this.cm, this.ar⟩
        · cases h
      | done a => simp [hcm] at h
      | err e => simp [hcm] at h
      | panic => simp [hcm] at h
  · repeat' (first | cases h | split at h)
  next hk =>
    -- ordinary character: plain (classified `other`, not whitespace)
    have hc : c ≠ '"' := by intro e; subst e; simp [classify] at hk
    have hq' := hq hc
    have hws' : isWs c = false := by
      cases hw : isWs c with
      | false => rfl
      | true => exact absurd ⟨hw, hq'⟩ hws
    have hpl : plain c = true := by simp [plain, hk, hws']
    exact stepField_QI s s' c hq' (fun _ => hpl) hn h

theorem step_done_QI (s : St L) (c : Char) (a : Array (PNode L)) (hj : J s) (hn : QI s)
    (h : step parseLen s c = .done a) : LabelsOK a := by
  have hc := step_done_semi parseLen s c a h
  subst hc
  unfold step at h
  split at h
  · cases h
  split at h
  · cases h
  next hg1 hg2 =>
  simp only [Bool.and_eq_true, beq_iff_eq, bne_iff_ne, ne_eq] at hg1
  have hq : s.quotes = false := by
    cases hqq : s.quotes with
    | false => rfl
    | true => exact absurd ⟨⟨hqq, hn.qf hqq⟩, by decide⟩ hg1
  have hnm : nameWF s.curName := nameSync_wf _ (by have := hn.nm; rwa [hq] at this)
  have hcm : commentWF s.curComment := commentOK_wf _ hn.cm
  simp only [isWs_semi, Bool.false_and, Bool.false_eq_true, ↓reduceIte, classify_semi'] at h
  split at h
  · cases h
  · have key : ∀ (b : Array (PNode L)) (i : Nat) (edge : Option L), LabelsOK b →
        LabelsOK (b.modify i (fun n => { n with name := s.curName, comment := s.curComment, len := orKeep edge n.len })) := by
      intro b i edge hb k
      rw [nd_modify]; split
      · exact ⟨hnm, hcm⟩
      · exact hb k
    cases hci : s.curIdx with
    | some i =>
      have hi := hj.cur i hci
      simp only [hci, hi, ↓reduceIte] at h
      cases hpe : parseEdge parseLen s.curLen with
      | none => simp [hpe] at h
      | some edge => simp only [hpe, Res.done.injEq] at h; subst h; exact key _ _ _ hn.ar
    | none =>
      simp only [hci] at h
      by_cases hsz : s.nodes.size = 0
      · simp only [hsz, ↓reduceIte] at h
        cases hpe : parseEdge parseLen s.curLen with
        | none => simp [hpe] at h
        | some edge =>
          simp only [hpe, Res.done.injEq] at h; subst h
          exact key _ _ _ (labelsOK_push_dflt _ hn.ar)
      · simp [hsz] at h

theorem run_done_QI (cs : List Char) (s : St L) (a : Array (PNode L)) (hj : J s)
    (hn : QI s) (h : run parseLen s cs = .done a) : LabelsOK a := by
  induction cs generalizing s with
  | nil => simp [run] at h
  | cons c cs ih =>
    simp only [run] at h
    cases hs : step parseLen s c with
    | cont s' =>
      rw [hs] at h
      exact ih s' (step_J parseLen s s' c hj hs) (step_QI parseLen s s' c hj hn hs) h
    | done a' => rw [hs] at h; cases h; exact step_done_QI parseLen s c a hj hn hs
    | err e => rw [hs] at h; cases h
    | panic => rw [hs] at h; cases h

/-- every label stored by the parser — on any text — lies in the domain of the round-trip theorem -/
theorem labels_ok_all (cs : List Char) (a : Array (PNode L)) (h : parse parseLen cs = .done a) :
    ∀ i, nameWF (nd a i).name ∧ commentWF (nd a i).comment := by
  have hj0 : J ({} : St L) := ⟨struct_empty, by simp, by simp, by simp⟩
  unfold parse at h
  cases hr : run parseLen {} cs with
  | cont s' => simp [hr] at h
  | err e => simp [hr] at h
  | panic => simp [hr] at h
  | done a' =>
    simp [hr] at h; subst h
    exact run_done_QI parseLen cs {} a' hj0 qi_init hr

end NW
