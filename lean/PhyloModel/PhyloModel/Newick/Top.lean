import PhyloModel.Newick.Main
/-! Scratch prototype: C01 top-level statement -/
namespace NW
variable {L : Type} (parseLen : Label → Option L) (showLen : L → Label)

/-- the arena `from_newick` returns for `write t ++ ";"` -/
def rootArena : RTree L → Array (PNode L)
  | .node n l c kids =>
    (buildKids (#[({} : PNode L)]) 0 kids).modify 0
      (fun x => { x with name := n, comment := c, len := orKeep l x.len })

theorem parseEdge_show (hc : Codec parseLen showLen) (l : Option L) :
    parseEdge parseLen (l.map showLen) = some l := by
  cases l <;> simp [parseEdge, hc.rt]

theorem roundtrip_run (hc : Codec parseLen showLen) (t : RTree L) (hwf : WFT t) (junk : List Char) :
    parse parseLen (write showLen t ++ ';' :: junk) = .done (rootArena t) := by
  have hinit : Clean ({} : St L) := by constructor <;> rfl
  match t, hwf with
  | .node n l c [], hwf =>
    simp only [parse, write]
    rw [run_label parseLen showLen hc {} hinit n l c hwf.1 hwf.2.1]
    have hf : ((afterLabel showLen ({} : St L) n l c).field == Field.comment) = false := by
      cases c <;> cases l <;> simp [afterLabel, fieldAfter]
    simp [run, step, afterLabel, hf, isWs, classify, parseEdge_show parseLen showLen hc, rootArena, buildKids] at *
    simp [hf, Array.modify]
  | .node n l c (k :: ks), hwf =>
    simp only [parse, write, List.cons_append, List.append_assoc, run]
    have h0 : step parseLen ({} : St L) '(' = .cont { ({} : St L) with nodes := #[{}], stack := [0], opens := 1 } := by
      simp [step, isWs, classify]
    rw [h0]
    simp only []
    have hk := run_kids parseLen showLen hc (k :: ks) { ({} : St L) with nodes := #[{}], stack := [0], opens := 1 }
      (label showLen n l c ++ ';' :: junk) 0 []
      (by constructor <;> rfl) rfl (by simp) rfl hwf.2.2 (by simp)
    simp only [writeKids, List.append_assoc] at hk
    rw [hk]
    rw [run_label parseLen showLen hc _ (by constructor <;> simp [cleanWith]) n l c hwf.1 hwf.2.1]
    have hsz := size_buildKids (#[({} : PNode L)]) 0 (k :: ks)
    have hpos : 0 < (buildKids (#[({} : PNode L)]) 0 (k :: ks)).size := by simp at hsz; omega
    cases c <;> cases l <;>
      simp [run, step, afterLabel, fieldAfter, cleanWith, isWs, classify, parseEdge, hc.rt, rootArena, hpos]

end NW
