import PhyloModel.Newick.WF2
namespace NW
variable {L : Type} (parseLen : Label → Option L)

theorem step_done (s : St L) (c : Char) (a : Array (PNode L)) (hj : J s)
    (h : step parseLen s c = .done a) : Struct a ∧ 0 < a.size := by
  unfold step at h
  split at h
  · cases h
  split at h
  · cases h
  split at h
  · cases h
  split at h
  · -- quote
    split at h
    · cases h
    · unfold stepField at h
      repeat' (first | cases h | split at h)
  · cases h
  · cases h
  · cases h
  · repeat' (first | cases h | split at h)
  · -- comma
    split at h
    · cases h
    next hne =>
      cases hc : commit parseLen s with
      | cont s1 => simp [hc] at h
      | done a' =>
        exfalso
        unfold commit at hc
        repeat' (first | cases hc | split at hc)
      | err e => simp [hc] at h
      | panic => simp [hc] at h
  · -- rpar
    split at h
    · cases h
    next hne =>
      cases hc : commit parseLen s with
      | cont s1 => simp only [hc] at h; split at h <;> cases h
      | done a' =>
        exfalso
        unfold commit at hc
        repeat' (first | cases hc | split at hc)
      | err e => simp [hc] at h
      | panic => simp [hc] at h
  · -- semi
    split at h
    · cases h
    next hop =>
      cases hci : s.curIdx with
      | some i =>
        have hi := hj.cur i hci
        simp only [hci, hi, ↓reduceIte] at h
        cases hpe : parseEdge parseLen s.curLen with
        | none => simp [hpe] at h
        | some edge =>
          simp only [hpe, Res.done.injEq] at h
          subst h
          exact ⟨struct_modify_fields _ _ _ (fun x => ⟨rfl, rfl, rfl⟩) hj.st, by simp; omega⟩
      | none =>
        simp only [hci] at h
        by_cases hsz : s.nodes.size = 0
        · simp only [hsz, ↓reduceIte] at h
          cases hpe : parseEdge parseLen s.curLen with
          | none => simp [hpe] at h
          | some edge =>
            simp only [hpe, Res.done.injEq] at h
            subst h
            have hempty : s.nodes = #[] := Array.eq_empty_of_size_eq_zero hsz
            refine ⟨struct_modify_fields _ _ _ (fun x => ⟨rfl, rfl, rfl⟩) ?_, by simp⟩
            simp only [hempty]; exact struct_push_root
        · simp [hsz] at h
  · unfold stepField at h
    repeat' (first | cases h | split at h)

/-- the `unimplemented!()` arm is unreachable: the fixed parser never panics -/
theorem step_no_panic (s : St L) (c : Char) : step parseLen s c ≠ .panic := by
  intro h
  unfold step at h
  split at h
  · cases h
  split at h
  · cases h
  next hq hcm =>
  split at h
  · cases h
  split at h
  · next hcl =>
    -- quote: outside a name it is an ordinary character; the comment field cannot be current here
    split at h
    · cases h
    · unfold stepField at h
      split at h
      · cases h
      · split at h <;> cases h
      next hf =>
        have : c = ']' := by
          apply Classical.byContradiction; intro hne
          exact hcm (by simp [hf, hne])
        subst this
        simp [classify] at hcl
  · cases h
  · cases h
  · cases h
  · repeat' (first | cases h | split at h)
  · split at h
    · cases h
    · cases hc : commit parseLen s with
      | cont s1 => simp [hc] at h
      | done a' => simp [hc] at h
      | err e => simp [hc] at h
      | panic =>
        unfold commit at hc
        repeat' (first | cases hc | split at hc)
  · split at h
    · cases h
    · cases hc : commit parseLen s with
      | cont s1 => simp only [hc] at h; split at h <;> cases h
      | done a' => simp [hc] at h
      | err e => simp [hc] at h
      | panic =>
        unfold commit at hc
        repeat' (first | cases hc | split at hc)
  · repeat' (first | cases h | split at h)
  next hcl =>
    unfold stepField at h
    split at h
    · cases h
    · split at h <;> cases h
    next hf =>
      -- field = comment and the comment guard did not fire ⇒ c = ']' ⇒ classify c = rbr ≠ other
      have : c = ']' := by
        apply Classical.byContradiction; intro hne
        exact hcm (by simp [hf, hne])
      subst this
      simp [classify] at hcl

theorem run_done (cs : List Char) (s : St L) (a : Array (PNode L)) (hj : J s)
    (h : run parseLen s cs = .done a) : Struct a ∧ 0 < a.size := by
  induction cs generalizing s with
  | nil => simp [run] at h
  | cons c cs ih =>
    simp only [run] at h
    cases hs : step parseLen s c with
    | cont s' => rw [hs] at h; exact ih s' (step_J parseLen s s' c hj hs) h
    | done a' => rw [hs] at h; cases h; exact step_done parseLen s c a hj hs
    | err e => rw [hs] at h; cases h
    | panic => rw [hs] at h; cases h

theorem run_no_panic (cs : List Char) (s : St L) : run parseLen s cs ≠ .panic := by
  induction cs generalizing s with
  | nil => simp [run]
  | cons c cs ih =>
    simp only [run]
    cases hs : step parseLen s c with
    | cont s' => exact ih s'
    | done a' => simp
    | err e => simp
    | panic => exact absurd hs (step_no_panic parseLen s c)

/-- C02 (prototype): the parser is total, never panics, and every returned arena is a single rooted tree
    that contains all of its nodes (every non-root slot hangs below a smaller slot) -/
theorem C02_parse_wf (cs : List Char) :
    parse parseLen cs ≠ .panic ∧ (∀ a, parse parseLen cs = .done a → Struct a ∧ 0 < a.size) := by
  have hj0 : J ({} : St L) := ⟨struct_empty, by simp, by simp, by simp⟩
  constructor
  · unfold parse
    have := run_no_panic parseLen cs ({} : St L)
    cases h : run parseLen {} cs <;> simp_all
  · intro a h
    unfold parse at h
    cases hr : run parseLen {} cs with
    | cont s' => simp [hr] at h
    | done a' => simp [hr] at h; subst h; exact run_done parseLen cs {} a' hj0 hr
    | err e => simp [hr] at h
    | panic => simp [hr] at h

end NW
