import PhyloModel.Newick.RoundTrip
/-! Scratch prototype: C01 round trip, tree induction -/
namespace NW
variable {L : Type} (parseLen : Label → Option L) (showLen : L → Label)

structure Clean (s : St L) : Prop where
  field : s.field = .name
  nm : s.curName = none
  ln : s.curLen = none
  cm : s.curComment = none
  q : s.quotes = false

def fieldAfter (l : Option L) (c : Option Label) : Field :=
  if c.isSome then .name else if l.isSome then .length else .name

/-- state after reading a node label from a clean state -/
def afterLabel (s : St L) (n : Option Label) (l : Option L) (c : Option Label) : St L :=
  { s with curName := n, curLen := l.map showLen, curComment := c, field := fieldAfter l c }

theorem run_label (hc : Codec parseLen showLen) (s : St L) (hs : Clean s)
    (n : Option Label) (l : Option L) (c : Option Label) (hn : nameWF n) (hcm : commentWF c)
    (rest : List Char) :
    run parseLen s (label showLen n l c ++ rest) = run parseLen (afterLabel showLen s n l c) rest := by
  obtain ⟨hf, hnm, hln, hcmm, hq⟩ := hs
  unfold label
  -- name part
  have h1 : run parseLen s (n.getD []) = .cont { s with curName := n } := by
    cases n with
    | none => simp only [Option.getD_none, run]; congr 1; apply St.ext <;> simp_all
    | some nm =>
      obtain ⟨hne, hok⟩ := hn
      simp only [Option.getD_some]
      rw [run_name parseLen nm s hf (by simpa [hq] using hok)]
      congr 1
      apply St.ext <;> simp_all [appendTo]
  rw [List.append_assoc, List.append_assoc, run_append_cont parseLen _ _ _ _ h1]
  -- length part
  have h2 : run parseLen { s with curName := n } (lenPart showLen l)
      = .cont { s with curName := n, curLen := l.map showLen, field := if l.isSome then .length else .name } := by
    cases l with
    | none => simp only [lenPart, run]; congr 1; apply St.ext <;> simp_all
    | some v =>
      simp only [lenPart]
      have hstep : step parseLen { s with curName := n } ':' = .cont { s with curName := n, field := .length } := by
        simp [step, hq, hf, isWs, classify]
      simp only [run, hstep]
      rw [run_plain_len parseLen (showLen v) _ (hc.plainChars v) (by simp [hq]) (by simp)]
      have := hc.nonempty v
      congr 1
      apply St.ext <;> simp_all [appendTo]
  rw [run_append_cont parseLen _ _ _ _ h2]
  -- comment part
  cases c with
  | none =>
    simp only [commentPart, List.nil_append]
    congr 1
    cases l <;> (apply St.ext <;> simp_all [afterLabel, fieldAfter])
  | some cm =>
    obtain ⟨hne, hnb⟩ := hcm
    simp only [commentPart, List.cons_append, List.append_assoc]
    have hstep : ∀ (t : St L), t.quotes = false → t.field ≠ .comment →
        step parseLen t '[' = .cont { t with field := .comment } := by
      intro t htq htf
      simp [step, htq, htf, isWs, classify]
    simp only [run]
    rw [hstep _ (by simp [hq]) (by cases l <;> simp [hf])]
    simp only []
    rw [run_append_cont parseLen _ _ cm _ (run_comment parseLen cm _ hnb (by simp) (by simp [hq]))]
    have hstep2 : ∀ (t : St L), t.quotes = false → t.field = .comment →
        step parseLen t ']' = .cont { t with field := .name } := by
      intro t htq htf
      simp [step, htq, htf, isWs, classify]
    simp only [List.singleton_append, run]
    rw [hstep2 _ (by simp [hq]) (by simp)]
    simp only []
    congr 1
    apply St.ext <;> simp_all [afterLabel, fieldAfter, appendTo]

end NW
