import PhyloModel.Newick.Names
namespace NW
variable {L : Type} (parseLen : Label → Option L)

theorem step_done_ArenaOK (s : St L) (c : Char) (a : Array (PNode L)) (hj : J s) (hn : NI s)
    (h : step parseLen s c = .done a) : ArenaOK a := by
  unfold step at h
  split at h
  · cases h
  split at h
  · cases h
  split at h
  · cases h
  split at h
  · split at h
    · cases h
    · unfold stepField at h
      repeat' (first | cases h | split at h)
  · cases h
  · cases h
  · cases h
  · repeat' (first | cases h | split at h)
  · split at h
    · cases h
    · cases hc : commit parseLen s with
      | cont s1 => simp [hc] at h
      | done a' => exfalso; unfold commit at hc; repeat' (first | cases hc | split at hc)
      | err e => simp [hc] at h
      | panic => simp [hc] at h
  · split at h
    · cases h
    · cases hc : commit parseLen s with
      | cont s1 => simp only [hc] at h; split at h <;> cases h
      | done a' => exfalso; unfold commit at hc; repeat' (first | cases hc | split at hc)
      | err e => simp [hc] at h
      | panic => simp [hc] at h
  · -- semi
    split at h
    · cases h
    · have key : ∀ (b : Array (PNode L)) (i : Nat) (edge : Option L), ArenaOK b →
          ArenaOK (b.modify i (fun n => { n with name := s.curName, comment := s.curComment, len := orKeep edge n.len })) := by
        intro b i edge hb k
        rw [nd_modify]; split
        · exact ⟨hn.nm, hn.cm⟩
        · exact hb k
      cases hci : s.curIdx with
      | some i =>
        have hi := hj.cur i hci
        simp only [hci, hi, ↓reduceIte] at h
        cases hpe : parseEdge parseLen s.curLen with
        | none => simp [hpe] at h
        | some edge => simp only [hpe, Res.done.injEq] at h; subst h; exact key _ _ _ hn.ar
      | none =>
        simp only [hci] at h
        by_cases hsz : s.nodes.size = 0
        · simp only [hsz, ↓reduceIte] at h
          cases hpe : parseEdge parseLen s.curLen with
          | none => simp [hpe] at h
          | some edge =>
            simp only [hpe, Res.done.injEq] at h; subst h
            exact key _ _ _ (arenaOK_push_dflt _ hn.ar)
        · simp [hsz] at h
  · unfold stepField at h
    repeat' (first | cases h | split at h)

theorem run_done_ArenaOK (cs : List Char) (hq : ∀ c ∈ cs, c ≠ '"') (s : St L) (a : Array (PNode L)) (hj : J s)
    (hn : NI s) (h : run parseLen s cs = .done a) : ArenaOK a := by
  induction cs generalizing s with
  | nil => simp [run] at h
  | cons c cs ih =>
    simp only [run] at h
    cases hs : step parseLen s c with
    | cont s' =>
      rw [hs] at h
      exact ih (fun d hd => hq d (by simp [hd])) s' (step_J parseLen s s' c hj hs)
        (step_NI parseLen s s' c (hq c (by simp)) hj hn hs) h
    | done a' => rw [hs] at h; cases h; exact step_done_ArenaOK parseLen s c a hj hn hs
    | err e => rw [hs] at h; cases h
    | panic => rw [hs] at h; cases h

/-- a non-empty all-plain name is well formed for the round trip -/
theorem plain_nameOK (nm : Label) (h : ∀ c ∈ nm, plain c = true) : nameOKFrom false nm = true := by
  induction nm with
  | nil => simp [nameOKFrom]
  | cons c cs ih =>
    have hc := h c (by simp)
    have hne : c ≠ '"' := by intro hq; subst hq; simp [plain, classify] at hc
    simp [nameOKFrom, hne, hc, ih (fun d hd => h d (by simp [hd]))]

/-- C02 (prototype), normal-form hypothesis: quote-free text only ever yields labels C01 can round-trip -/
theorem C02_labels_ok (cs : List Char) (hq : ∀ c ∈ cs, c ≠ '"') (a : Array (PNode L))
    (h : parse parseLen cs = .done a) :
    ∀ i, nameWF (nd a i).name ∧ commentWF (nd a i).comment := by
  have hj0 : J ({} : St L) := ⟨struct_empty, by simp, by simp, by simp⟩
  have hn0 : NI ({} : St L) := ⟨rfl, plainName_none, commentOK_none, arenaOK_empty⟩
  unfold parse at h
  cases hr : run parseLen {} cs with
  | cont s' => simp [hr] at h
  | err e => simp [hr] at h
  | panic => simp [hr] at h
  | done a' =>
    simp [hr] at h; subst h
    have hok := run_done_ArenaOK parseLen cs hq {} a' hj0 hn0 hr
    intro i
    obtain ⟨h1, h2⟩ := hok i
    constructor
    · cases hnm : (nd a' i).name with
      | none => simp [nameWF]
      | some nm =>
        obtain ⟨g1, g2⟩ := h1 nm hnm
        exact ⟨g1, plain_nameOK nm g2⟩
    · cases hcm : (nd a' i).comment with
      | none => simp [commentWF]
      | some cm => exact h2 cm hcm

end NW
