import PhyloModel.Newick.Basic
/-! Scratch prototype: C01 round trip, run lemmas -/
namespace NW
variable {L : Type} (parseLen : Label → Option L) (showLen : L → Label)

structure Codec : Prop where
  rt : ∀ l, parseLen (showLen l) = some l
  plainChars : ∀ l c, c ∈ showLen l → plain c = true
  nonempty : ∀ l, showLen l ≠ []

/-- quote automaton: a name is OK from quote-state `q` -/
def nameOKFrom : Bool → List Char → Bool
  | q, [] => !q
  | true, c :: cs => if c = '"' then nameOKFrom false cs else nameOKFrom true cs
  | false, c :: cs => if c = '"' then nameOKFrom true cs else plain c && nameOKFrom false cs

def nameWF : Option Label → Prop
  | none => True
  | some nm => nm ≠ [] ∧ nameOKFrom false nm = true
def commentWF : Option Label → Prop
  | none => True
  | some c => c ≠ [] ∧ ∀ ch ∈ c, ch ≠ ']'

theorem run_append_cont (s s' : St L) (xs ys : List Char) (h : run parseLen s xs = .cont s') :
    run parseLen s (xs ++ ys) = run parseLen s' ys := by
  induction xs generalizing s with
  | nil => simp [run] at h; subst h; rfl
  | cons c cs ih =>
    simp only [List.cons_append, run] at h ⊢
    split at h <;> simp_all

theorem classify_plain {c : Char} (h : plain c = true) : classify c = .other := by
  simp [plain] at h; exact h.1
theorem plain_not_ws {c : Char} (h : plain c = true) : isWs c = false := by
  simp [plain] at h; exact h.2

def appendTo (o : Option Label) (xs : List Char) : Option Label :=
  if xs = [] then o else some (o.getD [] ++ xs)

theorem appendTo_cons (o : Option Label) (c : Char) (cs : List Char) :
    appendTo (pushc o c) cs = appendTo o (c :: cs) := by
  cases cs <;> simp [appendTo, pushc]

/-- reading a well-quoted name in field `name` -/
theorem run_name (xs : List Char) (s : St L) (hf : s.field = .name)
    (hok : nameOKFrom s.quotes xs = true) :
    run parseLen s xs = .cont { s with curName := appendTo s.curName xs, quotes := false } := by
  induction xs generalizing s with
  | nil =>
    simp [nameOKFrom] at hok
    cases s; simp_all [run, appendTo]
  | cons c cs ih =>
    cases hq : s.quotes with
    | true =>
      rw [hq] at hok
      by_cases hc : c = '"'
      · subst hc
        simp [nameOKFrom] at hok
        have h1 : step parseLen s '"' = .cont { s with quotes := false, curName := pushc s.curName '"' } := by
          simp [step, hq, hf, isWs, classify]
        simp only [run, h1]
        rw [ih _ (by simp [hf]) (by simpa using hok)]
        simp [appendTo_cons]
      · simp [nameOKFrom, hc] at hok
        have h1 : step parseLen s c = .cont { s with curName := pushc s.curName c } := by
          simp [step, hq, hf, hc]
        simp only [run, h1]
        rw [ih _ (by simp [hf]) (by simpa [hq] using hok)]
        simp [appendTo_cons]
    | false =>
      rw [hq] at hok
      by_cases hc : c = '"'
      · subst hc
        simp [nameOKFrom] at hok
        have h1 : step parseLen s '"' = .cont { s with quotes := true, curName := pushc s.curName '"' } := by
          simp [step, hq, hf, isWs, classify]
        simp only [run, h1]
        rw [ih _ (by simp [hf]) (by simpa using hok)]
        simp [appendTo_cons]
      · simp [nameOKFrom, hc] at hok
        have h1 : step parseLen s c = .cont { s with curName := pushc s.curName c } := by
          simp [step, hq, hf, plain_not_ws hok.1, classify_plain hok.1, stepField]
        simp only [run, h1]
        rw [ih _ (by simp [hf]) (by simpa [hq] using hok.2)]
        simp [appendTo_cons]

theorem run_plain_len (xs : List Char) (s : St L) (hx : ∀ c ∈ xs, plain c = true)
    (hq : s.quotes = false) (hf : s.field = .length) :
    run parseLen s xs = .cont { s with curLen := appendTo s.curLen xs } := by
  induction xs generalizing s with
  | nil => cases s; simp [run, appendTo]
  | cons c cs ih =>
    have hc := hx c (by simp)
    have h1 : step parseLen s c = .cont { s with curLen := pushc s.curLen c } := by
      simp [step, hq, hf, plain_not_ws hc, classify_plain hc, stepField]
    simp only [run, h1]
    rw [ih _ (fun d hd => hx d (by simp [hd])) (by simp [hq]) (by simp [hf])]
    simp [appendTo_cons]

theorem run_comment (xs : List Char) (s : St L) (hx : ∀ c ∈ xs, c ≠ ']')
    (hf : s.field = .comment) (hq : s.quotes = false) :
    run parseLen s xs = .cont { s with curComment := appendTo s.curComment xs } := by
  induction xs generalizing s with
  | nil => cases s; simp [run, appendTo]
  | cons c cs ih =>
    have hc := hx c (by simp)
    have h1 : step parseLen s c = .cont { s with curComment := pushc s.curComment c } := by
      simp [step, hq, hf, hc]
    simp only [run, h1]
    rw [ih _ (fun d hd => hx d (by simp [hd])) (by simp [hf]) (by simp [hq])]
    simp [appendTo_cons]

end NW
