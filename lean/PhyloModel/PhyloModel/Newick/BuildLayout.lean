import PhyloModel.Newick.Layout
/-! Scratch prototype: buildT lays the tree out in pre-order -/
namespace NW
variable {L : Type}

/-- what `buildKids`/`buildT` guarantee: everything below `a.size` except `p` is untouched, `p` only gains children -/
structure Frame (a r : Array (PNode L)) (p : Nat) (newKids : List Nat) (grow : Nat) : Prop where
  size : r.size = a.size + grow
  other : ∀ j, j < a.size → j ≠ p → nd r j = nd a j
  par : nd r p = { nd a p with children := (nd a p).children ++ newKids }

mutual
theorem buildT_layout : ∀ (t : RTree L) (a : Array (PNode L)) (p : Nat), p < a.size →
    Layout (buildT a p t) a.size (some p) t ∧ Frame a (buildT a p t) p [a.size] (sz t)
  | .node n l c kids, a, p, hp => by
    have hac := nd_addChild a p hp
    have ⟨hL, hF⟩ := buildKids_layout kids (addChild a p) a.size (by simp)
    simp only [size_addChild] at hL hF
    obtain ⟨hFs, hFo, hFp⟩ := hF
    simp only [size_addChild] at hFs hFo
    have hidlt : a.size < (buildKids (addChild a p) a.size kids).size := by omega
    have hsf := nd_setFields (buildKids (addChild a p) a.size kids) a.size hidlt n l c
    have hself : nd (addChild a p) a.size = { parent := some p, depth := (nd a p).depth + 1 } := by
      rw [hac]; simp
    constructor
    · -- Layout
      simp only [buildT, Layout]
      rw [hsf a.size]
      simp only [↓reduceIte, size_setFields]
      rw [hFp, hself]
      refine ⟨hidlt, by simp [orKeep]; cases n <;> rfl, by simp, by simp, by simp, by simp, ?_⟩
      apply layoutL_stable _ _ kids (a.size + 1) a.size (by simp) _ hL
      intro x hx1 hx2
      rw [hsf x]
      have : x ≠ a.size := by omega
      simp [this]
    · -- Frame
      simp only [buildT]
      constructor
      · simp [hFs]; omega
      · intro j hj hjp
        rw [hsf j]
        have : j ≠ a.size := by omega
        simp only [this, ↓reduceIte]
        rw [hFo j (by omega) this, hac j]
        simp [this, hjp]
      · rw [hsf p]
        have : p ≠ a.size := by omega
        simp only [this, ↓reduceIte]
        rw [hFo p (by omega) this, hac p]
        simp [this]
theorem buildKids_layout : ∀ (ks : List (RTree L)) (a : Array (PNode L)) (p : Nat), p < a.size →
    LayoutL (buildKids a p ks) a.size p ks ∧ Frame a (buildKids a p ks) p (kidIds a.size ks) (szL ks)
  | [], a, p, hp => by
    simp only [buildKids, LayoutL, kidIds, true_and]
    exact ⟨by simp, fun _ _ _ => rfl, by simp⟩
  | k :: ks, a, p, hp => by
    have ⟨hL1, hF1⟩ := buildT_layout k a p hp
    obtain ⟨hs1, ho1, hp1⟩ := hF1
    have ⟨hL2, hF2⟩ := buildKids_layout ks (buildT a p k) p (by omega)
    obtain ⟨hs2, ho2, hp2⟩ := hF2
    rw [hs1] at hL2 hs2 ho2 hp2
    constructor
    · simp only [buildKids, LayoutL]
      refine ⟨?_, hL2⟩
      apply layout_stable _ _ k a.size (some p) (by omega) _ hL1
      intro j hj1 hj2
      exact ho2 j (by omega) (by omega)
    · simp only [buildKids]
      constructor
      · simp [hs2]; omega
      · intro j hj hjp
        rw [ho2 j (by omega) hjp, ho1 j hj hjp]
      · rw [hp2, hp1]
        simp [kidIds]
end

theorem rootArena_layout : ∀ t : RTree L, Layout (rootArena t) 0 none t
  | .node n l c kids => by
    have ⟨hL, hF⟩ := buildKids_layout kids (#[({} : PNode L)]) 0 (by simp)
    obtain ⟨hs, ho, hp⟩ := hF
    simp only [List.size_toArray, List.length_cons, List.length_nil, Nat.zero_add] at hL hs ho hp
    have h0 : nd (#[({} : PNode L)]) 0 = {} := by simp [nd]
    have hpos : 0 < (buildKids (#[({} : PNode L)]) 0 kids).size := by omega
    simp only [rootArena, Layout]
    rw [nd_modify]
    simp only [hpos, and_self, ↓reduceIte, Array.size_modify]
    rw [hp, h0]
    refine ⟨trivial, by simp, by simp [orKeep]; cases l <;> rfl, by simp, by simp, by simp, ?_⟩
    apply layoutL_stable _ _ kids 1 0 (by simp) _ hL
    intro x hx1 hx2
    rw [nd_modify]
    have : x ≠ 0 := by omega
    simp [this]

/-- C01 (prototype): parsing the written form of a well-formed tree yields an arena that represents it -/
theorem C01_roundtrip {parseLen : Label → Option L} {showLen : L → Label} (hc : Codec parseLen showLen)
    (t : RTree L) (hwf : WFT t) :
    ∃ a, parse parseLen (write showLen t ++ [';']) = .done a ∧ Layout a 0 none t :=
  ⟨rootArena t, roundtrip_run parseLen showLen hc t hwf [], rootArena_layout t⟩

end NW
