import PhyloModel.Newick.LexSync
/-! Accepted text has balanced STRUCTURAL parentheses — for every text (quotes and comments anywhere).
    `accepted_is_balanced_exact`: unconditional, for the exact token stream `ltoks`.
    `accepted_is_balanced_toks3`: for the plain three-mode lexical reading `toks3` (plain / quoted / comment),
    given that the number parser refuses lexemes containing a double quote (as Rust's `f64::from_str` does):
    a `"` inside a branch length ends up in the length lexeme, so such text is never accepted. -/
namespace NW
variable {L : Type} (parseLen : Label → Option L)

/-- effect of a continuing step on the open-counter and the stack, in lexical terms -/
theorem step_cont_count (s s' : St L) (c : Char) (m : LMode) (hs : Sync s m)
    (h : step parseLen s c = .cont s') :
    ¬ (m.tokenMode ∧ c = ';') ∧
    (m.tokenMode → c = '(' → s'.opens = s.opens + 1 ∧ s'.stack.length = s.stack.length + 1) ∧
    (m.tokenMode → c = ')' → s'.opens = s.opens - 1 ∧ s'.stack.length + 1 = s.stack.length) ∧
    (¬ (m.tokenMode ∧ (c = '(' ∨ c = ')')) → s'.opens = s.opens ∧ s'.stack = s.stack) := by
  obtain ⟨hsf, hsq⟩ := hs
  unfold step at h
  split at h
  next hg =>
    cases h
    simp only [Bool.and_eq_true, beq_iff_eq, bne_iff_ne, ne_eq] at hg
    cases m <;> simp_all [LMode.tokenMode, LMode.fld, LMode.q]
  split at h
  next hg1 hg =>
    cases h
    simp only [Bool.and_eq_true, beq_iff_eq, bne_iff_ne, ne_eq] at hg
    cases m <;> simp_all [LMode.tokenMode, LMode.fld, LMode.q]
  next hg1 hg2 =>
  split at h
  next hws =>
    cases h
    simp only [Bool.and_eq_true, Bool.not_eq_true'] at hws
    obtain ⟨k1, k2, k3, k4, k5, k6, k7, k8⟩ := classify_other (isWs_other hws.1)
    simp [k4, k7, k8]
  next hws =>
  simp only [Bool.and_eq_true, Bool.not_eq_true', beq_iff_eq, bne_iff_ne, ne_eq] at hws hg1 hg2
  split at h
  next hk =>
    have := classify_quote hk; subst this
    split at h
    · cases h; simp
    · obtain ⟨k1, k2, k3, k4⟩ := stepField_lex s s' _ h
      simp [k2, k3]
  next hk =>
    have := classify_lbr hk; subst this
    cases h; simp
  next hk =>
    have := classify_rbr hk; subst this
    cases h; simp
  next hk =>
    have := classify_colon hk; subst this
    cases h; simp
  next hk =>
    have := classify_lpar_eq hk; subst this
    have hx : m.tokenMode := by
      cases m <;> simp_all [LMode.tokenMode, LMode.fld, LMode.q]
    have key : ∀ s' : St L, s'.opens = s.opens + 1 → s'.stack.length = s.stack.length + 1 →
        ¬ (m.tokenMode ∧ '(' = ';') ∧
        (m.tokenMode → '(' = '(' → s'.opens = s.opens + 1 ∧ s'.stack.length = s.stack.length + 1) ∧
        (m.tokenMode → '(' = ')' → s'.opens = s.opens - 1 ∧ s'.stack.length + 1 = s.stack.length) ∧
        (¬ (m.tokenMode ∧ ('(' = '(' ∨ '(' = ')')) → s'.opens = s.opens ∧ s'.stack = s.stack) := by
      intro s' e1 e2
      simp [hx, e1, e2]
    split at h
    next hst =>
      split at h
      · cases h; exact key _ rfl (by simp [hst])
      · cases h
    next p ps hst =>
      split at h
      · cases h; exact key _ rfl (by simp)
      · cases h
  next hk =>
    have := classify_comma hk; subst this
    split at h
    · cases h
    · split at h
      next s1 hcm =>
        cases h
        obtain ⟨k1, k2, k3, k4⟩ := commit_lex parseLen s s1 hcm
        simp [k2, k3]
      next r hr => exact absurd h (hr s')
  next hk =>
    have := classify_rpar_eq hk; subst this
    split at h
    · cases h
    · split at h
      next s1 hcm =>
        obtain ⟨k1, k2, k3, k4⟩ := commit_lex parseLen s s1 hcm
        split at h
        next p ps hst =>
          cases h
          have hx : m.tokenMode := by
            cases m <;> simp_all [LMode.tokenMode, LMode.fld, LMode.q]
          have hlen : s.stack.length = ps.length + 1 := by rw [← k2, hst]; simp
          simp [hx, k3, hlen]
        · cases h
      next r hr => exact absurd h (hr s')
  next hk =>
    exfalso
    split at h
    · cases h
    · repeat' (first | (cases h; done) | split at h)
  next hk =>
    obtain ⟨k1, k2, k3, k4, k5, k6, k7, k8⟩ := classify_other hk
    obtain ⟨e1, e2, e3, e4⟩ := stepField_lex s s' _ h
    simp [k4, k7, k8, e2, e3]

/-- the parser finishes only on a structural `;` with nothing open -/
theorem step_done_lex (s : St L) (c : Char) (a : Array (PNode L)) (m : LMode) (hs : Sync s m)
    (h : step parseLen s c = .done a) : m.tokenMode ∧ c = ';' ∧ s.opens = 0 := by
  obtain ⟨hsf, hsq⟩ := hs
  have hc := step_done_semi parseLen s c a h
  subst hc
  unfold step at h
  split at h
  · cases h
  split at h
  · cases h
  next hg1 hg2 =>
  simp only [Bool.and_eq_true, beq_iff_eq, bne_iff_ne, ne_eq] at hg1 hg2
  have hx : m.tokenMode := by
    cases m <;> simp_all [LMode.tokenMode, LMode.fld, LMode.q]
  refine ⟨hx, rfl, ?_⟩
  simp only [isWs_semi, Bool.false_and, Bool.false_eq_true, ↓reduceIte, classify_semi'] at h
  split at h
  · cases h
  next hz => simpa using hz

/-- counting invariant: `pre` is the structural parenthesis stream read so far -/
structure BalX (s : St L) (pre : List Char) : Prop where
  opens : s.opens + pre.count ')' = pre.count '('
  stack : s.stack.length = s.opens
  pref : ∀ p, p <+: pre → p.count ')' ≤ p.count '('

theorem step_balX (s s' : St L) (c : Char) (m : LMode) (pre : List Char) (hs : Sync s m)
    (h : step parseLen s c = .cont s') (b : BalX s pre) :
    BalX s' (if m.tokenMode ∧ (c = '(' ∨ c = ')') then pre ++ [c] else pre) := by
  obtain ⟨_, hA, hB, hC⟩ := step_cont_count parseLen s s' c m hs h
  have hbo := b.opens
  have hbs := b.stack
  by_cases hx : m.tokenMode ∧ (c = '(' ∨ c = ')')
  · rw [if_pos hx]
    obtain ⟨hx1, hc | hc⟩ := hx
    · subst hc
      obtain ⟨e1, e2⟩ := hA hx1 rfl
      have c1 : (pre ++ ['(']).count '(' = pre.count '(' + 1 := by simp [List.count_append]
      have c2 : (pre ++ ['(']).count ')' = pre.count ')' := by simp [List.count_append]
      refine ⟨by rw [c1, c2, e1]; omega, by rw [e2, e1]; omega, ?_⟩
      intro p hp
      rw [List.prefix_concat_iff] at hp
      rcases hp with rfl | hp
      · rw [c1, c2]; omega
      · exact b.pref p hp
    · subst hc
      obtain ⟨e1, e2⟩ := hB hx1 rfl
      have c1 : (pre ++ [')']).count '(' = pre.count '(' := by simp [List.count_append]
      have c2 : (pre ++ [')']).count ')' = pre.count ')' + 1 := by simp [List.count_append]
      refine ⟨by rw [c1, c2, e1]; omega, by rw [e1]; omega, ?_⟩
      intro p hp
      rw [List.prefix_concat_iff] at hp
      rcases hp with rfl | hp
      · rw [c1, c2]; omega
      · exact b.pref p hp
  · rw [if_neg hx]
    obtain ⟨e1, e2⟩ := hC hx
    exact ⟨by rw [e1]; exact hbo, by rw [e2, e1]; exact hbs, b.pref⟩

theorem run_done_balX : ∀ (cs : List Char) (s : St L) (m : LMode) (pre : List Char) (a : Array (PNode L)),
    Sync s m → BalX s pre → run parseLen s cs = .done a →
    ∃ ts, ltoks m cs = some ts ∧ Balanced (pre ++ ts)
  | [], s, m, pre, a, _, _, h => by simp [run] at h
  | c :: cs, s, m, pre, a, hs, b, h => by
    rw [run] at h
    cases hst : step parseLen s c with
    | cont s' =>
      rw [hst] at h; simp only at h
      have b' := step_balX parseLen s s' c m pre hs hst b
      have hm := step_cont_sync parseLen s s' c m hs hst
      obtain ⟨hD, _, _, _⟩ := step_cont_count parseLen s s' c m hs hst
      obtain ⟨ts, e1, e2⟩ := run_done_balX cs s' _ _ a hm b' h
      rw [ltoks, if_neg hD, e1]
      by_cases hx : m.tokenMode ∧ (c = '(' ∨ c = ')')
      · rw [if_pos hx] at e2 ⊢
        exact ⟨c :: ts, rfl, by simpa using e2⟩
      · rw [if_neg hx] at e2 ⊢
        exact ⟨ts, rfl, e2⟩
    | done a' =>
      obtain ⟨hx, rfl, hz⟩ := step_done_lex parseLen s c a' m hs hst
      refine ⟨[], by simp [ltoks, hx], ?_⟩
      have := b.opens
      simp only [List.append_nil]
      exact ⟨by omega, b.pref⟩
    | err e => rw [hst] at h; cases h
    | panic => rw [hst] at h; cases h

/-- **unbalanced structural parentheses are rejected, for every text** (exact token stream): an accepted text
    has a structural `;`, and the structural parentheses before the first one are balanced -/
theorem accepted_is_balanced_exact (cs : List Char) (a : Array (PNode L)) (h : parse parseLen cs = .done a) :
    ∃ ts, ltoks .name cs = some ts ∧ Balanced ts := by
  unfold parse at h
  cases hr : run parseLen {} cs with
  | cont s' => rw [hr] at h; cases h
  | done a' =>
    have b0 : BalX ({} : St L) [] := ⟨by simp, by simp, by intro p hp; simp at hp; subst hp; simp⟩
    obtain ⟨ts, e1, e2⟩ := run_done_balX parseLen cs {} .name [] a' sync_init b0 hr
    exact ⟨ts, e1, by simpa using e2⟩
  | err e => rw [hr] at h; cases h
  | panic => rw [hr] at h; cases h

/-! ### a `"` inside a branch length is never accepted (if the number parser refuses it) -/

/-- the number parser refuses every lexeme containing a double quote (true of Rust's `f64::from_str`) -/
def QuoteRefusing (parseLen : Label → Option L) : Prop := ∀ l, '"' ∈ l → parseLen l = none

/-- the pending length lexeme contains a `"` -/
def Doomed (s : St L) : Prop := ∃ l, s.curLen = some l ∧ '"' ∈ l

theorem doomed_parseEdge (hpl : QuoteRefusing parseLen) (s : St L) (hd : Doomed s) :
    parseEdge parseLen s.curLen = none := by
  obtain ⟨l, h1, h2⟩ := hd
  simp [h1, parseEdge, hpl l h2]

theorem doomed_commit (hpl : QuoteRefusing parseLen) (s s' : St L) (hd : Doomed s) :
    commit parseLen s ≠ .cont s' := by
  intro h
  have hpe := doomed_parseEdge parseLen hpl s hd
  unfold commit at h
  rw [hpe] at h
  repeat' (first | (cases h; done) | split at h)

theorem doomed_stepField (s s' : St L) (c : Char) (hd : Doomed s) (h : stepField s c = .cont s') : Doomed s' := by
  obtain ⟨l, h1, h2⟩ := hd
  unfold stepField at h
  split at h
  · cases h; exact ⟨l, h1, h2⟩
  · split at h
    · cases h
    · cases h; exact ⟨l ++ [c], by simp [pushc, h1], by simp [h2]⟩
  · cases h

theorem doomed_step_cont (hpl : QuoteRefusing parseLen) (s s' : St L) (c : Char) (hd : Doomed s)
    (h : step parseLen s c = .cont s') : Doomed s' := by
  have keep : ∀ s1 : St L, s1.curLen = s.curLen → Doomed s1 := by
    intro s1 e; obtain ⟨l, h1, h2⟩ := hd; exact ⟨l, by rw [e, h1], h2⟩
  unfold step at h
  split at h
  · cases h; exact keep _ rfl
  split at h
  · cases h; exact keep _ rfl
  split at h
  · cases h; exact hd
  split at h
  · split at h
    · cases h; exact keep _ rfl
    · exact doomed_stepField s s' c hd h
  · cases h; exact keep _ rfl
  · cases h; exact keep _ rfl
  · cases h; exact keep _ rfl
  · repeat' (first | (cases h; done) | split at h)
    all_goals (cases h; exact keep _ rfl)
  · split at h
    · cases h
    · split at h
      next s1 hcm => exact absurd hcm (doomed_commit parseLen hpl s s1 hd)
      next r hr => exact absurd h (hr s')
  · split at h
    · cases h
    · split at h
      next s1 hcm => exact absurd hcm (doomed_commit parseLen hpl s s1 hd)
      next r hr => exact absurd h (hr s')
  · exfalso
    split at h
    · cases h
    · repeat' (first | (cases h; done) | split at h)
  · exact doomed_stepField s s' c hd h

theorem doomed_step_done (hpl : QuoteRefusing parseLen) (s : St L) (c : Char) (a : Array (PNode L))
    (hd : Doomed s) : step parseLen s c ≠ .done a := by
  intro h
  have hc := step_done_semi parseLen s c a h
  subst hc
  have hpe := doomed_parseEdge parseLen hpl s hd
  unfold step at h
  split at h
  · cases h
  split at h
  · cases h
  simp only [isWs_semi, Bool.false_and, Bool.false_eq_true, ↓reduceIte, classify_semi', hpe] at h
  repeat' (first | (cases h; done) | split at h)

theorem doomed_run (hpl : QuoteRefusing parseLen) : ∀ (cs : List Char) (s : St L) (a : Array (PNode L)),
    Doomed s → run parseLen s cs ≠ .done a
  | [], s, a, _ => by simp [run]
  | c :: cs, s, a, hd => by
    rw [run]
    cases hst : step parseLen s c with
    | cont s' => exact doomed_run hpl cs s' a (doomed_step_cont parseLen hpl s s' c hd hst)
    | done a' => exact absurd hst (doomed_step_done parseLen hpl s c a' hd)
    | err e => simp
    | panic => simp

/-- a `"` read in length mode makes the state doomed -/
theorem step_len_quote (s s' : St L) (hs : Sync s .length) (h : step parseLen s '"' = .cont s') : Doomed s' := by
  obtain ⟨hsf, hsq⟩ := hs
  simp only [LMode.fld, LMode.q] at hsf hsq
  have : step parseLen s '"' = .cont { s with curLen := pushc s.curLen '"' } := by
    simp [step, hsf, hsq, isWs, classify, stepField]
  rw [this] at h
  cases h
  exact ⟨s.curLen.getD [] ++ ['"'], by simp [pushc], by simp⟩

/-- accepted text has no `"` inside a branch length (before the finishing `;`) -/
theorem run_done_lenQuoteFree (hpl : QuoteRefusing parseLen) : ∀ (cs : List Char) (s : St L) (m : LMode)
    (a : Array (PNode L)), Sync s m → run parseLen s cs = .done a → lenQuoteFree m cs = true
  | [], s, m, a, _, h => by simp [run] at h
  | c :: cs, s, m, a, hs, h => by
    rw [run] at h
    rw [lenQuoteFree]
    cases hst : step parseLen s c with
    | cont s' =>
      rw [hst] at h; simp only at h
      obtain ⟨hD, _, _, _⟩ := step_cont_count parseLen s s' c m hs hst
      rw [if_neg hD]
      by_cases h2 : m = .length ∧ c = '"'
      · exfalso
        obtain ⟨rfl, rfl⟩ := h2
        exact doomed_run parseLen hpl cs s' a (step_len_quote parseLen s s' hs hst) h
      · rw [if_neg h2]
        exact run_done_lenQuoteFree hpl cs s' _ a (step_cont_sync parseLen s s' c m hs hst) h
    | done a' =>
      obtain ⟨hx, rfl, _⟩ := step_done_lex parseLen s c a' m hs hst
      simp [hx]
    | err e => rw [hst] at h; cases h
    | panic => rw [hst] at h; cases h

theorem accepted_lenQuoteFree (hpl : QuoteRefusing parseLen) (cs : List Char) (a : Array (PNode L))
    (h : parse parseLen cs = .done a) : lenQuoteFree .name cs = true := by
  unfold parse at h
  cases hr : run parseLen {} cs with
  | cont s' => rw [hr] at h; cases h
  | done a' => exact run_done_lenQuoteFree parseLen hpl cs {} .name a' sync_init hr
  | err e => rw [hr] at h; cases h
  | panic => rw [hr] at h; cases h

/-- **unbalanced parentheses are rejected, for every text, in the plain three-mode lexical reading**
    (plain / inside double quotes / inside a bracket comment) -/
theorem accepted_is_balanced_toks3 (hpl : QuoteRefusing parseLen) (cs : List Char) (a : Array (PNode L))
    (h : parse parseLen cs = .done a) :
    ∃ ts, toks3 .plain cs = some ts ∧ Balanced ts := by
  obtain ⟨ts, e1, e2⟩ := accepted_is_balanced_exact parseLen cs a h
  have := ltoks_eq_toks3 cs .name (accepted_lenQuoteFree parseLen hpl cs a h)
  simp only [LMode.proj] at this
  exact ⟨ts, by rw [← this]; exact e1, e2⟩

end NW
