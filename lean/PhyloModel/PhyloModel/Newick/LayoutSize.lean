import PhyloModel.Newick.Layout
namespace NW
variable {L : Type}

mutual
theorem layout_bound (a : Array (PNode L)) : ∀ (t : RTree L) (i : Nat) (par : Option Nat), Layout a i par t → i + sz t ≤ a.size
  | .node n l c kids, i, par, h => by
    rw [Layout] at h
    obtain ⟨hi, _, _, _, _, _, hL⟩ := h
    have := layoutL_bound a kids (i + 1) i hL
    rw [sz]
    rcases this with h0 | h1
    · rw [h0]; simp [szL]; omega
    · omega
theorem layoutL_bound (a : Array (PNode L)) : ∀ (ks : List (RTree L)) (j p : Nat), LayoutL a j p ks → ks = [] ∨ j + szL ks ≤ a.size
  | [], _, _, _ => Or.inl rfl
  | k :: ks, j, p, h => by
    rw [LayoutL] at h
    right
    have h1 := layout_bound a k j (some p) h.1
    rcases layoutL_bound a ks (j + sz k) p h.2 with h0 | h2
    · rw [h0]; simp [szL]; omega
    · rw [szL]; omega
end

end NW
