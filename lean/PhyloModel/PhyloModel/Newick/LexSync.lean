import PhyloModel.Newick.Lex
import PhyloModel.Newick.Balanced
/-! The parser follows the four-mode lexical machine `lnext` on every text: after each continuing step
    `(field, quotes)` is given by `lnext` of the previous mode (in particular the quote flag is only ever on in
    the name field), and the stack / open-counter move only on structural parentheses. -/
namespace NW
variable {L : Type} (parseLen : Label → Option L)

/-- the parser state is in lexical mode `m` -/
def Sync (s : St L) (m : LMode) : Prop := s.field = m.fld ∧ s.quotes = m.q

theorem sync_init : Sync ({} : St L) .name := ⟨rfl, rfl⟩

theorem classify_rbr {c : Char} (h : classify c = .rbr) : c = ']' := by
  unfold classify at h
  repeat' (split at h)
  all_goals first | (cases h; done) | assumption
theorem classify_colon {c : Char} (h : classify c = .colon) : c = ':' := by
  unfold classify at h
  repeat' (split at h)
  all_goals first | (cases h; done) | assumption
theorem classify_comma {c : Char} (h : classify c = .comma) : c = ',' := by
  unfold classify at h
  repeat' (split at h)
  all_goals first | (cases h; done) | assumption
theorem classify_other {c : Char} (h : classify c = .other) :
    c ≠ '"' ∧ c ≠ '[' ∧ c ≠ ']' ∧ c ≠ '(' ∧ c ≠ ':' ∧ c ≠ ',' ∧ c ≠ ')' ∧ c ≠ ';' := by
  unfold classify at h
  repeat' (split at h)
  all_goals first | (cases h; done) | (refine ⟨?_, ?_, ?_, ?_, ?_, ?_, ?_, ?_⟩ <;> assumption)

theorem isWs_other {c : Char} (h : isWs c = true) : classify c = .other := by
  unfold classify
  repeat' split
  all_goals first | rfl | (subst_vars; revert h; decide)

/-- what a continuing `commit` does to the lexical part and the stack -/
theorem commit_lex (s s' : St L) (h : commit parseLen s = .cont s') :
    s'.quotes = s.quotes ∧ s'.stack = s.stack ∧ s'.opens = s.opens ∧ s'.field = .name :=
  commit_cont parseLen s s' h

theorem stepField_lex (s s' : St L) (c : Char) (h : stepField s c = .cont s') :
    s'.quotes = s.quotes ∧ s'.stack = s.stack ∧ s'.opens = s.opens ∧ s'.field = s.field := by
  unfold stepField at h
  repeat' (first | (cases h; done) | split at h)
  all_goals (cases h; exact ⟨rfl, rfl, rfl, rfl⟩)

/-- lexical part of a continuing step -/
theorem step_cont_sync (s s' : St L) (c : Char) (m : LMode) (hs : Sync s m)
    (h : step parseLen s c = .cont s') : Sync s' (lnext m c) := by
  obtain ⟨hsf, hsq⟩ := hs
  unfold step at h
  split at h
  next hg =>
    cases h
    simp only [Bool.and_eq_true, beq_iff_eq, bne_iff_ne, ne_eq] at hg
    cases m <;> simp_all [Sync, LMode.fld, LMode.q, lnext]
  split at h
  next hg1 hg =>
    cases h
    simp only [Bool.and_eq_true, beq_iff_eq, bne_iff_ne, ne_eq] at hg
    cases m <;> simp_all [Sync, LMode.fld, LMode.q, lnext]
  next hg1 hg2 =>
  split at h
  next hws =>
    cases h
    simp only [Bool.and_eq_true, Bool.not_eq_true', beq_iff_eq, bne_iff_ne, ne_eq] at hws hg1 hg2
    obtain ⟨k1, k2, k3, k4, k5, k6, k7, k8⟩ := classify_other (isWs_other hws.1)
    cases m <;> simp_all [Sync, LMode.fld, LMode.q, lnext]
  next hws =>
  simp only [Bool.and_eq_true, Bool.not_eq_true', beq_iff_eq, bne_iff_ne, ne_eq] at hws hg1 hg2
  split at h
  next hk =>
    have := classify_quote hk; subst this
    split at h
    · cases h
      cases m <;> simp_all [Sync, LMode.fld, LMode.q, lnext]
    · obtain ⟨k1, k2, k3, k4⟩ := stepField_lex s s' _ h
      cases m <;> simp_all [Sync, LMode.fld, LMode.q, lnext]
  next hk =>
    have := classify_lbr hk; subst this
    cases h
    cases m <;> simp_all [Sync, LMode.fld, LMode.q, lnext]
  next hk =>
    have := classify_rbr hk; subst this
    cases h
    cases m <;> simp_all [Sync, LMode.fld, LMode.q, lnext]
  next hk =>
    have := classify_colon hk; subst this
    cases h
    cases m <;> simp_all [Sync, LMode.fld, LMode.q, lnext]
  next hk =>
    have := classify_lpar_eq hk; subst this
    have key : ∀ s' : St L, s'.field = s.field → s'.quotes = s.quotes → Sync s' (lnext m '(') := by
      intro s' e1 e2
      cases m <;> simp_all [Sync, LMode.fld, LMode.q, lnext]
    repeat' (first | (cases h; done) | split at h)
    all_goals (cases h; exact key _ rfl rfl)
  next hk =>
    have := classify_comma hk; subst this
    split at h
    · cases h
    · split at h
      next s1 hcm =>
        cases h
        obtain ⟨k1, k2, k3, k4⟩ := commit_lex parseLen s s1 hcm
        cases m <;> simp_all [Sync, LMode.fld, LMode.q, lnext]
      next r hr => exact absurd h (hr s')
  next hk =>
    have := classify_rpar_eq hk; subst this
    split at h
    · cases h
    · split at h
      next s1 hcm =>
        obtain ⟨k1, k2, k3, k4⟩ := commit_lex parseLen s s1 hcm
        split at h
        · cases h
          cases m <;> simp_all [Sync, LMode.fld, LMode.q, lnext]
        · cases h
      next r hr => exact absurd h (hr s')
  next hk =>
    exfalso
    split at h
    · cases h
    · repeat' (first | (cases h; done) | split at h)
  next hk =>
    obtain ⟨k1, k2, k3, k4, k5, k6, k7, k8⟩ := classify_other hk
    obtain ⟨e1, e2, e3, e4⟩ := stepField_lex s s' _ h
    cases m <;> simp_all [Sync, LMode.fld, LMode.q, lnext]

end NW
