import PhyloModel.Newick.Reject
/-! Accepted text has balanced parentheses: for text without `"` and `[` (where every parenthesis is
    structural) the parser only finishes at the first `;`, and the text before it has as many `(` as `)`,
    with no prefix closing more than it opened.  Contrapositive: unbalanced text is rejected. -/
namespace NW
variable {L : Type} (parseLen : Label → Option L)

theorem classify_quote {c : Char} (h : classify c = .quote) : c = '"' := by
  unfold classify at h
  repeat' (split at h)
  all_goals first | (cases h; done) | assumption
theorem classify_lbr {c : Char} (h : classify c = .lbr) : c = '[' := by
  unfold classify at h
  repeat' (split at h)
  all_goals first | (cases h; done) | assumption
theorem classify_lpar_eq {c : Char} (h : classify c = .lpar) : c = '(' := by
  unfold classify at h
  repeat' (split at h)
  all_goals first | (cases h; done) | assumption
theorem classify_rpar_eq {c : Char} (h : classify c = .rpar) : c = ')' := by
  unfold classify at h
  repeat' (split at h)
  all_goals first | (cases h; done) | assumption

theorem classify_lpar : classify '(' = .lpar := by decide
theorem classify_rpar : classify ')' = .rpar := by decide
theorem classify_semi' : classify ';' = .semi := by decide
theorem isWs_lpar : isWs '(' = false := by decide
theorem isWs_rpar : isWs ')' = false := by decide
theorem isWs_semi : isWs ';' = false := by decide

/-- state invariant along quote-free, comment-free text `pre` -/
structure Bal (s : St L) (pre : List Char) : Prop where
  nq : s.quotes = false
  nc : s.field ≠ .comment
  opens : s.opens + pre.count ')' = pre.count '('
  stack : s.stack.length = s.opens
  pref : ∀ p, p <+: pre → p.count ')' ≤ p.count '('

theorem commit_cont (s s' : St L) (h : commit parseLen s = .cont s') :
    s'.quotes = s.quotes ∧ s'.stack = s.stack ∧ s'.opens = s.opens ∧ s'.field = .name := by
  unfold commit at h
  repeat' (first | (cases h; done) | split at h)
  all_goals (cases h; exact ⟨rfl, rfl, rfl, rfl⟩)

theorem Bal.snoc_other {s s' : St L} {pre : List Char} {c : Char} (b : Bal s pre) (h1 : c ≠ '(') (h2 : c ≠ ')')
    (hq : s'.quotes = false) (hc : s'.field ≠ .comment) (ho : s'.opens = s.opens) (hs : s'.stack = s.stack) :
    Bal s' (pre ++ [c]) := by
  have c1 : (pre ++ [c]).count '(' = pre.count '(' := by
    simp [List.count_append, List.count_singleton, h1]
  have c2 : (pre ++ [c]).count ')' = pre.count ')' := by
    simp [List.count_append, List.count_singleton, h2]
  refine ⟨hq, hc, by rw [c1, c2, ho]; exact b.opens, by rw [hs, ho]; exact b.stack, ?_⟩
  intro p hp
  rw [List.prefix_concat_iff] at hp
  rcases hp with rfl | hp
  · rw [c1, c2]; have := b.opens; omega
  · exact b.pref p hp

theorem step_bal (s s' : St L) (c : Char) (pre : List Char) (h : step parseLen s c = .cont s')
    (hq : c ≠ '"') (hb : c ≠ '[') (b : Bal s pre) : Bal s' (pre ++ [c]) := by
  have hnq := b.nq
  have hnc : (s.field == Field.comment) = false := by
    cases hf : s.field <;> simp_all [b.nc]
  have hnc' := b.nc
  unfold step at h
  simp only [hnq, Bool.false_and, Bool.false_eq_true, ↓reduceIte, hnc, Bool.not_false, Bool.and_true] at h
  split at h
  next hws =>
    cases h
    exact b.snoc_other (by intro e; subst e; simp [isWs_lpar] at hws) (by intro e; subst e; simp [isWs_rpar] at hws)
      (by simp [hnq]) (by simpa using hnc') rfl rfl
  next hws =>
    split at h
    next hk => exact absurd (classify_quote hk) hq
    next hk => exact absurd (classify_lbr hk) hb
    next hk =>
      -- rbr
      cases h
      exact b.snoc_other (by intro e; subst e; rw [classify_lpar] at hk; cases hk)
        (by intro e; subst e; rw [classify_rpar] at hk; cases hk) (by simp [hnq]) (by simp) rfl rfl
    next hk =>
      -- colon
      cases h
      exact b.snoc_other (by intro e; subst e; rw [classify_lpar] at hk; cases hk)
        (by intro e; subst e; rw [classify_rpar] at hk; cases hk) (by simp [hnq]) (by simp) rfl rfl
    next hk =>
      -- lpar
      have hc := classify_lpar_eq hk
      subst hc
      have c1 : (pre ++ ['(']).count '(' = pre.count '(' + 1 := by simp [List.count_append]
      have c2 : (pre ++ ['(']).count ')' = pre.count ')' := by simp [List.count_append, List.count_singleton]
      have fin : ∀ s' : St L, s'.quotes = false → s'.field ≠ .comment → s'.opens = s.opens + 1 →
          s'.stack.length = s.stack.length + 1 → Bal s' (pre ++ ['(']) := by
        intro s' g1 g2 g3 g4
        refine ⟨g1, g2, by rw [c1, c2, g3]; have := b.opens; omega, by rw [g4, g3, b.stack], ?_⟩
        intro p hp
        rw [List.prefix_concat_iff] at hp
        rcases hp with rfl | hp
        · rw [c1, c2]; have := b.opens; omega
        · exact b.pref p hp
      split at h
      next hst =>
        split at h
        · cases h; exact fin _ (by simp [hnq]) (by simpa using hnc') rfl (by simp [hst])
        · cases h
      next p ps hst =>
        split at h
        · cases h; exact fin _ (by simp [hnq]) (by simpa using hnc') rfl (by simp)
        · cases h
    next hk =>
      -- comma
      split at h
      · cases h
      · split at h
        next s1 hcm =>
          cases h
          obtain ⟨k1, k2, k3, k4⟩ := commit_cont parseLen s s1 hcm
          exact b.snoc_other (by intro e; subst e; rw [classify_lpar] at hk; cases hk)
            (by intro e; subst e; rw [classify_rpar] at hk; cases hk) (by simp [k1, hnq]) (by simp [k4]) k3 k2
        next r hr => exact absurd h (hr s')
    next hk =>
      -- rpar
      have hc := classify_rpar_eq hk
      subst hc
      have c1 : (pre ++ [')']).count '(' = pre.count '(' := by simp [List.count_append, List.count_singleton]
      have c2 : (pre ++ [')']).count ')' = pre.count ')' + 1 := by simp [List.count_append]
      split at h
      · cases h
      · split at h
        next s1 hcm =>
          obtain ⟨k1, k2, k3, k4⟩ := commit_cont parseLen s s1 hcm
          split at h
          next p ps hst =>
            cases h
            have hlen : s.stack.length = ps.length + 1 := by rw [← k2, hst]; simp
            have hop := b.stack
            have hbo := b.opens
            refine ⟨by simp [k1, hnq], by simp [k4], ?_, ?_, ?_⟩
            · simp only [c1, c2, k3]; omega
            · simp only [k3]; omega
            · intro q hq'
              rw [List.prefix_concat_iff] at hq'
              rcases hq' with rfl | hq'
              · rw [c1, c2]; omega
              · exact b.pref q hq'
          · cases h
        next r hr => exact absurd h (hr s')
    next hk =>
      -- semi never continues
      split at h
      · cases h
      · repeat' (first | (cases h; done) | split at h)
    next hk =>
      -- other
      have h1 : c ≠ '(' := by intro e; subst e; rw [classify_lpar] at hk; cases hk
      have h2 : c ≠ ')' := by intro e; subst e; rw [classify_rpar] at hk; cases hk
      unfold stepField at h
      split at h
      · cases h; exact b.snoc_other h1 h2 (by simp [hnq]) (by simp_all) rfl rfl
      · split at h
        · cases h
        · cases h; exact b.snoc_other h1 h2 (by simp [hnq]) (by simp_all) rfl rfl
      · cases h

theorem step_done_bal (s : St L) (c : Char) (a : Array (PNode L)) (pre : List Char)
    (h : step parseLen s c = .done a) (b : Bal s pre) : c = ';' ∧ s.opens = 0 := by
  have hc := step_done_semi parseLen s c a h
  subst hc
  refine ⟨rfl, ?_⟩
  have hnq := b.nq
  have hnc : (s.field == Field.comment) = false := by
    cases hf : s.field <;> simp_all [b.nc]
  unfold step at h
  simp only [hnq, Bool.false_and, Bool.false_eq_true, ↓reduceIte, hnc, Bool.not_false, Bool.and_true, isWs_semi,
    classify_semi'] at h
  split at h
  · cases h
  next hz => simpa using hz

theorem step_semi_not_cont (s s' : St L) (pre : List Char) (b : Bal s pre) : step parseLen s ';' ≠ .cont s' := by
  intro h
  have hnq := b.nq
  have hnc : (s.field == Field.comment) = false := by
    cases hf : s.field <;> simp_all [b.nc]
  unfold step at h
  simp only [hnq, Bool.false_and, Bool.false_eq_true, ↓reduceIte, hnc, Bool.not_false, Bool.and_true, isWs_semi,
    classify_semi'] at h
  split at h
  · cases h
  · repeat' (first | (cases h; done) | split at h)

theorem run_done_bal : ∀ (cs : List Char) (s : St L) (pre : List Char) (a : Array (PNode L)),
    '"' ∉ cs → '[' ∉ cs → Bal s pre → run parseLen s cs = .done a →
    ∃ mid post, cs = mid ++ ';' :: post ∧ ';' ∉ mid ∧ (pre ++ mid).count '(' = (pre ++ mid).count ')' ∧
      ∀ p, p <+: pre ++ mid → p.count ')' ≤ p.count '('
  | [], s, pre, a, _, _, _, h => by simp [run] at h
  | c :: cs, s, pre, a, hq, hb, b, h => by
    rw [run] at h
    simp only [List.mem_cons, not_or] at hq hb
    cases hs : step parseLen s c with
    | cont s' =>
      rw [hs] at h; simp only at h
      have b' := step_bal parseLen s s' c pre hs (Ne.symm hq.1) (Ne.symm hb.1) b
      obtain ⟨mid, post, e1, e2, e3, e4⟩ := run_done_bal cs s' (pre ++ [c]) a hq.2 hb.2 b' h
      have hcs : c ≠ ';' := by intro e; subst e; exact step_semi_not_cont parseLen s s' pre b hs
      refine ⟨c :: mid, post, by simp [e1], ?_, by simpa using e3, by simpa using e4⟩
      simp only [List.mem_cons, not_or]; exact ⟨Ne.symm hcs, e2⟩
    | done a' =>
      obtain ⟨rfl, hz⟩ := step_done_bal parseLen s c a' pre hs b
      refine ⟨[], cs, by simp, by simp, ?_, by simpa using b.pref⟩
      have := b.opens
      simp only [List.append_nil]; omega
    | err e => rw [hs] at h; cases h
    | panic => rw [hs] at h; cases h

/-- **unbalanced parentheses are rejected**: if text without `"` and `[` is accepted, it has the form
    `mid ++ ';' :: post` with no `;` in `mid`, as many `(` as `)` in `mid`, and no prefix of `mid` closing
    more parentheses than it opened -/
theorem accepted_is_balanced (cs : List Char) (hq : '"' ∉ cs) (hb : '[' ∉ cs) (a : Array (PNode L))
    (h : parse parseLen cs = .done a) :
    ∃ mid post, cs = mid ++ ';' :: post ∧ ';' ∉ mid ∧ mid.count '(' = mid.count ')' ∧
      ∀ p, p <+: mid → p.count ')' ≤ p.count '(' := by
  unfold parse at h
  cases hr : run parseLen {} cs with
  | cont s' => rw [hr] at h; cases h
  | done a' =>
    have b0 : Bal ({} : St L) [] := ⟨rfl, by simp, by simp, by simp, by intro p hp; simp at hp; subst hp; simp⟩
    obtain ⟨mid, post, e1, e2, e3, e4⟩ := run_done_bal parseLen cs {} [] a' hq hb b0 hr
    exact ⟨mid, post, e1, e2, by simpa using e3, by simpa using e4⟩
  | err e => rw [hr] at h; cases h
  | panic => rw [hr] at h; cases h

end NW
