import PhyloModel.Newick.Build
/-! Scratch prototype: C01 round trip, main induction -/
namespace NW
variable {L : Type} (parseLen : Label → Option L) (showLen : L → Label)

theorem clean_cleanWith (s : St L) (a) (idx) (hq : s.quotes = false) : Clean (cleanWith s a idx) := by
  constructor <;> simp [cleanWith, hq]

theorem step_lpar (s : St L) (hs : Clean s) (p : Nat) (ps : List Nat) (hst : s.stack = p :: ps)
    (hp : p < s.nodes.size) :
    step parseLen s '(' = .cont { s with nodes := addChild s.nodes p, stack := s.nodes.size :: s.stack,
                                          opens := s.opens + 1 } := by
  simp [step, hs.q, hs.field, isWs, classify, hst, hp]

theorem pend_quotes (s : St L) (p : Nat) (t : RTree L) : (pend showLen s p t).quotes = s.quotes := by
  match t with
  | .node n l c [] => simp [pend, afterLabel]
  | .node n l c (k :: ks) => simp [pend, afterLabel]
theorem pend_stack (s : St L) (p : Nat) (t : RTree L) : (pend showLen s p t).stack = s.stack := by
  match t with
  | .node n l c [] => simp [pend, afterLabel]
  | .node n l c (k :: ks) => simp [pend, afterLabel]
theorem pend_opens (s : St L) (p : Nat) (t : RTree L) : (pend showLen s p t).opens = s.opens := by
  match t with
  | .node n l c [] => simp [pend, afterLabel]
  | .node n l c (k :: ks) => simp [pend, afterLabel]
theorem pend_field (s : St L) (p : Nat) (t : RTree L) : (pend showLen s p t).field ≠ .comment := by
  match t with
  | .node n l c [] => cases c <;> cases l <;> simp [pend, afterLabel, fieldAfter]
  | .node n l c (k :: ks) => cases c <;> cases l <;> simp [pend, afterLabel, fieldAfter]

/-- `,` after a pending subtree commits it and clears the cursor -/
theorem step_comma_pend (hc : Codec parseLen showLen) (s : St L) (hs : Clean s) (p : Nat) (ps : List Nat)
    (hst : s.stack = p :: ps) (hp : p < s.nodes.size) (hidx : s.curIdx = none) (t : RTree L) :
    step parseLen (pend showLen s p t) ',' =
      .cont (cleanWith s (buildT s.nodes p t) none) := by
  have hq := pend_quotes showLen s p t
  have hstk := pend_stack showLen s p t
  have hf := pend_field showLen s p t
  simp only [step, hq, hs.q, Bool.false_and, Bool.false_eq_true, ↓reduceIte]
  have : ((pend showLen s p t).field == Field.comment) = false := by simpa using hf
  simp [this, isWs, classify, hstk, hst, commit_pend parseLen showLen hc s p ps hst hp hidx t]
  apply St.ext <;> simp [cleanWith, hq, hstk, pend_opens]

/-- `)` after a pending subtree commits it and pops the stack -/
theorem step_rpar_pend (hc : Codec parseLen showLen) (s : St L) (hs : Clean s) (p : Nat) (ps : List Nat)
    (hst : s.stack = p :: ps) (hp : p < s.nodes.size) (hidx : s.curIdx = none) (t : RTree L) :
    step parseLen (pend showLen s p t) ')' =
      .cont { cleanWith s (buildT s.nodes p t) (some p) with stack := ps, opens := s.opens - 1 } := by
  have hq := pend_quotes showLen s p t
  have hstk := pend_stack showLen s p t
  have hf := pend_field showLen s p t
  simp only [step, hq, hs.q, Bool.false_and, Bool.false_eq_true, ↓reduceIte]
  have : ((pend showLen s p t).field == Field.comment) = false := by simpa using hf
  simp [this, isWs, classify, hstk, hst, commit_pend parseLen showLen hc s p ps hst hp hidx t, cleanWith]
  simp [hq, pend_opens]

def writeKids : List (RTree L) → List Char
  | [] => []
  | k :: ks => write showLen k ++ writeRest showLen ks

mutual
theorem run_tree (hc : Codec parseLen showLen) :
    ∀ (t : RTree L) (s : St L) (rest : List Char) (p : Nat) (ps : List Nat),
      Clean s → s.stack = p :: ps → p < s.nodes.size → s.curIdx = none → WFT t →
      run parseLen s (write showLen t ++ rest) = run parseLen (pend showLen s p t) rest
  | .node n l c [], s, rest, p, ps, hs, hst, hp, hidx, hwf => by
    simp only [write, pend]
    exact run_label parseLen showLen hc s hs n l c hwf.1 hwf.2.1 rest
  | .node n l c (k :: ks), s, rest, p, ps, hs, hst, hp, hidx, hwf => by
    simp only [write, pend, List.cons_append, List.append_assoc, run]
    rw [step_lpar parseLen s hs p ps hst hp]
    simp only []
    have hwfk : WFL (k :: ks) := hwf.2.2
    have hk := run_kids hc (k :: ks) { s with nodes := addChild s.nodes p, stack := s.nodes.size :: s.stack, opens := s.opens + 1 } (label showLen n l c ++ rest) s.nodes.size (p :: ps)
          (by constructor <;> simp [hs.field, hs.nm, hs.ln, hs.cm, hs.q]) (by simp [hst]) (by simp) (by simp [hidx])
          hwfk (by simp)
    simp only [writeKids, List.append_assoc] at hk
    rw [hk]
    rw [run_label parseLen showLen hc _ (by constructor <;> simp [cleanWith, hs.q]) n l c hwf.1 hwf.2.1 rest]
    congr 1
    apply St.ext <;> simp [afterLabel, cleanWith, hst]
theorem run_kids (hc : Codec parseLen showLen) :
    ∀ (kids : List (RTree L)) (s : St L) (rest : List Char) (p : Nat) (ps : List Nat),
      Clean s → s.stack = p :: ps → p < s.nodes.size → s.curIdx = none → WFL kids → kids ≠ [] →
      run parseLen s (writeKids showLen kids ++ (')' :: rest)) =
        run parseLen { cleanWith s (buildKids s.nodes p kids) (some p) with stack := ps, opens := s.opens - 1 } rest
  | [], _, _, _, _, _, _, _, _, _, hne => absurd rfl hne
  | [k], s, rest, p, ps, hs, hst, hp, hidx, hks, _ => by
    simp only [writeKids, writeRest, List.append_nil]
    rw [run_tree hc k s _ p ps hs hst hp hidx hks.1]
    simp only [run]
    rw [step_rpar_pend parseLen showLen hc s hs p ps hst hp hidx k]
    simp only [buildKids]
  | k :: k2 :: ks', s, rest, p, ps, hs, hst, hp, hidx, hks, _ => by
    simp only [writeKids, writeRest, List.append_assoc, List.cons_append]
    rw [run_tree hc k s _ p ps hs hst hp hidx hks.1]
    simp only [run]
    rw [step_comma_pend parseLen showLen hc s hs p ps hst hp hidx k]
    simp only []
    have hsz := size_buildT s.nodes p k
    have hrec := run_kids hc (k2 :: ks') (cleanWith s (buildT s.nodes p k) none) rest p ps
          (clean_cleanWith _ _ _ hs.q) (by simp [cleanWith, hst]) (by simp [cleanWith]; omega) (by simp [cleanWith])
          hks.2 (by simp)
    simp only [writeKids, List.append_assoc] at hrec
    rw [hrec]
    congr 1
end

end NW
