import PhyloModel.Newick.Rep
import PhyloModel.Newick.Names2
/-! Every arena the parser returns represents a rose tree (the abstraction is total on `Struct` arenas),
    whose height is bounded by the arena size and whose labels inherit any per-slot property. -/
namespace NW
variable {L : Type}

theorem struct_child_gt {a : Array (PNode L)} (h : Struct a) {i c : Nat} (hi : i < a.size)
    (hc : c ∈ (nd a i).children) : i < c ∧ c < a.size := by
  obtain ⟨hcs, hpar⟩ := h.down i c hi hc
  refine ⟨?_, hcs⟩
  by_cases h0 : c = 0
  · subst h0
    have := (h.root (by omega)).1
    rw [this] at hpar; cases hpar
  · obtain ⟨p, hp, hlt, _, _⟩ := h.up c (by omega) hcs
    rw [hp] at hpar
    cases hpar
    exact hlt

theorem repL_build (a : Array (PNode L)) (b : Nat)
    (P : RTree L → Prop)
    (ih : ∀ c, c < a.size → a.size - c ≤ b → ∃ t, RepN a c t ∧ ht t ≤ a.size - c ∧ P t) :
    ∀ (cs : List Nat), (∀ c ∈ cs, c < a.size ∧ a.size - c ≤ b) →
      ∃ ts, RepNL a cs ts ∧ htL ts ≤ b ∧ (∀ t ∈ ts, P t) := by
  intro cs
  induction cs with
  | nil => intro _; exact ⟨[], by simp [RepNL], by simp [htL], by simp⟩
  | cons c cs ihc =>
    intro hcs
    obtain ⟨hc1, hc2⟩ := hcs c (by simp)
    obtain ⟨t, ht1, ht2, ht3⟩ := ih c hc1 hc2
    obtain ⟨ts, hts1, hts2, hts3⟩ := ihc (fun d hd => hcs d (by simp [hd]))
    refine ⟨t :: ts, ?_, ?_, ?_⟩
    · rw [RepNL]; exact ⟨ht1, hts1⟩
    · rw [htL]; omega
    · intro u hu
      rcases List.mem_cons.mp hu with rfl | hu
      · exact ht3
      · exact hts3 u hu

theorem wfl_of_forall : ∀ (ts : List (RTree L)), (∀ t ∈ ts, WFT t) → WFL ts
  | [], _ => by simp [WFL]
  | t :: ts, h => by
    rw [WFL]
    exact ⟨h t (by simp), wfl_of_forall ts (fun u hu => h u (by simp [hu]))⟩

/-- the abstraction is total on parser arenas -/
theorem struct_rep (a : Array (PNode L)) (h : Struct a)
    (hlab : ∀ i, nameWF (nd a i).name ∧ commentWF (nd a i).comment) :
    ∀ (k i : Nat), a.size - i ≤ k → i < a.size → ∃ t, RepN a i t ∧ ht t ≤ a.size - i ∧ WFT t := by
  intro k
  induction k with
  | zero => intro i h1 h2; omega
  | succ k ih =>
    intro i h1 h2
    obtain ⟨ts, hts1, hts2, hts3⟩ := repL_build a (a.size - i - 1) WFT
      (fun c hc hcb => ih c (by omega) hc) (nd a i).children
      (fun c hc => by
        obtain ⟨g1, g2⟩ := struct_child_gt h h2 hc
        exact ⟨g2, by omega⟩)
    refine ⟨.node (nd a i).name (nd a i).len (nd a i).comment ts, ?_, ?_, ?_⟩
    · rw [RepN]; exact ⟨h2, rfl, rfl, rfl, hts1⟩
    · rw [ht]; omega
    · rw [WFT]; exact ⟨(hlab i).1, (hlab i).2, wfl_of_forall ts hts3⟩

end NW
