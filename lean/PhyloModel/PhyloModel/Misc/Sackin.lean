/-! probe: Sackin index — sum of leaf depths = sum over internal nodes of leaves below (C12) -/
namespace SK

inductive T where | node (kids : List T)

mutual
def nLeaves : T → Nat
  | .node [] => 1
  | .node (k :: ks) => nLeavesL (k :: ks)
def nLeavesL : List T → Nat
  | [] => 0
  | k :: ks => nLeaves k + nLeavesL ks
end

mutual
/-- sum over leaves of (depth of the leaf), starting at depth `d` — what `Tree::sackin` computes from cached depths -/
def depthSum : Nat → T → Nat
  | d, .node [] => d
  | d, .node (k :: ks) => depthSumL (d + 1) (k :: ks)
def depthSumL : Nat → List T → Nat
  | _, [] => 0
  | d, k :: ks => depthSum d k + depthSumL d ks
end

mutual
/-- textbook Sackin: sum over internal nodes of the number of leaves below -/
def sackin : T → Nat
  | .node [] => 0
  | .node (k :: ks) => nLeavesL (k :: ks) + sackinL (k :: ks)
def sackinL : List T → Nat
  | [] => 0
  | k :: ks => sackin k + sackinL ks
end

mutual
theorem depthSum_eq : ∀ (t : T) (d : Nat), depthSum d t = d * nLeaves t + sackin t
  | .node [], d => by simp [depthSum, nLeaves, sackin]
  | .node (k :: ks), d => by
    have := depthSumL_eq (k :: ks) (d + 1)
    simp only [depthSum, nLeaves, sackin]
    rw [this]
    rw [Nat.add_mul]; omega
theorem depthSumL_eq : ∀ (ts : List T) (d : Nat), depthSumL d ts = d * nLeavesL ts + sackinL ts
  | [], d => by simp [depthSumL, nLeavesL, sackinL]
  | k :: ks, d => by
    have h1 := depthSum_eq k d
    have h2 := depthSumL_eq ks d
    simp only [depthSumL, nLeavesL, sackinL]
    rw [h1, h2, Nat.mul_add]; omega
end

/-- with correct cached depths, the code's Sackin is the textbook Sackin -/
theorem sackin_two_definitions (t : T) : depthSum 0 t = sackin t := by
  simpa using depthSum_eq t 0

end SK
