import PhyloModel.Misc.Layout
/-! Coordinates of the radial layout (src/tree/draw.rs `radial_layout`), on top of the exact-angle model
    `LAY.layout`.  `c s : Rat → Rat` stand for `cos`/`sin` of an angle given as a fraction of a turn; the
    position of a node is the position of its parent plus `len · (c θ, s θ)` where `θ` is the bisector of the
    node's wedge; the root sits at the origin.  Same traversal as `LAY.layout` (pre-order, wedges handed out
    left to right). -/
namespace LAY
open AR

/-- `draw::Branch` (with the ids of the two end points, which the crate keeps implicit in the order) together
    with `draw::Node`: the labelled point of node `id` is `(xend, yend)` with label `name` -/
structure Branch where
  xstart : Rat
  ystart : Rat
  xend : Rat
  yend : Rat
  parent : Nat
  id : Nat
  name : Option String
deriving Repr, DecidableEq

/-- the branch length of a node as a rational (`0` when absent: `radialCoords` refuses such trees) -/
def lenQ (t : Rose) : Rat := ((t.len.getD 0 : Int) : Rat)

mutual
/-- branches of the subtree below `t`, whose wedge starts at `start` and which is drawn at `pos`; `ℓ` gives the
    branch lengths -/
def placeW (ℓ : Rose → Rat) (c s : Rat → Rat) (total : Nat) : Rose → Rat → Rat × Rat → List Branch
  | .node i _ _ _ ks, start, pos => placeWL ℓ c s total i ks start pos
def placeWL (ℓ : Rose → Rat) (c s : Rat → Rat) (total : Nat) (p : Nat) : List Rose → Rat → Rat × Rat → List Branch
  | [], _, _ => []
  | k :: ks, start, pos =>
    let w : Rat := (nLeaves k : Rat) / (total : Rat)
    let q : Rat × Rat := (pos.1 + ℓ k * c (start + w / 2), pos.2 + ℓ k * s (start + w / 2))
    { xstart := pos.1, ystart := pos.2, xend := q.1, yend := q.2, parent := p, id := k.id, name := k.name } ::
      (placeW ℓ c s total k start q ++ placeWL ℓ c s total p ks (start + w) pos)
end

/-- the coordinates with the tree's own branch lengths -/
def place (c s : Rat → Rat) (total : Nat) (t : Rose) (start : Rat) (pos : Rat × Rat) : List Branch :=
  placeW lenQ c s total t start pos
def placeL (c s : Rat → Rat) (total : Nat) (p : Nat) (ks : List Rose) (start : Rat) (pos : Rat × Rat) : List Branch :=
  placeWL lenQ c s total p ks start pos

theorem place_node (c s : Rat → Rat) (total i : Nat) (n : Option String) (l : Option Int) (d : Nat) (ks : List Rose)
    (start : Rat) (pos : Rat × Rat) :
    place c s total (.node i n l d ks) start pos = placeL c s total i ks start pos := by
  rw [place, placeW, placeL]

theorem placeL_nil (c s : Rat → Rat) (total p : Nat) (start : Rat) (pos : Rat × Rat) :
    placeL c s total p [] start pos = [] := by rw [placeL, placeWL]

theorem placeL_cons (c s : Rat → Rat) (total p : Nat) (k : Rose) (ks : List Rose) (start : Rat) (pos : Rat × Rat) :
    placeL c s total p (k :: ks) start pos =
      { xstart := pos.1, ystart := pos.2,
        xend := pos.1 + lenQ k * c (start + (nLeaves k : Rat) / (total : Rat) / 2),
        yend := pos.2 + lenQ k * s (start + (nLeaves k : Rat) / (total : Rat) / 2), parent := p, id := k.id,
        name := k.name } ::
      (place c s total k start
          (pos.1 + lenQ k * c (start + (nLeaves k : Rat) / (total : Rat) / 2),
           pos.2 + lenQ k * s (start + (nLeaves k : Rat) / (total : Rat) / 2)) ++
        placeL c s total p ks (start + (nLeaves k : Rat) / (total : Rat)) pos) := by
  rw [placeL, placeWL]; rfl

/-- `radial_layout` with coordinates: the root at the origin, its wedge the full turn starting at angle 0;
    refused when a non-root branch lacks a length -/
def radialCoords (c s : Rat → Rat) (t : Rose) : QR (List Branch) :=
  match radial t with
  | .ok _ => .ok (place c s (nLeaves t) t 0 (0, 0))
  | .err e => .err e
  | .panic => .panic

/-- the drawn position of node `i`: the end of its branch; the root (no branch) sits at the origin -/
def posOf (bs : List Branch) (i : Nat) : Rat × Rat :=
  match bs.find? (fun b => b.id == i) with
  | some b => (b.xend, b.yend)
  | none => (0, 0)

/-- `Branch::rescale` / `Node::rescale` -/
def Branch.rescale (f : Rat) (b : Branch) : Branch :=
  { b with xstart := b.xstart * f, ystart := b.ystart * f, xend := b.xend * f, yend := b.yend * f }

/-- `Layout::rescale` -/
def rescale (f : Rat) (bs : List Branch) : List Branch := bs.map (Branch.rescale f)

mutual
/-- the tree with every branch length multiplied by the integer `f` -/
def scaleT (f : Int) : Rose → Rose
  | .node i n l d ks => .node i n (l.map (f * ·)) d (scaleTL f ks)
def scaleTL (f : Int) : List Rose → List Rose
  | [] => []
  | k :: ks => scaleT f k :: scaleTL f ks
end

end LAY
