/-! probe: Rust `split_whitespace` and `lines` on List Char, round-trip lemmas for the Phylip writer -/
namespace PH

def isWs (c : Char) : Bool :=
  let n := c.toNat
  (9 ≤ n && n ≤ 13) || n == 32 || n == 0x85 || n == 0xA0 || n == 0x1680 ||
  (0x2000 ≤ n && n ≤ 0x200A) || n == 0x2028 || n == 0x2029 || n == 0x202F || n == 0x205F || n == 0x3000

/-- `str::split_whitespace`: maximal runs of non-whitespace; `cur` is the run being read (reversed) -/
def splitWsAux : List Char → List Char → List (List Char)
  | [], cur => if cur = [] then [] else [cur.reverse]
  | c :: cs, cur =>
    if isWs c then (if cur = [] then splitWsAux cs [] else cur.reverse :: splitWsAux cs [])
    else splitWsAux cs (c :: cur)

def splitWs (s : List Char) : List (List Char) := splitWsAux s []

def Word (w : List Char) : Prop := w ≠ [] ∧ ∀ c ∈ w, isWs c = false
def Sep (s : List Char) : Prop := s ≠ [] ∧ ∀ c ∈ s, isWs c = true

theorem aux_word (w : List Char) (hw : ∀ c ∈ w, isWs c = false) (rest cur : List Char) :
    splitWsAux (w ++ rest) cur = splitWsAux rest (w.reverse ++ cur) := by
  induction w generalizing cur with
  | nil => simp
  | cons c cs ih =>
    have hc := hw c (by simp)
    simp only [List.cons_append, splitWsAux, hc]
    simp only [Bool.false_eq_true, ↓reduceIte]
    rw [ih (fun d hd => hw d (by simp [hd]))]
    simp

theorem aux_sep_empty (s : List Char) (hs : ∀ c ∈ s, isWs c = true) (rest : List Char) :
    splitWsAux (s ++ rest) [] = splitWsAux rest [] := by
  induction s with
  | nil => simp
  | cons c cs ih =>
    have hc := hs c (by simp)
    simp only [List.cons_append, splitWsAux, hc]
    simpa using ih (fun d hd => hs d (by simp [hd]))

theorem aux_sep_flush (s : List Char) (hs : Sep s) (rest cur : List Char) (hcur : cur ≠ []) :
    splitWsAux (s ++ rest) cur = cur.reverse :: splitWsAux rest [] := by
  obtain ⟨hne, hall⟩ := hs
  cases s with
  | nil => exact absurd rfl hne
  | cons c cs =>
    have hc := hall c (by simp)
    simp only [List.cons_append, splitWsAux, hc, hcur]
    simp only [↓reduceIte, List.cons.injEq, true_and]
    exact aux_sep_empty cs (fun d hd => hall d (by simp [hd])) rest

/-- words joined by separators split back into the words -/
def joinSep (sep : List Char) : List (List Char) → List Char
  | [] => []
  | [w] => w
  | w :: w2 :: ws => w ++ sep ++ joinSep sep (w2 :: ws)

theorem split_join (sep : List Char) (hsep : Sep sep) :
    ∀ (ws : List (List Char)), (∀ w ∈ ws, Word w) → splitWs (joinSep sep ws) = ws
  | [], _ => by simp [joinSep, splitWs, splitWsAux]
  | [w], h => by
    have hw := h w (by simp)
    simp only [joinSep, splitWs]
    have := aux_word w hw.2 [] []
    simp only [List.append_nil] at this
    rw [this]
    simp [splitWsAux, hw.1]
  | w :: w2 :: ws, h => by
    have hw := h w (by simp)
    have ih := split_join sep hsep (w2 :: ws) (fun x hx => h x (by simp [hx]))
    simp only [joinSep, splitWs, List.append_assoc] at ih ⊢
    rw [aux_word w hw.2]
    simp only [List.append_nil]
    rw [aux_sep_flush sep hsep _ _ (by simp [hw.1])]
    simp [ih]

/-- `str::lines` for texts whose lines contain neither `\n` nor a trailing `\r` -/
def linesAux : List Char → List Char → List (List Char)
  | [], cur => if cur = [] then [] else [cur.reverse]
  | c :: cs, cur =>
    if c = '\n' then
      (match cur with | '\r' :: cur' => cur'.reverse | _ => cur.reverse) :: linesAux cs []
    else linesAux cs (c :: cur)
def lines (s : List Char) : List (List Char) := linesAux s []

def Line (l : List Char) : Prop := (∀ c ∈ l, c ≠ '\n') ∧ l.getLast? ≠ some '\r'

theorem linesAux_line (l : List Char) (hl : ∀ c ∈ l, c ≠ '\n') (rest cur : List Char) :
    linesAux (l ++ rest) cur = linesAux rest (l.reverse ++ cur) := by
  induction l generalizing cur with
  | nil => simp
  | cons c cs ih =>
    have hc := hl c (by simp)
    simp only [List.cons_append, linesAux, hc, ↓reduceIte]
    rw [ih (fun d hd => hl d (by simp [hd]))]
    simp

/-- every line terminated by `\n` comes back -/
theorem lines_terminated : ∀ (ls : List (List Char)), (∀ l ∈ ls, Line l) →
    lines (ls.flatMap (fun l => l ++ ['\n'])) = ls
  | [], _ => by simp [lines, linesAux]
  | l :: ls, h => by
    have hl := h l (by simp)
    have ih := lines_terminated ls (fun x hx => h x (by simp [hx]))
    simp only [lines, List.flatMap_cons, List.append_assoc] at ih ⊢
    rw [linesAux_line l hl.1]
    simp only [List.append_nil, List.singleton_append, linesAux, ↓reduceIte, List.cons.injEq]
    refine ⟨?_, ih⟩
    -- the last char of l is not '\r', so nothing is stripped
    cases hrev : l.reverse with
    | nil => simpa using hrev
    | cons c cs =>
      have : l.getLast? = some c := by
        have : l = (c :: cs).reverse := by rw [← hrev]; simp
        rw [this]; simp
      have hne : c ≠ '\r' := by intro hc; subst hc; exact hl.2 this
      split
      · next heq => cases heq; exact absurd rfl hne
      · rw [← hrev]; simp

end PH
