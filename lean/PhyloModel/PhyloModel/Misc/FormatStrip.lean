/-! probe: C16 — every Newick format is the full format of the stripped tree -/
namespace FM

abbrev Label := List Char
inductive RT where | node (name : Option Label) (len : Option Label) (comment : Option Label) (kids : List RT)

inductive Fmt where
  | allFields | topology | noComments | onlyNames | onlyLengths | leafLengthsAllNames
  | leafLengthsLeafNames | internalLengthsLeafNames | allLengthsLeafNames
deriving DecidableEq

def keepName (f : Fmt) (tip : Bool) : Bool :=
  match f with
  | .allFields | .noComments | .onlyNames | .leafLengthsAllNames => true
  | .leafLengthsLeafNames | .internalLengthsLeafNames | .allLengthsLeafNames => tip
  | _ => false
def keepLen (f : Fmt) (tip : Bool) : Bool :=
  match f with
  | .allFields | .noComments | .onlyLengths | .allLengthsLeafNames => true
  | .internalLengthsLeafNames => !tip
  | .leafLengthsLeafNames | .leafLengthsAllNames => tip
  | _ => false
def keepComment (f : Fmt) : Bool := f == .allFields

def lenPart : Option Label → List Char | some v => ':' :: v | none => []
def commentPart : Option Label → List Char | some v => '[' :: (v ++ [']']) | none => []

/-- `Node::to_newick(format)` -/
def nodeText (f : Fmt) (tip : Bool) (n l c : Option Label) : List Char :=
  (if keepName f tip then n.getD [] else []) ++ (if keepLen f tip then lenPart l else []) ++
  (if keepComment f then commentPart c else [])

mutual
def writeFmt (f : Fmt) : RT → List Char
  | .node n l c [] => nodeText f true n l c
  | .node n l c (k :: ks) => '(' :: (writeFmt f k ++ writeRestFmt f ks) ++ (')' :: nodeText f false n l c)
def writeRestFmt (f : Fmt) : List RT → List Char
  | [] => []
  | k :: ks => ',' :: (writeFmt f k ++ writeRestFmt f ks)
end

def keepIf (b : Bool) (o : Option Label) : Option Label := if b then o else none

mutual
/-- erase exactly the fields the format omits -/
def strip (f : Fmt) : RT → RT
  | .node n l c [] => .node (keepIf (keepName f true) n) (keepIf (keepLen f true) l) (keepIf (keepComment f) c) []
  | .node n l c (k :: ks) =>
    .node (keepIf (keepName f false) n) (keepIf (keepLen f false) l) (keepIf (keepComment f) c) (stripL f (k :: ks))
def stripL (f : Fmt) : List RT → List RT
  | [] => []
  | k :: ks => strip f k :: stripL f ks
end

theorem nodeText_strip (f : Fmt) (tip : Bool) (n l c : Option Label) :
    nodeText f tip n l c =
      nodeText .allFields tip (keepIf (keepName f tip) n) (keepIf (keepLen f tip) l) (keepIf (keepComment f) c) := by
  have e1 : keepName .allFields tip = true := rfl
  have e2 : keepLen .allFields tip = true := rfl
  have e3 : keepComment .allFields = true := rfl
  simp only [nodeText, e1, e2, e3, keepIf, ↓reduceIte]
  generalize keepName f tip = a
  generalize keepLen f tip = b
  generalize keepComment f = d
  cases a <;> cases b <;> cases d <;> simp [lenPart, commentPart]

mutual
theorem format_is_strip (f : Fmt) : ∀ t : RT, writeFmt f t = writeFmt .allFields (strip f t)
  | .node n l c [] => by simp only [writeFmt, strip]; exact nodeText_strip f true n l c
  | .node n l c (k :: ks) => by
    have h1 := format_is_strip f k
    have h2 := format_rest f ks
    simp only [writeFmt, strip, stripL]
    rw [h1, h2, nodeText_strip f false n l c]
theorem format_rest (f : Fmt) : ∀ ts : List RT, writeRestFmt f ts = writeRestFmt .allFields (stripL f ts)
  | [] => by simp [writeRestFmt, stripL]
  | k :: ks => by
    have h1 := format_is_strip f k
    have h2 := format_rest f ks
    simp only [writeRestFmt, stripL]
    rw [h1, h2]
end

end FM
