import PhyloModel.Arena.Abs
/-! Executable model of `radial_layout` (src/tree/draw.rs) with exact angles: every angle is a rational
    fraction of a full turn; the harness applies `cos`/`sin`.  A node's wedge starts where its previous
    sibling's ended and has width `leaves(node)/leaves(root)`; the branch points along the wedge's bisector. -/
namespace LAY
open AR

mutual
def nLeaves : Rose → Nat
  | .node _ _ _ _ [] => 1
  | .node _ _ _ _ (k :: ks) => nLeavesL (k :: ks)
def nLeavesL : List Rose → Nat
  | [] => 0
  | k :: ks => nLeaves k + nLeavesL ks
end

structure Seg where
  parent : Nat
  id : Nat
  start : Rat        -- wedge start, in turns
  width : Rat        -- wedge width, in turns
  len : Option Int
  name : Option String
deriving Repr

/-- direction of the branch: the bisector of the wedge -/
def Seg.angle (s : Seg) : Rat := s.start + s.width / 2

mutual
/-- segments of the subtree below `t` whose own wedge starts at `start`, pre-order -/
def layout (total : Nat) : Rose → Rat → List Seg
  | .node i _ _ _ ks, start => layoutL total i ks start
def layoutL (total : Nat) (p : Nat) : List Rose → Rat → List Seg
  | [], _ => []
  | k :: ks, start =>
    let w : Rat := (nLeaves k : Rat) / (total : Rat)
    { parent := p, id := k.id, start := start, width := w, len := k.len, name := k.name } ::
      (layout total k start ++ layoutL total p ks (start + w))
end

/-- `radial_layout`: refused when a non-root branch lacks a length -/
def radial (t : Rose) : QR (List Seg) :=
  let segs := layout (nLeaves t) t 0
  if segs.any (fun s => s.len.isNone) then .err "MissingBranchLengths" else .ok segs

end LAY
