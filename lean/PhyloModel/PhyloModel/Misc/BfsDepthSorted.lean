/-! probe: level order emits non-decreasing depths (C10), via the two-level queue invariant -/
namespace LV

inductive T where | node (id : Nat) (kids : List T)
def T.id : T → Nat | .node i _ => i
def T.kids : T → List T | .node _ ks => ks

mutual
def sz : T → Nat | .node _ ks => 1 + szL ks
def szL : List T → Nat | [] => 0 | k :: ks => sz k + szL ks
end
@[simp] theorem szL_nil : szL [] = 0 := by rw [szL]
@[simp] theorem szL_cons (k : T) (ks) : szL (k :: ks) = sz k + szL ks := by rw [szL]
@[simp] theorem sz_node (i ks) : sz (.node i ks) = 1 + szL ks := by rw [sz]

/-- `Tree::levelorder` with the depth of every queued node made explicit -/
def bfsD : Nat → List (T × Nat) → List (Nat × Nat)
  | 0, _ => []
  | _, [] => []
  | f + 1, (t, d) :: q => (t.id, d) :: bfsD f (q ++ t.kids.map (fun k => (k, d + 1)))

/-- queue invariant: depths non-decreasing and within one level of the head -/
def QInv (q : List (T × Nat)) : Prop :=
  (q.map (·.2)).Pairwise (· ≤ ·) ∧ ∀ d0, (q.map (·.2)).head? = some d0 → ∀ x ∈ q.map (·.2), x ≤ d0 + 1

theorem qinv_step (t : T) (d : Nat) (q : List (T × Nat)) (h : QInv ((t, d) :: q)) :
    QInv (q ++ t.kids.map (fun k => (k, d + 1))) ∧ ∀ x ∈ (q ++ t.kids.map (fun k => (k, d + 1))).map (·.2), d ≤ x := by
  obtain ⟨hs, hb⟩ := h
  simp only [List.map_cons, List.pairwise_cons] at hs
  have hb' := hb d (by simp)
  simp only [List.map_cons, List.mem_cons, forall_eq_or_imp] at hb'
  have hkids : ∀ x ∈ (t.kids.map (fun k => (k, d + 1))).map (·.2), x = d + 1 := by
    intro x hx; simp at hx; obtain ⟨_, _, rfl⟩ := hx; rfl
  refine ⟨⟨?_, ?_⟩, ?_⟩
  · rw [List.map_append, List.pairwise_append]
    refine ⟨hs.2, ?_, ?_⟩
    · rw [List.pairwise_iff_forall_sublist]
      intro a b hab
      have ha := hkids a (hab.subset (by simp))
      have hb2 := hkids b (hab.subset (by simp))
      omega
    · intro a ha b hb2
      have := hb'.2 a ha
      have := hkids b hb2
      omega
  · intro d0 hd0 x hx
    rw [List.map_append] at hd0 hx
    rw [List.mem_append] at hx
    cases hq : q.map (·.2) with
    | nil =>
      rw [hq] at hd0 hx
      simp only [List.nil_append] at hd0
      have h0 : d0 = d + 1 := by
        cases hk : (t.kids.map (fun k => (k, d + 1))).map (·.2) with
        | nil => rw [hk] at hd0; simp at hd0
        | cons y ys =>
          rw [hk] at hd0; simp at hd0; subst hd0
          exact hkids y (by rw [hk]; simp)
      rcases hx with hx | hx
      · simp at hx
      · have := hkids x hx; omega
    | cons y ys =>
      rw [hq] at hd0 hx
      simp at hd0; subst hd0
      have hy : d ≤ y := hs.1 y (by rw [hq]; simp)
      rcases hx with hx | hx
      · have := hb'.2 x (by rw [hq]; exact hx); omega
      · have := hkids x hx; omega
  · intro x hx
    rw [List.map_append, List.mem_append] at hx
    rcases hx with hx | hx
    · exact hs.1 x hx
    · have := hkids x hx; omega

/-- everything emitted from a queue whose depths are all ≥ d has depth ≥ d -/
theorem bfsD_ge : ∀ (f : Nat) (q : List (T × Nat)) (d : Nat), (∀ x ∈ q.map (·.2), d ≤ x) →
    ∀ y ∈ (bfsD f q).map (·.2), d ≤ y := by
  intro f
  induction f with
  | zero => intro q d _ y hy; simp [bfsD] at hy
  | succ f ih =>
    intro q d hq y hy
    cases q with
    | nil => simp [bfsD] at hy
    | cons td q =>
      obtain ⟨t, dt⟩ := td
      simp only [bfsD, List.map_cons, List.mem_cons] at hy
      have hdt : d ≤ dt := hq dt (by simp)
      rcases hy with rfl | hy
      · exact hdt
      · refine ih _ d ?_ y hy
        intro x hx
        rw [List.map_append, List.mem_append] at hx
        rcases hx with hx | hx
        · exact hq x (by simp [hx])
        · simp at hx; obtain ⟨_, _, rfl⟩ := hx; omega

/-- C10 core: level order lists nodes by non-decreasing depth -/
theorem bfsD_sorted : ∀ (f : Nat) (q : List (T × Nat)), QInv q → ((bfsD f q).map (·.2)).Pairwise (· ≤ ·) := by
  intro f
  induction f with
  | zero => intro q _; simp [bfsD]
  | succ f ih =>
    intro q hq
    cases q with
    | nil => simp [bfsD]
    | cons td q =>
      obtain ⟨t, d⟩ := td
      obtain ⟨h1, h2⟩ := qinv_step t d q hq
      simp only [bfsD, List.map_cons, List.pairwise_cons]
      exact ⟨fun y hy => bfsD_ge f _ d h2 y hy, ih _ h1⟩

theorem qinv_single (t : T) (d : Nat) : QInv [(t, d)] := by
  constructor
  · simp
  · intro d0 h x hx; simp at h hx; omega

end LV
