import PhyloModel.Misc.TriIndex
/-! probe: C13 — get/set laws of the triangular store -/
namespace MX
open Tri

/-- `tril_to_rowvec_index` on an unordered pair -/
def cell (i j : Nat) : Nat := if i > j then idx i j else idx j i

theorem cell_symm (i j : Nat) (h : i ≠ j) : cell i j = cell j i := by
  simp only [cell]
  by_cases h1 : i > j
  · have : ¬ j > i := by omega
    simp [h1, this]
  · have : j > i := by omega
    simp [h1, this]

/-- distinct unordered pairs live in distinct cells -/
theorem cell_inj {i j i' j' : Nat} (h : i ≠ j) (h' : i' ≠ j') (hc : cell i j = cell i' j') :
    (i = i' ∧ j = j') ∨ (i = j' ∧ j = i') := by
  simp only [cell] at hc
  by_cases h1 : i > j <;> by_cases h2 : i' > j' <;> simp only [h1, h2, ↓reduceIte] at hc
  · have := idx_inj h1 h2 hc; exact Or.inl this
  · have := idx_inj h1 (by omega : i' < j') hc; exact Or.inr ⟨this.1, this.2⟩
  · have := idx_inj (by omega : i < j) h2 hc; exact Or.inr ⟨this.2, this.1⟩
  · have := idx_inj (by omega : i < j) (by omega : i' < j') hc; exact Or.inl ⟨this.2, this.1⟩

theorem cell_lt {i j n : Nat} (h : i ≠ j) (hi : i < n) (hj : j < n) : cell i j < T n := by
  simp only [cell]
  by_cases h1 : i > j
  · simp only [h1, ↓reduceIte]; exact idx_lt h1 hi
  · simp only [h1, ↓reduceIte]; exact idx_lt (by omega) hj

structure Mat where
  n : Nat
  v : Array Int

def get (m : Mat) (i j : Nat) : Int := if i = j then 0 else m.v.getD (cell i j) 0
def set (m : Mat) (i j : Nat) (x : Int) : Mat := { m with v := m.v.setIfInBounds (cell i j) x }

/-- a value set for a pair is read back for that pair in either order, and for no other pair -/
theorem get_set (m : Mat) (hsz : m.v.size = T m.n) (i j i' j' : Nat) (x : Int) (hij : i ≠ j)
    (hi : i < m.n) (hj : j < m.n) (hij' : i' ≠ j') :
    get (set m i j x) i' j' = if (i' = i ∧ j' = j) ∨ (i' = j ∧ j' = i) then x else get m i' j' := by
  have hlt := cell_lt hij hi hj
  simp only [get, set, hij', ↓reduceIte, Array.getD_eq_getD_getElem?, Array.getElem?_setIfInBounds]
  by_cases hc : cell i j = cell i' j'
  · have := cell_inj hij hij' hc
    have hcond : (i' = i ∧ j' = j) ∨ (i' = j ∧ j' = i) := by
      rcases this with ⟨a, b⟩ | ⟨a, b⟩
      · exact Or.inl ⟨a.symm, b.symm⟩
      · exact Or.inr ⟨b.symm, a.symm⟩
    simp [hc, hcond]
    rw [← hc, hsz]; simp [hlt]
  · have hcond : ¬ ((i' = i ∧ j' = j) ∨ (i' = j ∧ j' = i)) := by
      rintro (⟨a, b⟩ | ⟨a, b⟩)
      · subst a b; exact hc rfl
      · subst a b; exact hc (cell_symm j' i' hij)
    simp [hc, hcond]

end MX
