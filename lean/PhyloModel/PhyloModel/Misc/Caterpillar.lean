import PhyloModel.Misc.Generators
import PhyloModel.Arena.RoseStats
/-! C17, the caterpillar generator.  `GEN.caterpillar n` lists, for every slot after the root in creation
    order, `(parent slot, tip number)`.  Here: a recursive twin `cat` of its `let rec go`, the generic
    reconstruction of the tree from such a parent list (`forest`, `treeOf`), the replay of `add_child`
    (`replay`), and the explicit comb `combKids` that `treeOf (caterpillar n)` is equal to. -/
namespace GEN

/-! ### a recursive twin of `caterpillar.go` -/

/-- `cat m i p sz`: the entries created by the last `m` iterations of the loop of `generate_caterpillar`, when
    the loop counter is `i`, the current parent is `p` and the arena has `sz` slots -/
def cat : Nat → Nat → Nat → Nat → List (Nat × Option Nat)
  | 0, _, _, _ => []
  | 1, i, p, _ => [(p, some i), (p, some (i + 1))]
  | m + 2, i, p, sz => (p, none) :: (p, some i) :: cat (m + 1) (i + 1) sz (sz + 2)

theorem go_eq_cat (n : Nat) : ∀ (fuel i p sz : Nat), n - i ≤ fuel →
    caterpillar.go n fuel i p sz = cat (n - i) i p sz
  | 0, i, p, sz, h => by
    have : n - i = 0 := by omega
    rw [this, caterpillar.go, cat]
  | f + 1, i, p, sz, h => by
    rw [caterpillar.go]
    by_cases h1 : i ≥ n
    · have : n - i = 0 := by omega
      rw [this, cat, if_pos h1]
    · by_cases h2 : i = n - 1
      · have : n - i = 1 := by omega
        rw [this, cat, if_neg h1, if_pos h2]
      · have ih := go_eq_cat n f (i + 1) sz (sz + 2) (by omega)
        obtain ⟨m, hm⟩ : ∃ m, n - i = m + 2 := ⟨n - i - 2, by omega⟩
        have hm' : n - (i + 1) = m + 1 := by omega
        rw [hm, cat, ← hm', ← ih, if_neg h1, if_neg h2]

theorem caterpillar_eq_cat (n : Nat) : caterpillar n = cat (n - 1) 1 0 1 := by
  rw [caterpillar, go_eq_cat n n 1 0 1 (by omega)]

theorem cat_length : ∀ (m i p sz : Nat), (cat m i p sz).length = 2 * m
  | 0, _, _, _ => by simp [cat]
  | 1, _, _, _ => by simp [cat]
  | m + 2, i, p, sz => by simp [cat, cat_length (m + 1)]; omega

/-! ### parent lists: well-formedness and the replay of `add_child` -/

/-- every entry's parent is a slot that exists when the entry is created (`sz` slots exist at the start) -/
def parentsEarlier : Nat → List (Nat × Option Nat) → Prop
  | _, [] => True
  | sz, (p, _) :: r => p < sz ∧ parentsEarlier (sz + 1) r

theorem parentsEarlier_iff : ∀ (l : List (Nat × Option Nat)) (sz : Nat),
    parentsEarlier sz l ↔ ∀ (j : Nat) (h : j < l.length), l[j].1 < sz + j
  | [], sz => by simp [parentsEarlier]
  | (p, lab) :: r, sz => by
    rw [parentsEarlier, parentsEarlier_iff r (sz + 1)]
    constructor
    · rintro ⟨h0, h1⟩ j hj
      cases j with
      | zero => simpa using h0
      | succ j => have := h1 j (by simpa using hj); simp only [List.getElem_cons_succ]; omega
    · intro h
      have h0 := h 0 (Nat.zero_lt_succ _)
      simp only [List.getElem_cons_zero, Nat.add_zero] at h0
      refine ⟨h0, ?_⟩
      intro j hj
      have := h (j + 1) (by simpa using hj)
      simp only [List.getElem_cons_succ] at this; omega

theorem cat_parentsEarlier : ∀ (m i p sz : Nat), p < sz → parentsEarlier sz (cat m i p sz)
  | 0, _, _, _, _ => by simp [cat, parentsEarlier]
  | 1, _, _, _, h => by simp [cat, parentsEarlier]; omega
  | m + 2, i, p, sz, h => by
    rw [cat, parentsEarlier, parentsEarlier]
    exact ⟨h, by omega, cat_parentsEarlier (m + 1) (i + 1) sz (sz + 2) (by omega)⟩

/-- the slots `sz, sz+1, …` created by the entries of `l` that hang under `q`, in creation order -/
def childSlots : Nat → List (Nat × Option Nat) → Nat → List Nat
  | _, [], _ => []
  | sz, (p, _) :: r, q => if q = p then sz :: childSlots (sz + 1) r q else childSlots (sz + 1) r q

/-- slot `c` is listed under `q` iff it is the slot of an entry naming `q` as parent: every new slot hangs at
    exactly one place, the parent its entry names -/
theorem mem_childSlots : ∀ (l : List (Nat × Option Nat)) (sz q c : Nat),
    c ∈ childSlots sz l q ↔ ∃ (j : Nat) (h : j < l.length), c = sz + j ∧ l[j].1 = q
  | [], sz, q, c => by simp [childSlots]
  | (p, lab) :: r, sz, q, c => by
    have ih := mem_childSlots r (sz + 1) q c
    rw [childSlots]
    constructor
    · intro h
      by_cases hq : q = p
      · subst hq
        simp only [↓reduceIte, List.mem_cons] at h
        rcases h with rfl | h
        · exact ⟨0, by simp, rfl, by simp⟩
        · obtain ⟨j, hj, e1, e2⟩ := ih.1 h
          exact ⟨j + 1, by simpa using hj, by omega, by simpa using e2⟩
      · simp only [hq, ↓reduceIte] at h
        obtain ⟨j, hj, e1, e2⟩ := ih.1 h
        exact ⟨j + 1, by simpa using hj, by omega, by simpa using e2⟩
    · rintro ⟨j, hj, e1, e2⟩
      cases j with
      | zero =>
        simp only [List.getElem_cons_zero] at e2
        simp [← e2, e1]
      | succ j =>
        simp only [List.getElem_cons_succ] at e2
        have : c ∈ childSlots (sz + 1) r q := ih.2 ⟨j, by simpa using hj, by omega, e2⟩
        by_cases hq : q = p
        · subst hq; simp only [↓reduceIte, List.mem_cons]; right; exact this
        · simp only [hq, ↓reduceIte]; exact this

/-- the arena as far as the generator is concerned: slots, child lists, tip numbers -/
structure CSt where
  size : Nat
  kids : Nat → List Nat
  label : Nat → Option Nat

/-- `Tree::add_child`: refused when the parent does not exist; the new slot is appended to the parent's
    child list -/
def addChild (s : CSt) (p : Nat) (lab : Option Nat) : Option CSt :=
  if p < s.size then
    some { size := s.size + 1, kids := fun q => if q = p then s.kids p ++ [s.size] else s.kids q, label := fun q => if q = s.size then lab else s.label q }
  else none

def replay : CSt → List (Nat × Option Nat) → Option CSt
  | s, [] => some s
  | s, (p, lab) :: r => match addChild s p lab with | some s' => replay s' r | none => none

/-- the tree holding only the root -/
def rootOnly : CSt := { size := 1, kids := fun _ => [], label := fun _ => none }

/-- replaying a parent list succeeds iff every parent exists when it is used; then every child list is the
    old one followed by the new slots hanging there, and the new slots carry their tip numbers -/
theorem replay_spec : ∀ (l : List (Nat × Option Nat)) (s : CSt), parentsEarlier s.size l →
    ∃ s', replay s l = some s' ∧ s'.size = s.size + l.length ∧
      (∀ q, s'.kids q = s.kids q ++ childSlots s.size l q) ∧
      (∀ q, q < s.size → s'.label q = s.label q) ∧
      (∀ (j : Nat) (h : j < l.length), s'.label (s.size + j) = l[j].2)
  | [], s, _ => ⟨s, rfl, by simp, by simp [childSlots], by simp, by simp⟩
  | (p, lab) :: r, s, h => by
    rw [parentsEarlier] at h
    let s1 : CSt := { size := s.size + 1, kids := fun q => if q = p then s.kids p ++ [s.size] else s.kids q, label := fun q => if q = s.size then lab else s.label q }
    have h1 : addChild s p lab = some s1 := by simp [addChild, h.1, s1]
    obtain ⟨s', e, hs, hk, hl, hn⟩ := replay_spec r s1 h.2
    refine ⟨s', by simp [replay, h1, e], ?_, ?_, ?_, ?_⟩
    · rw [hs]; simp [s1]; omega
    · intro q
      rw [hk q, childSlots]
      by_cases hq : q = p <;> simp [s1, hq]
    · intro q hq
      rw [hl q (by simp [s1]; omega)]
      have : q ≠ s.size := by omega
      simp [s1, this]
    · intro j hj
      cases j with
      | zero =>
        rw [hl _ (by simp [s1])]
        simp [s1]
      | succ j =>
        have := hn j (by simpa using hj)
        simp only [List.getElem_cons_succ]
        rw [← this]
        congr 1
        simp [s1]; omega

theorem replay_fails : ∀ (l : List (Nat × Option Nat)) (s : CSt), ¬ parentsEarlier s.size l → replay s l = none
  | [], s, h => by simp [parentsEarlier] at h
  | (p, lab) :: r, s, h => by
    rw [parentsEarlier] at h
    by_cases hp : p < s.size
    · have h2 : ¬ parentsEarlier (s.size + 1) r := fun h' => h ⟨hp, h'⟩
      have := replay_fails r { size := s.size + 1, kids := fun q => if q = p then s.kids p ++ [s.size] else s.kids q, label := fun q => if q = s.size then lab else s.label q } h2
      simp [replay, addChild, hp, this]
    · simp [replay, addChild, hp]

/-! ### the tree described by a parent list -/

/-- a tree with arena slots and tip numbers -/
inductive CT where
  | node (slot : Nat) (label : Option Nat) (kids : List CT)
deriving Repr

def CT.slot : CT → Nat | .node s _ _ => s
def CT.label : CT → Option Nat | .node _ l _ => l
def CT.kids : CT → List CT | .node _ _ k => k

/-- `forest sz l q`: the subtrees hanging under `q` that the entries of `l` (creating the slots `sz, sz+1, …`)
    contribute, in creation order.  The subtree of a new slot consists of what LATER entries hang under it. -/
def forest : Nat → List (Nat × Option Nat) → Nat → List CT
  | _, [], _ => []
  | sz, (p, lab) :: r, q =>
    if q = p then CT.node sz lab (forest (sz + 1) r sz) :: forest (sz + 1) r q else forest (sz + 1) r q

/-- the tree whose slots after the root `0` are described by `l` -/
def treeOf (l : List (Nat × Option Nat)) : CT := .node 0 none (forest 1 l 0)

/-- the roots of `forest sz l q` are exactly the slots hanging under `q`, in creation order -/
theorem forest_slots : ∀ (l : List (Nat × Option Nat)) (sz q : Nat),
    (forest sz l q).map CT.slot = childSlots sz l q
  | [], _, _ => by simp [forest, childSlots]
  | (p, lab) :: r, sz, q => by
    rw [forest, childSlots]
    by_cases hq : q = p <;> simp [hq, CT.slot, forest_slots r]

mutual
/-- all nodes (as subtrees), pre-order -/
def CT.nodes : CT → List CT | .node s l ks => .node s l ks :: CT.nodesL ks
def CT.nodesL : List CT → List CT | [] => [] | k :: ks => CT.nodes k ++ CT.nodesL ks
end

theorem CT.nodesL_cons (k : CT) (ks : List CT) : CT.nodesL (k :: ks) = CT.nodes k ++ CT.nodesL ks := by
  rw [CT.nodesL]
theorem CT.nodesL_nil : CT.nodesL [] = [] := by rw [CT.nodesL]
theorem CT.nodes_node (s : Nat) (l : Option Nat) (ks : List CT) :
    CT.nodes (.node s l ks) = .node s l ks :: CT.nodesL ks := by rw [CT.nodes]

/-- every slot occurring in `forest sz l q` is one of the new slots -/
theorem forest_slot_ge : ∀ (l : List (Nat × Option Nat)) (sz q : Nat),
    ∀ x ∈ CT.nodesL (forest sz l q), sz ≤ x.slot ∧ x.slot < sz + l.length
  | [], _, _ => by simp [forest, CT.nodesL_nil]
  | (p, lab) :: r, sz, q => by
    intro x hx
    rw [forest] at hx
    have ih := forest_slot_ge r (sz + 1)
    simp only [List.length_cons]
    by_cases hq : q = p
    · simp only [hq, ↓reduceIte, CT.nodesL_cons, CT.nodes_node, List.mem_append, List.mem_cons] at hx
      rcases hx with (rfl | hx) | hx
      · simp [CT.slot]
      · have := ih sz x hx; omega
      · have := ih p x hx; omega
    · simp only [hq, ↓reduceIte] at hx
      have := ih q x hx; omega

/-- GENERIC faithfulness of `forest`: in a well-formed parent list, every node of the reconstructed forest is
    one of the new slots `sz + j`, carries the tip number of its entry `l[j]`, and its kids are, in creation
    order, exactly the slots whose entry names it as parent -/
theorem forest_faithful : ∀ (l : List (Nat × Option Nat)) (sz q : Nat), parentsEarlier sz l →
    ∀ x ∈ CT.nodesL (forest sz l q), x.kids.map CT.slot = childSlots sz l x.slot ∧
      ∃ (j : Nat) (h : j < l.length), x.slot = sz + j ∧ x.label = l[j].2
  | [], _, _, _ => by simp [forest, CT.nodesL_nil]
  | (p, lab) :: r, sz, q, hwf => by
    intro x hx
    rw [parentsEarlier] at hwf
    rw [forest] at hx
    have ih := forest_faithful r (sz + 1)
    have hge := forest_slot_ge r (sz + 1)
    have lift : ∀ q', x ∈ CT.nodesL (forest (sz + 1) r q') →
        x.kids.map CT.slot = childSlots sz ((p, lab) :: r) x.slot ∧
        ∃ (j : Nat) (h : j < ((p, lab) :: r).length), x.slot = sz + j ∧ x.label = ((p, lab) :: r)[j].2 := by
      intro q' hx'
      obtain ⟨h1, j, hj, h2, h3⟩ := ih q' hwf.2 x hx'
      have hne : x.slot ≠ p := by have := hge q' x hx'; omega
      refine ⟨by rw [childSlots]; simp [hne, h1], j + 1, by simpa using hj, by omega, ?_⟩
      simpa using h3
    by_cases hq : q = p
    · simp only [hq, ↓reduceIte, CT.nodesL_cons, CT.nodes_node, List.mem_append, List.mem_cons] at hx
      rcases hx with (rfl | hx) | hx
      · have hne : sz ≠ p := by omega
        refine ⟨?_, 0, by simp, by simp [CT.slot], by simp [CT.label]⟩
        simp only [CT.kids, CT.slot]
        rw [childSlots]; simp [hne, forest_slots]
      · exact lift sz hx
      · exact lift p hx
    · simp only [hq, ↓reduceIte] at hx
      exact lift q hx

/-! ### the comb -/

/-- the two kids of the node from which `m` more iterations hang: a comb with `m + 1` tips numbered
    `i, …, i + m`, in slots `sz, sz + 1, …` -/
def combKids : Nat → Nat → Nat → List CT
  | 0, _, _ => []
  | 1, i, sz => [.node sz (some i) [], .node (sz + 1) (some (i + 1)) []]
  | m + 2, i, sz => [.node sz none (combKids (m + 1) (i + 1) (sz + 2)), .node (sz + 1) (some i) []]

theorem forest_cat : ∀ (m i p sz : Nat), p < sz →
    forest sz (cat m i p sz) p = combKids m i sz ∧ ∀ q, q < sz → q ≠ p → forest sz (cat m i p sz) q = []
  | 0, _, _, _, _ => by simp [cat, forest, combKids]
  | 1, i, p, sz, h => by
    have h1 : sz ≠ p := by omega
    have h2 : sz + 1 ≠ p := by omega
    refine ⟨by simp [cat, forest, combKids, h1], ?_⟩
    intro q _ hq
    simp [cat, forest, hq]
  | m + 2, i, p, sz, h => by
    obtain ⟨ih1, ih2⟩ := forest_cat (m + 1) (i + 1) sz (sz + 2) (by omega)
    have h1 : sz ≠ p := by omega
    have h2 : sz + 1 ≠ p := by omega
    have e1 := ih2 (sz + 1) (by omega) (by omega)
    have e2 := ih2 p (by omega) (by omega)
    constructor
    · simp only [cat, forest, ↓reduceIte, h1, combKids, ih1, e1, e2]
    · intro q hq hqp
      have e3 := ih2 q (by omega) (by omega)
      simp only [cat, forest, hqp, ↓reduceIte, e3]

/-- the tree of the caterpillar generator is the comb -/
theorem treeOf_caterpillar (n : Nat) : treeOf (caterpillar n) = .node 0 none (combKids (n - 1) 1 1) := by
  rw [treeOf, caterpillar_eq_cat, (forest_cat (n - 1) 1 0 1 (by omega)).1]

/-! ### to the tree types of the statistics (C12) -/

def tipName (i : Nat) : String := "Tip_" ++ toString i

mutual
def toNL : CT → AR.RoseNL | .node _ l ks => .node (l.map tipName) none (toNLL ks)
def toNLL : List CT → List AR.RoseNL | [] => [] | k :: ks => toNL k :: toNLL ks
end

mutual
/-- as an abstract arena tree: ids are the slots, names `Tip_i`, cached depths from `d` -/
def toRose : Nat → CT → AR.Rose | d, .node s l ks => .node s (l.map tipName) none d (toRoseL (d + 1) ks)
def toRoseL : Nat → List CT → List AR.Rose | _, [] => [] | d, k :: ks => toRose d k :: toRoseL d ks
end

mutual
theorem erase_toRose : ∀ (t : CT) (d : Nat), AR.erase (toRose d t) = toNL t
  | .node s l ks, d => by rw [toRose, AR.erase, toNL, eraseL_toRoseL ks]
theorem eraseL_toRoseL : ∀ (ts : List CT) (d : Nat), AR.eraseL (toRoseL d ts) = toNLL ts
  | [], d => by rw [toRoseL, AR.eraseL, toNLL]
  | t :: ts, d => by rw [toRoseL, AR.eraseL, toNLL, erase_toRose t, eraseL_toRoseL ts]
end

end GEN
