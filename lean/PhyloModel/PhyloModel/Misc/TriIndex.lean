/-! probe: triangular indexing -/
namespace Tri

def T : Nat → Nat
  | 0 => 0
  | i + 1 => T i + i

theorem T_closed (i : Nat) : 2 * T i = i * (i - 1) := by
  induction i with
  | zero => simp [T]
  | succ k ih =>
    cases k with
    | zero => simp [T]
    | succ m =>
      simp only [T] at ih ⊢
      simp only [Nat.add_sub_cancel] at ih ⊢
      grind

theorem T_mono {i j : Nat} (h : i ≤ j) : T i ≤ T j := by
  induction j with
  | zero => simp_all
  | succ k ih =>
    by_cases hk : i = k + 1
    · subst hk; exact Nat.le_refl _
    · have := ih (by omega); simp [T]; omega

theorem T_succ_le {i j : Nat} (h : i < j) : T i + i ≤ T j := by
  have := T_mono (Nat.succ_le_of_lt h)
  simpa [T] using this

/-- `tril_to_rowvec_index` for i > j -/
def idx (i j : Nat) : Nat := ((i - 1) * i) / 2 + j

theorem idx_eq (i j : Nat) : idx i j = T i + j := by
  have := T_closed i
  simp only [idx]
  have h2 : (i - 1) * i = 2 * T i := by rw [this, Nat.mul_comm]
  rw [h2]; omega

theorem idx_inj {i j i' j' : Nat} (hj : j < i) (hj' : j' < i') (h : idx i j = idx i' j') : i = i' ∧ j = j' := by
  rw [idx_eq, idx_eq] at h
  rcases Nat.lt_trichotomy i i' with hlt | heq | hgt
  · have := T_succ_le hlt; omega
  · subst heq; exact ⟨rfl, by omega⟩
  · have := T_succ_le hgt; omega

theorem idx_lt {i j n : Nat} (hj : j < i) (hi : i < n) : idx i j < T n := by
  rw [idx_eq]; have := T_succ_le hi; omega

/-- scanning inverse: the row of cell k -/
def row : Nat → Nat → Nat   -- fuel, k
  | 0, _ => 0
  | f + 1, k => if T (f + 1) ≤ k then f + 1 else row f k

theorem row_spec (f k : Nat) (hk : k < T (f + 1)) (h0 : True) :
    T (row f k) ≤ k ∧ (k < T (row f k + 1)) := by
  induction f with
  | zero => simp [row, T] at *
  | succ g ih =>
    simp only [row]
    split
    · constructor <;> assumption
    · exact ih (by omega)

theorem idx_surj (n k : Nat) (hk : k < T n) : ∃ i j, j < i ∧ i < n ∧ idx i j = k := by
  cases n with
  | zero => simp [T] at hk
  | succ m =>
    have ⟨h1, h2⟩ := row_spec m k hk trivial
    refine ⟨row m k, k - T (row m k), ?_, ?_, ?_⟩
    · simp [T] at h2; omega
    · -- row ≤ m
      have : row m k ≤ m := by
        clear h1 h2 hk
        induction m with
        | zero => simp [row]
        | succ g ih => simp only [row]; split <;> omega
      omega
    · rw [idx_eq]; omega

end Tri
