import PhyloModel.Misc.Generators
/-! C17, names of the random generators: `namesByDeque` (ETE3-like: the final deque is numbered front to back)
    and `namesByArena` (Yule: the childless slots are numbered in arena order) assign the numbers `0 … n-1`
    bijectively to exactly the tips.  Everything is derived from `GInv`. -/
namespace GEN

/-- `names` (pairs `(slot, number)`, the tip `slot` is called `Tip_number`) names exactly the childless slots
    of `s`, with the numbers `0, 1, …, n-1`, each used once, no slot named twice -/
structure NamesOK (s : St) (names : List (Nat × Nat)) (n : Nat) : Prop where
  /-- the numbers handed out are `0, 1, …, n-1`, in this order (so: `n` names, pairwise different) -/
  nums : names.map Prod.snd = List.range n
  /-- no slot receives two names -/
  slots_nodup : (names.map Prod.fst).Nodup
  /-- a slot of the tree is named iff it is a tip (internal nodes stay unnamed, every tip is named) -/
  named_iff_tip : ∀ i, i < s.size → (i ∈ names.map Prod.fst ↔ s.kids i = [])
  /-- only slots of the tree are named (`get_mut` never fails) -/
  in_range : ∀ i ∈ names.map Prod.fst, i < s.size

/-! ### what `NamesOK` says, spelled out -/

theorem inj_of_nodup_map {α β : Type} (f : α → β) : ∀ (l : List α), (l.map f).Nodup →
    ∀ x ∈ l, ∀ y ∈ l, f x = f y → x = y
  | [], _, x, hx, _, _, _ => by simp at hx
  | a :: l, h, x, hx, y, hy, e => by
    simp only [List.map_cons, List.nodup_cons, List.mem_map, not_exists, not_and] at h
    simp only [List.mem_cons] at hx hy
    rcases hx with rfl | hx <;> rcases hy with rfl | hy
    · rfl
    · exact absurd e.symm (h.1 y hy)
    · exact absurd e (h.1 x hx)
    · exact inj_of_nodup_map f l h.2 x hx y hy e

theorem NamesOK.length {s : St} {names : List (Nat × Nat)} {n : Nat} (h : NamesOK s names n) :
    names.length = n := by
  have := congrArg List.length h.nums
  simpa using this

/-- a slot has at most one name -/
theorem NamesOK.name_unique {s : St} {names : List (Nat × Nat)} {n : Nat} (h : NamesOK s names n)
    {i a b : Nat} (ha : (i, a) ∈ names) (hb : (i, b) ∈ names) : a = b := by
  have := inj_of_nodup_map Prod.fst names h.slots_nodup _ ha _ hb rfl
  exact (Prod.mk.inj this).2

/-- two different slots never share a name -/
theorem NamesOK.slot_unique {s : St} {names : List (Nat × Nat)} {n : Nat} (h : NamesOK s names n)
    {i j a : Nat} (hi : (i, a) ∈ names) (hj : (j, a) ∈ names) : i = j := by
  have hnd : (names.map Prod.snd).Nodup := by rw [h.nums]; exact List.nodup_range
  have := inj_of_nodup_map Prod.snd names hnd _ hi _ hj rfl
  exact (Prod.mk.inj this).1

/-- every name is one of `0 … n-1` and is carried by a tip of the tree -/
theorem NamesOK.named_is_tip {s : St} {names : List (Nat × Nat)} {n : Nat} (h : NamesOK s names n)
    {i a : Nat} (hi : (i, a) ∈ names) : a < n ∧ i < s.size ∧ s.kids i = [] := by
  have h1 : i ∈ names.map Prod.fst := List.mem_map.2 ⟨(i, a), hi, rfl⟩
  have h2 : a ∈ names.map Prod.snd := List.mem_map.2 ⟨(i, a), hi, rfl⟩
  rw [h.nums] at h2
  have hlt := h.in_range i h1
  exact ⟨List.mem_range.1 h2, hlt, (h.named_iff_tip i hlt).1 h1⟩

/-- every number `0 … n-1` is the name of some tip -/
theorem NamesOK.number_used {s : St} {names : List (Nat × Nat)} {n : Nat} (h : NamesOK s names n)
    {a : Nat} (ha : a < n) : ∃ i, (i, a) ∈ names ∧ i < s.size ∧ s.kids i = [] := by
  have h2 : a ∈ names.map Prod.snd := by rw [h.nums]; exact List.mem_range.2 ha
  obtain ⟨⟨i, a'⟩, hm, rfl⟩ := List.mem_map.1 h2
  exact ⟨i, hm, (h.named_is_tip hm).2⟩

/-- every tip has a name; internal nodes have none -/
theorem NamesOK.tip_named {s : St} {names : List (Nat × Nat)} {n : Nat} (h : NamesOK s names n)
    {i : Nat} (hi : i < s.size) : (∃ a, (i, a) ∈ names) ↔ s.kids i = [] := by
  rw [← h.named_iff_tip i hi]
  constructor
  · rintro ⟨a, ha⟩; exact List.mem_map.2 ⟨(i, a), ha, rfl⟩
  · intro hm
    obtain ⟨⟨i', a⟩, hm', rfl⟩ := List.mem_map.1 hm
    exact ⟨a, hm'⟩

/-! ### the ETE3-like generator numbers its final deque -/

theorem namesByDeque_ok {s : St} {k : Nat} (h : GInv s k) : NamesOK s (namesByDeque s) (k + 1) := by
  have hfst : (namesByDeque s).map Prod.fst = s.deq := by simp [namesByDeque]
  refine ⟨?_, ?_, ?_, ?_⟩
  · simp [namesByDeque, List.range_eq_range', h.len]
  · rw [hfst]; exact h.nodup
  · intro i hi; rw [hfst]; exact h.tips i hi
  · intro i hi; rw [hfst] at hi; exact h.lt i hi

/-! ### the Yule generator numbers the childless slots in arena order -/

/-- `Tree::get_leaves` on the generator state: the childless slots in increasing order -/
def arenaTips (s : St) : List Nat := (List.range s.size).filter (fun i => (s.kids i).isEmpty)

theorem mem_arenaTips {s : St} {i : Nat} : i ∈ arenaTips s ↔ i < s.size ∧ s.kids i = [] := by
  simp [arenaTips, List.isEmpty_iff]

theorem arenaTips_nodup (s : St) : (arenaTips s).Nodup := List.nodup_range.filter _

theorem arenaTips_sorted (s : St) : (arenaTips s).Pairwise (· < ·) := List.pairwise_lt_range.filter _

/-- the leaves in arena order are the current candidates of the Yule loop, up to order -/
theorem arenaTips_perm_deq {s : St} {k : Nat} (h : GInv s k) : (arenaTips s).Perm s.deq := by
  rw [List.perm_ext_iff_of_nodup (arenaTips_nodup s) h.nodup]
  intro i
  rw [mem_arenaTips]
  constructor
  · rintro ⟨hi, hk⟩; exact (h.tips i hi).2 hk
  · intro hi; exact ⟨h.lt i hi, (h.tips i (h.lt i hi)).1 hi⟩

theorem namesByArena_ok {s : St} {k : Nat} (h : GInv s k) : NamesOK s (namesByArena s) (k + 1) := by
  have hfst : (namesByArena s).map Prod.fst = arenaTips s := by simp [namesByArena, arenaTips]
  have hlen : (arenaTips s).length = k + 1 := by rw [(arenaTips_perm_deq h).length_eq, h.len]
  refine ⟨?_, ?_, ?_, ?_⟩
  · have : (namesByArena s).map Prod.snd = List.range' 0 (arenaTips s).length := by
      simp [namesByArena, arenaTips]
    rw [this, hlen, List.range_eq_range']
  · rw [hfst]; exact arenaTips_nodup s
  · intro i hi; rw [hfst, mem_arenaTips]; simp [hi]
  · intro i hi; rw [hfst, mem_arenaTips] at hi; exact hi.1

/-- Yule: `Tip_0, Tip_1, …` follow the arena order of the tips -/
theorem namesByArena_sorted (s : St) : ((namesByArena s).map Prod.fst).Pairwise (· < ·) := by
  have hfst : (namesByArena s).map Prod.fst = arenaTips s := by simp [namesByArena, arenaTips]
  rw [hfst]; exact arenaTips_sorted s

end GEN
