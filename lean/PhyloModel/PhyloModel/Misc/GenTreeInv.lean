import PhyloModel.Misc.Generators
import PhyloModel.Props.C17
/-! C17: the child lists built by the random generators form a ROOTED TREE with root `0`: children are
    created after their parent (no cycles), every slot but `0` has a parent, and only one.  (`GInv` gives the
    counts and the binary shape; this file adds connectedness and acyclicity.) -/
namespace GEN

structure GTree (s : St) : Prop where
  /-- a child is a later slot than its parent: following parents strictly decreases, so it ends at `0` -/
  up : ∀ p c, c ∈ s.kids p → p < c ∧ c < s.size
  /-- every slot except the root hangs somewhere -/
  parent : ∀ c, 0 < c → c < s.size → ∃ p, c ∈ s.kids p
  /-- and only at one place -/
  unique : ∀ p p' c, c ∈ s.kids p → c ∈ s.kids p' → p = p'

theorem gtree_init : GTree init := by
  refine ⟨?_, ?_, ?_⟩
  · intro p c h; simp [init] at h
  · intro c h0 h1; simp [init] at h1; omega
  · intro p p' c h; simp [init] at h

/-- the common step of both generators: a current tip `p` receives the two fresh slots -/
theorem gtree_step (s : St) (k : Nat) (h : GInv s k) (t : GTree s) (p : Nat) (hp : p ∈ s.deq) (deq' : List Nat) :
    GTree { size := s.size + 2,
            kids := fun i => if i = p then s.kids p ++ [s.size, s.size + 1] else s.kids i,
            deq := deq' } := by
  have hp_lt : p < s.size := h.lt p hp
  have hpk : s.kids p = [] := (h.tips p hp_lt).1 hp
  refine ⟨?_, ?_, ?_⟩
  · intro q c hc
    simp only at hc ⊢
    by_cases hq : q = p
    · subst hq
      simp only [↓reduceIte, hpk, List.nil_append, List.mem_cons, List.not_mem_nil, or_false] at hc
      omega
    · simp only [hq, ↓reduceIte] at hc
      have := t.up q c hc; omega
  · intro c h0 h1
    simp only at h1 ⊢
    by_cases hc : c < s.size
    · obtain ⟨q, hq⟩ := t.parent c h0 hc
      have hqp : q ≠ p := by intro e; subst e; rw [hpk] at hq; simp at hq
      exact ⟨q, by simp only [hqp, ↓reduceIte]; exact hq⟩
    · refine ⟨p, ?_⟩
      simp only [↓reduceIte, hpk, List.nil_append, List.mem_cons, List.not_mem_nil, or_false]
      omega
  · intro q q' c hc hc'
    simp only at hc hc'
    by_cases hq : q = p <;> by_cases hq' : q' = p
    · rw [hq, hq']
    · subst hq
      simp only [↓reduceIte, hpk, List.nil_append, List.mem_cons, List.not_mem_nil, or_false] at hc
      simp only [hq', ↓reduceIte] at hc'
      have := t.up q' c hc'; omega
    · subst hq'
      simp only [↓reduceIte, hpk, List.nil_append, List.mem_cons, List.not_mem_nil, or_false] at hc'
      simp only [hq, ↓reduceIte] at hc
      have := t.up q c hc; omega
    · simp only [hq, ↓reduceIte] at hc
      simp only [hq', ↓reduceIte] at hc'
      exact t.unique q q' c hc hc'

theorem stepG_gtree (s : St) (k : Nat) (h : GInv s k) (t : GTree s) (b : Bool) (s' : St)
    (e : stepG s b = some s') : GTree s' := by
  cases b with
  | true =>
    cases hd : s.deq with
    | nil => simp [stepG, hd] at e
    | cons p r =>
      simp only [stepG, hd, ↓reduceIte, Option.some.injEq] at e
      subst e
      exact gtree_step s k h t p (by rw [hd]; simp) _
  | false =>
    cases hd : s.deq.reverse with
    | nil => simp [stepG, hd] at e
    | cons p r =>
      simp only [stepG, hd, Bool.false_eq_true, ↓reduceIte, Option.some.injEq] at e
      subst e
      have : p ∈ s.deq := by
        have : p ∈ s.deq.reverse := by rw [hd]; simp
        simpa using this
      exact gtree_step s k h t p this _

theorem stepY_gtree (s : St) (k : Nat) (h : GInv s k) (t : GTree s) (j : Nat) (s' : St)
    (e : stepY s j = some s') : GTree s' := by
  cases hd : s.deq[j]? with
  | none => simp [stepY, hd] at e
  | some p =>
    simp only [stepY, hd, Option.some.injEq] at e
    subst e
    exact gtree_step s k h t p (List.mem_of_getElem? hd) _

theorem runG_gtree : ∀ (bs : List Bool) (s : St) (k : Nat), GInv s k → GTree s →
    ∀ s', runG s bs = some s' → GTree s'
  | [], s, k, _, t, s', e => by simp only [runG, Option.some.injEq] at e; exact e ▸ t
  | b :: bs, s, k, h, t, s', e => by
    obtain ⟨s1, h1, g1⟩ := step_ginv s k h b
    simp only [runG, h1] at e
    exact runG_gtree bs s1 (k + 1) g1 (stepG_gtree s k h t b s1 h1) s' e

theorem runY_gtree : ∀ (ks : List Nat) (s : St) (n : Nat), GInv s n → GTree s →
    ∀ s', runY s ks = some s' → GTree s'
  | [], s, n, _, t, s', e => by simp only [runY, Option.some.injEq] at e; exact e ▸ t
  | j :: ks, s, n, h, t, s', e => by
    cases h1 : stepY s j with
    | none => simp [runY, h1] at e
    | some s1 =>
      simp only [runY, h1] at e
      have hj : j < s.deq.length := by
        cases hd : s.deq[j]? with
        | none => simp [stepY, hd] at h1
        | some p => exact (List.getElem?_eq_some_iff.1 hd).1
      obtain ⟨s1', h1', g1⟩ := C17.yule_step s j n h hj
      rw [h1] at h1'
      cases h1'
      exact runY_gtree ks s1 (n + 1) g1 (stepY_gtree s n h t j s1 h1) s' e

end GEN
