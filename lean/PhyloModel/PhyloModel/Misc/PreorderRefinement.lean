/-! probe: fuel-parametric refinement preorderF = (absF).map pre -/
namespace RF

structure Node where
  children : List Nat := []
  deleted : Bool := false
deriving Inhabited

abbrev Arena := Array Node
def dead : Node := { deleted := true }
def nd (a : Arena) (i : Nat) : Node := a.getD i dead
def get? (a : Arena) (i : Nat) : Option Node :=
  if i < a.size ∧ (nd a i).deleted = false then some (nd a i) else none

inductive T where | node (id : Nat) (kids : List T)

mutual
def pre : T → List Nat | .node i ks => i :: preL ks
def preL : List T → List Nat | [] => [] | k :: ks => pre k ++ preL ks
end

/-- `Tree::preorder` with fuel; `none` = Err (or fuel exhausted) -/
def preorderF : Nat → Arena → Nat → Option (List Nat)
  | 0, _, _ => none
  | f + 1, a, x =>
    match get? a x with
    | none => none
    | some n =>
      (n.children.foldlM (fun acc c => (preorderF f a c).map (fun l => acc ++ l)) [x])

/-- abstraction with fuel -/
def absF : Nat → Arena → Nat → Option T
  | 0, _, _ => none
  | f + 1, a, x =>
    match get? a x with
    | none => none
    | some n => (n.children.mapM (fun c => absF f a c)).map (fun ks => T.node x ks)

theorem fold_lemma (f : Nat) (a : Arena)
    (ih : ∀ x, preorderF f a x = (absF f a x).map pre) :
    ∀ (cs : List Nat) (acc : List Nat),
      cs.foldlM (fun acc c => (preorderF f a c).map (fun l => acc ++ l)) acc
        = (cs.mapM (fun c => absF f a c)).map (fun ks => acc ++ preL ks) := by
  intro cs
  induction cs with
  | nil => intro acc; simp [preL]
  | cons c cs ihc =>
    intro acc
    simp only [List.foldlM_cons, List.mapM_cons, ih c]
    cases h : absF f a c with
    | none => simp
    | some k =>
      simp only [Option.map_some, Option.bind_eq_bind, Option.bind_some, ihc]
      cases h2 : cs.mapM (fun c => absF f a c) with
      | none => simp
      | some ks => simp [preL, List.append_assoc]

theorem preorder_abs : ∀ (f : Nat) (a : Arena) (x : Nat), preorderF f a x = (absF f a x).map pre := by
  intro f
  induction f with
  | zero => intro a x; simp [preorderF, absF]
  | succ f ih =>
    intro a x
    simp only [preorderF, absF]
    cases get? a x with
    | none => simp
    | some n =>
      simp only [fold_lemma f a (ih a)]
      cases n.children.mapM (fun c => absF f a c) with
      | none => simp
      | some ks => simp [pre]

end RF
