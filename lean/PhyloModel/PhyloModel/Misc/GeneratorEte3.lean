/-! probe: C17 — the ETE3-like generator, for every oracle, builds a rooted binary tree with n leaves and 2n-1 nodes -/
namespace GEN

structure St where
  size : Nat                 -- number of arena slots
  kids : Nat → List Nat      -- children of each slot
  deq : List Nat             -- `next_deq`: the current tips

/-- one iteration of the loop in `generate_tree`: `front = true` pops the front, else the back -/
def stepG (s : St) (front : Bool) : Option St :=
  let pick : Option (Nat × List Nat) :=
    if front then (match s.deq with | p :: r => some (p, r) | [] => none)
    else (match s.deq.reverse with | p :: r => some (p, r.reverse) | [] => none)
  match pick with
  | none => none      -- `.unwrap()` on an empty deque
  | some (p, rest) =>
    some { size := s.size + 2,
           kids := fun i => if i = p then s.kids p ++ [s.size, s.size + 1] else s.kids i,
           deq := rest ++ [s.size, s.size + 1] }

def runG : St → List Bool → Option St
  | s, [] => some s
  | s, b :: bs => match stepG s b with | some s' => runG s' bs | none => none

def init : St := { size := 1, kids := fun _ => [], deq := [0] }

structure GInv (s : St) (k : Nat) : Prop where    -- after k iterations
  size : s.size = 2 * k + 1
  len : s.deq.length = k + 1
  nodup : s.deq.Nodup
  lt : ∀ i ∈ s.deq, i < s.size
  tips : ∀ i, i < s.size → (i ∈ s.deq ↔ s.kids i = [])
  binary : ∀ i, i < s.size → i ∉ s.deq → ∃ a b, s.kids i = [a, b] ∧ a ≠ b ∧ a < s.size ∧ b < s.size
  oob : ∀ i, s.size ≤ i → s.kids i = []

theorem ginv_init : GInv init 0 := by
  refine ⟨rfl, rfl, by simp [init], by simp [init], ?_, ?_, ?_⟩
  · intro i hi; simp [init] at hi ⊢; omega
  · intro i hi hn; simp [init] at hi hn; omega
  · intro i _; rfl

/-- removing one element `p` from a duplicate-free deque and appending two fresh ids -/
theorem step_core (s : St) (k : Nat) (h : GInv s k) (p : Nat) (rest : List Nat)
    (hperm : s.deq.Perm (p :: rest)) :
    GInv { size := s.size + 2,
           kids := fun i => if i = p then s.kids p ++ [s.size, s.size + 1] else s.kids i,
           deq := rest ++ [s.size, s.size + 1] } (k + 1) := by
  have hnd : (p :: rest).Nodup := hperm.nodup_iff.1 h.nodup
  have hmem : ∀ i, i ∈ s.deq ↔ (i = p ∨ i ∈ rest) := fun i => by rw [hperm.mem_iff]; simp
  have hp_lt : p < s.size := h.lt p ((hmem p).2 (Or.inl rfl))
  have hpk : s.kids p = [] := (h.tips p hp_lt).1 ((hmem p).2 (Or.inl rfl))
  have hp_rest : p ∉ rest := (List.nodup_cons.1 hnd).1
  have hrest_lt : ∀ i ∈ rest, i < s.size := fun i hi => h.lt i ((hmem i).2 (Or.inr hi))
  refine ⟨?_, ?_, ?_, ?_, ?_, ?_, ?_⟩
  · simp only; have := h.size; omega
  · simp only [List.length_append, List.length_cons, List.length_nil]
    have := hperm.length_eq; simp at this; have := h.len; omega
  · simp only
    rw [List.nodup_append]
    refine ⟨(List.nodup_cons.1 hnd).2, by simp, ?_⟩
    intro a ha b hb
    have := hrest_lt a ha
    simp at hb; omega
  · intro i hi
    simp only [List.mem_append, List.mem_cons, List.not_mem_nil, or_false] at hi
    simp only
    rcases hi with hi | hi | hi
    · have := hrest_lt i hi; omega
    · omega
    · omega
  · intro i hi
    simp only at hi ⊢
    simp only [List.mem_append, List.mem_cons, List.not_mem_nil, or_false]
    by_cases hip : i = p
    · subst hip
      simp [hpk, hp_rest]; omega
    · simp only [hip, ↓reduceIte]
      by_cases hlt : i < s.size
      · rw [← h.tips i hlt, hmem i]
        constructor
        · rintro (hr | hr | hr)
          · exact Or.inr hr
          · omega
          · omega
        · rintro (hr | hr)
          · exact absurd hr hip
          · exact Or.inl hr
      · have : s.kids i = [] := h.oob i (by omega)
        simp only [this, iff_true]
        right; omega
  · intro i hi hn
    simp only at hi hn ⊢
    simp only [List.mem_append, List.mem_cons, List.not_mem_nil, or_false, not_or] at hn
    by_cases hip : i = p
    · subst hip
      exact ⟨s.size, s.size + 1, by simp [hpk], by omega, by omega, by omega⟩
    · simp only [hip, ↓reduceIte]
      have hlt : i < s.size := by omega
      have hnd' : i ∉ s.deq := by rw [hmem i]; simp [hip, hn.1]
      obtain ⟨a, b, h1, h2, h3, h4⟩ := h.binary i hlt hnd'
      exact ⟨a, b, h1, h2, by omega, by omega⟩
  · intro i hi
    simp only at hi ⊢
    have hip : i ≠ p := by omega
    simp only [hip, ↓reduceIte]
    exact h.oob i (by omega)

theorem step_ginv (s : St) (k : Nat) (h : GInv s k) (b : Bool) : ∃ s', stepG s b = some s' ∧ GInv s' (k + 1) := by
  have hne : s.deq ≠ [] := by intro he; have := h.len; rw [he] at this; simp at this
  cases b with
  | true =>
    cases hd : s.deq with
    | nil => exact absurd hd hne
    | cons p r =>
      refine ⟨{ size := s.size + 2, kids := fun i => if i = p then s.kids p ++ [s.size, s.size + 1] else s.kids i, deq := r ++ [s.size, s.size + 1] }, by simp [stepG, hd], ?_⟩
      exact step_core s k h p r (by rw [hd])
  | false =>
    cases hd : s.deq.reverse with
    | nil => simp at hd; exact absurd hd hne
    | cons p r =>
      refine ⟨{ size := s.size + 2, kids := fun i => if i = p then s.kids p ++ [s.size, s.size + 1] else s.kids i, deq := r.reverse ++ [s.size, s.size + 1] }, by simp [stepG, hd], ?_⟩
      apply step_core s k h p r.reverse
      have : s.deq = (p :: r).reverse := by rw [← hd]; simp
      rw [this]
      simp only [List.reverse_cons]
      exact List.perm_append_comm.trans (by simp)

/-- C17 (prototype): for every oracle of length n-1 the generator succeeds and returns n tips, 2n-1 slots,
    every non-tip with exactly two children -/
theorem generate_tree_ok : ∀ (bs : List Bool) (s : St) (k : Nat), GInv s k →
    ∃ s', runG s bs = some s' ∧ GInv s' (k + bs.length)
  | [], s, k, h => ⟨s, rfl, by simpa using h⟩
  | b :: bs, s, k, h => by
    obtain ⟨s1, h1, g1⟩ := step_ginv s k h b
    obtain ⟨s2, h2, g2⟩ := generate_tree_ok bs s1 (k + 1) g1
    refine ⟨s2, by simp [runG, h1, h2], ?_⟩
    have : k + (b :: bs).length = k + 1 + bs.length := by simp; omega
    rw [this]; exact g2

end GEN
