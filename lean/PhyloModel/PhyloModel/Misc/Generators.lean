import PhyloModel.Misc.GeneratorEte3
/-! Executable models of the three random tree generators of src/lib.rs as functions of an explicit oracle
    (the random choices), on the generator state of `GEN`: number of slots, child lists, current tips. -/
namespace GEN

/-- `Vec::swap_remove(k)` -/
def swapRemove (l : List Nat) (k : Nat) : List Nat :=
  match l.getLast? with
  | none => l
  | some last => if k + 1 = l.length then l.dropLast else (l.set k last).dropLast

/-- one iteration of the loop of `generate_yule`: the oracle is the index chosen in `parent_candidates` -/
def stepY (s : St) (k : Nat) : Option St :=
  match s.deq[k]? with
  | none => none      -- ill-formed oracle: `choose` only returns valid positions
  | some p =>
    some { size := s.size + 2,
           kids := fun i => if i = p then s.kids p ++ [s.size, s.size + 1] else s.kids i,
           deq := swapRemove (s.deq ++ [s.size, s.size + 1]) k }

def runY : St → List Nat → Option St
  | s, [] => some s
  | s, k :: ks => match stepY s k with | some s' => runY s' ks | none => none

/-- `generate_caterpillar(n)`: (parent, tip number) of every slot after the root, in creation order -/
def caterpillar (n : Nat) : List (Nat × Option Nat) :=
  let rec go (fuel i parent size : Nat) : List (Nat × Option Nat) :=
    match fuel with
    | 0 => []
    | f + 1 =>
      if i ≥ n then [] else
      if i = n - 1 then [(parent, some i), (parent, some (i + 1))]
      else (parent, none) :: (parent, some i) :: go f (i + 1) size (size + 2)
  go n 1 0 1

/-- names: `generate_tree` numbers the final deque, `generate_yule` the leaves in arena order -/
def namesByDeque (s : St) : List (Nat × Nat) := s.deq.zipIdx
def namesByArena (s : St) : List (Nat × Nat) :=
  ((List.range s.size).filter (fun i => (s.kids i).isEmpty)).zipIdx

end GEN
