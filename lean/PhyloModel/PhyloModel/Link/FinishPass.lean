import PhyloModel.Link.ParsedArena
/-! # The finishing pass of `Tree::from_newick`, step by step

`LK.toAR` DEFINES the edge map of a parsed node as "one entry per child that carries a branch length".  Here the
pass the Rust code runs just before returning is modelled literally — the arena as built by the parser's
`add_child(…, None)` calls has no child edge anywhere (`toAR0`); then, for every node id in increasing order, a
present `parent_edge` is copied into the parent's `child_edges` with the library's own `set_child_edge`
(`AR.setCedge`) — and proved to produce `toAR`: all other fields are equal and the edge maps agree at every
key.  All notions used by the linked C04 theorem (`Good`, `AtMostOneRoot`, `absRoot`) are insensitive to
the representation of the edge map, so the parsed-arena theorem holds for `finishPass` as well. -/
namespace LK
open NW (PNode RTree Label)

def toARNode0 (n : PNode Int) : AR.Node :=
  { parent := n.parent, children := n.children, pedge := n.len, cedges := [],
    depth := n.depth, deleted := false, name := n.name.map String.ofList, comment := n.comment.map String.ofList }

/-- the parser's arena just before the finishing pass: no child edge recorded anywhere -/
def toAR0 (p : PArena) : AR.Arena := (p.toList.map toARNode0).toArray

/-- one iteration of the pass: `if let Some(edge) = tree.get(id).parent_edge { if let Some(parent) =
    tree.get(id).parent { tree.get_mut(parent).set_child_edge(id, Some(edge)) } }` -/
def passStep (b : AR.Arena) (i : Nat) : AR.Arena :=
  match (AR.nd b i).pedge, (AR.nd b i).parent with
  | some v, some q => b.setIfInBounds q (AR.setCedge (AR.nd b q) i (some v))
  | _, _ => b

/-- the arena `from_newick` returns, computed by running the finishing pass -/
def finishPass (p : PArena) : AR.Arena := (List.range p.size).foldl passStep (toAR0 p)

/-- all fields but the edge map agree -/
def EqButCedges (x y : AR.Node) : Prop :=
  x.parent = y.parent ∧ x.children = y.children ∧ x.pedge = y.pedge ∧ x.depth = y.depth ∧
  x.deleted = y.deleted ∧ x.name = y.name ∧ x.comment = y.comment

theorem EqButCedges.rfl' (x : AR.Node) : EqButCedges x x := ⟨rfl, rfl, rfl, rfl, rfl, rfl, rfl⟩

/-- same arena up to the representation of the edge maps -/
def SameMaps (a b : AR.Arena) : Prop :=
  b.size = a.size ∧ ∀ i, EqButCedges (AR.nd b i) (AR.nd a i) ∧
    (∀ c, AR.alGet (AR.nd b i).cedges c = AR.alGet (AR.nd a i).cedges c) ∧
    ((AR.nd a i).deleted = true → (AR.nd b i).cedges = (AR.nd a i).cedges)

theorem nd_toAR0 (p : PArena) (i : Nat) :
    AR.nd (toAR0 p) i = if i < p.size then toARNode0 (NW.nd p i) else AR.dead := by
  simp only [AR.nd, NW.nd, toAR0, Array.getD_eq_getD_getElem?, List.getElem?_toArray, List.getElem?_map,
    Array.getElem?_toList]
  by_cases h : i < p.size
  · simp [h]
  · simp [h]

/-- state of the pass after the ids below `k` -/
structure PassInv (p : PArena) (k : Nat) (b : AR.Arena) : Prop where
  size : b.size = p.size
  oob : ∀ q, p.size ≤ q → AR.nd b q = AR.dead
  fields : ∀ q, q < p.size → EqButCedges (AR.nd b q) (toARNode0 (NW.nd p q))
  edges : ∀ q c, q < p.size → AR.alGet (AR.nd b q).cedges c =
    if c < k ∧ c ∈ (NW.nd p q).children then (NW.nd p c).len else none

theorem passInv_zero (p : PArena) : PassInv p 0 (toAR0 p) := by
  refine ⟨by simp [toAR0], ?_, ?_, ?_⟩
  · intro q hq; rw [nd_toAR0, if_neg (by omega)]
  · intro q hq; rw [nd_toAR0, if_pos hq]; exact EqButCedges.rfl' _
  · intro q c hq; rw [nd_toAR0, if_pos hq]; simp [toARNode0, AR.alGet]

theorem passInv_step {p : PArena} (hs : NW.Struct p) {k : Nat} {b : AR.Arena} (hk : k < p.size)
    (h : PassInv p k b) : PassInv p (k + 1) (passStep b k) := by
  have hfk := h.fields k hk
  have hpe : (AR.nd b k).pedge = (NW.nd p k).len := hfk.2.2.1
  have hpa : (AR.nd b k).parent = (NW.nd p k).parent := hfk.1
  -- membership in a child list is the parent pointer
  have hmem : ∀ q, q < p.size → (k ∈ (NW.nd p q).children ↔ (NW.nd p k).parent = some q) := by
    intro q hq
    constructor
    · intro hm; exact (hs.down q k hq hm).2
    · intro hp
      by_cases h0 : k = 0
      · subst h0; rw [(hs.root hk).1] at hp; cases hp
      · obtain ⟨q', hq', _, hm, _⟩ := hs.up k (by omega) hk
        rw [hq'] at hp; cases hp; exact hm
  unfold passStep
  rw [hpe, hpa]
  cases hl : (NW.nd p k).len with
  | none =>
    refine ⟨h.size, h.oob, h.fields, ?_⟩
    intro q c hq
    rw [h.edges q c hq]
    by_cases hck : c = k
    · subst hck; simp [hl]
    · have : (c < k + 1) ↔ (c < k) := by omega
      simp only [this]
  | some v =>
    cases hp : (NW.nd p k).parent with
    | none =>
      refine ⟨h.size, h.oob, h.fields, ?_⟩
      intro q c hq
      rw [h.edges q c hq]
      by_cases hck : c = k
      · subst hck
        have : c ∉ (NW.nd p q).children := fun hm => by
          rw [(hmem q hq).1 hm] at hp; cases hp
        simp [this]
      · have : (c < k + 1) ↔ (c < k) := by omega
        simp only [this]
    | some q0 =>
      have hq0 : q0 < p.size := by
        have : k ≠ 0 := by intro e; subst e; rw [(hs.root hk).1] at hp; cases hp
        obtain ⟨q', hq', hlt, _, _⟩ := hs.up k (by omega) hk
        rw [hq'] at hp; cases hp; omega
      have hq0b : q0 < b.size := by rw [h.size]; exact hq0
      simp only
      refine ⟨by simp [h.size], ?_, ?_, ?_⟩
      · intro q hq
        rw [AR.nd_set, if_neg (by omega)]
        exact h.oob q hq
      · intro q hq
        rw [AR.nd_set]
        split
        next hc =>
          obtain ⟨rfl, _⟩ := hc
          have := h.fields q hq
          simp only [EqButCedges, AR.setCedge_parent, AR.setCedge_children, AR.setCedge_pedge,
            AR.setCedge_depth, AR.setCedge_deleted] at this ⊢
          refine ⟨this.1, this.2.1, this.2.2.1, this.2.2.2.1, this.2.2.2.2.1, ?_, ?_⟩
          · simp only [AR.setCedge]; exact this.2.2.2.2.2.1
          · simp only [AR.setCedge]; exact this.2.2.2.2.2.2
        next => exact h.fields q hq
      · intro q c hq
        rw [AR.nd_set]
        by_cases hqq : q = q0
        · subst hqq
          rw [if_pos ⟨rfl, hq0b⟩, AR.setCedge_get, h.edges q c hq]
          by_cases hck : c = k
          · subst hck
            have : c ∈ (NW.nd p q).children := (hmem q hq).2 hp
            simp [this, hl]
          · have : (c < k + 1) ↔ (c < k) := by omega
            simp only [hck, ↓reduceIte, this]
        · rw [if_neg (fun hc => hqq hc.1), h.edges q c hq]
          by_cases hck : c = k
          · subst hck
            have : c ∉ (NW.nd p q).children := fun hm => by
              rw [(hmem q hq).1 hm] at hp; cases hp; exact hqq rfl
            simp [this]
          · have : (c < k + 1) ↔ (c < k) := by omega
            simp only [this]

theorem passInv_fold {p : PArena} (hs : NW.Struct p) : ∀ k, k ≤ p.size →
    PassInv p k ((List.range k).foldl passStep (toAR0 p))
  | 0, _ => by simpa using passInv_zero p
  | k + 1, hk => by
    rw [List.range_succ, List.foldl_append]
    exact passInv_step hs (by omega) (passInv_fold hs k (by omega))

/-- **the finishing pass produces `toAR`** (up to the representation of the edge maps: equal at every key) -/
theorem finishPass_sameMaps {p : PArena} (hs : NW.Struct p) : SameMaps (toAR p) (finishPass p) := by
  have h := passInv_fold hs p.size (Nat.le_refl _)
  refine ⟨by rw [size_toAR]; exact h.size, fun i => ?_⟩
  by_cases hi : i < p.size
  · rw [nd_toAR_lt p i hi]
    refine ⟨h.fields i hi, fun c => ?_, fun hd => by simp [toARNode] at hd⟩
    show AR.alGet (AR.nd (finishPass p) i).cedges c = _
    rw [finishPass, h.edges i c hi]
    simp only [toARNode, alGet_cedgesOf]
    by_cases hc : c ∈ (NW.nd p i).children
    · have := (hs.down i c hi hc).1
      simp [hc, this]
    · simp [hc]
  · rw [nd_toAR_ge p i (by omega)]
    have : AR.nd (finishPass p) i = AR.dead := h.oob i (by omega)
    rw [this]
    exact ⟨EqButCedges.rfl' _, fun _ => rfl, fun _ => rfl⟩

/-! ### everything the linked theorem uses is insensitive to the representation of the edge maps -/

theorem SameMaps.live {a b : AR.Arena} (h : SameMaps a b) (i : Nat) : AR.live b i ↔ AR.live a i := by
  simp only [AR.live, h.1, (h.2 i).1.2.2.2.2.1]

theorem SameMaps.good {a b : AR.Arena} (h : SameMaps a b) (g : AR.Good a) : AR.Good b := by
  obtain ⟨hinv, ht⟩ := g
  have hl := h.live
  have hf := fun i => (h.2 i).1
  have hm := fun i => (h.2 i).2.1
  refine ⟨⟨?_, ?_, ?_, ?_, ?_⟩, ?_⟩
  · intro i c hli hc
    rw [hl] at hli; rw [(hf i).2.1] at hc
    obtain ⟨k1, k2, k3, k4⟩ := hinv.child_ok i c hli hc
    refine ⟨(hl c).2 k1, ?_, ?_, ?_⟩
    · rw [(hf c).1]; exact k2
    · rw [(hf c).2.2.2.1, (hf i).2.2.2.1]; exact k3
    · rw [hm i c, (hf c).2.2.1]; exact k4
  · intro i p hli hp
    rw [hl] at hli; rw [(hf i).1] at hp
    obtain ⟨k1, k2⟩ := hinv.parent_ok i p hli hp
    exact ⟨(hl p).2 k1, by rw [(hf p).2.1]; exact k2⟩
  · intro i; rw [(hf i).2.1]; exact hinv.nodup i
  · intro i hli hp
    rw [hl] at hli; rw [(hf i).1] at hp
    rw [(hf i).2.2.2.1]; exact hinv.root_depth i hli hp
  · intro i c hsome
    rw [hm i c] at hsome; rw [(hf i).2.1]; exact hinv.cedge_dom i c hsome
  · intro i hd
    rw [(hf i).2.2.2.2.1] at hd
    rw [(hf i).1, (hf i).2.1, (h.2 i).2.2 hd]
    exact ht i hd

theorem SameMaps.oneRoot {a b : AR.Arena} (h : SameMaps a b) (r : AR.AtMostOneRoot a) : AR.AtMostOneRoot b := by
  intro i j hi hj
  exact r i j ⟨(h.live i).1 hi.1, by rw [← (h.2 i).1.1]; exact hi.2⟩ ⟨(h.live j).1 hj.1, by rw [← (h.2 j).1.1]; exact hj.2⟩

theorem SameMaps.isLive {a b : AR.Arena} (h : SameMaps a b) (i : Nat) : AR.isLive b i = AR.isLive a i := by
  simp only [AR.isLive, h.1, (h.2 i).1.2.2.2.2.1]

theorem SameMaps.absF {a b : AR.Arena} (h : SameMaps a b) : ∀ (f x : Nat), AR.absF f b x = AR.absF f a x
  | 0, _ => rfl
  | f + 1, x => by
    have hf := (h.2 x).1
    simp only [AR.absF, h.isLive x, hf.2.1, hf.2.2.1, hf.2.2.2.1, hf.2.2.2.2.2.1]
    have : (fun c => AR.absF f b c) = (fun c => AR.absF f a c) := funext (fun c => SameMaps.absF h f c)
    rw [this]

theorem SameMaps.getRoot {a b : AR.Arena} (h : SameMaps a b) : AR.getRoot b = AR.getRoot a := by
  have : (fun i => AR.isLive b i && (AR.nd b i).parent.isNone) = (fun i => AR.isLive a i && (AR.nd a i).parent.isNone) := by
    funext i; rw [h.isLive i, (h.2 i).1.1]
  simp only [AR.getRoot, h.1, this]

theorem SameMaps.absRoot {a b : AR.Arena} (h : SameMaps a b) : AR.absRoot b = AR.absRoot a := by
  have hfu : AR.fuelOf b = AR.fuelOf a := by simp only [AR.fuelOf, h.1]
  have : (fun r => AR.QR.ofOpt (AR.absF (AR.fuelOf b) b r) "NodeNotFound")
      = (fun r => AR.QR.ofOpt (AR.absF (AR.fuelOf a) a r) "NodeNotFound") := by
    funext r; rw [hfu, h.absF]
  simp only [AR.absRoot, AR.root, h.getRoot]
  cases AR.getRoot a with
  | none => rfl
  | some r => simp only [AR.QR.ofOpt]; exact congrFun this r

/-- **a parsed arena, computed with the literal finishing pass, is a good arena and represents the parsed
    tree** -/
theorem finishPass_good_represents {a : PArena} (hs : NW.Struct a) {t : RTree Int} (hrep : NW.RepN a 0 t) :
    AR.Good (finishPass a) ∧ AR.AtMostOneRoot (finishPass a) ∧
    ∃ tb, AR.absRoot (finishPass a) = .ok tb ∧ AR.erase tb = eraseRT t := by
  have h := finishPass_sameMaps hs
  obtain ⟨g, r, tb, htb, he⟩ := parsed_good_represents hs hrep
  exact ⟨h.good g, h.oneRoot r, tb, by rw [h.absRoot]; exact htb, he⟩

/-- the two computations of the returned arena agree on a concrete text -/
example : (match NW.parse (fun l => some (l.length : Int)) "((A:x,B:xx)C:xxx,D)R:x;".toList with
    | .done p => (List.range p.size).all (fun i =>
        (AR.nd (finishPass p) i).cedges == (AR.nd (toAR p) i).cedges.reverse ||
        (AR.nd (finishPass p) i).cedges == (AR.nd (toAR p) i).cedges)
    | _ => false) = true := by decide +kernel

end LK
