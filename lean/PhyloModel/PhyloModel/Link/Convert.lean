import PhyloModel.Newick.StructRep
import PhyloModel.Arena.AbsRose
import PhyloModel.Arena.RoseStats
/-! # Link between the two component models: conversions

`NW` (character-level Newick parser / writer on arenas `Array (NW.PNode L)`, labels are `List Char`) and `AR`
(the arena of the tree library with all edits and queries, labels are `String`, lengths are `Int`) were
developed separately.  This file fixes `L := Int` and defines the conversions between

* parser arenas and library arenas: `toAR` (what `Tree::from_newick` returns, seen as an `AR.Arena`: the
  finishing pass of the parser mirrors every present `parent_edge` into the parent's `child_edges`) and
  `toNW` (the library arena as the writer sees it; removed slots become unreachable junk slots),
* the rose trees of the two sides: `eraseRT : NW.RTree Int → AR.RoseNL` (forget comments),
  `toRT : AR.RoseNL → NW.RTree Int` (no comments), `toRTc a : AR.Rose → NW.RTree Int` (comments read from
  the slots of `a`),

and proves the slot-access lemmas and the inverse laws. -/
namespace LK
open NW (PNode RTree Label)

abbrev PArena := Array (PNode Int)

/-! ### parser arena → library arena -/

/-- the `child_edges` map the finishing pass of `from_newick` leaves in a node with child list `cs`: one entry
    per child that carries a branch length -/
def cedgesOf (a : PArena) (cs : List Nat) : List (Nat × Int) :=
  cs.filterMap (fun c => (NW.nd a c).len.map (fun v => (c, v)))

def toARNode (a : PArena) (n : PNode Int) : AR.Node :=
  { parent := n.parent, children := n.children, pedge := n.len, cedges := cedgesOf a n.children,
    depth := n.depth, deleted := false, name := n.name.map String.ofList, comment := n.comment.map String.ofList }

/-- the arena `Tree::from_newick` returns, as a library arena -/
def toAR (a : PArena) : AR.Arena := (a.toList.map (toARNode a)).toArray

@[simp] theorem size_toAR (a : PArena) : (toAR a).size = a.size := by simp [toAR]

theorem nd_toAR (a : PArena) (i : Nat) :
    AR.nd (toAR a) i = if i < a.size then toARNode a (NW.nd a i) else AR.dead := by
  simp only [AR.nd, NW.nd, toAR, Array.getD_eq_getD_getElem?, List.getElem?_toArray, List.getElem?_map,
    Array.getElem?_toList]
  by_cases h : i < a.size
  · simp [h]
  · simp [h]

theorem nd_toAR_lt (a : PArena) (i : Nat) (h : i < a.size) : AR.nd (toAR a) i = toARNode a (NW.nd a i) := by
  rw [nd_toAR, if_pos h]

theorem nd_toAR_ge (a : PArena) (i : Nat) (h : a.size ≤ i) : AR.nd (toAR a) i = AR.dead := by
  rw [nd_toAR, if_neg (by omega)]

theorem live_toAR (a : PArena) (i : Nat) : AR.live (toAR a) i ↔ i < a.size := by
  simp only [AR.live, size_toAR]
  constructor
  · exact fun h => h.1
  · intro h; exact ⟨h, by rw [nd_toAR_lt a i h]; rfl⟩

/-- the mirrored edge map, read at a key -/
theorem alGet_cedgesOf (a : PArena) (cs : List Nat) (c : Nat) :
    AR.alGet (cedgesOf a cs) c = if c ∈ cs then (NW.nd a c).len else none := by
  induction cs with
  | nil => simp [cedgesOf, AR.alGet]
  | cons d ds ih =>
    unfold cedgesOf at ih ⊢
    rw [List.filterMap_cons]
    cases hl : (NW.nd a d).len with
    | none =>
      simp only [Option.map_none, ih, List.mem_cons]
      by_cases hcd : c = d
      · subst hcd; simp [hl]
      · simp [hcd]
    | some v =>
      simp only [Option.map_some, AR.alGet, ih, List.mem_cons]
      by_cases hcd : d = c
      · subst hcd; simp [hl]
      · have : ¬ c = d := fun e => hcd e.symm
        simp [hcd, this]

/-! ### library arena → parser arena (for the writer) -/

def toNWNode (n : AR.Node) : PNode Int :=
  { name := n.name.map String.toList, parent := n.parent, children := n.children, len := n.pedge,
    comment := n.comment.map String.toList, depth := n.depth }

/-- the library arena as `Tree::to_newick` reads it (removed slots stay as unreachable slots) -/
def toNW (a : AR.Arena) : PArena := (a.toList.map toNWNode).toArray

@[simp] theorem size_toNW (a : AR.Arena) : (toNW a).size = a.size := by simp [toNW]

theorem nd_toNW_lt (a : AR.Arena) (i : Nat) (h : i < a.size) : NW.nd (toNW a) i = toNWNode (AR.nd a i) := by
  simp [AR.nd, NW.nd, toNW, Array.getD_eq_getD_getElem?, h]

theorem toNWNode_toARNode (p : PArena) (n : PNode Int) : toNWNode (toARNode p n) = n := by
  cases n
  simp [toNWNode, toARNode]

/-- the writer's view of a parsed arena (seen as a library arena) is the parser arena itself -/
theorem toNW_toAR (p : PArena) : toNW (toAR p) = p := by
  simp only [toNW, toAR, List.map_map]
  have : (toNWNode ∘ toARNode p) = id := funext (fun n => toNWNode_toARNode p n)
  rw [this]
  simp

/-! ### rose trees -/

mutual
/-- forget the comments of a Newick rose tree; labels become strings -/
def eraseRT : RTree Int → AR.RoseNL
  | .node n l _ ks => .node (n.map String.ofList) l (eraseRTL ks)
def eraseRTL : List (RTree Int) → List AR.RoseNL
  | [] => []
  | k :: ks => eraseRT k :: eraseRTL ks
end

mutual
/-- a name/length/kids tree as a Newick rose tree without comments -/
def toRT : AR.RoseNL → RTree Int
  | .node n l ks => .node (n.map String.toList) l none (toRTL ks)
def toRTL : List AR.RoseNL → List (RTree Int)
  | [] => []
  | k :: ks => toRT k :: toRTL ks
end

mutual
/-- the abstract tree of a library arena as a Newick rose tree; the comments are those of the slots -/
def toRTc (a : AR.Arena) : AR.Rose → RTree Int
  | .node i n l _ ks => .node (n.map String.toList) l ((AR.nd a i).comment.map String.toList) (toRTcL a ks)
def toRTcL (a : AR.Arena) : List AR.Rose → List (RTree Int)
  | [] => []
  | k :: ks => toRTc a k :: toRTcL a ks
end

theorem map_ofList_toList (n : Option String) : (n.map String.toList).map String.ofList = n := by
  cases n <;> simp
theorem map_toList_ofList (n : Option Label) : (n.map String.ofList).map String.toList = n := by
  cases n <;> simp

mutual
theorem eraseRT_toRT : ∀ T : AR.RoseNL, eraseRT (toRT T) = T
  | .node n l ks => by rw [toRT, eraseRT, map_ofList_toList, eraseRTL_toRTL ks]
theorem eraseRTL_toRTL : ∀ Ts : List AR.RoseNL, eraseRTL (toRTL Ts) = Ts
  | [] => by rw [toRTL, eraseRTL]
  | k :: ks => by rw [toRTL, eraseRTL, eraseRT_toRT k, eraseRTL_toRTL ks]
end

mutual
/-- the Newick reading of the abstract tree carries exactly the names, lengths and shape of the abstract tree -/
theorem eraseRT_toRTc (a : AR.Arena) : ∀ t : AR.Rose, eraseRT (toRTc a t) = AR.erase t
  | .node i n l d ks => by rw [toRTc, eraseRT, AR.erase, map_ofList_toList, eraseRTL_toRTcL a ks]
theorem eraseRTL_toRTcL (a : AR.Arena) : ∀ ts : List AR.Rose, eraseRTL (toRTcL a ts) = AR.eraseL ts
  | [] => by rw [toRTcL, eraseRTL, AR.eraseL]
  | k :: ks => by rw [toRTcL, eraseRTL, AR.eraseL, eraseRT_toRTc a k, eraseRTL_toRTcL a ks]
end

end LK
