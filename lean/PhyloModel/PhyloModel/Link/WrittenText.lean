import PhyloModel.Link.Convert
import PhyloModel.Props.C01
/-! # The written text of a library arena

For a well-formed one-rooted library arena `a` with abstract tree `ta`, the parser-side abstraction of the
converted arena `toNW a` at the root slot is the converted abstract tree `toRTc a ta` (names, lengths, shape
of `ta`, comments of the slots).  Hence, by the writer refinement `C01.writer_refines`, the modelled
`Tree::to_newick` prints exactly the rose-level text of that tree: "the current Newick text" of an arena —
whatever its slot layout and however many removed slots it holds — is `NW.write showLen (toRTc a ta)`. -/
namespace LK
open NW (PNode RTree Label)

mutual
/-- what the library arena represents at slot `i` is what the writer's view of it represents there -/
theorem rep_repN (a : AR.Arena) : ∀ (t0 : AR.RTI) (i : Nat), AR.Rep a i t0 →
    NW.RepN (toNW a) i (toRTc a (AR.decorate a t0))
  | .node j ks, i, h => by
    rw [AR.Rep] at h
    obtain ⟨rfl, hl, hk⟩ := h
    have hi : i < a.size := hl.1
    rw [AR.decorate, toRTc, NW.RepN, nd_toNW_lt a i hi]
    exact ⟨by simpa using hi, rfl, rfl, rfl, repL_repNL a ks _ hk⟩
theorem repL_repNL (a : AR.Arena) : ∀ (ts : List AR.RTI) (cs : List Nat), AR.RepL a cs ts →
    NW.RepNL (toNW a) cs (toRTcL a (AR.decorateL a ts))
  | [], [], _ => by simp [AR.decorateL, toRTcL, NW.RepNL]
  | [], _ :: _, h => by rw [AR.RepL] at h; exact absurd h (by simp)
  | _ :: _, [], h => by rw [AR.RepL] at h; exact absurd h (by simp)
  | t :: ts, c :: cs, h => by
    rw [AR.RepL] at h
    rw [AR.decorateL, toRTcL, NW.RepNL]
    exact ⟨rep_repN a t c h.1, repL_repNL a ts cs h.2⟩
end

mutual
theorem ht_toRTc (a : AR.Arena) : ∀ t0 : AR.RTI, NW.ht (toRTc a (AR.decorate a t0)) = AR.height t0
  | .node j ks => by rw [AR.decorate, toRTc, NW.ht, AR.height, htL_toRTcL a ks]
theorem htL_toRTcL (a : AR.Arena) : ∀ ts : List AR.RTI, NW.htL (toRTcL a (AR.decorateL a ts)) = AR.heightL ts
  | [] => by rw [AR.decorateL, toRTcL, NW.htL, AR.heightL]
  | t :: ts => by rw [AR.decorateL, toRTcL, NW.htL, AR.heightL, ht_toRTc a t, htL_toRTcL a ts]
end

/-- **the writer's view of a good arena represents its abstract tree** (at the slot `get_root` returns), and
    the height of that tree is at most the number of slots -/
theorem written_rep {a : AR.Arena} (g : AR.Good a) (h1 : AR.AtMostOneRoot a) {ta : AR.Rose}
    (hta : AR.absRoot a = .ok ta) :
    ∃ r, AR.getRoot a = some r ∧ ta.id = r ∧ NW.RepN (toNW a) r (toRTc a ta) ∧ NW.ht (toRTc a ta) ≤ a.size := by
  obtain ⟨r, t0, c⟩ := AR.absRoot_ctx g h1 hta
  refine ⟨r, c.root_eq, ?_, ?_, ?_⟩
  · rw [c.dec, AR.decorate_id]; exact c.rep.id_eq
  · rw [c.dec]; exact rep_repN a t0 r c.rep
  · rw [c.dec, ht_toRTc]
    have := AR.szR_le_size g.1.toW t0 r c.rep
    have := AR.height_le_szR t0
    omega

/-- **the current Newick text**: on a well-formed one-rooted arena — any slot layout, any number of removed
    slots — the modelled `Tree::to_newick` (root = the slot `get_root` returns, the fuel the driver supplies, or
    any larger one) prints the rose-level text of the abstract tree -/
theorem written_text {showLen : Int → Label} {a : AR.Arena} (g : AR.Good a) (h1 : AR.AtMostOneRoot a)
    {ta : AR.Rose} (hta : AR.absRoot a = .ok ta) :
    ∃ r, AR.getRoot a = some r ∧ ta.id = r ∧ ∀ fuel, a.size ≤ fuel →
      NW.toNewickF showLen fuel .allFields (toNW a) r = some (NW.write showLen (toRTc a ta)) := by
  obtain ⟨r, hr, hid, hrep, hht⟩ := written_rep g h1 hta
  exact ⟨r, hr, hid, fun fuel hf => C01.writer_refines (toNW a) r _ hrep fuel (by omega)⟩

end LK

namespace LK
open NW (PNode RTree Label)

/-- the label domain of C01, stated on the slots of a library arena -/
def SlotLabelsOK (a : AR.Arena) : Prop :=
  ∀ i, AR.live a i → NW.nameWF ((AR.nd a i).name.map String.toList) ∧
    NW.commentWF ((AR.nd a i).comment.map String.toList)

mutual
theorem wft_toRTc (a : AR.Arena) (hlab : SlotLabelsOK a) : ∀ (t0 : AR.RTI) (i : Nat), AR.Rep a i t0 →
    NW.WFT (toRTc a (AR.decorate a t0))
  | .node j ks, i, h => by
    rw [AR.Rep] at h
    obtain ⟨rfl, hl, hk⟩ := h
    rw [AR.decorate, toRTc, NW.WFT]
    exact ⟨(hlab i hl).1, (hlab i hl).2, wfl_toRTcL a hlab ks _ hk⟩
theorem wfl_toRTcL (a : AR.Arena) (hlab : SlotLabelsOK a) : ∀ (ts : List AR.RTI) (cs : List Nat), AR.RepL a cs ts →
    NW.WFL (toRTcL a (AR.decorateL a ts))
  | [], _, _ => by simp [AR.decorateL, toRTcL, NW.WFL]
  | _ :: _, [], h => by rw [AR.RepL] at h; exact absurd h (by simp)
  | t :: ts, c :: cs, h => by
    rw [AR.RepL] at h
    rw [AR.decorateL, toRTcL, NW.WFL]
    exact ⟨wft_toRTc a hlab t c h.1, wfl_toRTcL a hlab ts cs h.2⟩
end

/-- if every live slot carries labels in C01's domain, the abstract tree is in C01's domain -/
theorem wft_of_slots {a : AR.Arena} (g : AR.Good a) (h1 : AR.AtMostOneRoot a) {ta : AR.Rose}
    (hta : AR.absRoot a = .ok ta) (hlab : SlotLabelsOK a) : NW.WFT (toRTc a ta) := by
  obtain ⟨r, t0, c⟩ := AR.absRoot_ctx g h1 hta
  rw [c.dec]
  exact wft_toRTc a hlab t0 r c.rep

end LK
