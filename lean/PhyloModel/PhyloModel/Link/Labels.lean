import PhyloModel.Arena.BlankNames
/-! # The labels of an arena after an edit history

`Pay PN PC a`: every slot of `a` carries a name satisfying `PN` and a comment satisfying `PC` (where `PN none`
and `PC none` hold, so fresh and removed slots qualify).  No operation of the model invents a label: every
operation preserves `Pay PN PC`, provided the names it is GIVEN (`add`, `add_child`, `set_name`,
`merge_children`) satisfy `PN`.  Hence the labels found in the arena after an edit history are labels of the
start arena or names supplied by the history — a syntactic condition on the history replaces the semantic
label-domain hypothesis of the linked C04 theorem.  (Same walk through the operations as
`Arena/BlankNames.lean`.) -/
namespace AR

section
variable {PN PC : Option String → Prop}

/-- every slot carries a name satisfying `PN` and a comment satisfying `PC` -/
def Pay (PN PC : Option String → Prop) (a : Arena) : Prop := ∀ i, PN (nd a i).name ∧ PC (nd a i).comment

theorem Pay.set {a : Arena} (h : Pay PN PC a) (i : Nat) (n : Node) (hn : PN n.name ∧ PC n.comment) :
    Pay PN PC (a.setIfInBounds i n) := by
  intro j
  rw [nd_set]
  split
  · exact hn
  · exact h j

theorem Pay.push {a : Arena} (h : Pay PN PC a) (n : Node) (hn : PN n.name ∧ PC n.comment) :
    Pay PN PC (a.push n) := by
  intro j
  rw [nd_push]
  split
  · exact hn
  · exact h j

@[simp] theorem setCedge_comment (n : Node) (c : Nat) (e : Option Int) : (setCedge n c e).comment = n.comment := by
  cases e <;> simp [setCedge]
@[simp] theorem removeChild_comment (n : Node) (c : Nat) : (removeChild n c).comment = n.comment := by
  simp [removeChild]

variable (hN : PN none) (hC : PC none)
include hN hC

theorem pay_empty : Pay PN PC #[] := by intro i; simp [nd_empty, dead]; exact ⟨hN, hC⟩

omit hN in
theorem add_pay {a : Arena} (n : Option String) (hn : PN n) (h : Pay PN PC a) : Pay PN PC (add a n).1 := by
  simp only [add]; exact h.push _ ⟨hn, hC⟩

omit hN hC in
theorem setName_pay {a : Arena} (i : Nat) (n : Option String) (hn : PN n) (h : Pay PN PC a) :
    Pay PN PC (setName a i n) := by
  simp only [setName]
  exact h.set _ _ ⟨hn, (h i).2⟩

theorem addChild_pay {a a' : Arena} {p id : Nat} {e : Option Int} (h : Pay PN PC a)
    (hc : addChild a p e = some (a', id)) : Pay PN PC a' := by
  unfold addChild at hc
  split at hc
  next hp =>
    simp only [Option.some.injEq, Prod.mk.injEq] at hc
    obtain ⟨rfl, rfl⟩ := hc
    apply Pay.push
    · apply h.set
      simp only [setCedge_name, setCedge_comment]
      exact h p
    · exact ⟨hN, hC⟩
  · simp at hc

theorem addChildNamed_pay {a : Arena} (p : Nat) (e : Option Int) (n : Option String) (hn : PN n)
    (h : Pay PN PC a) : Pay PN PC (addChildNamed a p e n).1 := by
  unfold addChildNamed
  split
  next a' id hc => exact setName_pay id n hn (addChild_pay hN hC h hc)
  next => exact h

theorem finish_pay {a : Arena} (x : Nat) (h : Pay PN PC a) : Pay PN PC (finish a x) := by
  unfold finish
  apply Pay.set
  · split
    · apply h.set
      simp only [removeChild_name, removeChild_comment]
      exact h _
    · exact h
  · simp only [dead]; exact ⟨hN, hC⟩

theorem pruneF_pay : ∀ (f : Nat) (a : Arena) (x : Nat) (a' : Arena), Pay PN PC a → pruneF f a x = some a' →
    Pay PN PC a'
  | 0, _, _, _, _, h => by simp [pruneF] at h
  | f + 1, a, x, a', hb, h => by
    rw [pruneF] at h
    split at h
    · split at h
      · simp at h
      next a1 h1 =>
        split at h
        · simp only [Option.some.injEq] at h
          subst h
          exact finish_pay hN hC x
            (foldlM_inv (Pay PN PC) _ (fun b c b' hb' hc => pruneF_pay f b c b' hb' hc) _ _ _ hb h1)
        · simp at h
    · simp at h

theorem prune_pay {a : Arena} (x : Nat) (h : Pay PN PC a) : Pay PN PC (prune a x).1 := by
  unfold prune
  split
  · split
    next a' hp => exact pruneF_pay hN hC _ _ _ _ h hp
    next => exact h
  · exact h

omit hN hC in
theorem resetF_pay : ∀ (f : Nat) (a : Arena) (x d : Nat) (a' : Arena), Pay PN PC a →
    resetF f a x d = some a' → Pay PN PC a'
  | 0, _, _, _, _, _, h => by simp [resetF] at h
  | f + 1, a, x, d, a', hb, h => by
    rw [resetF] at h
    split at h
    · refine foldlM_inv (Pay PN PC) _ (fun b c b' hb' hc => resetF_pay f b c (d + 1) b' hb' hc) _ _ _ ?_ h
      apply hb.set
      exact hb x
    · simp at h

theorem splice_pay {a : Arena} (v p c : Nat) (e : Option Int) (h : Pay PN PC a) :
    Pay PN PC (splice a v p c e) := by
  unfold splice
  apply Pay.set
  · apply Pay.set
    · apply h.set
      exact h c
    · simp only [removeChild_name, removeChild_comment, setCedge_name, setCedge_comment]
      rw [nd_set]
      split
      · exact h c
      · exact h p
  · simp only [dead]; exact ⟨hN, hC⟩

theorem compressNode_pay {a : Arena} (v : Nat) (h : Pay PN PC a) : Pay PN PC (compressNode a v).1 := by
  unfold compressNode
  split
  · exact h
  · split
    next p c _ _ =>
      split
      · exact h
      next e _ =>
        split
        · exact h
        · simp only
          split
          next a2 h2 => exact resetF_pay _ _ _ _ _ (splice_pay hN hC v p c e h) h2
          next => exact splice_pay hN hC v p c e h
    · exact h

theorem compressLoop_pay : ∀ (vs : List Nat) {a : Arena}, Pay PN PC a → Pay PN PC (compressLoop vs a).1
  | [], a, h => by simp [compressLoop]; exact h
  | v :: vs, a, h => by
    rw [compressLoop]
    have := compressNode_pay hN hC v h
    split
    next a' _ he => rw [he] at this; exact compressLoop_pay vs this
    next r _ => exact this

theorem compress_pay {a : Arena} (h : Pay PN PC a) : Pay PN PC (compress a).1 :=
  compressLoop_pay hN hC _ h

omit hN hC in
theorem rescale_pay {a : Arena} (k : Int) (h : Pay PN PC a) : Pay PN PC (rescale a k) := by
  intro i
  have hf : scaleNode k dead = dead := by simp [scaleNode, dead]
  rw [rescale, nd_map a _ hf]
  simp only [scaleNode]
  exact h i

theorem group_pay {a : Arena} (q c1 c2 : Nat) (pe e1 e2 : Option Int) (h : Pay PN PC a) :
    Pay PN PC (group a q c1 c2 pe e1 e2) := by
  unfold group
  have h1 : Pay PN PC (a.setIfInBounds q (qNode a q c1 c2 pe)) := by
    apply h.set
    simp only [qNode, setCedge_name, setCedge_comment, removeChild_name, removeChild_comment]
    exact h q
  have h2 : Pay PN PC ((a.setIfInBounds q (qNode a q c1 c2 pe)).setIfInBounds c1
      { nd (a.setIfInBounds q (qNode a q c1 c2 pe)) c1 with parent := some a.size, pedge := e1 }) := by
    apply h1.set
    exact h1 c1
  apply Pay.push
  · apply h2.set
    exact h2 c2
  · simp only [wNode, setCedge_name, setCedge_comment]; exact ⟨hN, hC⟩

theorem rootGroup_pay {a : Arena} (c1 c2 : Nat) (e1 e2 : Option Int) (h : Pay PN PC a) :
    Pay PN PC (rootGroup a c1 c2 e1 e2) := by
  unfold rootGroup
  have h1 : Pay PN PC (a.setIfInBounds c1 { nd a c1 with parent := some a.size, pedge := e1 }) := by
    apply h.set
    exact h c1
  apply Pay.push
  · apply h1.set
    exact h1 c2
  · simp only [setCedge_name, setCedge_comment]; exact ⟨hN, hC⟩

theorem mergeChildren_pay {a : Arena} (c1 c2 : Nat) (e1 e2 pe : Option Int) (n : Option String) (hn : PN n)
    (h : Pay PN PC a) : Pay PN PC (mergeChildren a c1 c2 e1 e2 pe n).1 := by
  unfold mergeChildren
  split
  · exact h
  · split
    · exact h
    · split
      · exact h
      · simp only
        split
        · exact h
        next a1 ha1 =>
          have hb1 : Pay PN PC a1 := by
            split at ha1
            · split at ha1
              · simp only [Option.some.injEq] at ha1; subst ha1; exact group_pay hN hC _ _ _ _ _ _ h
              · simp at ha1
            · simp only [Option.some.injEq] at ha1; subst ha1; exact rootGroup_pay hN hC _ _ _ _ h
          split
          · exact setName_pay _ _ hn hb1
          next a3 h3 =>
            have hb3 := resetF_pay _ _ _ _ _ hb1 h3
            split
            · exact setName_pay _ _ hn hb3
            next a4 h4 => exact setName_pay _ _ hn (resetF_pay _ _ _ _ _ hb3 h4)

theorem resolveRound_pay {a a' : Arena} (q x y : Nat) (h : Pay PN PC a)
    (hr : resolveRound a q x y = some a') : Pay PN PC a' := by
  unfold resolveRound at hr
  split at hr
  · simp only at hr
    split at hr
    · simp at hr
    next a2 h2 =>
      exact resetF_pay _ _ _ _ _ (resetF_pay _ _ _ _ _ (group_pay hN hC _ _ _ _ _ _ h) h2) hr
  · simp at hr

theorem resolveNode_pay : ∀ (f : Nat) {a : Arena} (q : Nat) (picks : List (Nat × Nat)) {a' : Arena}
    {rest : List (Nat × Nat)}, Pay PN PC a → resolveNode f a q picks = some (a', rest) → Pay PN PC a'
  | 0, _, _, _, _, _, _, h => by simp [resolveNode] at h
  | f + 1, a, q, picks, a', rest, hb, h => by
    unfold resolveNode at h
    split at h
    · cases h
    next x y rest' =>
      split at h
      · cases h
      next a1 h1 =>
        have hb1 := resolveRound_pay hN hC q x y hb h1
        simp only at h
        split at h
        · cases h; exact hb1
        · exact resolveNode_pay f q rest' hb1 h

theorem resolveLoop_pay : ∀ (qs : List Nat) {a : Arena} (picks : List (Nat × Nat)) {a' : Arena}
    {rest : List (Nat × Nat)}, Pay PN PC a → resolveLoop qs a picks = some (a', rest) → Pay PN PC a'
  | [], a, picks, a', rest, hb, h => by
    simp only [resolveLoop, Option.some.injEq, Prod.mk.injEq] at h
    obtain ⟨rfl, _⟩ := h
    exact hb
  | q :: qs, a, picks, a', rest, hb, h => by
    rw [resolveLoop] at h
    split at h
    · simp at h
    next a1 rest1 h1 =>
      exact resolveLoop_pay qs rest1 (resolveNode_pay hN hC _ q picks hb h1) h

theorem resolve_pay {a a' : Arena} (picks : List (Nat × Nat)) (h : Pay PN PC a)
    (hr : resolve a picks = some a') : Pay PN PC a' := by
  unfold resolve at hr
  split at hr
  next a1 h1 =>
    simp only [Option.some.injEq] at hr
    subst hr
    exact resolveLoop_pay hN hC _ picks h h1
  · simp at hr

omit hN hC in
theorem ladderStep_pay (st : Arena × Array Nat) (v : Nat) (h : Pay PN PC st.1) :
    Pay PN PC (ladderStep st v).1 := by
  simp only [ladderStep]
  apply h.set
  exact h v

omit hN hC in
theorem ladderFold_pay : ∀ (l : List Nat) (st : Arena × Array Nat), Pay PN PC st.1 →
    Pay PN PC (l.foldl ladderStep st).1
  | [], _, h => h
  | v :: l, st, h => by
    rw [List.foldl_cons]
    exact ladderFold_pay l _ (ladderStep_pay st v h)

omit hN hC in
theorem ladderize_pay {a : Arena} (h : Pay PN PC a) : Pay PN PC (ladderize a).1 := by
  unfold ladderize
  split
  · exact h
  · split
    · exact h
    · exact ladderFold_pay _ _ h

omit hN hC in
theorem resetDepths_pay {a : Arena} (h : Pay PN PC a) : Pay PN PC (resetDepths a).1 := by
  unfold resetDepths
  split
  · exact h
  · split
    next a' hr => exact resetF_pay _ _ _ _ _ h hr
    next => exact h

end

/-! ### histories -/

/-- the name an operation supplies, if any -/
def Op.givenName : Op → Option String
  | .add n => n
  | .addChild _ _ n => n
  | .setName _ n => n
  | .merge _ _ _ _ _ n => n
  | _ => none

section
variable {PN PC : Option String → Prop} (hN : PN none) (hC : PC none)
include hN hC

theorem applyOp_pay {a : Arena} (op : Op) (h : Pay PN PC a) (hn : PN op.givenName) :
    Pay PN PC (applyOp a op).1 := by
  cases op with
  | add n => exact add_pay hC n hn h
  | addChild p e n => exact addChildNamed_pay hN hC p e n hn h
  | setName i n => exact setName_pay i n hn h
  | prune x => exact prune_pay hN hC x h
  | compressNode v => exact compressNode_pay hN hC v h
  | compress => exact compress_pay hN hC h
  | rescale k => exact rescale_pay k h
  | merge c1 c2 e1 e2 pe n => exact mergeChildren_pay hN hC c1 c2 e1 e2 pe n hn h
  | resolve picks =>
    simp only [applyOp]
    split
    next a' hr => exact resolve_pay hN hC picks h hr
    next => exact h
  | ladderize => exact ladderize_pay h
  | resetDepths => exact resetDepths_pay h

/-- **no operation invents a label**: after any history whose supplied names satisfy `PN`, every slot carries a
    name satisfying `PN` and a comment satisfying `PC`, if that was so at the start -/
theorem runOps_pay : ∀ (ops : List Op) {a : Arena}, Pay PN PC a → (∀ op ∈ ops, PN op.givenName) →
    Pay PN PC (runOps a ops)
  | [], _, h, _ => h
  | op :: ops, a, h, hok => by
    simp only [runOps, List.foldl_cons]
    exact runOps_pay ops (applyOp_pay hN hC op h (hok op (by simp))) (fun o ho => hok o (by simp [ho]))

end

end AR
