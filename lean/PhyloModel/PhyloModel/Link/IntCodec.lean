import PhyloModel.Newick.RoundTrip
/-! # Branch-length codecs on `Int` satisfying the three laws of `NW.Codec`

Non-vacuity of the codec hypothesis of the linked C04 theorem (`L := Int`).
* `showD` / `parseD`: decimal digits with a leading `-` for negative values — `showD v` is the character list of
  `toString v` (`showD_eq_toString`); `parseD` accepts exactly an optional `-` followed by a non-empty run of
  decimal digits.
* `showU` / `parseU`: a sign letter followed by the magnitude in unary (the simplest injective rendering into
  plain characters). -/
namespace LK
open NW (Label)

/-! ### decimal -/

def digitsVal (l : List Char) : Nat := l.foldl (fun acc (c : Char) => acc * 10 + (c.toNat - 48)) 0

def parseNatD (l : Label) : Option Nat :=
  if l ≠ [] ∧ l.all Char.isDigit = true then some (digitsVal l) else none

def showD (v : Int) : Label :=
  if v < 0 then '-' :: Nat.toDigits 10 v.natAbs else Nat.toDigits 10 v.natAbs

def parseD (l : Label) : Option Int :=
  if l.head? = some '-' then (parseNatD l.tail).map (fun (n : Nat) => -(n : Int))
  else (parseNatD l).map (fun (n : Nat) => (n : Int))

theorem digits_value (n : Nat) : digitsVal (Nat.toDigits 10 n) = n := by
  unfold digitsVal
  induction n using Nat.strongRecOn with
  | _ n ih =>
    rw [Nat.toDigits_eq_if (by decide)]
    split
    next h => simp [Nat.toNat_digitChar_sub_48_of_lt_ten h]
    next h =>
      rw [List.foldl_append, ih (n / 10) (by omega)]
      simp only [List.foldl_cons, List.foldl_nil]
      rw [Nat.toNat_digitChar_sub_48_of_lt_ten (Nat.mod_lt _ (by decide))]
      omega

theorem digits_isDigit (n : Nat) : ∀ c ∈ Nat.toDigits 10 n, c.isDigit = true :=
  fun _ hc => Nat.isDigit_of_mem_toDigits (by decide) (by decide) hc

theorem parseNatD_digits (n : Nat) : parseNatD (Nat.toDigits 10 n) = some n := by
  unfold parseNatD
  have h1 : Nat.toDigits 10 n ≠ [] := Nat.toDigits_ne_nil
  have h2 : (Nat.toDigits 10 n).all Char.isDigit = true := by
    rw [List.all_eq_true]; exact digits_isDigit n
  rw [if_pos ⟨h1, h2⟩, digits_value]

theorem digits_head_ne_minus (n : Nat) : (Nat.toDigits 10 n).head? ≠ some '-' := by
  intro h
  have hm : '-' ∈ Nat.toDigits 10 n := List.mem_of_head? h
  have := digits_isDigit n '-' hm
  revert this; decide

theorem isDigit_plain (c : Char) (h : c.isDigit = true) : NW.plain c = true := by
  simp only [Char.isDigit, Bool.and_eq_true, decide_eq_true_eq] at h
  have h1 : 48 ≤ c.toNat := by
    have := h.1; exact UInt32.le_iff_toNat_le.mp this
  have h2 : c.toNat ≤ 57 := by
    have := h.2; exact UInt32.le_iff_toNat_le.mp this
  have hne : ∀ d : Char, (d.toNat < 48 ∨ 57 < d.toNat) → ¬ c = d := by
    intro d hd e; subst e; omega
  have hc : NW.classify c = .other := by
    unfold NW.classify
    rw [if_neg (hne _ (by decide)), if_neg (hne _ (by decide)), if_neg (hne _ (by decide)),
      if_neg (hne _ (by decide)), if_neg (hne _ (by decide)), if_neg (hne _ (by decide)),
      if_neg (hne _ (by decide)), if_neg (hne _ (by decide))]
  have hw : NW.isWs c = false := by
    simp only [NW.isWs, Bool.or_eq_false_iff, Bool.and_eq_false_iff, decide_eq_false_iff_not, beq_eq_false_iff_ne]
    omega
  simp [NW.plain, hc, hw]

/-- the decimal codec satisfies the three laws -/
theorem codecD : NW.Codec parseD showD := by
  constructor
  · intro v
    unfold showD parseD
    by_cases hv : v < 0
    · simp only [hv, ↓reduceIte, List.head?_cons, List.tail_cons, parseNatD_digits, Option.map_some]
      congr 1; omega
    · simp only [hv, ↓reduceIte, digits_head_ne_minus, parseNatD_digits, Option.map_some]
      congr 1; omega
  · intro v c hc
    unfold showD at hc
    split at hc
    · rcases List.mem_cons.mp hc with rfl | hc
      · decide
      · exact isDigit_plain c (digits_isDigit _ c hc)
    · exact isDigit_plain c (digits_isDigit _ c hc)
  · intro v
    unfold showD
    split
    · simp
    · exact Nat.toDigits_ne_nil

/-- `showD` is Lean's (and Rust's `i64`) decimal rendering -/
theorem showD_eq_toString (v : Int) : showD v = (toString v).toList := by
  unfold showD
  cases v with
  | ofNat n =>
    have : ¬ ((n : Int) < 0) := by omega
    simp [this, Int.repr, Nat.repr]
  | negSucc n =>
    have : Int.negSucc n < 0 := by omega
    simp [this, Int.natAbs, Int.repr, Nat.repr]

example : parseD "-120".toList = some (-120) ∧ parseD "7".toList = some 7 ∧ parseD "-".toList = none ∧
    parseD "1-2".toList = none ∧ parseD [] = none ∧ showD (-120) = "-120".toList := by decide

/-! ### sign letter + unary magnitude -/

def showU (v : Int) : Label := (if v < 0 then 'n' else 'p') :: List.replicate v.natAbs 'x'
def parseU : Label → Option Int
  | 'p' :: r => some (r.length : Int)
  | 'n' :: r => some (-(r.length : Int))
  | _ => none

theorem codecU : NW.Codec parseU showU := by
  constructor
  · intro v
    unfold showU
    by_cases hv : v < 0
    · simp only [hv, ↓reduceIte, parseU, List.length_replicate]; congr 1; omega
    · simp only [hv, ↓reduceIte, parseU, List.length_replicate]; congr 1; omega
  · intro v c hc
    unfold showU at hc
    rcases List.mem_cons.mp hc with rfl | hc
    · split <;> decide
    · rw [List.eq_of_mem_replicate hc]; decide
  · intro v; simp [showU]

end LK
