import PhyloModel.Link.Convert
import PhyloModel.Props.C02
import PhyloModel.Arena.QueryRefineNames
/-! # A parsed arena is a good arena

Every arena the Newick parser returns (`NW.Struct`, by `C02.parse_total_wf`) is, seen as a library arena
(`LK.toAR`: the finishing pass mirrors the branch lengths into the parents' edge maps), a well-formed arena
(`AR.Good`) without removed slots, with exactly one root (slot 0), and its abstract tree (`AR.absRoot`) is —
after forgetting ids, cached depths and comments — the rose tree the parser arena represents (`NW.RepN`,
in particular the tree `t` of `C01.roundtrip`'s `NW.Layout a 0 none t`). -/
namespace LK
open NW (PNode RTree Label)

/-- the structural invariant of the library arena holds for every parser arena: parents and child lists
    mirror each other, cached depths are levels (the parser's `add_child` sets parent depth plus one), child
    lists are duplicate-free, and the edge maps built by the finishing pass mirror the branch lengths -/
theorem toAR_inv {a : PArena} (h : NW.Struct a) : AR.Inv (toAR a) := by
  constructor
  · intro i c hl hc
    have hi : i < a.size := (live_toAR a i).1 hl
    rw [nd_toAR_lt a i hi] at hc ⊢
    simp only [toARNode] at hc ⊢
    obtain ⟨hci, hcs⟩ := NW.struct_child_gt h hi hc
    obtain ⟨p, hp, _, _, hd⟩ := h.up c (by omega) hcs
    have hpar := (h.down i c hi hc).2
    rw [hpar] at hp
    cases hp
    rw [nd_toAR_lt a c hcs]
    refine ⟨(live_toAR a c).2 hcs, hpar, hd, ?_⟩
    simp only [toARNode]
    rw [alGet_cedgesOf, if_pos hc]
  · intro i p hl hp
    have hi : i < a.size := (live_toAR a i).1 hl
    rw [nd_toAR_lt a i hi] at hp
    simp only [toARNode] at hp
    by_cases h0 : i = 0
    · subst h0
      rw [(h.root hi).1] at hp
      cases hp
    · obtain ⟨q, hq, hlt, hmem, _⟩ := h.up i (by omega) hi
      rw [hq] at hp
      cases hp
      have hps : p < a.size := by omega
      exact ⟨(live_toAR a p).2 hps, by rw [nd_toAR_lt a p hps]; exact hmem⟩
  · intro i
    rw [nd_toAR]
    split
    · exact h.nodup i
    · simp [AR.dead]
  · intro i hl hp
    have hi : i < a.size := (live_toAR a i).1 hl
    rw [nd_toAR_lt a i hi] at hp ⊢
    simp only [toARNode] at hp ⊢
    by_cases h0 : i = 0
    · subst h0; exact (h.root hi).2
    · obtain ⟨q, hq, _⟩ := h.up i (by omega) hi
      rw [hq] at hp
      cases hp
  · intro i c hs
    rw [nd_toAR] at hs ⊢
    split at hs
    next hi =>
      rw [if_pos hi]
      simp only [toARNode] at hs ⊢
      rw [alGet_cedgesOf] at hs
      split at hs
      next hm => exact hm
      next => simp at hs
    next => simp [AR.dead, AR.alGet] at hs

/-- a parser arena has no removed slot -/
theorem toAR_tomb (a : PArena) : AR.Tomb (toAR a) := by
  intro i hd
  by_cases hi : i < a.size
  · rw [nd_toAR_lt a i hi] at hd
    simp [toARNode] at hd
  · rw [nd_toAR_ge a i (by omega)]
    simp [AR.dead]

/-- a parser arena has no removed slot, so no removed slot carries a name -/
theorem toAR_blank (a : PArena) : AR.BlankNames (toAR a) := by
  intro i hd
  by_cases hi : i < a.size
  · rw [nd_toAR_lt a i hi] at hd
    simp [toARNode] at hd
  · rw [nd_toAR_ge a i (by omega)]
    simp [AR.dead]

theorem toAR_good {a : PArena} (h : NW.Struct a) : AR.Good (toAR a) := ⟨toAR_inv h, toAR_tomb a⟩

/-- slot 0 is the only root of a parser arena -/
theorem toAR_isRoot {a : PArena} (h : NW.Struct a) (i : Nat) (hr : AR.isRoot (toAR a) i) : i = 0 := by
  obtain ⟨hl, hp⟩ := hr
  have hi : i < a.size := (live_toAR a i).1 hl
  rw [nd_toAR_lt a i hi] at hp
  simp only [toARNode] at hp
  apply Classical.byContradiction
  intro h0
  obtain ⟨q, hq, _⟩ := h.up i (by omega) hi
  rw [hq] at hp
  cases hp

theorem toAR_oneRoot {a : PArena} (h : NW.Struct a) : AR.AtMostOneRoot (toAR a) := by
  intro i j hi hj
  rw [toAR_isRoot h i hi, toAR_isRoot h j hj]

theorem toAR_root_live {a : PArena} (h : NW.Struct a) (hpos : 0 < a.size) : AR.isRoot (toAR a) 0 := by
  refine ⟨(live_toAR a 0).2 hpos, ?_⟩
  rw [nd_toAR_lt a 0 hpos]
  exact (h.root hpos).1

mutual
/-- what a parser arena represents at slot `i` (through `NW.RepN`) is what the library arena represents there
    (through `AR.Rep`), up to ids, cached depths and comments -/
theorem repN_rep (a : PArena) : ∀ (t : RTree Int) (i : Nat), NW.RepN a i t →
    ∃ t0, AR.Rep (toAR a) i t0 ∧ AR.erase (AR.decorate (toAR a) t0) = eraseRT t
  | .node n l c kids, i, h => by
    rw [NW.RepN] at h
    obtain ⟨hi, hn, hl, _, hk⟩ := h
    obtain ⟨ts0, hr, he⟩ := repNL_repL a kids (NW.nd a i).children hk
    refine ⟨.node i ts0, ?_, ?_⟩
    · rw [AR.Rep]
      refine ⟨rfl, (live_toAR a i).2 hi, ?_⟩
      rw [nd_toAR_lt a i hi]
      exact hr
    · rw [AR.decorate, AR.erase, eraseRT, he, nd_toAR_lt a i hi]
      simp only [toARNode, hn, hl]
theorem repNL_repL (a : PArena) : ∀ (ks : List (RTree Int)) (cs : List Nat), NW.RepNL a cs ks →
    ∃ ts0, AR.RepL (toAR a) cs ts0 ∧ AR.eraseL (AR.decorateL (toAR a) ts0) = eraseRTL ks
  | [], [], _ => ⟨[], by simp [AR.RepL], by simp [AR.decorateL, AR.eraseL, eraseRTL]⟩
  | [], _ :: _, h => by rw [NW.RepNL] at h; exact absurd h (by simp)
  | _ :: _, [], h => by rw [NW.RepNL] at h; exact absurd h (by simp)
  | k :: ks, c :: cs, h => by
    rw [NW.RepNL] at h
    obtain ⟨t0, hr, he⟩ := repN_rep a k c h.1
    obtain ⟨ts0, hrs, hes⟩ := repNL_repL a ks cs h.2
    refine ⟨t0 :: ts0, ?_, ?_⟩
    · rw [AR.RepL]; exact ⟨hr, hrs⟩
    · rw [AR.decorateL, AR.eraseL, eraseRTL, he, hes]
end

/-- **a parsed arena is a good arena and represents the parsed tree**: for every `NW.Struct` arena (every
    arena the parser returns) that represents the rose tree `t` at slot 0, the library arena `toAR a` is well
    formed, has one root, and its abstract tree is `t` (names, branch lengths, ordered shape) -/
theorem parsed_good_represents {a : PArena} (hs : NW.Struct a) {t : RTree Int} (hrep : NW.RepN a 0 t) :
    AR.Good (toAR a) ∧ AR.AtMostOneRoot (toAR a) ∧
    ∃ tb, AR.absRoot (toAR a) = .ok tb ∧ AR.erase tb = eraseRT t := by
  have g := toAR_good hs
  have h1 := toAR_oneRoot hs
  refine ⟨g, h1, ?_⟩
  have hpos : 0 < a.size := by cases t; rw [NW.RepN] at hrep; exact hrep.1
  have hroot := toAR_root_live hs hpos
  obtain ⟨tb, htb⟩ := AR.absRoot_total g h1 0 hroot.1
  refine ⟨tb, htb, ?_⟩
  obtain ⟨r, t0, c⟩ := AR.absRoot_ctx g h1 htb
  have hr : 0 = r := c.only_root 0 hroot.1 hroot.2
  subst hr
  obtain ⟨t0', hr', he'⟩ := repN_rep a t 0 hrep
  have := AR.rep_unique _ t0 t0' 0 c.rep hr'
  subst this
  rw [c.dec, he']

/-- the same for the arena `C01.roundtrip` describes by the pre-order layout predicate -/
theorem layout_good_represents {a : PArena} (hs : NW.Struct a) {t : RTree Int} (hl : NW.Layout a 0 none t) :
    AR.Good (toAR a) ∧ AR.AtMostOneRoot (toAR a) ∧
    ∃ tb, AR.absRoot (toAR a) = .ok tb ∧ AR.erase tb = eraseRT t :=
  parsed_good_represents hs (NW.layout_rep a t 0 none hl)

/-- **every successful parse yields a good arena**: whatever the text, if the parser accepts it the returned
    arena is well formed as a library arena, has exactly one root, no removed slot, and an abstract tree -/
theorem parse_good (parseLen : Label → Option Int) (cs : List Char) (a : PArena)
    (h : NW.parse parseLen cs = .done a) :
    AR.Good (toAR a) ∧ AR.AtMostOneRoot (toAR a) ∧ AR.getRoot (toAR a) = some 0 ∧
    (∀ i, i < (toAR a).size → AR.live (toAR a) i) ∧ ∃ tb, AR.absRoot (toAR a) = .ok tb := by
  obtain ⟨hs, hpos⟩ := (C02.parse_total_wf parseLen cs).2 a h
  have g := toAR_good hs
  have h1 := toAR_oneRoot hs
  have hroot := toAR_root_live hs hpos
  obtain ⟨r, hr, hget, _, _⟩ := AR.one_tree g h1 0 hroot.1
  have : r = 0 := toAR_isRoot hs r hr
  subst this
  exact ⟨g, h1, hget, fun i hi => (live_toAR a i).2 (by simpa using hi), AR.absRoot_total g h1 0 hroot.1⟩

end LK
