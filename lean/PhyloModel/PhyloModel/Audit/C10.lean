import PhyloModel.Props.C10
#print axioms C10.abstraction_total_unique
#print axioms C10.preorder_refines
#print axioms C10.postorder_refines
#print axioms C10.levelorder_refines
#print axioms C10.listings
#print axioms C10.dead_start_rejected
#print axioms C10.inorder_refuses_polytomy
#print axioms C10.only_subtree_nodes
#print axioms C10.recursive_traversals_exact
#print axioms C10.levelorder_exact
#print axioms C10.fuel_suffices
#print axioms C10.inorder_exact
