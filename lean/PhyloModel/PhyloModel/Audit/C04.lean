import PhyloModel.Props.C04
#print axioms C04.reset_ok
#print axioms C04.query_correct
#print axioms C04.queries_stable
#print axioms C04.edit_reset_query
#print axioms C04.stale_without_reset
#print axioms C04.leaves_live
#print axioms C04.search_live
#print axioms C04.root_live
#print axioms C04.get_dead
#print axioms C04.abs_dead
#print axioms C04.C04_history_vs_fresh
#print axioms C04.get_by_name_after_history
#print axioms C04.fresh_arena_exists
