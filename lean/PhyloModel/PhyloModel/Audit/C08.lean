import PhyloModel.Props.C08
#print axioms C08.contributions_are_path_lengths
#print axioms C08.each_pair_contributes_once
#print axioms C08.dm_fast_correct_partial
#print axioms C08.cache_keys_are_the_leaves
#print axioms C08.cache_values_are_depths
#print axioms C08.path_length_needs_leaves
#print axioms C08.dm_fast_correct
#print axioms C08.dm_fast_correct_forest
#print axioms C08.dm_fast_total
#print axioms C08.dm_fast_eq_rose
