import PhyloModel.Props.C14
#print axioms C14.strict_go
#print axioms C14.strict_accepts_only_well_shaped
#print axioms C14.readRow_no_panic
#print axioms C14.trilGo_no_panic
#print axioms C14.tril_total
#print axioms C14.strictGo_no_panic
#print axioms C14.header_required
#print axioms C14.row_fields_roundtrip
#print axioms C14.tril_roundtrip
#print axioms C14.size_line_roundtrip
