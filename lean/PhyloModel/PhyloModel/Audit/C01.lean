import PhyloModel.Props.C01
#print axioms C01.roundtrip
#print axioms C01.writer_refines
#print axioms C01.roundtrip_arena
#print axioms C01.empty_name_is_absent
