import PhyloModel.Props.C19
#print axioms C19.one_segment_per_non_root_node
#print axioms C19.segments_of_children
#print axioms C19.sibling_wedges_are_consecutive
#print axioms C19.wedges_fill_parent
#print axioms C19.internal_node_leaves
#print axioms C19.branch_has_its_length
#print axioms C19.rescale_commutes
#print axioms C19.missing_length_refused
