import PhyloModel.Props.C18
#print axioms C18.collapse_node_exact
#print axioms C18.remove_is_prune_then_compress
#print axioms C18.remove_rejects_non_tips
#print axioms C18.rescale_is_library
