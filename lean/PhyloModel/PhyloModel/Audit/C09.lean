import PhyloModel.Props.C09
import PhyloModel.Props.C09Pub
#print axioms C09.root_path
#print axioms C09.foldl_none
#print axioms C09.foldl_some
#print axioms C09.optSum_spec
#print axioms C09.lca_and_distance
#print axioms C09.same_node
#print axioms C09.dead_node_rejected
#print axioms C09.symmetric
#print axioms C09.isLive_false
#print axioms C09.path_ok_or_err
#print axioms C09.commonAncestorPub_live
#print axioms C09.distancePub_live
#print axioms C09.commonAncestorPub_refuses_first
#print axioms C09.distancePub_refuses_first
#print axioms C09.commonAncestorPub_refuses_second
#print axioms C09.distancePub_refuses_second
