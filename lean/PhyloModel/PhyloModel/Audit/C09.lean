import PhyloModel.Props.C09
#print axioms C09.root_path
#print axioms C09.foldl_none
#print axioms C09.foldl_some
#print axioms C09.optSum_spec
#print axioms C09.lca_and_distance
#print axioms C09.same_node
#print axioms C09.dead_node_rejected
#print axioms C09.symmetric
