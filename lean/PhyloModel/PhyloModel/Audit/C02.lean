import PhyloModel.Props.C02
#print axioms C02.parse_total_wf
#print axioms C02.reject_unterminated
#print axioms C02.labels_ok
#print axioms C02.normal_form
#print axioms C02.reject_unbalanced
