import PhyloModel.Props.C02
#print axioms C02.parse_total_wf
#print axioms C02.reject_unterminated
#print axioms C02.labels_ok
#print axioms C02.normal_form
#print axioms C02.reject_unbalanced
#print axioms C02.labels_ok_all
#print axioms C02.normal_form_all
#print axioms C02.reject_unbalanced_all
#print axioms C02.reject_unbalanced_all'
#print axioms C02.reject_unbalanced_exact
#print axioms C02.reject_quote_in_length
#print axioms C02.reject_quote_in_length_err
#print axioms C02.reject_unbalanced_again
#print axioms C02.reject_unbalanced_float
#print axioms C02.pq_refusing
#print axioms C02.old_witnesses_rejected
#print axioms C02.hpl_needed
