import PhyloModel.Props.C12
import PhyloModel.Props.C12Norm
import PhyloModel.Props.C12Stats
#print axioms C12.tipDepthSum_eq
#print axioms C12.tipDepthSumL_eq
#print axioms C12.sackin_is_textbook
#print axioms C12.root_binarity_test
#print axioms C12.maxOf_spec
#print axioms C12.height_is_max
#print axioms C12.refused_on_unrooted
#print axioms C12.refused_on_nonbinary
#print axioms C12.absDiff_symm
#print axioms C12.harmonic_recursion
#print axioms C12.harmonic_sum_is_recursion
#print axioms C12.sackin_yule_value
#print axioms C12.pda_squares_value
#print axioms C12.normalisations_refused_iff
#print axioms C12.normalisations_divisor_nonzero
#print axioms C12.normalisations_of_tree
#print axioms C12.normalisations_depend_only_on_tree
#print axioms C12.exCat_ok
#print axioms C12.C12_statistics
#print axioms C12.C12_indices_defined
#print axioms C12.C12_indices_refused
