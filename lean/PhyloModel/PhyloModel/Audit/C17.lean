import PhyloModel.Props.C17
#print axioms C17.ete3_valid
#print axioms C17.ginv_of_perm
#print axioms C17.swapRemove_perm
#print axioms C17.perm_cons_eraseIdx
#print axioms C17.yule_step
#print axioms C17.yule_valid
#print axioms C17.leaves_after_k_steps
