import PhyloModel.Props.C11
#print axioms C11.prune_exact
#print axioms C11.merge_exact
#print axioms C11.regroup_preserves_invariant
#print axioms C11.merge_refused
#print axioms C11.compress_keeps_path_lengths
#print axioms C11.rescale_every_length
#print axioms C11.ladderize_sorts
#print axioms C11.compress_postcondition
#print axioms C11.resolve_postcondition
#print axioms C11.ladderize_only_reorders
#print axioms C11.edits_keep_invariant
