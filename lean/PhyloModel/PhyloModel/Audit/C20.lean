import PhyloModel.Props.C20
#print axioms C20.parser_never_panics
#print axioms C20.phylip_tril_never_panics
#print axioms C20.generators_never_fail
#print axioms C20.prune_terminates
#print axioms C20.reset_terminates
#print axioms C20.path_queries_never_panic
#print axioms C20.root_queries_never_panic
#print axioms C20.traversals_never_panic
#print axioms C20.phylip_strict_never_panics
#print axioms C20.distance_matrix_total
#print axioms C20.upgma_step_total
#print axioms C20.upgma_total
#print axioms C20.edits_total
#print axioms C20.cli_collapse_total
