import PhyloModel.Props.C05
import PhyloModel.Props.C05Arena
import PhyloModel.Props.C05Inv
#print axioms C05.branches_inner
#print axioms C05.branchesL_inner
#print axioms C05.partitions_exact
#print axioms C05.partitions_nodup
#print axioms C05.reported_once_either_side
#print axioms C05.trivial_symmetric
#print axioms C05.side_of_name_set
#print axioms C05.partitions_congr
#print axioms C05.spec_reorder_invariant
#print axioms C05.spec_unary_invariant
#print axioms C05.spec_root_style_invariant
#print axioms C05.ladderize_keeps_bipartitions
#print axioms C05.compress_keeps_bipartitions
#print axioms C05.rescale_scales_the_tree
#print axioms C05.reported_iff_leaf_counts
#print axioms C05.reorder_invariant
#print axioms C05.unary_invariant
#print axioms C05.unary_root_invariant
#print axioms C05.root_style_invariant
#print axioms C05.unrooted_topology_invariant
#print axioms C05.rename_leaf_index
#print axioms C05.rename_partitions
#print axioms C05.rename_reported_iff
#print axioms C05.rename_reported_names
#print axioms C05.exF_inj
#print axioms C05.ex1_names
#print axioms C05.ex1_leafIndex
#print axioms C05.ex1_partitions
#print axioms C05.ex12_reorder
#print axioms C05.ex14_unary
#print axioms C05.ex1_renamed_partitions
