import PhyloModel.Props.C05
#print axioms C05.branches_inner
#print axioms C05.branchesL_inner
#print axioms C05.partitions_exact
#print axioms C05.partitions_nodup
#print axioms C05.reported_once_either_side
#print axioms C05.trivial_symmetric
#print axioms C05.side_of_name_set
#print axioms C05.partitions_congr
#print axioms C05.spec_reorder_invariant
#print axioms C05.spec_unary_invariant
#print axioms C05.spec_root_style_invariant
