import PhyloModel.Props.C16
import PhyloModel.Props.C16Source
#print axioms C16.format_is_strip
#print axioms C16.arena_format
#print axioms C16.format_parses_to_strip
#print axioms C16.strip_wf
#print axioms C16.stripL_wf
#print axioms C16.model_table_is_source_table
#print axioms C16.source_lists_nine_formats
