import PhyloModel.Props.C13
#print axioms C13.pair_to_cell
#print axioms C13.cell_injective
#print axioms C13.cell_to_pair
#print axioms C13.get_set_index
#print axioms C13.diagonal
#print axioms C13.get_set_by_name
#print axioms C13.indexed_iter_spec
#print axioms C13.to_map_spec
#print axioms C13.to_map_functional
#print axioms C13.extremum_spec
#print axioms C13.label_position
#print axioms C13.relabel
#print axioms C13.relabel_refused
#print axioms C13.row_unique
#print axioms C13.float_inverse_correct
