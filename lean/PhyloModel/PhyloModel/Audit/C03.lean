import PhyloModel.Props.C03
#print axioms C03.add_child_preserves
#print axioms C03.prune_preserves
#print axioms C03.compress_node_preserves
#print axioms C03.group_preserves
#print axioms C03.reset_depths_spec
#print axioms C03.fuel_irrelevant
