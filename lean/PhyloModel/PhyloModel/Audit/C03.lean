import PhyloModel.Props.C03
import PhyloModel.Props.C03Observers
import PhyloModel.Props.C03Protocol
#print axioms C03.add_child_preserves
#print axioms C03.prune_preserves
#print axioms C03.compress_node_preserves
#print axioms C03.group_preserves
#print axioms C03.reset_depths_spec
#print axioms C03.fuel_irrelevant
#print axioms C03.every_operation_preserves
#print axioms C03.every_history
#print axioms C03.depth_counts_edges
#print axioms C03.one_rooted_tree
#print axioms C03.no_new_root
#print axioms C03.child_edge_agrees_with_parent_edge
#print axioms C03.child_edge_seen_from_child
#print axioms C03.child_edge_only_for_children
#print axioms C03.is_root_iff_get_root
#print axioms C03.is_tip_iff_listed_leaf
#print axioms C03.get_depth_counts_edges
#print axioms C03.get_depth_levels_below_root
#print axioms C03.observers_need_a_live_node
#print axioms C03.observers_after_every_history
#print axioms C03.add_child_of_a_copy_preserves
#print axioms C03.length_overwrite_preserves
#print axioms C03.every_extended_history
