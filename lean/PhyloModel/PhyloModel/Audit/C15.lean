import PhyloModel.Props.C15
import PhyloModel.Props.C15Arena
import PhyloModel.Props.C15Clamp
import PhyloModel.Props.C15Det
#print axioms C15.update_is_average_linkage
#print axioms C15.step_keeps_linkage
#print axioms C15.step_monotone_nonnegative
#print axioms C15.weighted_mean_ge
#print axioms C15.min_search_order
#print axioms C15.step_refines
#print axioms C15.step_total
#print axioms C15.upgma_tree
#print axioms C15.upgma_recovers_ultrametric
#print axioms C15.upgmaShape_same_outcome
#print axioms C15.upgmaShape_ok_iff
#print axioms C15.upgmaShape_succeeds
#print axioms C15.merge_never_refuses
#print axioms C15.invariant_initially
#print axioms C15.merge_children_order
#print axioms C15.upgmaShape_good
#print axioms C15.upgmaShape_represents
#print axioms C15.upgmaShape_slots
#print axioms C15.upgmaShape_leaves
#print axioms C15.upgmaC_eq_upgma
#print axioms C15.stepC_eq_step
#print axioms C15.upgmaC_tree
#print axioms C15.upgmaC_ok_nonneg
#print axioms C15.upgmaC_recovers_ultrametric
#print axioms C15.upgmaC_taxon_order
#print axioms C15.upgmaC_taxon_order_input
#print axioms C15.tie_flagC_certifies_unambiguous
#print axioms C15.upgmaC_taxon_order_tie_free
#print axioms C15.upgmaC_lengths_nonneg_always
#print axioms C15.clamp_changes_negative_input
#print axioms C15.avglink_perm_invariant
#print axioms C15.state_abstraction
#print axioms C15.average_linkage_deterministic
#print axioms C15.average_linkage_deterministic_keys
#print axioms C15.average_linkage_deterministic_complete
#print axioms C15.unambiguity_is_of_the_input
#print axioms C15.taxon_order_invariant
#print axioms C15.taxon_order_invariant_index_lists
#print axioms C15.upgma_taxon_order
#print axioms C15.upgma_taxon_order_input
#print axioms C15.tie_flag_certifies_unambiguous
#print axioms C15.upgma_taxon_order_tie_free
