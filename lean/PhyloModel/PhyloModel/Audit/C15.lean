import PhyloModel.Props.C15
#print axioms C15.update_is_average_linkage
#print axioms C15.step_keeps_linkage
#print axioms C15.step_monotone_nonnegative
#print axioms C15.weighted_mean_ge
#print axioms C15.min_search_order
#print axioms C15.step_refines
#print axioms C15.step_total
#print axioms C15.upgma_tree
#print axioms C15.upgma_recovers_ultrametric
