import PhyloModel.Props.C06
import PhyloModel.Props.C06Inv
#print axioms C06.rf_eq
#print axioms C06.delta_is_symmetric_difference
#print axioms C06.rf_shape
#print axioms C06.rf_unrooted
#print axioms C06.sameSet_symm
#print axioms C06.rf_symmetric
#print axioms C06.rf_rejects_different_leaf_sets
#print axioms C06.rf_norm_is_quotient
#print axioms C06.rf_zero_of_same_splits
#print axioms C06.rf_equals_report
#print axioms C06.withLengths_sides
#print axioms C06.rf_reorder_self
#print axioms C06.rf_reorder_invariant
#print axioms C06.rf_unary_invariant
#print axioms C06.rf_root_style
#print axioms C06.rf_rename_invariant
