import PhyloModel.Props.C07
import PhyloModel.Props.C07Inv
#print axioms C07.wrf_kf2_definition
#print axioms C07.split_len_accumulates
#print axioms C07.missing_length_rejected
#print axioms C07.report_agrees
#print axioms C07.lookup_scale
#print axioms C07.sum_map_mul
#print axioms C07.sumOver_scale
#print axioms C07.iabs_mul
#print axioms C07.rescaling
#print axioms C07.branch_listing
#print axioms C07.symmetric
#print axioms C07.weighted_reorder_self
#print axioms C07.accumulated_length_order_free
#print axioms C07.weighted_reorder_invariant
#print axioms C07.weighted_rename_invariant
#print axioms C07.rescaling_executable
#print axioms C07.cs_idx
#print axioms C07.co_idx
#print axioms C07.cs_idx'
#print axioms C07.co_idx'
#print axioms C07.wrf_cs_co
#print axioms C07.wrf_cs_co_renamed
#print axioms C07.weighted_rename_needs_same_leaf_set
