import PhyloModel.Props.C07
#print axioms C07.wrf_kf2_definition
#print axioms C07.split_len_accumulates
#print axioms C07.missing_length_rejected
#print axioms C07.report_agrees
#print axioms C07.lookup_scale
#print axioms C07.sum_map_mul
#print axioms C07.sumOver_scale
#print axioms C07.iabs_mul
#print axioms C07.rescaling
#print axioms C07.branch_listing
#print axioms C07.symmetric
