import PhyloModel.Arena.DistBase
import PhyloModel.Arena.ResolvePost
/-! C11, `resolve`: one round moves two children `x1`, `x2` of `q` under a fresh node `w` hanging from `q`
    by a zero-length branch.  Root paths of old nodes get `w` inserted in front of `x1` / `x2`; the length of
    the connecting path between any two old live nodes is unchanged (a zero is added, or nothing when `w`
    becomes their common ancestor); the edge count can only grow.  Lifted to `resolve picks` for every
    oracle `picks`. -/
namespace AR

/-- insert `w` in front of every occurrence of `x1` or `x2` -/
def insW (w x1 x2 : Nat) (l : List Nat) : List Nat :=
  l.flatMap (fun u => if u = x1 ∨ u = x2 then [w, u] else [u])

theorem insW_nil (w x1 x2 : Nat) : insW w x1 x2 [] = [] := rfl

theorem insW_cons (w x1 x2 u : Nat) (l : List Nat) :
    insW w x1 x2 (u :: l) = (if u = x1 ∨ u = x2 then [w, u] else [u]) ++ insW w x1 x2 l := by
  simp [insW]

theorem insW_append (w x1 x2 : Nat) (l1 l2 : List Nat) :
    insW w x1 x2 (l1 ++ l2) = insW w x1 x2 l1 ++ insW w x1 x2 l2 := by
  simp [insW]

theorem insW_length (w x1 x2 : Nat) (l : List Nat) : l.length ≤ (insW w x1 x2 l).length := by
  induction l with
  | nil => simp [insW_nil]
  | cons u l ih =>
    rw [insW_cons]
    split <;> simp <;> omega

/-- the inserted node carries length zero, every other node keeps its length: sums are unchanged -/
theorem insW_sum {w x1 x2 : Nat} {pe pe' : Nat → Option Int} (hw : pe' w = some 0)
    (ho : ∀ z, z ≠ w → pe' z = pe z) :
    ∀ (L : List Nat), (∀ u ∈ L, u ≠ w) → optSum ((insW w x1 x2 L).map pe') = optSum (L.map pe)
  | [], _ => rfl
  | u :: L, h => by
    have hu : u ≠ w := h u (by simp)
    have ih := insW_sum (x1 := x1) (x2 := x2) hw ho L (fun z hz => h z (by simp [hz]))
    rw [insW_cons]
    split
    · simp only [List.cons_append, List.nil_append, List.map_cons, optSum_cons, ih, hw, ho u hu,
        optAdd_zero_left]
    · simp only [List.cons_append, List.nil_append, List.map_cons, optSum_cons, ih, ho u hu]

theorem drop_prefix (c l : List Nat) (k : Nat) : (c ++ l).drop (c.length + k) = l.drop k := by
  induction c with
  | nil => simp
  | cons x c ih =>
    have : (x :: c).length + k = (c.length + k) + 1 := by simp only [List.length_cons]; omega
    rw [this, List.cons_append, List.drop_succ_cons, ih]

theorem distOf_prefix (a : Arena) (c p q : List Nat) : distOf a (c ++ p) (c ++ q) = distOf a p q := by
  simp only [distOf, cursor_append, drop_prefix]

theorem distOf_heads (a : Arena) {p q : List Nat} (hd : ∀ x y, p.head? = some x → q.head? = some y → x ≠ y) :
    distOf a p q = (optSum ((p ++ q).map (fun i => (nd a i).pedge)), (p ++ q).length) := by
  simp only [distOf, cursor_heads hd, List.drop_zero]

/-- the two tails after the common prefix, once `w` is inserted -/
theorem insW_tails (a' : Arena) {w x1 x2 : Nat} {pe : Nat → Option Int}
    (hw : (nd a' w).pedge = some 0) (ho : ∀ z, z ≠ w → (nd a' z).pedge = pe z) (X Y : List Nat)
    (hd : ∀ x y, X.head? = some x → Y.head? = some y → x ≠ y) (hX : ∀ u ∈ X, u ≠ w) (hY : ∀ u ∈ Y, u ≠ w) :
    ∃ n', distOf a' (insW w x1 x2 X) (insW w x1 x2 Y) = (optSum ((X ++ Y).map pe), n') ∧
      (X ++ Y).length ≤ n' := by
  have hXY : ∀ u ∈ X ++ Y, u ≠ w := by
    intro u hu; rcases List.mem_append.1 hu with h | h
    · exact hX u h
    · exact hY u h
  have hsum := insW_sum (x1 := x1) (x2 := x2) (pe := pe) (pe' := fun i => (nd a' i).pedge) hw ho
  -- generic case: the heads still differ
  have generic : (∀ x y, (insW w x1 x2 X).head? = some x → (insW w x1 x2 Y).head? = some y → x ≠ y) →
      ∃ n', distOf a' (insW w x1 x2 X) (insW w x1 x2 Y) = (optSum ((X ++ Y).map pe), n') ∧
        (X ++ Y).length ≤ n' := by
    intro hd'
    refine ⟨(insW w x1 x2 X ++ insW w x1 x2 Y).length, ?_, ?_⟩
    · rw [distOf_heads a' hd', ← insW_append, hsum _ hXY]
    · rw [← insW_append]; exact insW_length _ _ _ _
  cases X with
  | nil => exact generic (by intro x y h; simp [insW_nil] at h)
  | cons x0 X1 =>
    cases Y with
    | nil => exact generic (by intro x y _ h; simp [insW_nil] at h)
    | cons y0 Y1 =>
      have hxy : x0 ≠ y0 := hd x0 y0 rfl rfl
      have hx0 : x0 ≠ w := hX x0 (by simp)
      have hy0 : y0 ≠ w := hY y0 (by simp)
      by_cases sx : x0 = x1 ∨ x0 = x2
      · by_cases sy : y0 = x1 ∨ y0 = x2
        · -- both tails start with a moved child: `w` joins the common prefix
          have e1 : insW w x1 x2 (x0 :: X1) = [w] ++ (x0 :: insW w x1 x2 X1) := by
            rw [insW_cons]; simp [sx]
          have e2 : insW w x1 x2 (y0 :: Y1) = [w] ++ (y0 :: insW w x1 x2 Y1) := by
            rw [insW_cons]; simp [sy]
          rw [e1, e2, distOf_prefix]
          have hd2 : ∀ x y, (x0 :: insW w x1 x2 X1).head? = some x → (y0 :: insW w x1 x2 Y1).head? = some y →
              x ≠ y := by
            intro x y h1 h2; simp at h1 h2; subst h1 h2; exact hxy
          rw [distOf_heads a' hd2]
          refine ⟨((x0 :: insW w x1 x2 X1) ++ (y0 :: insW w x1 x2 Y1)).length, ?_, ?_⟩
          · congr 1
            have s1 := hsum X1 (fun u hu => hX u (by simp [hu]))
            have s2 := hsum Y1 (fun u hu => hY u (by simp [hu]))
            simp only [List.map_append, List.map_cons, optSum_append, optSum_cons, s1, s2, ho x0 hx0, ho y0 hy0]
          · have := insW_length w x1 x2 X1
            have := insW_length w x1 x2 Y1
            simp only [List.length_append, List.length_cons]; omega
        · apply generic
          intro x y h1 h2
          rw [insW_cons] at h1 h2
          simp [sx, sy] at h1 h2
          subst h1 h2; exact Ne.symm hy0
      · apply generic
        intro x y h1 h2
        rw [insW_cons] at h1 h2
        simp only [sx, ↓reduceIte, List.cons_append, List.nil_append, List.head?_cons, Option.some.injEq] at h1
        subst h1
        by_cases sy : y0 = x1 ∨ y0 = x2
        · simp [sy] at h2; subst h2; exact hx0
        · simp [sy] at h2; subst h2; exact hxy

/-! ### what one round does to the fields `get_distance` reads -/

structure Grouped (a a' : Arena) (q x1 x2 : Nat) : Prop where
  lq : live a q
  m1 : x1 ∈ (nd a q).children
  m2 : x2 ∈ (nd a q).children
  livew : live a' a.size
  liveo : ∀ i, i < a.size → (live a' i ↔ live a i)
  parw : (nd a' a.size).parent = some q
  par1 : (nd a' x1).parent = some a.size
  par2 : (nd a' x2).parent = some a.size
  paro : ∀ i, i ≠ a.size → i ≠ x1 → i ≠ x2 → (nd a' i).parent = (nd a i).parent
  pew : (nd a' a.size).pedge = some 0
  peo : ∀ i, i ≠ a.size → (nd a' i).pedge = (nd a i).pedge

theorem resolveRound_grouped {a a' : Arena} {q x y : Nat} (g : Good a) (h : resolveRound a q x y = some a') :
    Grouped a a' q x y := by
  unfold resolveRound at h
  split at h
  next hc =>
    simp only [Bool.and_eq_true, decide_eq_true_eq, List.contains_iff_mem] at hc
    obtain ⟨⟨⟨⟨⟨hq, hxy⟩, hmx⟩, hmy⟩, _⟩, _⟩ := hc
    have hlq := (isLive_iff a q).1 hq
    obtain ⟨b1, b2, r1, r2, _⟩ := group_core q x y (some 0) (nd a x).pedge (nd a y).pedge g hlq hmx hmy hxy
    simp only [r1] at h
    rw [r2] at h
    cases h
    have hsame := (resetF_same _ _ _ _ _ r1).trans (resetF_same _ _ _ _ _ r2)
    have hch := g.1.child_ok
    obtain ⟨hl1, _, hd1, _⟩ := hch q x hlq hmx
    obtain ⟨hl2, _, hd2, _⟩ := hch q y hlq hmy
    have hq1 : q ≠ x := by intro h; subst h; omega
    have hq2 : q ≠ y := by intro h; subst h; omega
    have hqw : q ≠ a.size := Nat.ne_of_lt hlq.1
    have h1w : x ≠ a.size := Nat.ne_of_lt hl1.1
    have h2w : y ≠ a.size := Nat.ne_of_lt hl2.1
    have hns := nd_group a q x y (some 0) (nd a x).pedge (nd a y).pedge hlq.1 hl1.1 hl2.1 hq1 hq2 hxy
    have hsz : (group a q x y (some 0) (nd a x).pedge (nd a y).pedge).size = a.size + 1 := by simp [group]
    refine ⟨hlq, hmx, hmy, ?_, ?_, ?_, ?_, ?_, ?_, ?_, ?_⟩
    · simp only [live, hsame.1, hsz, (hsame.2 _).2.2.2.2, hns]
      simp [wNode]
    · intro i hi
      have hiw : i ≠ a.size := Nat.ne_of_lt hi
      simp only [live, hsame.1, hsz, (hsame.2 _).2.2.2.2, hns, hiw, ↓reduceIte]
      have hlt : i < a.size + 1 ↔ i < a.size := by omega
      by_cases g1 : i = q
      · subst g1; simp [qNode, removeChild, hlt]
      · by_cases g2 : i = x
        · subst g2; simp [g1, hlt]
        · by_cases g3 : i = y
          · subst g3; simp [g1, g2, hlt]
          · simp [g1, g2, g3, hlt]
    · rw [(hsame.2 _).1, hns]; simp [wNode]
    · rw [(hsame.2 _).1, hns]; simp [h1w, Ne.symm hq1]
    · rw [(hsame.2 _).1, hns]; simp [h2w, Ne.symm hq2, Ne.symm hxy]
    · intro i g0 g2 g3
      rw [(hsame.2 _).1, hns]
      by_cases g1 : i = q
      · subst g1; simp [g0, qNode, removeChild]
      · simp [g0, g1, g2, g3]
    · rw [(hsame.2 _).2.2.1, hns]; simp [wNode]
    · intro i g0
      rw [(hsame.2 _).2.2.1, hns]
      by_cases g1 : i = q
      · subst g1; simp [g0, qNode, removeChild]
      · by_cases g2 : i = x
        · subst g2; simp [g0, g1]
        · by_cases g3 : i = y
          · subst g3; simp [g0, g1, g2]
          · simp [g0, g1, g2, g3]
  · cases h

section
variable {a a' : Arena} {q x1 x2 : Nat}

/-- the root path of an old node in the new arena is its old root path with `w` inserted -/
theorem Grouped.path (s : Grouped a a' q x1 x2) (hinv : Inv a) {l : List Nat} {z : Nat} (h : Path a l z) :
    Path a' (insW a.size x1 x2 l) z := by
  have hp1 := (hinv.child_ok q x1 s.lq s.m1).2.1
  have hp2 := (hinv.child_ok q x2 s.lq s.m2).2.1
  induction h with
  | @root z hl hp =>
    have hz1 : z ≠ x1 := by intro h; subst h; rw [hp1] at hp; cases hp
    have hz2 : z ≠ x2 := by intro h; subst h; rw [hp2] at hp; cases hp
    have : insW a.size x1 x2 [z] = [z] := by rw [insW_cons]; simp [hz1, hz2, insW_nil]
    rw [this]
    exact Path.root ((s.liveo z hl.1).2 hl) (by rw [s.paro z (Nat.ne_of_lt hl.1) hz1 hz2]; exact hp)
  | @step l p0 c0 hpath hl hp ih =>
    rw [insW_append]
    have hl' : live a' c0 := (s.liveo c0 hl.1).2 hl
    by_cases sx : c0 = x1 ∨ c0 = x2
    · have e : insW a.size x1 x2 [c0] = [a.size] ++ [c0] := by rw [insW_cons]; simp [sx, insW_nil]
      have hq : p0 = q := by
        rcases sx with h | h
        · subst h; rw [hp1] at hp; exact (Option.some.inj hp).symm
        · subst h; rw [hp2] at hp; exact (Option.some.inj hp).symm
      subst hq
      rw [e, ← List.append_assoc]
      refine Path.step (Path.step ih s.livew s.parw) hl' ?_
      rcases sx with h | h
      · subst h; exact s.par1
      · subst h; exact s.par2
    · have e : insW a.size x1 x2 [c0] = [c0] := by rw [insW_cons]; simp [sx, insW_nil]
      rw [e]
      have : c0 ≠ x1 ∧ c0 ≠ x2 := by
        constructor
        · intro h; exact sx (Or.inl h)
        · intro h; exact sx (Or.inr h)
      exact Path.step ih hl' (by rw [s.paro c0 (Nat.ne_of_lt hl.1) this.1 this.2]; exact hp)

/-- **one round of `resolve` keeps path lengths** between all old live nodes; the edge count does not drop -/
theorem Grouped.sameLen (s : Grouped a a' q x1 x2) (g : Good a) (g' : Good a') {x y : Nat}
    (hlx : live a x) (hly : live a y) (hxy : x ≠ y) : ∃ n n', SameLen a a' x y n n' ∧ n ≤ n' := by
  have hinv := g.1
  obtain ⟨P, hP⟩ := path_total g x hlx
  obtain ⟨Q, hQ⟩ := path_total g y hly
  have hPold := (hP.ranks hinv.toW).2
  have hQold := (hQ.ranks hinv.toW).2
  obtain ⟨C, X, Y, e1, e2, _, hd⟩ := cursor_spec P Q
  subst e1 e2
  have hP' := s.path hinv hP
  have hQ' := s.path hinv hQ
  rw [insW_append] at hP' hQ'
  have d1 := distance_of_paths hinv.toW hP hQ hxy
  have d2 := distance_of_paths g'.1.toW hP' hQ' hxy
  rw [distOf_split a C X Y hd] at d1
  rw [distOf_prefix] at d2
  obtain ⟨n', e, hle⟩ := insW_tails a' (x1 := x1) (x2 := x2) s.pew s.peo X Y hd
    (fun u hu => Nat.ne_of_lt (hPold u (by simp [hu])).1.1)
    (fun u hu => Nat.ne_of_lt (hQold u (by simp [hu])).1.1)
  rw [e] at d2
  exact ⟨_, n', ⟨_, d1, d2⟩, hle⟩

end

theorem resolveRound_sameLen {a a' : Arena} {q x1 x2 : Nat} (g : Good a) (h : resolveRound a q x1 x2 = some a')
    {x y : Nat} (hlx : live a x) (hly : live a y) (hxy : x ≠ y) : ∃ n n', SameLen a a' x y n n' ∧ n ≤ n' :=
  (resolveRound_grouped g h).sameLen g (resolveRound_good q x1 x2 g h) hlx hly hxy

theorem sameLen_refl {a : Arena} (g : Good a) {x y : Nat} (hlx : live a x) (hly : live a y) (hxy : x ≠ y) :
    ∃ n n', SameLen a a x y n n' ∧ n ≤ n' := by
  obtain ⟨P, hP⟩ := path_total g x hlx
  obtain ⟨Q, hQ⟩ := path_total g y hly
  have d := distance_of_paths g.1.toW hP hQ hxy
  exact ⟨_, _, ⟨_, d, d⟩, Nat.le_refl _⟩

theorem sameLen_step {a b c : Arena} {x y : Nat} (hxy : x ≠ y)
    (h1 : ∃ n n', SameLen a b x y n n' ∧ n ≤ n')
    (h2 : live b x → live b y → ∃ n n', SameLen b c x y n n' ∧ n ≤ n') :
    ∃ n n', SameLen a c x y n n' ∧ n ≤ n' := by
  obtain ⟨n, n1, ⟨d, e1, e2⟩, le1⟩ := h1
  obtain ⟨hlx1, hly1⟩ := distance_ok_live hxy e2
  obtain ⟨n1', n2, s2, le2⟩ := h2 hlx1 hly1
  obtain ⟨s3, e⟩ := SameLen.trans ⟨d, e1, e2⟩ s2
  subst e
  exact ⟨n, n2, s3, by omega⟩

theorem resolveNode_sameLen : ∀ (f : Nat) {a : Arena} (q : Nat) (picks : List (Nat × Nat)) {a' : Arena}
    {rest : List (Nat × Nat)}, Good a → resolveNode f a q picks = some (a', rest) →
    ∀ (x y : Nat), live a x → live a y → x ≠ y → ∃ n n', SameLen a a' x y n n' ∧ n ≤ n'
  | 0, _, _, _, _, _, _, h => by simp [resolveNode] at h
  | f + 1, a, q, picks, a', rest, g, h => by
    intro x y hlx hly hxy
    unfold resolveNode at h
    split at h
    · cases h
    next x' y' rest' =>
      split at h
      · cases h
      next a1 hr =>
        have g1 := resolveRound_good q x' y' g hr
        have s1 := resolveRound_sameLen g hr hlx hly hxy
        simp only at h
        split at h
        · cases h; exact s1
        · exact sameLen_step hxy s1 (fun l1 l2 => resolveNode_sameLen f q rest' g1 h x y l1 l2 hxy)

theorem resolveLoop_sameLen : ∀ (qs : List Nat) {a : Arena} (picks : List (Nat × Nat)) {a' : Arena}
    {rest : List (Nat × Nat)}, Good a → resolveLoop qs a picks = some (a', rest) →
    ∀ (x y : Nat), live a x → live a y → x ≠ y → ∃ n n', SameLen a a' x y n n' ∧ n ≤ n'
  | [], a, picks, a', rest, g, h => by
    intro x y hlx hly hxy
    simp [resolveLoop] at h; obtain ⟨rfl, _⟩ := h
    exact sameLen_refl g hlx hly hxy
  | q :: qs, a, picks, a', rest, g, h => by
    intro x y hlx hly hxy
    unfold resolveLoop at h
    split at h
    · cases h
    next a1 rest1 hn =>
      have g1 := resolveNode_good _ q picks g hn
      have s1 := resolveNode_sameLen _ q picks g hn x y hlx hly hxy
      exact sameLen_step hxy s1 (fun l1 l2 => resolveLoop_sameLen qs rest1 g1 h x y l1 l2 hxy)

/-- **`resolve` keeps every path length, for every outcome of its random choices**: any two distinct
    live nodes of the old arena are answered by `get_distance` before and after with the same length (sum of
    branch lengths, or "a length is missing"); the edge count does not drop -/
theorem resolve_sameLen {a a' : Arena} (picks : List (Nat × Nat)) (g : Good a) (h : resolve a picks = some a')
    {x y : Nat} (hlx : live a x) (hly : live a y) (hxy : x ≠ y) : ∃ n n', SameLen a a' x y n n' ∧ n ≤ n' := by
  unfold resolve at h
  split at h
  next a1 hl => cases h; exact resolveLoop_sameLen _ picks g hl x y hlx hly hxy
  · cases h

/-- **leaf-to-leaf path lengths are unchanged by `resolve`**: the tips after are the tips before, and for
    any two distinct tips `get_distance` answers before and after with the same length -/
theorem resolve_tip_distances {a a' : Arena} (picks : List (Nat × Nat)) (g : Good a)
    (h : resolve a picks = some a') :
    (∀ i, IsTip a' i ↔ IsTip a i) ∧
    ∀ x y, IsTip a x → IsTip a y → x ≠ y →
      ∃ d n n', distance a x y = .ok (d, n) ∧ distance a' x y = .ok (d, n') ∧ n ≤ n' := by
  refine ⟨(resolve_post picks g h).2, ?_⟩
  intro x y hx hy hxy
  obtain ⟨n, n', ⟨d, e1, e2⟩, hle⟩ := resolve_sameLen picks g h hx.1 hy.1 hxy
  exact ⟨d, n, n', e1, e2, hle⟩

/-! ### non-vacuity: root 0 with four tips 1..4 (lengths 1, 2, 3, none-free), resolved by the picks (1,2), (3,5) -/

def exR : Arena := runOps #[] [.add none, .addChild 0 (some 1) none, .addChild 0 (some 2) none,
  .addChild 0 (some 3) none, .addChild 0 (some 4) none]

theorem exR_good : Good exR := runOps_good _ empty_good

theorem exR_resolve : resolve exR [(1, 2), (3, 5)] = some ((resolve exR [(1, 2), (3, 5)]).getD #[]) := by
  have : (resolve exR [(1, 2), (3, 5)]).isSome = true := by decide
  cases h : resolve exR [(1, 2), (3, 5)] with
  | none => rw [h] at this; cases this
  | some v => rfl

theorem exR_tips : IsTip exR 1 ∧ IsTip exR 3 := by
  unfold IsTip live; decide

example : distance exR 1 3 = .ok (some 4, 2) ∧
    distance ((resolve exR [(1, 2), (3, 5)]).getD #[]) 1 3 = .ok (some 4, 3) :=
  ⟨distIs_eq (by decide), distIs_eq (by decide)⟩

example : ∃ d n n', distance exR 1 3 = .ok (d, n) ∧
    distance ((resolve exR [(1, 2), (3, 5)]).getD #[]) 1 3 = .ok (d, n') ∧ n ≤ n' :=
  (resolve_tip_distances _ exR_good exR_resolve).2 1 3 exR_tips.1 exR_tips.2 (by decide)

end AR
