import PhyloModel.Arena.Cli
import PhyloModel.Arena.OpsInv
import PhyloModel.Arena.OneRoot
import PhyloModel.Arena.DistPrune
import PhyloModel.Arena.DistCompress
import PhyloModel.Arena.QRLemmas
import PhyloModel.Arena.CliBase
/-! C18, `phylotree remove`: the whole loop.  Every named tip is pruned together with the ancestors that lose
    all their children (so that no new tip appears), every prune keeps the distances between the survivors,
    the final `compress` keeps the tips and the lengths between them and leaves no one-child non-root node. -/
namespace AR

/-! ### the loop of `cliRemove`, named piece by piece -/

/-- the body of the loop once the name is resolved to the slot `x` -/
def removeNode (a : Arena) (x : Nat) : QR Arena :=
  if !(nd a x).children.isEmpty then .err "NotATip" else
  match prune a x with
  | (a', .ok _) => .ok (pruneEmptied (fuelOf a) a' (nd a x).parent)
  | _ => .err "PruneFailed"

/-- one round of the loop -/
def removeStep (a : Arena) (name : String) : QR Arena :=
  QR.ofOpt (getByName a name) "NoSuchName" >>= removeNode a

/-- the final `tree.compress().unwrap()` -/
def compressQ (a1 : Arena) : QR Arena :=
  match compress a1 with
  | (a2, .ok _) => .ok a2
  | (_, .err k) => .err k
  | _ => .err "CompressFailed"

theorem cliRemove_eq (a : Arena) (tips : List String) :
    cliRemove a tips = (tips.foldlM removeStep a >>= compressQ) := by
  unfold cliRemove
  have e : ∀ (f : Arena → String → QR Arena) (g : Arena → QR Arena), (∀ a n, f a n = removeStep a n) →
      (∀ a, g a = compressQ a) → (tips.foldlM f a >>= g) = (tips.foldlM removeStep a >>= compressQ) := by
    intro f g hf hg
    have h1 : f = removeStep := funext fun a => funext fun n => hf a n
    have h2 : g = compressQ := funext hg
    rw [h1, h2]
  apply e
  · intro a name
    unfold removeStep
    cases getByName a name with
    | none => rfl
    | some x =>
      simp only [QR.ofOpt, QR.bind_ok, removeNode]
      split
      · rfl
      · rcases prune a x with ⟨a', o⟩
        cases o <;> rfl
  · intro a1
    simp only [compressQ]
    rcases compress a1 with ⟨a2, o⟩
    cases o <;> rfl

/-! ### the instrumented loop: also returns the slots that the names resolved to, in order -/

def removeLoopT : Arena → List String → QR (Arena × List Nat)
  | a, [] => .ok (a, [])
  | a, name :: rest =>
    match getByName a name with
    | none => .err "NoSuchName"
    | some x =>
      match removeNode a x with
      | .ok a1 =>
        match removeLoopT a1 rest with
        | .ok (a2, xs) => .ok (a2, x :: xs)
        | .err k => .err k
        | .panic => .panic
      | .err k => .err k
      | .panic => .panic

/-- `cliRemove` together with the list of pruned tips (the slots the names resolved to, in order) -/
def cliRemoveTrace (a : Arena) (tips : List String) : QR (Arena × List Nat) :=
  match removeLoopT a tips with
  | .ok (a1, xs) =>
    match compressQ a1 with
    | .ok a2 => .ok (a2, xs)
    | .err k => .err k
    | .panic => .panic
  | .err k => .err k
  | .panic => .panic

theorem removeLoopT_fst : ∀ (tips : List String) (a : Arena),
    tips.foldlM removeStep a = (removeLoopT a tips).fst
  | [], a => rfl
  | name :: rest, a => by
    rw [List.foldlM_cons, removeLoopT, removeStep]
    cases getByName a name with
    | none => rfl
    | some x =>
      simp only [QR.ofOpt, QR.bind_ok]
      cases removeNode a x with
      | ok a1 =>
        simp only [QR.bind_ok]
        rw [removeLoopT_fst rest a1]
        cases removeLoopT a1 rest <;> rfl
      | err k => rfl
      | panic => rfl

/-- the arena component of the instrumented run is `cliRemove` -/
theorem cliRemoveTrace_fst (a : Arena) (tips : List String) :
    cliRemove a tips = (cliRemoveTrace a tips).fst := by
  rw [cliRemove_eq, removeLoopT_fst, cliRemoveTrace]
  cases removeLoopT a tips with
  | ok p =>
    obtain ⟨a1, xs⟩ := p
    simp only [QR.fst, QR.bind_ok]
    cases compressQ a1 <;> rfl
  | err k => rfl
  | panic => rfl

theorem cliRemove_ok_iff (a a' : Arena) (tips : List String) :
    cliRemove a tips = .ok a' ↔ ∃ xs, cliRemoveTrace a tips = .ok (a', xs) := by
  rw [cliRemoveTrace_fst]
  cases cliRemoveTrace a tips with
  | ok p =>
    obtain ⟨a2, xs⟩ := p
    simp only [QR.fst]
    constructor
    · intro h; injection h with h; subst h; exact ⟨xs, rfl⟩
    · rintro ⟨ys, h⟩; injection h with h; injection h with h1 _; rw [h1]
  | err k => simp [QR.fst]
  | panic => simp [QR.fst]

/-! ### `b` is `a` with some nodes removed -/

structure Shrunk (a b : Arena) : Prop where
  sub : ∀ i, live b i → live a i
  par : ∀ i, live b i → (nd b i).parent = (nd a i).parent
  pedge : ∀ i, live b i → (nd b i).pedge = (nd a i).pedge
  name : ∀ i, live b i → (nd b i).name = (nd a i).name
  kids : ∀ i c, live b i → c ∈ (nd b i).children → c ∈ (nd a i).children
  dist : ∀ x y, live b x → live b y → distance b x y = distance a x y

theorem Shrunk.refl (a : Arena) : Shrunk a a :=
  ⟨fun _ h => h, fun _ _ => rfl, fun _ _ => rfl, fun _ _ => rfl, fun _ _ _ h => h, fun _ _ _ _ => rfl⟩

theorem Shrunk.trans {a b c : Arena} (h1 : Shrunk a b) (h2 : Shrunk b c) : Shrunk a c := by
  refine ⟨fun i h => h1.sub i (h2.sub i h), ?_, ?_, ?_, ?_, ?_⟩
  · intro i h; rw [h2.par i h, h1.par i (h2.sub i h)]
  · intro i h; rw [h2.pedge i h, h1.pedge i (h2.sub i h)]
  · intro i h; rw [h2.name i h, h1.name i (h2.sub i h)]
  · intro i k h hk; exact h1.kids i k (h2.sub i h) (h2.kids i k h hk)
  · intro x y hx hy; rw [h2.dist x y hx hy, h1.dist x y (h2.sub x hx) (h2.sub y hy)]

theorem Shrunk.roots {a b : Arena} (h : Shrunk a b) : RootsSub a b :=
  fun i ⟨hl, hp⟩ => ⟨h.sub i hl, by rw [← h.par i hl]; exact hp⟩

/-- a successful `prune` of a live node, with its exact frame -/
theorem prune_ok_of_live {a : Arena} (g : Good a) {x : Nat} (hl : live a x) :
    ∃ a1, prune a x = (a1, .ok none) ∧ PruneOK2 a a1 x := by
  obtain ⟨a1, h1, ok⟩ := prune_main2 (fuelOf a) a.size a x g.1 g.2 hl (depth_le_size g.1)
    (by simp only [fuelOf]; omega)
  refine ⟨a1, ?_, ok⟩
  simp [prune, (isLive_iff a x).2 hl, h1]

/-- `prune` answers `ok` only for a live node -/
theorem live_of_prune_ok {a a1 : Arena} {x : Nat} {o : Option Nat} (h : prune a x = (a1, .ok o)) : live a x := by
  unfold prune at h
  split at h
  next hx => exact (isLive_iff a x).1 hx
  next => injection h with _ h2; cases h2

theorem PruneOK2.shrunk {a a1 : Arena} {c : Nat} (ok : PruneOK2 a a1 c) (hinv : Inv a) : Shrunk a a1 := by
  refine ⟨ok.sub, fun i h => (ok.parent_eq h).1, fun i h => (ok.parent_eq h).2, ?_, ?_,
    fun x y hx hy => ok.distance hinv hx hy⟩
  · intro i h
    by_cases hp : (nd a c).parent = some i
    · rw [ok.par i hp]; rfl
    · rw [ok.same i h hp]
  · intro i k h hk
    by_cases hp : (nd a c).parent = some i
    · rw [ok.par i hp] at hk; exact List.mem_of_mem_erase hk
    · rw [ok.same i h hp] at hk; exact hk

/-- nothing but the node itself lies below a childless node -/
theorem below_childless_eq {a : Arena} {r : Nat → Nat} (w : W a r) {x v k : Nat} (hx : (nd a x).children = [])
    (h : BelowK a x v k) : v = x := by
  cases k with
  | zero => cases h; rfl
  | succ k =>
    obtain ⟨c, hc, _⟩ := BelowK.top w h
    rw [hx] at hc; cases hc

/-- pruning a childless node removes exactly that node -/
theorem PruneOK2.tip_live {a a1 : Arena} {c : Nat} (ok : PruneOK2 a a1 c) (hinv : Inv a) (hl : live a c)
    (hc : (nd a c).children = []) (i : Nat) : live a1 i ↔ (live a i ∧ i ≠ c) := by
  constructor
  · intro h
    refine ⟨ok.sub i h, ?_⟩
    intro e; subst e
    exact ok.gone i 0 (BelowK.refl hl) h
  · rintro ⟨h, hne⟩
    exact ok.kept i h (fun k hb => hne (below_childless_eq hinv.toW hc hb))

theorem PruneOK2.depth_eq {a a1 : Arena} {c : Nat} (ok : PruneOK2 a a1 c) {i : Nat} (h : live a1 i) :
    (nd a1 i).depth = (nd a i).depth := by
  by_cases hp : (nd a c).parent = some i
  · rw [ok.par i hp]; rfl
  · rw [ok.same i h hp]

/-! ### removal of the emptied ancestors: no new tip -/

/-- every childless live non-root node of `b`, other than `o`, is childless in `a` -/
def NoNewTipBut (a b : Arena) (o : Option Nat) : Prop :=
  ∀ i, live b i → some i ≠ o → (nd b i).children = [] → (nd b i).parent.isSome = true → (nd a i).children = []

theorem pruneEmptied_spec (a : Arena) : ∀ (f : Nat) (c : Arena) (o : Option Nat), Good c → Shrunk a c →
    (∀ p, o = some p → live c p → (nd c p).depth < f) →
    NoNewTipBut a c o →
    (∀ p, o = some p → live c p → (nd a p).children ≠ []) →
    Good (pruneEmptied f c o) ∧ Shrunk a (pruneEmptied f c o) ∧ Shrunk c (pruneEmptied f c o) ∧
    NoNewTipBut a (pruneEmptied f c o) none ∧
    (∀ i, live c i → ¬ live (pruneEmptied f c o) i → (nd a i).children ≠ []) := by
  intro f
  induction f with
  | zero =>
    intro c o g sh hf nn _
    refine ⟨g, sh, Shrunk.refl c, ?_, fun i h h' => absurd h h'⟩
    intro i hl _ hc hp
    by_cases hio : some i = o
    · exact absurd (hf i hio.symm hl) (Nat.not_lt_zero _)
    · exact nn i hl hio hc hp
  | succ f ih =>
    intro c o g sh hf nn hkid
    cases o with
    | none =>
      refine ⟨g, sh, Shrunk.refl c, nn, fun i h h' => absurd h h'⟩
    | some p =>
      by_cases hcond : (isLive c p && (nd c p).children.isEmpty && (nd c p).parent.isSome) = true
      · have hrw : pruneEmptied (f + 1) c (some p) = pruneEmptied f (prune c p).1 (nd c p).parent := by
          simp only [pruneEmptied, hcond, ↓reduceIte]
        rw [hrw]
        simp only [Bool.and_eq_true, List.isEmpty_iff] at hcond
        obtain ⟨⟨hlp, hch⟩, hpar⟩ := hcond
        have hlp := (isLive_iff c p).1 hlp
        obtain ⟨c1, hpr, ok⟩ := prune_ok_of_live g hlp
        rw [hpr]
        have g1 : Good c1 := ⟨ok.inv, ok.tomb⟩
        have sh1 : Shrunk c c1 := ok.shrunk g.1
        have hlv := ok.tip_live g.1 hlp hch
        obtain ⟨r1, r2, r3, r4, r5⟩ := ih c1 (nd c p).parent g1 (sh.trans sh1)
          (by
            intro q hq hlq
            obtain ⟨hlq', hmem⟩ := g.1.parent_ok p q hlp hq
            have hd := (g.1.child_ok q p hlq' hmem).2.2.1
            have := hf p rfl hlp
            rw [ok.depth_eq hlq]; omega)
          (by
            intro i hl hne hc hp
            obtain ⟨hl', hip⟩ := (hlv i).1 hl
            have hsame : nd c1 i = nd c i := ok.same i hl (fun e => hne e.symm)
            rw [hsame] at hc hp
            exact nn i hl' (fun e => hip (Option.some.inj e)) hc hp)
          (by
            intro q hq hlq
            obtain ⟨hlq', hmem⟩ := g.1.parent_ok p q hlp hq
            exact List.ne_nil_of_mem (sh.kids q p hlq' hmem))
        refine ⟨r1, r2, sh1.trans r3, r4, ?_⟩
        intro i hl hd
        by_cases hl1 : live c1 i
        · exact r5 i hl1 hd
        · have : i = p := by
            apply Classical.byContradiction
            intro hne
            exact hl1 ((hlv i).2 ⟨hl, hne⟩)
          subst this
          exact hkid i rfl hl
      · have hrw : pruneEmptied (f + 1) c (some p) = c := by
          simp only [pruneEmptied, hcond]
          rfl
        rw [hrw]
        refine ⟨g, sh, Shrunk.refl c, ?_, fun i h h' => absurd h h'⟩
        intro i hl _ hc hp
        by_cases hio : some i = some p
        · exfalso
          apply hcond
          have : i = p := Option.some.inj hio
          subst this
          simp [(isLive_iff c i).2 hl, hc, hp]
        · exact nn i hl hio hc hp

/-! ### one round, the loop -/

theorem removeNode_spec {a b b' : Arena} {x : Nat} (gb : Good b) (sh : Shrunk a b) (nn : NoNewTipBut a b none)
    (h : removeNode b x = .ok b') :
    IsTip b x ∧ Good b' ∧ Shrunk a b' ∧ Shrunk b b' ∧ NoNewTipBut a b' none ∧ ¬ live b' x ∧
    (∀ i, live b i → ¬ live b' i → i = x ∨ (nd a i).children ≠ []) := by
  unfold removeNode at h
  split at h
  · cases h
  next hch =>
    have hch : (nd b x).children = [] := by simpa using hch
    split at h
    next b1 o hpr =>
      have hlx := live_of_prune_ok hpr
      obtain ⟨b1', hpr', ok⟩ := prune_ok_of_live gb hlx
      rw [hpr'] at hpr
      injection hpr with e1 _
      subst e1
      injection h with h
      subst h
      have g1 : Good b1' := ⟨ok.inv, ok.tomb⟩
      have sh1 : Shrunk b b1' := ok.shrunk gb.1
      have hlv := ok.tip_live gb.1 hlx hch
      obtain ⟨r1, r2, r3, r4, r5⟩ := pruneEmptied_spec a (fuelOf b) b1' (nd b x).parent g1 (sh.trans sh1)
        (by
          intro q _ hlq
          have := depth_le_size g1.1 q hlq
          rw [ok.size] at this
          simp only [fuelOf]; omega)
        (by
          intro i hl hne hc hp
          obtain ⟨hl', _⟩ := (hlv i).1 hl
          have hsame : nd b1' i = nd b i := ok.same i hl (fun e => hne e.symm)
          rw [hsame] at hc hp
          exact nn i hl' (by simp) hc hp)
        (by
          intro q hq hlq
          obtain ⟨hlq', hmem⟩ := gb.1.parent_ok x q hlx hq
          exact List.ne_nil_of_mem (sh.kids q x hlq' hmem))
      refine ⟨⟨hlx, hch⟩, r1, r2, sh1.trans r3, r4, ?_, ?_⟩
      · intro hl
        exact ((hlv x).1 (r3.sub x hl)).2 rfl
      · intro i hl hd
        by_cases hl1 : live b1' i
        · exact Or.inr (r5 i hl1 hd)
        · left
          apply Classical.byContradiction
          intro hne
          exact hl1 ((hlv i).2 ⟨hl, hne⟩)
    next => cases h

/-- the slots the names resolve to, one after the other: each is, at its turn, a live childless node that
    carries the name; in terms of the arena `a` at the start -/
def Resolved (a : Arena) (name : String) (x : Nat) : Prop :=
  live a x ∧ (nd a x).name = some name ∧ ((nd a x).children = [] ∨ (nd a x).parent = none)

theorem getByName_name {a : Arena} {name : String} {x : Nat} (h : getByName a name = some x) :
    (nd a x).name = some name := by
  unfold getByName at h
  have := List.find?_some h
  simpa using this

theorem removeLoopT_spec {a : Arena} : ∀ (tips : List String) {b b' : Arena} {xs : List Nat}, Good b →
    Shrunk a b → NoNewTipBut a b none → removeLoopT b tips = .ok (b', xs) →
    Good b' ∧ Shrunk a b' ∧ Shrunk b b' ∧ NoNewTipBut a b' none ∧
    (∀ x ∈ xs, live b x ∧ ¬ live b' x) ∧
    (∀ i, live b i → ¬ live b' i → i ∈ xs ∨ (nd a i).children ≠ []) ∧
    List.Forall₂ (Resolved a) tips xs
  | [], b, b', xs, gb, sh, nn, h => by
    simp only [removeLoopT] at h
    injection h with h; injection h with h1 h2
    subst h1 h2
    exact ⟨gb, sh, Shrunk.refl _, nn, fun x hx => by simp at hx, fun i h h' => absurd h h', List.Forall₂.nil⟩
  | name :: rest, b, b', xs, gb, sh, nn, h => by
    rw [removeLoopT] at h
    split at h
    · cases h
    next x hname =>
      split at h
      next b1 hrn =>
        obtain ⟨s1, s2, s3, s4, s5, s6, s7⟩ := removeNode_spec gb sh nn hrn
        split at h
        next b2 ys hloop =>
          injection h with h; injection h with h1 h2
          subst h1 h2
          obtain ⟨r1, r2, r3, r4, r5, r6, r7⟩ := removeLoopT_spec rest s2 s3 s5 hloop
          refine ⟨r1, r2, s4.trans r3, r4, ?_, ?_, ?_⟩
          · intro y hy
            rcases List.mem_cons.1 hy with e | hy
            · subst e; exact ⟨s1.1, fun hl => s6 (r3.sub _ hl)⟩
            · exact ⟨s4.sub y (r5 y hy).1, (r5 y hy).2⟩
          · intro i hl hd
            by_cases hl1 : live b1 i
            · rcases r6 i hl1 hd with e | e
              · exact Or.inl (List.mem_cons_of_mem _ e)
              · exact Or.inr e
            · rcases s7 i hl hl1 with e | e
              · exact Or.inl (by simp [e])
              · exact Or.inr e
          · refine List.Forall₂.cons ⟨sh.sub x s1.1, ?_, ?_⟩ r7
            · rw [← sh.name x s1.1]; exact getByName_name hname
            · cases hp : (nd a x).parent with
              | none => exact Or.inr rfl
              | some q =>
                left
                exact nn x s1.1 (by simp) s1.2 (by rw [sh.par x s1.1, hp]; rfl)
        · cases h
        · cases h
      · cases h
      · cases h

/-- reading of the instrumented loop, one round: the head of the list of slots is what the name resolves to in
    the CURRENT arena, a live childless node there; the rest of the run starts from the arena the round leaves -/
theorem removeLoopT_cons_ok {b b2 : Arena} {name : String} {rest : List String} {ys : List Nat} (gb : Good b)
    (h : removeLoopT b (name :: rest) = .ok (b2, ys)) :
    ∃ x b1 xs, ys = x :: xs ∧ getByName b name = some x ∧ IsTip b x ∧ (nd b x).name = some name ∧
      removeNode b x = .ok b1 ∧ Good b1 ∧ removeLoopT b1 rest = .ok (b2, xs) := by
  rw [removeLoopT] at h
  split at h
  · cases h
  next x hname =>
    split at h
    next b1 hrn =>
      obtain ⟨s1, s2, _⟩ := removeNode_spec gb (Shrunk.refl b) (fun i _ _ hc _ => hc) hrn
      split at h
      next b2' xs hloop =>
        injection h with h; injection h with h1 h2
        subst h1 h2
        exact ⟨x, b1, xs, rfl, hname, s1, getByName_name hname, hrn, s2, hloop⟩
      · cases h
      · cases h
    · cases h
    · cases h

/-- no slot is pruned twice -/
theorem removeLoopT_nodup {a : Arena} : ∀ (tips : List String) {b b' : Arena} {xs : List Nat}, Good b →
    Shrunk a b → NoNewTipBut a b none → removeLoopT b tips = .ok (b', xs) → xs.Nodup
  | [], b, b', xs, _, _, _, h => by
    simp only [removeLoopT] at h
    injection h with h; injection h with _ h2
    subst h2; exact List.nodup_nil
  | name :: rest, b, b', xs, gb, sh, nn, h => by
    rw [removeLoopT] at h
    split at h
    · cases h
    next x hname =>
      split at h
      next b1 hrn =>
        obtain ⟨_, s2, s3, _, s5, s6, _⟩ := removeNode_spec gb sh nn hrn
        split at h
        next b2 ys hloop =>
          injection h with h; injection h with h1 h2
          subst h1 h2
          obtain ⟨_, _, _, _, r5, _, _⟩ := removeLoopT_spec rest s2 s3 s5 hloop
          exact List.nodup_cons.2 ⟨fun hm => s6 (r5 x hm).1, removeLoopT_nodup rest s2 s3 s5 hloop⟩
        · cases h
        · cases h
      · cases h
      · cases h

/-! ### the final `compress` -/

/-- `compress` never brings a slot back to life, whatever its outcome -/
theorem compressLoop_sub : ∀ (vs : List Nat) {a : Arena}, Good a →
    ∀ i, live (compressLoop vs a).1 i → live a i
  | [], _, _, i, h => by simpa [compressLoop] using h
  | v :: vs, a, g, i, h => by
    cases hcn : compressNode a v with
    | mk a1 out =>
      cases out with
      | ok o =>
        have hgo : compressLoop (v :: vs) a = compressLoop vs a1 := by
          rw [compressLoop]; simp only [hcn]
        rw [hgo] at h
        have g1 := compressNode_good v g
        rw [hcn] at g1
        have h1 := compressLoop_sub vs g1.1 i h
        obtain ⟨p, c, sp⟩ := compressNode_spliced g hcn
        by_cases hiv : i = v
        · subst hiv; exact sp.lv
        · exact (sp.liveo i hiv).1 h1
      | err k =>
        have e := compressNode_refused g hcn (by intro o; simp)
        have hgo : (compressLoop (v :: vs) a).1 = a := by
          rw [compressLoop]; simp only [hcn]; exact e
        rw [hgo] at h; exact h
      | panic =>
        have e := compressNode_refused g hcn (by intro o; simp)
        have hgo : (compressLoop (v :: vs) a).1 = a := by
          rw [compressLoop]; simp only [hcn]; exact e
        rw [hgo] at h; exact h
      | diverge =>
        have e := compressNode_refused g hcn (by intro o; simp)
        have hgo : (compressLoop (v :: vs) a).1 = a := by
          rw [compressLoop]; simp only [hcn]; exact e
        rw [hgo] at h; exact h

theorem compressQ_ok {a1 a2 : Arena} (h : compressQ a1 = .ok a2) : ∃ o, compress a1 = (a2, .ok o) := by
  unfold compressQ at h
  split at h
  next a2' o heq => injection h with h; subst h; exact ⟨o, heq⟩
  · cases h
  · cases h

/-! ### the contract of `remove` -/

theorem forall₂_and_right_cli {α β : Type} {R : α → β → Prop} {P : β → Prop} {l1 : List α} {l2 : List β}
    (h : List.Forall₂ R l1 l2) (hp : ∀ x ∈ l2, P x) : List.Forall₂ (fun n x => R n x ∧ P x) l1 l2 := by
  induction h with
  | nil => exact List.Forall₂.nil
  | cons hr _ ih =>
    exact List.Forall₂.cons ⟨hr, hp _ (by simp)⟩ (ih (fun x hx => hp x (List.mem_cons_of_mem _ hx)))

/-- **contract of `phylotree remove`** in terms of the instrumented run (`xs`: the slots the names resolved
    to, in order).  `a` the tree read from the file, `a'` the tree printed. -/
theorem cliRemove_contract {a a' : Arena} {tips : List String} {xs : List Nat} (g : Good a)
    (h1 : AtMostOneRoot a) (h : cliRemoveTrace a tips = .ok (a', xs)) :
    Good a' ∧ AtMostOneRoot a' ∧ (∀ i, ¬ Unary a' i) ∧
    (∀ i, live a' i → live a i) ∧
    (∀ i, IsTip a i → i ∉ xs → IsTip a' i) ∧
    (∀ i, IsTip a' i → (IsTip a i ∧ i ∉ xs) ∨ (isRoot a i ∧ ¬ IsTip a i ∧ ∀ j, IsTip a j → j ∈ xs)) ∧
    (∀ x y, IsTip a' x → IsTip a' y → x ≠ y →
      ∃ d n n', distance a x y = .ok (d, n) ∧ distance a' x y = .ok (d, n') ∧ n' ≤ n) ∧
    List.Forall₂ (fun name x => Resolved a name x ∧ ¬ live a' x) tips xs := by
  unfold cliRemoveTrace at h
  split at h
  next a1 xs' hloop =>
    split at h
    next a2 hcq =>
      injection h with h; injection h with e1 e2
      subst e1 e2
      obtain ⟨g1, sh, _, nn, r5, r6, r7⟩ := removeLoopT_spec (a := a) tips g (Shrunk.refl a)
        (fun i _ _ hc _ => hc) hloop
      obtain ⟨o, hc⟩ := compressQ_ok hcq
      have g2 : Good a2 := by have := (compress_good g1).1; rw [hc] at this; exact this
      have h11 : AtMostOneRoot a1 := sh.roots.atMostOne h1
      have h12 : AtMostOneRoot a2 := by
        have := (compressLoop_roots (toCompress a1) g1).atMostOne h11
        have e : (compressLoop (toCompress a1) a1).1 = a2 := by
          show (compress a1).1 = a2
          rw [hc]
        rw [e] at this; exact this
      have hsub2 : ∀ i, live a2 i → live a1 i := by
        intro i hl
        have e : (compressLoop (toCompress a1) a1).1 = a2 := by
          show (compress a1).1 = a2
          rw [hc]
        exact compressLoop_sub (toCompress a1) g1 i (by rw [e]; exact hl)
      obtain ⟨hun, _⟩ := compress_post g1 hc
      obtain ⟨htip, hdist⟩ := compress_tip_distances g1 hc
      -- a tip of `a` that is not in `xs` is a tip of `a1`
      have hkeep : ∀ i, IsTip a i → i ∉ xs' → IsTip a1 i := by
        intro i hi hx
        have hl1 : live a1 i := by
          apply Classical.byContradiction
          intro hd
          rcases r6 i hi.1 hd with e | e
          · exact hx e
          · exact e hi.2
        refine ⟨hl1, List.eq_nil_iff_forall_not_mem.2 (fun c hc => ?_)⟩
        have := sh.kids i c hl1 hc
        rw [hi.2] at this; cases this
      refine ⟨g2, h12, hun, fun i hl => sh.sub i (hsub2 i hl), ?_, ?_, ?_, ?_⟩
      · intro i hi hx
        exact (htip i).2 (hkeep i hi hx)
      · intro i hi
        have hi1 := (htip i).1 hi
        have hnx : i ∉ xs' := fun hm => (r5 i hm).2 hi1.1
        have hla := sh.sub i hi1.1
        by_cases hca : (nd a i).children = []
        · exact Or.inl ⟨⟨hla, hca⟩, hnx⟩
        · right
          have hroot1 : (nd a1 i).parent = none := by
            cases hp : (nd a1 i).parent with
            | none => rfl
            | some q => exact absurd (nn i hi1.1 (by simp) hi1.2 (by simp [hp])) hca
          refine ⟨⟨hla, by rw [← sh.par i hi1.1]; exact hroot1⟩, fun ht => hca ht.2, ?_⟩
          intro j hj
          apply Classical.byContradiction
          intro hjx
          have hj1 := hkeep j hj hjx
          obtain ⟨t, ht, _, _, hall⟩ := one_tree g1 h11 j hj1.1
          have : t = i := h11 t i ht ⟨hi1.1, hroot1⟩
          subst this
          obtain ⟨k, hb⟩ := hall j hj1.1
          have := below_childless_eq g1.1.toW hi1.2 hb
          subst this
          exact hca hj.2
      · intro x y hx hy hxy
        have hx1 := (htip x).1 hx
        have hy1 := (htip y).1 hy
        obtain ⟨d, n, n', e1, e2, hle⟩ := hdist x y hx1 hy1 hxy
        rw [sh.dist x y hx1.1 hy1.1] at e1
        exact ⟨d, n, n', e1, e2, hle⟩
      · exact forall₂_and_right_cli r7 (fun x hx hl => (r5 x hx).2 (hsub2 x hl))
    · cases h
    · cases h
  · cases h
  · cases h

/-- when at least one tip of the original tree survives, the tips of the result are exactly the tips of the
    original tree that were not removed -/
theorem cliRemove_tips {a a' : Arena} {tips : List String} {xs : List Nat} (g : Good a)
    (h1 : AtMostOneRoot a) (h : cliRemoveTrace a tips = .ok (a', xs)) (hs : ∃ j, IsTip a j ∧ j ∉ xs) (i : Nat) :
    IsTip a' i ↔ (IsTip a i ∧ i ∉ xs) := by
  obtain ⟨_, _, _, _, t1, t2, _, _⟩ := cliRemove_contract g h1 h
  constructor
  · intro hi
    rcases t2 i hi with e | ⟨_, _, e⟩
    · exact e
    · obtain ⟨j, hj, hjx⟩ := hs
      exact absurd (e j hj) hjx
  · rintro ⟨hi, hx⟩; exact t1 i hi hx

theorem cliRemoveTrace_nodup {a a' : Arena} {tips : List String} {xs : List Nat} (g : Good a)
    (h : cliRemoveTrace a tips = .ok (a', xs)) : xs.Nodup := by
  unfold cliRemoveTrace at h
  split at h
  next a1 xs' hloop =>
    split at h
    next a2 hcq =>
      injection h with h; injection h with _ e2
      subst e2
      exact removeLoopT_nodup (a := a) tips g (Shrunk.refl a) (fun i _ _ hc _ => hc) hloop
    · cases h
    · cases h
  · cases h
  · cases h

/-! ### the possible outcomes: the fuel of the model is never exhausted, nothing panics inside the model -/

theorem removeNode_outcome {b : Arena} (gb : Good b) (x : Nat) :
    (∃ b', removeNode b x = .ok b' ∧ Good b') ∨
    (removeNode b x = .err "NotATip" ∧ (nd b x).children ≠ []) ∨
    (removeNode b x = .err "PruneFailed" ∧ ¬ live b x) := by
  by_cases hch : (nd b x).children = []
  · by_cases hl : live b x
    · left
      obtain ⟨b1, hp, _⟩ := prune_ok_of_live gb hl
      have hr : removeNode b x = .ok (pruneEmptied (fuelOf b) b1 (nd b x).parent) := by
        simp [removeNode, hch, hp]
      exact ⟨_, hr, (removeNode_spec gb (Shrunk.refl b) (fun i _ _ hc _ => hc) hr).2.1⟩
    · right; right
      refine ⟨?_, hl⟩
      have : isLive b x = false := by
        cases h : isLive b x with
        | false => rfl
        | true => exact absurd ((isLive_iff b x).1 h) hl
      simp [removeNode, hch, prune, this]
  · right; left
    refine ⟨?_, hch⟩
    simp [removeNode, hch]

theorem removeFold_outcome : ∀ (tips : List String) {b : Arena}, Good b →
    (∃ b', tips.foldlM removeStep b = .ok b' ∧ Good b') ∨
    (∃ k, tips.foldlM removeStep b = .err k ∧ (k = "NoSuchName" ∨ k = "NotATip" ∨ k = "PruneFailed"))
  | [], b, gb => Or.inl ⟨b, rfl, gb⟩
  | name :: rest, b, gb => by
    rw [List.foldlM_cons, removeStep]
    cases hn : getByName b name with
    | none => exact Or.inr ⟨"NoSuchName", rfl, Or.inl rfl⟩
    | some x =>
      simp only [QR.ofOpt, QR.bind_ok]
      rcases removeNode_outcome gb x with ⟨b', h, g'⟩ | ⟨h, _⟩ | ⟨h, _⟩
      · rw [h]; exact removeFold_outcome rest g'
      · rw [h]; exact Or.inr ⟨"NotATip", rfl, Or.inr (Or.inl rfl)⟩
      · rw [h]; exact Or.inr ⟨"PruneFailed", rfl, Or.inr (Or.inr rfl)⟩

/-- `compress_node` answers `ok` or an error value -/
theorem compressNode_outcome {a : Arena} (g : Good a) (v : Nat) :
    (∃ o, (compressNode a v).2 = .ok o) ∨ ∃ k, (compressNode a v).2 = .err k := by
  unfold compressNode
  split
  · exact Or.inr ⟨_, rfl⟩
  next hv =>
    have hlv : live a v := (isLive_iff a v).1 (by simpa using hv)
    split
    next p c hpar hch =>
      split
      · exact Or.inr ⟨_, rfl⟩
      next e _ =>
        split
        · exact Or.inr ⟨_, rfl⟩
        · obtain ⟨a2, h2, _⟩ := compress_core v p c e g hlv hpar hch
          simp only [h2]
          exact Or.inl ⟨_, rfl⟩
    · exact Or.inr ⟨_, rfl⟩

theorem compressLoop_outcome : ∀ (vs : List Nat) {a : Arena}, Good a →
    (∃ o, (compressLoop vs a).2 = .ok o) ∨ ∃ k, (compressLoop vs a).2 = .err k
  | [], _, _ => Or.inl ⟨none, rfl⟩
  | v :: vs, a, g => by
    have hg := compressNode_good v g
    have ho := compressNode_outcome g v
    unfold compressLoop
    split
    next a' o heq => rw [heq] at hg; exact compressLoop_outcome vs hg.1
    next r hne => exact ho

/-- **outcomes of `remove`** on an arena satisfying the invariant: it never panics inside the model and never
    runs out of fuel; an error is one of the tool's own (`NoSuchName`, `NotATip`, `PruneFailed`: the name
    resolved to a removed slot) or the error value `compress` returned on the pruned tree -/
theorem cliRemove_outcome {a : Arena} (g : Good a) (tips : List String) :
    (∃ a', cliRemove a tips = .ok a') ∨
    (∃ k, cliRemove a tips = .err k ∧ (k = "NoSuchName" ∨ k = "NotATip" ∨ k = "PruneFailed" ∨
      ∃ a1, Good a1 ∧ (compress a1).2 = .err k)) := by
  rw [cliRemove_eq]
  rcases removeFold_outcome tips g with ⟨a1, h, g1⟩ | ⟨k, h, hk⟩
  · rw [h]
    simp only [QR.bind_ok, compressQ]
    rcases compressLoop_outcome (toCompress a1) g1 with ⟨o, ho⟩ | ⟨k, ho⟩
    · left
      have : compress a1 = ((compress a1).1, .ok o) := Prod.ext rfl ho
      rw [this]; exact ⟨_, rfl⟩
    · right
      have : compress a1 = ((compress a1).1, .err k) := Prod.ext rfl ho
      refine ⟨k, ?_, Or.inr (Or.inr (Or.inr ⟨a1, g1, ho⟩))⟩
      rw [this]
  · right
    rw [h]
    refine ⟨k, rfl, ?_⟩
    rcases hk with e | e | e
    · exact Or.inl e
    · exact Or.inr (Or.inl e)
    · exact Or.inr (Or.inr (Or.inl e))

end AR
