import PhyloModel.Arena.QueryRefineBase
import PhyloModel.Arena.QueryRefineBinary
import PhyloModel.Arena.QueryRefineNames
import PhyloModel.Arena.QueryRefineIndices
import PhyloModel.Arena.QueryRefineDist
import PhyloModel.Arena.QueryRefineDiam
import PhyloModel.Arena.QueryRefineTraverse
import PhyloModel.Arena.QueryRefineDistance
import PhyloModel.Arena.QueryRefineLca
/-! # Group C: every read-only query is a function of the abstract tree (umbrella file)

Hypotheses everywhere: `Good a`, `AtMostOneRoot a`, `absRoot a = .ok t`.

* `QueryRefineBase`    : `leaves_refines`, `nLeaves_refines`, `leafNames_refines`, `isRooted_refines`
* `QueryRefineBinary`  : `isBinary_refines`, `cherries_refines`, `totalLength_refines`
* `QueryRefineNames`   : `searchName_refines`, `searchName_count`, `getByName_refines_live`,
                         `getByName_refines_partial` (extra hypothesis `BlankNames a`)
* `QueryRefineIndices` : `checkRootedBinary_refines`, `sackin_refines`, `colless_refines`
* `QueryRefineDist`    : `treeHeight_refines`
* `QueryRefineDiam`    : `diameter_refines`
* `QueryRefineTraverse`: `traversals_refine` (pre/post/in/level order, `get_subtree`, `get_subtree_leaves`,
                         `get_descendants` from any node), `traversal_names`, `traversals_depend_only_on_tree`
* `QueryRefineDistance`: `distance_refines` (any two nodes, addressed by pre-order position),
                         `distances_depend_only_on_tree`
* `QueryRefineLca`     : `commonAncestor_refines`, `commonAncestor_depends_only_on_tree` -/
