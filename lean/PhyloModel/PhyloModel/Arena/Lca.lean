import PhyloModel.Arena.Path
/-! Scratch prototype: the cursor of `get_common_ancestor` / `get_distance` and the deepest common ancestor -/
namespace AR

/-- index of the first position where the two root paths differ, or the shorter length -/
def cursor : List Nat → List Nat → Nat
  | x :: xs, y :: ys => if x = y then cursor xs ys + 1 else 0
  | _, _ => 0

/-- the two lists share exactly their first `cursor` entries -/
theorem cursor_spec : ∀ (p q : List Nat), ∃ c p2 q2, p = c ++ p2 ∧ q = c ++ q2 ∧ c.length = cursor p q ∧
    (∀ x y, p2.head? = some x → q2.head? = some y → x ≠ y)
  | [], q => ⟨[], [], q, by simp [cursor]⟩
  | x :: xs, [] => ⟨[], x :: xs, [], by simp [cursor]⟩
  | x :: xs, y :: ys => by
    by_cases h : x = y
    · subst h
      obtain ⟨c, p2, q2, h1, h2, h3, h4⟩ := cursor_spec xs ys
      exact ⟨x :: c, p2, q2, by simp [h1], by simp [h2], by simp [cursor, h3], h4⟩
    · exact ⟨[], x :: xs, y :: ys, by simp, by simp, by simp [cursor, h], by
        intro a b ha hb; simp at ha hb; subst ha hb; exact h⟩

/-- any common prefix is a prefix of the first `cursor` entries -/
theorem common_prefix_le (c p2 q2 : List Nat) (hd : ∀ x y, p2.head? = some x → q2.head? = some y → x ≠ y) :
    ∀ (d p3 q3 : List Nat), c ++ p2 = d ++ p3 → c ++ q2 = d ++ q3 → ∃ e, c = d ++ e := by
  induction c with
  | nil =>
    intro d p3 q3 h1 h2
    cases d with
    | nil => exact ⟨[], rfl⟩
    | cons z zs =>
      simp only [List.nil_append, List.cons_append] at h1 h2
      have := hd z z (by rw [h1]; rfl) (by rw [h2]; rfl)
      exact absurd rfl this
  | cons x c ih =>
    intro d p3 q3 h1 h2
    cases d with
    | nil => exact ⟨x :: c, rfl⟩
    | cons z zs =>
      simp only [List.cons_append, List.cons.injEq] at h1 h2
      obtain ⟨e, he⟩ := ih zs p3 q3 h1.2 h2.2
      exact ⟨e, by rw [h1.1, he]; rfl⟩

/-- C09 core: the node at `cursor - 1` on the root paths is the deepest common ancestor, and the path
    tails measure the two legs of the connecting path -/
theorem lca_correct {a : Arena} {p q : List Nat} {s t : Nat} (hp : Path a p s) (hq : Path a q t)
    (hroot : p.head? = q.head?) :
    ∃ l c p2 q2, p = c ++ [l] ++ p2 ∧ q = c ++ [l] ++ q2 ∧ (c ++ [l]).length = cursor p q ∧
      BelowK a l s p2.length ∧ BelowK a l t q2.length ∧
      (∀ m k k', BelowK a m s k → BelowK a m t k' → ∃ j, BelowK a m l j) := by
  obtain ⟨c0, p2, q2, h1, h2, h3, h4⟩ := cursor_spec p q
  -- the common prefix is non-empty: same root
  have hne : c0 ≠ [] := by
    intro h; subst h
    simp only [List.nil_append] at h1 h2
    subst h1 h2
    cases hx : p.head? with
    | none => cases p with
      | nil => exact hp.ne_nil rfl
      | cons _ _ => simp at hx
    | some x =>
      have hy : q.head? = some x := by rw [← hroot, hx]
      exact h4 x x hx hy rfl
  obtain ⟨c, l, rfl⟩ : ∃ c l, c0 = c ++ [l] := by
    rcases List.eq_nil_or_concat c0 with h | ⟨c, l, h⟩
    · exact absurd h hne
    · exact ⟨c, l, by simpa using h⟩
  have hs := hp.split c p2 l (by rw [h1]; simp)
  have ht := hq.split c q2 l (by rw [h2]; simp)
  refine ⟨l, c, p2, q2, h1, h2, h3, hs.2, ht.2, ?_⟩
  intro m k k' hbs hbt
  obtain ⟨lm, l2, e1, hm1, _⟩ := Path.above hbs hp
  obtain ⟨lm', l2', e2, hm2, _⟩ := Path.above hbt hq
  have hu : lm = lm' := Path.unique hm1 hm2
  subst hu
  -- the root path of m is a common prefix, hence a prefix of the first `cursor` entries
  obtain ⟨e, he⟩ := common_prefix_le (c ++ [l]) p2 q2 h4 lm l2 l2' (by rw [← h1, e1]) (by rw [← h2, e2])
  -- lm ends in m
  obtain ⟨lm0, hlm0⟩ : ∃ lm0, lm = lm0 ++ [m] := by
    have hlast := hm1.last
    rcases List.eq_nil_or_concat lm with h | ⟨lm0, y, h⟩
    · exact absurd h hm1.ne_nil
    · refine ⟨lm0, ?_⟩
      have : lm = lm0 ++ [y] := by simpa using h
      rw [this] at hlast
      simp at hlast
      rw [this, hlast]
  have := hs.1.split lm0 e m (by rw [he, hlm0]; simp)
  exact ⟨e.length, this.2⟩

end AR
