import PhyloModel.Arena.Compress2
namespace AR

/-- `reset_depth_impl` never touches anything but `depth` (no invariant needed) -/
def SameButDepth (a b : Arena) : Prop :=
  b.size = a.size ∧ ∀ i, (nd b i).parent = (nd a i).parent ∧ (nd b i).children = (nd a i).children ∧
    (nd b i).pedge = (nd a i).pedge ∧ (nd b i).cedges = (nd a i).cedges ∧ (nd b i).deleted = (nd a i).deleted

theorem SameButDepth.rfl' (a : Arena) : SameButDepth a a := ⟨rfl, fun _ => ⟨rfl, rfl, rfl, rfl, rfl⟩⟩
theorem SameButDepth.trans {a b c : Arena} (h1 : SameButDepth a b) (h2 : SameButDepth b c) : SameButDepth a c := by
  refine ⟨by rw [h2.1, h1.1], fun i => ?_⟩
  obtain ⟨p1, p2, p3, p4, p5⟩ := h1.2 i
  obtain ⟨q1, q2, q3, q4, q5⟩ := h2.2 i
  exact ⟨by rw [q1, p1], by rw [q2, p2], by rw [q3, p3], by rw [q4, p4], by rw [q5, p5]⟩

theorem resetF_same : ∀ (f : Nat) (a a' : Arena) (x d : Nat), resetF f a x d = some a' → SameButDepth a a' := by
  intro f
  induction f with
  | zero => intro a a' x d h; simp [resetF] at h
  | succ f ih =>
    intro a a' x d h
    simp only [resetF] at h
    split at h
    next hl =>
      have h0 : SameButDepth a (a.setIfInBounds x { nd a x with depth := d }) := by
        refine ⟨by simp, fun i => ?_⟩
        rw [nd_set]; split <;> simp_all
      have loop : ∀ (cs : List Nat) (b b' : Arena),
          cs.foldlM (fun acc c => resetF f acc c (d + 1)) b = some b' → SameButDepth b b' := by
        intro cs
        induction cs with
        | nil => intro b b' hb; simp [List.foldlM] at hb; subst hb; exact SameButDepth.rfl' b
        | cons c cs ihc =>
          intro b b' hb
          simp only [List.foldlM_cons] at hb
          cases hc : resetF f b c (d + 1) with
          | none => simp [hc] at hb
          | some b1 =>
            simp only [hc, Option.bind_eq_bind, Option.bind_some] at hb
            exact (ih b b1 c (d + 1) hc).trans (ihc b1 b' hb)
      exact h0.trans (loop _ _ _ h)
    · cases h

theorem S.transfer {a b : Arena} {r : Nat → Nat} (h : SameButDepth a b) (s : S a r) : S b r := by
  have hl : ∀ i, live b i ↔ live a i := fun i => by simp only [live, h.1, (h.2 i).2.2.2.2]
  constructor
  · intro i c hli hc
    rw [hl] at hli; rw [(h.2 i).2.1] at hc
    obtain ⟨g1, g2, g3, g4⟩ := s.child_ok i c hli hc
    rw [hl, (h.2 c).1, (h.2 i).2.2.2.1, (h.2 c).2.2.1]; exact ⟨g1, g2, g3, g4⟩
  · intro i p hli hp
    rw [hl] at hli; rw [(h.2 i).1] at hp
    obtain ⟨g1, g2⟩ := s.parent_ok i p hli hp
    rw [hl, (h.2 p).2.1]; exact ⟨g1, g2⟩
  · intro i; rw [(h.2 i).2.1]; exact s.nodup i
  · intro i c hs; rw [(h.2 i).2.2.2.1] at hs; rw [(h.2 i).2.1]; exact s.cedge_dom i c hs

/-- `compress_node` (slot updates + depth repair) preserves the arena invariant -/
theorem compressNode_inv (a : Arena) (v p c : Nat) (e : Option Int) (hinv : Inv a) (hlv : live a v)
    (hpar : (nd a v).parent = some p) (hch : (nd a v).children = [c]) (D : Nat)
    (hD : ∀ i, live a i → (nd a i).depth ≤ D) :
    ∃ a', resetF (D + 1) (splice a v p c e) c ((nd (splice a v p c e) p).depth + 1) = some a' ∧ Inv a' := by
  obtain ⟨hs, hsz, hlive, hdep⟩ := splice_S a v p c e hinv hlv hpar hch
  have hc := hinv.child_ok; have hpo := hinv.parent_ok
  obtain ⟨hlp, hvmem⟩ := hpo v p hlv hpar
  obtain ⟨hlc, hcpar, hcdep, _⟩ := hc v c hlv (by simp [hch])
  have hvdep := (hc p v hlp hvmem).2.2.1
  have hvc : v ≠ c := by intro h; subst h; omega
  have hvp : v ≠ p := by intro h; subst h; omega
  have hpc : p ≠ c := by intro h; subst h; omega
  let b := splice a v p c e
  have hlcb : live b c := (hlive c).2 ⟨Ne.symm hvc, hlc⟩
  have hlpb : live b p := (hlive p).2 ⟨Ne.symm hvp, hlp⟩
  have w := hs.toW
  obtain ⟨a', hres, ok⟩ := reset_main (D + 1) D (fun i => (nd a i).depth) b c ((nd b p).depth + 1) w hlcb
    (fun i hl => hD i ((hlive i).1 hl).2) (by show D < D + 1 + (nd a c).depth; omega)
  refine ⟨a', hres, ?_⟩
  have hsame := resetF_same _ _ _ _ _ hres
  have hs' : S a' (fun i => (nd a i).depth) := hs.transfer hsame
  apply inv_of_S_DepthOK hs'
  have hl' : ∀ i, live a' i ↔ live b i := fun i => by simp only [live, hsame.1, (hsame.2 i).2.2.2.2]
  have hpdepth : (nd b p).depth = (nd a p).depth := by rw [hdep]; simp [Ne.symm hvp]
  -- p is not below c
  have hp_out : ∀ k, ¬ BelowK b c p k := fun k hb => by
    have := BelowK.rank w hb
    have : (nd a c).depth + k ≤ (nd a p).depth := this
    omega
  constructor
  · -- edge clause
    intro i x hli hx
    rw [hl'] at hli
    rw [(hsame.2 i).2.1] at hx
    obtain ⟨g1, g2, g3, _⟩ := hs.child_ok i x hli hx
    by_cases hbi : ∃ k, BelowK b c i k
    · obtain ⟨k, hk⟩ := hbi
      have hkx : BelowK b c x (k + 1) := BelowK.step hk g1 g2
      rw [ok.inside i k hk, ok.inside x (k + 1) hkx]; omega
    · have hbi' : ∀ k, ¬ BelowK b c i k := fun k hk => hbi ⟨k, hk⟩
      rw [ok.outside i hbi']
      by_cases hxc : x = c
      · subst hxc
        -- i is the parent of c in b, i.e. p
        have hcp : (nd b x).parent = some p := by
          have := nd_splice a v p x e hlv.1 hlp.1 hlc.1 hpc hvc hvp x
          show (nd (splice a v p x e) x).parent = some p
          rw [this]; simp [Ne.symm hvc, Ne.symm hpc]
        rw [hcp] at g2
        have hip : i = p := (Option.some.inj g2).symm
        subst hip
        rw [ok.inside x 0 (BelowK.refl hlcb)]
      · have hbx : ∀ k, ¬ BelowK b c x k := by
          intro k hk
          cases hk with
          | refl _ => exact hxc rfl
          | step hp' _ hpar' =>
            rw [g2] at hpar'; cases hpar'
            exact hbi' _ hp'
        rw [ok.outside x hbx]
        -- both untouched: the edge (i,x) is an edge of `a` with exact depths
        have hiv : i ≠ v := ((hlive i).1 hli).1
        have hxv : x ≠ v := ((hlive x).1 g1).1
        rw [hdep i, hdep x]
        simp only [hiv, hxv, ↓reduceIte]
        -- recover the edge in `a`
        have hxpar_a : (nd a x).parent = some i := by
          have := nd_splice a v p c e hlv.1 hlp.1 hlc.1 hpc hvc hvp x
          have g2' : (nd (splice a v p c e) x).parent = some i := g2
          rw [this] at g2'
          by_cases hxp : x = p
          · subst hxp; simpa [hxv, removeChild] using g2'
          · simpa [hxv, hxp, hxc] using g2'
        obtain ⟨q1, q2⟩ := hpo x i ((hlive x).1 g1).2 hxpar_a
        exact (hc i x q1 q2).2.2.1
  · -- root clause
    intro i hli hroot
    rw [hl'] at hli
    rw [(hsame.2 i).1] at hroot
    have hbi' : ∀ k, ¬ BelowK b c i k := by
      intro k hk
      cases hk with
      | refl _ =>
        have hcp : (nd b c).parent = some p := by
          have := nd_splice a v p c e hlv.1 hlp.1 hlc.1 hpc hvc hvp c
          show (nd (splice a v p c e) c).parent = some p
          rw [this]; simp [Ne.symm hvc, Ne.symm hpc]
        rw [hcp] at hroot; cases hroot
      | step _ _ hpar' => rw [hroot] at hpar'; cases hpar'
    rw [ok.outside i hbi']
    have hiv : i ≠ v := ((hlive i).1 hli).1
    rw [hdep i]; simp only [hiv, ↓reduceIte]
    have hroot_a : (nd a i).parent = none := by
      have := nd_splice a v p c e hlv.1 hlp.1 hlc.1 hpc hvc hvp i
      have g : (nd (splice a v p c e) i).parent = none := hroot
      rw [this] at g
      by_cases hip : i = p
      · subst hip; simpa [hiv, removeChild] using g
      · by_cases hic : i = c
        · subst hic; simp [hiv, hip] at g
        · simpa [hiv, hip, hic] using g
    exact hinv.root_depth i ((hlive i).1 hli).2 hroot_a

end AR
