import PhyloModel.Arena.Ops
/-! Fuel monotonicity: a recursive arena function that succeeds with some fuel returns the same result
    with any larger fuel.  This decouples the executable model's generous fuel from the exact depth
    bounds used in the invariant proofs. -/
namespace AR

theorem foldlM_step {α : Type} (g g' : α → Nat → Option α)
    (h : ∀ acc c r, g acc c = some r → g' acc c = some r) :
    ∀ (cs : List Nat) (a r : α), cs.foldlM g a = some r → cs.foldlM g' a = some r := by
  intro cs
  induction cs with
  | nil => intro a r hr; simpa using hr
  | cons c cs ih =>
    intro a r hr
    simp only [List.foldlM_cons, Option.bind_eq_bind] at hr ⊢
    cases hg : g a c with
    | none => simp [hg] at hr
    | some a1 =>
      simp only [hg, Option.bind_some] at hr
      simp only [h a c a1 hg, Option.bind_some]
      exact ih a1 r hr

theorem resetF_succ : ∀ (f : Nat) (a : Arena) (x d : Nat) (a' : Arena),
    resetF f a x d = some a' → resetF (f + 1) a x d = some a' := by
  intro f
  induction f with
  | zero => intro a x d a' h; simp [resetF] at h
  | succ f ih =>
    intro a x d a' h
    rw [resetF] at h ⊢
    split at h
    · next hx =>
      rw [if_pos hx]
      exact foldlM_step _ _ (fun acc c r hr => ih acc c (d + 1) r hr) _ _ _ h
    · simp at h

theorem resetF_mono (f g : Nat) (hfg : f ≤ g) (a : Arena) (x d : Nat) (a' : Arena)
    (h : resetF f a x d = some a') : resetF g a x d = some a' := by
  induction hfg with
  | refl => exact h
  | step _ ih => exact resetF_succ _ a x d a' ih

theorem pruneF_succ : ∀ (f : Nat) (a : Arena) (x : Nat) (a' : Arena),
    pruneF f a x = some a' → pruneF (f + 1) a x = some a' := by
  intro f
  induction f with
  | zero => intro a x a' h; simp [pruneF] at h
  | succ f ih =>
    intro a x a' h
    rw [pruneF] at h ⊢
    split at h
    · next hx =>
      rw [if_pos hx]
      cases hfold : (nd a x).children.foldlM (fun acc c => pruneF f acc c) a with
      | none => simp [hfold] at h
      | some a1 =>
        rw [foldlM_step _ _ (fun acc c r hr => ih acc c r hr) _ _ _ hfold]
        simpa [hfold] using h
    · simp at h

theorem pruneF_mono (f g : Nat) (hfg : f ≤ g) (a : Arena) (x : Nat) (a' : Arena)
    (h : pruneF f a x = some a') : pruneF g a x = some a' := by
  induction hfg with
  | refl => exact h
  | step _ ih => exact pruneF_succ _ a x a' ih

end AR
