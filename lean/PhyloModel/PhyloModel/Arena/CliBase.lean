import PhyloModel.Arena.Cli
import PhyloModel.Arena.CompressPost
import PhyloModel.Arena.QRLemmas
/-! Small shared tools for the C18 command-line proofs: decidability of `live` / `IsTip` (for the concrete
    examples) and projections out of the result monad `QR`. -/
namespace AR

instance decLiveCli (a : Arena) (i : Nat) : Decidable (live a i) := by unfold live; exact inferInstance
instance decIsTipCli (a : Arena) (i : Nat) : Decidable (IsTip a i) := by unfold IsTip; exact inferInstance

def QR.fst {α β : Type} : QR (α × β) → QR α
  | .ok p => .ok p.1
  | .err k => .err k
  | .panic => .panic

def QR.isOk {α : Type} : QR α → Bool | .ok _ => true | _ => false
def QR.getD {α : Type} (r : QR α) (d : α) : α := match r with | .ok v => v | _ => d
theorem QR.eq_ok {α : Type} {r : QR α} (h : QR.isOk r = true) (d : α) : r = .ok (QR.getD r d) := by
  cases r <;> simp_all [QR.isOk, QR.getD]

end AR
