import PhyloModel.Arena.QueryRefineDist
/-! `diameter` as a function of the abstract tree -/
namespace AR

/-! ### joining two root paths: by kid index (tree side) and by node id (arena side) agree -/

def joinSteps : List (Nat × Nat) → List (Nat × Nat) → List (Nat × Nat)
  | x :: xs, y :: ys => if x.1 = y.1 then joinSteps xs ys else (x :: xs) ++ (y :: ys)
  | xs, ys => xs ++ ys

theorem joinPaths_map (a : Arena) : ∀ (sx sy : List (Nat × Nat)),
    joinPaths (sx.map (stepF a)) (sy.map (stepF a)) = (joinSteps sx sy).map (stepF a)
  | [], sy => by simp [joinPaths, joinSteps]
  | x :: xs, [] => by simp [joinPaths, joinSteps]
  | x :: xs, y :: ys => by
    simp only [List.map_cons, joinPaths, joinSteps, stepF]
    split
    · exact joinPaths_map a xs ys
    · simp [stepF]

theorem joinIds_nil_left (qy : List Nat) : joinIds [] qy = qy := by simp [joinIds, cursor]
theorem joinIds_nil_right (qx : List Nat) : joinIds qx [] = qx := by
  cases qx <;> simp [joinIds, cursor]
theorem joinIds_cons (x y : Nat) (xs ys : List Nat) :
    joinIds (x :: xs) (y :: ys) = if x = y then joinIds xs ys else (x :: xs) ++ (y :: ys) := by
  by_cases h : x = y <;> simp [joinIds, cursor, h]

/-- two step lists of the same tree: kid indices agree exactly where node ids agree -/
def Coh : List (Nat × Nat) → List (Nat × Nat) → Prop
  | x :: xs, y :: ys => (x.1 = y.1 ↔ x.2 = y.2) ∧ (x.1 = y.1 → Coh xs ys)
  | _, _ => True

theorem coh_join : ∀ (sx sy : List (Nat × Nat)), Coh sx sy →
    idsOf (joinSteps sx sy) = joinIds (idsOf sx) (idsOf sy)
  | [], sy, _ => by simp [joinSteps, idsOf, joinIds_nil_left]
  | x :: xs, [], _ => by simp [joinSteps, idsOf, joinIds_nil_right]
  | x :: xs, y :: ys, h => by
    simp only [Coh] at h
    simp only [joinSteps, idsOf, List.map_cons, joinIds_cons]
    by_cases h1 : x.1 = y.1
    · have h2 : x.2 = y.2 := h.1.1 h1
      have := coh_join xs ys (h.2 h1)
      simp only [idsOf] at this
      simp [h1, h2, this]
    · have h2 : ¬ x.2 = y.2 := fun e => h1 (h.1.2 e)
      simp [h1, h2]

theorem tipStepsL_head {a : Arena} : ∀ (j : Nat) (ts : List RTI) (cs : List Nat), RepL a cs ts →
    ∀ s ∈ tipStepsL j ts, ∃ j' c rest, s = (j', c) :: rest ∧ j ≤ j' ∧ c ∈ cs
  | _, [], _, _, s, hs => by simp [tipStepsL] at hs
  | j, t :: ts, cs, h, s, hs => by
    cases cs with
    | nil => simp [RepL] at h
    | cons c cs =>
      simp only [RepL] at h
      simp only [tipStepsL, List.mem_append, List.mem_map] at hs
      rcases hs with ⟨s', _, rfl⟩ | hs
      · exact ⟨j, c, s', by rw [h.1.id_eq], Nat.le_refl _, by simp⟩
      · obtain ⟨j', c', rest, e, hj, hc⟩ := tipStepsL_head (j + 1) ts cs h.2 s hs
        exact ⟨j', c', rest, e, by omega, by simp [hc]⟩

mutual
theorem tipSteps_coh {a : Arena} {rk : Nat → Nat} (w : W a rk) : ∀ (t : RTI) (i : Nat), Rep a i t →
    ∀ sx ∈ tipSteps t, ∀ sy ∈ tipSteps t, Coh sx sy
  | .node j [], i, _, sx, hx, sy, _ => by
    simp only [tipSteps, List.mem_singleton] at hx
    subst hx
    simp [Coh]
  | .node j (k :: ks), i, h, sx, hx, sy, hy => by
    simp only [Rep] at h
    obtain ⟨rfl, _, hk⟩ := h
    rw [tipSteps] at hx hy
    exact tipStepsL_coh w 0 (k :: ks) _ (w.nodup i) hk sx hx sy hy
theorem tipStepsL_coh {a : Arena} {rk : Nat → Nat} (w : W a rk) : ∀ (j : Nat) (ts : List RTI) (cs : List Nat),
    cs.Nodup → RepL a cs ts → ∀ sx ∈ tipStepsL j ts, ∀ sy ∈ tipStepsL j ts, Coh sx sy
  | _, [], _, _, _, sx, hx, _, _ => by simp [tipStepsL] at hx
  | j, t :: ts, cs, hnd, h, sx, hx, sy, hy => by
    cases cs with
    | nil => simp [RepL] at h
    | cons c cs =>
      simp only [RepL] at h
      simp only [List.nodup_cons] at hnd
      simp only [tipStepsL, List.mem_append, List.mem_map] at hx hy
      have hid := h.1.id_eq
      rcases hx with ⟨sx', hx', rfl⟩ | hx <;> rcases hy with ⟨sy', hy', rfl⟩ | hy
      · simp only [Coh, true_and]
        exact fun _ => tipSteps_coh w t c h.1 sx' hx' sy' hy'
      · obtain ⟨j', c', rest, rfl, hj, hc⟩ := tipStepsL_head (j + 1) ts cs h.2 sy hy
        have h1 : ¬ j = j' := by omega
        have h2 : ¬ t.id = c' := by rw [hid]; intro e; exact hnd.1 (e ▸ hc)
        simp [Coh, h1, h2]
      · obtain ⟨j', c', rest, rfl, hj, hc⟩ := tipStepsL_head (j + 1) ts cs h.2 sx hx
        have h1 : ¬ j' = j := by omega
        have h2 : ¬ c' = t.id := by rw [hid]; intro e; exact hnd.1 (e ▸ hc)
        simp [Coh, h1, h2]
      · exact tipStepsL_coh w (j + 1) ts cs hnd.2 h.2 sx hx sy hy
end

/-! ### unordered pairs -/

theorem pairsOf_eq : ∀ l : List Nat, pairsOf l = pairsOfG l
  | [] => rfl
  | x :: xs => by rw [pairsOf, pairsOfG, pairsOf_eq xs]

theorem pairsOfG_map {α β : Type} (f : α → β) : ∀ l : List α,
    pairsOfG (l.map f) = (pairsOfG l).map (fun pq => (f pq.1, f pq.2))
  | [] => rfl
  | x :: xs => by
    simp only [List.map_cons, pairsOfG, List.map_append, List.map_map, pairsOfG_map f xs]
    rfl

theorem mem_pairsOfG {α : Type} : ∀ (l : List α) (x y : α), (x, y) ∈ pairsOfG l → x ∈ l ∧ y ∈ l
  | [], _, _, h => by simp [pairsOfG] at h
  | z :: zs, x, y, h => by
    simp only [pairsOfG, List.mem_append, List.mem_map, Prod.mk.injEq] at h
    rcases h with ⟨w, hw, rfl, rfl⟩ | h
    · simp [hw]
    · have := mem_pairsOfG zs x y h
      simp [this.1, this.2]

theorem mem_pairsOfG_ne {α : Type} : ∀ (l : List α), l.Nodup → ∀ (x y : α), (x, y) ∈ pairsOfG l → x ≠ y
  | [], _, _, _, h => by simp [pairsOfG] at h
  | z :: zs, hnd, x, y, h => by
    simp only [List.nodup_cons] at hnd
    simp only [pairsOfG, List.mem_append, List.mem_map, Prod.mk.injEq] at h
    rcases h with ⟨w, hw, rfl, rfl⟩ | h
    · intro e; exact hnd.1 (e ▸ hw)
    · exact mem_pairsOfG_ne zs hnd.2 x y h

theorem pairsOfG_total {α : Type} : ∀ (l : List α) (x y : α), x ∈ l → y ∈ l → x ≠ y →
    (x, y) ∈ pairsOfG l ∨ (y, x) ∈ pairsOfG l
  | [], _, _, h, _, _ => by simp at h
  | z :: zs, x, y, hx, hy, hne => by
    simp only [pairsOfG, List.mem_append, List.mem_map, Prod.mk.injEq]
    rcases List.mem_cons.mp hx with rfl | hx' <;> rcases List.mem_cons.mp hy with rfl | hy'
    · exact absurd rfl hne
    · exact Or.inl (Or.inl ⟨y, hy', rfl, rfl⟩)
    · exact Or.inr (Or.inl ⟨x, hx', rfl, rfl⟩)
    · rcases pairsOfG_total zs x y hx' hy' hne with h | h
      · exact Or.inl (Or.inr h)
      · exact Or.inr (Or.inr h)

/-! ### the reported value is symmetric -/

theorem optSum_perm {l1 l2 : List (Option Int)} (h : l1.Perm l2) : optSum l1 = optSum l2 := by
  rw [C09.optSum_spec, C09.optSum_spec, perm_all h, perm_sum_int (h.map (·.getD 0))]

theorem edgesOf_perm (a : Arena) {l1 l2 : List Nat} (h : l1.Perm l2) : edgesOf a l1 = edgesOf a l2 := by
  simp only [edgesOf, optSum_perm (h.map _), h.length_eq]

theorem cursor_comm : ∀ (x y : List Nat), cursor x y = cursor y x
  | [], [] => rfl
  | [], _ :: _ => rfl
  | _ :: _, [] => rfl
  | u :: us, v :: vs => by
    simp only [cursor]
    by_cases h : u = v
    · subst h; simp [cursor_comm us vs]
    · have : ¬ v = u := fun h' => h h'.symm
      simp [h, this]

theorem joinIds_perm (qx qy : List Nat) : (joinIds qx qy).Perm (joinIds qy qx) := by
  simp only [joinIds, cursor_comm qy qx]
  exact List.perm_append_comm

/-! ### diameter -/

def pairDist (a : Arena) (unit : Int) (xy : Nat × Nat) : Int := distOr unit (distance a xy.1 xy.2)

theorem diameter_eq (a : Arena) (unit : Int) : diameter a unit = (do
    let ds ← (pairsOfG (leaves a)).mapM (fun xy => do let d ← distance a xy.1 xy.2; pure (distVal unit d))
    QR.ofOpt (maxOf ds) "IsEmpty") := by
  rw [diameter, pairsOf_eq]

/-- `diameter`: the largest tip-to-tip path length of the tree (sum of branch lengths, edge count when a
    length on the path is absent); refused on a tree with fewer than two tips -/
theorem diameter_refines {a : Arena} (g : Good a) (h1 : AtMostOneRoot a) {t : Rose} (h : absRoot a = .ok t)
    (unit : Int) : diameter a unit = QR.ofOpt (diameterR unit t) "IsEmpty" := by
  obtain ⟨r, t0, c⟩ := absRoot_ctx g h1 h
  have w := g.1.toW
  have hroot : Path a [r] r := Path.root c.is_root.1 c.is_root.2
  have hpath := tipSteps_path w t0 r [r] c.rep hroot
  have hends := tipSteps_ends a t0 r c.rep
  have hperm := leaves_perm_ctx c
  have hTnd : ((pre t0).filter (tipp a)).Nodup := c.nodup.sublist List.filter_sublist
  have hLnd : (leaves a).Nodup := hperm.nodup_iff.2 hTnd
  let endr : List (Nat × Nat) → Nat := fun s => endOf r (idsOf s)
  let hval : List (Nat × Nat) × List (Nat × Nat) → Int :=
    fun pq => distVal unit (edgesOf a (joinIds (idsOf pq.1) (idsOf pq.2)))
  -- value of a distance query between the ends of two step lists
  have hdist : ∀ sx ∈ tipSteps t0, ∀ sy ∈ tipSteps t0, endr sx ≠ endr sy →
      distance a (endr sx) (endr sy) = .ok (edgesOf a (joinIds (idsOf sx) (idsOf sy))) := by
    intro sx hx sy hy hne
    exact distance_paths w (hpath sx hx) (hpath sy hy) hne
  have hsymm : ∀ sx sy, hval (sx, sy) = hval (sy, sx) := by
    intro sx sy
    simp only [hval, edgesOf_perm a (joinIds_perm (idsOf sx) (idsOf sy))]
  have hmemT : ∀ x, x ∈ leaves a → ∃ s ∈ tipSteps t0, endr s = x := by
    intro x hx
    have := hperm.mem_iff.1 hx
    rw [← hends, List.mem_map] at this
    exact this
  -- every query succeeds
  have hm : (pairsOfG (leaves a)).mapM (fun xy => do let d ← distance a xy.1 xy.2; pure (distVal unit d))
      = .ok ((pairsOfG (leaves a)).map (pairDist a unit)) := by
    apply mapM_ok
    intro ⟨x, y⟩ hxy
    have hne := mem_pairsOfG_ne _ hLnd x y hxy
    obtain ⟨hx, hy⟩ := mem_pairsOfG _ x y hxy
    obtain ⟨sx, hsx, rfl⟩ := hmemT x hx
    obtain ⟨sy, hsy, rfl⟩ := hmemT y hy
    simp [pairDist, hdist sx hsx sy hsy hne, distOr]
  rw [diameter_eq, hm]
  simp only [QR.bind_ok]
  congr 1
  -- tree side
  have htree : diameterR unit t = maxOf ((pairsOfG (tipSteps t0)).map hval) := by
    rw [c.dec, diameterR, diameterNL, ← dec, tipPathsNL_dec, pairsOfG_map, List.map_map]
    congr 1
    apply List.map_congr_left
    intro ⟨sx, sy⟩ hxy
    obtain ⟨hx, hy⟩ := mem_pairsOfG _ sx sy hxy
    have hc := tipSteps_coh w t0 r c.rep sx hx sy hy
    simp only [Function.comp, joinPaths_map, pathLen_steps, coh_join sx sy hc, hval]
  rw [htree]
  apply maxOf_ext
  intro v
  simp only [List.mem_map]
  constructor
  · rintro ⟨⟨x, y⟩, hxy, rfl⟩
    have hne := mem_pairsOfG_ne _ hLnd x y hxy
    obtain ⟨hx, hy⟩ := mem_pairsOfG _ x y hxy
    obtain ⟨sx, hsx, rfl⟩ := hmemT x hx
    obtain ⟨sy, hsy, rfl⟩ := hmemT y hy
    have hv : pairDist a unit (endr sx, endr sy) = hval (sx, sy) := by
      simp [pairDist, hdist sx hsx sy hsy hne, distOr, hval]
    have hss : sx ≠ sy := fun e => hne (by rw [e])
    rcases pairsOfG_total _ sx sy hsx hsy hss with hp | hp
    · exact ⟨(sx, sy), hp, hv.symm⟩
    · exact ⟨(sy, sx), hp, by rw [hv, hsymm]⟩
  · rintro ⟨⟨sx, sy⟩, hxy, rfl⟩
    obtain ⟨hsx, hsy⟩ := mem_pairsOfG _ sx sy hxy
    have hin : (endr sx, endr sy) ∈ pairsOfG ((tipSteps t0).map endr) := by
      rw [pairsOfG_map, List.mem_map]
      exact ⟨(sx, sy), hxy, rfl⟩
    have hends' : (tipSteps t0).map endr = (pre t0).filter (tipp a) := hends
    rw [hends'] at hin
    have hne := mem_pairsOfG_ne _ hTnd _ _ hin
    obtain ⟨hx, hy⟩ := mem_pairsOfG _ _ _ hin
    have hx' := hperm.mem_iff.2 hx
    have hy' := hperm.mem_iff.2 hy
    have hv : pairDist a unit (endr sx, endr sy) = hval (sx, sy) := by
      simp [pairDist, hdist sx hsx sy hsy hne, distOr, hval]
    have hv' : pairDist a unit (endr sy, endr sx) = hval (sy, sx) := by
      simp [pairDist, hdist sy hsy sx hsx (Ne.symm hne), distOr, hval]
    rcases pairsOfG_total _ _ _ hx' hy' hne with hp | hp
    · exact ⟨(endr sx, endr sy), hp, hv⟩
    · exact ⟨(endr sy, endr sx), hp, by rw [hv', hsymm]⟩

end AR
