import PhyloModel.Arena.QueryRefine
import PhyloModel.Arena.AnswersDependOnTree
/-! # C12, assembled

For every well-formed arena with one root and abstract tree `t`, the shape statistics the executable model
computes by scanning the arena slots equal the textbook values of `Arena/RoseStats.lean` computed from the
topology and branch lengths of `t`; the balance indices are refused on unrooted or non-binary trees. -/
namespace AR

theorem C12_statistics {a : Arena} (g : Good a) (h1 : AtMostOneRoot a) {t : Rose} (h : absRoot a = .ok t) :
    nLeaves a = nLeavesR t ∧
    isRooted a = .ok (isRootedR t) ∧
    isBinary a = .ok (isBinaryR t) ∧
    totalLength a = QR.ofOpt (totalLengthR t) "MissingBranchLengths" ∧
    (∀ u, diameter a u = QR.ofOpt (diameterR u t) "IsEmpty") ∧
    (∀ u, treeHeight a u = if !isRootedR t then .err "IsNotRooted" else QR.ofOpt (heightR u t) "IsEmpty") ∧
    cherries a = (if isBinaryR t then .ok (cherriesR t) else .err "IsNotBinary") ∧
    colless a = (do checkRBR t; pure (collessR t)) ∧
    sackin a = (do checkRBR t; pure (sackinR t)) :=
  ⟨nLeaves_refines g h1 h, isRooted_refines g h1 h, isBinary_refines g h1 h, totalLength_refines g h1 h,
    fun u => diameter_refines g h1 h u, fun u => treeHeight_refines g h1 h u, cherries_refines g h1 h,
    colless_refines g h1 h, sackin_refines g h1 h⟩

/-- on a rooted binary tree the three indices are the textbook values ... -/
theorem C12_indices_defined {a : Arena} (g : Good a) (h1 : AtMostOneRoot a) {t : Rose} (h : absRoot a = .ok t)
    (hr : isRootedR t = true) (hb : isBinaryR t = true) :
    cherries a = .ok (cherriesR t) ∧ colless a = .ok (collessR t) ∧ sackin a = .ok (sackinR t) := by
  refine ⟨?_, ?_, ?_⟩
  · rw [cherries_refines g h1 h, hb]; rfl
  · rw [colless_refines g h1 h]; simp [checkRBR, hr, hb]
  · rw [sackin_refines g h1 h]; simp [checkRBR, hr, hb]

/-- ... and they are refused otherwise -/
theorem C12_indices_refused {a : Arena} (g : Good a) (h1 : AtMostOneRoot a) {t : Rose} (h : absRoot a = .ok t) :
    (isRootedR t = false → colless a = .err "IsNotRooted" ∧ sackin a = .err "IsNotRooted" ∧
      ∀ u, treeHeight a u = .err "IsNotRooted") ∧
    (isRootedR t = true → isBinaryR t = false → colless a = .err "IsNotBinary" ∧ sackin a = .err "IsNotBinary") ∧
    (isBinaryR t = false → cherries a = .err "IsNotBinary") := by
  refine ⟨fun hr => ⟨?_, ?_, fun u => ?_⟩, fun hr hb => ⟨?_, ?_⟩, fun hb => ?_⟩
  · rw [colless_refines g h1 h]; simp [checkRBR, hr]
  · rw [sackin_refines g h1 h]; simp [checkRBR, hr]
  · rw [treeHeight_refines g h1 h, hr]; rfl
  · rw [colless_refines g h1 h]; simp [checkRBR, hr, hb]
  · rw [sackin_refines g h1 h]; simp [checkRBR, hr, hb]
  · rw [cherries_refines g h1 h, hb]; rfl

/-- non-vacuity: on the arena with a tombstone of `AnswersDependOnTree` the cherry `(x:3,y:4);` has two tips,
    one cherry, Colless 0, Sackin 2, length 7, height 4, diameter 7 — by the theorem and by evaluation -/
example : nLeaves exB = 2 ∧ cherries exB = .ok 1 ∧ colless exB = .ok 0 ∧ sackin exB = .ok 2 := by
  obtain ⟨k1, _, _, _, _, _, _, _, _⟩ := C12_statistics exB_ok.1 exB_ok.2 exB_abs
  have hr : isRootedR exTb = true := by decide
  have hb : isBinaryR exTb = true := by decide
  obtain ⟨c1, c2, c3⟩ := C12_indices_defined exB_ok.1 exB_ok.2 exB_abs hr hb
  have e1 : cherriesR exTb = 1 := by decide
  have e2 : collessR exTb = 0 := by decide
  have e3 : sackinR exTb = 2 := by decide
  refine ⟨by rw [k1]; decide, by rw [c1, e1], by rw [c2, e2], by rw [c3, e3]⟩

end AR
