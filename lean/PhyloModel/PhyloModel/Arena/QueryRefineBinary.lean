import PhyloModel.Arena.QueryRefineBase
/-! `is_binary`, `cherries`, `length` as functions of the abstract tree -/
namespace AR

theorem pre_eq (t : RTI) : pre t = t.id :: preL t.kids := by cases t; simp [pre, RTI.id, RTI.kids]

/-- facts about the slots of an arena relative to its tree: the root comes first, every other node of the
    tree is live with a parent, every slot outside the tree is a blank tombstone -/
theorem RootCtx.pre_eq {a : Arena} {t : Rose} {r : Nat} {t0 : RTI} (c : RootCtx a t r t0) :
    pre t0 = r :: preL t0.kids := by rw [AR.pre_eq, t0_id c]

theorem RootCtx.nonroot {a : Arena} {t : Rose} {r : Nat} {t0 : RTI} (c : RootCtx a t r t0) (i : Nat)
    (hi : i ∈ preL t0.kids) : live a i ∧ (nd a i).parent ≠ none ∧ i ≠ r := by
  have hnd := c.nodup
  rw [c.pre_eq, List.nodup_cons] at hnd
  have hl : live a i := (c.mem i).1 (by rw [c.pre_eq]; simp [hi])
  have hne : i ≠ r := fun e => hnd.1 (e ▸ hi)
  exact ⟨hl, fun hp => hne (c.only_root i hl hp), hne⟩

theorem RootCtx.cases_slot {a : Arena} {t : Rose} {r : Nat} {t0 : RTI} (c : RootCtx a t r t0) (g : Good a)
    (i : Nat) : i = r ∨ i ∈ preL t0.kids ∨ ((nd a i).children = [] ∧ (nd a i).parent = none ∧ ¬ live a i) := by
  by_cases hl : live a i
  · have := (c.mem i).2 hl
    rw [c.pre_eq, List.mem_cons] at this
    rcases this with h | h
    · exact Or.inl h
    · exact Or.inr (Or.inl h)
  · right; right
    by_cases hs : i < a.size
    · have hd : (nd a i).deleted = true := by
        cases hdd : (nd a i).deleted with
        | true => rfl
        | false => exact absurd ⟨hs, hdd⟩ hl
      have := g.2 i hd
      exact ⟨this.1, this.2.1, hl⟩
    · rw [nd_dead a i (by omega)]
      exact ⟨rfl, rfl, hl⟩

/-! ### binarity -/

theorem all_eq_of_map_eq {α β : Type} {l1 : List α} {l2 : List β} {f : α → Bool} {g : β → Bool}
    (h : l1.map f = l2.map g) : l1.all f = l2.all g := by
  have e1 : l1.all f = (l1.map f).all id := by rw [List.all_map]; rfl
  have e2 : l2.all g = (l2.map g).all id := by rw [List.all_map]; rfl
  rw [e1, e2, h]

def binClause (a : Arena) (rooted : Bool) (i : Nat) : Bool :=
  if (nd a i).parent.isNone then
    !((rooted && decide ((nd a i).children.length > 2)) || (!rooted && decide ((nd a i).children.length > 3)))
  else decide ((nd a i).children.length ≤ 2)

theorem isBinary_eq {a : Arena} {t : Rose} {r : Nat} {t0 : RTI} (c : RootCtx a t r t0) :
    isBinary a = .ok ((List.range a.size).all (binClause a ((nd a r).children.length == 2))) := by
  have := size_ne_zero c
  simp only [isBinary, this, ↓reduceIte, isRooted_ctx c, QR.bind_ok, QR.pure_eq]
  rfl

theorem isBinary_ctx {a : Arena} {t : Rose} {r : Nat} {t0 : RTI} (c : RootCtx a t r t0) (g : Good a) :
    isBinary a = .ok (decide ((nd a r).children.length ≤ 3) &&
      (preL t0.kids).all (fun i => decide ((nd a i).children.length ≤ 2))) := by
  rw [isBinary_eq c]
  congr 1
  have hroot : binClause a ((nd a r).children.length == 2) r = decide ((nd a r).children.length ≤ 3) := by
    simp only [binClause, c.is_root.2, Option.isNone_none, ↓reduceIte]
    exact C12.root_binarity_test _
  have hnon : ∀ i ∈ preL t0.kids, binClause a ((nd a r).children.length == 2) i
      = decide ((nd a i).children.length ≤ 2) := by
    intro i hi
    have := (c.nonroot i hi).2.1
    cases hp : (nd a i).parent with
    | none => exact absurd hp this
    | some p => simp [binClause, hp]
  have hdead : ∀ i, (nd a i).children = [] → (nd a i).parent = none →
      binClause a ((nd a r).children.length == 2) i = true := by
    intro i h1 h2
    simp [binClause, h1, h2]
  rw [Bool.eq_iff_iff]
  simp only [List.all_eq_true, Bool.and_eq_true]
  constructor
  · intro h
    refine ⟨?_, ?_⟩
    · rw [← hroot]; exact h r (List.mem_range.2 c.is_root.1.1)
    · intro i hi
      rw [← hnon i hi]
      exact h i (List.mem_range.2 (c.nonroot i hi).1.1)
  · intro ⟨h1, h2⟩ i _
    rcases c.cases_slot g i with rfl | hi | ⟨hc, hp, _⟩
    · rw [hroot]; exact h1
    · rw [hnon i hi]; exact h2 i hi
    · exact hdead i hc hp

theorem isBinaryNL_dec {a : Arena} {t : Rose} {r : Nat} {t0 : RTI} (c : RootCtx a t r t0) :
    isBinaryNL (dec a t0) = (decide ((nd a r).children.length ≤ 3) &&
      (preL t0.kids).all (fun i => decide ((nd a i).children.length ≤ 2))) := by
  have h0 := dec_kids_len (rep' c)
  rw [t0_id c] at h0
  rw [isBinaryNL, h0, dec_kids, nodesNLL_map_dec]
  congr 1
  have hl : ∀ s0 ∈ subsL t0.kids, Rep a s0.id s0 := subsL_rep _ _ c.rep.kids_rep
  have := list_map (a := a) (dec a) (fun s => decide (s.kids.length ≤ 2))
    (fun i => decide ((nd a i).children.length ≤ 2)) (fun s0 h0 => by simp only [dec_kids_len h0])
    (subsL t0.kids) hl
  rw [subsL_ids] at this
  exact all_eq_of_map_eq this

/-- `is_binary`: every non-root node of the tree has at most two kids, the root at most three -/
theorem isBinary_refines {a : Arena} (g : Good a) (h1 : AtMostOneRoot a) {t : Rose} (h : absRoot a = .ok t) :
    isBinary a = .ok (isBinaryR t) := by
  obtain ⟨r, t0, c⟩ := absRoot_ctx g h1 h
  rw [isBinary_ctx c g, c.dec, isBinaryR, ← dec, isBinaryNL_dec c]

/-! ### cherries -/

def cherryp (a : Arena) (i : Nat) : Bool :=
  match (nd a i).children with
  | [x, y] => tipp a x && tipp a y
  | _ => false

theorem cherries_eq (a : Arena) (hs : a.size ≠ 0) (b : Bool) (hb : isBinary a = .ok b) :
    cherries a = if b then .ok ((List.range a.size).filter (cherryp a)).length else .err "IsNotBinary" := by
  simp only [cherries, hb, QR.bind_ok, hs, ↓reduceIte, QR.pure_eq]
  cases b with
  | false => rfl
  | true =>
    simp only [Bool.not_true, Bool.false_eq_true, ↓reduceIte]
    congr 2

theorem isCherry_dec {a : Arena} {s0 : RTI} (h : Rep a s0.id s0) : (dec a s0).isCherry = cherryp a s0.id := by
  have hk := h.kids_ids
  have hkid := h.kid
  simp only [RoseNL.isCherry, cherryp, dec_kids, ← hk]
  match hm : s0.kids with
  | [] => simp
  | [x] => simp
  | [x, y] =>
    have hx := hkid x (by simp [hm])
    have hy := hkid y (by simp [hm])
    simp [dec_isTip hx, dec_isTip hy, tipp]
  | x :: y :: z :: rest => simp

theorem cherriesNL_dec {a : Arena} {i : Nat} {t0 : RTI} (h : Rep a i t0) :
    cherriesNL (dec a t0) = ((pre t0).filter (cherryp a)).length := by
  have := list_filter_map (a := a) (dec a) RoseNL.isCherry (cherryp a) (fun _ => ()) (fun _ => ())
    (fun s0 h0 => isCherry_dec h0) (fun _ _ => rfl) (subs t0) (subs_rep t0 i h)
  have := congrArg List.length this
  simpa [cherriesNL, nodesNL_dec, subs_ids] using this

/-- `cherries`: refused on non-binary trees, otherwise the number of nodes with exactly two kids, both tips -/
theorem cherries_refines {a : Arena} (g : Good a) (h1 : AtMostOneRoot a) {t : Rose} (h : absRoot a = .ok t) :
    cherries a = if isBinaryR t then .ok (cherriesR t) else .err "IsNotBinary" := by
  obtain ⟨r, t0, c⟩ := absRoot_ctx g h1 h
  rw [cherries_eq a (size_ne_zero c) _ (isBinary_refines g h1 h)]
  split
  · congr 1
    rw [c.dec, cherriesR, ← dec, cherriesNL_dec c.rep]
    apply List.Perm.length_eq
    apply scan_perm' c
    intro i hi hp
    rcases c.cases_slot g i with rfl | hi' | ⟨hc, _, _⟩
    · exact (isLive_iff a i).2 c.is_root.1
    · exact (isLive_iff a i).2 (c.nonroot i hi').1
    · simp [cherryp, hc] at hp
  · rfl

/-! ### total length -/

def optTotal (es : List (Option Int)) : Option Int :=
  if es.all Option.isSome then some (es.map (·.getD 0)).sum else none

theorem perm_sum_int {l1 l2 : List Int} (h : l1.Perm l2) : l1.sum = l2.sum := by
  induction h with
  | nil => rfl
  | cons x _ ih => simp [ih]
  | swap x y l => simp only [List.sum_cons]; omega
  | trans _ _ ih1 ih2 => rw [ih1, ih2]

theorem perm_all {α : Type} {l1 l2 : List α} (h : l1.Perm l2) (p : α → Bool) : l1.all p = l2.all p := by
  rw [Bool.eq_iff_iff]
  simp only [List.all_eq_true]
  exact ⟨fun k x hx => k x (h.mem_iff.2 hx), fun k x hx => k x (h.mem_iff.1 hx)⟩

theorem optTotal_perm {l1 l2 : List (Option Int)} (h : l1.Perm l2) : optTotal l1 = optTotal l2 := by
  simp only [optTotal, perm_all h, perm_sum_int (h.map (·.getD 0))]

theorem totalLength_eq (a : Arena) : totalLength a = QR.ofOpt (optTotal
    (((List.range a.size).filter (fun i => (nd a i).parent.isSome)).map (fun i => (nd a i).pedge)))
    "MissingBranchLengths" := by
  simp only [totalLength, optTotal]
  split <;> rfl

theorem totalLengthNL_dec {a : Arena} {i : Nat} {t0 : RTI} (h : Rep a i t0) :
    totalLengthNL (dec a t0) = optTotal ((preL t0.kids).map (fun i => (nd a i).pedge)) := by
  have := list_map (a := a) (dec a) RoseNL.len (fun i => (nd a i).pedge) (fun s0 _ => by simp)
    (subsL t0.kids) (subsL_rep _ _ h.kids_rep)
  rw [subsL_ids] at this
  simp only [totalLengthNL, optTotal, dec_kids, nodesNLL_map_dec, this]

/-- `length`: the sum of the branch lengths of all non-root nodes of the tree, refused when one is missing -/
theorem totalLength_refines {a : Arena} (g : Good a) (h1 : AtMostOneRoot a) {t : Rose} (h : absRoot a = .ok t) :
    totalLength a = QR.ofOpt (totalLengthR t) "MissingBranchLengths" := by
  obtain ⟨r, t0, c⟩ := absRoot_ctx g h1 h
  rw [totalLength_eq, c.dec, totalLengthR, ← dec, totalLengthNL_dec c.rep]
  congr 1
  apply optTotal_perm
  apply List.Perm.map
  have hp := scan_perm' c (fun i => (nd a i).parent.isSome) (by
    intro i _ hp
    rcases c.cases_slot g i with rfl | hi' | ⟨_, hpn, _⟩
    · exact (isLive_iff a i).2 c.is_root.1
    · exact (isLive_iff a i).2 (c.nonroot i hi').1
    · simp [hpn] at hp)
  have e : (pre t0).filter (fun i => (nd a i).parent.isSome) = preL t0.kids := by
    rw [c.pre_eq, List.filter_cons]
    simp only [c.is_root.2, Option.isSome_none, Bool.false_eq_true, ↓reduceIte]
    rw [List.filter_eq_self]
    intro i hi
    have := (c.nonroot i hi).2.1
    cases hpp : (nd a i).parent with
    | none => exact absurd hpp this
    | some _ => rfl
  rw [e] at hp
  exact hp

end AR
