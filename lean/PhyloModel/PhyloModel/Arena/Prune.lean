import PhyloModel.Arena.Basic
/-! Scratch prototype: `prune` preserves the arena invariant -/
namespace AR

def Tomb (a : Arena) : Prop :=
  ∀ i, (nd a i).deleted = true → (nd a i).children = [] ∧ (nd a i).parent = none ∧ (nd a i).cedges = []

/-- `Node::remove_child` (caller checked membership) -/
def removeChild (n : Node) (c : Nat) : Node :=
  { n with children := n.children.erase c, cedges := alErase n.cedges c }

/-- last two statements of `Tree::prune`: unlink from parent, tombstone -/
def finish (a : Arena) (x : Nat) : Arena :=
  let a1 := match (nd a x).parent with
    | some p => a.setIfInBounds p (removeChild (nd a p) x)
    | none => a
  a1.setIfInBounds x dead

theorem nd_dead' (a : Arena) (i : Nat) (h : a.size ≤ i) : nd a i = dead := nd_dead a i h

theorem live_lt {a : Arena} {i : Nat} (h : live a i) : i < a.size := h.1

theorem alGet_alErase_isSome (l : List (Nat × Int)) (c d : Nat) :
    (alGet (alErase l c) d).isSome → (alGet l d).isSome ∧ d ≠ c := by
  rw [alGet_erase]; split <;> simp_all

/-- removing a childless live node keeps the invariant -/
theorem finish_inv (a : Arena) (x : Nat) (hinv : Inv a) (ht : Tomb a) (hx : live a x)
    (hleaf : (nd a x).children = []) :
    Inv (finish a x) ∧ Tomb (finish a x) ∧ (finish a x).size = a.size := by
  have hc := hinv.child_ok
  have hpo := hinv.parent_ok
  have hnd := hinv.nodup
  have hrd := hinv.root_depth
  have hcd := hinv.cedge_dom
  cases hpar : (nd a x).parent with
  | none =>
    have hfin : finish a x = a.setIfInBounds x dead := by simp [finish, hpar]
    rw [hfin]
    refine ⟨⟨?_, ?_, ?_, ?_, ?_⟩, ?_, by simp⟩
    · intro i c hl hmem
      simp only [live, nd_set, Array.size_setIfInBounds] at hl hmem ⊢
      have := hc i c; have := hpo c x
      simp only [live] at *
      grind [dead]
    · intro i q hl hq
      simp only [live, nd_set, Array.size_setIfInBounds] at hl hq ⊢
      have := hpo i q
      simp only [live] at *
      grind [dead]
    · intro i; simp only [nd_set]; have := hnd i; grind [dead]
    · intro i hl hq
      simp only [live, nd_set, Array.size_setIfInBounds] at hl hq ⊢
      have := hrd i
      simp only [live] at *
      grind [dead]
    · intro i c hs
      simp only [nd_set] at hs ⊢
      have := hcd i c
      grind [dead, alGet]
    · intro i hd
      simp only [nd_set] at hd ⊢
      have := ht i
      grind [dead]
  | some p =>
    have ⟨hlp, hxp⟩ := hpo x p hx hpar
    have hpx : p ≠ x := by
      intro h; subst h
      have := (hc p p hlp hxp).2.2.1; omega
    have hfin : finish a x = (a.setIfInBounds p (removeChild (nd a p) x)).setIfInBounds x dead := by
      simp [finish, hpar]
    rw [hfin]
    have hndp := hnd p
    refine ⟨⟨?_, ?_, ?_, ?_, ?_⟩, ?_, by simp⟩
    · intro i c hl hmem
      simp only [live, nd_set, Array.size_setIfInBounds] at hl hmem ⊢
      have h1 := hc i c; have h2 := hpo c x; have h3 := hc p c
      have h4 : ∀ c, c ∈ (nd a p).children.erase x → c ∈ (nd a p).children ∧ c ≠ x := by
        intro c hc'; exact ⟨List.mem_of_mem_erase hc', fun h => by subst h; exact (List.Nodup.not_mem_erase hndp) hc'⟩
      have h5 := alGet_erase (nd a p).cedges x c
      simp only [live] at *
      grind [dead, removeChild]
    · intro i q hl hq
      simp only [live, nd_set, Array.size_setIfInBounds] at hl hq ⊢
      have := hpo i q
      have h4 : ∀ c, c ∈ (nd a p).children → c ≠ x → c ∈ (nd a p).children.erase x := by
        intro c hc' hne; exact (List.mem_erase_of_ne hne).2 hc'
      simp only [live] at *
      grind [dead, removeChild]
    · intro i; simp only [nd_set]; have := hnd i
      have : ((nd a p).children.erase x).Nodup := List.Nodup.erase _ hndp
      grind [dead, removeChild]
    · intro i hl hq
      simp only [live, nd_set, Array.size_setIfInBounds] at hl hq ⊢
      have := hrd i
      simp only [live] at *
      grind [dead, removeChild]
    · intro i c hs
      simp only [nd_set] at hs ⊢
      have := hcd i c
      have h5 := alGet_alErase_isSome (nd a p).cedges x c
      have h4 : ∀ c, c ∈ (nd a p).children → c ≠ x → c ∈ (nd a p).children.erase x := by
        intro c hc' hne; exact (List.mem_erase_of_ne hne).2 hc'
      grind [dead, removeChild, alGet]
    · intro i hd
      simp only [nd_set] at hd ⊢
      have := ht i
      grind [dead, removeChild]

end AR
