import PhyloModel.Arena.DistRescale
import PhyloModel.Arena.ResolvePost
/-! C11, `ladderize`: only the order inside child lists changes, so every answer of `get_distance`
    (length, edge count, errors) is unchanged.  No invariant is needed. -/
namespace AR

/-- two arenas that differ only in the order of child lists answer `get_distance` identically -/
theorem PermKids.distance {a b : Arena} (h : PermKids a b) (x y : Nat) : distance b x y = distance a x y := by
  have hpath : ∀ z, pathFromRoot b z = pathFromRoot a z :=
    pathFromRoot_congr h.1 (fun i => (h.2 i).2.1) (fun i => (h.2 i).2.2.2.2.1)
  have hpe : (fun i => (nd b i).pedge) = (fun i => (nd a i).pedge) := funext fun i => (h.2 i).2.2.1
  unfold AR.distance
  simp only [hpath, hpe]

/-- **`ladderize` keeps every node-to-node distance**, for all node ids and every outcome -/
theorem ladderize_distance (a : Arena) (x y : Nat) : distance (ladderize a).1 x y = distance a x y :=
  (ladderize_frame a).distance x y

/-- ... and the root paths and common ancestors -/
theorem ladderize_pathFromRoot (a : Arena) (x : Nat) : pathFromRoot (ladderize a).1 x = pathFromRoot a x :=
  pathFromRoot_congr (ladderize_frame a).1 (fun i => ((ladderize_frame a).2 i).2.1)
    (fun i => ((ladderize_frame a).2 i).2.2.2.2.1) x

theorem ladderize_commonAncestor (a : Arena) (x y : Nat) :
    commonAncestor (ladderize a).1 x y = commonAncestor a x y := by
  unfold commonAncestor
  simp only [ladderize_pathFromRoot]

end AR
