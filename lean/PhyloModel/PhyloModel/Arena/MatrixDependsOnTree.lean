import PhyloModel.Arena.Rename
import PhyloModel.Dist.Fold
import PhyloModel.Dist.Lemmas
/-! # C04 corollary for the distance matrices

`DMF.dmRecursive` (`Tree::distance_matrix_recursive`) and `DMF.dmRose` (the contributions of
`Tree::distance_matrix`) are computed from the abstract tree through id-keyed tables.  They are invariant
under an injective renaming of the ids, hence two arenas with the same erased tree produce the same taxa
list and the same matrix cells. -/
namespace AR
open DM DMF

mutual
def renameRT (ρ : Nat → Nat) : RT → RT
  | .node i l ks => .node (ρ i) l (renameRTL ρ ks)
def renameRTL (ρ : Nat → Nat) : List RT → List RT
  | [] => []
  | k :: ks => renameRT ρ k :: renameRTL ρ ks
end

@[simp] theorem renameRT_len (ρ : Nat → Nat) (t : RT) : (renameRT ρ t).len = t.len := by
  cases t; simp [renameRT, RT.len]

mutual
theorem absDM_rename (u : Int) (ρ : Nat → Nat) : ∀ t : Rose, absDM u (renameR ρ t) = renameRT ρ (absDM u t)
  | .node i n l d ks => by simp only [renameR, absDM, renameRT, absDML_rename u ρ ks]
theorem absDML_rename (u : Int) (ρ : Nat → Nat) : ∀ ts : List Rose,
    absDM.absDML u (renameRL ρ ts) = renameRTL ρ (absDM.absDML u ts)
  | [] => by simp [renameRL, absDM.absDML, renameRTL]
  | t :: ts => by simp only [renameRL, absDM.absDML, renameRTL, absDM_rename u ρ t, absDML_rename u ρ ts]
end

def rn (ρ : Nat → Nat) (p : Nat × Option String) : Nat × Option String := (ρ p.1, p.2)

mutual
theorem tipsWithNames_rename (ρ : Nat → Nat) : ∀ t : Rose,
    tipsWithNames (renameR ρ t) = (tipsWithNames t).map (rn ρ)
  | .node i n _ _ [] => by simp [renameR, renameRL, tipsWithNames, rn]
  | .node _ _ _ _ (k :: ks) => by
    have := tipsWithNamesL_rename ρ (k :: ks)
    simp only [renameR, renameRL, tipsWithNames] at this ⊢
    exact this
theorem tipsWithNamesL_rename (ρ : Nat → Nat) : ∀ ts : List Rose,
    tipsWithNamesL (renameRL ρ ts) = (tipsWithNamesL ts).map (rn ρ)
  | [] => by simp [renameRL, tipsWithNamesL]
  | t :: ts => by
    simp only [renameRL, tipsWithNamesL, List.map_append, tipsWithNames_rename ρ t, tipsWithNamesL_rename ρ ts]
end

theorem renameR_len (ρ : Nat → Nat) (t : Rose) : (renameR ρ t).len = t.len := by
  cases t; simp [renameR, Rose.len]

mutual
theorem allLens_rename (ρ : Nat → Nat) : ∀ t : Rose, allLens (renameR ρ t) = allLens t
  | .node _ _ _ _ ks => by simp only [renameR, allLens, allLensL_rename ρ ks]
theorem allLensL_rename (ρ : Nat → Nat) : ∀ ts : List Rose, allLensL (renameRL ρ ts) = allLensL ts
  | [] => by simp [renameRL, allLensL]
  | t :: ts => by simp only [renameRL, allLensL, renameR_len, allLens_rename ρ t, allLensL_rename ρ ts]
end

mutual
theorem leafIds_absDM (u : Int) : ∀ t : Rose, leafIds (absDM u t) = (tipsWithNames t).map (·.1)
  | .node i n _ _ [] => by simp [absDM, absDM.absDML, leafIds, tipsWithNames]
  | .node _ _ _ _ (k :: ks) => by
    have := leafIdsL_absDML u (k :: ks)
    simp only [absDM, absDM.absDML, leafIds, tipsWithNames] at this ⊢
    exact this
theorem leafIdsL_absDML (u : Int) : ∀ ts : List Rose,
    leafIdsL (absDM.absDML u ts) = (tipsWithNamesL ts).map (·.1)
  | [] => by simp [absDM.absDML, leafIdsL, tipsWithNamesL]
  | t :: ts => by
    simp only [absDM.absDML, leafIdsL, tipsWithNamesL, List.map_append, leafIds_absDM u t, leafIdsL_absDML u ts]
end

mutual
theorem tips_sub_ids : ∀ t : Rose, ∀ p ∈ tipsWithNames t, p.1 ∈ idsR t
  | .node i n l d [], p, hp => by
    simp only [tipsWithNames, List.mem_singleton] at hp
    subst hp
    simp [idsR_node]
  | .node i n l d (k :: ks), p, hp => by
    rw [tipsWithNames] at hp
    rw [idsR_node]
    exact List.mem_cons_of_mem _ (tipsL_sub_ids (k :: ks) p hp)
theorem tipsL_sub_ids : ∀ ts : List Rose, ∀ p ∈ tipsWithNamesL ts, p.1 ∈ idsRL ts
  | [], p, hp => by simp [tipsWithNamesL] at hp
  | t :: ts, p, hp => by
    simp only [tipsWithNamesL, List.mem_append] at hp
    rw [idsRL_cons, List.mem_append]
    rcases hp with hp | hp
    · exact Or.inl (tips_sub_ids t p hp)
    · exact Or.inr (tipsL_sub_ids ts p hp)
end

/-! ### the textbook path length is invariant under injective renaming -/

mutual
theorem leafIds_rename (ρ : Nat → Nat) : ∀ t : RT, leafIds (renameRT ρ t) = (leafIds t).map ρ
  | .node i _ [] => by simp [renameRT, renameRTL, leafIds]
  | .node _ _ (k :: ks) => by
    have := leafIdsL_rename ρ (k :: ks)
    simp only [renameRT, renameRTL, leafIds] at this ⊢
    exact this
theorem leafIdsL_rename (ρ : Nat → Nat) : ∀ ts : List RT, leafIdsL (renameRTL ρ ts) = (leafIdsL ts).map ρ
  | [] => by simp [renameRTL, leafIdsL]
  | t :: ts => by simp only [renameRTL, leafIdsL, List.map_append, leafIds_rename ρ t, leafIdsL_rename ρ ts]
end

mutual
theorem depthTo_rename (ρ : Nat → Nat) (x : Nat) : ∀ t : RT, (∀ z ∈ leafIds t, ρ z = ρ x → z = x) →
    depthTo (renameRT ρ t) (ρ x) = depthTo t x
  | .node i _ [], h => by
    simp only [renameRT, renameRTL, depthTo]
    by_cases hix : i = x
    · simp [hix]
    · have : ¬ ρ i = ρ x := fun e => hix (h i (by simp [leafIds]) e)
      simp [hix, this]
  | .node _ _ (k :: ks), h => by
    have := depthToL_rename ρ x (k :: ks) (by simpa [leafIds] using h)
    simp only [renameRT, renameRTL, depthTo] at this ⊢
    exact this
theorem depthToL_rename (ρ : Nat → Nat) (x : Nat) : ∀ ts : List RT, (∀ z ∈ leafIdsL ts, ρ z = ρ x → z = x) →
    depthToL (renameRTL ρ ts) (ρ x) = depthToL ts x
  | [], _ => by simp [renameRTL, depthToL]
  | t :: ts, h => by
    have h1 := depthTo_rename ρ x t (fun z hz => h z (by simp [leafIdsL, hz]))
    have h2 := depthToL_rename ρ x ts (fun z hz => h z (by simp [leafIdsL, hz]))
    simp only [renameRTL, depthToL, h1, h2, renameRT_len]
end

mutual
theorem pathLen_rename (ρ : Nat → Nat) (x y : Nat) : ∀ t : RT, (∀ z ∈ leafIds t, ρ z = ρ x → z = x) →
    (∀ z ∈ leafIds t, ρ z = ρ y → z = y) → DM.pathLen (renameRT ρ t) (ρ x) (ρ y) = DM.pathLen t x y
  | .node i l [], _, _ => by simp [renameRT, renameRTL, DM.pathLen, DM.pathLenL]
  | .node i l (k :: ks), hx, hy => by
    have := pathLenL_rename ρ x y (k :: ks) (by simpa [leafIds] using hx) (by simpa [leafIds] using hy)
    simp only [renameRT, renameRTL, DM.pathLen] at this ⊢
    exact this
theorem pathLenL_rename (ρ : Nat → Nat) (x y : Nat) : ∀ ts : List RT,
    (∀ z ∈ leafIdsL ts, ρ z = ρ x → z = x) → (∀ z ∈ leafIdsL ts, ρ z = ρ y → z = y) →
    DM.pathLenL (renameRTL ρ ts) (ρ x) (ρ y) = DM.pathLenL ts x y
  | [], _, _ => by simp [renameRTL, DM.pathLenL]
  | t :: ts, hx, hy => by
    have hxt : ∀ z ∈ leafIds t, ρ z = ρ x → z = x := fun z hz => hx z (by simp [leafIdsL, hz])
    have hyt : ∀ z ∈ leafIds t, ρ z = ρ y → z = y := fun z hz => hy z (by simp [leafIdsL, hz])
    have hxs : ∀ z ∈ leafIdsL ts, ρ z = ρ x → z = x := fun z hz => hx z (by simp [leafIdsL, hz])
    have hys : ∀ z ∈ leafIdsL ts, ρ z = ρ y → z = y := fun z hz => hy z (by simp [leafIdsL, hz])
    simp only [renameRTL, DM.pathLenL, depthTo_rename ρ x t hxt, depthTo_rename ρ y t hyt,
      depthToL_rename ρ x ts hxs, depthToL_rename ρ y ts hys, pathLen_rename ρ x y t hxt hyt,
      pathLenL_rename ρ x y ts hxs hys, renameRT_len]
end

/-! ### the matrix assembly -/

/-- the cell loop of `matrixOf` -/
def cellsOf (sorted : List (Nat × Option String)) (f : Nat → Nat → Option Rat) : QR (List Int) :=
  (List.range sorted.length).foldlM (fun (acc : List Int) i =>
      (List.range i).foldlM (fun (acc : List Int) j => do
        let v ← QR.ofOpt (f ((sorted.getD i (0, none)).1) ((sorted.getD j (0, none)).1)) "MissingBranchLengths"
        pure (acc ++ [ratToInt v])) acc) []

def tipLe (x y : Nat × Option String) : Bool := nameLe x.2 y.2

theorem matrixOf_eq (t : Rose) (f : Nat → Nat → Option Rat) :
    matrixOf t f = if (tipsWithNames t).any (fun p => p.2.isNone) then .err "UnnamedLeaves" else (do
      let cells ← cellsOf ((tipsWithNames t).mergeSort tipLe) f
      pure (((tipsWithNames t).mergeSort tipLe).map (fun p => p.2.getD ""), cells)) := rfl

theorem foldlM_congr {α β : Type} (f g : β → α → QR β) : ∀ (l : List α) (b : β),
    (∀ x ∈ l, ∀ b, f b x = g b x) → l.foldlM f b = l.foldlM g b
  | [], _, _ => rfl
  | x :: l, b, h => by
    rw [List.foldlM_cons, List.foldlM_cons, h x (by simp) b]
    congr 1
    funext b'
    exact foldlM_congr f g l b' (fun y hy => h y (by simp [hy]))

theorem getD_map_rn (ρ : Nat → Nat) (l : List (Nat × Option String)) (i : Nat) (hi : i < l.length) :
    ((l.map (rn ρ)).getD i (0, none)).1 = ρ (l.getD i (0, none)).1 ∧ l.getD i (0, none) ∈ l := by
  rw [List.getD_eq_getElem?_getD, List.getD_eq_getElem?_getD, List.getElem?_map,
    List.getElem?_eq_getElem hi]
  simp [rn]

theorem cellsOf_rename (ρ : Nat → Nat) (sorted : List (Nat × Option String)) (f f' : Nat → Nat → Option Rat)
    (h : ∀ p ∈ sorted, ∀ q ∈ sorted, f' (ρ p.1) (ρ q.1) = f p.1 q.1) :
    cellsOf (sorted.map (rn ρ)) f' = cellsOf sorted f := by
  simp only [cellsOf, List.length_map]
  apply foldlM_congr
  intro i hi acc
  have hi' := List.mem_range.1 hi
  apply foldlM_congr
  intro j hj acc'
  have hj' : j < sorted.length := by have := List.mem_range.1 hj; omega
  obtain ⟨e1, m1⟩ := getD_map_rn ρ sorted i hi'
  obtain ⟨e2, m2⟩ := getD_map_rn ρ sorted j hj'
  rw [e1, e2, h _ m1 _ m2]

theorem matrixOf_rename (ρ : Nat → Nat) (t : Rose) (f f' : Nat → Nat → Option Rat)
    (h : ∀ p ∈ tipsWithNames t, ∀ q ∈ tipsWithNames t, f' (ρ p.1) (ρ q.1) = f p.1 q.1) :
    matrixOf (renameR ρ t) f' = matrixOf t f := by
  rw [matrixOf_eq, matrixOf_eq, tipsWithNames_rename]
  have hany : ((tipsWithNames t).map (rn ρ)).any (fun p => p.2.isNone) = (tipsWithNames t).any (fun p => p.2.isNone) := by
    rw [List.any_map]; rfl
  have hsort : ((tipsWithNames t).map (rn ρ)).mergeSort tipLe = ((tipsWithNames t).mergeSort tipLe).map (rn ρ) := by
    rw [List.map_mergeSort (r := tipLe) (s := tipLe)]
    intro a _ b _; rfl
  rw [hany, hsort]
  have hperm := List.mergeSort_perm (tipsWithNames t) tipLe
  rw [cellsOf_rename ρ _ f f' (fun p hp q hq => h p (hperm.mem_iff.1 hp) q (hperm.mem_iff.1 hq))]
  simp only [List.map_map]
  rfl

/-! ### `distance_matrix_recursive` -/

/-- the part of `dmRecursive` after the abstraction -/
def dmRecR (t : Rose) : QR (List String × List Int) :=
  let names := (tipsWithNames t).map (·.2)
  if names.any Option.isNone then .err "UnnamedLeaves" else
  if (names.filterMap id).eraseDups.length != names.length then .err "DuplicateLeafNames" else
  if !allLens t then .err "MissingBranchLengths" else
  matrixOf t (fun x y => DM.pathLen (absDM 0 t) x y)

theorem dmRecursive_eq {a : Arena} {t : Rose} {r : Nat} (hr : getRoot a = some r) (h : absRoot a = .ok t) :
    dmRecursive a = dmRecR t := by
  simp only [dmRecursive, hr, Option.isNone_some, Bool.false_eq_true, and_false, ↓reduceIte, h, QR.bind_ok]
  rfl

theorem dmRecR_rename (ρ : Nat → Nat) (t : Rose) (hinj : ∀ x ∈ idsR t, ∀ y ∈ idsR t, ρ x = ρ y → x = y) :
    dmRecR (renameR ρ t) = dmRecR t := by
  have hnames : (tipsWithNames (renameR ρ t)).map (·.2) = (tipsWithNames t).map (·.2) := by
    rw [tipsWithNames_rename, List.map_map]; rfl
  simp only [dmRecR, hnames, allLens_rename]
  split
  · rfl
  · split
    · rfl
    · split
      · rfl
      · apply matrixOf_rename
        intro p hp q hq
        rw [absDM_rename]
        have hsub : ∀ z ∈ leafIds (absDM 0 t), z ∈ idsR t := by
          intro z hz
          rw [leafIds_absDM, List.mem_map] at hz
          obtain ⟨p', hp', rfl⟩ := hz
          exact tips_sub_ids t p' hp'
        exact pathLen_rename ρ p.1 q.1 (absDM 0 t)
          (fun z hz e => hinj z (hsub z hz) p.1 (tips_sub_ids t p hp) e)
          (fun z hz e => hinj z (hsub z hz) q.1 (tips_sub_ids t q hq) e)

/-- **`distance_matrix_recursive` depends only on the tree** -/
theorem dmRecursive_depends_only_on_tree {a b : Arena} (ga : Good a) (gb : Good b) (ha : AtMostOneRoot a)
    (hb : AtMostOneRoot b) {ta tb : Rose} (hta : absRoot a = .ok ta) (htb : absRoot b = .ok tb)
    (he : erase ta = erase tb) : dmRecursive a = dmRecursive b := by
  obtain ⟨ρ, hren, hinj⟩ := absRoot_renaming ga gb ha hb hta htb he
  obtain ⟨ra, _, ca⟩ := absRoot_ctx ga ha hta
  obtain ⟨rb, _, cb⟩ := absRoot_ctx gb hb htb
  rw [dmRecursive_eq ca.root_eq hta, dmRecursive_eq cb.root_eq htb, ← hren, dmRecR_rename ρ ta hinj]

/-! ### the contributions of the fast algorithm (`dmRose`) -/

def gk (ρ : Nat → Nat) (p : Nat × Rat) : Nat × Rat := (ρ p.1, p.2)
def gp (ρ : Nat → Nat) (p : (Nat × Nat) × Rat) : (Nat × Nat) × Rat := ((ρ p.1.1, ρ p.1.2), p.2)

theorem shift_map (ρ : Nat → Nat) (d : Rat) (c : List (Nat × Rat)) :
    shift d (c.map (gk ρ)) = (shift d c).map (gk ρ) := by
  simp only [shift, List.map_map]; rfl

theorem cross_map (ρ : Nat → Nat) : ∀ (c r : List (Nat × Rat)),
    cross (c.map (gk ρ)) (r.map (gk ρ)) = (cross c r).map (gp ρ)
  | [], r => by simp [cross]
  | p :: c, r => by
    have ih := cross_map ρ c r
    simp only [cross, List.map_cons, List.flatMap_cons, List.map_append, List.map_map] at ih ⊢
    rw [ih]
    rfl

mutual
theorem cache_rename (ρ : Nat → Nat) : ∀ t : RT, cache (renameRT ρ t) = (cache t).map (gk ρ)
  | .node i _ [] => by simp [renameRT, renameRTL, cache, gk]
  | .node _ _ (k :: ks) => by
    have := cacheL_rename ρ (k :: ks)
    simp only [renameRT, renameRTL, cache] at this ⊢
    exact this
theorem cacheL_rename (ρ : Nat → Nat) : ∀ ts : List RT, cacheL (renameRTL ρ ts) = (cacheL ts).map (gk ρ)
  | [] => by simp [renameRTL, cacheL]
  | t :: ts => by
    simp only [renameRTL, cacheL, List.map_append, renameRT_len, cache_rename ρ t, cacheL_rename ρ ts, shift_map]
end

mutual
theorem pairs_rename (ρ : Nat → Nat) : ∀ t : RT, pairs (renameRT ρ t) = (pairs t).map (gp ρ)
  | .node _ _ ks => by simp only [renameRT, pairs, pairsL_rename ρ ks]
theorem pairsL_rename (ρ : Nat → Nat) : ∀ ts : List RT, pairsL (renameRTL ρ ts) = (pairsL ts).map (gp ρ)
  | [] => by simp [renameRTL, pairsL]
  | t :: ts => by
    simp only [renameRTL, pairsL, List.map_append, renameRT_len, pairs_rename ρ t, pairsL_rename ρ ts,
      cache_rename, cacheL_rename, shift_map, cross_map]
end

/-- the cell function of `dmRose`: sum of the contributions keyed by the unordered pair -/
def contrib (ps : List ((Nat × Nat) × Rat)) (x y : Nat) : Option Rat :=
  let cs := ps.filter (fun p => (p.1.1 == x && p.1.2 == y) || (p.1.1 == y && p.1.2 == x))
  some (cs.foldl (fun s p => s + p.2) 0)

theorem dmRose_eq {a : Arena} {t : Rose} (unit : Int) (h : absRoot a = .ok t) :
    dmRose a unit = matrixOf t (contrib (DM.pairs (absDM unit t))) := by
  simp only [dmRose, h, QR.bind_ok]
  rfl

theorem contrib_rename (ρ : Nat → Nat) (T : RT) (x y : Nat)
    (hinj : ∀ u ∈ x :: y :: leafIds T, ∀ v ∈ x :: y :: leafIds T, ρ u = ρ v → u = v) :
    contrib ((pairs T).map (gp ρ)) (ρ x) (ρ y) = contrib (pairs T) x y := by
  simp only [contrib, List.filter_map, List.foldl_map]
  have hf : (pairs T).filter ((fun p => (p.1.1 == ρ x && p.1.2 == ρ y) || (p.1.1 == ρ y && p.1.2 == ρ x)) ∘ gp ρ)
      = (pairs T).filter (fun p => (p.1.1 == x && p.1.2 == y) || (p.1.1 == y && p.1.2 == x)) := by
    apply List.filter_congr
    intro ⟨⟨k1, k2⟩, d⟩ hp
    obtain ⟨m1, m2⟩ := pairs_mem_leaf T k1 k2 d hp
    have i1 : ∀ z ∈ x :: y :: leafIds T, (ρ k1 == ρ z) = (k1 == z) := by
      intro z hz
      rw [Bool.eq_iff_iff]
      simp only [beq_iff_eq]
      exact ⟨fun e => hinj k1 (by simp [m1]) z hz e, fun e => by rw [e]⟩
    have i2 : ∀ z ∈ x :: y :: leafIds T, (ρ k2 == ρ z) = (k2 == z) := by
      intro z hz
      rw [Bool.eq_iff_iff]
      simp only [beq_iff_eq]
      exact ⟨fun e => hinj k2 (by simp [m2]) z hz e, fun e => by rw [e]⟩
    simp only [Function.comp, gp, i1 x (by simp), i1 y (by simp), i2 x (by simp), i2 y (by simp)]
  rw [hf]
  rfl

theorem dmRoseR_rename (ρ : Nat → Nat) (unit : Int) (t : Rose)
    (hinj : ∀ x ∈ idsR t, ∀ y ∈ idsR t, ρ x = ρ y → x = y) :
    matrixOf (renameR ρ t) (contrib (DM.pairs (absDM unit (renameR ρ t))))
      = matrixOf t (contrib (DM.pairs (absDM unit t))) := by
  apply matrixOf_rename
  intro p hp q hq
  rw [absDM_rename, pairs_rename]
  have hsub : ∀ z ∈ leafIds (absDM unit t), z ∈ idsR t := by
    intro z hz
    rw [leafIds_absDM, List.mem_map] at hz
    obtain ⟨p', hp', rfl⟩ := hz
    exact tips_sub_ids t p' hp'
  apply contrib_rename
  have hall : ∀ u ∈ p.1 :: q.1 :: leafIds (absDM unit t), u ∈ idsR t := by
    intro u hu
    simp only [List.mem_cons] at hu
    rcases hu with rfl | rfl | hu
    · exact tips_sub_ids t p hp
    · exact tips_sub_ids t q hq
    · exact hsub u hu
  intro u hu v hv e
  exact hinj u (hall u hu) v (hall v hv) e

/-- **the contributions of `distance_matrix` (`dmRose`) depend only on the tree** -/
theorem dmRose_depends_only_on_tree {a b : Arena} (ga : Good a) (gb : Good b) (ha : AtMostOneRoot a)
    (hb : AtMostOneRoot b) {ta tb : Rose} (hta : absRoot a = .ok ta) (htb : absRoot b = .ok tb)
    (he : erase ta = erase tb) (unit : Int) : dmRose a unit = dmRose b unit := by
  obtain ⟨ρ, hren, hinj⟩ := absRoot_renaming ga gb ha hb hta htb he
  rw [dmRose_eq unit hta, dmRose_eq unit htb, ← hren, dmRoseR_rename ρ unit ta hinj]

/-- non-vacuity on the two layouts of the cherry `(x:3,y:4);` -/
example : dmRecursive exA = dmRecursive exB ∧ dmRose exA 1 = dmRose exB 1 :=
  ⟨dmRecursive_depends_only_on_tree exA_ok.1 exB_ok.1 exA_ok.2 exB_ok.2 exA_abs exB_abs ex_erase,
   dmRose_depends_only_on_tree exA_ok.1 exB_ok.1 exA_ok.2 exB_ok.2 exA_abs exB_abs ex_erase 1⟩

end AR
