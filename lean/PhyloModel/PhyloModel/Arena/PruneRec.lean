import PhyloModel.Arena.Prune
/-! Scratch prototype: recursive `prune` -/
namespace AR

/-- `Tree::prune` with fuel; `none` = error or fuel exhausted -/
def pruneF : Nat → Arena → Nat → Option Arena
  | 0, _, _ => none
  | f + 1, a, x =>
    if x < a.size ∧ (nd a x).deleted = false then
      match (nd a x).children.foldlM (fun acc c => pruneF f acc c) a with
      | none => none
      | some a1 =>
        if x < a1.size ∧ (nd a1 x).deleted = false then some (finish a1 x) else none
    else none

/-- what one successful `prune c` guarantees about the arena -/
structure PruneOK (a a1 : Arena) (c : Nat) : Prop where
  inv : Inv a1
  tomb : Tomb a1
  size : a1.size = a.size
  gone : ¬ live a1 c
  sub : ∀ i, live a1 i → live a i
  died : ∀ i, live a i → ¬ live a1 i → i = c ∨ (nd a c).depth < (nd a i).depth
  same : ∀ i, live a1 i → (nd a c).parent ≠ some i → nd a1 i = nd a i
  par : ∀ p, (nd a c).parent = some p → nd a1 p = removeChild (nd a p) c

theorem finish_nd (a : Arena) (x : Nat) (i : Nat) (hx : x < a.size) :
    nd (finish a x) i =
      if i = x then dead
      else if (nd a x).parent = some i ∧ i < a.size then removeChild (nd a i) x
      else nd a i := by
  cases hpar : (nd a x).parent with
  | none => simp [finish, hpar, nd_set]; grind
  | some p => simp [finish, hpar, nd_set]; grind

/-- inner loop of `prune x`: the children still to be pruned are exactly `cs` -/
theorem prune_loop (f : Nat) (D : Nat)
    (ih : ∀ a c a1, Inv a → Tomb a → live a c → (∀ i, live a i → (nd a i).depth ≤ D) →
        D < f + (nd a c).depth → pruneF f a c = some a1 → PruneOK a a1 c)
    (ihT : ∀ a c, Inv a → Tomb a → live a c → (∀ i, live a i → (nd a i).depth ≤ D) →
        D < f + (nd a c).depth → ∃ a1, pruneF f a c = some a1) :
    ∀ (cs : List Nat) (a b : Arena) (x : Nat), Inv a → live a x →
      Inv b → Tomb b → live b x → (nd b x).children = cs → b.size = a.size →
      (∀ i, live b i → (nd b i).depth ≤ D) → D < f + (nd b x).depth + 1 →
      (∀ i, live b i → live a i) →
      (∀ i, live a i → ¬ live b i → (nd a x).depth < (nd a i).depth) →
      (∀ i, live b i → i ≠ x → nd b i = nd a i) →
      (nd b x).parent = (nd a x).parent → (nd b x).depth = (nd a x).depth →
      ∃ b', cs.foldlM (fun acc c => pruneF f acc c) b = some b' ∧
        Inv b' ∧ Tomb b' ∧ live b' x ∧ (nd b' x).children = [] ∧ b'.size = a.size ∧
        (∀ i, live b' i → live a i) ∧
        (∀ i, live a i → ¬ live b' i → (nd a x).depth < (nd a i).depth) ∧
        (∀ i, live b' i → i ≠ x → nd b' i = nd a i) ∧
        (nd b' x).parent = (nd a x).parent ∧ (nd b' x).depth = (nd a x).depth := by
  intro cs
  induction cs with
  | nil =>
    intro a b x _ _ hib htb hlb hch hsz _ _ hsub hdied hsame hpar hdep
    exact ⟨b, by simp [List.foldlM], hib, htb, hlb, hch, hsz, hsub, hdied, hsame, hpar, hdep⟩
  | cons c cs ihcs =>
    intro a b x hia hla hib htb hlb hch hsz hD hf hsub hdied hsame hpar hdep
    have hcmem : c ∈ (nd b x).children := by simp [hch]
    obtain ⟨hlc, hcp, hcd, _⟩ := hib.child_ok x c hlb hcmem
    obtain ⟨b1, hb1⟩ := ihT b c hib htb hlc hD (by omega)
    have ok := ih b c b1 hib htb hlc hD (by omega) hb1
    have hnodup : (nd b x).children.Nodup := hib.nodup x
    have hxb1 : live b1 x := by
      apply Classical.byContradiction; intro hnl
      rcases ok.died x hlb hnl with h | h
      · subst h; omega
      · omega
    have hb1x : nd b1 x = removeChild (nd b x) c := ok.par x hcp
    have hcs : (nd b1 x).children = cs := by
      rw [hb1x]; simp only [removeChild, hch]
      simp
    have hb1same : ∀ i, live b1 i → i ≠ x → nd b1 i = nd b i := by
      intro i hli hne
      exact ok.same i hli (by rw [hcp]; intro h; exact hne (Option.some.inj h).symm)
    obtain ⟨b', hfold, h1, h2, h3, h4, h5, h6, h7, h8, h9, h10⟩ :=
      ihcs a b1 x hia hla ok.inv ok.tomb hxb1 hcs (by rw [ok.size, hsz])
        (fun i hli => by
          by_cases hix : i = x
          · subst hix; rw [hb1x]; simp [removeChild]; exact hD _ hlb
          · rw [hb1same i hli hix]; exact hD i (ok.sub i hli))
        (by rw [hb1x]; simpa [removeChild] using hf)
        (fun i hli => hsub i (ok.sub i hli))
        (fun i hlai hnl => by
          by_cases hbi : live b i
          · rcases ok.died i hbi hnl with h | h
            · subst h; rw [← hdep]
              have : nd b i = nd a i := hsame i hbi (by intro h; subst h; omega)
              rw [← this]; omega
            · have hix : i ≠ x := by intro h; subst h; omega
              have : nd b i = nd a i := hsame i hbi hix
              rw [← this, ← hdep]; omega
          · exact hdied i hlai hbi)
        (fun i hli hne => by rw [hb1same i hli hne]; exact hsame i (ok.sub i hli) hne)
        (by rw [hb1x]; simpa [removeChild] using hpar)
        (by rw [hb1x]; simpa [removeChild] using hdep)
    exact ⟨b', by simp [List.foldlM, hb1, hfold], h1, h2, h3, h4, h5, h6, h7, h8, h9, h10⟩

end AR
