import PhyloModel.Arena.ResetTop
/-! Scratch prototype: `compress_node` (with the depth repair) preserves `Inv` -/
namespace AR

/-- everything in `Inv` except the two depth clauses, with a ghost rank instead -/
structure S (a : Arena) (r : Nat → Nat) : Prop where
  child_ok : ∀ i c, live a i → c ∈ (nd a i).children →
      live a c ∧ (nd a c).parent = some i ∧ r i < r c ∧ alGet (nd a i).cedges c = (nd a c).pedge
  parent_ok : ∀ i p, live a i → (nd a i).parent = some p → live a p ∧ i ∈ (nd a p).children
  nodup : ∀ i, (nd a i).children.Nodup
  cedge_dom : ∀ i c, (alGet (nd a i).cedges c).isSome → c ∈ (nd a i).children

structure DepthOK (a : Arena) : Prop where
  edge : ∀ i c, live a i → c ∈ (nd a i).children → (nd a c).depth = (nd a i).depth + 1
  root : ∀ i, live a i → (nd a i).parent = none → (nd a i).depth = 0

theorem Inv.toS {a : Arena} (h : Inv a) : S a (fun i => (nd a i).depth) :=
  ⟨fun i c hl hc => by
      obtain ⟨h1, h2, h3, h4⟩ := h.child_ok i c hl hc
      exact ⟨h1, h2, by show (nd a i).depth < (nd a c).depth; omega, h4⟩,
   h.parent_ok, h.nodup, h.cedge_dom⟩

theorem Inv.toDepthOK {a : Arena} (h : Inv a) : DepthOK a :=
  ⟨fun i c hl hc => (h.child_ok i c hl hc).2.2.1, h.root_depth⟩

theorem S.toW {a : Arena} {r : Nat → Nat} (h : S a r) : W a r :=
  ⟨fun i c hl hc => by obtain ⟨h1, h2, h3, _⟩ := h.child_ok i c hl hc; exact ⟨h1, h2, h3⟩, h.parent_ok, h.nodup⟩

theorem inv_of_S_DepthOK {a : Arena} {r : Nat → Nat} (hs : S a r) (hd : DepthOK a) : Inv a :=
  ⟨fun i c hl hc => by
      obtain ⟨h1, h2, _, h4⟩ := hs.child_ok i c hl hc
      exact ⟨h1, h2, hd.edge i c hl hc, h4⟩,
   hs.parent_ok, hs.nodup, hd.root, hs.cedge_dom⟩

/-- the slot updates of `compress_node` before the depth repair: `v` (parent `p`, only child `c`) is spliced out -/
def splice (a : Arena) (v p c : Nat) (e : Option Int) : Arena :=
  let a1 := a.setIfInBounds c { nd a c with parent := some p, pedge := e }
  let pn := nd a1 p
  let pn1 := setCedge { pn with children := pn.children ++ [c] } c e
  let a2 := a1.setIfInBounds p (removeChild pn1 v)
  a2.setIfInBounds v dead

theorem nd_splice (a : Arena) (v p c : Nat) (e : Option Int) (hv : v < a.size) (hp : p < a.size) (hc : c < a.size)
    (hpc : p ≠ c) (hvc : v ≠ c) (hvp : v ≠ p) (i : Nat) :
    nd (splice a v p c e) i =
      if i = v then dead
      else if i = p then removeChild (setCedge { nd a p with children := (nd a p).children ++ [c] } c e) v
      else if i = c then { nd a c with parent := some p, pedge := e }
      else nd a i := by
  simp only [splice, nd_set, Array.size_setIfInBounds]
  grind

end AR
