import PhyloModel.Arena.Group
import PhyloModel.Arena.PruneRec
/-! Executable operation-level model of the arena mutators of `Tree` (src/tree/tree_impl.rs, node.rs),
    assembled from the slot-level primitives whose invariants are proved in this directory
    (`addChild`, `pruneF`, `resetF`, `splice`, `group`).  Edge lengths are integers: the correspondence
    harness uses lengths that are integer multiples of 2^-10, sent as their numerators, so every `f64`
    sum and product the real code performs is exact.

    Every operation returns the new arena together with an outcome; an `err` outcome may leave a
    partially modified arena behind exactly where the Rust code does (`compress`). -/
namespace AR

inductive Out where
  | ok (ret : Option Nat)      -- success, with the returned node id if any
  | err (kind : String)        -- `Err(..)` value
  | panic                      -- `unwrap`/index/arithmetic failure in the Rust code
  | diverge                    -- fuel exhausted: unbounded recursion in the Rust code
deriving Repr, DecidableEq

def isLive (a : Arena) (i : Nat) : Bool := decide (i < a.size) && !(nd a i).deleted

theorem isLive_iff (a : Arena) (i : Nat) : isLive a i = true ↔ live a i := by
  simp [isLive, live]

/-- recursion fuel handed to the recursive operations by the executable model: more than twice the number
    of slots (no simple path in the arena is longer than the number of slots; the factor two covers the
    ghost-rank argument of the regrouping step).  Theorems obtain adequacy from the depth bound
    `depth < size` that the invariant implies. -/
def fuelOf (a : Arena) : Nat := 2 * a.size + 3

/-- `Tree::add(Node::new())` / `Tree::add(Node::new_named(name))` -/
def add (a : Arena) (name : Option String) : Arena × Nat :=
  (a.push { name := name }, a.size)

/-- payload update; never touches the structural fields -/
def setName (a : Arena) (i : Nat) (name : Option String) : Arena :=
  a.setIfInBounds i { nd a i with name := name }

/-- `Tree::add_child(node, parent, edge)` for a fresh node carrying only a name -/
def addChildNamed (a : Arena) (p : Nat) (e : Option Int) (name : Option String) : Arena × Out :=
  match addChild a p e with
  | some (a', id) => (setName a' id name, .ok (some id))
  | none => (a, .err "NodeNotFound")

/-- `Tree::get_root` (with the `!deleted` filter of the repaired code): first live slot without parent -/
def getRoot (a : Arena) : Option Nat :=
  (List.range a.size).find? (fun i => isLive a i && (nd a i).parent.isNone)

/-- `Tree::prune` -/
def prune (a : Arena) (x : Nat) : Arena × Out :=
  if isLive a x then
    match pruneF (fuelOf a) a x with
    | some a' => (a', .ok none)
    | none => (a, .diverge)
  else (a, .err "NodeNotFound")

/-- the branch length of the spliced edge: both present (sum), both absent, or a refusal -/
def sumLen : Option Int → Option Int → Option (Option Int)
  | some x, some y => some (some (x + y))
  | none, none => some none
  | _, _ => none

/-- `Tree::compress_node` (with the depth repair) -/
def compressNode (a : Arena) (v : Nat) : Arena × Out :=
  if !isLive a v then (a, .err "NodeNotFound") else
  match (nd a v).parent, (nd a v).children with
  | some p, [c] =>
    match sumLen (nd a v).pedge (alGet (nd a v).cedges c) with
    | none => (a, .err "MissingBranchLengths")
    | some e =>
      if !isLive a c || !isLive a p then (a, .err "NodeNotFound") else
      let a1 := splice a v p c e
      match resetF (fuelOf a) a1 c ((nd a1 p).depth + 1) with
      | some a2 => (a2, .ok none)
      | none => (a1, .diverge)
  | _, _ => (a, .err "CouldNotCompressNode")

/-- the list `to_compress` of `Tree::compress`, fixed before the loop -/
def toCompress (a : Arena) : List Nat :=
  (List.range a.size).filter (fun i => isLive a i && (nd a i).parent.isSome && (nd a i).children.length == 1)

def compressLoop : List Nat → Arena → Arena × Out
  | [], a => (a, .ok none)
  | v :: vs, a =>
    match compressNode a v with
    | (a', .ok _) => compressLoop vs a'
    | r => r

/-- `Tree::compress` -/
def compress (a : Arena) : Arena × Out := compressLoop (toCompress a) a

def scaleNode (k : Int) (n : Node) : Node :=
  { n with pedge := n.pedge.map (· * k), cedges := n.cedges.map (fun (c, e) => (c, e * k)) }

/-- `Tree::rescale` (both records of every slot) -/
def rescale (a : Arena) (k : Int) : Arena := a.map (scaleNode k)

/-- slot updates of `merge_children` on two parentless nodes: the fresh node `w = a.size` becomes a root
    above both -/
def rootGroup (a : Arena) (c1 c2 : Nat) (e1 e2 : Option Int) : Arena :=
  let a1 := a.setIfInBounds c1 { nd a c1 with parent := some a.size, pedge := e1 }
  let a2 := a1.setIfInBounds c2 { nd a1 c2 with parent := some a.size, pedge := e2 }
  a2.push (setCedge (setCedge { children := [c1, c2] } c1 e1) c2 e2)

/-- `Tree::merge_children` (with the `child1 == child2` refusal and the depth repair).
    For two parentless nodes the new node becomes a new root.  The name of the new node is payload: it is
    written last here (the Rust code creates the node with it), no structural step reads it. -/
def mergeChildren (a : Arena) (c1 c2 : Nat) (e1 e2 pe : Option Int) (name : Option String) : Arena × Out :=
  if !isLive a c1 then (a, .err "NodeNotFound") else
  if !isLive a c2 then (a, .err "NodeNotFound") else
  if c1 = c2 ∨ (nd a c1).parent ≠ (nd a c2).parent then (a, .err "MergingNonSiblingNodes") else
  let w := a.size
  let a1 : Option Arena :=
    match (nd a c1).parent with
    | some q => if isLive a q then some (group a q c1 c2 pe e1 e2) else none
    | none => some (rootGroup a c1 c2 e1 e2)
  match a1 with
  | none => (a, .err "NodeNotFound")
  | some a1 =>
    let d := (nd a1 w).depth + 1
    match resetF (fuelOf a1) a1 c1 d with
    | none => (setName a1 w name, .diverge)
    | some a3 =>
      match resetF (fuelOf a1) a3 c2 d with
      | none => (setName a3 w name, .diverge)
      | some a4 => (setName a4 w name, .ok (some w))

/-- nodes with more than two children, in arena order: `to_binarize` of `Tree::resolve` -/
def toBinarize (a : Arena) : List Nat :=
  (List.range a.size).filter (fun i => (nd a i).children.length > 2)

/-- one round of the inner loop of `Tree::resolve` on node `q`: the two children popped from the shuffled
    list are `x` then `y`; they move under a fresh node with a zero-length branch. -/
def resolveRound (a : Arena) (q x y : Nat) : Option Arena :=
  if isLive a q && x ≠ y && (nd a q).children.contains x && (nd a q).children.contains y
      && isLive a x && isLive a y then
    let a1 := group a q x y (some 0) (nd a x).pedge (nd a y).pedge
    let d := (nd a1 a.size).depth + 1
    match resetF (fuelOf a1) a1 x d with
    | none => none
    | some a2 => resetF (fuelOf a1) a2 y d
  else none

/-- inner `loop` of `Tree::resolve` for one node, consuming one oracle pair per round.  The Rust loop
    stops when the shuffled local list (old length − 2 + 1) has at most two entries. -/
def resolveNode : Nat → Arena → Nat → List (Nat × Nat) → Option (Arena × List (Nat × Nat))
  | 0, _, _, _ => none
  | f + 1, a, q, picks =>
    match picks with
    | [] => none
    | (x, y) :: rest =>
      let n := (nd a q).children.length
      match resolveRound a q x y with
      | none => none
      | some a' => if n - 1 ≤ 2 then some (a', rest) else resolveNode f a' q rest

def resolveLoop : List Nat → Arena → List (Nat × Nat) → Option (Arena × List (Nat × Nat))
  | [], a, picks => some (a, picks)
  | q :: qs, a, picks =>
    match resolveNode ((nd a q).children.length) a q picks with
    | none => none
    | some (a', rest) => resolveLoop qs a' rest

/-- `Tree::resolve` as a function of the oracle `picks` (the pairs popped after each shuffle).
    `none`: the oracle is ill-formed for this arena (wrong length or a pair that is not two distinct
    current children) — impossible for the real code, which draws from the current child list. -/
def resolve (a : Arena) (picks : List (Nat × Nat)) : Option Arena :=
  match resolveLoop (toBinarize a) a picks with
  | some (a', []) => some a'
  | _ => none

/-- number of oracle pairs `Tree::resolve` consumes: a node with `n > 2` children needs `n − 2` rounds -/
def resolveRounds (a : Arena) : Nat :=
  ((toBinarize a).map (fun q => (nd a q).children.length - 2)).sum

/-- `Tree::levelorder` (queue loop, one dequeue per unit of fuel) -/
def levelF : Nat → Arena → List Nat → List Nat → Option (List Nat)
  | 0, _, [], acc => some acc.reverse
  | 0, _, _ :: _, _ => none
  | _ + 1, _, [], acc => some acc.reverse
  | f + 1, a, x :: q, acc =>
    if isLive a x then levelF f a (q ++ (nd a x).children) (x :: acc) else none

def levelorder (a : Arena) (x : Nat) : Option (List Nat) := levelF (fuelOf a) a [x] []

/-- one step of `Tree::ladderize` at node `v`: its descendant count from its children's, then a stable
    sort of its child list by that count -/
def ladderStep (st : Arena × Array Nat) (v : Nat) : Arena × Array Nat :=
  let a := st.1
  let cnt := st.2
  let kids := (nd a v).children
  let cv := (kids.map (fun c => cnt.getD c 0 + 1)).sum
  let cnt' := cnt.setIfInBounds v cv
  let sorted := kids.mergeSort (fun x y => decide (cnt'.getD x 0 ≤ cnt'.getD y 0))
  (a.setIfInBounds v { nd a v with children := sorted }, cnt')

/-- `Tree::ladderize`: descendant counts bottom-up over the reversed level order, then a stable sort of
    every child list by that count -/
def ladderize (a : Arena) : Arena × Out :=
  match getRoot a with
  | none => (a, .err "RootNotFound")
  | some r =>
    match levelorder a r with
    | none => (a, .diverge)
    | some order => ((order.reverse.foldl ladderStep (a, Array.replicate a.size 0)).1, .ok none)

/-- `Tree::reset_depths` -/
def resetDepths (a : Arena) : Arena × Out :=
  match getRoot a with
  | none => (a, .err "RootNotFound")
  | some r =>
    match resetF (fuelOf a) a r 0 with
    | some a' => (a', .ok none)
    | none => (a, .diverge)

/-! ### decidable invariant checker (the oracle the harness also implements against the real arena) -/

def cedgeKeys (n : Node) : List Nat := n.cedges.map (·.1)

/-- Boolean form of `Inv` ∧ `Tomb` (forest form: any number of roots) -/
def checkInv (a : Arena) : Bool :=
  (List.range a.size).all fun i =>
    let n := nd a i
    if n.deleted then
      n.children.isEmpty && n.parent.isNone && n.cedges.isEmpty && n.pedge.isNone && n.depth == 0
        && n.name.isNone && n.comment.isNone
    else
      n.children.all (fun c =>
          isLive a c && (nd a c).parent == some i && (nd a c).depth == n.depth + 1
            && alGet n.cedges c == (nd a c).pedge)
        && (match n.parent with
            | some p => isLive a p && (nd a p).children.contains i
            | none => n.depth == 0)
        && n.children.eraseDups.length == n.children.length
        && (cedgeKeys n).all (fun c => n.children.contains c || (alGet n.cedges c).isNone)

def liveRoots (a : Arena) : List Nat :=
  (List.range a.size).filter (fun i => isLive a i && (nd a i).parent.isNone)

end AR
