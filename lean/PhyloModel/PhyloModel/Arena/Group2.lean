import PhyloModel.Arena.Group
namespace AR

theorem group_S (a : Arena) (q c1 c2 : Nat) (pe e1 e2 : Option Int) (hinv : Inv a) (hlq : live a q)
    (hm1 : c1 ∈ (nd a q).children) (hm2 : c2 ∈ (nd a q).children) (h12 : c1 ≠ c2) :
    let g := group a q c1 c2 pe e1 e2
    let r : Nat → Nat := fun i => if i = a.size then 2 * (nd a q).depth + 1 else 2 * (nd a i).depth
    S g r ∧ g.size = a.size + 1 ∧ (∀ i, live g i ↔ (i = a.size ∨ live a i)) ∧
    (∀ i, (nd g i).depth = if i = a.size then (nd a q).depth + 1 else (nd a i).depth) := by
  intro g r
  have hc := hinv.child_ok; have hpo := hinv.parent_ok; have hnd := hinv.nodup; have hcd := hinv.cedge_dom
  obtain ⟨hl1, hp1, hd1, hce1⟩ := hc q c1 hlq hm1
  obtain ⟨hl2, hp2, hd2, hce2⟩ := hc q c2 hlq hm2
  have hq1 : q ≠ c1 := by intro h; subst h; omega
  have hq2 : q ≠ c2 := by intro h; subst h; omega
  have hqw : q ≠ a.size := Nat.ne_of_lt hlq.1
  have h1w : c1 ≠ a.size := Nat.ne_of_lt hl1.1
  have h2w : c2 ≠ a.size := Nat.ne_of_lt hl2.1
  have hns := nd_group a q c1 c2 pe e1 e2 hlq.1 hl1.1 hl2.1 hq1 hq2 h12
  have hsz : g.size = a.size + 1 := by simp [g, group]
  -- slots
  have hsw : nd g a.size = wNode a q c1 c2 pe e1 e2 := by rw [hns]; simp
  have hsq : nd g q = qNode a q c1 c2 pe := by rw [hns]; simp [hqw]
  have hs1 : nd g c1 = { nd a c1 with parent := some a.size, pedge := e1 } := by
    rw [hns]; simp [h1w, Ne.symm hq1]
  have hs2 : nd g c2 = { nd a c2 with parent := some a.size, pedge := e2 } := by
    rw [hns]; simp [h2w, Ne.symm hq2, Ne.symm h12]
  have hso : ∀ i, i ≠ a.size → i ≠ q → i ≠ c1 → i ≠ c2 → nd g i = nd a i := by
    intro i g1 g2 g3 g4; rw [hns]; simp [g1, g2, g3, g4]
  have hwch : (nd g a.size).children = [c1, c2] := by rw [hsw]; simp [wNode]
  have hqch : (nd g q).children = (((nd a q).children.erase c1).erase c2) ++ [a.size] := by
    rw [hsq]; simp [qNode, removeChild_children]
  have hndq := hnd q
  have hmemq : ∀ x, x ∈ (nd g q).children ↔ (x = a.size ∨ (x ∈ (nd a q).children ∧ x ≠ c1 ∧ x ≠ c2)) := by
    intro x
    rw [hqch, List.mem_append, List.mem_singleton, List.Nodup.mem_erase_iff (List.Nodup.erase c1 hndq),
        List.Nodup.mem_erase_iff hndq]
    constructor
    · rintro (⟨g2, g1, g0⟩ | g); exact Or.inr ⟨g0, g1, g2⟩; exact Or.inl g
    · rintro (g | ⟨g0, g1, g2⟩); exact Or.inr g; exact Or.inl ⟨g2, g1, g0⟩
  have hwnotin : a.size ∉ (nd a q).children := fun hm => by have := (hc q _ hlq hm).1.1; omega
  have hwnoedge : alGet (nd a q).cedges a.size = none := by
    cases h : alGet (nd a q).cedges a.size with
    | none => rfl
    | some v => exact absurd (hcd q _ (by simp [h])) hwnotin
  have hqce : ∀ x, alGet (nd g q).cedges x =
      if x = a.size then pe else if x = c2 then none else if x = c1 then none else alGet (nd a q).cedges x := by
    intro x
    rw [hsq]; simp only [qNode]; rw [setCedge_get]
    simp only [removeChild_cedges, alGet_erase]
    by_cases g0 : x = a.size
    · subst g0; simp [hwnoedge, Ne.symm h2w, Ne.symm h1w]
    · simp [g0]
  have hwce : ∀ x, alGet (nd g a.size).cedges x = if x = c2 then e2 else if x = c1 then e1 else none := by
    intro x
    rw [hsw]; simp only [wNode, setCedge_get]
    by_cases g2 : x = c2
    · subst g2; cases e2 <;> cases e1 <;> simp [Ne.symm h12, alGet]
    · by_cases g1 : x = c1
      · subst g1; cases e1 <;> simp [g2, alGet]
      · simp [g1, g2, alGet]
  have hqpar : (nd g q).parent = (nd a q).parent := by rw [hsq]; simp [qNode, removeChild]
  have hqpe : (nd g q).pedge = (nd a q).pedge := by rw [hsq]; simp [qNode, removeChild]
  have hqdel : (nd g q).deleted = false := by rw [hsq]; simp [qNode, removeChild]; exact hlq.2
  have hdel : ∀ i, i ≠ a.size → (nd g i).deleted = (nd a i).deleted := by
    intro i g0
    by_cases g1 : i = q
    · subst g1; rw [hqdel, hlq.2]
    · by_cases g2 : i = c1
      · subst g2; rw [hs1]
      · by_cases g3 : i = c2
        · subst g3; rw [hs2]
        · rw [hso i g0 g1 g2 g3]
  have hlive : ∀ i, live g i ↔ (i = a.size ∨ live a i) := by
    intro i
    simp only [live, hsz]
    by_cases g0 : i = a.size
    · subst g0; rw [hsw]; simp [wNode]
    · rw [hdel i g0]
      constructor
      · rintro ⟨k1, k2⟩; exact Or.inr ⟨by omega, k2⟩
      · rintro (k | ⟨k1, k2⟩)
        · exact absurd k g0
        · exact ⟨by omega, k2⟩
  have hdep : ∀ i, (nd g i).depth = if i = a.size then (nd a q).depth + 1 else (nd a i).depth := by
    intro i
    by_cases g0 : i = a.size
    · subst g0; rw [hsw]; simp [wNode]
    · by_cases g1 : i = q
      · subst g1; rw [hsq]; simp [g0, qNode, removeChild]
      · by_cases g2 : i = c1
        · subst g2; rw [hs1]; simp [g0]
        · by_cases g3 : i = c2
          · subst g3; rw [hs2]; simp [g0]
          · rw [hso i g0 g1 g2 g3]; simp [g0]
  refine ⟨⟨?_, ?_, ?_, ?_⟩, hsz, hlive, hdep⟩
  · -- child_ok
    intro i x hl hx
    rw [hlive] at hl
    rw [hlive]
    by_cases g0 : i = a.size
    · subst g0
      rw [hwch] at hx
      simp only [List.mem_cons, List.not_mem_nil, or_false] at hx
      rcases hx with rfl | rfl
      · rw [hs1, hwce]
        refine ⟨Or.inr hl1, by simp, ?_, by simp [h12]⟩
        simp only [r, h1w, ↓reduceIte]; omega
      · rw [hs2, hwce]
        refine ⟨Or.inr hl2, by simp, ?_, by simp⟩
        simp only [r, h2w, ↓reduceIte]; omega
    · have hli : live a i := by rcases hl with h | h; exact absurd h g0; exact h
      by_cases g1 : i = q
      · subst g1
        rw [hmemq] at hx
        rcases hx with rfl | ⟨hx0, hx1, hx2⟩
        · rw [hsw, hqce]
          refine ⟨Or.inl rfl, by simp [wNode], ?_, by simp [wNode]⟩
          simp only [r, g0, ↓reduceIte]; omega
        · obtain ⟨k1, k2, k3, k4⟩ := hc i x hli hx0
          have hxw : x ≠ a.size := Nat.ne_of_lt k1.1
          have hxq : x ≠ i := by intro h; subst h; omega
          rw [hso x hxw hxq hx1 hx2, hqce]
          simp only [hxw, hx1, hx2, ↓reduceIte, r, g0]
          exact ⟨Or.inr k1, k2, by omega, k4⟩
      · -- i is c1, c2 or an untouched slot: its child list is the old one
        have hich : (nd g i).children = (nd a i).children := by
          by_cases g2 : i = c1
          · subst g2; rw [hs1]
          · by_cases g3 : i = c2
            · subst g3; rw [hs2]
            · rw [hso i g0 g1 g2 g3]
        have hice : (nd g i).cedges = (nd a i).cedges := by
          by_cases g2 : i = c1
          · subst g2; rw [hs1]
          · by_cases g3 : i = c2
            · subst g3; rw [hs2]
            · rw [hso i g0 g1 g2 g3]
        rw [hich] at hx
        obtain ⟨k1, k2, k3, k4⟩ := hc i x hli hx
        have hxw : x ≠ a.size := Nat.ne_of_lt k1.1
        have hx1 : x ≠ c1 := by intro h; subst h; rw [hp1] at k2; exact g1 (Option.some.inj k2).symm
        have hx2 : x ≠ c2 := by intro h; subst h; rw [hp2] at k2; exact g1 (Option.some.inj k2).symm
        rw [hice]
        by_cases hxq : x = q
        · subst hxq
          rw [hqpar, hqpe]
          simp only [r, g0, hxw, ↓reduceIte]
          exact ⟨Or.inr k1, k2, by omega, k4⟩
        · rw [hso x hxw hxq hx1 hx2]
          simp only [r, g0, hxw, ↓reduceIte]
          exact ⟨Or.inr k1, k2, by omega, k4⟩
  · -- parent_ok
    intro i p hl hp
    rw [hlive] at hl
    rw [hlive]
    by_cases g0 : i = a.size
    · subst g0
      rw [hsw] at hp; simp [wNode] at hp; subst hp
      exact ⟨Or.inr hlq, (hmemq _).2 (Or.inl rfl)⟩
    · have hli : live a i := by rcases hl with h | h; exact absurd h g0; exact h
      by_cases g2 : i = c1
      · subst g2; rw [hs1] at hp; simp at hp; subst hp
        exact ⟨Or.inl rfl, by rw [hwch]; simp⟩
      · by_cases g3 : i = c2
        · subst g3; rw [hs2] at hp; simp at hp; subst hp
          exact ⟨Or.inl rfl, by rw [hwch]; simp⟩
        · have hp' : (nd a i).parent = some p := by
            by_cases g1 : i = q
            · subst g1; rw [hqpar] at hp; exact hp
            · rw [hso i g0 g1 g2 g3] at hp; exact hp
          obtain ⟨k1, k2⟩ := hpo i p hli hp'
          have hpw : p ≠ a.size := Nat.ne_of_lt k1.1
          refine ⟨Or.inr k1, ?_⟩
          by_cases hpq : p = q
          · subst hpq; exact (hmemq i).2 (Or.inr ⟨k2, g2, g3⟩)
          · have : (nd g p).children = (nd a p).children := by
              by_cases hp1' : p = c1
              · subst hp1'; rw [hs1]
              · by_cases hp2' : p = c2
                · subst hp2'; rw [hs2]
                · rw [hso p hpw hpq hp1' hp2']
            rw [this]; exact k2
  · -- nodup
    intro i
    by_cases g0 : i = a.size
    · subst g0; rw [hwch]; simp [h12]
    · by_cases g1 : i = q
      · subst g1; rw [hqch, List.nodup_append]
        refine ⟨List.Nodup.erase c2 (List.Nodup.erase c1 hndq), by simp, ?_⟩
        intro x hx y hy; simp at hy; subst hy
        intro h; subst h
        exact hwnotin (List.mem_of_mem_erase (List.mem_of_mem_erase hx))
      · by_cases g2 : i = c1
        · subst g2; rw [hs1]; exact hnd i
        · by_cases g3 : i = c2
          · subst g3; rw [hs2]; exact hnd i
          · rw [hso i g0 g1 g2 g3]; exact hnd i
  · -- cedge_dom
    intro i x hs
    by_cases g0 : i = a.size
    · subst g0
      rw [hwce] at hs; rw [hwch]
      by_cases k2 : x = c2
      · simp [k2]
      · by_cases k1 : x = c1
        · simp [k1]
        · simp [k1, k2] at hs
    · by_cases g1 : i = q
      · subst g1
        rw [hqce] at hs; rw [hmemq]
        by_cases k0 : x = a.size
        · exact Or.inl k0
        · by_cases k2 : x = c2
          · subst k2; simp [h2w] at hs
          · by_cases k1 : x = c1
            · subst k1; simp [h1w, h12] at hs
            · simp only [k0, k1, k2, ↓reduceIte] at hs
              exact Or.inr ⟨hcd i x hs, k1, k2⟩
      · by_cases g2 : i = c1
        · subst g2; rw [hs1] at hs ⊢; exact hcd i x hs
        · by_cases g3 : i = c2
          · subst g3; rw [hs2] at hs ⊢; exact hcd i x hs
          · rw [hso i g0 g1 g2 g3] at hs ⊢; exact hcd i x hs

end AR
