import PhyloModel.Arena.Below
/-! Scratch prototype: root paths and the common ancestor (C09) -/
namespace AR

/-- `l` is the root path of `x`: from a root down to `x` along parent links -/
inductive Path (a : Arena) : List Nat → Nat → Prop where
  | root {x} : live a x → (nd a x).parent = none → Path a [x] x
  | step {l p c} : Path a l p → live a c → (nd a c).parent = some p → Path a (l ++ [c]) c

theorem Path.ne_nil {a : Arena} {l : List Nat} {x : Nat} (h : Path a l x) : l ≠ [] := by
  cases h <;> simp

theorem Path.last {a : Arena} {l : List Nat} {x : Nat} (h : Path a l x) : l.getLast? = some x := by
  cases h <;> simp

theorem Path.unique {a : Arena} {l l' : List Nat} {x : Nat} (h : Path a l x) (h' : Path a l' x) : l = l' := by
  induction h generalizing l' with
  | root hl hp =>
    cases h' with
    | root _ _ => rfl
    | step _ _ hp' => rw [hp] at hp'; cases hp'
  | step hpath hl hp ih =>
    cases h' with
    | root _ hp' => rw [hp] at hp'; cases hp'
    | step hpath' _ hp' =>
      rw [hp] at hp'; cases hp'
      rw [ih hpath']

/-- every live node has a root path (under the structural invariant) -/
theorem Path.exists {a : Arena} {r : Nat → Nat} (w : W a r) :
    ∀ (n x : Nat), live a x → r x ≤ n → ∃ l, Path a l x := by
  intro n
  induction n with
  | zero =>
    intro x hl hr
    cases hp : (nd a x).parent with
    | none => exact ⟨[x], Path.root hl hp⟩
    | some p =>
      obtain ⟨hlp, hmem⟩ := w.parent_ok x p hl hp
      have := (w.child_ok p x hlp hmem).2.2; omega
  | succ n ih =>
    intro x hl hr
    cases hp : (nd a x).parent with
    | none => exact ⟨[x], Path.root hl hp⟩
    | some p =>
      obtain ⟨hlp, hmem⟩ := w.parent_ok x p hl hp
      have := (w.child_ok p x hlp hmem).2.2
      obtain ⟨l, hl'⟩ := ih p hlp (by omega)
      exact ⟨l ++ [x], Path.step hl' hl hp⟩

/-- `Tree::get_path_from_root`: climb to the root, consing — the accumulator ends up root-first -/
def climbF : Nat → Arena → Nat → List Nat → Option (List Nat)
  | 0, _, _, _ => none
  | f + 1, a, cur, acc =>
    if cur < a.size ∧ (nd a cur).deleted = false then
      match (nd a cur).parent with
      | some p => climbF f a p (cur :: acc)
      | none => some (cur :: acc)
    else none

theorem climb_path {a : Arena} {l : List Nat} {x : Nat} (h : Path a l x) :
    ∀ (f : Nat) (acc : List Nat), l.length ≤ f → climbF f a x acc = some (l ++ acc) := by
  induction h with
  | root hl hp =>
    intro f acc hf
    cases f with
    | zero => simp at hf
    | succ f =>
      have h1 : _ ∧ _ := hl
      simp [climbF, h1, hp]
  | step hpath hl hp ih =>
    intro f acc hf
    cases f with
    | zero => simp at hf
    | succ f =>
      have h1 : _ ∧ _ := hl
      simp only [climbF, h1, and_self, ↓reduceIte, hp]
      rw [ih f _ (by simp at hf; omega)]
      simp

/-- a prefix of a root path ending in `m` is the root path of `m`, and the rest measures the level -/
theorem Path.split {a : Arena} {l : List Nat} {x : Nat} (h : Path a l x) :
    ∀ (l1 l2 : List Nat) (m : Nat), l = l1 ++ m :: l2 → Path a (l1 ++ [m]) m ∧ BelowK a m x l2.length := by
  induction h with
  | root hl hp =>
    intro l1 l2 m heq
    have : l1 = [] ∧ l2 = [] := by
      cases l1 with
      | nil => simp at heq; exact ⟨rfl, heq.2⟩
      | cons y ys => simp at heq
    obtain ⟨rfl, rfl⟩ := this
    simp at heq; subst heq
    exact ⟨Path.root hl hp, BelowK.refl hl⟩
  | @step l p c hpath hl hp ih =>
    intro l1 l2 m heq
    -- either m is the last element c, or m lies in l
    rcases List.eq_nil_or_concat l2 with rfl | ⟨l2', y, rfl⟩
    · -- l ++ [c] = l1 ++ [m]
      have := List.append_inj' heq (by simp)
      obtain ⟨h1, h2⟩ := this
      simp at h2; subst h2; subst h1
      exact ⟨Path.step hpath hl hp, BelowK.refl hl⟩
    · -- l ++ [c] = l1 ++ m :: (l2' ++ [y])
      have heq' : l ++ [c] = (l1 ++ m :: l2') ++ [y] := by simp [heq]
      have := List.append_inj' heq' (by simp)
      obtain ⟨h1, h2⟩ := this
      have h2' : c = y := by simpa using h2
      subst h2'
      obtain ⟨g1, g2⟩ := ih l1 l2' m h1
      refine ⟨g1, ?_⟩
      have hlen : (l2'.concat c).length = l2'.length + 1 := by simp
      rw [hlen]
      exact BelowK.step g2 hl hp

/-- every node above `x` lies on the root path of `x` -/
theorem Path.of_below {a : Arena} {m x k : Nat} (hb : BelowK a m x k) :
    ∀ {lm : List Nat}, Path a lm m → ∃ l2, l2.length = k ∧ Path a (lm ++ l2) x := by
  induction hb with
  | refl _ => intro lm hm; exact ⟨[], rfl, by simpa using hm⟩
  | step _ hl hp ih =>
    intro lm hm
    obtain ⟨l2, hlen, hpath⟩ := ih hm
    exact ⟨l2 ++ [_], by simp [hlen], by rw [← List.append_assoc]; exact Path.step hpath hl hp⟩

/-- a node above `x` cuts the root path of `x` into its own root path and the levels in between -/
theorem Path.above {a : Arena} {m x k : Nat} (hb : BelowK a m x k) :
    ∀ {p : List Nat}, Path a p x → ∃ lm l2, p = lm ++ l2 ∧ Path a lm m ∧ l2.length = k := by
  induction hb with
  | refl _ => intro p hp; exact ⟨p, [], by simp, hp, rfl⟩
  | @step pp cc kk _ hlc hpc ih =>
    intro p hp
    cases hp with
    | root _ hpn => rw [hpc] at hpn; cases hpn
    | step hp' _ hpc' =>
      rw [hpc] at hpc'; cases hpc'
      obtain ⟨lm, l2, h1, h2, h3⟩ := ih hp'
      exact ⟨lm, l2 ++ [cc], by rw [h1]; simp, h2, by simp [h3]⟩

end AR
