import PhyloModel.Arena.Reset
namespace AR

theorem reset_main : ∀ (f D : Nat) (r : Nat → Nat) (a : Arena) (x d : Nat), W a r → live a x →
    (∀ i, live a i → r i ≤ D) → D < f + r x →
    ∃ a', resetF f a x d = some a' ∧ ResetOK a a' x d := by
  intro f
  induction f with
  | zero => intro D r a x d _ hl hD hf; have := hD x hl; omega
  | succ f ihf =>
    intro D r a x d w hlx hD hf
    let a0 := a.setIfInBounds x { nd a x with depth := d }
    have he0 : Eqv a a0 := eqv_setDepth a x d
    have hxlt : x < a.size := hlx.1
    have hdx : (nd a0 x).depth = d := by
      show (nd (a.setIfInBounds x { nd a x with depth := d }) x).depth = d
      rw [nd_set]; simp [hxlt]
    have hout0 : ∀ v, v ≠ x → (nd a0 v).depth = (nd a v).depth := by
      intro v hv
      show (nd (a.setIfInBounds x { nd a x with depth := d }) v).depth = _
      rw [nd_set]; simp [hv]
    obtain ⟨b', hfold, he, h2, h3, h4⟩ :=
      reset_loop f D r (fun a c d w hl hD hf => ihf D r a c d w hl hD hf)
        (nd a x).children [] a a0 x d w hlx hD (by omega) (by simp) he0 hdx
        (by intro c v k hc; simp at hc)
        (by intro v hv _; exact hout0 v hv)
    refine ⟨b', ?_, he, ?_, ?_⟩
    · have h1 : x < a.size ∧ (nd a x).deleted = false := hlx
      rw [resetF, if_pos h1]
      exact hfold
    · intro v k hb
      cases k with
      | zero =>
        cases hb with
        | refl _ => simpa using h2
      | succ k =>
        obtain ⟨c, hc, hbc⟩ := BelowK.top w hb
        rw [h3 c v k hc hbc]; omega
    · intro v hnb
      have hvx : v ≠ x := by intro h; subst h; exact hnb 0 (BelowK.refl hlx)
      exact h4 v hvx (fun c k hc hbc => hnb (k + 1) (BelowK.under_child w hlx hc hbc))

end AR
