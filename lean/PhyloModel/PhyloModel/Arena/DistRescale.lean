import PhyloModel.Arena.DistBase
import PhyloModel.Arena.CompressPost
/-! C11, `rescale`: every node-to-node distance is multiplied by the factor (length component; the edge
    count is unchanged).  No invariant is needed: `rescale` touches only the two length records. -/
namespace AR

theorem rescale_nd (a : Arena) (k : Int) (i : Nat) : nd (rescale a k) i = scaleNode k (nd a i) :=
  nd_map a _ (scaleNode_dead k) i

theorem rescale_size (a : Arena) (k : Int) : (rescale a k).size = a.size := by simp [rescale]

/-- climbing to the root reads only `parent`, `deleted` and the size -/
theorem climbF_congr {a b : Arena} (hsz : b.size = a.size) (hpar : ∀ i, (nd b i).parent = (nd a i).parent)
    (hdel : ∀ i, (nd b i).deleted = (nd a i).deleted) :
    ∀ (f x : Nat) (acc : List Nat), climbF f b x acc = climbF f a x acc := by
  intro f
  induction f with
  | zero => intro x acc; rfl
  | succ f ih =>
    intro x acc
    simp only [climbF, hsz, hpar, hdel]
    split
    · split
      · exact ih _ _
      · rfl
    · rfl

theorem pathFromRoot_congr {a b : Arena} (hsz : b.size = a.size) (hpar : ∀ i, (nd b i).parent = (nd a i).parent)
    (hdel : ∀ i, (nd b i).deleted = (nd a i).deleted) (x : Nat) : pathFromRoot b x = pathFromRoot a x := by
  simp only [pathFromRoot, fuelOf, hsz, climbF_congr hsz hpar hdel]

theorem optSum_scale (k : Int) (l : List (Option Int)) :
    optSum (l.map (fun e => e.map (· * k))) = (optSum l).map (· * k) := by
  induction l with
  | nil => simp [optSum_nil]
  | cons x xs ih =>
    simp only [List.map_cons, optSum_cons, ih]
    cases x <;> cases optSum xs <;> simp [optAdd, Int.add_mul]

/-- the answer of `get_distance` with its length multiplied by `k` -/
def scaleDist (k : Int) (d : Option Int × Nat) : Option Int × Nat := (d.1.map (· * k), d.2)

/-- **`rescale` multiplies every path length**: for all node ids (live or not, equal or not) the answer of
    `get_distance` after `rescale k` is the answer before with the length multiplied by `k`; the edge
    count and every error are unchanged -/
theorem rescale_distance (a : Arena) (k : Int) (x y : Nat) :
    distance (rescale a k) x y = (do let d ← distance a x y; pure (scaleDist k d)) := by
  have hpath : ∀ z, pathFromRoot (rescale a k) z = pathFromRoot a z :=
    pathFromRoot_congr (rescale_size a k) (fun i => by rw [rescale_nd]; rfl) (fun i => by rw [rescale_nd]; rfl)
  unfold distance
  by_cases hxy : x = y
  · simp [hxy, scaleDist]
  · simp only [hxy, ↓reduceIte, hpath]
    cases pathFromRoot a x with
    | err e => rfl
    | panic => rfl
    | ok ps =>
      cases pathFromRoot a y with
      | err e => rfl
      | panic => rfl
      | ok pt =>
        simp only [QR.bind_ok, QR.pure_eq, scaleDist]
        congr 2
        rw [← optSum_scale, List.map_map]
        congr 1
        apply List.map_congr_left
        intro i _
        simp [rescale_nd, scaleNode]

/-- in the `SameLen`-style form used by the other operations: a successful answer `(d, n)` becomes
    `(d * k, n)`, and conversely -/
theorem rescale_distance_ok (a : Arena) (k : Int) (x y : Nat) (d : Option Int) (n : Nat)
    (h : distance a x y = .ok (d, n)) : distance (rescale a k) x y = .ok (d.map (· * k), n) := by
  rw [rescale_distance, h]; rfl

/-- the set of tips is unchanged -/
theorem rescale_tips (a : Arena) (k : Int) (i : Nat) : IsTip (rescale a k) i ↔ IsTip a i := by
  simp only [IsTip, live, rescale_size, rescale_nd]
  simp [scaleNode]

/-- a concrete instance: a cherry with lengths 3 and 4, rescaled by 5 -/
example : distance (rescale ((addChildNamed (addChildNamed (add #[] none).1 0 (some 3) none).1 0 (some 4) none).1) 5) 1 2
    = .ok (some 35, 2) :=
  rescale_distance_ok _ 5 1 2 (some 7) 2 (distIs_eq (by decide))

end AR
