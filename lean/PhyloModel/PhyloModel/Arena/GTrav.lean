import PhyloModel.Arena.RoseStats
import PhyloModel.Arena.Inorder
import PhyloModel.Arena.LevelFacts
/-! # Traversals of a generic labelled rose tree, natural in the labels

`GT α` is a rose tree with labels in `α`.  The four traversals (`pre`, `post`, `ino`, `level`) are defined once;
each commutes with relabelling (`…_map`).  The id tree `RTI`, the abstract tree `Rose` and the id-free tree
`RoseNL` embed into `GT`, and the existing `RTI`-level traversals (`AR.pre`, `AR.post`, `AR.ino`, `LV.bfsD`)
are the generic ones on the embedded tree. -/
namespace AR

inductive GT (α : Type) where
  | node (lab : α) (kids : List (GT α))

namespace GT
variable {α β γ : Type}

def lab : GT α → α | .node l _ => l
def kids : GT α → List (GT α) | .node _ ks => ks

mutual
def map (f : α → β) : GT α → GT β | .node l ks => .node (f l) (mapL f ks)
def mapL (f : α → β) : List (GT α) → List (GT β) | [] => [] | k :: ks => map f k :: mapL f ks
end

theorem mapL_eq (f : α → β) : ∀ ks : List (GT α), mapL f ks = ks.map (map f)
  | [] => rfl
  | k :: ks => by rw [mapL, mapL_eq f ks]; rfl

@[simp] theorem map_lab (f : α → β) (t : GT α) : (map f t).lab = f t.lab := by cases t; simp [map, lab]
@[simp] theorem map_kids (f : α → β) (t : GT α) : (map f t).kids = t.kids.map (map f) := by
  cases t; simp [map, kids, mapL_eq]

mutual
theorem map_map (f : α → β) (g : β → γ) : ∀ t : GT α, map g (map f t) = map (g ∘ f) t
  | .node l ks => by simp only [map, Function.comp, mapL_mapL f g ks]
theorem mapL_mapL (f : α → β) (g : β → γ) : ∀ ts : List (GT α), mapL g (mapL f ts) = mapL (g ∘ f) ts
  | [] => by simp [mapL]
  | t :: ts => by simp only [mapL, map_map f g t, mapL_mapL f g ts]
end

/-! ### pre-order, post-order -/
mutual
def pre : GT α → List α | .node l ks => l :: preL ks
def preL : List (GT α) → List α | [] => [] | k :: ks => pre k ++ preL ks
end
mutual
def post : GT α → List α | .node l ks => postL ks ++ [l]
def postL : List (GT α) → List α | [] => [] | k :: ks => post k ++ postL ks
end

mutual
theorem pre_map (f : α → β) : ∀ t : GT α, (map f t).pre = t.pre.map f
  | .node l ks => by simp only [map, pre, List.map_cons, preL_map f ks]
theorem preL_map (f : α → β) : ∀ ts : List (GT α), preL (mapL f ts) = (preL ts).map f
  | [] => by simp [mapL, preL]
  | t :: ts => by simp only [mapL, preL, List.map_append, pre_map f t, preL_map f ts]
end
mutual
theorem post_map (f : α → β) : ∀ t : GT α, (map f t).post = t.post.map f
  | .node l ks => by simp only [map, post, List.map_append, List.map_cons, List.map_nil, postL_map f ks]
theorem postL_map (f : α → β) : ∀ ts : List (GT α), postL (mapL f ts) = (postL ts).map f
  | [] => by simp [mapL, postL]
  | t :: ts => by simp only [mapL, postL, List.map_append, post_map f t, postL_map f ts]
end

/-! ### in-order (binary trees; a single kid is a left kid) -/
def ino : GT α → Option (List α)
  | .node i [] => some [i]
  | .node i [l] => (ino l).map (· ++ [i])
  | .node i [l, r] => (ino l).bind fun a => (ino r).map fun b => a ++ [i] ++ b
  | .node _ (_ :: _ :: _ :: _) => none

theorem ino_map (f : α → β) : ∀ t : GT α, (map f t).ino = t.ino.map (·.map f)
  | .node i [] => by simp [map, mapL, ino]
  | .node i [l] => by
    have := ino_map f l
    simp only [map, mapL, ino, this]
    cases ino l <;> simp
  | .node i [l, r] => by
    have h1 := ino_map f l
    have h2 := ino_map f r
    simp only [map, mapL, ino, h1, h2]
    cases ino l <;> cases ino r <;> simp
  | .node _ (_ :: _ :: _ :: _) => by simp [map, mapL, ino]

/-! ### level order -/
mutual
def size : GT α → Nat | .node _ ks => 1 + sizeL ks
def sizeL : List (GT α) → Nat | [] => 0 | k :: ks => size k + sizeL ks
end

theorem sizeL_append : ∀ (a b : List (GT α)), sizeL (a ++ b) = sizeL a + sizeL b
  | [], b => by simp [sizeL]
  | x :: a, b => by simp only [List.cons_append, sizeL, sizeL_append a b]; omega

theorem size_eq (t : GT α) : size t = 1 + sizeL t.kids := by cases t; simp [size, kids]

/-- the queue loop of `Tree::levelorder`, one dequeue per unit of fuel -/
def bfs : Nat → List (GT α) → List α
  | 0, _ => []
  | _, [] => []
  | f + 1, t :: q => t.lab :: bfs f (q ++ t.kids)

theorem bfs_nil (f : Nat) : bfs f ([] : List (GT α)) = [] := by cases f <;> simp [bfs]

/-- enough fuel is as good as exactly enough -/
theorem bfs_fuel : ∀ (f : Nat) (q : List (GT α)), sizeL q ≤ f → bfs f q = bfs (sizeL q) q
  | 0, q, h => by
    have : sizeL q = 0 := by omega
    rw [this]
  | f + 1, [], _ => by simp [bfs_nil]
  | f + 1, t :: q, h => by
    have hs : sizeL (t :: q) = sizeL (q ++ t.kids) + 1 := by
      rw [sizeL_append, sizeL, size_eq]; omega
    rw [hs, bfs, bfs, bfs_fuel f (q ++ t.kids) (by omega)]

/-- level order of a tree -/
def level (t : GT α) : List α := bfs (size t) [t]

theorem bfs_map (f : α → β) : ∀ (n : Nat) (q : List (GT α)), bfs n (q.map (map f)) = (bfs n q).map f
  | 0, _ => by simp [bfs]
  | n + 1, [] => by simp [bfs]
  | n + 1, t :: q => by
    have := bfs_map f n (q ++ t.kids)
    simp only [List.map_cons, bfs, map_lab, map_kids, ← List.map_append, this]

mutual
theorem size_map (f : α → β) : ∀ t : GT α, size (map f t) = size t
  | .node l ks => by simp only [map, size, sizeL_map f ks]
theorem sizeL_map (f : α → β) : ∀ ts : List (GT α), sizeL (mapL f ts) = sizeL ts
  | [] => by simp [mapL, sizeL]
  | t :: ts => by simp only [mapL, sizeL, size_map f t, sizeL_map f ts]
end

theorem level_map (f : α → β) (t : GT α) : (map f t).level = t.level.map f := by
  have := bfs_map f (size t) [t]
  simpa [level, size_map] using this

end GT

/-! ### embeddings -/

mutual
def rtiGT : RTI → GT Nat | .node i ks => .node i (rtiGTL ks)
def rtiGTL : List RTI → List (GT Nat) | [] => [] | k :: ks => rtiGT k :: rtiGTL ks
end
mutual
/-- a `Rose` as a tree labelled with (id, name) -/
def roseGT : Rose → GT (Nat × Option String) | .node i n _ _ ks => .node (i, n) (roseGTL ks)
def roseGTL : List Rose → List (GT (Nat × Option String)) | [] => [] | k :: ks => roseGT k :: roseGTL ks
end
mutual
/-- a `RoseNL` as a tree labelled with names -/
def nlGT : RoseNL → GT (Option String) | .node n _ ks => .node n (nlGTL ks)
def nlGTL : List RoseNL → List (GT (Option String)) | [] => [] | k :: ks => nlGT k :: nlGTL ks
end

mutual
theorem roseGT_erase : ∀ t : Rose, nlGT (erase t) = GT.map Prod.snd (roseGT t)
  | .node i n l d ks => by simp only [erase, nlGT, roseGT, GT.map, roseGTL_erase ks]
theorem roseGTL_erase : ∀ ts : List Rose, nlGTL (eraseL ts) = GT.mapL Prod.snd (roseGTL ts)
  | [] => by simp [eraseL, nlGTL, roseGTL, GT.mapL]
  | t :: ts => by simp only [eraseL, nlGTL, roseGTL, GT.mapL, roseGT_erase t, roseGTL_erase ts]
end

mutual
theorem roseGT_decorate (a : Arena) : ∀ t : RTI,
    roseGT (decorate a t) = GT.map (fun i => (i, (nd a i).name)) (rtiGT t)
  | .node i ks => by simp only [decorate, roseGT, rtiGT, GT.map, roseGTL_decorate a ks]
theorem roseGTL_decorate (a : Arena) : ∀ ts : List RTI,
    roseGTL (decorateL a ts) = GT.mapL (fun i => (i, (nd a i).name)) (rtiGTL ts)
  | [] => by simp [decorateL, roseGTL, rtiGTL, GT.mapL]
  | t :: ts => by simp only [decorateL, roseGTL, rtiGTL, GT.mapL, roseGT_decorate a t, roseGTL_decorate a ts]
end

/-! ### the existing `RTI`-level traversals are the generic ones -/

mutual
theorem pre_rtiGT : ∀ t : RTI, (rtiGT t).pre = pre t
  | .node i ks => by simp only [rtiGT, GT.pre, pre, preL_rtiGT ks]
theorem preL_rtiGT : ∀ ts : List RTI, GT.preL (rtiGTL ts) = preL ts
  | [] => by simp [rtiGTL, GT.preL, preL]
  | t :: ts => by simp only [rtiGTL, GT.preL, preL, pre_rtiGT t, preL_rtiGT ts]
end
mutual
theorem post_rtiGT : ∀ t : RTI, (rtiGT t).post = post t
  | .node i ks => by simp only [rtiGT, GT.post, post, postL_rtiGT ks]
theorem postL_rtiGT : ∀ ts : List RTI, GT.postL (rtiGTL ts) = postL ts
  | [] => by simp [rtiGTL, GT.postL, postL]
  | t :: ts => by simp only [rtiGTL, GT.postL, postL, post_rtiGT t, postL_rtiGT ts]
end

theorem ino_rtiGT : ∀ t : RTI, (rtiGT t).ino = ino t
  | .node i [] => by simp [rtiGT, rtiGTL, GT.ino, ino]
  | .node i [l] => by simp only [rtiGT, rtiGTL, GT.ino, ino, ino_rtiGT l]
  | .node i [l, r] => by simp only [rtiGT, rtiGTL, GT.ino, ino, ino_rtiGT l, ino_rtiGT r]
  | .node _ (_ :: _ :: _ :: _) => by simp [rtiGT, rtiGTL, GT.ino, ino]

mutual
def lvGT : LV.T → GT Nat | .node i ks => .node i (lvGTL ks)
def lvGTL : List LV.T → List (GT Nat) | [] => [] | k :: ks => lvGT k :: lvGTL ks
end

theorem lvGTL_eq : ∀ ks : List LV.T, lvGTL ks = ks.map lvGT
  | [] => rfl
  | k :: ks => by rw [lvGTL, lvGTL_eq ks]; rfl

mutual
theorem lvGT_toLV : ∀ t : RTI, lvGT (toLV t) = rtiGT t
  | .node i ks => by simp only [toLV, lvGT, rtiGT, lvGTL_toLVL ks]
theorem lvGTL_toLVL : ∀ ts : List RTI, lvGTL (toLVL ts) = rtiGTL ts
  | [] => by simp [toLVL, lvGTL, rtiGTL]
  | t :: ts => by simp only [toLVL, lvGTL, rtiGTL, lvGT_toLV t, lvGTL_toLVL ts]
end

theorem bfsD_gt : ∀ (f : Nat) (q : List (LV.T × Nat)),
    (LV.bfsD f q).map (·.1) = GT.bfs f (q.map (fun p => lvGT p.1))
  | 0, _ => by simp [LV.bfsD, GT.bfs]
  | f + 1, [] => by simp [LV.bfsD, GT.bfs]
  | f + 1, (t, d) :: q => by
    have := bfsD_gt f (q ++ t.kids.map (fun k => (k, d + 1)))
    cases t with
    | node i ks =>
      simp only [LV.bfsD, List.map_cons, GT.bfs, LV.T.id, LV.T.kids, lvGT, GT.lab, GT.kids] at this ⊢
      rw [this]
      simp [lvGTL_eq, Function.comp_def]

mutual
theorem size_rtiGT : ∀ t : RTI, (rtiGT t).size = szR t
  | .node i ks => by simp only [rtiGT, GT.size, szR, sizeL_rtiGTL ks]
theorem sizeL_rtiGTL : ∀ ts : List RTI, GT.sizeL (rtiGTL ts) = szRL ts
  | [] => by simp [rtiGTL, GT.sizeL, szRL]
  | t :: ts => by simp only [rtiGTL, GT.sizeL, szRL, size_rtiGT t, sizeL_rtiGTL ts]
end

/-- with enough fuel, the rose-level queue loop of `Arena/Traverse.lean` is the generic level order -/
theorem bfsD_level (t : RTI) (f : Nat) (hf : szR t ≤ f) :
    (LV.bfsD f [(toLV t, 0)]).map (·.1) = (rtiGT t).level := by
  rw [bfsD_gt]
  simp only [List.map_cons, List.map_nil, lvGT_toLV]
  rw [GT.bfs_fuel f [rtiGT t] (by simp [GT.sizeL, size_rtiGT]; exact hf)]
  simp [GT.level, GT.sizeL]

end AR
