import PhyloModel.Arena.PathFacts
import PhyloModel.Arena.PruneB
/-! Under the arena invariant the cached depth of a live node is the number of edges to its root, and it
    is smaller than the arena size: the executable model's fuel always suffices. -/
namespace AR

theorem Path.length_eq_depth {a : Arena} (hinv : Inv a) {l : List Nat} {x : Nat} (h : Path a l x) :
    l.length = (nd a x).depth + 1 := by
  induction h with
  | root hl hp => simp [hinv.root_depth _ hl hp]
  | @step l p c _ hl hp ih =>
    obtain ⟨hlp, hmem⟩ := hinv.parent_ok c p hl hp
    have := (hinv.child_ok p c hlp hmem).2.2.1
    simp [ih, this]

/-- the depth of a node is the length of its chain of ancestors (number of edges to the root) -/
theorem depth_is_edges_to_root {a : Arena} (hinv : Inv a) (x : Nat) (hl : live a x) :
    ∃ l, Path a l x ∧ l.length = (nd a x).depth + 1 := by
  obtain ⟨l, hp⟩ := Path.exists hinv.toW ((nd a x).depth) x hl (Nat.le_refl _)
  exact ⟨l, hp, hp.length_eq_depth hinv⟩

theorem depth_lt_size {a : Arena} (hinv : Inv a) (x : Nat) (hl : live a x) : (nd a x).depth < a.size := by
  obtain ⟨l, hp, hlen⟩ := depth_is_edges_to_root hinv x hl
  have := hp.length_le hinv.toW
  omega

def maxDepthBound (a : Arena) : Nat := a.size

theorem depth_le_size {a : Arena} (hinv : Inv a) : ∀ i, live a i → (nd a i).depth ≤ a.size :=
  fun i hl => Nat.le_of_lt (depth_lt_size hinv i hl)

end AR
