import PhyloModel.Arena.Prune
/-! Scratch prototype: subtree levels (`BelowK`) under a structural invariant with a ghost rank -/
namespace AR

/-- structure-only invariant: links mirrored, child lists duplicate-free, a ghost rank grows along edges
    (acyclicity witness that does not depend on the cached `depth` field) -/
structure W (a : Arena) (r : Nat → Nat) : Prop where
  child_ok : ∀ i c, live a i → c ∈ (nd a i).children → live a c ∧ (nd a c).parent = some i ∧ r i < r c
  parent_ok : ∀ i p, live a i → (nd a i).parent = some p → live a p ∧ i ∈ (nd a p).children
  nodup : ∀ i, (nd a i).children.Nodup

/-- `v` is exactly `k` levels below `x` -/
inductive BelowK (a : Arena) (x : Nat) : Nat → Nat → Prop where
  | refl : live a x → BelowK a x x 0
  | step {p c k} : BelowK a x p k → live a c → (nd a c).parent = some p → BelowK a x c (k + 1)

theorem BelowK.is_live {a : Arena} {x v k : Nat} (h : BelowK a x v k) : live a v := by
  cases h <;> assumption

theorem BelowK.rank {a : Arena} {r : Nat → Nat} (w : W a r) {x v k : Nat} (h : BelowK a x v k) :
    r x + k ≤ r v := by
  induction h with
  | refl _ => omega
  | step hp hl hpar ih =>
    obtain ⟨hlp, hmem⟩ := w.parent_ok _ _ hl hpar
    have := (w.child_ok _ _ hlp hmem).2.2
    omega

theorem BelowK.level_unique {a : Arena} {r : Nat → Nat} (w : W a r) {x v k k' : Nat}
    (h : BelowK a x v k) (h' : BelowK a x v k') : k = k' := by
  induction h generalizing k' with
  | refl hl =>
    cases h' with
    | refl _ => rfl
    | step hp' hl' hpar' =>
      -- x has a parent p' that is below x: rank contradiction
      have h1 := BelowK.rank w hp'
      obtain ⟨hlp, hmem⟩ := w.parent_ok _ _ hl' hpar'
      have := (w.child_ok _ _ hlp hmem).2.2
      omega
  | step hp hl hpar ih =>
    cases h' with
    | refl _ =>
      have h1 := BelowK.rank w hp
      obtain ⟨hlp, hmem⟩ := w.parent_ok _ _ hl hpar
      have := (w.child_ok _ _ hlp hmem).2.2
      omega
    | step hp' hl' hpar' =>
      rw [hpar] at hpar'
      cases hpar'
      rw [ih hp']

/-- top decomposition: below `x` at level `k+1` ⇒ below one of `x`'s children at level `k` -/
theorem BelowK.top {a : Arena} {r : Nat → Nat} (w : W a r) {x v k : Nat} (h : BelowK a x v (k + 1)) :
    ∃ c, c ∈ (nd a x).children ∧ BelowK a c v k := by
  generalize hk : k + 1 = n at h
  induction h generalizing k with
  | refl _ => omega
  | @step p c m hp hl hpar ih =>
    have hm : m = k := by omega
    subst hm
    cases m with
    | zero =>
      cases hp with
      | refl hlx =>
        exact ⟨c, (w.parent_ok _ _ hl hpar).2, BelowK.refl hl⟩
    | succ m' =>
      obtain ⟨c0, hc0, hb⟩ := ih rfl
      exact ⟨c0, hc0, BelowK.step hb hl hpar⟩

/-- and conversely -/
theorem BelowK.under_child {a : Arena} {r : Nat → Nat} (w : W a r) {x c v k : Nat} (hx : live a x)
    (hc : c ∈ (nd a x).children) (h : BelowK a c v k) : BelowK a x v (k + 1) := by
  induction h with
  | refl hl =>
    have := (w.child_ok _ _ hx hc).2.1
    exact BelowK.step (BelowK.refl hx) hl this
  | step hp hl hpar ih => exact BelowK.step ih hl hpar

/-- subtrees of distinct children are disjoint -/
theorem BelowK.disjoint {a : Arena} {r : Nat → Nat} (w : W a r) {x c1 c2 v k1 k2 : Nat} (hx : live a x)
    (h1c : c1 ∈ (nd a x).children) (h2c : c2 ∈ (nd a x).children) (hne : c1 ≠ c2)
    (h1 : BelowK a c1 v k1) (h2 : BelowK a c2 v k2) : False := by
  have hb1 := BelowK.under_child w hx h1c h1
  have hb2 := BelowK.under_child w hx h2c h2
  have hk := BelowK.level_unique w hb1 hb2
  have hk' : k1 = k2 := by omega
  subst hk'
  clear hb1 hb2 hk
  induction h1 with
  | refl hl =>
    cases h2 with
    | refl _ => exact hne rfl
  | step hp hl hpar ih =>
    cases h2 with
    | step hp' hl' hpar' =>
      rw [hpar] at hpar'; cases hpar'
      exact ih hp'

end AR
