import PhyloModel.Arena.PruneB
namespace AR

theorem prune_main2 : ∀ (f D : Nat) (a : Arena) (c : Nat), Inv a → Tomb a → live a c →
    (∀ i, live a i → (nd a i).depth ≤ D) → D < f + (nd a c).depth →
    ∃ a1, pruneF f a c = some a1 ∧ PruneOK2 a a1 c := by
  intro f
  induction f with
  | zero => intro D a c _ _ hl hD hf; have := hD c hl; omega
  | succ f ihf =>
    intro D a c hia hta hlc hD hf
    have wa := hia.toW
    obtain ⟨b', hfold, hib', htb', hlb', hch', hsz', hsub', hgone', hkept', hsame', hpar', hdep'⟩ :=
      prune_loop2 f D (fun a c h1 h2 h3 h4 h5 => ihf D a c h1 h2 h3 h4 h5)
        (nd a c).children [] a a c hia hlc (by simp) hia hta hlc rfl rfl hD (by omega)
        (fun _ h => h) (by intro c0 v k hc0; simp at hc0) (fun i h _ => h) (fun _ _ _ => rfl) rfl rfl
    have hfin := finish_inv b' c hib' htb' hlb' hch'
    have hcsz : c < b'.size := hlb'.1
    have hnd := finish_nd b' c
    have hlive : ∀ i, live (finish b' c) i ↔ (i ≠ c ∧ live b' i) := by
      intro i
      simp only [live, hfin.2.2, hnd i hcsz]
      by_cases hic : i = c
      · subst hic; simp [dead]
      · simp only [hic, ↓reduceIte, ne_eq, not_false_eq_true, true_and]
        split <;> simp [removeChild]
    refine ⟨finish b' c, ?_, ?_⟩
    · have h1 : c < a.size ∧ (nd a c).deleted = false := hlc
      have h2 : c < b'.size ∧ (nd b' c).deleted = false := hlb'
      simp only [pruneF, h1, and_self, ↓reduceIte, hfold, h2]
    · constructor
      · exact hfin.1
      · exact hfin.2.1
      · rw [hfin.2.2, hsz']
      · -- gone
        intro v k hb hl
        obtain ⟨hvc, hlv⟩ := (hlive v).1 hl
        cases k with
        | zero => cases hb with | refl _ => exact hvc rfl
        | succ k =>
          obtain ⟨c0, hc0, hb0⟩ := BelowK.top wa hb
          exact hgone' c0 v k hc0 hb0 hlv
      · -- kept
        intro i hla hnb
        have hic : i ≠ c := by intro h; subst h; exact hnb 0 (BelowK.refl hlc)
        exact (hlive i).2 ⟨hic, hkept' i hla (fun c0 k hc0 hb0 =>
          hnb (k + 1) (BelowK.under_child wa hlc hc0 hb0))⟩
      · intro i h; exact hsub' i ((hlive i).1 h).2
      · intro i hl hne
        obtain ⟨hic, hbi⟩ := (hlive i).1 hl
        rw [hnd i hcsz]
        simp only [hic, ↓reduceIte, hpar']
        have : ¬ ((nd a c).parent = some i ∧ i < b'.size) := fun h => hne h.1
        simp only [this, ↓reduceIte]
        exact hsame' i hbi hic
      · intro p hp
        obtain ⟨hlp, hmem⟩ := hia.parent_ok c p hlc hp
        have hdc := (hia.child_ok p c hlp hmem).2.2.1
        have hpc : p ≠ c := by intro h; subst h; omega
        have hp_notbelow : ∀ c0 k, c0 ∈ (nd a c).children → ¬ BelowK a c0 p k := by
          intro c0 k hc0 hb
          have h1 := BelowK.rank wa hb
          have h2 := (hia.child_ok c c0 hlc hc0).2.2.1
          omega
        have hbp : live b' p := hkept' p hlp hp_notbelow
        rw [hnd p hcsz]
        simp only [hpc, ↓reduceIte, hpar', hp, true_and]
        have : p < b'.size := hbp.1
        simp only [this, ↓reduceIte]
        rw [hsame' p hbp hpc]

end AR
