import PhyloModel.Arena.AnswersDependOnTree
import PhyloModel.Arena.BlankNames
/-! # Every tree has a fresh arena

`freshArena T` builds the tree `T` the way the Newick parser does: the root with `add`, then every other node
with `add_child` in pre-order — no removed slot, ids in pre-order.  It is well formed, has one root, and its
abstract tree erases to `T`.  Hence the hypotheses of `answers_depend_only_on_tree` are satisfiable for every
tree (whose root carries no branch length: the model's operations cannot give the root one), and "the answers
on the arena reached by an edit history equal the answers on a freshly built arena of the current tree" is
an instance of that theorem. -/
namespace AR

/-- `add_child` of a fresh named node below `p` -/
def fresh1 (a : Arena) (p : Nat) (l : Option Int) (n : Option String) : Arena := (addChildNamed a p l n).1

mutual
/-- add the tree `T` below the live slot `p`, pre-order -/
def freshBelow (a : Arena) (p : Nat) : RoseNL → Arena
  | .node n l ks => freshKids (fresh1 a p l n) a.size ks
def freshKids (a : Arena) (p : Nat) : List RoseNL → Arena
  | [] => a
  | k :: ks => freshKids (freshBelow a p k) p ks
end

def freshArena : RoseNL → Arena
  | .node n _ ks => freshKids (add #[] n).1 0 ks

mutual
def sizeNL : RoseNL → Nat | .node _ _ ks => 1 + sizeNLL ks
def sizeNLL : List RoseNL → Nat | [] => 0 | k :: ks => sizeNL k + sizeNLL ks
end

/-! ### one `add_child` -/

theorem fresh1_spec {a : Arena} {p : Nat} (hp : live a p) (l : Option Int) (n : Option String) :
    (fresh1 a p l n).size = a.size + 1 ∧
    (∀ j, j ≠ a.size → j ≠ p → nd (fresh1 a p l n) j = nd a j) ∧
    nd (fresh1 a p l n) a.size = { parent := some p, pedge := l, depth := (nd a p).depth + 1, name := n } ∧
    nd (fresh1 a p l n) p = setCedge { nd a p with children := (nd a p).children ++ [a.size] } a.size l := by
  have hp' : p < a.size ∧ (nd a p).deleted = false := hp
  have hne : p ≠ a.size := by omega
  simp only [fresh1, addChildNamed, addChild, hp', and_self, ↓reduceIte, setName]
  refine ⟨by simp, ?_, ?_, ?_⟩
  · intro j h1 h2
    simp only [nd_set, nd_push, Array.size_push, Array.size_setIfInBounds, h1, h2, false_and, ↓reduceIte]
  · simp only [nd_set, nd_push, Array.size_push, Array.size_setIfInBounds]
    simp
  · simp only [nd_set, nd_push, Array.size_push, Array.size_setIfInBounds, hne, false_and, ↓reduceIte]
    simp [hp'.1]

theorem fresh1_good {a : Arena} (p : Nat) (l : Option Int) (n : Option String) (g : Good a) :
    Good (fresh1 a p l n) := addChildNamed_good p l n g

theorem fresh1_roots {a : Arena} (p : Nat) (l : Option Int) (n : Option String) :
    RootsSub a (fresh1 a p l n) := addChildNamed_roots p l n

/-! ### stability of `Rep` / `dec` under changes outside the tree -/

mutual
theorem rep_stable {a a' : Arena} (hsz : a.size ≤ a'.size) : ∀ (t : RTI) (i : Nat),
    (∀ j ∈ pre t, nd a' j = nd a j) → Rep a i t → Rep a' i t
  | .node j ks, i, hfr, h => by
    simp only [Rep] at h ⊢
    obtain ⟨rfl, hl, hk⟩ := h
    have hi := hfr i (by simp [pre])
    refine ⟨rfl, ⟨by have := hl.1; omega, by rw [hi]; exact hl.2⟩, ?_⟩
    rw [hi]
    exact repL_stable hsz ks _ (fun x hx => hfr x (by simp [pre, hx])) hk
theorem repL_stable {a a' : Arena} (hsz : a.size ≤ a'.size) : ∀ (ts : List RTI) (cs : List Nat),
    (∀ j ∈ preL ts, nd a' j = nd a j) → RepL a cs ts → RepL a' cs ts
  | [], cs, _, h => by cases cs <;> simp_all [RepL]
  | t :: ts, cs, hfr, h => by
    cases cs with
    | nil => simp [RepL] at h
    | cons c cs =>
      simp only [RepL] at h ⊢
      exact ⟨rep_stable hsz t c (fun x hx => hfr x (by simp [preL, hx])) h.1,
        repL_stable hsz ts cs (fun x hx => hfr x (by simp [preL, hx])) h.2⟩
end

mutual
theorem decN_stable {a a' : Arena} : ∀ (t : RTI), (∀ j ∈ pre t, nd a' j = nd a j) →
    erase (decorate a' t) = erase (decorate a t)
  | .node j ks, hfr => by
    have hi := hfr j (by simp [pre])
    simp only [decorate, erase, hi, decNL_stable ks (fun x hx => hfr x (by simp [pre, hx]))]
theorem decNL_stable {a a' : Arena} : ∀ (ts : List RTI), (∀ j ∈ preL ts, nd a' j = nd a j) →
    eraseL (decorateL a' ts) = eraseL (decorateL a ts)
  | [], _ => by simp [decorateL, eraseL]
  | t :: ts, hfr => by
    simp only [decorateL, eraseL, decN_stable t (fun x hx => hfr x (by simp [preL, hx])),
      decNL_stable ts (fun x hx => hfr x (by simp [preL, hx]))]
end

theorem rep_pre_live {a : Arena} {i : Nat} {t : RTI} (h : Rep a i t) : ∀ j ∈ pre t, live a j := by
  intro j hj
  rw [← subs_ids, List.mem_map] at hj
  obtain ⟨s, hs, rfl⟩ := hj
  exact (subs_rep t i h s hs).is_live

/-! ### what the construction guarantees -/

/-- nothing below `a.size` changes except that `p` gains the children `newKids` -/
structure FFrame (a r : Arena) (p : Nat) (newKids : List Nat) (grow : Nat) : Prop where
  size : r.size = a.size + grow
  other : ∀ j, j < a.size → j ≠ p → nd r j = nd a j
  kids : (nd r p).children = (nd a p).children ++ newKids
  keep : (nd r p).deleted = (nd a p).deleted ∧ (nd r p).name = (nd a p).name ∧ (nd r p).pedge = (nd a p).pedge
  par : (nd r p).parent = (nd a p).parent

mutual
theorem freshBelow_spec : ∀ (T : RoseNL) (a : Arena) (p : Nat), live a p →
    FFrame a (freshBelow a p T) p [a.size] (sizeNL T) ∧
    ∃ t0, Rep (freshBelow a p T) a.size t0 ∧ erase (decorate (freshBelow a p T) t0) = T ∧
      ∀ j ∈ pre t0, a.size ≤ j
  | .node n l ks, a, p, hp => by
    obtain ⟨s1, o1, new1, par1⟩ := fresh1_spec hp l n
    have hne : p ≠ a.size := by have := hp.1; omega
    have hlnew : live (fresh1 a p l n) a.size := ⟨by omega, by rw [new1]⟩
    obtain ⟨nk, F, ts0, hrep, hdec, hge⟩ := freshKids_spec ks (fresh1 a p l n) a.size hlnew
    simp only [freshBelow]
    rw [s1] at hge
    have hFs := F.size
    rw [s1] at hFs
    have hFo : ∀ j, j < a.size + 1 → j ≠ a.size → nd (freshKids (fresh1 a p l n) a.size ks) j
        = nd (fresh1 a p l n) j := fun j hj hn => F.other j (by rw [s1]; exact hj) hn
    constructor
    · refine ⟨by rw [hFs, sizeNL]; omega, ?_, ?_, ?_, ?_⟩
      · intro j hj hjp
        rw [hFo j (by omega) (by omega), o1 j (by omega) hjp]
      · rw [hFo p (by have := hp.1; omega) hne, par1]; simp
      · rw [hFo p (by have := hp.1; omega) hne, par1]; simp
      · rw [hFo p (by have := hp.1; omega) hne, par1]; simp
    · refine ⟨.node a.size ts0, ?_, ?_, ?_⟩
      · simp only [Rep, true_and]
        refine ⟨⟨by omega, by rw [F.keep.1, new1]⟩, ?_⟩
        rw [F.kids, new1]
        exact hrep
      · simp only [decorate, erase, F.keep.2.1, F.keep.2.2, new1, hdec]
      · intro j hj
        simp only [pre, List.mem_cons] at hj
        rcases hj with rfl | hj
        · exact Nat.le_refl _
        · have := hge j hj; omega
theorem freshKids_spec : ∀ (ks : List RoseNL) (a : Arena) (p : Nat), live a p →
    ∃ newKids, FFrame a (freshKids a p ks) p newKids (sizeNLL ks) ∧
    ∃ ts0, RepL (freshKids a p ks) newKids ts0 ∧ eraseL (decorateL (freshKids a p ks) ts0) = ks ∧
      ∀ j ∈ preL ts0, a.size ≤ j
  | [], a, p, _ => by
    refine ⟨[], ⟨by simp [freshKids, sizeNLL], fun _ _ _ => rfl, by simp [freshKids], ⟨rfl, rfl, rfl⟩, rfl⟩, [], ?_⟩
    simp [freshKids, RepL, decorateL, eraseL, preL]
  | k :: ks, a, p, hp => by
    obtain ⟨F1, t0, hrep1, hdec1, hge1⟩ := freshBelow_spec k a p hp
    have hp1 : live (freshBelow a p k) p :=
      ⟨by rw [F1.size]; have := hp.1; omega, by rw [F1.keep.1]; exact hp.2⟩
    obtain ⟨nk, F2, ts0, hrep2, hdec2, hge2⟩ := freshKids_spec ks (freshBelow a p k) p hp1
    simp only [freshKids]
    have hs2 := F2.size
    rw [F1.size] at hs2 hge2
    -- the first kid's tree is untouched by the later additions
    have hpnot : ∀ j ∈ pre t0, j ≠ p := by
      intro j hj; have := hge1 j hj; have := hp.1; omega
    have hlt : ∀ j ∈ pre t0, j < (freshBelow a p k).size := by
      intro j hj
      exact (rep_pre_live hrep1 j hj).1
    have hst : ∀ j ∈ pre t0, nd (freshKids (freshBelow a p k) p ks) j = nd (freshBelow a p k) j :=
      fun j hj => F2.other j (hlt j hj) (hpnot j hj)
    refine ⟨a.size :: nk, ⟨by rw [hs2, sizeNLL]; omega, ?_, ?_, ?_, ?_⟩, t0 :: ts0, ?_, ?_, ?_⟩
    · intro j hj hjp
      rw [F2.other j (by rw [F1.size]; omega) hjp, F1.other j hj hjp]
    · rw [F2.kids, F1.kids]; simp
    · exact ⟨by rw [F2.keep.1, F1.keep.1], by rw [F2.keep.2.1, F1.keep.2.1], by rw [F2.keep.2.2, F1.keep.2.2]⟩
    · rw [F2.par, F1.par]
    · simp only [RepL]
      exact ⟨rep_stable (by rw [F2.size]; omega) t0 a.size hst hrep1, hrep2⟩
    · simp only [decorateL, eraseL, decN_stable t0 hst, hdec1, hdec2]
    · intro j hj
      simp only [preL, List.mem_append] at hj
      rcases hj with hj | hj
      · exact hge1 j hj
      · have := hge2 j hj; omega
end

mutual
theorem freshBelow_good : ∀ (T : RoseNL) (a : Arena) (p : Nat), Good a →
    Good (freshBelow a p T) ∧ RootsSub a (freshBelow a p T) ∧ (BlankNames a → BlankNames (freshBelow a p T))
  | .node n l ks, a, p, g => by
    obtain ⟨g2, r2, b2⟩ := freshKids_good ks (fresh1 a p l n) a.size (fresh1_good p l n g)
    simp only [freshBelow]
    exact ⟨g2, (fresh1_roots p l n).trans r2, fun hb => b2 (addChildNamed_blank p l n hb)⟩
theorem freshKids_good : ∀ (ks : List RoseNL) (a : Arena) (p : Nat), Good a →
    Good (freshKids a p ks) ∧ RootsSub a (freshKids a p ks) ∧ (BlankNames a → BlankNames (freshKids a p ks))
  | [], a, _, g => ⟨g, RootsSub.refl a, fun hb => hb⟩
  | k :: ks, a, p, g => by
    obtain ⟨g1, r1, b1⟩ := freshBelow_good k a p g
    obtain ⟨g2, r2, b2⟩ := freshKids_good ks (freshBelow a p k) p g1
    simp only [freshKids]
    exact ⟨g2, r1.trans r2, fun hb => b2 (b1 hb)⟩
end

/-- **every tree has a fresh arena**: for every tree `T` whose root has no branch length, `freshArena T` is
    well formed, has one root, holds no removed slot name, and its abstract tree erases to `T` -/
theorem freshArena_spec (n : Option String) (ks : List RoseNL) :
    Good (freshArena (.node n none ks)) ∧ AtMostOneRoot (freshArena (.node n none ks)) ∧
    BlankNames (freshArena (.node n none ks)) ∧
    ∃ t, absRoot (freshArena (.node n none ks)) = .ok t ∧ erase t = .node n none ks := by
  have h0 : ∀ i, ¬ isRoot (#[] : Arena) i := by intro i hi; exact absurd hi.1.1 (by simp)
  have g0 : Good (add #[] n).1 := add_good n empty_good
  have r0 : AtMostOneRoot (add #[] n).1 := add_oneRoot n h0
  have b0 : BlankNames (add #[] n).1 := add_blank n blank_empty
  have hnd0 : nd (add #[] n).1 0 = { name := n } := by simp [add, nd]
  have hl0 : live (add #[] n).1 0 := ⟨by simp [add], by rw [hnd0]⟩
  obtain ⟨g, rs, bk⟩ := freshKids_good ks (add #[] n).1 0 g0
  obtain ⟨nk, F, ts0, hrep, hdec, _⟩ := freshKids_spec ks (add #[] n).1 0 hl0
  have r1 : AtMostOneRoot (freshArena (.node n none ks)) := rs.atMostOne r0
  have hlive : live (freshArena (.node n none ks)) 0 :=
    ⟨by simp only [freshArena]; rw [F.size]; simp [add]; omega, by simp only [freshArena]; rw [F.keep.1, hnd0]⟩
  refine ⟨g, r1, bk b0, ?_⟩
  obtain ⟨t, ht⟩ := absRoot_total g r1 0 hlive
  refine ⟨t, ht, ?_⟩
  obtain ⟨r, t0, c⟩ := absRoot_ctx g r1 ht
  have hpar : (nd (freshArena (.node n none ks)) 0).parent = none := by
    simp only [freshArena]; rw [F.par, hnd0]
  have hr : 0 = r := c.only_root 0 hlive hpar
  subst hr
  have hrep0 : Rep (freshArena (.node n none ks)) 0 (.node 0 ts0) := by
    simp only [Rep, true_and]
    refine ⟨hlive, ?_⟩
    simp only [freshArena]
    rw [F.kids, hnd0]
    exact hrep
  have := rep_unique _ t0 (.node 0 ts0) 0 c.rep hrep0
  subst this
  rw [c.dec]
  simp only [decorate, erase]
  rw [F.keep.2.1, F.keep.2.2, hnd0, hdec]

/-- **C04, closing statement**: the arena reached by any admissible edit history whose current tree is `T`
    answers every id-free query exactly like the arena freshly built from `T` -/
theorem same_answers_as_fresh_arena {a : Arena} (ga : Good a) (ha : AtMostOneRoot a) {ta : Rose}
    (hta : absRoot a = .ok ta) (n : Option String) (ks : List RoseNL) (he : erase ta = .node n none ks) :
    let b := freshArena (.node n none ks)
    nLeaves a = nLeaves b ∧ isRooted a = isRooted b ∧ isBinary a = isBinary b ∧
    totalLength a = totalLength b ∧ cherries a = cherries b ∧ colless a = colless b ∧ sackin a = sackin b ∧
    (∀ u, treeHeight a u = treeHeight b u) ∧ (∀ u, diameter a u = diameter b u) ∧
    ((leaves a).map (fun i => (nd a i).name)).Perm ((leaves b).map (fun i => (nd b i).name)) ∧
    (∀ n, (searchName a n).length = (searchName b n).length) := by
  obtain ⟨gb, hb, _, tb, htb, hetb⟩ := freshArena_spec n ks
  exact answers_depend_only_on_tree ga gb ha hb hta htb (he.trans hetb.symm)

/-- under the invariant the root never carries a branch length, so the restriction on `T` is no restriction
    for trees that come from an arena whose root was created by `add` — stated as: the erased tree of an arena
    with `(nd a root).pedge = none` has the shape `freshArena_spec` needs -/
theorem erase_root_shape {a : Arena} (g : Good a) (h1 : AtMostOneRoot a) {t : Rose} (h : absRoot a = .ok t)
    (hp : ∀ r, getRoot a = some r → (nd a r).pedge = none) :
    ∃ n ks, erase t = .node n none ks := by
  obtain ⟨r, t0, c⟩ := absRoot_ctx g h1 h
  have := hp r c.root_eq
  rw [c.dec]
  cases t0 with
  | node j ks =>
    have hj : j = r := by have := c.rep.id_eq; simpa [RTI.id] using this
    subst hj
    refine ⟨(nd a j).name, eraseL (decorateL a ks), ?_⟩
    simp only [decorate, erase, this]

/-! ### a root branch length

The Newick text may give the root a branch length (`(...)R:0.5;`), which the parser stores in the root's
`parent_edge`; no operation of the model's `Op` does that, so it is set by a direct slot update here.  The
invariant does not constrain the root's `pedge`. -/

def setRootEdge (a : Arena) (l : Option Int) : Arena := a.setIfInBounds 0 { nd a 0 with pedge := l }

theorem nd_setRootEdge (a : Arena) (l : Option Int) (hs : 0 < a.size) (j : Nat) :
    nd (setRootEdge a l) j = if j = 0 then { nd a 0 with pedge := l } else nd a j := by
  simp only [setRootEdge, nd_set, hs, and_true]

/-- giving a parentless live slot 0 a branch length keeps the arena well formed, its roots, its names -/
theorem setRootEdge_good {a : Arena} (l : Option Int) (g : Good a) (hl : live a 0) (hp : (nd a 0).parent = none) :
    Good (setRootEdge a l) ∧ RootsSub a (setRootEdge a l) ∧ (BlankNames a → BlankNames (setRootEdge a l)) := by
  have hs : 0 < a.size := hl.1
  have hnd := nd_setRootEdge a l hs
  have hsz : (setRootEdge a l).size = a.size := by simp [setRootEdge]
  have hlive : ∀ i, live (setRootEdge a l) i ↔ live a i := by
    intro i
    simp only [live, hsz, hnd i]
    by_cases hi : i = 0
    · subst hi; simp
    · simp [hi]
  have hch : ∀ i, (nd (setRootEdge a l) i).children = (nd a i).children := by
    intro i; rw [hnd i]; by_cases hi : i = 0
    · subst hi; simp
    · simp [hi]
  have hpar : ∀ i, (nd (setRootEdge a l) i).parent = (nd a i).parent := by
    intro i; rw [hnd i]; by_cases hi : i = 0
    · subst hi; simp
    · simp [hi]
  have hdep : ∀ i, (nd (setRootEdge a l) i).depth = (nd a i).depth := by
    intro i; rw [hnd i]; by_cases hi : i = 0
    · subst hi; simp
    · simp [hi]
  have hce : ∀ i, (nd (setRootEdge a l) i).cedges = (nd a i).cedges := by
    intro i; rw [hnd i]; by_cases hi : i = 0
    · subst hi; simp
    · simp [hi]
  have hdel : ∀ i, (nd (setRootEdge a l) i).deleted = (nd a i).deleted := by
    intro i; rw [hnd i]; by_cases hi : i = 0
    · subst hi; simp
    · simp [hi]
  have hnm : ∀ i, (nd (setRootEdge a l) i).name = (nd a i).name := by
    intro i; rw [hnd i]; by_cases hi : i = 0
    · subst hi; simp
    · simp [hi]
  have hpe : ∀ i, i ≠ 0 → (nd (setRootEdge a l) i).pedge = (nd a i).pedge := by
    intro i hi; rw [hnd i]; simp [hi]
  obtain ⟨hinv, ht⟩ := g
  refine ⟨⟨⟨?_, ?_, ?_, ?_, ?_⟩, ?_⟩, ?_, ?_⟩
  · intro i c hli hc
    rw [hlive] at hli; rw [hch] at hc
    obtain ⟨k1, k2, k3, k4⟩ := hinv.child_ok i c hli hc
    have hc0 : c ≠ 0 := by intro e; subst e; rw [hp] at k2; cases k2
    exact ⟨(hlive c).2 k1, by rw [hpar]; exact k2, by rw [hdep, hdep]; exact k3, by rw [hce, hpe c hc0]; exact k4⟩
  · intro i p hli hpp
    rw [hlive] at hli; rw [hpar] at hpp
    obtain ⟨k1, k2⟩ := hinv.parent_ok i p hli hpp
    exact ⟨(hlive p).2 k1, by rw [hch]; exact k2⟩
  · intro i; rw [hch]; exact hinv.nodup i
  · intro i hli hpp
    rw [hlive] at hli; rw [hpar] at hpp
    rw [hdep]; exact hinv.root_depth i hli hpp
  · intro i c hsome
    rw [hce] at hsome; rw [hch]; exact hinv.cedge_dom i c hsome
  · intro i hd
    rw [hdel] at hd
    rw [hch, hpar, hce]; exact ht i hd
  · intro i ⟨hli, hpi⟩
    exact ⟨(hlive i).1 hli, by rw [← hpar]; exact hpi⟩
  · intro hb i hd
    rw [hdel] at hd; rw [hnm]; exact hb i hd

/-- the arena the parser builds for an arbitrary tree -/
def freshArena' : RoseNL → Arena
  | .node n l ks => setRootEdge (freshArena (.node n none ks)) l

/-- **every tree has a fresh arena** (no restriction on the root) -/
theorem freshArena'_spec (T : RoseNL) :
    Good (freshArena' T) ∧ AtMostOneRoot (freshArena' T) ∧ BlankNames (freshArena' T) ∧
    ∃ t, absRoot (freshArena' T) = .ok t ∧ erase t = T := by
  cases T with
  | node n l ks =>
  have h0 : ∀ i, ¬ isRoot (#[] : Arena) i := by intro i hi; exact absurd hi.1.1 (by simp)
  have g0 : Good (add #[] n).1 := add_good n empty_good
  have hnd0 : nd (add #[] n).1 0 = { name := n } := by simp [add, nd]
  have hl0 : live (add #[] n).1 0 := ⟨by simp [add], by rw [hnd0]⟩
  obtain ⟨nk, F, ts0, hrep, hdec, hge⟩ := freshKids_spec ks (add #[] n).1 0 hl0
  obtain ⟨g1, r1, b1, _⟩ := freshArena_spec n ks
  have hlive : live (freshArena (.node n none ks)) 0 :=
    ⟨by simp only [freshArena]; rw [F.size]; simp [add]; omega, by simp only [freshArena]; rw [F.keep.1, hnd0]⟩
  have hpar : (nd (freshArena (.node n none ks)) 0).parent = none := by
    simp only [freshArena]; rw [F.par, hnd0]
  obtain ⟨g, rs, bk⟩ := setRootEdge_good l g1 hlive hpar
  have r2 : AtMostOneRoot (freshArena' (.node n l ks)) := rs.atMostOne r1
  have hsnd := nd_setRootEdge (freshArena (.node n none ks)) l hlive.1
  have hlive' : live (freshArena' (.node n l ks)) 0 :=
    ⟨by simp only [freshArena', setRootEdge, Array.size_setIfInBounds]; exact hlive.1,
     by simp only [freshArena']; rw [hsnd 0]; simpa using hlive.2⟩
  refine ⟨g, r2, bk b1, ?_⟩
  obtain ⟨t, ht⟩ := absRoot_total g r2 0 hlive'
  refine ⟨t, ht, ?_⟩
  obtain ⟨r, t0, c⟩ := absRoot_ctx g r2 ht
  have hpar' : (nd (freshArena' (.node n l ks)) 0).parent = none := by
    simp only [freshArena']; rw [hsnd 0]; simpa using hpar
  have hr : 0 = r := c.only_root 0 hlive' hpar'
  subst hr
  -- the kids are untouched by the root update
  have hst : ∀ j ∈ preL ts0, nd (freshArena' (.node n l ks)) j = nd (freshKids (add #[] n).1 0 ks) j := by
    intro j hj
    have : 1 ≤ j := by have := hge j hj; simpa [add] using this
    simp only [freshArena']
    rw [hsnd j]
    have hj0 : j ≠ 0 := by omega
    simp only [hj0, ↓reduceIte, freshArena]
  have hrep0 : Rep (freshArena' (.node n l ks)) 0 (.node 0 ts0) := by
    simp only [Rep, true_and]
    refine ⟨hlive', ?_⟩
    have hk : (nd (freshArena' (.node n l ks)) 0).children = nk := by
      simp only [freshArena']; rw [hsnd 0]
      simp only [↓reduceIte, freshArena]
      rw [F.kids, hnd0]; rfl
    rw [hk]
    exact repL_stable (by simp [freshArena', setRootEdge, freshArena]) ts0 nk hst hrep
  have := rep_unique _ t0 (.node 0 ts0) 0 c.rep hrep0
  subst this
  rw [c.dec]
  simp only [decorate, erase]
  show RoseNL.node (nd (freshArena' (.node n l ks)) 0).name (nd (freshArena' (.node n l ks)) 0).pedge
    (eraseL (decorateL (freshArena' (.node n l ks)) ts0)) = _
  rw [decNL_stable ts0 hst, hdec]
  have k1 : (nd (freshArena' (.node n l ks)) 0).name = n := by
    simp only [freshArena']; rw [hsnd 0]
    simp only [↓reduceIte, freshArena]
    rw [F.keep.2.1, hnd0]
  have k2 : (nd (freshArena' (.node n l ks)) 0).pedge = l := by
    simp only [freshArena']; rw [hsnd 0]; simp
  rw [k1, k2]

/-- **C04, closing statement**: a well-formed one-rooted arena — in particular the one reached by any
    admissible edit history — answers every id-free query exactly like the arena freshly built (root by `add`,
    every other node by `add_child` in pre-order, as the Newick parser does) from its current tree -/
theorem same_answers_as_fresh_arena' {a : Arena} (ga : Good a) (ha : AtMostOneRoot a) {ta : Rose}
    (hta : absRoot a = .ok ta) :
    let b := freshArena' (erase ta)
    nLeaves a = nLeaves b ∧ isRooted a = isRooted b ∧ isBinary a = isBinary b ∧
    totalLength a = totalLength b ∧ cherries a = cherries b ∧ colless a = colless b ∧ sackin a = sackin b ∧
    (∀ u, treeHeight a u = treeHeight b u) ∧ (∀ u, diameter a u = diameter b u) ∧
    ((leaves a).map (fun i => (nd a i).name)).Perm ((leaves b).map (fun i => (nd b i).name)) ∧
    (∀ n, (searchName a n).length = (searchName b n).length) := by
  obtain ⟨gb, hb, _, tb, htb, hetb⟩ := freshArena'_spec (erase ta)
  exact answers_depend_only_on_tree ga gb ha hb hta htb hetb.symm

end AR
