import PhyloModel.Arena.RepFacts
/-! Level order lists exactly the nodes pre-order lists (a permutation): with the other facts about the
    represented tree, every node below the start node is listed exactly once. -/
namespace LV

mutual
def preT : T → List Nat | .node i ks => i :: preTL ks
def preTL : List T → List Nat | [] => [] | k :: ks => preT k ++ preTL ks
end

theorem preTL_append : ∀ (a b : List T), preTL (a ++ b) = preTL a ++ preTL b
  | [], b => by simp [preTL]
  | x :: a, b => by simp only [List.cons_append, preTL, preTL_append a b, List.append_assoc]

theorem bfsD_perm : ∀ (f : Nat) (q : List (T × Nat)), szL (q.map (·.1)) ≤ f →
    ((bfsD f q).map (·.1)).Perm (preTL (q.map (·.1))) := by
  intro f
  induction f with
  | zero =>
    intro q h
    cases q with
    | nil => simp [bfsD, preTL]
    | cons p q => obtain ⟨t, d⟩ := p; cases t; simp at h
  | succ f ih =>
    intro q h
    cases q with
    | nil => simp [bfsD, preTL]
    | cons p q =>
      obtain ⟨t, d⟩ := p
      cases t with
      | node i ks =>
        simp only [List.map_cons, szL_cons, sz_node] at h
        have hq : szL ((q ++ ks.map (fun k => (k, d + 1))).map (·.1)) ≤ f := by
          have : szL (List.map (fun x => x.1) q ++ ks) = szL (List.map (fun x => x.1) q) + szL ks := by
            generalize List.map (fun x => x.1) q = l
            induction l with
            | nil => simp
            | cons x xs ihx => simp [ihx]; omega
          simp only [List.map_append, List.map_map, Function.comp_def, List.map_id', this]
          omega
        have := ih _ hq
        simp only [bfsD, T.id, T.kids, List.map_cons, preTL, preT]
        simp only [List.map_append, List.map_map, Function.comp_def, List.map_id', preTL_append] at this
        refine (List.Perm.cons i this).trans ?_
        simp only [List.cons_append]
        exact List.Perm.cons i List.perm_append_comm

end LV

namespace AR

mutual
theorem preT_toLV : ∀ t : RTI, LV.preT (toLV t) = pre t
  | .node i ks => by simp only [toLV, LV.preT, pre, preTL_toLVL ks]
theorem preTL_toLVL : ∀ ts : List RTI, LV.preTL (toLVL ts) = preL ts
  | [] => by simp [toLVL, LV.preTL, preL]
  | t :: ts => by simp only [toLVL, LV.preTL, preL, preT_toLV t, preTL_toLVL ts]
end

mutual
theorem sz_toLV : ∀ t : RTI, LV.sz (toLV t) = szR t
  | .node i ks => by simp only [toLV, LV.sz_node, szR, szL_toLVL ks]
theorem szL_toLVL : ∀ ts : List RTI, LV.szL (toLVL ts) = szRL ts
  | [] => by simp [toLVL, szRL]
  | t :: ts => by simp only [toLVL, LV.szL_cons, szRL, sz_toLV t, szL_toLVL ts]
end

/-- closed form of `levelorder` under the invariant: it succeeds with the fuel the executable model
    supplies and lists exactly the nodes below the start node, each once -/
theorem levelorder_closed {a : Arena} (hinv : Inv a) (i : Nat) (hl : live a i) :
    ∃ l, levelorder a i = some l ∧ l.Nodup ∧ (∀ v, v ∈ l ↔ ∃ k, BelowK a i v k) ∧ l.head? = some i := by
  obtain ⟨t, ht, _, _, hs⟩ := rep_total hinv i hl
  have h := levelF_rep a (fuelOf a) [i] [(t, 0)] [] (by simp [RepL, ht]) (by simpa [szQ, szRL] using hs)
  have hp := LV.bfsD_perm (fuelOf a) [(toLV t, 0)] (by simpa [sz_toLV] using hs)
  simp only [List.map_cons, List.map_nil, LV.preTL, List.append_nil, preT_toLV] at hp
  refine ⟨_, h, ?_, ?_, ?_⟩
  · simp only [List.reverse_nil, List.nil_append, lvq, List.map_cons, List.map_nil]
    exact hp.nodup_iff.2 (pre_nodup hinv.toW t i ht)
  · intro v
    simp only [List.reverse_nil, List.nil_append, lvq, List.map_cons, List.map_nil]
    rw [hp.mem_iff]
    exact mem_pre_iff hinv.toW t i ht v
  · simp only [List.reverse_nil, List.nil_append, lvq, List.map_cons, List.map_nil]
    cases t with
    | node j ks =>
      simp only [Rep] at ht
      have hf : fuelOf a = (fuelOf a - 1) + 1 := by simp only [fuelOf]; omega
      rw [hf]
      simp [LV.bfsD, toLV, LV.T.id, ht.1]

end AR
