import PhyloModel.Arena.QueryRefineNames
/-! # Removed slots keep no name

`BlankNames a` (a tombstone carries no name) is what `get_by_name` needs in order to be a function of the
abstract tree (`getByName_refines_partial`): that query does not filter removed slots.  `Tomb` does not
include it because names are payload.  Here: every operation of the model preserves `BlankNames`, except
`setName` applied to a removed slot (which the crate's API cannot do: `get_mut` refuses removed nodes). -/
namespace AR

theorem BlankNames.set {a : Arena} (h : BlankNames a) (i : Nat) (n : Node)
    (hn : n.deleted = true → n.name = none) : BlankNames (a.setIfInBounds i n) := by
  intro j hd
  rw [nd_set] at hd ⊢
  split
  next hc => rw [if_pos hc] at hd; exact hn hd
  next hc => rw [if_neg hc] at hd; exact h j hd

theorem BlankNames.push {a : Arena} (h : BlankNames a) (n : Node)
    (hn : n.deleted = true → n.name = none) : BlankNames (a.push n) := by
  intro j hd
  rw [nd_push] at hd ⊢
  split
  next hc => rw [if_pos hc] at hd; exact hn hd
  next hc => rw [if_neg hc] at hd; exact h j hd

@[simp] theorem setCedge_name (n : Node) (c : Nat) (e : Option Int) : (setCedge n c e).name = n.name := by
  cases e <;> simp [setCedge]
@[simp] theorem removeChild_name (n : Node) (c : Nat) : (removeChild n c).name = n.name := by simp [removeChild]
@[simp] theorem removeChild_deleted (n : Node) (c : Nat) : (removeChild n c).deleted = n.deleted := by
  simp [removeChild]

theorem blank_empty : BlankNames #[] := by intro i _; simp [nd_empty, dead]

theorem foldlM_inv {α β : Type} (P : β → Prop) (g : β → α → Option β)
    (hg : ∀ b x b', P b → g b x = some b' → P b') : ∀ (l : List α) (b b' : β), P b → l.foldlM g b = some b' → P b'
  | [], b, b', hb, h => by simp at h; exact h ▸ hb
  | x :: l, b, b', hb, h => by
    rw [List.foldlM_cons] at h
    cases hx : g b x with
    | none => rw [hx] at h; simp at h
    | some b1 =>
      rw [hx] at h
      exact foldlM_inv P g hg l b1 b' (hg b x b1 hb hx) h

/-! ### primitives -/

theorem add_blank {a : Arena} (n : Option String) (h : BlankNames a) : BlankNames (add a n).1 := by
  simp only [add]; exact h.push _ (by simp)

theorem setName_blank {a : Arena} (i : Nat) (n : Option String) (h : BlankNames a)
    (hl : live a i ∨ n = none) : BlankNames (setName a i n) := by
  simp only [setName]
  apply h.set
  intro hd
  rcases hl with hl | hl
  · simp only at hd; rw [hl.2] at hd; cases hd
  · exact hl

theorem addChild_blank {a a' : Arena} {p id : Nat} {e : Option Int} (h : BlankNames a)
    (hc : addChild a p e = some (a', id)) : BlankNames a' ∧ live a' id := by
  unfold addChild at hc
  split at hc
  next hp =>
    simp only [Option.some.injEq, Prod.mk.injEq] at hc
    obtain ⟨rfl, rfl⟩ := hc
    refine ⟨?_, ?_⟩
    · apply BlankNames.push
      · apply h.set
        intro hd
        simp only [setCedge_deleted, setCedge_name] at hd ⊢
        exact h p hd
      · simp
    · refine ⟨by simp, ?_⟩
      rw [nd_push]; simp
  · simp at hc

theorem addChildNamed_blank {a : Arena} (p : Nat) (e : Option Int) (n : Option String) (h : BlankNames a) :
    BlankNames (addChildNamed a p e n).1 := by
  unfold addChildNamed
  split
  next a' id hc =>
    obtain ⟨h1, h2⟩ := addChild_blank h hc
    exact setName_blank id n h1 (Or.inl h2)
  next => exact h

theorem finish_blank {a : Arena} (x : Nat) (h : BlankNames a) : BlankNames (finish a x) := by
  unfold finish
  apply BlankNames.set
  · split
    · apply h.set
      intro hd
      simp only [removeChild_deleted, removeChild_name] at hd ⊢
      exact h _ hd
    · exact h
  · simp [dead]

theorem pruneF_blank : ∀ (f : Nat) (a : Arena) (x : Nat) (a' : Arena), BlankNames a → pruneF f a x = some a' →
    BlankNames a'
  | 0, _, _, _, _, h => by simp [pruneF] at h
  | f + 1, a, x, a', hb, h => by
    rw [pruneF] at h
    split at h
    · split at h
      · simp at h
      next a1 h1 =>
        split at h
        · simp only [Option.some.injEq] at h
          subst h
          exact finish_blank x (foldlM_inv BlankNames _ (fun b c b' hb' hc => pruneF_blank f b c b' hb' hc) _ _ _ hb h1)
        · simp at h
    · simp at h

theorem prune_blank {a : Arena} (x : Nat) (h : BlankNames a) : BlankNames (prune a x).1 := by
  unfold prune
  split
  · split
    next a' hp => exact pruneF_blank _ _ _ _ h hp
    next => exact h
  · exact h

theorem resetF_blank : ∀ (f : Nat) (a : Arena) (x d : Nat) (a' : Arena), BlankNames a →
    resetF f a x d = some a' → BlankNames a'
  | 0, _, _, _, _, _, h => by simp [resetF] at h
  | f + 1, a, x, d, a', hb, h => by
    rw [resetF] at h
    split at h
    · refine foldlM_inv BlankNames _ (fun b c b' hb' hc => resetF_blank f b c (d + 1) b' hb' hc) _ _ _ ?_ h
      apply hb.set
      intro hd
      exact hb x hd
    · simp at h

theorem splice_blank {a : Arena} (v p c : Nat) (e : Option Int) (h : BlankNames a) :
    BlankNames (splice a v p c e) := by
  unfold splice
  apply BlankNames.set
  · apply BlankNames.set
    · apply h.set
      intro hd; exact h c hd
    · intro hd
      simp only [removeChild_deleted, removeChild_name, setCedge_deleted, setCedge_name] at hd ⊢
      rw [nd_set] at hd ⊢
      split
      next hc => rw [if_pos hc] at hd; exact h c hd
      next hc => rw [if_neg hc] at hd; exact h p hd
  · simp [dead]

theorem compressNode_blank {a : Arena} (v : Nat) (h : BlankNames a) : BlankNames (compressNode a v).1 := by
  unfold compressNode
  split
  · exact h
  · split
    next p c _ _ =>
      split
      · exact h
      next e _ =>
        split
        · exact h
        · simp only
          split
          next a2 h2 => exact resetF_blank _ _ _ _ _ (splice_blank v p c e h) h2
          next => exact splice_blank v p c e h
    · exact h

theorem compressLoop_blank : ∀ (vs : List Nat) {a : Arena}, BlankNames a → BlankNames (compressLoop vs a).1
  | [], a, h => by simp [compressLoop]; exact h
  | v :: vs, a, h => by
    rw [compressLoop]
    have := compressNode_blank v h
    split
    next a' _ he => rw [he] at this; exact compressLoop_blank vs this
    next r _ => exact this

theorem compress_blank {a : Arena} (h : BlankNames a) : BlankNames (compress a).1 :=
  compressLoop_blank _ h

theorem rescale_blank {a : Arena} (k : Int) (h : BlankNames a) : BlankNames (rescale a k) := by
  intro i hd
  have hf : scaleNode k dead = dead := by simp [scaleNode, dead]
  rw [rescale, nd_map a _ hf] at hd ⊢
  simp only [scaleNode] at hd ⊢
  exact h i hd

theorem group_blank {a : Arena} (q c1 c2 : Nat) (pe e1 e2 : Option Int) (h : BlankNames a) :
    BlankNames (group a q c1 c2 pe e1 e2) := by
  unfold group
  have h1 : BlankNames (a.setIfInBounds q (qNode a q c1 c2 pe)) := by
    apply h.set
    intro hd
    simp only [qNode, setCedge_deleted, setCedge_name, removeChild_deleted, removeChild_name] at hd ⊢
    exact h q hd
  have h2 : BlankNames ((a.setIfInBounds q (qNode a q c1 c2 pe)).setIfInBounds c1
      { nd (a.setIfInBounds q (qNode a q c1 c2 pe)) c1 with parent := some a.size, pedge := e1 }) := by
    apply h1.set
    intro hd; exact h1 c1 hd
  apply BlankNames.push
  · apply h2.set
    intro hd; exact h2 c2 hd
  · simp [wNode]

theorem rootGroup_blank {a : Arena} (c1 c2 : Nat) (e1 e2 : Option Int) (h : BlankNames a) :
    BlankNames (rootGroup a c1 c2 e1 e2) := by
  unfold rootGroup
  have h1 : BlankNames (a.setIfInBounds c1 { nd a c1 with parent := some a.size, pedge := e1 }) := by
    apply h.set
    intro hd; exact h c1 hd
  apply BlankNames.push
  · apply h1.set
    intro hd; exact h1 c2 hd
  · simp

theorem mergeChildren_blank {a : Arena} (c1 c2 : Nat) (e1 e2 pe : Option Int) (n : Option String)
    (h : BlankNames a) : BlankNames (mergeChildren a c1 c2 e1 e2 pe n).1 := by
  unfold mergeChildren
  split
  · exact h
  · split
    · exact h
    · split
      · exact h
      · simp only
        split
        · exact h
        next a1 ha1 =>
          have hb1 : BlankNames a1 := by
            split at ha1
            · split at ha1
              · simp only [Option.some.injEq] at ha1; subst ha1; exact group_blank _ _ _ _ _ _ h
              · simp at ha1
            · simp only [Option.some.injEq] at ha1; subst ha1; exact rootGroup_blank _ _ _ _ h
          -- the fresh slot `a.size` is live in `a1` and stays so
          have hsz : a.size < a1.size ∧ (nd a1 a.size).deleted = false := by
            split at ha1
            · split at ha1
              · simp only [Option.some.injEq] at ha1; subst ha1
                refine ⟨by simp [group], ?_⟩
                simp [group, nd_push, wNode]
              · simp at ha1
            · simp only [Option.some.injEq] at ha1; subst ha1
              refine ⟨by simp [rootGroup], ?_⟩
              simp [rootGroup, nd_push]
          have keep : ∀ {b b' : Arena} {f x d : Nat}, resetF f b x d = some b' →
              (a.size < b.size ∧ (nd b a.size).deleted = false) →
              (a.size < b'.size ∧ (nd b' a.size).deleted = false) := by
            intro b b' f x d hr hb
            have hs := resetF_same f b b' x d hr
            exact ⟨by rw [hs.1]; exact hb.1, by rw [(hs.2 a.size).2.2.2.2]; exact hb.2⟩
          split
          · exact setName_blank _ _ hb1 (Or.inl hsz)
          next a3 h3 =>
            have hb3 := resetF_blank _ _ _ _ _ hb1 h3
            have hs3 := keep h3 hsz
            split
            · exact setName_blank _ _ hb3 (Or.inl hs3)
            next a4 h4 =>
              exact setName_blank _ _ (resetF_blank _ _ _ _ _ hb3 h4) (Or.inl (keep h4 hs3))

theorem resolveRound_blank {a a' : Arena} (q x y : Nat) (h : BlankNames a)
    (hr : resolveRound a q x y = some a') : BlankNames a' := by
  unfold resolveRound at hr
  split at hr
  · simp only at hr
    split at hr
    · simp at hr
    next a2 h2 =>
      exact resetF_blank _ _ _ _ _ (resetF_blank _ _ _ _ _ (group_blank _ _ _ _ _ _ h) h2) hr
  · simp at hr

theorem resolveNode_blank : ∀ (f : Nat) {a : Arena} (q : Nat) (picks : List (Nat × Nat)) {a' : Arena}
    {rest : List (Nat × Nat)}, BlankNames a → resolveNode f a q picks = some (a', rest) → BlankNames a'
  | 0, _, _, _, _, _, _, h => by simp [resolveNode] at h
  | f + 1, a, q, picks, a', rest, hb, h => by
    unfold resolveNode at h
    split at h
    · cases h
    next x y rest' =>
      split at h
      · cases h
      next a1 h1 =>
        have hb1 := resolveRound_blank q x y hb h1
        simp only at h
        split at h
        · cases h; exact hb1
        · exact resolveNode_blank f q rest' hb1 h

theorem resolveLoop_blank : ∀ (qs : List Nat) {a : Arena} (picks : List (Nat × Nat)) {a' : Arena}
    {rest : List (Nat × Nat)}, BlankNames a → resolveLoop qs a picks = some (a', rest) → BlankNames a'
  | [], a, picks, a', rest, hb, h => by
    simp only [resolveLoop, Option.some.injEq, Prod.mk.injEq] at h
    obtain ⟨rfl, _⟩ := h
    exact hb
  | q :: qs, a, picks, a', rest, hb, h => by
    rw [resolveLoop] at h
    split at h
    · simp at h
    next a1 rest1 h1 =>
      exact resolveLoop_blank qs rest1 (resolveNode_blank _ q picks hb h1) h

theorem resolve_blank {a a' : Arena} (picks : List (Nat × Nat)) (h : BlankNames a)
    (hr : resolve a picks = some a') : BlankNames a' := by
  unfold resolve at hr
  split at hr
  next a1 h1 =>
    simp only [Option.some.injEq] at hr
    subst hr
    exact resolveLoop_blank _ picks h h1
  · simp at hr

theorem ladderStep_blank (st : Arena × Array Nat) (v : Nat) (h : BlankNames st.1) :
    BlankNames (ladderStep st v).1 := by
  simp only [ladderStep]
  apply h.set
  intro hd
  exact h v hd

theorem ladderFold_blank : ∀ (l : List Nat) (st : Arena × Array Nat), BlankNames st.1 →
    BlankNames (l.foldl ladderStep st).1
  | [], _, h => h
  | v :: l, st, h => by
    rw [List.foldl_cons]
    exact ladderFold_blank l _ (ladderStep_blank st v h)

theorem ladderize_blank {a : Arena} (h : BlankNames a) : BlankNames (ladderize a).1 := by
  unfold ladderize
  split
  · exact h
  · split
    · exact h
    · exact ladderFold_blank _ _ h

theorem resetDepths_blank {a : Arena} (h : BlankNames a) : BlankNames (resetDepths a).1 := by
  unfold resetDepths
  split
  · exact h
  · split
    next a' hr => exact resetF_blank _ _ _ _ _ h hr
    next => exact h

/-! ### histories -/

/-- operations that cannot put a name on a removed slot: all but `setName` on a removed slot -/
def NamesOK (a : Arena) : Op → Prop
  | .setName i n => live a i ∨ n = none
  | _ => True

theorem applyOp_blank {a : Arena} (op : Op) (h : BlankNames a) (hok : NamesOK a op) :
    BlankNames (applyOp a op).1 := by
  cases op with
  | add n => exact add_blank n h
  | addChild p e n => exact addChildNamed_blank p e n h
  | setName i n => exact setName_blank i n h hok
  | prune x => exact prune_blank x h
  | compressNode v => exact compressNode_blank v h
  | compress => exact compress_blank h
  | rescale k => exact rescale_blank k h
  | merge c1 c2 e1 e2 pe n => exact mergeChildren_blank c1 c2 e1 e2 pe n h
  | resolve picks =>
    simp only [applyOp]
    split
    next a' hr => exact resolve_blank picks h hr
    next => exact h
  | ladderize => exact ladderize_blank h
  | resetDepths => exact resetDepths_blank h

def NamesOKRun : Arena → List Op → Prop
  | _, [] => True
  | a, op :: ops => NamesOK a op ∧ NamesOKRun (applyOp a op).1 ops

theorem runOps_blank : ∀ (ops : List Op) {a : Arena}, BlankNames a → NamesOKRun a ops → BlankNames (runOps a ops)
  | [], _, h, _ => h
  | op :: ops, a, h, hok => by
    simp only [runOps, List.foldl_cons]
    exact runOps_blank ops (applyOp_blank op h hok.1) hok.2

/-- **`get_by_name` after any edit history** (started from the empty arena, `add` only on a rootless arena,
    `setName` only on live nodes): the answer is the node of the current tree with the smallest id carrying the
    name, and nothing is found exactly when no node of the tree carries it -/
theorem getByName_after_history (ops : List Op) (hadm : AdmissibleRun #[] ops) (hok : NamesOKRun #[] ops)
    {t : Rose} (h : absRoot (runOps #[] ops) = .ok t) (s : String) :
    (∀ i, getByName (runOps #[] ops) s = some i → i ∈ idsNamedR t (some s) ∧ ∀ j ∈ idsNamedR t (some s), i ≤ j) ∧
    (getByName (runOps #[] ops) s = none ↔ idsNamedR t (some s) = []) := by
  have h0 : AtMostOneRoot #[] := by intro i j hi; exact absurd hi.1.1 (by simp)
  obtain ⟨g, h1⟩ := runOps_oneRoot ops empty_good h0 hadm
  exact getByName_refines_partial g h1 (runOps_blank ops blank_empty hok) h s

/-- non-vacuity: the history with a removal of `AnswersDependOnTree.exB` satisfies the hypotheses -/
example : AdmissibleRun #[] [.add none, .addChild 0 (some 9) (some "z"), .prune 1,
      .addChild 0 (some 3) (some "x"), .addChild 0 (some 4) (some "y")] ∧
    NamesOKRun #[] [.add none, .addChild 0 (some 9) (some "z"), .prune 1,
      .addChild 0 (some 3) (some "x"), .addChild 0 (some 4) (some "y")] := by
  refine ⟨?_, ?_⟩
  · simp only [AdmissibleRun, Admissible, and_true]
    intro i hi; exact absurd hi.1.1 (by simp)
  · simp [NamesOKRun, NamesOK]

end AR
