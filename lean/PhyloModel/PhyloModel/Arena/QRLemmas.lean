import PhyloModel.Arena.Query
namespace AR
@[simp] theorem QR.bind_ok {α β : Type} (v : α) (f : α → QR β) : (QR.ok v >>= f) = f v := rfl
@[simp] theorem QR.bind_err {α β : Type} (k : String) (f : α → QR β) : ((QR.err k : QR α) >>= f) = QR.err k := rfl
@[simp] theorem QR.bind_panic {α β : Type} (f : α → QR β) : ((QR.panic : QR α) >>= f) = QR.panic := rfl
@[simp] theorem QR.pure_eq {α : Type} (v : α) : (pure v : QR α) = QR.ok v := rfl
end AR
