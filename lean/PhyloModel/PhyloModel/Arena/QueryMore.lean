import PhyloModel.Arena.Query
/-! Executable model of the remaining public read-only functions of `Tree` (`get_leaf_names`,
    `has_unique_tip_names`, `size`, `sackin_yule`, `sackin_pda`, `colless_pda`) and of the observers of `Node`
    (`is_tip`, `is_root`, `get_depth`, `get_child_edge`).  Definitions only (the driver imports this file);
    the theorems are in `Arena/QueryMoreRefine.lean`.

    The three normalised indices are `f64` in the crate.  The model gives the EXACT rational the float
    approximates: `sackinYule` the rational `(I_s − 2·n·Σ_{i=2}^{n} 1/i) / n`, and for the two PDA normalisations
    `I / n^(3/2)` — irrational in general — the exact SQUARE `I² / n³` (the crate's value is the non-negative
    square root of it). -/
namespace AR

/-- `Tree::get_leaf_names`: the names of the live tips, in arena order (the order of `get_leaves`) -/
def leafNames (a : Arena) : List (Option String) := (leaves a).map (fun l => (nd a l).name)

/-- `HashSet::insert` on a set kept as a duplicate-free list -/
def insertName (seen : List String) (x : String) : List String := if seen.contains x then seen else x :: seen

/-- the loop of `has_unique_tip_names`: walk the names, `none` (= `Err(UnnamedLeaves)`) at the first absent
    name, otherwise the set of names seen -/
def distinctNames : List (Option String) → List String → Option (List String)
  | [], seen => some seen
  | none :: _, _ => none
  | some x :: rest, seen => distinctNames rest (insertName seen x)

/-- `Tree::has_unique_tip_names`: refused as soon as a tip has no name; otherwise "number of DISTINCT names =
    `n_leaves()`" -/
def hasUniqueTipNames (a : Arena) : QR Bool :=
  match distinctNames (leafNames a) [] with
  | none => .err "UnnamedLeaves"
  | some seen => .ok (seen.length == nLeaves a)

/-- `Tree::size`: the number of arena SLOTS, removed ones included -/
def sizeOf (a : Arena) : Nat := a.size

/-! ### observers of `Node` (slot `i` of the arena; out-of-range slots read as tombstones) -/

/-- `Node::is_tip`: no children -/
def isTip (a : Arena) (i : Nat) : Bool := (nd a i).children.isEmpty
/-- `Node::is_root`: no parent -/
def isRootNode (a : Arena) (i : Nat) : Bool := (nd a i).parent.isNone
/-- `Node::get_depth`: the cached depth -/
def getDepth (a : Arena) (i : Nat) : Nat := (nd a i).depth
/-- `Node::get_child_edge` on node `p`: lookup in the parent-side table; `none` when the table has no entry for
    `c` (the never-allocated table of the crate is the empty table of the model) -/
def getChildEdge (a : Arena) (p c : Nat) : Option Int := alGet (nd a p).cedges c

/-- `tree.get(&i)` followed by the three observers: `(is_tip, is_root, depth)`; a removed or unknown id is
    refused by `get` -/
def nodeInfo (a : Arena) (i : Nat) : QR (Bool × Bool × Nat) := do
  let _ ← get a i
  pure (isTip a i, isRootNode a i, getDepth a i)

/-- `tree.get(&p)?.get_child_edge(&c)`: a removed or unknown `p` is refused by `get`; `c` is any number -/
def childEdgeQ (a : Arena) (p c : Nat) : QR (Option Int) := do
  let _ ← get a p
  pure (getChildEdge a p c)

/-! ### normalised balance indices, exact -/

/-- `(2..=n).map(|i| 1.0 / i).sum()`, exact -/
def harmonicSum (n : Nat) : Rat := ((List.range' 2 (n - 1)).map (fun (i : Nat) => (1 : Rat) / (i : Rat))).sum

/-- `(I_s − 2·n·sum) / n`.  Division is the total division of `Rat`: for `n = 0` the value is `0` (the crate
    would compute `0.0 / 0.0 = NaN` there); `n = 0` cannot occur when `sackin` succeeds on a well-formed arena —
    a rooted tree has at least two tips (`sackin_ok_two_tips`). -/
def yuleNorm (s n : Nat) : Rat := ((s : Rat) - 2 * (n : Rat) * harmonicSum n) / (n : Rat)

/-- `Tree::sackin_yule`, exact: refused exactly when `sackin` is -/
def sackinYule (a : Arena) : QR Rat := do
  let s ← sackin a
  pure (yuleNorm s (nLeaves a))

/-- the square of `I / n^(3/2)`: `I² / n³` (total division: `0` for `n = 0`) -/
def pdaSq (i n : Nat) : Rat := ((i : Rat) * (i : Rat)) / ((n : Rat) * (n : Rat) * (n : Rat))

/-- the exact square of `Tree::sackin_pda` (which is the non-negative square root of this value) -/
def sackinPdaSq (a : Arena) : QR Rat := do
  let s ← sackin a
  pure (pdaSq s (nLeaves a))

/-- the exact square of `Tree::colless_pda` (which is the non-negative square root of this value) -/
def collessPdaSq (a : Arena) : QR Rat := do
  let c ← colless a
  pure (pdaSq c (nLeaves a))

end AR
