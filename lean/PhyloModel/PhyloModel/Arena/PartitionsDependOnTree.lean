import PhyloModel.Arena.AnswersDependOnTree
import PhyloModel.Split.Model
/-! # C04 corollary for the bipartition machinery

`SPM.partitionsArena` (leaf index + `get_partitions`) reads, besides names, branch lengths and topology, the
CACHED depths of the abstract tree.  Under the invariant these are the levels of the nodes in the tree, hence
determined by the erased tree; ids are never read.  So two arenas with the same erased tree have the same
leaf index and the same partition map. -/
namespace AR

mutual
/-- the cached depths of a `Rose` are its levels, counted from `d` at the root -/
def LevelsFrom : Nat → Rose → Prop
  | d, .node _ _ _ d' ks => d' = d ∧ LevelsFromL (d + 1) ks
def LevelsFromL : Nat → List Rose → Prop
  | _, [] => True
  | d, k :: ks => LevelsFrom d k ∧ LevelsFromL d ks
end

mutual
theorem decorate_levels {a : Arena} (hinv : Inv a) : ∀ (t : RTI) (i : Nat), Rep a i t →
    LevelsFrom (nd a i).depth (decorate a t)
  | .node j ks, i, h => by
    simp only [Rep] at h
    obtain ⟨rfl, hl, hk⟩ := h
    simp only [decorate, LevelsFrom, true_and]
    exact decorateL_levels hinv ks _ i hl (fun c hc => hc) hk
theorem decorateL_levels {a : Arena} (hinv : Inv a) : ∀ (ts : List RTI) (cs : List Nat) (i : Nat), live a i →
    (∀ c ∈ cs, c ∈ (nd a i).children) → RepL a cs ts → LevelsFromL ((nd a i).depth + 1) (decorateL a ts)
  | [], _, _, _, _, _ => by simp [decorateL, LevelsFromL]
  | t :: ts, cs, i, hl, hsub, h => by
    cases cs with
    | nil => simp [RepL] at h
    | cons c cs =>
      simp only [RepL] at h
      have hd := (hinv.child_ok i c hl (hsub c (by simp))).2.2.1
      simp only [decorateL, LevelsFromL]
      refine ⟨?_, decorateL_levels hinv ts cs i hl (fun c' hc' => hsub c' (by simp [hc'])) h.2⟩
      rw [← hd]
      exact decorate_levels hinv t c h.1
end

/-- the cached depths of the abstract tree of a well-formed arena are the levels of its nodes -/
theorem absRoot_levels {a : Arena} (g : Good a) (h1 : AtMostOneRoot a) {t : Rose} (h : absRoot a = .ok t) :
    LevelsFrom 0 t := by
  obtain ⟨r, t0, c⟩ := absRoot_ctx g h1 h
  have := decorate_levels g.1 t0 r c.rep
  rw [g.1.root_depth r c.is_root.1 c.is_root.2] at this
  rw [c.dec]; exact this

mutual
/-- forget the arena ids only -/
def eraseId : Rose → Rose
  | .node _ n l d ks => .node 0 n l d (eraseIdL ks)
def eraseIdL : List Rose → List Rose
  | [] => []
  | k :: ks => eraseId k :: eraseIdL ks
end

mutual
/-- with level-consistent depths, the Newick content of a tree determines it up to ids -/
theorem eraseId_eq_of_erase_eq : ∀ (t t' : Rose) (d : Nat), LevelsFrom d t → LevelsFrom d t' →
    erase t = erase t' → eraseId t = eraseId t'
  | .node i n l d0 ks, .node i' n' l' d0' ks', d, h, h', he => by
    simp only [LevelsFrom] at h h'
    simp only [erase, RoseNL.node.injEq] at he
    obtain ⟨rfl, rfl, hk⟩ := he
    obtain ⟨rfl, hl⟩ := h
    obtain ⟨rfl, hl'⟩ := h'
    simp only [eraseId]
    rw [eraseIdL_eq_of_eraseL_eq ks ks' _ hl hl' hk]
theorem eraseIdL_eq_of_eraseL_eq : ∀ (ts ts' : List Rose) (d : Nat), LevelsFromL d ts → LevelsFromL d ts' →
    eraseL ts = eraseL ts' → eraseIdL ts = eraseIdL ts'
  | [], [], _, _, _, _ => rfl
  | [], _ :: _, _, _, _, he => by simp [eraseL] at he
  | _ :: _, [], _, _, _, he => by simp [eraseL] at he
  | t :: ts, t' :: ts', d, h, h', he => by
    simp only [LevelsFromL] at h h'
    simp only [eraseL, List.cons.injEq] at he
    simp only [eraseIdL]
    rw [eraseId_eq_of_erase_eq t t' d h.1 h'.1 he.1, eraseIdL_eq_of_eraseL_eq ts ts' d h.2 h'.2 he.2]
end

/-! ### the bipartition machinery never reads ids -/
open SPM

mutual
theorem tipNames_eraseId : ∀ t : Rose, tipNames (eraseId t) = tipNames t
  | .node _ n _ _ [] => by simp [eraseId, eraseIdL, tipNames]
  | .node _ _ _ _ (k :: ks) => by
    have := tipNamesL_eraseId (k :: ks)
    simp only [eraseId, eraseIdL, tipNames] at this ⊢
    exact this
theorem tipNamesL_eraseId : ∀ ts : List Rose, tipNamesL (eraseIdL ts) = tipNamesL ts
  | [] => by simp [eraseIdL, tipNamesL]
  | k :: ks => by simp only [eraseIdL, tipNamesL, tipNames_eraseId k, tipNamesL_eraseId ks]
end

theorem sideOf_eraseId (all : List String) (t : Rose) : sideOf all (eraseId t) = sideOf all t := by
  simp only [sideOf, tipNames_eraseId]

mutual
theorem branches_eraseId (all : List String) : ∀ t : Rose, branches all (eraseId t) = branches all t
  | .node _ _ _ _ ks => by simp only [eraseId, branches, branchesL_eraseId all ks]
theorem branchesL_eraseId (all : List String) : ∀ ts : List Rose, branchesL all (eraseIdL ts) = branchesL all ts
  | [] => by simp [eraseIdL, branchesL]
  | .node i n l d [] :: ks => by
    have h1 := branches_eraseId all (.node i n l d [])
    have h2 := branchesL_eraseId all ks
    simp only [eraseId, eraseIdL] at h1
    simp only [eraseIdL, eraseId, branchesL, h1, h2]
  | .node i n l d (k :: ks') :: ks => by
    have h1 := branches_eraseId all (.node i n l d (k :: ks'))
    have h2 := branchesL_eraseId all ks
    have h3 := sideOf_eraseId all (.node i n l d (k :: ks'))
    simp only [eraseId, eraseIdL] at h1 h3
    simp only [eraseIdL, eraseId, branchesL, h1, h2, h3]
end

theorem leafIndex_eraseId (t : Rose) : leafIndex (eraseId t) = leafIndex t := by
  simp only [leafIndex, tipNames_eraseId]

theorem partitions_eraseId (t : Rose) : partitions (eraseId t) = partitions t := by
  simp only [partitions, leafIndex_eraseId, branches_eraseId]

/-- **bipartitions depend only on the tree**: two well-formed arenas with the same erased tree have the same
    leaf index and the same partition map (sides, depths, accumulated lengths) -/
theorem partitions_depend_only_on_tree {a b : Arena} (ga : Good a) (gb : Good b) (ha : AtMostOneRoot a)
    (hb : AtMostOneRoot b) {ta tb : Rose} (hta : absRoot a = .ok ta) (htb : absRoot b = .ok tb)
    (he : erase ta = erase tb) :
    leafIndex ta = leafIndex tb ∧ partitions ta = partitions tb ∧ partitionsArena a = partitionsArena b := by
  have hid : eraseId ta = eraseId tb :=
    eraseId_eq_of_erase_eq ta tb 0 (absRoot_levels ga ha hta) (absRoot_levels gb hb htb) he
  have e1 : leafIndex ta = leafIndex tb := by rw [← leafIndex_eraseId ta, hid, leafIndex_eraseId]
  have e2 : partitions ta = partitions tb := by rw [← partitions_eraseId ta, hid, partitions_eraseId]
  refine ⟨e1, e2, ?_⟩
  obtain ⟨ra, _, ca⟩ := absRoot_ctx ga ha hta
  obtain ⟨rb, _, cb⟩ := absRoot_ctx gb hb htb
  simp only [partitionsArena, ca.root_eq, cb.root_eq, hta, htb, QR.bind_ok, e1, e2]

/-! ### tree comparison (Robinson–Foulds and friends) never reads ids either -/

theorem eraseIdL_eq_map : ∀ ks : List Rose, eraseIdL ks = ks.map eraseId
  | [] => rfl
  | k :: ks => by rw [eraseIdL, eraseIdL_eq_map ks]; rfl

theorem eraseId_kids (t : Rose) : (eraseId t).kids = t.kids.map eraseId := by
  cases t; simp [eraseId, Rose.kids, eraseIdL_eq_map]

theorem rootSides_eraseId (all : List String) (t : Rose) : rootSides all (eraseId t) = rootSides all t := by
  simp only [rootSides, eraseId_kids, List.map_map]
  congr 1
  apply List.map_congr_left
  intro k _
  exact sideOf_eraseId all k

theorem isRootedR_eraseId (t : Rose) : SPM.isRootedR (eraseId t) = SPM.isRootedR t := by
  simp [SPM.isRootedR, eraseId_kids]

mutual
theorem tipBranches_eraseId : ∀ t : Rose, tipBranches (eraseId t) = tipBranches t
  | .node _ n _ _ [] => by simp [eraseId, eraseIdL, tipBranches]
  | .node _ _ _ _ (k :: ks) => by
    have := tipBranchesL_eraseId (k :: ks)
    simp only [eraseId, eraseIdL, tipBranches] at this ⊢
    exact this
theorem tipBranchesL_eraseId : ∀ ts : List Rose, tipBranchesL (eraseIdL ts) = tipBranchesL ts
  | [] => by simp [eraseIdL, tipBranchesL]
  | k :: ks => by simp only [eraseIdL, tipBranchesL, tipBranches_eraseId k, tipBranchesL_eraseId ks]
end

theorem rf_eraseId (s o : Rose) : rf (eraseId s) o = rf s o := by
  simp only [rf, partitions_eraseId, leafIndex_eraseId, rootSides_eraseId, isRootedR_eraseId]

theorem compareTopologies_eraseId (s o : Rose) : compareTopologies (eraseId s) o = compareTopologies s o := by
  simp only [compareTopologies, partitions_eraseId, leafIndex_eraseId, rootSides_eraseId, isRootedR_eraseId]

theorem compareBranches_eraseId (s o : Rose) (tips : Bool) :
    compareBranches (eraseId s) o tips = compareBranches s o tips := by
  simp only [compareBranches, partitions_eraseId, leafIndex_eraseId, tipBranches_eraseId]

theorem rf_eraseId_right (s o : Rose) : rf s (eraseId o) = rf s o := by
  simp only [rf, partitions_eraseId, leafIndex_eraseId, rootSides_eraseId, isRootedR_eraseId]

theorem compareTopologies_eraseId_right (s o : Rose) :
    compareTopologies s (eraseId o) = compareTopologies s o := by
  simp only [compareTopologies, partitions_eraseId, leafIndex_eraseId, rootSides_eraseId, isRootedR_eraseId]

theorem compareBranches_eraseId_right (s o : Rose) (tips : Bool) :
    compareBranches s (eraseId o) tips = compareBranches s o tips := by
  simp only [compareBranches, partitions_eraseId, leafIndex_eraseId, tipBranches_eraseId]

/-- **tree comparison depends only on the trees**: replacing either arena by another one holding the same
    erased tree changes neither the Robinson–Foulds distance, nor `compare_topologies` (RF, total, weighted RF,
    squared branch score), nor `compare_branch_lengths` -/
theorem comparison_depends_only_on_tree {a b : Arena} (ga : Good a) (gb : Good b) (ha : AtMostOneRoot a)
    (hb : AtMostOneRoot b) {ta tb : Rose} (hta : absRoot a = .ok ta) (htb : absRoot b = .ok tb)
    (he : erase ta = erase tb) (o : Rose) :
    rf ta o = rf tb o ∧ rf o ta = rf o tb ∧
    compareTopologies ta o = compareTopologies tb o ∧ compareTopologies o ta = compareTopologies o tb ∧
    (∀ tips, compareBranches ta o tips = compareBranches tb o tips) ∧
    (∀ tips, compareBranches o ta tips = compareBranches o tb tips) := by
  have hid : eraseId ta = eraseId tb :=
    eraseId_eq_of_erase_eq ta tb 0 (absRoot_levels ga ha hta) (absRoot_levels gb hb htb) he
  refine ⟨?_, ?_, ?_, ?_, ?_, ?_⟩
  · rw [← rf_eraseId ta, hid, rf_eraseId]
  · rw [← rf_eraseId_right o ta, hid, rf_eraseId_right]
  · rw [← compareTopologies_eraseId ta, hid, compareTopologies_eraseId]
  · rw [← compareTopologies_eraseId_right o ta, hid, compareTopologies_eraseId_right]
  · intro tips; rw [← compareBranches_eraseId ta, hid, compareBranches_eraseId]
  · intro tips; rw [← compareBranches_eraseId_right o ta, hid, compareBranches_eraseId_right]

/-- non-vacuity on the two layouts of the cherry -/
example : partitionsArena exA = partitionsArena exB :=
  (partitions_depend_only_on_tree exA_ok.1 exB_ok.1 exA_ok.2 exB_ok.2 exA_abs exB_abs ex_erase).2.2

end AR
