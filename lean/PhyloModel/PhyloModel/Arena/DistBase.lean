import PhyloModel.Arena.PathFacts
import PhyloModel.Arena.OpsInv
/-! Shared tools for the path-length preservation theorems of C11 (`DistRescale`, `DistLadder`,
    `DistCompress`, `DistResolve`): the executable `distance` written through the two root paths,
    algebra of `optSum`, arithmetic of `cursor`, and the relation "same path length in both arenas". -/
namespace AR

/-! ### `optSum` -/

theorem optAdd_none_left (x : Option Int) : optAdd none x = none := by cases x <;> rfl
theorem optAdd_none_right (x : Option Int) : optAdd x none = none := by cases x <;> rfl

theorem optAdd_comm (x y : Option Int) : optAdd x y = optAdd y x := by
  cases x <;> cases y <;> simp [optAdd, Int.add_comm]

theorem optAdd_assoc (x y z : Option Int) : optAdd (optAdd x y) z = optAdd x (optAdd y z) := by
  cases x <;> cases y <;> cases z <;> simp [optAdd, Int.add_assoc]

theorem optAdd_zero_left (x : Option Int) : optAdd (some 0) x = x := by cases x <;> simp [optAdd]
theorem optAdd_zero_right (x : Option Int) : optAdd x (some 0) = x := by cases x <;> simp [optAdd]

theorem foldl_optAdd (l : List (Option Int)) (s : Option Int) :
    l.foldl optAdd s = optAdd s (l.foldl optAdd (some 0)) := by
  induction l generalizing s with
  | nil => simp [optAdd_zero_right]
  | cons x xs ih =>
    simp only [List.foldl_cons]
    rw [ih (optAdd s x), ih (optAdd (some 0) x), optAdd_zero_left, optAdd_assoc]

theorem optSum_nil : optSum [] = some 0 := rfl

theorem optSum_cons (x : Option Int) (l : List (Option Int)) : optSum (x :: l) = optAdd x (optSum l) := by
  unfold optSum
  rw [List.foldl_cons, foldl_optAdd, optAdd_zero_left]

theorem optSum_append (l1 l2 : List (Option Int)) : optSum (l1 ++ l2) = optAdd (optSum l1) (optSum l2) := by
  induction l1 with
  | nil => simp [optSum_nil, optAdd_zero_left]
  | cons x xs ih => simp only [List.cons_append, optSum_cons, ih, optAdd_assoc]

theorem optSum_append_comm (l1 l2 : List (Option Int)) : optSum (l1 ++ l2) = optSum (l2 ++ l1) := by
  rw [optSum_append, optSum_append, optAdd_comm]

/-! ### `cursor` -/

theorem cursor_nil_right (p : List Nat) : cursor p [] = 0 := by cases p <;> rfl
theorem cursor_nil_left (q : List Nat) : cursor [] q = 0 := rfl

theorem cursor_append (c p q : List Nat) : cursor (c ++ p) (c ++ q) = c.length + cursor p q := by
  induction c with
  | nil => simp
  | cons x c ih => simp only [List.cons_append, cursor, ↓reduceIte, ih, List.length_cons]; omega

theorem cursor_heads {p q : List Nat} (h : ∀ x y, p.head? = some x → q.head? = some y → x ≠ y) :
    cursor p q = 0 := by
  cases p with
  | nil => rfl
  | cons x xs =>
    cases q with
    | nil => rfl
    | cons y ys =>
      have := h x y rfl rfl
      simp [cursor, this]

/-! ### `distance` through root paths -/

/-- what `get_distance` computes from the two root paths -/
def distOf (a : Arena) (p q : List Nat) : Option Int × Nat :=
  ((optSum (((p.drop (cursor p q)) ++ (q.drop (cursor p q))).map (fun i => (nd a i).pedge))),
   ((p.drop (cursor p q)) ++ (q.drop (cursor p q))).length)

theorem distance_of_paths {a : Arena} {r : Nat → Nat} (w : W a r) {p q : List Nat} {s t : Nat}
    (hp : Path a p s) (hq : Path a q t) (hne : s ≠ t) : distance a s t = .ok (distOf a p q) := by
  have hps := pathFromRoot_eq w hp
  have hqs := pathFromRoot_eq w hq
  simp only [distance, hne, ↓reduceIte, hps, hqs, QR.bind_ok, QR.pure_eq, distOf]

/-- with the two root paths split at their common prefix -/
theorem distOf_split (a : Arena) (c p2 q2 : List Nat)
    (hd : ∀ x y, p2.head? = some x → q2.head? = some y → x ≠ y) :
    distOf a (c ++ p2) (c ++ q2) = (optSum ((p2 ++ q2).map (fun i => (nd a i).pedge)), (p2 ++ q2).length) := by
  have hc : cursor (c ++ p2) (c ++ q2) = c.length := by rw [cursor_append, cursor_heads hd]; rfl
  simp only [distOf, hc, List.drop_left]

theorem path_total {a : Arena} (g : Good a) (x : Nat) (hl : live a x) : ∃ l, Path a l x :=
  Path.exists g.1.toW ((nd a x).depth) x hl (Nat.le_refl _)

/-- a successful `distance` between distinct nodes means both are live -/
theorem distance_ok_live {a : Arena} {s t : Nat} {d : Option Int × Nat} (hne : s ≠ t)
    (h : distance a s t = .ok d) : live a s ∧ live a t := by
  constructor
  · apply Classical.byContradiction; intro hl
    have := pathFromRoot_dead a s hl
    simp [distance, hne, this] at h
  · apply Classical.byContradiction; intro hl
    have := pathFromRoot_dead a t hl
    cases hs : pathFromRoot a s with
    | ok v => simp [distance, hne, hs, this] at h
    | err k => simp [distance, hne, hs] at h
    | panic => simp [distance, hne, hs] at h

/-! ### same length of the connecting path in two arenas -/

/-- both arenas answer `get_distance x y`, with the same length component (the sum of the branch lengths on
    the connecting path, or "a length is missing"); the edge counts are `n` and `n'` -/
def SameLen (a a' : Arena) (x y : Nat) (n n' : Nat) : Prop :=
  ∃ d, distance a x y = .ok (d, n) ∧ distance a' x y = .ok (d, n')

theorem SameLen.trans {a b c : Arena} {x y n1 n2 n2' n3 : Nat} (h1 : SameLen a b x y n1 n2)
    (h2 : SameLen b c x y n2' n3) : SameLen a c x y n1 n3 ∧ n2' = n2 := by
  obtain ⟨d, e1, e2⟩ := h1
  obtain ⟨d', e3, e4⟩ := h2
  rw [e2] at e3
  injection e3 with e3
  injection e3 with e5 e6
  subst e5 e6
  exact ⟨⟨d, e1, e4⟩, rfl⟩

/-! ### a decidable test, for the concrete examples -/

def distIs (r : QR (Option Int × Nat)) (d : Option Int) (n : Nat) : Bool :=
  match r with
  | .ok (d', n') => d' == d && n' == n
  | _ => false

theorem distIs_eq {r : QR (Option Int × Nat)} {d : Option Int} {n : Nat} (h : distIs r d n = true) :
    r = .ok (d, n) := by
  unfold distIs at h
  split at h
  · simp only [Bool.and_eq_true, beq_iff_eq] at h; rw [h.1, h.2]
  · cases h

end AR
