import PhyloModel.Arena.AbsRose
import PhyloModel.Misc.Sackin
/-! # Textbook definitions of the read-only answers, on trees

`RoseNL` is a rose tree that carries only what a Newick text carries: node name, branch length, ordered kids
(no arena ids, no cached depths).  `erase : Rose → RoseNL` forgets ids and cached depths.  Every id-free
answer is DEFINED on `RoseNL` straight from the topology, names and branch lengths (`…NL`), and the `Rose`
version (`…R`) is that definition applied to `erase t` — so it cannot depend on ids or cached depths.
Answers that are lists of node ids (`tipIdsR`, `idsNamedR`) are defined on `Rose`. -/
namespace AR

inductive RoseNL where
  | node (name : Option String) (len : Option Int) (kids : List RoseNL)
deriving Repr, Inhabited

def RoseNL.name : RoseNL → Option String | .node n _ _ => n
def RoseNL.len : RoseNL → Option Int | .node _ l _ => l
def RoseNL.kids : RoseNL → List RoseNL | .node _ _ k => k

mutual
/-- forget arena ids and cached depths -/
def erase : Rose → RoseNL
  | .node _ n l _ ks => .node n l (eraseL ks)
def eraseL : List Rose → List RoseNL
  | [] => []
  | k :: ks => erase k :: eraseL ks
end

theorem eraseL_eq_map : ∀ ks : List Rose, eraseL ks = ks.map erase
  | [] => rfl
  | k :: ks => by rw [eraseL, eraseL_eq_map ks]; rfl

@[simp] theorem erase_name (t : Rose) : (erase t).name = t.name := by
  cases t; simp [erase, RoseNL.name, Rose.name]
@[simp] theorem erase_len (t : Rose) : (erase t).len = t.len := by
  cases t; simp [erase, RoseNL.len, Rose.len]
@[simp] theorem erase_kids (t : Rose) : (erase t).kids = t.kids.map erase := by
  cases t; simp [erase, RoseNL.kids, Rose.kids, eraseL_eq_map]

mutual
/-- all nodes (as sub-trees), in pre-order -/
def nodesNL : RoseNL → List RoseNL | .node n l ks => .node n l ks :: nodesNLL ks
def nodesNLL : List RoseNL → List RoseNL | [] => [] | k :: ks => nodesNL k ++ nodesNLL ks
end

theorem nodesNL_eq (t : RoseNL) : nodesNL t = t :: nodesNLL t.kids := by cases t; simp [nodesNL, RoseNL.kids]

mutual
theorem nodesNL_erase : ∀ t : Rose, nodesNL (erase t) = (nodesR t).map erase
  | .node i n l d ks => by simp only [erase, nodesNL, nodesR, List.map_cons, nodesNLL_erase ks]
theorem nodesNLL_erase : ∀ ts : List Rose, nodesNLL (eraseL ts) = (nodesRL ts).map erase
  | [] => by simp [eraseL, nodesNLL, nodesRL]
  | t :: ts => by simp only [eraseL, nodesNLL, nodesRL, List.map_append, nodesNL_erase t, nodesNLL_erase ts]
end

/-! ### leaves -/

def RoseNL.isTip (t : RoseNL) : Bool := t.kids.isEmpty

/-- the tips, left to right -/
def tipsNL (t : RoseNL) : List RoseNL := (nodesNL t).filter RoseNL.isTip
def tipsNLL (ts : List RoseNL) : List RoseNL := (nodesNLL ts).filter RoseNL.isTip

/-- the recursive reading of `tipsNL`: a childless node is its own only tip, otherwise the tips of the kids
    left to right -/
theorem tipsNL_tip (n : Option String) (l : Option Int) : tipsNL (.node n l []) = [.node n l []] := by
  simp [tipsNL, nodesNL, nodesNLL, RoseNL.isTip, RoseNL.kids]
theorem tipsNL_inner (n : Option String) (l : Option Int) (k : RoseNL) (ks : List RoseNL) :
    tipsNL (.node n l (k :: ks)) = tipsNLL (k :: ks) := by
  simp [tipsNL, tipsNLL, nodesNL, RoseNL.isTip, RoseNL.kids]
theorem tipsNLL_nil : tipsNLL [] = [] := by simp [tipsNLL, nodesNLL]
theorem tipsNLL_cons (k : RoseNL) (ks : List RoseNL) : tipsNLL (k :: ks) = tipsNL k ++ tipsNLL ks := by
  simp [tipsNLL, tipsNL, nodesNLL]

def nLeavesNL (t : RoseNL) : Nat := (tipsNL t).length
/-- leaf names, left to right -/
def leafNamesNL (t : RoseNL) : List (Option String) := (tipsNL t).map RoseNL.name

/-! ### rootedness, binarity -/

/-- rooted: the root has exactly two kids -/
def isRootedNL (t : RoseNL) : Bool := t.kids.length == 2

/-- binary: every non-root node has at most two kids; the root at most three (an unrooted binary tree is
    written with a trifurcating virtual root), which for a rooted tree means exactly two -/
def isBinaryNL (t : RoseNL) : Bool :=
  decide (t.kids.length ≤ 3) && (nodesNLL t.kids).all (fun s => decide (s.kids.length ≤ 2))

/-! ### total length -/

/-- sum of the branch lengths of all non-root nodes; absent when one of them is absent -/
def totalLengthNL (t : RoseNL) : Option Int :=
  let es := (nodesNLL t.kids).map RoseNL.len
  if es.all Option.isSome then some (es.map (·.getD 0)).sum else none

/-! ### cherries, Colless, Sackin -/

/-- a cherry: exactly two kids, both tips -/
def RoseNL.isCherry (s : RoseNL) : Bool :=
  match s.kids with
  | [x, y] => x.isTip && y.isTip
  | _ => false

def cherriesNL (t : RoseNL) : Nat := ((nodesNL t).filter RoseNL.isCherry).length

/-- the Colless term `|L − R|` of a node with two kids (tip counts below the kids); a node with a single
    kid contributes the tip count below it (`R = 0`); tips contribute nothing -/
def collessTermNL (s : RoseNL) : Nat :=
  match s.kids with
  | [l, r] => absDiff (nLeavesNL l) (nLeavesNL r)
  | [l] => nLeavesNL l
  | _ => 0

/-- Colless index of a binary tree: sum over the nodes of `|L − R|` -/
def collessNL (t : RoseNL) : Nat := ((nodesNL t).map collessTermNL).sum

mutual
def shapeNL : RoseNL → SK.T | .node _ _ ks => .node (shapeNLL ks)
def shapeNLL : List RoseNL → List SK.T | [] => [] | k :: ks => shapeNL k :: shapeNLL ks
end

/-- Sackin index: sum over the internal nodes of the number of tips below them (`SK.sackin`), equivalently
    (`SK.sackin_two_definitions`) the sum over the tips of their number of edges to the root -/
def sackinNL (t : RoseNL) : Nat := SK.sackin (shapeNL t)

theorem sackinNL_depth_form (t : RoseNL) : sackinNL t = SK.depthSum 0 (shapeNL t) :=
  (SK.sackin_two_definitions _).symm

/-! ### root-to-tip paths, height, diameter -/

/-- a step of a path: (index of the kid taken, its branch length) -/
abbrev Step := Nat × Option Int

mutual
/-- for every tip, left to right, the steps leading from the root to it -/
def tipPathsNL : RoseNL → List (List Step)
  | .node _ _ [] => [[]]
  | .node _ _ (k :: ks) => tipPathsNLL 0 (k :: ks)
def tipPathsNLL : Nat → List RoseNL → List (List Step)
  | _, [] => []
  | j, k :: ks => (tipPathsNL k).map (fun p => (j, k.len) :: p) ++ tipPathsNLL (j + 1) ks
end

/-- the length of a path as the real code reports it: the sum of the branch lengths when all are present,
    else the number of edges (times `unit`) -/
def pathLen (unit : Int) (p : List Step) : Int := distVal unit (optSum (p.map (·.2)), p.length)

/-- height: the longest root-to-tip path -/
def heightNL (unit : Int) (t : RoseNL) : Option Int := maxOf ((tipPathsNL t).map (pathLen unit))

/-- the path between two nodes given by their root paths: drop the common prefix, join the two legs -/
def joinPaths : List Step → List Step → List Step
  | x :: xs, y :: ys => if x.1 = y.1 then joinPaths xs ys else (x :: xs) ++ (y :: ys)
  | xs, ys => xs ++ ys

def pairsOfG {α : Type} : List α → List (α × α)
  | [] => []
  | x :: xs => xs.map (fun y => (x, y)) ++ pairsOfG xs

/-- diameter: the longest tip-to-tip path -/
def diameterNL (unit : Int) (t : RoseNL) : Option Int :=
  maxOf ((pairsOfG (tipPathsNL t)).map (fun pq => pathLen unit (joinPaths pq.1 pq.2)))

/-! ### name lookups (id-free part) -/

/-- how many nodes carry the name `n` -/
def countNameNL (t : RoseNL) (n : Option String) : Nat := ((nodesNL t).filter (fun s => s.name == n)).length

/-! ### the `Rose` versions: the `RoseNL` definition applied to the erased tree -/

def nLeavesR (t : Rose) : Nat := nLeavesNL (erase t)
def leafNamesR (t : Rose) : List (Option String) := leafNamesNL (erase t)
def isRootedR (t : Rose) : Bool := isRootedNL (erase t)
def isBinaryR (t : Rose) : Bool := isBinaryNL (erase t)
def totalLengthR (t : Rose) : Option Int := totalLengthNL (erase t)
def cherriesR (t : Rose) : Nat := cherriesNL (erase t)
def collessR (t : Rose) : Nat := collessNL (erase t)
def sackinR (t : Rose) : Nat := sackinNL (erase t)
def heightR (unit : Int) (t : Rose) : Option Int := heightNL unit (erase t)
def diameterR (unit : Int) (t : Rose) : Option Int := diameterNL unit (erase t)
def countNameR (t : Rose) (n : Option String) : Nat := countNameNL (erase t) n

/-! ### id-level answers on `Rose` -/

def Rose.isTip (t : Rose) : Bool := t.kids.isEmpty

/-- the tips of a `Rose`, left to right -/
def tipsR (t : Rose) : List Rose := (nodesR t).filter Rose.isTip
def tipIdsR (t : Rose) : List Nat := (tipsR t).map Rose.id
/-- the ids of the nodes carrying the name `n`, in pre-order -/
def idsNamedR (t : Rose) (n : Option String) : List Nat := ((nodesR t).filter (fun s => s.name == n)).map Rose.id

@[simp] theorem erase_isTip (t : Rose) : (erase t).isTip = t.isTip := by
  simp [RoseNL.isTip, Rose.isTip]

theorem tipsNL_erase (t : Rose) : tipsNL (erase t) = (tipsR t).map erase := by
  simp only [tipsNL, tipsR, nodesNL_erase, List.filter_map]
  congr 1
  apply List.filter_congr
  intro s _
  simp

theorem nLeavesR_eq (t : Rose) : nLeavesR t = (tipsR t).length := by
  simp [nLeavesR, nLeavesNL, tipsNL_erase]

theorem leafNamesR_eq (t : Rose) : leafNamesR t = (tipsR t).map Rose.name := by
  simp only [leafNamesR, leafNamesNL, tipsNL_erase, List.map_map]
  apply List.map_congr_left
  intro s _
  simp

theorem countNameR_eq (t : Rose) (n : Option String) : countNameR t n = (idsNamedR t n).length := by
  simp only [countNameR, countNameNL, idsNamedR, nodesNL_erase, List.filter_map, List.length_map]
  congr 1
  apply List.filter_congr
  intro s _
  simp

/-! ### recursive readings of the node-list definitions -/

theorem nodesNLL_eq_flatMap : ∀ ks : List RoseNL, nodesNLL ks = ks.flatMap nodesNL
  | [] => rfl
  | k :: ks => by rw [nodesNLL, nodesNLL_eq_flatMap ks]; simp

theorem nLeavesNL_tip (n : Option String) (l : Option Int) : nLeavesNL (.node n l []) = 1 := by
  simp [nLeavesNL, tipsNL_tip]

/-- an internal node has the tips of its kids -/
theorem nLeavesNL_inner (n : Option String) (l : Option Int) (k : RoseNL) (ks : List RoseNL) :
    nLeavesNL (.node n l (k :: ks)) = ((k :: ks).map nLeavesNL).sum := by
  rw [nLeavesNL, tipsNL_inner]
  generalize k :: ks = l'
  induction l' with
  | nil => simp [tipsNLL_nil]
  | cons x xs ih => simp [tipsNLL_cons, ih, nLeavesNL]

/-- cherries of a node: itself if it is one, plus the cherries of its kids -/
theorem cherriesNL_node (n : Option String) (l : Option Int) (ks : List RoseNL) :
    cherriesNL (.node n l ks) = (if (RoseNL.node n l ks).isCherry then 1 else 0) + (ks.map cherriesNL).sum := by
  simp only [cherriesNL, nodesNL, List.filter_cons]
  have : ((nodesNLL ks).filter RoseNL.isCherry).length = (ks.map cherriesNL).sum := by
    induction ks with
    | nil => simp [nodesNLL]
    | cons x xs ih => simp [nodesNLL, List.filter_append, ih, cherriesNL]
  split <;> simp [this] <;> omega

/-- Colless index of a node: its own term plus the indices of its kids -/
theorem collessNL_node (n : Option String) (l : Option Int) (ks : List RoseNL) :
    collessNL (.node n l ks) = collessTermNL (.node n l ks) + (ks.map collessNL).sum := by
  simp only [collessNL, nodesNL, List.map_cons, List.sum_cons]
  congr 1
  induction ks with
  | nil => simp [nodesNLL]
  | cons x xs ih => simp [nodesNLL, List.sum_append, ih, collessNL]

/-- sanity: the answers on `((A:1,B:2)C:3,D:4)R;` -/
def exNL : RoseNL :=
  .node (some "R") none [.node (some "C") (some 3) [.node (some "A") (some 1) [], .node (some "B") (some 2) []],
    .node (some "D") (some 4) []]

example : nLeavesNL exNL = 3 ∧ leafNamesNL exNL = [some "A", some "B", some "D"] ∧ isRootedNL exNL = true ∧
    isBinaryNL exNL = true ∧ totalLengthNL exNL = some 10 ∧ cherriesNL exNL = 1 ∧ collessNL exNL = 1 ∧
    sackinNL exNL = 5 ∧ heightNL 1 exNL = some 5 ∧ diameterNL 1 exNL = some 9 := by decide

end AR
