import PhyloModel.Arena.Ops
import PhyloModel.Arena.Rep
import PhyloModel.Arena.Lca
/-! Executable model of the read-only queries of `Tree` (repaired semantics: tombstones are never
    counted or listed).  Answers are node ids / integers; the harness canonicalises. -/
namespace AR

inductive QR (α : Type) where
  | ok (v : α)
  | err (kind : String)
  | panic
deriving Repr

instance : Monad QR where
  pure := .ok
  bind x f := match x with | .ok v => f v | .err k => .err k | .panic => .panic

def QR.ofOpt {α : Type} (o : Option α) (k : String) : QR α :=
  match o with | some v => .ok v | none => .err k

def get (a : Arena) (i : Nat) : QR Node :=
  if isLive a i then .ok (nd a i) else .err "NodeNotFound"

/-- `Tree::get_leaves` -/
def leaves (a : Arena) : List Nat :=
  (List.range a.size).filter (fun i => isLive a i && (nd a i).children.isEmpty)

/-- `Tree::n_leaves` (repaired: live tips only) -/
def nLeaves (a : Arena) : Nat := (leaves a).length

def root (a : Arena) : QR Nat := QR.ofOpt (getRoot a) "RootNotFound"

/-- `Tree::get_subtree` = `Tree::preorder` -/
def subtree (a : Arena) (x : Nat) : QR (List Nat) := QR.ofOpt (preorderF (fuelOf a) a x) "NodeNotFound"

/-- `Tree::get_descendants` -/
def descendants (a : Arena) (x : Nat) : QR (List Nat) := do
  let n ← get a x
  n.children.foldlM (fun acc c => do let l ← subtree a c; pure (acc ++ l)) []

/-- `Tree::get_subtree_leaves` -/
def subtreeLeaves (a : Arena) (x : Nat) : QR (List Nat) := do
  let l ← subtree a x
  pure (l.filter (fun i => (nd a i).children.isEmpty))

/-- `Tree::postorder` with fuel -/
def postorderF : Nat → Arena → Nat → Option (List Nat)
  | 0, _, _ => none
  | f + 1, a, x =>
    if isLive a x then
      ((nd a x).children.foldlM (fun acc c => (postorderF f a c).map (fun l => acc ++ l)) []).map (· ++ [x])
    else none

/-- `Tree::inorder` with fuel; `none` = fuel exhausted -/
def inorderF : Nat → Arena → Nat → Option (QR (List Nat))
  | 0, _, _ => none
  | f + 1, a, x =>
    if !isLive a x then some (.err "NodeNotFound") else
    match (nd a x).children with
    | [] => some (.ok [x])
    | [l] => (inorderF f a l).map (fun r => do let ll ← r; pure (ll ++ [x]))
    | [l, r] =>
      match inorderF f a l, inorderF f a r with
      | some rl, some rr => some (do let ll ← rl; let rr' ← rr; pure (ll ++ [x] ++ rr'))
      | _, _ => none
    | _ => some (.err "IsNotBinary")

def postorder (a : Arena) (x : Nat) : QR (List Nat) := QR.ofOpt (postorderF (fuelOf a) a x) "NodeNotFound"
def inorder (a : Arena) (x : Nat) : QR (List Nat) :=
  match inorderF (fuelOf a) a x with | some r => r | none => .err "NodeNotFound"
def levelorderQ (a : Arena) (x : Nat) : QR (List Nat) := QR.ofOpt (levelorder a x) "NodeNotFound"

/-- `Tree::is_rooted` -/
def isRooted (a : Arena) : QR Bool := do
  let r ← root a
  pure (a.size != 0 && (nd a r).children.length == 2)

/-- `Tree::is_binary`: every slot is inspected; parentless slots use the root's arity limits -/
def isBinary (a : Arena) : QR Bool := do
  let rooted ← if a.size = 0 then pure false else isRooted a
  pure <| (List.range a.size).all fun i =>
    let n := nd a i
    if n.parent.isNone then
      !((rooted && n.children.length > 2) || (!rooted && n.children.length > 3))
    else n.children.length ≤ 2

/-- `Tree::get_path_from_root` -/
def pathFromRoot (a : Arena) (x : Nat) : QR (List Nat) :=
  QR.ofOpt (climbF (fuelOf a) a x []) "NodeNotFound"

/-- `Tree::get_common_ancestor` (repaired: no common ancestor is an error, not an underflow) -/
def commonAncestor (a : Arena) (s t : Nat) : QR Nat :=
  if s = t then .ok s else do
    let ps ← pathFromRoot a s
    let pt ← pathFromRoot a t
    let c := cursor ps pt
    if c = 0 then .err "GeneralError" else .ok (ps.getD (c - 1) 0)

/-- sum of optional lengths, absent as soon as one is absent (the `all_dists` flag of `get_distance`) -/
def optAdd (acc l : Option Int) : Option Int :=
  match acc, l with | some s, some v => some (s + v) | _, _ => none
def optSum (l : List (Option Int)) : Option Int := l.foldl optAdd (some 0)

/-- `Tree::get_distance`: (sum of lengths if all present, number of edges) -/
def distance (a : Arena) (s t : Nat) : QR (Option Int × Nat) :=
  if s = t then .ok (some 0, 0) else do
    let ps ← pathFromRoot a s
    let pt ← pathFromRoot a t
    let c := cursor ps pt
    let tail := ps.drop c ++ pt.drop c
    pure (optSum (tail.map (fun i => (nd a i).pedge)), tail.length)

/-- `Tree::get_common_ancestor` as the public entry point (repaired): the `source == target` shortcut answers only for a
    node of the tree; an id that was removed or never handed out is refused like everywhere else -/
def commonAncestorPub (a : Arena) (s t : Nat) : QR Nat :=
  if s = t then (if isLive a s then .ok s else .err "NodeNotFound") else commonAncestor a s t

/-- `Tree::get_distance` as the public entry point (repaired): same guard on the `source == target` shortcut -/
def distancePub (a : Arena) (s t : Nat) : QR (Option Int × Nat) :=
  if s = t then (if isLive a s then .ok (some 0, 0) else .err "NodeNotFound") else distance a s t

/-- a distance as the real code's `f64`: the sum when defined, else the edge count (`unit` scaled) -/
def distVal (unit : Int) (d : Option Int × Nat) : Int :=
  match d.1 with | some s => s | none => unit * d.2

def maxOf : List Int → Option Int
  | [] => none
  | x :: xs => some (xs.foldl max x)

/-- `Tree::height` -/
def treeHeight (a : Arena) (unit : Int) : QR Int := do
  let rooted ← isRooted a
  if !rooted then .err "IsNotRooted" else
  let r ← root a
  let ds ← (leaves a).mapM (fun l => do let d ← distance a r l; pure (distVal unit d))
  QR.ofOpt (maxOf ds) "IsEmpty"

def pairsOf : List Nat → List (Nat × Nat)
  | [] => []
  | x :: xs => xs.map (fun y => (x, y)) ++ pairsOf xs

/-- `Tree::diameter` -/
def diameter (a : Arena) (unit : Int) : QR Int := do
  let ds ← (pairsOf (leaves a)).mapM (fun (x, y) => do let d ← distance a x y; pure (distVal unit d))
  QR.ofOpt (maxOf ds) "IsEmpty"

/-- `Tree::length` -/
def totalLength (a : Arena) : QR Int :=
  let es := ((List.range a.size).filter (fun i => (nd a i).parent.isSome)).map (fun i => (nd a i).pedge)
  if es.all Option.isSome then .ok (es.map (·.getD 0)).sum else .err "MissingBranchLengths"

def checkRootedBinary (a : Arena) : QR Unit := do
  let r ← isRooted a
  if !r then .err "IsNotRooted" else
  let b ← isBinary a
  if !b then .err "IsNotBinary" else pure ()

/-- `Tree::cherries` -/
def cherries (a : Arena) : QR Nat := do
  let b ← isBinary a
  if !b then .err "IsNotBinary" else
  if a.size = 0 then .err "IsEmpty" else
  pure ((List.range a.size).filter (fun i =>
    match (nd a i).children with
    | [x, y] => (nd a x).children.isEmpty && (nd a y).children.isEmpty
    | _ => false)).length

def absDiff (x y : Nat) : Nat := if x ≤ y then y - x else x - y

/-- `Tree::colless` -/
def colless (a : Arena) : QR Nat := do
  checkRootedBinary a
  let inner := (List.range a.size).filter (fun i => !(nd a i).children.isEmpty)
  let terms ← inner.mapM (fun i => do
    let kids := (nd a i).children
    let l ← subtreeLeaves a (kids.getD 0 0)
    let r ← if kids.length > 1 then subtreeLeaves a (kids.getD 1 0) else pure []
    pure (absDiff l.length r.length))
  pure terms.sum

/-- `Tree::sackin`: sum of the cached depths of the tips -/
def sackin (a : Arena) : QR Nat := do
  checkRootedBinary a
  pure ((leaves a).map (fun i => (nd a i).depth)).sum

/-- `Tree::get_by_name`: first slot whose name matches -/
def getByName (a : Arena) (name : String) : Option Nat :=
  (List.range a.size).find? (fun i => (nd a i).name == some name)

/-- `Tree::search_nodes` with a name predicate (repaired: live slots only) -/
def searchName (a : Arena) (name : Option String) : List Nat :=
  (List.range a.size).filter (fun i => isLive a i && (nd a i).name == name)

end AR
