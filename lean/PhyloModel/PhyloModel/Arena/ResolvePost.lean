import PhyloModel.Arena.CompressPost
/-! Postcondition and frame of `resolve`: for every outcome of its random choices, when it returns no node
    has more than two children, and the set of tips is what it was. -/
namespace AR


/-- one round: `q` loses one child, the fresh node has two, nobody else's child list changes -/
theorem resolveRound_step {a a' : Arena} {q x y : Nat} (g : Good a) (h : resolveRound a q x y = some a') :
    (nd a' q).children.length + 1 = (nd a q).children.length ∧ (nd a' a.size).children.length = 2 ∧
    (∀ i, i ≠ q → i ≠ a.size → (nd a' i).children = (nd a i).children) ∧ (∀ i, IsTip a' i ↔ IsTip a i) := by
  unfold resolveRound at h
  split at h
  next hc =>
    simp only [Bool.and_eq_true, decide_eq_true_eq, List.contains_iff_mem] at hc
    obtain ⟨⟨⟨⟨⟨hq, hxy⟩, hmx⟩, hmy⟩, _⟩, _⟩ := hc
    have hlq := (isLive_iff a q).1 hq
    obtain ⟨b1, b2, r1, r2, _⟩ := group_core q x y (some 0) (nd a x).pedge (nd a y).pedge g hlq hmx hmy hxy
    simp only [r1] at h
    rw [r2] at h
    cases h
    have hsame := (resetF_same _ _ _ _ _ r1).trans (resetF_same _ _ _ _ _ r2)
    have hch := g.1.child_ok
    obtain ⟨hl1, _, hd1, _⟩ := hch q x hlq hmx
    obtain ⟨hl2, _, hd2, _⟩ := hch q y hlq hmy
    have hq1 : q ≠ x := by intro h; subst h; omega
    have hq2 : q ≠ y := by intro h; subst h; omega
    have hqw : q ≠ a.size := Nat.ne_of_lt hlq.1
    have h1w : x ≠ a.size := Nat.ne_of_lt hl1.1
    have h2w : y ≠ a.size := Nat.ne_of_lt hl2.1
    have hns := nd_group a q x y (some 0) (nd a x).pedge (nd a y).pedge hlq.1 hl1.1 hl2.1 hq1 hq2 hxy
    have hsz : (group a q x y (some 0) (nd a x).pedge (nd a y).pedge).size = a.size + 1 := by simp [group]
    have hkid : ∀ i, (nd a' i).children = (nd (group a q x y (some 0) (nd a x).pedge (nd a y).pedge) i).children :=
      fun i => (hsame.2 i).2.1
    have hndq := g.1.nodup q
    have hmy' : y ∈ (nd a q).children.erase x := (List.Nodup.mem_erase_iff hndq).2 ⟨Ne.symm hxy, hmy⟩
    have hqlen : (((nd a q).children.erase x).erase y ++ [a.size]).length + 1 = (nd a q).children.length := by
      rw [List.length_append, List.length_erase_of_mem hmy', List.length_erase_of_mem hmx]
      have : 2 ≤ (nd a q).children.length := by
        have := List.length_erase_of_mem hmx
        have : 0 < ((nd a q).children.erase x).length := List.length_pos_of_mem hmy'
        omega
      simp; omega
    refine ⟨?_, ?_, ?_, ?_⟩
    · show (nd a' q).children.length + 1 = _
      rw [hkid, hns]
      simp only [hqw, ↓reduceIte, qNode, removeChild, setCedge_children]
      exact hqlen
    · show (nd a' a.size).children.length = 2
      rw [hkid, hns]; simp [wNode]
    · intro i hiq hiw
      rw [hkid, hns]
      by_cases h1 : i = x
      · subst h1; simp [hiw, hiq]
      · by_cases h2 : i = y
        · subst h2; simp [hiw, hiq, h1]
        · simp [hiw, hiq, h1, h2]
    · intro i
      rw [hsame.tip i]
      simp only [IsTip, live, hsz]
      rw [hns]
      by_cases h0 : i = a.size
      · subst h0
        simp only [↓reduceIte, wNode, setCedge_children]
        constructor
        · rintro ⟨_, hh⟩; simp at hh
        · rintro ⟨⟨hh, _⟩, _⟩; omega
      · by_cases h1 : i = q
        · subst h1
          simp only [h0, ↓reduceIte, qNode, removeChild, setCedge_children, setCedge_deleted]
          have : (nd a i).children ≠ [] := List.ne_nil_of_mem hmx
          simp [this]
        · have hlt : i < a.size + 1 ↔ i < a.size := by omega
          by_cases h2 : i = x
          · subst h2; simp only [h0, h1, ↓reduceIte, hlt]
          · by_cases h3 : i = y
            · subst h3; simp only [h0, h1, h2, ↓reduceIte, hlt]
            · simp only [h0, h1, h2, h3, ↓reduceIte, hlt]
  · cases h

theorem resolveRound_size {a a' : Arena} {q x y : Nat} (h : resolveRound a q x y = some a') (g : Good a) :
    a.size < a'.size := by
  unfold resolveRound at h
  split at h
  next hc =>
    simp only [Bool.and_eq_true, decide_eq_true_eq, List.contains_iff_mem] at hc
    obtain ⟨⟨⟨⟨⟨hq, hxy⟩, hmx⟩, hmy⟩, _⟩, _⟩ := hc
    have hlq := (isLive_iff a q).1 hq
    obtain ⟨b1, b2, r1, r2, _⟩ := group_core q x y (some 0) (nd a x).pedge (nd a y).pedge g hlq hmx hmy hxy
    simp only [r1] at h
    rw [r2] at h
    cases h
    have hsame := (resetF_same _ _ _ _ _ r1).trans (resetF_same _ _ _ _ _ r2)
    rw [hsame.1]; simp [group]
  · cases h

/-- the inner loop on `q`: afterwards `q` has at most two children, nobody else more than before (or two) -/
theorem resolveNode_post : ∀ (f : Nat) {a : Arena} (q : Nat) (picks : List (Nat × Nat)) {a' : Arena}
    {rest : List (Nat × Nat)}, Good a → q < a.size → resolveNode f a q picks = some (a', rest) →
    (nd a' q).children.length ≤ 2 ∧ (∀ i, i ≠ q → (nd a' i).children.length ≤ max 2 ((nd a i).children.length)) ∧ (∀ i, IsTip a' i ↔ IsTip a i) ∧
      a.size ≤ a'.size
  | 0, _, _, _, _, _, _, _, h => by simp [resolveNode] at h
  | f + 1, a, q, picks, a', rest, g, hq, h => by
    unfold resolveNode at h
    split at h
    · cases h
    next x y rest' =>
      split at h
      · cases h
      next a1 hr =>
        have g1 := resolveRound_good q x y g hr
        obtain ⟨s1, s2, s3, s4⟩ := resolveRound_step g hr
        have hsz := resolveRound_size hr g
        have hstep : ∀ i, i ≠ q → (nd a1 i).children.length ≤ max 2 ((nd a i).children.length) := by
          intro i hi
          by_cases hw : i = a.size
          · subst hw; rw [s2]; omega
          · show (nd a1 i).children.length ≤ _
            rw [s3 i hi hw]; omega
        simp only at h
        split at h
        next hle =>
          cases h
          exact ⟨by omega, hstep, s4, by omega⟩
        next hgt =>
          obtain ⟨t1, t2, t3, t4⟩ := resolveNode_post f q rest' g1 (by omega) h
          refine ⟨t1, ?_, fun i => (t3 i).trans (s4 i), by omega⟩
          intro i hi
          have := t2 i hi
          have := hstep i hi
          omega

theorem resolveLoop_post : ∀ (qs : List Nat) {a : Arena} (picks : List (Nat × Nat)) {a' : Arena}
    {rest : List (Nat × Nat)}, Good a → (∀ q ∈ qs, q < a.size) → resolveLoop qs a picks = some (a', rest) →
    (∀ i, i ∉ qs → (nd a i).children.length ≤ 2) → (∀ i, (nd a' i).children.length ≤ 2) ∧ (∀ i, IsTip a' i ↔ IsTip a i)
  | [], a, picks, a', rest, _, _, h, hb => by
    simp [resolveLoop] at h; obtain ⟨rfl, _⟩ := h
    exact ⟨fun i => hb i (by simp), fun _ => Iff.rfl⟩
  | q :: qs, a, picks, a', rest, g, hlt, h, hb => by
    unfold resolveLoop at h
    split at h
    · cases h
    next a1 rest1 hn =>
      obtain ⟨t1, t2, t3, t4⟩ := resolveNode_post _ q picks g (hlt q (by simp)) hn
      have g1 := resolveNode_good _ q picks g hn
      have hb1 : ∀ i, i ∉ qs → (nd a1 i).children.length ≤ 2 := by
        intro i hi
        by_cases hiq : i = q
        · subst hiq; exact t1
        · have := t2 i hiq
          have := hb i (by simp [hiq, hi])
          omega
      obtain ⟨r1, r2⟩ := resolveLoop_post qs rest1 g1 (fun q' hq' => by have := hlt q' (by simp [hq']); omega) h hb1
      exact ⟨r1, fun i => (r2 i).trans (t3 i)⟩

/-- **postcondition of `resolve`**, for every outcome of its random choices: no node has more than two
    children, and the tips are exactly the tips before -/
theorem resolve_post {a a' : Arena} (picks : List (Nat × Nat)) (g : Good a) (h : resolve a picks = some a') :
    (∀ i, (nd a' i).children.length ≤ 2) ∧ (∀ i, IsTip a' i ↔ IsTip a i) := by
  unfold resolve at h
  split at h
  next a1 hl =>
    cases h
    apply resolveLoop_post _ picks g _ hl
    · intro i hi
      simp only [toBinarize, List.mem_filter, List.mem_range, decide_eq_true_eq, not_and, Nat.not_lt] at hi
      by_cases hlt : i < a.size
      · exact hi hlt
      · show (nd a i).children.length ≤ 2
        rw [nd_dead a i (by omega)]; simp [dead]
    · intro q hq
      simp only [toBinarize, List.mem_filter, List.mem_range] at hq
      exact hq.1
  · cases h

end AR

namespace AR

/-- same arena up to the order of every child list -/
def PermKids (a b : Arena) : Prop :=
  b.size = a.size ∧ ∀ i, (nd b i).children.Perm (nd a i).children ∧ (nd b i).parent = (nd a i).parent ∧
    (nd b i).pedge = (nd a i).pedge ∧ (nd b i).cedges = (nd a i).cedges ∧ (nd b i).deleted = (nd a i).deleted ∧
    (nd b i).depth = (nd a i).depth ∧ (nd b i).name = (nd a i).name ∧ (nd b i).comment = (nd a i).comment

theorem PermKids.refl (a : Arena) : PermKids a a :=
  ⟨rfl, fun _ => ⟨List.Perm.refl _, rfl, rfl, rfl, rfl, rfl, rfl, rfl⟩⟩

theorem PermKids.trans {a b c : Arena} (h1 : PermKids a b) (h2 : PermKids b c) : PermKids a c := by
  refine ⟨by rw [h2.1, h1.1], fun i => ?_⟩
  obtain ⟨p0, p1, p2, p3, p4, p5, p6, p7⟩ := h1.2 i
  obtain ⟨q0, q1, q2, q3, q4, q5, q6, q7⟩ := h2.2 i
  exact ⟨q0.trans p0, by rw [q1, p1], by rw [q2, p2], by rw [q3, p3], by rw [q4, p4], by rw [q5, p5],
    by rw [q6, p6], by rw [q7, p7]⟩

theorem ladderStep_permKids (st : Arena × Array Nat) (v : Nat) : PermKids st.1 (ladderStep st v).1 := by
  unfold ladderStep
  refine ⟨by simp, fun i => ?_⟩
  simp only [nd_set]
  split
  next h => obtain ⟨rfl, _⟩ := h; exact ⟨List.mergeSort_perm _ _, rfl, rfl, rfl, rfl, rfl, rfl, rfl⟩
  next => exact ⟨List.Perm.refl _, rfl, rfl, rfl, rfl, rfl, rfl, rfl⟩

theorem ladderFold_permKids : ∀ (l : List Nat) (st : Arena × Array Nat), PermKids st.1 (l.foldl ladderStep st).1
  | [], st => PermKids.refl _
  | v :: l, st => by
    rw [List.foldl_cons]
    exact (ladderStep_permKids st v).trans (ladderFold_permKids l _)

/-- **frame of `ladderize`**: nothing but the order inside child lists changes -/
theorem ladderize_frame (a : Arena) : PermKids a (ladderize a).1 := by
  unfold ladderize
  split
  · exact PermKids.refl a
  · split
    · exact PermKids.refl a
    · exact ladderFold_permKids _ _

theorem PermKids.tip {a b : Arena} (h : PermKids a b) (i : Nat) : IsTip b i ↔ IsTip a i := by
  obtain ⟨p0, _, _, _, p4, _⟩ := h.2 i
  simp only [IsTip, live, h.1, p4]
  constructor
  · rintro ⟨hl, hk⟩; rw [hk] at p0; exact ⟨hl, List.perm_nil.1 p0.symm⟩
  · rintro ⟨hl, hk⟩; rw [hk] at p0; exact ⟨hl, List.perm_nil.1 p0⟩

end AR
