import PhyloModel.Arena.PruneRec
/-! Scratch prototype: `prune` — outer induction on fuel -/
namespace AR

theorem prune_main : ∀ (f D : Nat) (a : Arena) (c : Nat), Inv a → Tomb a → live a c →
    (∀ i, live a i → (nd a i).depth ≤ D) → D < f + (nd a c).depth →
    ∃ a1, pruneF f a c = some a1 ∧ PruneOK a a1 c := by
  intro f
  induction f with
  | zero =>
    intro D a c _ _ hl hD hf
    have := hD c hl; omega
  | succ f ihf =>
    intro D a c hia hta hlc hD hf
    have ih : ∀ a c a1, Inv a → Tomb a → live a c → (∀ i, live a i → (nd a i).depth ≤ D) →
        D < f + (nd a c).depth → pruneF f a c = some a1 → PruneOK a a1 c := by
      intro a c a1 h1 h2 h3 h4 h5 h6
      obtain ⟨a1', h7, h8⟩ := ihf D a c h1 h2 h3 h4 h5
      rw [h7] at h6; cases h6; exact h8
    have ihT : ∀ a c, Inv a → Tomb a → live a c → (∀ i, live a i → (nd a i).depth ≤ D) →
        D < f + (nd a c).depth → ∃ a1, pruneF f a c = some a1 := by
      intro a c h1 h2 h3 h4 h5
      obtain ⟨a1', h7, _⟩ := ihf D a c h1 h2 h3 h4 h5
      exact ⟨a1', h7⟩
    obtain ⟨b', hfold, hib', htb', hlb', hch', hsz', hsub', hdied', hsame', hpar', hdep'⟩ :=
      prune_loop f D ih ihT (nd a c).children a a c hia hlc hia hta hlc rfl rfl hD (by omega)
        (fun _ h => h) (fun _ h hn => absurd h hn) (fun _ _ _ => rfl) rfl rfl
    have hfin := finish_inv b' c hib' htb' hlb' hch'
    have hcsz : c < b'.size := hlb'.1
    have hnd := finish_nd b' c
    refine ⟨finish b' c, ?_, ?_⟩
    · have h1 : c < a.size ∧ (nd a c).deleted = false := hlc
      have h2 : c < b'.size ∧ (nd b' c).deleted = false := hlb'
      simp only [pruneF, h1, and_self, ↓reduceIte, hfold, h2]
    · have hlive : ∀ i, live (finish b' c) i ↔ (i ≠ c ∧ live b' i) := by
        intro i
        simp only [live, hfin.2.2, hnd i hcsz]
        by_cases hic : i = c
        · subst hic; simp [dead]
        · simp only [hic, ↓reduceIte, ne_eq, not_false_eq_true, true_and]
          split <;> simp [removeChild]
      constructor
      · exact hfin.1
      · exact hfin.2.1
      · rw [hfin.2.2, hsz']
      · intro h; exact ((hlive c).1 h).1 rfl
      · intro i h; exact hsub' i ((hlive i).1 h).2
      · intro i hla hnl
        by_cases hbi : live b' i
        · left
          apply Classical.byContradiction; intro hne
          exact hnl ((hlive i).2 ⟨hne, hbi⟩)
        · right; exact hdied' i hla hbi
      · intro i hl hne
        obtain ⟨hic, hbi⟩ := (hlive i).1 hl
        rw [hnd i hcsz]
        simp only [hic, ↓reduceIte, hpar']
        have : ¬ ((nd a c).parent = some i ∧ i < b'.size) := fun h => hne h.1
        simp only [this, ↓reduceIte]
        exact hsame' i hbi hic
      · intro p hp
        obtain ⟨hlp, hmem⟩ := hia.parent_ok c p hlc hp
        have hdc := (hia.child_ok p c hlp hmem).2.2.1
        have hpc : p ≠ c := by intro h; subst h; omega
        have hbp : live b' p := by
          apply Classical.byContradiction; intro hn
          have := hdied' p hlp hn; omega
        rw [hnd p hcsz]
        simp only [hpc, ↓reduceIte, hpar', hp, true_and]
        have : p < b'.size := hbp.1
        simp only [this, ↓reduceIte]
        rw [hsame' p hbp hpc]

/-- every live node's depth is below the arena size (pigeonhole), assumed here as a hypothesis `hD` -/
theorem prune_inv (a : Arena) (x : Nat) (hia : Inv a) (hta : Tomb a) (hx : live a x) (D : Nat)
    (hD : ∀ i, live a i → (nd a i).depth ≤ D) :
    ∃ a1, pruneF (D + 1) a x = some a1 ∧ Inv a1 ∧ Tomb a1 ∧ a1.size = a.size ∧ ¬ live a1 x := by
  obtain ⟨a1, h1, ok⟩ := prune_main (D + 1) D a x hia hta hx hD (by omega)
  exact ⟨a1, h1, ok.inv, ok.tomb, ok.size, ok.gone⟩

end AR
