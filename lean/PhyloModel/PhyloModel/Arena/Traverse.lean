import PhyloModel.Arena.Rep
import PhyloModel.Arena.Query
import PhyloModel.Misc.BfsDepthSorted
/-! Post-order and level-order of the arena refine their rose-tree definitions through `Rep`
    (slot `i` represents rose tree `t`), whatever the ids are. -/
namespace AR

mutual
def post : RTI → List Nat | .node i ks => postL ks ++ [i]
def postL : List RTI → List Nat | [] => [] | k :: ks => post k ++ postL ks
end

mutual
def szR : RTI → Nat | .node _ ks => 1 + szRL ks
def szRL : List RTI → Nat | [] => 0 | k :: ks => szR k + szRL ks
end

mutual
theorem postorder_rep (a : Arena) : ∀ (t : RTI) (f i : Nat), Rep a i t → height t ≤ f →
    postorderF f a i = some (post t)
  | .node j ks, f, i, h, hf => by
    simp only [Rep] at h
    obtain ⟨rfl, hl, hk⟩ := h
    cases f with
    | zero => simp [height] at hf
    | succ f =>
      have h1 : isLive a i = true := (isLive_iff a i).mpr hl
      simp only [postorderF, h1, ↓reduceIte, post]
      have := postorderL_rep a ks f (nd a i).children [] hk (by simp [height] at hf; omega)
      rw [this]; simp
theorem postorderL_rep (a : Arena) : ∀ (ts : List RTI) (f : Nat) (cs acc : List Nat), RepL a cs ts → heightL ts ≤ f →
    cs.foldlM (fun acc c => (postorderF f a c).map (fun l => acc ++ l)) acc = some (acc ++ postL ts)
  | [], f, cs, acc, h, _ => by
    cases cs with
    | nil => simp [postL]
    | cons c cs => simp [RepL] at h
  | t :: ts, f, cs, acc, h, hf => by
    cases cs with
    | nil => simp [RepL] at h
    | cons c cs =>
      simp only [RepL] at h
      simp only [heightL] at hf
      have h1 := postorder_rep a t f c h.1 (by omega)
      have h2 := postorderL_rep a ts f cs (acc ++ post t) h.2 (by omega)
      simp only [List.foldlM_cons, h1, Option.map_some, Option.bind_eq_bind, Option.bind_some, h2, postL,
        List.append_assoc]
end

mutual
/-- post-order lists exactly the nodes pre-order lists -/
theorem post_perm : ∀ t : RTI, (post t).Perm (pre t)
  | .node i ks => by
    rw [post, pre]
    exact (List.perm_append_comm).trans (List.Perm.cons i (postL_perm ks))
theorem postL_perm : ∀ ts : List RTI, (postL ts).Perm (preL ts)
  | [] => by simp [postL, preL]
  | k :: ks => by rw [postL, preL]; exact List.Perm.append (post_perm k) (postL_perm ks)
end

/-! ### level order -/

mutual
def toLV : RTI → LV.T | .node i ks => .node i (toLVL ks)
def toLVL : List RTI → List LV.T | [] => [] | k :: ks => toLV k :: toLVL ks
end

theorem toLVL_eq_map : ∀ ks : List RTI, toLVL ks = ks.map toLV
  | [] => by simp [toLVL]
  | k :: ks => by rw [toLVL, toLVL_eq_map ks]; simp

theorem repL_append (a : Arena) : ∀ (cs : List Nat) (ts : List RTI) (cs' : List Nat) (ts' : List RTI),
    RepL a cs ts → RepL a cs' ts' → RepL a (cs ++ cs') (ts ++ ts')
  | [], [], cs', ts', _, h' => by simpa using h'
  | [], _ :: _, _, _, h, _ => by simp [RepL] at h
  | _ :: _, [], _, _, h, _ => by simp [RepL] at h
  | c :: cs, t :: ts, cs', ts', h, h' => by
    simp only [RepL] at h
    simp only [List.cons_append, RepL]
    exact ⟨h.1, repL_append a cs ts cs' ts' h.2 h'⟩

def szQ (q : List (RTI × Nat)) : Nat := szRL (q.map (·.1))

theorem szRL_append : ∀ (a b : List RTI), szRL (a ++ b) = szRL a + szRL b
  | [], b => by simp [szRL]
  | x :: a, b => by simp only [List.cons_append, szRL, szRL_append a b]; omega

def lvq (q : List (RTI × Nat)) : List (LV.T × Nat) := q.map (fun p => (toLV p.1, p.2))

theorem bfsD_nil (f : Nat) : LV.bfsD f [] = [] := by cases f <;> simp [LV.bfsD]

/-- the arena's queue loop emits exactly what the rose-level queue loop emits (ids), where every queued
    node carries its level -/
theorem levelF_rep (a : Arena) : ∀ (f : Nat) (qs : List Nat) (q : List (RTI × Nat)) (acc : List Nat),
    RepL a qs (q.map (·.1)) → szQ q ≤ f →
    levelF f a qs acc = some (acc.reverse ++ (LV.bfsD f (lvq q)).map (·.1)) := by
  intro f
  induction f with
  | zero =>
    intro qs q acc h hsz
    cases q with
    | nil =>
      cases qs with
      | nil => simp [levelF, lvq, LV.bfsD]
      | cons x xs => simp [RepL] at h
    | cons p q =>
      obtain ⟨t, d⟩ := p
      cases t with
      | node i ks => simp [szQ, szRL, szR] at hsz
  | succ f ih =>
    intro qs q acc h hsz
    cases q with
    | nil =>
      cases qs with
      | nil => simp [levelF, lvq, LV.bfsD]
      | cons x xs => simp [RepL] at h
    | cons p q =>
      obtain ⟨t, d⟩ := p
      cases qs with
      | nil => simp [RepL] at h
      | cons x xs =>
        cases t with
        | node i ks =>
          simp only [List.map_cons, RepL, Rep] at h
          obtain ⟨⟨rfl, hl, hk⟩, hrest⟩ := h
          have h1 : isLive a x = true := (isLive_iff a x).mpr hl
          simp only [levelF, h1, ↓reduceIte]
          have hq' : RepL a (xs ++ (nd a x).children) ((q ++ ks.map (fun k => (k, d + 1))).map (·.1)) := by
            rw [List.map_append]
            apply repL_append a _ _ _ _ hrest
            simpa [List.map_map, Function.comp_def] using hk
          have hsz' : szQ (q ++ ks.map (fun k => (k, d + 1))) ≤ f := by
            simp only [szQ, List.map_append, szRL_append, List.map_map, Function.comp_def, List.map_id'] at hsz ⊢
            simp only [List.map_cons, szRL, szR] at hsz
            omega
          rw [ih _ _ (x :: acc) hq' hsz']
          simp only [lvq, List.map_cons, toLV, LV.bfsD, LV.T.id, LV.T.kids, List.reverse_cons, List.append_assoc,
            List.singleton_append, List.map_append, List.map_map, toLVL_eq_map]
          rfl

end AR
