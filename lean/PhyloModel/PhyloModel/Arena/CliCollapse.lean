import PhyloModel.Arena.Cli
import PhyloModel.Arena.OpsInv
import PhyloModel.Arena.OneRoot
import PhyloModel.Arena.RepFacts
import PhyloModel.Arena.QRLemmas
import PhyloModel.Arena.CliBase
/-! C18, `phylotree collapse`: the whole loop over the pre-order of the root.  Every step writes one branch
    length in both of its records (the node's `pedge` and the parent's `cedges` entry); steps on different
    nodes do not interfere, the pre-order lists every node below the root exactly once. -/
namespace AR

/-! ### writing one branch length (both records) -/

@[simp] private theorem setCedge_name (n : Node) (c : Nat) (e : Option Int) : (setCedge n c e).name = n.name := by
  cases e <;> simp [setCedge]
@[simp] private theorem setCedge_comment (n : Node) (c : Nat) (e : Option Int) : (setCedge n c e).comment = n.comment := by
  cases e <;> simp [setCedge]

/-- `node.set_parent(p, Some(v)); parent.set_child_edge(x, Some(v))` -/
def setLen (a : Arena) (x p : Nat) (v : Int) : Arena :=
  let a1 := a.setIfInBounds x { nd a x with pedge := some v }
  a1.setIfInBounds p (setCedge (nd a1 p) x (some v))

theorem nd_setLen (a : Arena) (x p : Nat) (v : Int) (hx : x < a.size) (hp : p < a.size) (hne : p ≠ x) (i : Nat) :
    nd (setLen a x p v) i =
      if i = p then setCedge (nd a p) x (some v)
      else if i = x then { nd a x with pedge := some v } else nd a i := by
  simp only [setLen, nd_set, Array.size_setIfInBounds]
  grind

theorem setLen_size (a : Arena) (x p : Nat) (v : Int) : (setLen a x p v).size = a.size := by
  simp [setLen]

/-- writing a branch length of a live non-root node in both records keeps the invariant -/
theorem setLen_good {a : Arena} (g : Good a) {x p : Nat} (hl : live a x) (hp : (nd a x).parent = some p)
    (v : Int) : Good (setLen a x p v) := by
  obtain ⟨hinv, ht⟩ := g
  have hc := hinv.child_ok; have hpo := hinv.parent_ok; have hnd := hinv.nodup
  have hrd := hinv.root_depth; have hcd := hinv.cedge_dom
  obtain ⟨hlp, hmem⟩ := hpo x p hl hp
  have hdx := (hc p x hlp hmem).2.2.1
  have hne : p ≠ x := by intro h; subst h; omega
  have hn := nd_setLen a x p v hl.1 hlp.1 hne
  have hsz := setLen_size a x p v
  refine ⟨⟨?_, ?_, ?_, ?_, ?_⟩, ?_⟩
  · intro i c hli hmc
    simp only [live, hn, hsz] at hli hmc ⊢
    have := hc i c
    simp only [live] at *
    grind [setCedge_get, setCedge_children, setCedge_deleted, setCedge_parent, setCedge_depth, setCedge_pedge]
  · intro i q hli hq
    simp only [live, hn, hsz] at hli hq ⊢
    have := hpo i q
    simp only [live] at *
    grind [setCedge_children, setCedge_deleted, setCedge_parent]
  · intro i
    simp only [hn]
    have := hnd i
    grind [setCedge_children]
  · intro i hli hq
    simp only [live, hn, hsz] at hli hq ⊢
    have := hrd i
    simp only [live] at *
    grind [setCedge_deleted, setCedge_parent, setCedge_depth]
  · intro i c hs
    simp only [hn] at hs ⊢
    have := hcd i c
    grind [setCedge_get, setCedge_children]
  · intro i hd
    simp only [hn] at hd ⊢
    have := ht i
    have := hl.2; have := hlp.2
    grind [setCedge_deleted, setCedge_children, setCedge_parent]

/-! ### one step of the loop -/

/-- the branch length the loop body leaves on a node with fields `n` -/
def collapsedPedge (thr : Int) (ex : Bool) (n : Node) : Option Int :=
  if ex && n.children.isEmpty then n.pedge else
  match n.parent, n.pedge with
  | some _, some len => if len < thr then some 0 else some len
  | _, l => l

/-- the node's branch is collapsed: it has a parent, it is not an excluded tip, its length is present and
    below the threshold -/
def Collapses (thr : Int) (ex : Bool) (n : Node) : Prop :=
  n.parent.isSome = true ∧ ¬ (ex = true ∧ n.children = []) ∧ ∃ len, n.pedge = some len ∧ len < thr

theorem collapsedPedge_pos {thr : Int} {ex : Bool} {n : Node} (h : Collapses thr ex n) :
    collapsedPedge thr ex n = some 0 := by
  obtain ⟨h1, h2, len, h3, h4⟩ := h
  obtain ⟨p, hp⟩ := Option.isSome_iff_exists.1 h1
  have : (ex && n.children.isEmpty) = false := by
    cases ex
    · simp
    · cases hc : n.children with
      | nil => exact absurd ⟨rfl, hc⟩ h2
      | cons _ _ => simp
  simp [collapsedPedge, this, hp, h3, h4]

theorem collapsedPedge_neg {thr : Int} {ex : Bool} {n : Node} (h : ¬ Collapses thr ex n) :
    collapsedPedge thr ex n = n.pedge := by
  unfold collapsedPedge
  split
  · rfl
  next hex =>
    split
    next p len hp hl =>
      split
      next hlt =>
        exfalso; apply h
        refine ⟨by simp [hp], ?_, len, hl, hlt⟩
        rintro ⟨rfl, hc⟩
        simp [hc] at hex
      next => exact hl.symm
    next => rfl

theorem collapsedPedge_congr (thr : Int) (ex : Bool) {n m : Node} (h1 : n.parent = m.parent)
    (h2 : n.children = m.children) (h3 : n.pedge = m.pedge) :
    collapsedPedge thr ex n = collapsedPedge thr ex m := by
  simp only [collapsedPedge, h1, h2, h3]

/-- the loop body either writes the length 0 in both records, or does nothing -/
theorem collapseNode_cases (thr : Int) (ex : Bool) (a : Arena) (x : Nat) :
    (∃ p, (nd a x).parent = some p ∧ Collapses thr ex (nd a x) ∧ collapseNode thr ex a x = setLen a x p 0) ∨
    (¬ Collapses thr ex (nd a x) ∧ collapseNode thr ex a x = a) := by
  unfold collapseNode
  simp only
  split
  next hex =>
    right
    refine ⟨?_, rfl⟩
    rintro ⟨_, h2, _⟩
    simp only [Bool.and_eq_true, List.isEmpty_iff] at hex
    exact h2 hex
  next hex =>
    split
    next p len hp hl =>
      split
      next hlt =>
        left
        refine ⟨p, hp, ⟨by simp [hp], ?_, len, hl, hlt⟩, rfl⟩
        rintro ⟨rfl, hc⟩
        simp [hc] at hex
      next hlt =>
        right
        refine ⟨?_, rfl⟩
        rintro ⟨_, _, len', h3, h4⟩
        rw [hl] at h3; cases h3; exact hlt h4
    next hno =>
      right
      refine ⟨?_, rfl⟩
      rintro ⟨h1, _, len', h3, _⟩
      obtain ⟨p, hp⟩ := Option.isSome_iff_exists.1 h1
      exact hno p len' hp h3

/-! ### the loop invariant -/

/-- state of the loop: `a` the arena at the start, `b` the current arena, `done` the nodes already visited -/
structure CState (thr : Int) (ex : Bool) (a b : Arena) (done : List Nat) : Prop where
  good : Good b
  size : b.size = a.size
  frame : ∀ i, (nd b i).children = (nd a i).children ∧ (nd b i).parent = (nd a i).parent ∧
    (nd b i).name = (nd a i).name ∧ (nd b i).comment = (nd a i).comment ∧
    (nd b i).deleted = (nd a i).deleted ∧ (nd b i).depth = (nd a i).depth
  pdone : ∀ i, i ∈ done → (nd b i).pedge = collapsedPedge thr ex (nd a i)
  ptodo : ∀ i, i ∉ done → (nd b i).pedge = (nd a i).pedge
  untouched : ∀ i, i ∉ done → (∀ c, c ∈ done → (nd a c).parent ≠ some i) → nd b i = nd a i

theorem CState.init (thr : Int) (ex : Bool) {a : Arena} (g : Good a) : CState thr ex a a [] :=
  ⟨g, rfl, fun _ => ⟨rfl, rfl, rfl, rfl, rfl, rfl⟩, fun _ h => by simp at h, fun _ _ => rfl, fun _ _ _ => rfl⟩

theorem CState.step {thr : Int} {ex : Bool} {a b : Arena} {done : List Nat} (s : CState thr ex a b done)
    {x : Nat} (hx : x ∉ done) (hl : live a x) : CState thr ex a (collapseNode thr ex b x) (x :: done) := by
  obtain ⟨fx1, fx2, _, _, fx5, _⟩ := s.frame x
  have hlb : live b x := ⟨by rw [s.size]; exact hl.1, by rw [fx5]; exact hl.2⟩
  have hcp : collapsedPedge thr ex (nd b x) = collapsedPedge thr ex (nd a x) :=
    collapsedPedge_congr thr ex fx2 fx1 (s.ptodo x hx)
  rcases collapseNode_cases thr ex b x with ⟨p, hp, hc, heq⟩ | ⟨hc, heq⟩
  · rw [heq]
    obtain ⟨hlp, hmem⟩ := s.good.1.parent_ok x p hlb hp
    have hdx := (s.good.1.child_ok p x hlp hmem).2.2.1
    have hne : p ≠ x := by intro h; subst h; omega
    have hn := nd_setLen b x p 0 hlb.1 hlp.1 hne
    have hpa : (nd a x).parent = some p := by rw [← fx2]; exact hp
    refine ⟨setLen_good s.good hlb hp 0, by rw [setLen_size]; exact s.size, ?_, ?_, ?_, ?_⟩
    · intro i
      have := s.frame i
      rw [hn]
      by_cases h1 : i = p
      · subst h1; simpa using this
      · by_cases h2 : i = x
        · subst h2; simpa [h1] using this
        · simpa [h1, h2] using this
    · intro i hi
      rw [hn]
      by_cases h1 : i = p
      · subst h1
        have hid : i ∈ done := by
          rcases List.mem_cons.1 hi with h | h
          · exact absurd h hne
          · exact h
        simpa using s.pdone i hid
      · by_cases h2 : i = x
        · subst h2
          simp only [h1, ↓reduceIte]
          rw [← hcp, collapsedPedge_pos hc]
        · have hid : i ∈ done := by
            rcases List.mem_cons.1 hi with h | h
            · exact absurd h h2
            · exact h
          simpa [h1, h2] using s.pdone i hid
    · intro i hi
      have hix : i ≠ x := fun h => hi (by simp [h])
      have hid : i ∉ done := fun h => hi (by simp [h])
      rw [hn]
      by_cases h1 : i = p
      · subst h1; simpa using s.ptodo i hid
      · simpa [h1, hix] using s.ptodo i hid
    · intro i hi hpar
      have hix : i ≠ x := fun h => hi (by simp [h])
      have hid : i ∉ done := fun h => hi (by simp [h])
      have hip : i ≠ p := fun h => hpar x (by simp) (by rw [hpa, h])
      rw [hn]
      simp only [hip, hix, ↓reduceIte]
      exact s.untouched i hid (fun c hc => hpar c (by simp [hc]))
  · rw [heq]
    refine ⟨s.good, s.size, s.frame, ?_, ?_, ?_⟩
    · intro i hi
      rcases List.mem_cons.1 hi with h | h
      · subst h
        rw [← hcp, collapsedPedge_neg hc]
      · exact s.pdone i h
    · intro i hi
      exact s.ptodo i (fun h => hi (by simp [h]))
    · intro i hi hpar
      exact s.untouched i (fun h => hi (by simp [h])) (fun c hc => hpar c (by simp [hc]))

theorem CState.fold {thr : Int} {ex : Bool} {a : Arena} : ∀ (l : List Nat) {b : Arena} {done : List Nat},
    CState thr ex a b done → (∀ x ∈ l, live a x) → l.Nodup → (∀ x ∈ l, x ∉ done) →
    CState thr ex a (l.foldl (collapseNode thr ex) b) (l.reverse ++ done)
  | [], _, _, s, _, _, _ => by simpa using s
  | x :: l, b, done, s, hl, hnd, hd => by
    simp only [List.nodup_cons] at hnd
    have s1 := s.step (hd x (by simp)) (hl x (by simp))
    have := CState.fold l s1 (fun y hy => hl y (by simp [hy])) hnd.2 (by
      intro y hy hm
      rcases List.mem_cons.1 hm with h | h
      · subst h; exact hnd.1 hy
      · exact hd y (by simp [hy]) h)
    simpa using this

/-! ### the whole loop -/

/-- the parent of a node below a parentless node `r` is below `r` -/
theorem BelowK.parent_below {a : Arena} {r c i k : Nat} (h : BelowK a r c k) (hp : (nd a c).parent = some i)
    (hr : (nd a r).parent = none) : ∃ k', BelowK a r i k' := by
  cases h with
  | refl _ => rw [hr] at hp; cases hp
  | step hb _ hpar => rw [hpar] at hp; cases hp; exact ⟨_, hb⟩

/-- **`collapse`, the whole loop**: it never fails; nothing but branch lengths changes; every node below the
    root gets the length `collapsedPedge` prescribes; slots not below the root are untouched; the result
    satisfies the arena invariant (so the parent's record of every length agrees with the child's) -/
theorem cliCollapse_spec {a : Arena} (g : Good a) {r : Nat} (hr : getRoot a = some r) (thr : Int) (ex : Bool) :
    ∃ a', cliCollapse a thr ex = .ok a' ∧ Good a' ∧ a'.size = a.size ∧
      (∀ i, (nd a' i).children = (nd a i).children ∧ (nd a' i).parent = (nd a i).parent ∧
        (nd a' i).name = (nd a i).name ∧ (nd a' i).comment = (nd a i).comment ∧
        (nd a' i).deleted = (nd a i).deleted ∧ (nd a' i).depth = (nd a i).depth) ∧
      (∀ i, (∃ k, BelowK a r i k) → (nd a' i).pedge = collapsedPedge thr ex (nd a i)) ∧
      (∀ i, (¬ ∃ k, BelowK a r i k) → nd a' i = nd a i) := by
  obtain ⟨hlr, hpr⟩ := getRoot_spec hr
  obtain ⟨t, _, hpre, _, hnd, _, hmem, _⟩ := traversals_total g.1 r hlr
  have hrun : cliCollapse a thr ex = .ok ((pre t).foldl (collapseNode thr ex) a) := by
    simp [cliCollapse, root, subtree, hr, hpre, QR.ofOpt]
  have hlive : ∀ x ∈ pre t, live a x := fun x hx => by
    obtain ⟨k, hb⟩ := (hmem x).1 hx; exact hb.is_live
  have s := CState.fold (pre t) (CState.init thr ex g) hlive hnd (fun _ _ h => by simp at h)
  refine ⟨_, hrun, s.good, s.size, s.frame, ?_, ?_⟩
  · intro i hi
    exact s.pdone i (by simpa using (hmem i).2 hi)
  · intro i hi
    apply s.untouched i
    · simpa using fun h => hi ((hmem i).1 h)
    · intro c hc hp
      have hc' : c ∈ pre t := by simpa using hc
      obtain ⟨k, hb⟩ := (hmem c).1 hc'
      exact hi (hb.parent_below hp hpr)

/-! ### the prescription as an `if`, every slot -/

instance decCollapses (thr : Int) (ex : Bool) (n : Node) : Decidable (Collapses thr ex n) :=
  match h : n.pedge with
  | none => isFalse (by rintro ⟨_, _, len, h3, _⟩; rw [h] at h3; cases h3)
  | some len =>
    if h1 : n.parent.isSome = true ∧ ¬ (ex = true ∧ n.children = []) ∧ len < thr then
      isTrue ⟨h1.1, h1.2.1, len, h, h1.2.2⟩
    else isFalse (by
      rintro ⟨a1, a2, len', h3, h4⟩
      rw [h] at h3; cases h3
      exact h1 ⟨a1, a2, h4⟩)

theorem collapsedPedge_eq_ite (thr : Int) (ex : Bool) (n : Node) :
    collapsedPedge thr ex n = if Collapses thr ex n then some 0 else n.pedge := by
  split
  next h => exact collapsedPedge_pos h
  next h => exact collapsedPedge_neg h

/-- a tombstone is never collapsed -/
theorem not_collapses_dead {a : Arena} (ht : Tomb a) {i : Nat} (h : ¬ live a i) (thr : Int) (ex : Bool) :
    ¬ Collapses thr ex (nd a i) := by
  rintro ⟨h1, _⟩
  by_cases hs : i < a.size
  · have hd : (nd a i).deleted = true := by
      cases hdel : (nd a i).deleted with
      | true => rfl
      | false => exact absurd ⟨hs, hdel⟩ h
    rw [(ht i hd).2.1] at h1; cases h1
  · rw [nd_dead a i (by omega)] at h1; simp [dead] at h1

/-- **`collapse`, every slot**, when the live nodes form one tree (at most one parentless live node) -/
theorem cliCollapse_spec_all {a : Arena} (g : Good a) (h1 : AtMostOneRoot a) {r : Nat} (hr : getRoot a = some r)
    (thr : Int) (ex : Bool) :
    ∃ a', cliCollapse a thr ex = .ok a' ∧ Good a' ∧ a'.size = a.size ∧
      (∀ i, (nd a' i).children = (nd a i).children ∧ (nd a' i).parent = (nd a i).parent ∧
        (nd a' i).name = (nd a i).name ∧ (nd a' i).comment = (nd a i).comment ∧
        (nd a' i).deleted = (nd a i).deleted ∧ (nd a' i).depth = (nd a i).depth) ∧
      (∀ i, (nd a' i).pedge = if live a i ∧ Collapses thr ex (nd a i) then some 0 else (nd a i).pedge) := by
  obtain ⟨a', e, g', hsz, hfr, hin, hout⟩ := cliCollapse_spec g hr thr ex
  refine ⟨a', e, g', hsz, hfr, ?_⟩
  intro i
  by_cases hl : live a i
  · obtain ⟨t, _, ht, _, hall⟩ := one_tree g h1 i hl
    rw [hr] at ht; cases ht
    rw [hin i (hall i hl), collapsedPedge_eq_ite]
    simp [hl]
  · have : ¬ ∃ k, BelowK a r i k := fun ⟨k, hb⟩ => hl hb.is_live
    rw [hout i this]
    simp [hl]

end AR
