import PhyloModel.Arena.QueryMore
import PhyloModel.Arena.QueryRefine
import PhyloModel.Arena.DepthBound
import PhyloModel.Arena.AnswersDependOnTree
/-! # The remaining public read-only functions, against the tree

`get_leaf_names`, `has_unique_tip_names`, `size`, the observers of `Node` and the three normalised balance
indices (`Arena/QueryMore.lean`): what each returns, in terms of the live tips of the arena and — under the
invariant, with one root — of the abstract tree. -/
namespace AR

/-- a decidable check of a `QR` answer turned into the equation (used by the concrete examples) -/
theorem qr_eq_of_check {α : Type} [DecidableEq α] (x : QR α) (q : α)
    (h : (match x with | .ok v => decide (v = q) | _ => false) = true) : x = .ok q := by
  cases x with
  | ok v => simp only [decide_eq_true_eq] at h; rw [h]
  | err k => cases h
  | panic => cases h

/-! ### `get_leaf_names` -/

theorem leafNames_eq (a : Arena) : leafNames a = (leaves a).map (fun l => (nd a l).name) := rfl

theorem leafNames_length (a : Arena) : (leafNames a).length = nLeaves a := by
  simp [leafNames, nLeaves]

theorem leaves_nodup (a : Arena) : (leaves a).Nodup :=
  List.nodup_range.sublist List.filter_sublist

theorem mem_leaves_iff (a : Arena) (i : Nat) : i ∈ leaves a ↔ live a i ∧ (nd a i).children = [] := by
  simp only [leaves, List.mem_filter, List.mem_range, Bool.and_eq_true, isLive_iff, List.isEmpty_iff]
  exact ⟨fun h => h.2, fun h => ⟨h.1.1, h⟩⟩

/-- under the invariant, with one root: the leaf names are, up to order (arena order is not tree order), the
    names of the tips of the tree, read left to right -/
theorem leafNames_perm_tree {a : Arena} (g : Good a) (h1 : AtMostOneRoot a) {t : Rose} (h : absRoot a = .ok t) :
    (leafNames a).Perm (leafNamesR t) := leafNames_refines g h1 h

/-! ### `has_unique_tip_names` -/

theorem mem_insertName (seen : List String) (x y : String) : y ∈ insertName seen x ↔ y = x ∨ y ∈ seen := by
  unfold insertName
  split
  next hc =>
    have : x ∈ seen := by simpa using hc
    constructor
    · exact Or.inr
    · rintro (rfl | h)
      · exact this
      · exact h
  next => simp

theorem insertName_nodup (seen : List String) (x : String) (h : seen.Nodup) : (insertName seen x).Nodup := by
  unfold insertName
  split
  · exact h
  next hc =>
    have : x ∉ seen := by simpa using hc
    exact List.nodup_cons.2 ⟨this, h⟩

theorem insertName_length (seen : List String) (x : String) :
    (insertName seen x).length = if x ∈ seen then seen.length else seen.length + 1 := by
  unfold insertName
  by_cases hx : x ∈ seen
  · simp [hx]
  · simp [hx]

/-- the loop stops with an error exactly when some name is absent -/
theorem distinctNames_none : ∀ (l : List (Option String)) (seen : List String),
    distinctNames l seen = none ↔ none ∈ l
  | [], seen => by simp [distinctNames]
  | none :: rest, seen => by simp [distinctNames]
  | some x :: rest, seen => by
    rw [distinctNames, distinctNames_none rest]
    simp

/-- the set built by the loop: duplicate-free, at most one element per name walked, and exactly one per name
    walked iff the names are pairwise distinct and new -/
theorem distinctNames_some : ∀ (l : List (Option String)) (seen out : List String),
    distinctNames l seen = some out → seen.Nodup →
    out.Nodup ∧ out.length ≤ seen.length + l.length ∧
    (out.length = seen.length + l.length ↔ l.Nodup ∧ ∀ x ∈ seen, some x ∉ l)
  | [], seen, out, h, hn => by
    simp only [distinctNames, Option.some.injEq] at h
    subst h
    simp [hn]
  | none :: rest, seen, out, h, _ => by simp [distinctNames] at h
  | some x :: rest, seen, out, h, hn => by
    rw [distinctNames] at h
    obtain ⟨k1, k2, k3⟩ := distinctNames_some rest (insertName seen x) out h (insertName_nodup seen x hn)
    have hlen := insertName_length seen x
    have hmem := mem_insertName seen x
    refine ⟨k1, ?_, ?_⟩
    · simp only [List.length_cons]
      split at hlen <;> omega
    · simp only [List.length_cons, List.nodup_cons]
      by_cases hx : x ∈ seen
      · rw [if_pos hx] at hlen
        constructor
        · intro he; omega
        · intro hh
          exact absurd (List.mem_cons_self) (hh.2 x hx)
      · rw [if_neg hx] at hlen
        rw [hlen] at k3
        have e : out.length = seen.length + (rest.length + 1) ↔ out.length = seen.length + 1 + rest.length := by
          omega
        rw [e, k3]
        constructor
        · rintro ⟨hr, hall⟩
          refine ⟨⟨hall x ((hmem x).2 (Or.inl rfl)), hr⟩, ?_⟩
          intro y hy hc
          rcases List.mem_cons.1 hc with he | hc'
          · simp only [Option.some.injEq] at he
            subst he
            exact hx hy
          · exact hall y ((hmem y).2 (Or.inr hy)) hc'
        · rintro ⟨⟨hxr, hr⟩, hall⟩
          refine ⟨hr, ?_⟩
          intro y hy hc
          rcases (hmem y).1 hy with rfl | hy'
          · exact hxr hc
          · exact hall y hy' (List.mem_cons_of_mem _ hc)

/-- **what `has_unique_tip_names` computes**: refused when a live tip has no name, otherwise whether the names
    of the live tips are pairwise distinct (counting distinct names against `n_leaves()` decides exactly that) -/
theorem hasUniqueTipNames_spec (a : Arena) :
    hasUniqueTipNames a =
      if none ∈ leafNames a then .err "UnnamedLeaves" else .ok (decide (leafNames a).Nodup) := by
  unfold hasUniqueTipNames
  cases hd : distinctNames (leafNames a) [] with
  | none =>
    have := (distinctNames_none _ _).1 hd
    simp [this]
  | some out =>
    have hnn : none ∉ leafNames a := by
      intro hc
      rw [(distinctNames_none _ []).2 hc] at hd
      cases hd
    obtain ⟨_, _, k3⟩ := distinctNames_some _ [] out hd List.nodup_nil
    simp only [List.length_nil, Nat.zero_add, List.not_mem_nil, false_imp_iff, implies_true, and_true,
      leafNames_length] at k3
    simp only [hnn, ↓reduceIte, QR.ok.injEq]
    rw [Bool.eq_iff_iff]
    simp only [beq_iff_eq, decide_eq_true_eq]
    exact k3

/-- refused exactly when some live tip has no name -/
theorem hasUniqueTipNames_err_iff (a : Arena) :
    hasUniqueTipNames a = .err "UnnamedLeaves" ↔ ∃ i, i ∈ leaves a ∧ (nd a i).name = none := by
  rw [hasUniqueTipNames_spec]
  by_cases hn : none ∈ leafNames a
  · simp only [hn, ↓reduceIte, true_iff]
    simp only [leafNames, List.mem_map] at hn
    obtain ⟨i, hi, he⟩ := hn
    exact ⟨i, hi, he⟩
  · simp only [hn, ↓reduceIte, reduceCtorEq, false_iff]
    rintro ⟨i, hi, he⟩
    apply hn
    simp only [leafNames, List.mem_map]
    exact ⟨i, hi, he⟩

/-- the only refusal is `UnnamedLeaves`; the function never panics -/
theorem hasUniqueTipNames_cases (a : Arena) :
    hasUniqueTipNames a = .err "UnnamedLeaves" ∨ ∃ b, hasUniqueTipNames a = .ok b := by
  rw [hasUniqueTipNames_spec]
  split
  · exact Or.inl rfl
  · exact Or.inr ⟨_, rfl⟩

/-- a duplicate-free list mapped by `f` stays duplicate-free iff `f` is injective on it -/
theorem nodup_map_iff_inj {α β : Type} (f : α → β) : ∀ (l : List α), l.Nodup →
    ((l.map f).Nodup ↔ ∀ x ∈ l, ∀ y ∈ l, f x = f y → x = y)
  | [], _ => by simp
  | x :: l, hn => by
    rw [List.nodup_cons] at hn
    rw [List.map_cons, List.nodup_cons, nodup_map_iff_inj f l hn.2]
    constructor
    · rintro ⟨hx, hl⟩ y hy z hz he
      rcases List.mem_cons.1 hy with rfl | hy' <;> rcases List.mem_cons.1 hz with rfl | hz'
      · rfl
      · exact absurd (List.mem_map.2 ⟨z, hz', he.symm⟩) hx
      · exact absurd (List.mem_map.2 ⟨y, hy', he⟩) hx
      · exact hl y hy' z hz' he
    · intro h
      refine ⟨?_, fun y hy z hz he => h y (List.mem_cons_of_mem _ hy) z (List.mem_cons_of_mem _ hz) he⟩
      intro hc
      obtain ⟨y, hy, he⟩ := List.mem_map.1 hc
      have := h y (List.mem_cons_of_mem _ hy) x List.mem_cons_self he
      subst this
      exact hn.1 hy

/-- when answered, the answer is `true` exactly when the list of leaf names has no repetition … -/
theorem hasUniqueTipNames_ok_iff_nodup (a : Arena) (b : Bool) (h : hasUniqueTipNames a = .ok b) :
    b = true ↔ (leafNames a).Nodup := by
  rw [hasUniqueTipNames_spec] at h
  split at h
  · cases h
  · simp only [QR.ok.injEq] at h
    rw [← h]
    simp

/-- … that is, exactly when no two different live tips carry the same name -/
theorem hasUniqueTipNames_ok_iff_inj (a : Arena) (b : Bool) (h : hasUniqueTipNames a = .ok b) :
    b = true ↔ ∀ i ∈ leaves a, ∀ j ∈ leaves a, (nd a i).name = (nd a j).name → i = j := by
  rw [hasUniqueTipNames_ok_iff_nodup a b h, leafNames, nodup_map_iff_inj _ _ (leaves_nodup a)]

/-- when answered, every live tip has a name -/
theorem hasUniqueTipNames_ok_named (a : Arena) (b : Bool) (h : hasUniqueTipNames a = .ok b) :
    ∀ i ∈ leaves a, ∃ s, (nd a i).name = some s := by
  intro i hi
  cases hn : (nd a i).name with
  | some s => exact ⟨s, rfl⟩
  | none =>
    have := (hasUniqueTipNames_err_iff a).2 ⟨i, hi, hn⟩
    rw [this] at h
    cases h

/-! ### the same question asked of the tree -/

/-- textbook `has_unique_tip_names` on a Newick-level tree: refused when a tip is unnamed, otherwise whether
    the tip names, read left to right, are pairwise distinct -/
def uniqueTipNamesNL (t : RoseNL) : QR Bool :=
  if none ∈ leafNamesNL t then .err "UnnamedLeaves" else .ok (decide (leafNamesNL t).Nodup)
def uniqueTipNamesR (t : Rose) : QR Bool := uniqueTipNamesNL (erase t)

/-- `has_unique_tip_names` is a function of the abstract tree -/
theorem hasUniqueTipNames_refines {a : Arena} (g : Good a) (h1 : AtMostOneRoot a) {t : Rose}
    (h : absRoot a = .ok t) : hasUniqueTipNames a = uniqueTipNamesR t := by
  have hp := leafNames_perm_tree g h1 h
  rw [hasUniqueTipNames_spec, uniqueTipNamesR, uniqueTipNamesNL, ← leafNamesR]
  have e1 : (none ∈ leafNames a) ↔ (none ∈ leafNamesR t) := hp.mem_iff
  have e2 : (leafNames a).Nodup ↔ (leafNamesR t).Nodup := hp.nodup_iff
  simp only [e1, e2]

/-- **layout / history independence**: two well-formed one-rooted arenas holding the same tree (same Newick
    tree: names, lengths, ordered topology — whatever the slot layout, removed slots, cached depths) agree on
    `has_unique_tip_names`, and their `get_leaf_names` agree as multisets -/
theorem names_depend_only_on_tree {a b : Arena} (ga : Good a) (gb : Good b) (ha : AtMostOneRoot a)
    (hb : AtMostOneRoot b) {ta tb : Rose} (hta : absRoot a = .ok ta) (htb : absRoot b = .ok tb)
    (he : erase ta = erase tb) :
    hasUniqueTipNames a = hasUniqueTipNames b ∧ (leafNames a).Perm (leafNames b) := by
  constructor
  · rw [hasUniqueTipNames_refines ga ha hta, hasUniqueTipNames_refines gb hb htb, uniqueTipNamesR,
      uniqueTipNamesR, he]
  · have k1 := leafNames_perm_tree ga ha hta
    have k2 := leafNames_perm_tree gb hb htb
    rw [leafNamesR, he] at k1
    exact k1.trans k2.symm

/-! ### `size` -/

theorem sizeOf_eq (a : Arena) : AR.sizeOf a = a.size := rfl

/-- every id the arena ever handed out — live or removed — is below `size()`; live ones strictly -/
theorem live_lt_sizeOf (a : Arena) (i : Nat) (h : live a i) : i < AR.sizeOf a := h.1

/-- `size()` counts slots, not nodes: the number of nodes of the tree is at most `size()`, with equality iff no
    slot is a tombstone -/
theorem nodes_le_sizeOf {a : Arena} (g : Good a) (h1 : AtMostOneRoot a) {t : Rose} (h : absRoot a = .ok t) :
    (idsR t).length ≤ AR.sizeOf a ∧ ((idsR t).length = AR.sizeOf a ↔ ∀ i, i < a.size → live a i) := by
  obtain ⟨r, t0, c⟩ := absRoot_ctx g h1 h
  have hp := live_scan_perm c
  rw [c.dec, idsR_decorate, ← hp.length_eq, AR.sizeOf]
  have hle := List.length_filter_le (fun i => isLive a i) (List.range a.size)
  rw [List.length_range] at hle
  refine ⟨hle, ?_⟩
  constructor
  · intro he i hi
    have : (List.range a.size).filter (fun i => isLive a i) = List.range a.size := by
      apply List.filter_sublist.eq_of_length
      rw [he, List.length_range]
    have hm : i ∈ (List.range a.size).filter (fun i => isLive a i) := by
      rw [this]; exact List.mem_range.2 hi
    exact (isLive_iff a i).1 (List.mem_filter.1 hm).2
  · intro hall
    have : (List.range a.size).filter (fun i => isLive a i) = List.range a.size := by
      rw [List.filter_eq_self]
      intro i hi
      exact (isLive_iff a i).2 (hall i (List.mem_range.1 hi))
    rw [this, List.length_range]

/-! ### observers of `Node` -/

/-- **the two records of a branch length agree**: what a live node reports for one of its children
    (`get_child_edge`) is the length recorded on that child (`parent_edge`) — both absent or both the same -/
theorem getChildEdge_child {a : Arena} (hinv : Inv a) {p c : Nat} (hp : live a p) (hc : c ∈ (nd a p).children) :
    getChildEdge a p c = (nd a c).pedge := (hinv.child_ok p c hp hc).2.2.2

/-- the same fact from the child's side: the parent of a live node reports the child's own `parent_edge` -/
theorem getChildEdge_parent {a : Arena} (hinv : Inv a) {i p : Nat} (hl : live a i) (hp : (nd a i).parent = some p) :
    getChildEdge a p i = (nd a i).pedge := by
  obtain ⟨hlp, hmem⟩ := hinv.parent_ok i p hl hp
  exact getChildEdge_child hinv hlp hmem

/-- the table has no stale entries: a reported length belongs to a current child -/
theorem getChildEdge_some_child {a : Arena} (hinv : Inv a) {p c : Nat} {v : Int} (h : getChildEdge a p c = some v) :
    c ∈ (nd a p).children := by
  apply hinv.cedge_dom p c
  unfold getChildEdge at h
  simp [h]

/-- for anything that is not a child the answer is `None` -/
theorem getChildEdge_not_child {a : Arena} (hinv : Inv a) {p c : Nat} (hc : c ∉ (nd a p).children) :
    getChildEdge a p c = none := by
  cases h : getChildEdge a p c with
  | none => rfl
  | some v => exact absurd (getChildEdge_some_child hinv h) hc

theorem isRootNode_iff (a : Arena) (i : Nat) : isRootNode a i = true ↔ (nd a i).parent = none := by
  simp [isRootNode]

theorem root_ok_iff {a : Arena} (g : Good a) (h1 : AtMostOneRoot a) (i : Nat) : root a = .ok i ↔ isRoot a i := by
  constructor
  · intro h
    unfold root at h
    cases hr : getRoot a with
    | none => rw [hr] at h; simp [QR.ofOpt] at h
    | some r =>
      rw [hr] at h
      simp only [QR.ofOpt, QR.ok.injEq] at h
      subst h
      have := List.find?_some hr
      simp only [Bool.and_eq_true, Option.isNone_iff_eq_none] at this
      exact ⟨(isLive_iff a r).1 this.1, this.2⟩
  · intro h
    obtain ⟨t, _, hget, huniq, _⟩ := one_tree g h1 i h.1
    rw [huniq i h] at *
    simp [root, hget, QR.ofOpt]

/-- for a node of the tree, `is_root` holds exactly for the node `get_root` returns -/
theorem isRootNode_iff_root {a : Arena} (g : Good a) (h1 : AtMostOneRoot a) {i : Nat} (hl : live a i) :
    isRootNode a i = true ↔ root a = .ok i := by
  rw [isRootNode_iff, root_ok_iff g h1]
  exact ⟨fun h => ⟨hl, h⟩, fun h => h.2⟩

theorem isTip_iff (a : Arena) (i : Nat) : isTip a i = true ↔ (nd a i).children = [] := by
  simp [isTip]

/-- for a node of the tree, `is_tip` holds exactly for the nodes `get_leaves` lists -/
theorem isTip_iff_leaf (a : Arena) {i : Nat} (hl : live a i) : isTip a i = true ↔ i ∈ leaves a := by
  rw [isTip_iff, mem_leaves_iff]
  exact ⟨fun h => ⟨hl, h⟩, fun h => h.2⟩

/-- `k` levels below `x` the cached depth is `k` larger -/
theorem BelowK.depth_eq {a : Arena} (hinv : Inv a) {x v k : Nat} (h : BelowK a x v k) :
    (nd a v).depth = (nd a x).depth + k := by
  induction h with
  | refl _ => rfl
  | step hb hl hpar ih =>
    obtain ⟨hlp, hmem⟩ := hinv.parent_ok _ _ hl hpar
    have := (hinv.child_ok _ _ hlp hmem).2.2.1
    omega

/-- `get_depth` of a node of the tree is its number of edges to the root: its root path (what
    `get_path_from_root` returns) has `depth + 1` nodes -/
theorem getDepth_path {a : Arena} (hinv : Inv a) (i : Nat) (hl : live a i) :
    ∃ l, Path a l i ∧ pathFromRoot a i = .ok l ∧ l.length = getDepth a i + 1 := by
  obtain ⟨l, hp, hlen⟩ := depth_is_edges_to_root hinv i hl
  exact ⟨l, hp, pathFromRoot_eq hinv.toW hp, hlen⟩

/-- a node `k` levels below a root has depth `k` -/
theorem getDepth_below_root {a : Arena} (hinv : Inv a) {r i k : Nat} (hr : isRoot a r) (hb : BelowK a r i k) :
    getDepth a i = k := by
  have := hb.depth_eq hinv
  rw [hinv.root_depth r hr.1 hr.2] at this
  simpa [getDepth] using this

/-- with one root: every node of the tree lies exactly `get_depth` levels below the node `get_root` returns -/
theorem getDepth_levels {a : Arena} (g : Good a) (h1 : AtMostOneRoot a) (i : Nat) (hl : live a i) :
    ∃ r, root a = .ok r ∧ BelowK a r i (getDepth a i) := by
  obtain ⟨r, hroot, _, _, hall⟩ := one_tree g h1 i hl
  obtain ⟨k, hb⟩ := hall i hl
  rw [getDepth_below_root g.1 hroot hb]
  exact ⟨r, (root_ok_iff g h1 r).2 hroot, hb⟩

theorem getDepth_root {a : Arena} (hinv : Inv a) {i : Nat} (hl : live a i) (hr : isRootNode a i = true) :
    getDepth a i = 0 := hinv.root_depth i hl ((isRootNode_iff a i).1 hr)

theorem getDepth_child {a : Arena} (hinv : Inv a) {p c : Nat} (hp : live a p) (hc : c ∈ (nd a p).children) :
    getDepth a c = getDepth a p + 1 := (hinv.child_ok p c hp hc).2.2.1

theorem get_ok {a : Arena} {i : Nat} (hl : live a i) : get a i = .ok (nd a i) := by
  simp [get, (isLive_iff a i).2 hl]

theorem get_err {a : Arena} {i : Nat} (hl : ¬ live a i) : get a i = .err "NodeNotFound" := by
  have : isLive a i = false := by
    cases hh : isLive a i with
    | false => rfl
    | true => exact absurd ((isLive_iff a i).1 hh) hl
  simp [get, this]

theorem nodeInfo_live {a : Arena} {i : Nat} (hl : live a i) :
    nodeInfo a i = .ok (isTip a i, isRootNode a i, getDepth a i) := by
  simp [nodeInfo, get_ok hl]

theorem nodeInfo_dead {a : Arena} {i : Nat} (hl : ¬ live a i) : nodeInfo a i = .err "NodeNotFound" := by
  simp [nodeInfo, get_err hl]

theorem childEdgeQ_live {a : Arena} {p : Nat} (c : Nat) (hl : live a p) :
    childEdgeQ a p c = .ok (getChildEdge a p c) := by
  simp [childEdgeQ, get_ok hl]

theorem childEdgeQ_dead {a : Arena} {p : Nat} (c : Nat) (hl : ¬ live a p) :
    childEdgeQ a p c = .err "NodeNotFound" := by
  simp [childEdgeQ, get_err hl]

/-! ### the normalised indices -/

/-- `H n = Σ_{i=2}^{n} 1/i`, by recursion on `n` (independent of the list sum the model evaluates) -/
def harmonicFrom2 : Nat → Rat
  | 0 => 0
  | 1 => 0
  | n + 2 => harmonicFrom2 (n + 1) + 1 / ((n + 2 : Nat) : Rat)

theorem harmonicSum_eq : ∀ n, harmonicSum n = harmonicFrom2 n
  | 0 => by simp [harmonicSum, harmonicFrom2]
  | 1 => by simp [harmonicSum, harmonicFrom2]
  | n + 2 => by
    have ih := harmonicSum_eq (n + 1)
    unfold harmonicSum at ih ⊢
    rw [harmonicFrom2, ← ih]
    have : n + 2 - 1 = (n + 1 - 1) + 1 := by omega
    rw [this, List.range'_concat, List.map_append, List.sum_append]
    simp [Rat.add_zero]
    grind

theorem yuleNorm_eq (s n : Nat) : yuleNorm s n = ((s : Rat) - 2 * (n : Rat) * harmonicFrom2 n) / (n : Rat) := by
  rw [yuleNorm, harmonicSum_eq]

theorem rat_inv_nonneg {x : Rat} (h : 0 ≤ x) : 0 ≤ x⁻¹ := by
  by_cases hx : x = 0
  · subst hx; simp
  · have : 0 < x := by grind
    exact Rat.le_of_lt (Rat.inv_pos.2 this)

theorem pdaSq_nonneg (i n : Nat) : 0 ≤ pdaSq i n := by
  unfold pdaSq
  rw [Rat.div_def]
  apply Rat.mul_nonneg
  · apply Rat.mul_nonneg <;> exact Rat.natCast_nonneg
  · apply rat_inv_nonneg
    apply Rat.mul_nonneg
    apply Rat.mul_nonneg
    all_goals exact Rat.natCast_nonneg

theorem pdaSq_eq (i n : Nat) : pdaSq i n = (i : Rat) ^ 2 / (n : Rat) ^ 3 := by
  unfold pdaSq
  congr 1 <;> grind

/-- a `QR` computation followed by a pure step: answered iff the first step is, refused (with the same kind)
    iff the first step is -/
theorem QR.map_ok_iff {α β : Type} (x : QR α) (f : α → β) (q : β) :
    (x >>= fun v => pure (f v)) = QR.ok q ↔ ∃ v, x = .ok v ∧ q = f v := by
  cases x with
  | ok v => simp only [QR.bind_ok, QR.pure_eq, QR.ok.injEq]; exact ⟨fun h => ⟨v, rfl, h.symm⟩, fun ⟨w, hw, hq⟩ => by rw [hw, hq]⟩
  | err k => simp
  | panic => simp

theorem QR.map_err_iff {α β : Type} (x : QR α) (f : α → β) (k : String) :
    (x >>= fun v => pure (f v)) = (QR.err k : QR β) ↔ x = .err k := by
  cases x <;> simp

theorem QR.map_panic_iff {α β : Type} (x : QR α) (f : α → β) :
    (x >>= fun v => pure (f v)) = (QR.panic : QR β) ↔ x = .panic := by
  cases x <;> simp

/-- `sackin_yule`, when answered, is `(I_s − 2·n·H(n)) / n` with `I_s` the answer of `sackin`, `n` of `n_leaves` -/
theorem sackinYule_ok (a : Arena) (q : Rat) : sackinYule a = .ok q ↔
    ∃ s n, sackin a = .ok s ∧ n = nLeaves a ∧ q = ((s : Rat) - 2 * (n : Rat) * harmonicFrom2 n) / (n : Rat) := by
  rw [sackinYule, QR.map_ok_iff]
  constructor
  · rintro ⟨s, hs, hq⟩
    exact ⟨s, nLeaves a, hs, rfl, by rw [hq, yuleNorm_eq]⟩
  · rintro ⟨s, n, hs, hn, hq⟩
    subst hn
    exact ⟨s, hs, by rw [hq, yuleNorm_eq]⟩

/-- the squares of `sackin_pda` / `colless_pda`, when answered, are `I² / n³` -/
theorem sackinPdaSq_ok (a : Arena) (q : Rat) : sackinPdaSq a = .ok q ↔
    ∃ s, sackin a = .ok s ∧ q = (s : Rat) ^ 2 / (nLeaves a : Rat) ^ 3 := by
  rw [sackinPdaSq, QR.map_ok_iff]
  simp only [pdaSq_eq]

theorem collessPdaSq_ok (a : Arena) (q : Rat) : collessPdaSq a = .ok q ↔
    ∃ c, colless a = .ok c ∧ q = (c : Rat) ^ 2 / (nLeaves a : Rat) ^ 3 := by
  rw [collessPdaSq, QR.map_ok_iff]
  simp only [pdaSq_eq]

/-- the normalisations are refused exactly when the index they normalise is, with the same error -/
theorem norms_refused (a : Arena) (k : String) :
    (sackinYule a = .err k ↔ sackin a = .err k) ∧ (sackinPdaSq a = .err k ↔ sackin a = .err k) ∧
    (collessPdaSq a = .err k ↔ colless a = .err k) :=
  ⟨QR.map_err_iff _ _ k, QR.map_err_iff _ _ k, QR.map_err_iff _ _ k⟩

theorem norms_panic (a : Arena) :
    (sackinYule a = .panic ↔ sackin a = .panic) ∧ (sackinPdaSq a = .panic ↔ sackin a = .panic) ∧
    (collessPdaSq a = .panic ↔ colless a = .panic) :=
  ⟨QR.map_panic_iff _ _, QR.map_panic_iff _ _, QR.map_panic_iff _ _⟩

/-! ### the divisor is never zero: a rooted tree has at least two tips -/

theorem nLeavesNL_pos : ∀ t : RoseNL, 1 ≤ nLeavesNL t
  | .node n l [] => by rw [nLeavesNL_tip]; omega
  | .node n l (k :: ks) => by
    rw [nLeavesNL_inner]
    have := nLeavesNL_pos k
    simp only [List.map_cons, List.sum_cons]
    omega

theorem two_tips_of_rooted (t : RoseNL) (h : isRootedNL t = true) : 2 ≤ nLeavesNL t := by
  obtain ⟨n, l, ks⟩ := t
  simp only [isRootedNL, RoseNL.kids, beq_iff_eq] at h
  match ks, h with
  | [x, y], _ =>
    rw [nLeavesNL_inner]
    have := nLeavesNL_pos x
    have := nLeavesNL_pos y
    simp only [List.map_cons, List.sum_cons, List.map_nil, List.sum_nil]
    omega

theorem rooted_of_check {a : Arena} (h : checkRootedBinary a = .ok ()) : isRooted a = .ok true := by
  unfold checkRootedBinary at h
  cases hr : isRooted a with
  | ok b =>
    cases b with
    | true => rfl
    | false => rw [hr] at h; simp at h
  | err k => rw [hr] at h; simp at h
  | panic => rw [hr] at h; simp at h

theorem live_of_rooted {a : Arena} {b : Bool} (h : isRooted a = .ok b) : ∃ r, live a r := by
  unfold isRooted at h
  cases hr : root a with
  | ok r =>
    unfold root at hr
    cases hg : getRoot a with
    | none => rw [hg] at hr; simp [QR.ofOpt] at hr
    | some r' =>
      have := List.find?_some hg
      simp only [Bool.and_eq_true] at this
      exact ⟨r', (isLive_iff a r').1 this.1⟩
  | err k => rw [hr] at h; simp at h
  | panic => rw [hr] at h; simp at h

theorem two_tips_of_check {a : Arena} (g : Good a) (h1 : AtMostOneRoot a) (h : checkRootedBinary a = .ok ()) :
    2 ≤ nLeaves a := by
  have hr := rooted_of_check h
  obtain ⟨r, hl⟩ := live_of_rooted hr
  obtain ⟨t, ht⟩ := absRoot_total g h1 r hl
  rw [isRooted_refines g h1 ht] at hr
  simp only [QR.ok.injEq] at hr
  rw [nLeaves_refines g h1 ht]
  exact two_tips_of_rooted _ hr

theorem check_of_sackin {a : Arena} {s : Nat} (h : sackin a = .ok s) : checkRootedBinary a = .ok () := by
  unfold sackin at h
  cases hc : checkRootedBinary a with
  | ok u => rfl
  | err k => rw [hc] at h; simp at h
  | panic => rw [hc] at h; simp at h

theorem check_of_colless {a : Arena} {s : Nat} (h : colless a = .ok s) : checkRootedBinary a = .ok () := by
  rw [colless_eq] at h
  cases hc : checkRootedBinary a with
  | ok u => rfl
  | err k => rw [hc] at h; simp at h
  | panic => rw [hc] at h; simp at h

/-- whenever `sackin` (or `colless`) answers on a well-formed arena the tree has at least two tips, so the
    divisions by `n` and `n^(3/2)` in the normalisations never meet `n = 0` -/
theorem sackin_ok_two_tips {a : Arena} (g : Good a) (h1 : AtMostOneRoot a) {s : Nat} (h : sackin a = .ok s) :
    2 ≤ nLeaves a := two_tips_of_check g h1 (check_of_sackin h)

theorem colless_ok_two_tips {a : Arena} (g : Good a) (h1 : AtMostOneRoot a) {c : Nat} (h : colless a = .ok c) :
    2 ≤ nLeaves a := two_tips_of_check g h1 (check_of_colless h)

/-! ### the normalised indices as functions of the tree -/

/-- the normalised indices computed from the tree alone: refused on unrooted / non-binary trees, otherwise the
    textbook index of the tree normalised by its number of tips -/
theorem norms_refine {a : Arena} (g : Good a) (h1 : AtMostOneRoot a) {t : Rose} (h : absRoot a = .ok t) :
    sackinYule a = (do checkRBR t; pure (yuleNorm (sackinR t) (nLeavesR t))) ∧
    sackinPdaSq a = (do checkRBR t; pure (pdaSq (sackinR t) (nLeavesR t))) ∧
    collessPdaSq a = (do checkRBR t; pure (pdaSq (collessR t) (nLeavesR t))) := by
  simp only [sackinYule, sackinPdaSq, collessPdaSq, sackin_refines g h1 h, colless_refines g h1 h,
    nLeaves_refines g h1 h]
  cases checkRBR t <;> exact ⟨rfl, rfl, rfl⟩

/-- layout / history independence of the normalised indices -/
theorem norms_depend_only_on_tree {a b : Arena} (ga : Good a) (gb : Good b) (ha : AtMostOneRoot a)
    (hb : AtMostOneRoot b) {ta tb : Rose} (hta : absRoot a = .ok ta) (htb : absRoot b = .ok tb)
    (he : erase ta = erase tb) :
    sackinYule a = sackinYule b ∧ sackinPdaSq a = sackinPdaSq b ∧ collessPdaSq a = collessPdaSq b := by
  obtain ⟨s1, _, _, _, _, s6, s7, _⟩ := answers_depend_only_on_tree ga gb ha hb hta htb he
  refine ⟨?_, ?_, ?_⟩ <;> simp only [sackinYule, sackinPdaSq, collessPdaSq, s1, s6, s7]

end AR
