import PhyloModel.Arena.CliCollapse
/-! The two protocol requests `ar.setlen` (a branch length overwritten in place through the public setters, both records) and
    `ar.add_copy` (`add_child` of a copy of a node of the tree) keep the arena invariant, whatever their arguments. -/
namespace AR

theorem setLenOp_good {a : Arena} (x : Nat) (v : Int) (g : Good a) : Good (setLenOp a x v).1 := by
  unfold setLenOp
  split
  next hx =>
    have hl := (isLive_iff a x).1 hx
    split
    next p hp => exact setLen_good g hl hp v
    next => exact g
  next => exact g

/-- a successful overwrite changes nothing but the two records of that one branch -/
theorem setLenOp_ok {a : Arena} {x : Nat} {v : Int} (g : Good a) (hl : live a x) {p : Nat} (hp : (nd a x).parent = some p) :
    setLenOp a x v = (setLen a x p v, .ok none) := by
  have hx := (isLive_iff a x).2 hl
  unfold setLenOp
  rw [if_pos hx]
  split
  next q hq => rw [hp] at hq; cases hq; rfl
  next hn => rw [hp] at hn; cases hn

theorem setComment_same (a : Arena) (i : Nat) (c : Option String) : SameStruct a (setComment a i c) := by
  refine ⟨by simp [setComment], fun j => ?_⟩
  rw [setComment, nd_set]
  split
  next h => obtain ⟨rfl, _⟩ := h; simp
  next => simp

theorem setComment_good {a : Arena} (i : Nat) (c : Option String) (g : Good a) : Good (setComment a i c) :=
  g.transfer (setComment_same a i c)

theorem addCopy_good {a : Arena} (src p : Nat) (e : Option Int) (g : Good a) : Good (addCopy a src p e).1 := by
  unfold addCopy
  split
  next =>
    have h := addChildNamed_good p e (nd a src).name g
    split
    next a' id heq => rw [heq] at h; exact setComment_good id _ h
    next => exact h
  next => exact g

end AR
