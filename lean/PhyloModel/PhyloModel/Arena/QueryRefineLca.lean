import PhyloModel.Arena.QueryRefineDistance
/-! # `get_common_ancestor` as a function of the abstract tree

Nodes are addressed by pre-order position.  `lcaNL T i j` is the position of the deepest common ancestor of
the `i`-th and `j`-th node of `T`: the node whose root path is the longest common prefix of their root paths. -/
namespace AR

/-- longest common prefix of two root paths (steps compared by kid index) -/
def commonPathNL : List Step → List Step → List Step
  | x :: xs, y :: ys => if x.1 = y.1 then x :: commonPathNL xs ys else []
  | _, _ => []

/-- pre-order position of the deepest common ancestor of the `i`-th and `j`-th node -/
def lcaNL (T : RoseNL) (i j : Nat) : Nat :=
  let P := nodePathsNL T
  P.idxOf (commonPathNL (P.getD i []) (P.getD j []))

def commonSteps : List (Nat × Nat) → List (Nat × Nat) → List (Nat × Nat)
  | x :: xs, y :: ys => if x.1 = y.1 then x :: commonSteps xs ys else []
  | _, _ => []

def commonIds (qx qy : List Nat) : List Nat := qx.take (cursor qx qy)

theorem commonIds_nil_left (qy : List Nat) : commonIds [] qy = [] := by simp [commonIds]
theorem commonIds_nil_right (qx : List Nat) : commonIds qx [] = [] := by
  cases qx <;> simp [commonIds, cursor]
theorem commonIds_cons (x y : Nat) (xs ys : List Nat) :
    commonIds (x :: xs) (y :: ys) = if x = y then x :: commonIds xs ys else [] := by
  by_cases h : x = y <;> simp [commonIds, cursor, h]

theorem commonPath_map (a : Arena) : ∀ (sx sy : List (Nat × Nat)),
    commonPathNL (sx.map (stepF a)) (sy.map (stepF a)) = (commonSteps sx sy).map (stepF a)
  | [], sy => by simp [commonPathNL, commonSteps]
  | x :: xs, [] => by simp [commonPathNL, commonSteps]
  | x :: xs, y :: ys => by
    simp only [List.map_cons, commonPathNL, commonSteps, stepF]
    split
    · simp only [List.map_cons, stepF, commonPath_map a xs ys]
    · rfl

theorem coh_common : ∀ (sx sy : List (Nat × Nat)), Coh sx sy →
    idsOf (commonSteps sx sy) = commonIds (idsOf sx) (idsOf sy)
  | [], sy, _ => by simp [commonSteps, idsOf, commonIds_nil_left]
  | x :: xs, [], _ => by simp [commonSteps, idsOf, commonIds_nil_right]
  | x :: xs, y :: ys, h => by
    simp only [Coh] at h
    simp only [commonSteps, idsOf, List.map_cons, commonIds_cons]
    by_cases h1 : x.1 = y.1
    · have h2 : x.2 = y.2 := h.1.1 h1
      have := coh_common xs ys (h.2 h1)
      simp only [idsOf] at this
      simp [h1, h2, this]
    · have h2 : ¬ x.2 = y.2 := fun e => h1 (h.1.2 e)
      simp [h1, h2]

theorem commonSteps_self : ∀ s : List (Nat × Nat), commonSteps s s = s
  | [] => by simp [commonSteps]
  | x :: xs => by simp [commonSteps, commonSteps_self xs]

/-- the node the arena code reads off the two root paths is the end of their common prefix -/
theorem getD_cursor : ∀ (qx qy : List Nat) (r : Nat),
    (r :: qx).getD (cursor qx qy) 0 = endOf r (commonIds qx qy)
  | [], qy, r => by simp [cursor, commonIds, endOf]
  | x :: xs, [], r => by simp [cursor, commonIds, endOf]
  | x :: xs, y :: ys, r => by
    rw [commonIds_cons]
    by_cases h : x = y
    · have := getD_cursor xs ys x
      simp only [cursor, h, ↓reduceIte, endOf] at this ⊢
      rw [← this]
      simp
    · simp [cursor, h, endOf]

theorem commonAncestor_paths {a : Arena} {rk : Nat → Nat} (w : W a rk) {r x y : Nat} {qx qy : List Nat}
    (hx : Path a (r :: qx) x) (hy : Path a (r :: qy) y) (hne : x ≠ y) :
    commonAncestor a x y = .ok (endOf r (commonIds qx qy)) := by
  simp only [commonAncestor, hne, ↓reduceIte, pathFromRoot_eq w hx, pathFromRoot_eq w hy, QR.bind_ok, cursor,
    Nat.add_one_ne_zero, Nat.add_sub_cancel, getD_cursor]

/-! ### prefix closure and injectivity of the step lists -/

mutual
theorem nodeSteps_prefix : ∀ (t : RTI) (s p : List (Nat × Nat)), s ∈ nodeSteps t → p <+: s → p ∈ nodeSteps t
  | .node j ks, s, p, hs, hp => by
    simp only [nodeSteps, List.mem_cons] at hs ⊢
    rcases hs with rfl | hs
    · left; exact List.prefix_nil.mp hp
    · cases p with
      | nil => left; rfl
      | cons x p' => right; exact nodeStepsL_prefix 0 ks s (x :: p') hs hp (by simp)
theorem nodeStepsL_prefix : ∀ (j : Nat) (ts : List RTI) (s p : List (Nat × Nat)), s ∈ nodeStepsL j ts →
    p <+: s → p ≠ [] → p ∈ nodeStepsL j ts
  | _, [], s, _, hs, _, _ => by simp [nodeStepsL] at hs
  | j, t :: ts, s, p, hs, hp, hne => by
    simp only [nodeStepsL, List.mem_append, List.mem_map] at hs ⊢
    rcases hs with ⟨s', hs', rfl⟩ | hs
    · left
      cases p with
      | nil => exact absurd rfl hne
      | cons x p' =>
        rw [List.cons_prefix_cons] at hp
        exact ⟨p', nodeSteps_prefix t s' p' hs' hp.2, by rw [hp.1]⟩
    · right; exact nodeStepsL_prefix (j + 1) ts s p hs hp hne
end

theorem commonSteps_prefix : ∀ (sx sy : List (Nat × Nat)), commonSteps sx sy <+: sx
  | [], sy => by simp [commonSteps]
  | x :: xs, [] => by simp [commonSteps]
  | x :: xs, y :: ys => by
    simp only [commonSteps]
    split
    · rw [List.cons_prefix_cons]; exact ⟨rfl, commonSteps_prefix xs ys⟩
    · simp

theorem coh_inj_idx : ∀ (s s' : List (Nat × Nat)), Coh s s' → s.map (·.1) = s'.map (·.1) → s = s'
  | [], [], _, _ => rfl
  | [], _ :: _, _, h => by simp at h
  | _ :: _, [], _, h => by simp at h
  | x :: xs, y :: ys, hc, h => by
    simp only [Coh] at hc
    simp only [List.map_cons, List.cons.injEq] at h
    have h2 := hc.1.1 h.1
    rw [coh_inj_idx xs ys (hc.2 h.1) h.2, Prod.ext h.1 h2]

theorem coh_inj_ids : ∀ (s s' : List (Nat × Nat)), Coh s s' → idsOf s = idsOf s' → s = s'
  | [], [], _, _ => rfl
  | [], _ :: _, _, h => by simp [idsOf] at h
  | _ :: _, [], _, h => by simp [idsOf] at h
  | x :: xs, y :: ys, hc, h => by
    simp only [Coh] at hc
    simp only [idsOf, List.map_cons, List.cons.injEq] at h
    have h1 := hc.1.2 h.1
    rw [coh_inj_ids xs ys (hc.2 h1) h.2, Prod.ext h1 h.1]

theorem idxOf_map_inj {α β : Type} [BEq α] [LawfulBEq α] [BEq β] [LawfulBEq β] (f : α → β) :
    ∀ (l : List α) (x : α), (∀ y ∈ l, f y = f x → y = x) → (l.map f).idxOf (f x) = l.idxOf x
  | [], _, _ => rfl
  | y :: l, x, h => by
    have ih := idxOf_map_inj f l x (fun z hz => h z (by simp [hz]))
    simp only [List.map_cons, List.idxOf_cons]
    by_cases hyx : y = x
    · subst hyx; simp
    · have hne : ¬ f y = f x := fun e => hyx (h y (by simp) e)
      have e1 : (y == x) = false := by simpa using hyx
      have e2 : (f y == f x) = false := by simpa using hne
      rw [e1, e2, ih]

theorem getElem?_idxOf' {α : Type} [BEq α] [LawfulBEq α] : ∀ (l : List α) (x : α), x ∈ l →
    l[l.idxOf x]? = some x
  | [], _, h => by simp at h
  | y :: l, x, h => by
    rw [List.idxOf_cons]
    by_cases hyx : y = x
    · subst hyx; simp
    · have hx : x ∈ l := by
        rcases List.mem_cons.mp h with e | e
        · exact absurd e.symm hyx
        · exact e
      have e1 : (y == x) = false := by simpa using hyx
      rw [e1]
      simp only [cond_false, List.getElem?_cons_succ]
      exact getElem?_idxOf' l x hx

/-- **`get_common_ancestor` of any two nodes** of the tree, addressed by their pre-order positions, is the node
    at the textbook position -/
theorem commonAncestor_refines {a : Arena} (g : Good a) (h1 : AtMostOneRoot a) {t : Rose} (h : absRoot a = .ok t)
    (i j x y : Nat) (hx : (idsR t)[i]? = some x) (hy : (idsR t)[j]? = some y) :
    ∃ m, (idsR t)[lcaNL (erase t) i j]? = some m ∧ commonAncestor a x y = .ok m := by
  obtain ⟨r, t0, c⟩ := absRoot_ctx g h1 h
  have w := g.1.toW
  have hroot : Path a [r] r := Path.root c.is_root.1 c.is_root.2
  obtain ⟨sx, hsx, hmx, rfl⟩ := pre_getElem? c i x hx
  obtain ⟨sy, hsy, hmy, rfl⟩ := pre_getElem? c j y hy
  have px := nodeSteps_path w t0 r [r] c.rep hroot sx hmx
  have py := nodeSteps_path w t0 r [r] c.rep hroot sy hmy
  have hcoh := nodeSteps_coh w t0 r c.rep sx hmx sy hmy
  have hcp : commonSteps sx sy ∈ nodeSteps t0 := nodeSteps_prefix t0 sx _ hmx (commonSteps_prefix sx sy)
  -- position of the common prefix
  have hpos : lcaNL (erase t) i j = (nodeSteps t0).idxOf (commonSteps sx sy) := by
    rw [c.dec, ← dec]
    simp only [lcaNL, nodePathsNL_dec, List.getD_eq_getElem?_getD, List.getElem?_map, hsx, hsy, Option.map_some,
      Option.getD_some, commonPath_map]
    refine idxOf_map_inj (fun s => s.map (stepF a)) (nodeSteps t0) (commonSteps sx sy) ?_
    intro s' hs' he
    apply coh_inj_idx s' _ (nodeSteps_coh w t0 r c.rep s' hs' _ hcp)
    have := congrArg (List.map (·.1)) he
    simpa [List.map_map, Function.comp_def, stepF] using this
  refine ⟨endOf r (idsOf (commonSteps sx sy)), ?_, ?_⟩
  · rw [hpos, c.dec, idsR_decorate, ← nodeSteps_ends t0, List.getElem?_map, getElem?_idxOf' _ _ hcp, t0_id c]
    rfl
  · by_cases hne : endOf r (idsOf sx) = endOf r (idsOf sy)
    · have := Path.unique px (hne ▸ py)
      simp only [List.cons_append, List.nil_append, List.cons.injEq, true_and] at this
      have hs := coh_inj_ids sx sy hcoh this
      subst hs
      simp [commonAncestor, commonSteps_self]
    · have px' : Path a (r :: idsOf sx) (endOf r (idsOf sx)) := px
      have py' : Path a (r :: idsOf sy) (endOf r (idsOf sy)) := py
      rw [commonAncestor_paths w px' py' hne, coh_common sx sy hcoh]

end AR

namespace AR
/-- C04 corollary: in two arenas holding the same erased tree, the common ancestors of the nodes at the same
    pre-order positions sit at the same pre-order position -/
theorem commonAncestor_depends_only_on_tree {a b : Arena} (ga : Good a) (gb : Good b) (ha : AtMostOneRoot a)
    (hb : AtMostOneRoot b) {ta tb : Rose} (hta : absRoot a = .ok ta) (htb : absRoot b = .ok tb)
    (he : erase ta = erase tb) (i j xa ya xb yb : Nat) (h1 : (idsR ta)[i]? = some xa)
    (h2 : (idsR ta)[j]? = some ya) (h3 : (idsR tb)[i]? = some xb) (h4 : (idsR tb)[j]? = some yb) :
    ∃ (p ma mb : Nat), (idsR ta)[p]? = some ma ∧ (idsR tb)[p]? = some mb ∧
      commonAncestor a xa ya = .ok ma ∧ commonAncestor b xb yb = .ok mb := by
  obtain ⟨ma, k1, k2⟩ := commonAncestor_refines ga ha hta i j xa ya h1 h2
  obtain ⟨mb, k3, k4⟩ := commonAncestor_refines gb hb htb i j xb yb h3 h4
  rw [← he] at k3
  exact ⟨_, ma, mb, k1, k3, k2, k4⟩
end AR
