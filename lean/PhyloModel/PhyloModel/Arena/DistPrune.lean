import PhyloModel.Arena.DistBase
/-! C11, `prune`: the surviving nodes keep their root paths and branch lengths, hence every answer of
    `get_distance` between two survivors is unchanged (length and edge count). -/
namespace AR

section
variable {a a1 : Arena} {c : Nat}

theorem PruneOK2.parent_eq (ok : PruneOK2 a a1 c) {i : Nat} (hl : live a1 i) :
    (nd a1 i).parent = (nd a i).parent ∧ (nd a1 i).pedge = (nd a i).pedge := by
  by_cases hp : (nd a c).parent = some i
  · rw [ok.par i hp]; exact ⟨rfl, rfl⟩
  · rw [ok.same i hl hp]; exact ⟨rfl, rfl⟩

/-- the parent of a survivor survives -/
theorem PruneOK2.parent_live (ok : PruneOK2 a a1 c) (hinv : Inv a) {i p : Nat} (hl : live a1 i)
    (hp : (nd a i).parent = some p) : live a1 p := by
  have hla := ok.sub i hl
  have hlp := (hinv.parent_ok i p hla hp).1
  apply Classical.byContradiction
  intro hd
  have : ∃ k, BelowK a c p k := by
    apply Classical.byContradiction
    intro hno
    exact hd (ok.kept p hlp (fun k hk => hno ⟨k, hk⟩))
  obtain ⟨k, hk⟩ := this
  exact ok.gone i (k + 1) (BelowK.step hk hla hp) hl

/-- a survivor keeps its root path -/
theorem PruneOK2.path (ok : PruneOK2 a a1 c) (hinv : Inv a) {l : List Nat} {x : Nat} (h : Path a l x)
    (hl : live a1 x) : Path a1 l x ∧ ∀ z ∈ l, live a1 z := by
  induction h with
  | @root x _ hp =>
    exact ⟨Path.root hl (by rw [(ok.parent_eq hl).1]; exact hp), by intro z hz; simp at hz; subst hz; exact hl⟩
  | @step l p0 c0 hpath _ hp ih =>
    have hlp := ok.parent_live hinv hl hp
    obtain ⟨h1, h2⟩ := ih hlp
    refine ⟨Path.step h1 hl (by rw [(ok.parent_eq hl).1]; exact hp), ?_⟩
    intro z hz
    rcases List.mem_append.1 hz with hz | hz
    · exact h2 z hz
    · simp at hz; subst hz; exact hl

theorem PruneOK2.distance (ok : PruneOK2 a a1 c) (hinv : Inv a) {x y : Nat} (hlx : live a1 x)
    (hly : live a1 y) : distance a1 x y = distance a x y := by
  by_cases hxy : x = y
  · subst hxy; simp [AR.distance]
  · obtain ⟨P, hP⟩ := Path.exists hinv.toW _ x (ok.sub x hlx) (Nat.le_refl _)
    obtain ⟨Q, hQ⟩ := Path.exists hinv.toW _ y (ok.sub y hly) (Nat.le_refl _)
    obtain ⟨hP1, hPl⟩ := ok.path hinv hP hlx
    obtain ⟨hQ1, hQl⟩ := ok.path hinv hQ hly
    rw [distance_of_paths hinv.toW hP hQ hxy, distance_of_paths ok.inv.toW hP1 hQ1 hxy]
    congr 1
    simp only [distOf]
    congr 2
    apply List.map_congr_left
    intro z hz
    have hzl : live a1 z := by
      rcases List.mem_append.1 hz with hz | hz
      · exact hPl z (List.mem_of_mem_drop hz)
      · exact hQl z (List.mem_of_mem_drop hz)
    exact (ok.parent_eq hzl).2

end

/-- **`prune` keeps every distance between surviving nodes** (length and edge count), whatever its
    outcome -/
theorem prune_distance {a : Arena} (g : Good a) (c x y : Nat) (hlx : live (prune a c).1 x)
    (hly : live (prune a c).1 y) : distance (prune a c).1 x y = distance a x y := by
  unfold prune at hlx hly ⊢
  split
  next hc =>
    have hl := (isLive_iff a c).1 hc
    obtain ⟨a1, h1, ok⟩ := prune_main2 (fuelOf a) a.size a c g.1 g.2 hl (depth_le_size g.1)
      (by simp only [fuelOf]; omega)
    simp only [hc, ↓reduceIte, h1] at hlx hly ⊢
    exact ok.distance g.1 hlx hly
  next => rfl

/-- non-vacuity: root 0, child 1 with tips 3, 4, and tip 2; pruning 4 keeps the distance between 3 and 2 -/
def exP : Arena := runOps #[] [.add none, .addChild 0 (some 1) none, .addChild 0 (some 2) none,
  .addChild 1 (some 3) none, .addChild 1 (some 4) none]

example : live (prune exP 4).1 3 ∧ live (prune exP 4).1 2 ∧ distance exP 3 2 = .ok (some 6, 3) := by
  refine ⟨?_, ?_, distIs_eq (by decide)⟩ <;> (unfold live; decide)

end AR
