import PhyloModel.Arena.Abs
import PhyloModel.Arena.RepFacts
import PhyloModel.Arena.OneRoot
/-! # The executable abstraction `absF` / `absRoot` is total under the invariant, and what it returns

`decorate a t` fills the fields of an id-only tree `t : RTI` from the arena slots.  Under `Good a` every live
slot `i` represents a tree `t0` (`Rep a i t0`) and `absF (fuelOf a) a i = some (decorate a t0)`; with at most one
root, `absRoot a` returns the decorated tree of the root, whose node set is exactly the set of live slots,
each once.  The last section is the generic "scan of all slots = walk of the tree" permutation lemma used by
every refinement proof of `Arena/QueryRefine.lean`. -/
namespace AR

def RTI.id : RTI → Nat | .node i _ => i
def RTI.kids : RTI → List RTI | .node _ ks => ks

mutual
/-- fill the fields the queries read from the arena slots -/
def decorate (a : Arena) : RTI → Rose
  | .node i ks => .node i (nd a i).name (nd a i).pedge (nd a i).depth (decorateL a ks)
def decorateL (a : Arena) : List RTI → List Rose
  | [] => []
  | k :: ks => decorate a k :: decorateL a ks
end

theorem decorateL_eq_map (a : Arena) : ∀ ks : List RTI, decorateL a ks = ks.map (decorate a)
  | [] => rfl
  | k :: ks => by rw [decorateL, decorateL_eq_map a ks]; rfl

@[simp] theorem decorate_id (a : Arena) (t : RTI) : (decorate a t).id = t.id := by
  cases t; simp [decorate, Rose.id, RTI.id]
@[simp] theorem decorate_name (a : Arena) (t : RTI) : (decorate a t).name = (nd a t.id).name := by
  cases t; simp [decorate, Rose.name, RTI.id]
@[simp] theorem decorate_len (a : Arena) (t : RTI) : (decorate a t).len = (nd a t.id).pedge := by
  cases t; simp [decorate, Rose.len, RTI.id]
@[simp] theorem decorate_depth (a : Arena) (t : RTI) : (decorate a t).depth = (nd a t.id).depth := by
  cases t; simp [decorate, Rose.depth, RTI.id]
@[simp] theorem decorate_kids (a : Arena) (t : RTI) : (decorate a t).kids = t.kids.map (decorate a) := by
  cases t; simp [decorate, Rose.kids, RTI.kids, decorateL_eq_map]

/-! ### `absF` computes the decorated represented tree -/

mutual
theorem absF_rep (a : Arena) : ∀ (t : RTI) (f i : Nat), Rep a i t → height t ≤ f →
    absF f a i = some (decorate a t)
  | .node j ks, f, i, h, hf => by
    simp only [Rep] at h
    obtain ⟨rfl, hl, hk⟩ := h
    cases f with
    | zero => simp [height] at hf
    | succ f =>
      have h1 : isLive a i = true := (isLive_iff a i).2 hl
      have := absFL_rep a ks f (nd a i).children hk (by simp [height] at hf; omega)
      simp only [absF, h1, ↓reduceIte, this, Option.map_some, decorate]
theorem absFL_rep (a : Arena) : ∀ (ts : List RTI) (f : Nat) (cs : List Nat), RepL a cs ts → heightL ts ≤ f →
    cs.mapM (fun c => absF f a c) = some (decorateL a ts)
  | [], f, cs, h, _ => by
    cases cs with
    | nil => simp [decorateL]
    | cons c cs => simp [RepL] at h
  | t :: ts, f, cs, h, hf => by
    cases cs with
    | nil => simp [RepL] at h
    | cons c cs =>
      simp only [RepL] at h
      simp only [heightL] at hf
      have h1 := absF_rep a t f c h.1 (by omega)
      have h2 := absFL_rep a ts f cs h.2 (by omega)
      simp only [List.mapM_cons, h1, h2, decorateL]
      rfl
end

/-! ### sub-trees of an id tree, in pre-order -/

mutual
def subs : RTI → List RTI | .node i ks => .node i ks :: subsL ks
def subsL : List RTI → List RTI | [] => [] | k :: ks => subs k ++ subsL ks
end

theorem subsL_eq_flatMap : ∀ ks : List RTI, subsL ks = ks.flatMap subs
  | [] => rfl
  | k :: ks => by rw [subsL, subsL_eq_flatMap ks]; simp

theorem subs_eq (t : RTI) : subs t = t :: subsL t.kids := by cases t; simp [subs, RTI.kids]

mutual
theorem subs_ids : ∀ t : RTI, (subs t).map RTI.id = pre t
  | .node i ks => by simp only [subs, pre, List.map_cons, RTI.id, subsL_ids ks]
theorem subsL_ids : ∀ ts : List RTI, (subsL ts).map RTI.id = preL ts
  | [] => by simp [subsL, preL]
  | t :: ts => by simp only [subsL, preL, List.map_append, subs_ids t, subsL_ids ts]
end

theorem Rep.id_eq {a : Arena} {i : Nat} {t : RTI} (h : Rep a i t) : t.id = i := by
  cases t; simp only [Rep] at h; simp [RTI.id, h.1]
theorem Rep.is_live {a : Arena} {i : Nat} {t : RTI} (h : Rep a i t) : live a i := by
  cases t; simp only [Rep] at h; exact h.2.1
theorem Rep.kids_rep {a : Arena} {i : Nat} {t : RTI} (h : Rep a i t) : RepL a (nd a i).children t.kids := by
  cases t; simp only [Rep] at h; exact h.2.2

theorem repL_ids {a : Arena} : ∀ (ts : List RTI) (cs : List Nat), RepL a cs ts → ts.map RTI.id = cs
  | [], cs, h => by cases cs <;> simp_all [RepL]
  | t :: ts, cs, h => by
    cases cs with
    | nil => simp [RepL] at h
    | cons c cs =>
      simp only [RepL] at h
      simp [h.1.id_eq, repL_ids ts cs h.2]

theorem repL_mem {a : Arena} : ∀ (ts : List RTI) (cs : List Nat), RepL a cs ts → ∀ k ∈ ts, Rep a k.id k
  | [], _, _, k, hk => by simp at hk
  | t :: ts, cs, h, k, hk => by
    cases cs with
    | nil => simp [RepL] at h
    | cons c cs =>
      simp only [RepL] at h
      rcases List.mem_cons.mp hk with rfl | hk
      · rw [h.1.id_eq]; exact h.1
      · exact repL_mem ts cs h.2 k hk

/-- the child list of a represented slot is the list of ids of the kids -/
theorem Rep.kids_ids {a : Arena} {i : Nat} {t : RTI} (h : Rep a i t) : t.kids.map RTI.id = (nd a i).children :=
  repL_ids _ _ h.kids_rep

theorem Rep.kid {a : Arena} {i : Nat} {t : RTI} (h : Rep a i t) : ∀ k ∈ t.kids, Rep a k.id k :=
  repL_mem _ _ h.kids_rep

mutual
/-- every sub-tree of a represented tree is the represented tree of its own root slot -/
theorem subs_rep {a : Arena} : ∀ (t : RTI) (i : Nat), Rep a i t → ∀ s ∈ subs t, Rep a s.id s
  | .node j ks, i, h, s, hs => by
    simp only [subs, List.mem_cons] at hs
    rcases hs with rfl | hs
    · rw [h.id_eq]; exact h
    · exact subsL_rep ks _ h.kids_rep s hs
theorem subsL_rep {a : Arena} : ∀ (ts : List RTI) (cs : List Nat), RepL a cs ts → ∀ s ∈ subsL ts, Rep a s.id s
  | [], _, _, s, hs => by simp [subsL] at hs
  | t :: ts, cs, h, s, hs => by
    cases cs with
    | nil => simp [RepL] at h
    | cons c cs =>
      simp only [RepL] at h
      simp only [subsL, List.mem_append] at hs
      rcases hs with hs | hs
      · exact subs_rep t c h.1 s hs
      · exact subsL_rep ts cs h.2 s hs
end

/-! ### nodes of a `Rose`, in pre-order -/

mutual
def nodesR : Rose → List Rose | .node i n l d ks => .node i n l d ks :: nodesRL ks
def nodesRL : List Rose → List Rose | [] => [] | k :: ks => nodesR k ++ nodesRL ks
end

/-- ids of all nodes of a `Rose`, in pre-order -/
def idsR (t : Rose) : List Nat := (nodesR t).map Rose.id

mutual
theorem nodesR_decorate (a : Arena) : ∀ t : RTI, nodesR (decorate a t) = (subs t).map (decorate a)
  | .node i ks => by
    simp only [decorate, nodesR, subs, List.map_cons, nodesRL_decorate a ks]
theorem nodesRL_decorate (a : Arena) : ∀ ts : List RTI, nodesRL (decorateL a ts) = (subsL ts).map (decorate a)
  | [] => by simp [decorateL, nodesRL, subsL]
  | t :: ts => by
    simp only [decorateL, nodesRL, subsL, List.map_append, nodesR_decorate a t, nodesRL_decorate a ts]
end

theorem idsR_decorate (a : Arena) (t : RTI) : idsR (decorate a t) = pre t := by
  simp only [idsR, nodesR_decorate, List.map_map]
  rw [← subs_ids t]
  apply List.map_congr_left
  intro s _
  simp

/-- what a node of the abstraction of slot `i` looks like: its fields are the fields of its slot, and its
    kids are (in child order) the abstractions of the slot's children -/
theorem mem_nodesR_decorate {a : Arena} {t : RTI} {i : Nat} (h : Rep a i t) (s : Rose)
    (hs : s ∈ nodesR (decorate a t)) :
    ∃ s0, s0 ∈ subs t ∧ s = decorate a s0 ∧ Rep a s.id s0 ∧ live a s.id ∧
      s.name = (nd a s.id).name ∧ s.len = (nd a s.id).pedge ∧ s.depth = (nd a s.id).depth ∧
      s.kids.map Rose.id = (nd a s.id).children := by
  rw [nodesR_decorate, List.mem_map] at hs
  obtain ⟨s0, hs0, rfl⟩ := hs
  have hr := subs_rep t i h s0 hs0
  refine ⟨s0, hs0, rfl, by simpa using hr, by simpa using hr.is_live, by simp, by simp, by simp, ?_⟩
  simp only [decorate_kids, List.map_map, decorate_id]
  rw [← hr.kids_ids]
  apply List.map_congr_left
  intro k _
  simp

/-! ### totality -/

/-- **`absF` is total under the invariant**: a live slot abstracts, with the fuel the executable model
    supplies, to the decoration of the tree it represents; the ids of that tree are exactly the slots below
    `i`, each once -/
theorem absF_total {a : Arena} (hinv : Inv a) (i : Nat) (hl : live a i) :
    ∃ t0, Rep a i t0 ∧ absF (fuelOf a) a i = some (decorate a t0) ∧ (decorate a t0).id = i ∧
      (idsR (decorate a t0)).Nodup ∧ (∀ v, v ∈ idsR (decorate a t0) ↔ ∃ k, BelowK a i v k) := by
  obtain ⟨t0, ht, _, hh, _⟩ := rep_total hinv i hl
  refine ⟨t0, ht, absF_rep a t0 _ i ht hh, by simp [ht.id_eq], ?_, ?_⟩
  · rw [idsR_decorate]; exact pre_nodup hinv.toW t0 i ht
  · intro v; rw [idsR_decorate]; exact mem_pre_iff hinv.toW t0 i ht v

/-- the facts every refinement proof starts from -/
structure RootCtx (a : Arena) (t : Rose) (r : Nat) (t0 : RTI) : Prop where
  root_eq : getRoot a = some r
  is_root : isRoot a r
  rep : Rep a r t0
  dec : t = decorate a t0
  nodup : (pre t0).Nodup
  mem : ∀ v, v ∈ pre t0 ↔ live a v
  only_root : ∀ v, live a v → (nd a v).parent = none → v = r

theorem absRoot_ctx {a : Arena} (g : Good a) (h1 : AtMostOneRoot a) {t : Rose} (h : absRoot a = .ok t) :
    ∃ r t0, RootCtx a t r t0 := by
  unfold absRoot root at h
  cases hr : getRoot a with
  | none => simp [hr, QR.ofOpt] at h
  | some r =>
    have hfind := List.find?_some hr
    simp only [Bool.and_eq_true, Option.isNone_iff_eq_none] at hfind
    have hlr : live a r := (isLive_iff a r).1 hfind.1
    obtain ⟨r', hroot', hget, huniq, hall⟩ := one_tree g h1 r hlr
    have : r' = r := by rw [hr] at hget; cases hget; rfl
    subst this
    obtain ⟨t0, ht, _, hh, _⟩ := rep_total g.1 r' hlr
    have habs := absF_rep a t0 _ r' ht hh
    have ht' : t = decorate a t0 := by
      have h' : QR.ofOpt (absF (fuelOf a) a r') "NodeNotFound" = .ok t := by
        simpa [hr, QR.ofOpt] using h
      rw [habs] at h'
      simp only [QR.ofOpt, QR.ok.injEq] at h'
      exact h'.symm
    refine ⟨r', t0, hr, hroot', ht, ht', pre_nodup g.1.toW t0 r' ht, ?_, ?_⟩
    · intro v
      rw [mem_pre_iff g.1.toW t0 r' ht v]
      exact ⟨fun ⟨k, hb⟩ => hb.is_live, fun hv => hall v hv⟩
    · intro v hv hp
      exact huniq v ⟨hv, hp⟩

/-- **`absRoot` is total**: a well-formed arena with a live node and at most one root abstracts to a tree -/
theorem absRoot_total {a : Arena} (g : Good a) (h1 : AtMostOneRoot a) (x : Nat) (hl : live a x) :
    ∃ t, absRoot a = .ok t := by
  obtain ⟨r, hroot, hget, _, _⟩ := one_tree g h1 x hl
  obtain ⟨t0, ht, _, hh, _⟩ := rep_total g.1 r hroot.1
  refine ⟨decorate a t0, ?_⟩
  simp [absRoot, root, hget, QR.ofOpt, absF_rep a t0 _ r ht hh]

/-- the abstraction exists exactly when the arena holds a live node (an arena that is empty or whose nodes
    were all removed has no root: the executable queries then answer `RootNotFound`, resp. list nothing) -/
theorem absRoot_ok_iff_live {a : Arena} (g : Good a) (h1 : AtMostOneRoot a) :
    (∃ t, absRoot a = .ok t) ↔ ∃ x, live a x := by
  constructor
  · rintro ⟨t, h⟩
    obtain ⟨r, t0, c⟩ := absRoot_ctx g h1 h
    exact ⟨r, c.is_root.1⟩
  · rintro ⟨x, hx⟩
    exact absRoot_total g h1 x hx

/-- the abstraction lists exactly the live slots, each once: removed slots are not part of it -/
theorem absRoot_nodes {a : Arena} (g : Good a) (h1 : AtMostOneRoot a) {t : Rose} (h : absRoot a = .ok t) :
    (idsR t).Nodup ∧ ∀ v, v ∈ idsR t ↔ live a v := by
  obtain ⟨r, t0, c⟩ := absRoot_ctx g h1 h
  rw [c.dec, idsR_decorate]
  exact ⟨c.nodup, c.mem⟩

/-! ### scanning all slots = walking the tree -/

/-- the live slots in arena order are a permutation of the pre-order of the tree -/
theorem live_scan_perm {a : Arena} {t : Rose} {r : Nat} {t0 : RTI} (c : RootCtx a t r t0) :
    ((List.range a.size).filter (fun i => isLive a i)).Perm (pre t0) := by
  rw [List.perm_ext_iff_of_nodup (List.nodup_range.sublist List.filter_sublist) c.nodup]
  intro v
  rw [c.mem v, List.mem_filter, isLive_iff, List.mem_range]
  exact ⟨fun h => h.2, fun h => ⟨h.1, h⟩⟩

/-- generic scan lemma: a filter over all live slots is a permutation of the same filter over the tree -/
theorem scan_perm {a : Arena} {t : Rose} {r : Nat} {t0 : RTI} (c : RootCtx a t r t0) (p : Nat → Bool) :
    ((List.range a.size).filter (fun i => isLive a i && p i)).Perm ((pre t0).filter p) := by
  have := (live_scan_perm c).filter p
  rw [List.filter_filter] at this
  have e : (fun i => p i && isLive a i) = (fun i => isLive a i && p i) := by
    funext i; exact Bool.and_comm _ _
  rw [e] at this
  exact this

/-- a filter over ALL slots whose predicate fails on non-live slots -/
theorem scan_perm' {a : Arena} {t : Rose} {r : Nat} {t0 : RTI} (c : RootCtx a t r t0) (p : Nat → Bool)
    (hp : ∀ i, i < a.size → p i = true → isLive a i = true) :
    ((List.range a.size).filter p).Perm ((pre t0).filter p) := by
  have e : (List.range a.size).filter p = (List.range a.size).filter (fun i => isLive a i && p i) := by
    apply List.filter_congr
    intro i hi
    have hi' := List.mem_range.1 hi
    cases hpi : p i with
    | false => simp
    | true => simp [hp i hi' hpi]
  rw [e]
  exact scan_perm c p

/-- non-vacuity: the abstraction of the cherry `(1,2)0` -/
example : (match absRoot ((addChildNamed (addChildNamed (add #[] none).1 0 (some 3) none).1 0 (some 4) none).1) with
    | .ok t => idsR t == [0, 1, 2] | _ => false) = true := by decide

end AR
