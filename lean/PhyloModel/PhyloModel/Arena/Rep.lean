import PhyloModel.Arena.Below
/-! Scratch prototype: the abstraction relation `Rep` (arena slot represents a rose tree), existence and
    uniqueness under `Inv`, and a traversal computed through it -/
namespace AR

inductive RTI where | node (id : Nat) (kids : List RTI)

mutual
def Rep (a : Arena) : Nat → RTI → Prop
  | i, .node j kids => i = j ∧ live a i ∧ RepL a (nd a i).children kids
def RepL (a : Arena) : List Nat → List RTI → Prop
  | [], [] => True
  | c :: cs, k :: ks => Rep a c k ∧ RepL a cs ks
  | [], _ :: _ => False
  | _ :: _, [] => False
end

theorem repL_exists (a : Arena) : ∀ cs : List Nat, (∀ c ∈ cs, ∃ t, Rep a c t) → ∃ ts, RepL a cs ts
  | [], _ => ⟨[], by simp [RepL]⟩
  | c :: cs, h => by
    obtain ⟨t, ht⟩ := h c (by simp)
    obtain ⟨ts, hts⟩ := repL_exists a cs (fun c' hc' => h c' (by simp [hc']))
    exact ⟨t :: ts, by simp [RepL, ht, hts]⟩

/-- under the invariant every live slot represents some rose tree (the abstraction is total) -/
theorem rep_exists (a : Arena) (hinv : Inv a) (D : Nat) (hD : ∀ i, live a i → (nd a i).depth ≤ D) :
    ∀ (n i : Nat), live a i → D - (nd a i).depth ≤ n → ∃ t, Rep a i t := by
  intro n
  induction n with
  | zero =>
    intro i hl hn
    have hdi := hD i hl
    have hch : (nd a i).children = [] := by
      cases h : (nd a i).children with
      | nil => rfl
      | cons c cs =>
        obtain ⟨hlc, _, hdc, _⟩ := hinv.child_ok i c hl (by simp [h])
        have := hD c hlc; omega
    exact ⟨.node i [], by simp [Rep, hl, hch, RepL]⟩
  | succ n ih =>
    intro i hl hn
    have : ∀ c ∈ (nd a i).children, ∃ t, Rep a c t := by
      intro c hc
      obtain ⟨hlc, _, hdc, _⟩ := hinv.child_ok i c hl hc
      have := hD c hlc
      exact ih c hlc (by omega)
    obtain ⟨ts, hts⟩ := repL_exists a _ this
    exact ⟨.node i ts, by simp [Rep, hl, hts]⟩

mutual
theorem rep_unique (a : Arena) : ∀ (t t' : RTI) (i : Nat), Rep a i t → Rep a i t' → t = t'
  | .node j ks, .node j' ks', i, h, h' => by
    simp only [Rep] at h h'
    obtain ⟨rfl, _, hk⟩ := h
    obtain ⟨rfl, _, hk'⟩ := h'
    rw [repL_unique a ks ks' _ hk hk']
theorem repL_unique (a : Arena) : ∀ (ts ts' : List RTI) (cs : List Nat), RepL a cs ts → RepL a cs ts' → ts = ts'
  | [], [], _, _, _ => rfl
  | [], _ :: _, cs, h, h' => by cases cs <;> simp [RepL] at h h'
  | _ :: _, [], cs, h, h' => by cases cs <;> simp [RepL] at h h'
  | t :: ts, t' :: ts', cs, h, h' => by
    cases cs with
    | nil => simp [RepL] at h
    | cons c cs =>
      simp only [RepL] at h h'
      rw [rep_unique a t t' c h.1 h'.1, repL_unique a ts ts' cs h.2 h'.2]
end

/-! a traversal on both sides -/
mutual
def pre : RTI → List Nat | .node i ks => i :: preL ks
def preL : List RTI → List Nat | [] => [] | k :: ks => pre k ++ preL ks
end
mutual
def height : RTI → Nat | .node _ ks => 1 + heightL ks
def heightL : List RTI → Nat | [] => 0 | k :: ks => max (height k) (heightL ks)
end

/-- `Tree::preorder` with fuel -/
def preorderF : Nat → Arena → Nat → Option (List Nat)
  | 0, _, _ => none
  | f + 1, a, x =>
    if x < a.size ∧ (nd a x).deleted = false then
      (nd a x).children.foldlM (fun acc c => (preorderF f a c).map (fun l => acc ++ l)) [x]
    else none

mutual
theorem preorder_rep (a : Arena) : ∀ (t : RTI) (f i : Nat), Rep a i t → height t ≤ f →
    preorderF f a i = some (pre t)
  | .node j ks, f, i, h, hf => by
    simp only [Rep] at h
    obtain ⟨rfl, hl, hk⟩ := h
    cases f with
    | zero => simp [height] at hf
    | succ f =>
      have h1 : i < a.size ∧ (nd a i).deleted = false := hl
      simp only [preorderF, h1, and_self, ↓reduceIte, pre]
      have := preorderL_rep a ks f (nd a i).children [i] hk (by simp [height] at hf; omega)
      rw [this]; simp
theorem preorderL_rep (a : Arena) : ∀ (ts : List RTI) (f : Nat) (cs acc : List Nat), RepL a cs ts → heightL ts ≤ f →
    cs.foldlM (fun acc c => (preorderF f a c).map (fun l => acc ++ l)) acc = some (acc ++ preL ts)
  | [], f, cs, acc, h, _ => by
    cases cs with
    | nil => simp [preL]
    | cons c cs => simp [RepL] at h
  | t :: ts, f, cs, acc, h, hf => by
    cases cs with
    | nil => simp [RepL] at h
    | cons c cs =>
      simp only [RepL] at h
      simp only [heightL] at hf
      have h1 := preorder_rep a t f c h.1 (by omega)
      have h2 := preorderL_rep a ts f cs (acc ++ pre t) h.2 (by omega)
      simp only [List.foldlM_cons, h1, Option.map_some, Option.bind_eq_bind, Option.bind_some, h2, preL,
        List.append_assoc]
end

end AR
