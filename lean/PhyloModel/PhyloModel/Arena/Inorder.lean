import PhyloModel.Arena.RepFacts
import PhyloModel.Arena.QRLemmas
/-! In-order: the arena recursion computes the rose-level in-order of the represented tree — left subtree,
    node, right subtree (a single child counts as a left child); a node with more than two children
    anywhere in the subtree is refused. -/
namespace AR

/-- rose-level in-order; `none` when a node with more than two children is met -/
def ino : RTI → Option (List Nat)
  | .node i [] => some [i]
  | .node i [l] => (ino l).map (· ++ [i])
  | .node i [l, r] => (ino l).bind fun a => (ino r).map fun b => a ++ [i] ++ b
  | .node _ (_ :: _ :: _ :: _) => none

def inoQ (t : RTI) : QR (List Nat) :=
  match ino t with
  | some l => .ok l
  | none => .err "IsNotBinary"

theorem repL_one {a : Arena} {cs : List Nat} {k : RTI} (h : RepL a cs [k]) : ∃ c, cs = [c] ∧ Rep a c k := by
  cases cs with
  | nil => simp [RepL] at h
  | cons c cs =>
    cases cs with
    | nil => simp only [RepL] at h; exact ⟨c, rfl, h.1⟩
    | cons c' cs => simp [RepL] at h

theorem repL_two {a : Arena} {cs : List Nat} {k1 k2 : RTI} (h : RepL a cs [k1, k2]) :
    ∃ c1 c2, cs = [c1, c2] ∧ Rep a c1 k1 ∧ Rep a c2 k2 := by
  cases cs with
  | nil => simp [RepL] at h
  | cons c cs =>
    simp only [RepL] at h
    obtain ⟨c2, rfl, h2⟩ := repL_one h.2
    exact ⟨c, c2, rfl, h.1, h2⟩

theorem repL_len {a : Arena} : ∀ {cs : List Nat} {ks : List RTI}, RepL a cs ks → cs.length = ks.length
  | [], [], _ => rfl
  | [], _ :: _, h => by simp [RepL] at h
  | _ :: _, [], h => by simp [RepL] at h
  | _ :: cs, _ :: ks, h => by simp only [RepL] at h; simp [repL_len h.2]

/-- the arena in-order is the rose-level in-order of the represented tree -/
theorem inorder_rep (a : Arena) : ∀ (f : Nat) (t : RTI) (i : Nat), Rep a i t → height t ≤ f →
    inorderF f a i = some (inoQ t) := by
  intro f
  induction f with
  | zero => intro t i _ hf; cases t; simp [height] at hf
  | succ f ih =>
    intro t i h hf
    cases t with
    | node j ks =>
      simp only [Rep] at h
      obtain ⟨rfl, hl, hk⟩ := h
      have hlive : isLive a i = true := (isLive_iff a i).2 hl
      rw [inorderF]
      simp only [hlive, Bool.not_true, Bool.false_eq_true, ↓reduceIte]
      match ks, hk, hf with
      | [], hk, _ =>
        have : (nd a i).children = [] := by
          cases hc : (nd a i).children with
          | nil => rfl
          | cons c cs => rw [hc] at hk; simp [RepL] at hk
        simp [this, inoQ, ino]
      | [l], hk, hf =>
        obtain ⟨c, hc, hr⟩ := repL_one hk
        have hh : height l ≤ f := by simp [height, heightL] at hf; omega
        simp only [hc, ih l c hr hh, Option.map_some]
        simp only [inoQ, ino]
        cases ino l <;> simp
      | [l, r], hk, hf =>
        obtain ⟨c1, c2, hc, hr1, hr2⟩ := repL_two hk
        have hh1 : height l ≤ f := by simp [height, heightL] at hf; omega
        have hh2 : height r ≤ f := by simp [height, heightL] at hf; omega
        simp only [hc, ih l c1 hr1 hh1, ih r c2 hr2 hh2]
        simp only [inoQ, ino]
        cases ino l <;> cases ino r <;> simp
      | k1 :: k2 :: k3 :: ks, hk, _ =>
        have hlen := repL_len hk
        cases hc : (nd a i).children with
        | nil => rw [hc] at hlen; simp at hlen
        | cons x1 xs =>
          cases xs with
          | nil => rw [hc] at hlen; simp at hlen
          | cons x2 xs =>
            cases xs with
            | nil => rw [hc] at hlen; simp at hlen
            | cons x3 xs => simp [inoQ, ino]

/-- in-order lists exactly the nodes of the represented tree -/
theorem ino_perm : ∀ (t : RTI) (l : List Nat), ino t = some l → l.Perm (pre t)
  | .node i [], l, h => by simp [ino] at h; subst h; simp [pre, preL]
  | .node i [k], l, h => by
    simp only [ino, Option.map_eq_some_iff] at h
    obtain ⟨l1, h1, rfl⟩ := h
    have := ino_perm k l1 h1
    simp only [pre, preL, List.append_nil]
    exact (List.perm_append_comm).trans (List.Perm.cons i this)
  | .node i [k1, k2], l, h => by
    simp only [ino, Option.bind_eq_some_iff, Option.map_eq_some_iff] at h
    obtain ⟨l1, h1, l2, h2, rfl⟩ := h
    have p1 := ino_perm k1 l1 h1
    have p2 := ino_perm k2 l2 h2
    simp only [pre, preL, List.append_nil]
    have : (l1 ++ [i] ++ l2).Perm (i :: (l1 ++ l2)) := by
      rw [List.append_assoc]
      exact (List.perm_middle).trans (List.Perm.refl _)
    exact this.trans (List.Perm.cons i (p1.append p2))
  | .node _ (_ :: _ :: _ :: _), l, h => by simp [ino] at h

/-- closed form under the invariant -/
theorem inorder_closed {a : Arena} (hinv : Inv a) (i : Nat) (hl : live a i) :
    ∃ t, Rep a i t ∧ inorder a i = inoQ t := by
  obtain ⟨t, ht, _, hh, _⟩ := rep_total hinv i hl
  refine ⟨t, ht, ?_⟩
  unfold inorder
  rw [inorder_rep a _ t i ht hh]

end AR
