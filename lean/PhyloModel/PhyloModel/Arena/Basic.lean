/-! feasibility probe 3: arena invariant under add_child -/
namespace AR

/-- assoc-list map for child edges -/
def alGet : List (Nat × Int) → Nat → Option Int
  | [], _ => none
  | (k, v) :: xs, c => if k = c then some v else alGet xs c
def alErase : List (Nat × Int) → Nat → List (Nat × Int)
  | [], _ => []
  | (k, v) :: xs, c => if k = c then alErase xs c else (k, v) :: alErase xs c
def alSet (l : List (Nat × Int)) (c : Nat) (v : Int) : List (Nat × Int) := (c, v) :: alErase l c

theorem alGet_erase (l : List (Nat × Int)) (c d : Nat) :
    alGet (alErase l c) d = if d = c then none else alGet l d := by
  induction l with
  | nil => simp [alGet, alErase]
  | cons x xs ih =>
    obtain ⟨k, v⟩ := x
    simp only [alGet, alErase]
    grind [alGet]

theorem alGet_set (l : List (Nat × Int)) (c d : Nat) (v : Int) :
    alGet (alSet l c v) d = if d = c then some v else alGet l d := by
  simp only [alSet, alGet, alGet_erase]
  grind

structure Node where
  parent : Option Nat := none
  children : List Nat := []
  pedge : Option Int := none
  cedges : List (Nat × Int) := []
  depth : Nat := 0
  deleted : Bool := false
  name : Option String := none      -- payload: never read by the structural operations
  comment : Option String := none   -- payload
deriving Repr, Inhabited

abbrev Arena := Array Node

def dead : Node := { deleted := true }
/-- total accessor: out-of-range slots read as tombstones -/
def nd (a : Arena) (i : Nat) : Node := a.getD i dead
def live (a : Arena) (i : Nat) : Prop := i < a.size ∧ (nd a i).deleted = false

def setCedge (n : Node) (c : Nat) (e : Option Int) : Node :=
  match e with
  | some v => { n with cedges := alSet n.cedges c v }
  | none => n

/-- `Tree::add_child` -/
def addChild (a : Arena) (p : Nat) (e : Option Int) : Option (Arena × Nat) :=
  if p < a.size ∧ (nd a p).deleted = false then
    let id := a.size
    let child : Node := { parent := some p, pedge := e, depth := (nd a p).depth + 1 }
    let pn := nd a p
    let pn' := setCedge { pn with children := pn.children ++ [id] } id e
    some ((a.setIfInBounds p pn').push child, id)
  else none

structure Inv (a : Arena) : Prop where
  child_ok : ∀ i c, live a i → c ∈ (nd a i).children →
      live a c ∧ (nd a c).parent = some i ∧ (nd a c).depth = (nd a i).depth + 1
        ∧ alGet (nd a i).cedges c = (nd a c).pedge
  parent_ok : ∀ i p, live a i → (nd a i).parent = some p → live a p ∧ i ∈ (nd a p).children
  nodup : ∀ i, (nd a i).children.Nodup
  root_depth : ∀ i, live a i → (nd a i).parent = none → (nd a i).depth = 0
  cedge_dom : ∀ i c, (alGet (nd a i).cedges c).isSome → c ∈ (nd a i).children

@[simp] theorem setCedge_children (n : Node) (c : Nat) (e : Option Int) : (setCedge n c e).children = n.children := by
  cases e <;> simp [setCedge]
@[simp] theorem setCedge_deleted (n : Node) (c : Nat) (e : Option Int) : (setCedge n c e).deleted = n.deleted := by
  cases e <;> simp [setCedge]
@[simp] theorem setCedge_parent (n : Node) (c : Nat) (e : Option Int) : (setCedge n c e).parent = n.parent := by
  cases e <;> simp [setCedge]
@[simp] theorem setCedge_depth (n : Node) (c : Nat) (e : Option Int) : (setCedge n c e).depth = n.depth := by
  cases e <;> simp [setCedge]
@[simp] theorem setCedge_pedge (n : Node) (c : Nat) (e : Option Int) : (setCedge n c e).pedge = n.pedge := by
  cases e <;> simp [setCedge]
theorem setCedge_get (n : Node) (c d : Nat) (e : Option Int) :
    alGet (setCedge n c e).cedges d = if d = c then (e <|> alGet n.cedges c) else alGet n.cedges d := by
  cases e with
  | none => by_cases h : d = c <;> simp [setCedge, h]
  | some v => simp [setCedge, alGet_set]

theorem nd_push (a : Arena) (x : Node) (i : Nat) :
    nd (a.push x) i = if i = a.size then x else nd a i := by
  simp only [nd, Array.getD_eq_getD_getElem?, Array.getElem?_push]
  grind

theorem nd_set (a : Arena) (p : Nat) (x : Node) (i : Nat) :
    nd (a.setIfInBounds p x) i = if i = p ∧ p < a.size then x else nd a i := by
  simp only [nd, Array.getD_eq_getD_getElem?, Array.getElem?_setIfInBounds]
  grind

theorem nd_dead (a : Arena) (i : Nat) (h : a.size ≤ i) : nd a i = dead := by
  simp [nd, Array.getD_eq_getD_getElem?, Array.getElem?_eq_none h]

theorem addChild_inv (a : Arena) (p : Nat) (e : Option Int) (a' : Arena) (id : Nat)
    (hinv : Inv a) (h : addChild a p e = some (a', id)) : Inv a' ∧ id = a.size ∧ a'.size = a.size + 1 := by
  unfold addChild at h
  split at h
  next hp =>
    simp at h
    obtain ⟨ha, hid⟩ := h
    subst ha hid
    have hlp : live a p := hp
    have hfresh : a.size ∉ (nd a p).children := fun hm => by
      have := (hinv.child_ok p _ hlp hm).1.1; omega
    have hnoedge : alGet (nd a p).cedges a.size = none := by
      cases hc : alGet (nd a p).cedges a.size with
      | none => rfl
      | some v => exact absurd (hinv.cedge_dom p a.size (by simp [hc])) hfresh
    have hdeadch : (nd a a.size).children = [] := by simp [nd_dead a a.size (Nat.le_refl _), dead]
    refine ⟨?_, rfl, by simp⟩
    have hc := hinv.child_ok
    have hpo := hinv.parent_ok
    have hnd := hinv.nodup
    have hrd := hinv.root_depth
    have hcd := hinv.cedge_dom
    constructor
    · intro i c hl hmem
      simp only [live, nd_push, nd_set, Array.size_push, Array.size_setIfInBounds] at hl hmem ⊢
      have := hc i c
      have := hc p c
      simp only [live] at *
      grind [setCedge_get, setCedge_children, setCedge_deleted, setCedge_parent, setCedge_depth, setCedge_pedge]
    · intro i q hl hpar
      simp only [live, nd_push, nd_set, Array.size_push, Array.size_setIfInBounds] at hl hpar ⊢
      have := hpo i q
      simp only [live] at *
      grind [setCedge_get, setCedge_children, setCedge_deleted, setCedge_parent, setCedge_depth, setCedge_pedge]
    · intro i
      simp only [nd_push, nd_set]
      have := hnd i
      have := hnd p
      grind [setCedge_children, List.nodup_append, dead]
    · intro i hl hpar
      simp only [live, nd_push, nd_set, Array.size_push, Array.size_setIfInBounds] at hl hpar ⊢
      have := hrd i
      simp only [live] at *
      grind [setCedge_get, setCedge_children, setCedge_deleted, setCedge_parent, setCedge_depth, setCedge_pedge]
    · intro i c hs
      simp only [nd_push, nd_set] at hs ⊢
      have := hcd i c
      have := hcd p c
      grind [setCedge_get, setCedge_children, alGet]
  · simp at h

end AR
