import PhyloModel.Arena.OpsInv
/-! "The live nodes form exactly one rooted tree": no editing operation creates a second parentless live
    node, and under the invariant every live node descends from a parentless live node.  Only `add`
    (a fresh parentless node) can create a root; histories that call it on an arena without a live root
    (the way every constructor of the crate does) keep at most one root for ever. -/
namespace AR

def isRoot (a : Arena) (i : Nat) : Prop := live a i ∧ (nd a i).parent = none
def AtMostOneRoot (a : Arena) : Prop := ∀ i j, isRoot a i → isRoot a j → i = j
/-- every root of `b` was already a root of `a` -/
def RootsSub (a b : Arena) : Prop := ∀ i, isRoot b i → isRoot a i

theorem RootsSub.refl (a : Arena) : RootsSub a a := fun _ h => h
theorem RootsSub.trans {a b c : Arena} (h1 : RootsSub a b) (h2 : RootsSub b c) : RootsSub a c :=
  fun i h => h1 i (h2 i h)
theorem RootsSub.atMostOne {a b : Arena} (h : RootsSub a b) (h1 : AtMostOneRoot a) : AtMostOneRoot b :=
  fun i j hi hj => h1 i j (h i hi) (h j hj)

theorem SameButDepth.roots {a b : Arena} (h : SameButDepth a b) : RootsSub a b := by
  intro i ⟨hl, hp⟩
  obtain ⟨p1, _, _, _, p5⟩ := h.2 i
  exact ⟨⟨by rw [← h.1]; exact hl.1, by rw [← p5]; exact hl.2⟩, by rw [← p1]; exact hp⟩

theorem SameStruct.roots {a b : Arena} (h : SameStruct a b) : RootsSub a b := by
  intro i ⟨hl, hp⟩
  obtain ⟨p1, _, _, _, p5, _⟩ := h.2 i
  exact ⟨⟨by rw [← h.1]; exact hl.1, by rw [← p5]; exact hl.2⟩, by rw [← p1]; exact hp⟩

/-- under the structural invariant every live node descends from a parentless live node -/
theorem root_above {a : Arena} {r : Nat → Nat} (w : W a r) :
    ∀ (n x : Nat), live a x → r x ≤ n → ∃ t k, isRoot a t ∧ BelowK a t x k := by
  intro n
  induction n with
  | zero =>
    intro x hl hr
    cases hp : (nd a x).parent with
    | none => exact ⟨x, 0, ⟨hl, hp⟩, BelowK.refl hl⟩
    | some p =>
      obtain ⟨hlp, hmem⟩ := w.parent_ok x p hl hp
      have := (w.child_ok p x hlp hmem).2.2; omega
  | succ n ih =>
    intro x hl hr
    cases hp : (nd a x).parent with
    | none => exact ⟨x, 0, ⟨hl, hp⟩, BelowK.refl hl⟩
    | some p =>
      obtain ⟨hlp, hmem⟩ := w.parent_ok x p hl hp
      have := (w.child_ok p x hlp hmem).2.2
      obtain ⟨t, k, ht, hb⟩ := ih p hlp (by omega)
      exact ⟨t, k + 1, ht, BelowK.step hb hl hp⟩

/-- the live nodes of a well-formed arena with at most one root form exactly one rooted tree: there is
    one parentless live node, `get_root` returns it, and every live node lies below it -/
theorem one_tree {a : Arena} (g : Good a) (h1 : AtMostOneRoot a) (x : Nat) (hl : live a x) :
    ∃ t, isRoot a t ∧ getRoot a = some t ∧ (∀ t', isRoot a t' → t' = t) ∧ ∀ y, live a y → ∃ k, BelowK a t y k := by
  obtain ⟨t, _, ht, _⟩ := root_above g.1.toW _ x hl (Nat.le_refl _)
  refine ⟨t, ht, ?_, fun t' h' => h1 t' t h' ht, ?_⟩
  · unfold getRoot
    have hpt : (fun i => isLive a i && (nd a i).parent.isNone) t = true := by
      simp [(isLive_iff a t).2 ht.1, ht.2]
    cases hf : (List.range a.size).find? (fun i => isLive a i && (nd a i).parent.isNone) with
    | none =>
      rw [List.find?_eq_none] at hf
      exact absurd hpt (hf t (List.mem_range.2 ht.1.1))
    | some t' =>
      have := List.find?_some hf
      simp only [Bool.and_eq_true, Option.isNone_iff_eq_none] at this
      rw [h1 t' t ⟨(isLive_iff a t').1 this.1, this.2⟩ ht]
  · intro y hy
    obtain ⟨t', k, ht', hb⟩ := root_above g.1.toW _ y hy (Nat.le_refl _)
    rw [h1 t' t ht' ht] at hb
    exact ⟨k, hb⟩

/-! ### no operation but `add` creates a root -/

theorem addChildNamed_roots {a : Arena} (p : Nat) (e : Option Int) (name : Option String) :
    RootsSub a (addChildNamed a p e name).1 := by
  unfold addChildNamed
  split
  next a' id h =>
    apply RootsSub.trans _ (setName_same a' id name).roots
    unfold addChild at h
    split at h
    next hp =>
      simp at h
      obtain ⟨ha, _⟩ := h
      subst ha
      intro i ⟨hl, hpar⟩
      simp only [live, nd_push, nd_set, Array.size_push, Array.size_setIfInBounds] at hl hpar
      simp only [isRoot, live]
      grind [setCedge_deleted, setCedge_parent]
    · simp at h
  next => exact RootsSub.refl a

theorem prune_roots {a : Arena} (x : Nat) (g : Good a) : RootsSub a (prune a x).1 := by
  unfold prune
  split
  next hx =>
    have hl := (isLive_iff a x).1 hx
    obtain ⟨a1, h1, ok⟩ := prune_main2 (fuelOf a) a.size a x g.1 g.2 hl (depth_le_size g.1)
      (by simp only [fuelOf]; omega)
    simp only [h1]
    intro i ⟨hli, hp⟩
    refine ⟨ok.sub i hli, ?_⟩
    by_cases hc : (nd a x).parent = some i
    · rw [ok.par i hc] at hp; simpa [removeChild] using hp
    · rw [ok.same i hli hc] at hp; exact hp
  next => exact RootsSub.refl a

theorem splice_roots (a : Arena) (v p c : Nat) (e : Option Int) (hlv : live a v) (hlp : live a p) (hlc : live a c)
    (hpc : p ≠ c) (hvc : v ≠ c) (hvp : v ≠ p) : RootsSub a (splice a v p c e) := by
  intro i ⟨hl, hp⟩
  have hsz : (splice a v p c e).size = a.size := by simp [splice]
  simp only [live, hsz] at hl
  rw [nd_splice a v p c e hlv.1 hlp.1 hlc.1 hpc hvc hvp] at hl hp
  by_cases h1 : i = v
  · simp [h1, dead] at hl
  · by_cases h2 : i = p
    · subst h2; simp [h1, removeChild] at hp; exact ⟨hlp, hp⟩
    · by_cases h3 : i = c
      · subst h3; simp [h1, h2] at hp
      · simp only [h1, h2, h3, ↓reduceIte] at hl hp; exact ⟨hl, hp⟩

theorem compressNode_roots {a : Arena} (v : Nat) (g : Good a) : RootsSub a (compressNode a v).1 := by
  unfold compressNode
  split
  · exact RootsSub.refl a
  next hv =>
    have hlv : live a v := (isLive_iff a v).1 (by simpa using hv)
    split
    next p c hpar hch =>
      split
      · exact RootsSub.refl a
      next e _ =>
        split
        · exact RootsSub.refl a
        · obtain ⟨a2, h2, _⟩ := compress_core v p c e g hlv hpar hch
          simp only [h2]
          have hinv := g.1
          have hc := hinv.child_ok; have hpo := hinv.parent_ok
          obtain ⟨hlp, hvmem⟩ := hpo v p hlv hpar
          obtain ⟨hlc, _, hcdep, _⟩ := hc v c hlv (by simp [hch])
          have hvdep := (hc p v hlp hvmem).2.2.1
          have hvc : v ≠ c := by intro h; subst h; omega
          have hvp : v ≠ p := by intro h; subst h; omega
          have hpc : p ≠ c := by intro h; subst h; omega
          exact (splice_roots a v p c e hlv hlp hlc hpc hvc hvp).trans (resetF_same _ _ _ _ _ h2).roots
    · exact RootsSub.refl a

theorem compressLoop_roots : ∀ (vs : List Nat) {a : Arena}, Good a → RootsSub a (compressLoop vs a).1
  | [], a, _ => by simp [compressLoop]; exact RootsSub.refl a
  | v :: vs, a, g => by
    have h := compressNode_good v g
    have hr := compressNode_roots v g
    unfold compressLoop
    split
    next a' _ heq => rw [heq] at h hr; exact hr.trans (compressLoop_roots vs h.1)
    next r hne => exact hr

theorem rescale_roots (a : Arena) (k : Int) : RootsSub a (rescale a k) := by
  have hn : ∀ i, nd (rescale a k) i = scaleNode k (nd a i) := nd_map a _ (scaleNode_dead k)
  have hsz : (rescale a k).size = a.size := by simp [rescale]
  intro i ⟨hl, hp⟩
  simp only [live, hsz, hn] at hl
  rw [hn] at hp
  exact ⟨⟨hl.1, by simpa [scaleNode] using hl.2⟩, by simpa [scaleNode] using hp⟩

theorem group_roots (a : Arena) (q c1 c2 : Nat) (pe e1 e2 : Option Int) (hlq : live a q) (hl1 : live a c1)
    (hl2 : live a c2) (hq1 : q ≠ c1) (hq2 : q ≠ c2) (h12 : c1 ≠ c2) : RootsSub a (group a q c1 c2 pe e1 e2) := by
  intro i ⟨hl, hp⟩
  have hsz : (group a q c1 c2 pe e1 e2).size = a.size + 1 := by simp [group]
  simp only [live, hsz] at hl
  rw [nd_group a q c1 c2 pe e1 e2 hlq.1 hl1.1 hl2.1 hq1 hq2 h12] at hl hp
  by_cases h0 : i = a.size
  · subst h0; simp [wNode] at hp
  · by_cases h1 : i = q
    · subst h1; simp [h0, qNode, removeChild] at hp; exact ⟨hlq, hp⟩
    · by_cases h2 : i = c1
      · subst h2; simp [h0, h1] at hp
      · by_cases h3 : i = c2
        · subst h3; simp [h0, h1, h2] at hp
        · simp only [h0, h1, h2, h3, ↓reduceIte] at hl hp
          exact ⟨⟨by omega, hl.2⟩, hp⟩

/-- regrouping under `q` and the two repairs create no root -/
theorem group_core_roots {a : Arena} (q c1 c2 : Nat) (pe e1 e2 : Option Int) (g : Good a) (hlq : live a q)
    (hm1 : c1 ∈ (nd a q).children) (hm2 : c2 ∈ (nd a q).children) (h12 : c1 ≠ c2) (f : Nat) (d : Nat)
    (b1 b2 : Arena) (r1 : resetF f (group a q c1 c2 pe e1 e2) c1 d = some b1) (r2 : resetF f b1 c2 d = some b2) :
    RootsSub a b2 := by
  have hc := g.1.child_ok
  obtain ⟨hl1, _, hd1, _⟩ := hc q c1 hlq hm1
  obtain ⟨hl2, _, hd2, _⟩ := hc q c2 hlq hm2
  have hq1 : q ≠ c1 := by intro h; subst h; omega
  have hq2 : q ≠ c2 := by intro h; subst h; omega
  exact (group_roots a q c1 c2 pe e1 e2 hlq hl1 hl2 hq1 hq2 h12).trans
    ((resetF_same _ _ _ _ _ r1).trans (resetF_same _ _ _ _ _ r2)).roots

theorem mergeChildren_roots {a : Arena} (c1 c2 : Nat) (e1 e2 pe : Option Int) (name : Option String) (g : Good a)
    (h1r : AtMostOneRoot a) : RootsSub a (mergeChildren a c1 c2 e1 e2 pe name).1 := by
  unfold mergeChildren
  split
  · exact RootsSub.refl a
  next h1 =>
  split
  · exact RootsSub.refl a
  next h2 =>
  split
  · exact RootsSub.refl a
  next h3 =>
  have hl1 : live a c1 := (isLive_iff a c1).1 (by simpa using h1)
  have hl2 : live a c2 := (isLive_iff a c2).1 (by simpa using h2)
  have h12 : c1 ≠ c2 := fun h => h3 (Or.inl h)
  have hpp : (nd a c1).parent = (nd a c2).parent := by
    by_cases h : (nd a c1).parent = (nd a c2).parent
    · exact h
    · exact absurd (Or.inr h) h3
  cases hp : (nd a c1).parent with
  | none =>
    have hr2 : (nd a c2).parent = none := by rw [← hpp, hp]
    exact absurd (h1r c1 c2 ⟨hl1, hp⟩ ⟨hl2, hr2⟩) h12
  | some q =>
    have hp2 : (nd a c2).parent = some q := by rw [← hpp, hp]
    obtain ⟨hlq, hm1⟩ := g.1.parent_ok c1 q hl1 hp
    obtain ⟨_, hm2⟩ := g.1.parent_ok c2 q hl2 hp2
    have hq : isLive a q = true := (isLive_iff a q).2 hlq
    obtain ⟨b1, b2, r1, r2, _⟩ := group_core q c1 c2 pe e1 e2 g hlq hm1 hm2 h12
    simp only [hq, ↓reduceIte, r1, r2]
    exact (group_core_roots q c1 c2 pe e1 e2 g hlq hm1 hm2 h12 _ _ b1 b2 r1 r2).trans (setName_same _ _ _).roots

theorem resolveRound_roots {a a' : Arena} (q x y : Nat) (g : Good a) (h : resolveRound a q x y = some a') :
    RootsSub a a' := by
  unfold resolveRound at h
  split at h
  next hc =>
    simp only [Bool.and_eq_true, decide_eq_true_eq, List.contains_iff_mem] at hc
    obtain ⟨⟨⟨⟨⟨hq, hxy⟩, hmx⟩, hmy⟩, _⟩, _⟩ := hc
    have hlq := (isLive_iff a q).1 hq
    obtain ⟨b1, b2, r1, r2, _⟩ := group_core q x y (some 0) (nd a x).pedge (nd a y).pedge g hlq hmx hmy hxy
    simp only [r1] at h
    rw [r2] at h
    cases h
    exact group_core_roots q x y _ _ _ g hlq hmx hmy hxy _ _ b1 a' r1 r2
  · cases h

theorem resolveNode_roots : ∀ (f : Nat) {a : Arena} (q : Nat) (picks : List (Nat × Nat)) {a' : Arena}
    {rest : List (Nat × Nat)}, Good a → resolveNode f a q picks = some (a', rest) → RootsSub a a'
  | 0, _, _, _, _, _, _, h => by simp [resolveNode] at h
  | f + 1, a, q, picks, a', rest, g, h => by
    unfold resolveNode at h
    split at h
    · cases h
    next x y rest' =>
      split at h
      · cases h
      next a1 hr =>
        have g1 := resolveRound_good q x y g hr
        have s1 := resolveRound_roots q x y g hr
        simp only at h
        split at h
        · cases h; exact s1
        · exact s1.trans (resolveNode_roots f q rest' g1 h)

theorem resolveLoop_roots : ∀ (qs : List Nat) {a : Arena} (picks : List (Nat × Nat)) {a' : Arena}
    {rest : List (Nat × Nat)}, Good a → resolveLoop qs a picks = some (a', rest) → RootsSub a a'
  | [], a, picks, a', rest, _, h => by simp [resolveLoop] at h; obtain ⟨rfl, _⟩ := h; exact RootsSub.refl _
  | q :: qs, a, picks, a', rest, g, h => by
    unfold resolveLoop at h
    split at h
    · cases h
    next a1 rest1 hn =>
      exact (resolveNode_roots _ q picks g hn).trans
        (resolveLoop_roots qs rest1 (resolveNode_good _ q picks g hn) h)

theorem resolve_roots {a a' : Arena} (picks : List (Nat × Nat)) (g : Good a) (h : resolve a picks = some a') :
    RootsSub a a' := by
  unfold resolve at h
  split at h
  next a1 hl => cases h; exact resolveLoop_roots _ picks g hl
  · cases h

theorem permChildren_roots (a : Arena) (v : Nat) (l : List Nat) :
    RootsSub a (a.setIfInBounds v { nd a v with children := l }) := by
  intro i ⟨hl, hp⟩
  simp only [live, Array.size_setIfInBounds] at hl
  rw [nd_set] at hl hp
  split at hl
  next h => obtain ⟨rfl, _⟩ := h; simp only [↓reduceIte, and_self, *] at hp; exact ⟨⟨hl.1, hl.2⟩, by simpa using hp⟩
  next h => simp only [h, ↓reduceIte] at hp; exact ⟨hl, hp⟩

theorem ladderFold_roots : ∀ (l : List Nat) (st : Arena × Array Nat), RootsSub st.1 (l.foldl ladderStep st).1
  | [], st => RootsSub.refl _
  | v :: l, st => by
    rw [List.foldl_cons]
    exact (permChildren_roots st.1 v _).trans (ladderFold_roots l (ladderStep st v))

theorem ladderize_roots (a : Arena) : RootsSub a (ladderize a).1 := by
  unfold ladderize
  split
  · exact RootsSub.refl a
  · split
    · exact RootsSub.refl a
    · exact ladderFold_roots _ _

theorem resetDepths_roots (a : Arena) : RootsSub a (resetDepths a).1 := by
  unfold resetDepths
  split
  · exact RootsSub.refl a
  · split
    next a' h => exact (resetF_same _ _ _ _ _ h).roots
    · exact RootsSub.refl a

/-- `add` on an arena without a live root yields exactly one root -/
theorem add_oneRoot {a : Arena} (name : Option String) (h0 : ∀ i, ¬ isRoot a i) : AtMostOneRoot (add a name).1 := by
  have key : ∀ i, isRoot (add a name).1 i → i = a.size := by
    intro i ⟨hl, hp⟩
    simp only [add, live, nd_push, Array.size_push] at hl hp
    by_cases h : i = a.size
    · exact h
    · simp only [h, ↓reduceIte] at hl hp
      exact absurd ⟨⟨by omega, hl.2⟩, hp⟩ (h0 i)
  intro i j hi hj
  rw [key i hi, key j hj]

/-- operations a history may contain at a given state: `add` only when no live root exists -/
def Admissible (a : Arena) : Op → Prop
  | .add _ => ∀ i, ¬ isRoot a i
  | _ => True

theorem applyOp_oneRoot {a : Arena} (op : Op) (g : Good a) (h1 : AtMostOneRoot a) (hadm : Admissible a op) :
    AtMostOneRoot (applyOp a op).1 := by
  cases op with
  | add n => exact add_oneRoot n hadm
  | addChild p e n => exact (addChildNamed_roots p e n).atMostOne h1
  | setName i n => exact (setName_same a i n).roots.atMostOne h1
  | prune x => exact (prune_roots x g).atMostOne h1
  | compressNode v => exact (compressNode_roots v g).atMostOne h1
  | compress => exact (compressLoop_roots _ g).atMostOne h1
  | rescale k => exact (rescale_roots a k).atMostOne h1
  | merge c1 c2 e1 e2 pe n => exact (mergeChildren_roots c1 c2 e1 e2 pe n g h1).atMostOne h1
  | resolve picks =>
    simp only [applyOp]
    split
    next a' h => exact (resolve_roots picks g h).atMostOne h1
    next => exact h1
  | ladderize => exact (ladderize_roots a).atMostOne h1
  | resetDepths => exact (resetDepths_roots a).atMostOne h1

/-- a history all of whose `add` calls happen on a rootless arena -/
def AdmissibleRun : Arena → List Op → Prop
  | _, [] => True
  | a, op :: ops => Admissible a op ∧ AdmissibleRun (applyOp a op).1 ops

theorem runOps_oneRoot : ∀ (ops : List Op) {a : Arena}, Good a → AtMostOneRoot a → AdmissibleRun a ops →
    Good (runOps a ops) ∧ AtMostOneRoot (runOps a ops)
  | [], _, g, h1, _ => ⟨g, h1⟩
  | op :: ops, a, g, h1, hadm => by
    simp only [runOps, List.foldl_cons]
    exact runOps_oneRoot ops (applyOp_good op g).1 (applyOp_oneRoot op g h1 hadm.1) hadm.2

end AR
