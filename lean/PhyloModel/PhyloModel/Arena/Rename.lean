import PhyloModel.Arena.PartitionsDependOnTree
/-! # Two abstract trees with the same Newick content differ by a renaming of ids

`renameR ρ t` applies `ρ` to every id of `t`.  If `eraseId ta = eraseId tb` (same names, lengths, depths and
ordered topology) and the ids of `ta` are distinct, there is a `ρ` with `renameR ρ ta = tb`; it is injective
on the ids of `ta` when the ids of `tb` are distinct too.  Id-keyed computations (distance matrices) are
transported along such a renaming in `Arena/MatrixDependsOnTree.lean`. -/
namespace AR

mutual
def renameR (ρ : Nat → Nat) : Rose → Rose
  | .node i n l d ks => .node (ρ i) n l d (renameRL ρ ks)
def renameRL (ρ : Nat → Nat) : List Rose → List Rose
  | [] => []
  | k :: ks => renameR ρ k :: renameRL ρ ks
end

def idsRL (ts : List Rose) : List Nat := (nodesRL ts).map Rose.id

theorem idsR_node (i : Nat) (n : Option String) (l : Option Int) (d : Nat) (ks : List Rose) :
    idsR (.node i n l d ks) = i :: idsRL ks := by simp [idsR, idsRL, nodesR, Rose.id]
theorem idsRL_nil : idsRL [] = [] := by simp [idsRL, nodesRL]
theorem idsRL_cons (k : Rose) (ks : List Rose) : idsRL (k :: ks) = idsR k ++ idsRL ks := by
  simp [idsRL, idsR, nodesRL]

mutual
theorem idsR_rename (ρ : Nat → Nat) : ∀ t : Rose, idsR (renameR ρ t) = (idsR t).map ρ
  | .node i n l d ks => by simp only [renameR, idsR_node, List.map_cons, idsRL_rename ρ ks]
theorem idsRL_rename (ρ : Nat → Nat) : ∀ ts : List Rose, idsRL (renameRL ρ ts) = (idsRL ts).map ρ
  | [] => by simp [renameRL, idsRL_nil]
  | t :: ts => by simp only [renameRL, idsRL_cons, List.map_append, idsR_rename ρ t, idsRL_rename ρ ts]
end

mutual
theorem idsR_length_eraseId : ∀ t : Rose, (idsR (eraseId t)).length = (idsR t).length
  | .node i n l d ks => by simp only [eraseId, idsR_node, List.length_cons, idsRL_length_eraseIdL ks]
theorem idsRL_length_eraseIdL : ∀ ts : List Rose, (idsRL (eraseIdL ts)).length = (idsRL ts).length
  | [] => by simp [eraseIdL]
  | t :: ts => by
    simp only [eraseIdL, idsRL_cons, List.length_append, idsR_length_eraseId t, idsRL_length_eraseIdL ts]
end

theorem idsR_length_of_eraseId {s s' : Rose} (h : eraseId s = eraseId s') : (idsR s).length = (idsR s').length := by
  rw [← idsR_length_eraseId s, h, idsR_length_eraseId]
theorem idsRL_length_of_eraseIdL {ts ts' : List Rose} (h : eraseIdL ts = eraseIdL ts') :
    (idsRL ts).length = (idsRL ts').length := by
  rw [← idsRL_length_eraseIdL ts, h, idsRL_length_eraseIdL]

mutual
/-- a map that sends the ids of `s` positionally to the ids of `s'` renames `s` into `s'` -/
theorem rename_of_zip (ρ : Nat → Nat) : ∀ (s s' : Rose), eraseId s = eraseId s' →
    (∀ p ∈ (idsR s).zip (idsR s'), ρ p.1 = p.2) → renameR ρ s = s'
  | .node i n l d ks, .node i' n' l' d' ks', he, h => by
    simp only [eraseId, Rose.node.injEq, true_and] at he
    obtain ⟨rfl, rfl, rfl, hk⟩ := he
    simp only [idsR_node, List.zip_cons_cons, List.mem_cons, forall_eq_or_imp] at h
    simp only [renameR, h.1, renameL_of_zip ρ ks ks' hk h.2]
theorem renameL_of_zip (ρ : Nat → Nat) : ∀ (ts ts' : List Rose), eraseIdL ts = eraseIdL ts' →
    (∀ p ∈ (idsRL ts).zip (idsRL ts'), ρ p.1 = p.2) → renameRL ρ ts = ts'
  | [], [], _, _ => rfl
  | [], _ :: _, he, _ => by simp [eraseIdL] at he
  | _ :: _, [], he, _ => by simp [eraseIdL] at he
  | t :: ts, t' :: ts', he, h => by
    simp only [eraseIdL, List.cons.injEq] at he
    have hlen := idsR_length_of_eraseId he.1
    rw [idsRL_cons, idsRL_cons, List.zip_append hlen] at h
    simp only [renameRL]
    rw [rename_of_zip ρ t t' he.1 (fun p hp => h p (List.mem_append_left _ hp)),
      renameL_of_zip ρ ts ts' he.2 (fun p hp => h p (List.mem_append_right _ hp))]
end

/-- association-list lookup (default 0) -/
def assoc : List (Nat × Nat) → Nat → Nat
  | [], _ => 0
  | (k, v) :: l, x => if k = x then v else assoc l x

theorem assoc_mem : ∀ (l : List (Nat × Nat)), (l.map (·.1)).Nodup → ∀ p ∈ l, assoc l p.1 = p.2
  | [], _, p, hp => by simp at hp
  | (k, v) :: l, hnd, p, hp => by
    simp only [List.map_cons, List.nodup_cons] at hnd
    rcases List.mem_cons.mp hp with rfl | hp'
    · simp [assoc]
    · have hne : k ≠ p.1 := fun e => hnd.1 (e ▸ List.mem_map_of_mem hp')
      simp only [assoc, hne, ↓reduceIte]
      exact assoc_mem l hnd.2 p hp'

theorem inj_of_nodup_map {α β : Type} (f : α → β) : ∀ (l : List α), (l.map f).Nodup →
    ∀ x ∈ l, ∀ y ∈ l, f x = f y → x = y
  | [], _, x, hx, _, _, _ => by simp at hx
  | z :: l, hnd, x, hx, y, hy, he => by
    simp only [List.map_cons, List.nodup_cons] at hnd
    rcases List.mem_cons.mp hx with rfl | hx' <;> rcases List.mem_cons.mp hy with rfl | hy'
    · rfl
    · exact absurd (he ▸ List.mem_map_of_mem hy') hnd.1
    · exact absurd (he ▸ List.mem_map_of_mem hx') hnd.1
    · exact inj_of_nodup_map f l hnd.2 x hx' y hy' he

/-- **renaming**: two trees with the same content up to ids, each with distinct ids, differ by a renaming
    that is injective on the ids of the first -/
theorem exists_renaming {ta tb : Rose} (he : eraseId ta = eraseId tb) (hnd : (idsR ta).Nodup)
    (hnd' : (idsR tb).Nodup) :
    ∃ ρ : Nat → Nat, renameR ρ ta = tb ∧ ∀ x ∈ idsR ta, ∀ y ∈ idsR ta, ρ x = ρ y → x = y := by
  have hlen := idsR_length_of_eraseId he
  let z := (idsR ta).zip (idsR tb)
  have hz : z.map (·.1) = idsR ta := List.map_fst_zip (Nat.le_of_eq hlen)
  have hren : renameR (assoc z) ta = tb :=
    rename_of_zip (assoc z) ta tb he (fun p hp => assoc_mem z (by rw [hz]; exact hnd) p hp)
  refine ⟨assoc z, hren, ?_⟩
  have : (idsR ta).map (assoc z) = idsR tb := by rw [← idsR_rename, hren]
  exact inj_of_nodup_map (assoc z) (idsR ta) (by rw [this]; exact hnd')

/-- the form used for arenas: same erased tree ⇒ renaming -/
theorem absRoot_renaming {a b : Arena} (ga : Good a) (gb : Good b) (ha : AtMostOneRoot a)
    (hb : AtMostOneRoot b) {ta tb : Rose} (hta : absRoot a = .ok ta) (htb : absRoot b = .ok tb)
    (he : erase ta = erase tb) :
    ∃ ρ : Nat → Nat, renameR ρ ta = tb ∧ ∀ x ∈ idsR ta, ∀ y ∈ idsR ta, ρ x = ρ y → x = y :=
  exists_renaming (eraseId_eq_of_erase_eq ta tb 0 (absRoot_levels ga ha hta) (absRoot_levels gb hb htb) he)
    (absRoot_nodes ga ha hta).1 (absRoot_nodes gb hb htb).1

end AR
