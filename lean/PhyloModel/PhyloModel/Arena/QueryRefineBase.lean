import PhyloModel.Arena.RoseStats
import PhyloModel.Arena.QRLemmas
import PhyloModel.Props.C12
/-! # Every read-only query is a function of the abstract tree

For an arena `a` satisfying the invariant (`Good a`) with at most one root (`AtMostOneRoot a`) and abstract
tree `t` (`absRoot a = .ok t`), the executable queries of `Arena/Query.lean` — which scan ALL slots of the
arena like the Rust code does — return the textbook answers of `Arena/RoseStats.lean` computed on `t`. -/
namespace AR

/-- the id-free tree below a represented slot -/
def dec (a : Arena) (t : RTI) : RoseNL := erase (decorate a t)

@[simp] theorem dec_name (a : Arena) (t : RTI) : (dec a t).name = (nd a t.id).name := by simp [dec]
@[simp] theorem dec_len (a : Arena) (t : RTI) : (dec a t).len = (nd a t.id).pedge := by simp [dec]
theorem dec_kids (a : Arena) (t : RTI) : (dec a t).kids = t.kids.map (dec a) := by
  simp only [dec, erase_kids, decorate_kids, List.map_map]; rfl

theorem nodesNL_dec (a : Arena) (t : RTI) : nodesNL (dec a t) = (subs t).map (dec a) := by
  simp only [dec, nodesNL_erase, nodesR_decorate, List.map_map]; rfl

theorem nodesNLL_map_dec (a : Arena) : ∀ ks : List RTI, nodesNLL (ks.map (dec a)) = (subsL ks).map (dec a)
  | [] => by simp [nodesNLL, subsL]
  | k :: ks => by
    simp only [List.map_cons, nodesNLL, subsL, List.map_append, nodesNL_dec, nodesNLL_map_dec a ks]

theorem dec_kids_len {a : Arena} {s0 : RTI} (h : Rep a s0.id s0) :
    (dec a s0).kids.length = (nd a s0.id).children.length := by
  rw [dec_kids, List.length_map, ← h.kids_ids, List.length_map]

theorem dec_isTip {a : Arena} {s0 : RTI} (h : Rep a s0.id s0) :
    (dec a s0).isTip = (nd a s0.id).children.isEmpty := by
  have := dec_kids_len h
  rw [RoseNL.isTip, Bool.eq_iff_iff, List.isEmpty_iff, List.isEmpty_iff, ← List.length_eq_zero_iff,
    ← List.length_eq_zero_iff, this]

theorem decorate_isTip {a : Arena} {s0 : RTI} (h : Rep a s0.id s0) :
    (decorate a s0).isTip = (nd a s0.id).children.isEmpty := by
  rw [← erase_isTip]; exact dec_isTip h

/-- transport of a filtered, mapped node list from the tree to the arena -/
theorem list_filter_map {γ β : Type} {a : Arena} (D : RTI → γ) (P : γ → Bool) (p : Nat → Bool) (F : γ → β)
    (f : Nat → β) (hP : ∀ s0, Rep a s0.id s0 → P (D s0) = p s0.id)
    (hF : ∀ s0, Rep a s0.id s0 → F (D s0) = f s0.id) :
    ∀ (l : List RTI), (∀ s0 ∈ l, Rep a s0.id s0) →
      ((l.map D).filter P).map F = ((l.map RTI.id).filter p).map f
  | [], _ => rfl
  | s0 :: l, hl => by
    have h0 := hl s0 (by simp)
    have ih := list_filter_map D P p F f hP hF l (fun s hs => hl s (by simp [hs]))
    simp only [List.map_cons, List.filter_cons, hP s0 h0]
    split
    · simp only [List.map_cons, hF s0 h0, ih]
    · exact ih

theorem list_map {γ β : Type} {a : Arena} (D : RTI → γ) (F : γ → β) (f : Nat → β)
    (hF : ∀ s0, Rep a s0.id s0 → F (D s0) = f s0.id) (l : List RTI) (hl : ∀ s0 ∈ l, Rep a s0.id s0) :
    (l.map D).map F = (l.map RTI.id).map f := by
  rw [List.map_map, List.map_map]
  apply List.map_congr_left
  intro s0 hs
  exact hF s0 (hl s0 hs)

/-! ### leaves -/

def tipp (a : Arena) (i : Nat) : Bool := (nd a i).children.isEmpty

theorem tipIdsR_decorate {a : Arena} {i : Nat} {t0 : RTI} (h : Rep a i t0) :
    tipIdsR (decorate a t0) = (pre t0).filter (tipp a) := by
  have := list_filter_map (decorate a) Rose.isTip (tipp a) Rose.id id
    (fun s0 h0 => decorate_isTip h0) (fun s0 _ => by simp) (subs t0) (subs_rep t0 i h)
  simp only [tipIdsR, tipsR, nodesR_decorate, this, subs_ids, List.map_id]

theorem tipNames_decorate {a : Arena} {i : Nat} {t0 : RTI} (h : Rep a i t0) :
    leafNamesR (decorate a t0) = ((pre t0).filter (tipp a)).map (fun i => (nd a i).name) := by
  have := list_filter_map (decorate a) Rose.isTip (tipp a) Rose.name (fun i => (nd a i).name)
    (fun s0 h0 => decorate_isTip h0) (fun s0 _ => by simp) (subs t0) (subs_rep t0 i h)
  simp only [leafNamesR_eq, tipsR, nodesR_decorate, this, subs_ids]

theorem nLeavesNL_dec {a : Arena} {i : Nat} {t0 : RTI} (h : Rep a i t0) :
    nLeavesNL (dec a t0) = ((pre t0).filter (tipp a)).length := by
  have := nLeavesR_eq (decorate a t0)
  simp only [nLeavesR] at this
  rw [dec, this, ← tipIdsR_decorate h, tipIdsR, List.length_map]

theorem leaves_perm_ctx {a : Arena} {t : Rose} {r : Nat} {t0 : RTI} (c : RootCtx a t r t0) :
    (leaves a).Perm ((pre t0).filter (tipp a)) := scan_perm c (tipp a)

/-- `get_leaves` lists, in arena order, exactly the tips of the tree -/
theorem leaves_refines {a : Arena} (g : Good a) (h1 : AtMostOneRoot a) {t : Rose} (h : absRoot a = .ok t) :
    (leaves a).Perm (tipIdsR t) := by
  obtain ⟨r, t0, c⟩ := absRoot_ctx g h1 h
  rw [c.dec, tipIdsR_decorate c.rep]
  exact leaves_perm_ctx c

/-- `n_leaves` is the number of tips of the tree -/
theorem nLeaves_refines {a : Arena} (g : Good a) (h1 : AtMostOneRoot a) {t : Rose} (h : absRoot a = .ok t) :
    nLeaves a = nLeavesR t := by
  rw [nLeaves, (leaves_refines g h1 h).length_eq, nLeavesR_eq, tipIdsR, List.length_map]

/-- the leaf names (`get_leaf_names`) are, up to order, the names of the tips of the tree -/
theorem leafNames_refines {a : Arena} (g : Good a) (h1 : AtMostOneRoot a) {t : Rose} (h : absRoot a = .ok t) :
    ((leaves a).map (fun i => (nd a i).name)).Perm (leafNamesR t) := by
  obtain ⟨r, t0, c⟩ := absRoot_ctx g h1 h
  rw [c.dec, tipNames_decorate c.rep]
  exact (leaves_perm_ctx c).map _

/-! ### rootedness -/

theorem root_ok {a : Arena} {t : Rose} {r : Nat} {t0 : RTI} (c : RootCtx a t r t0) : root a = .ok r := by
  simp [root, c.root_eq, QR.ofOpt]

theorem size_ne_zero {a : Arena} {t : Rose} {r : Nat} {t0 : RTI} (c : RootCtx a t r t0) : a.size ≠ 0 := by
  have := c.is_root.1.1; omega

theorem t0_id {a : Arena} {t : Rose} {r : Nat} {t0 : RTI} (c : RootCtx a t r t0) : t0.id = r := c.rep.id_eq

theorem rep' {a : Arena} {t : Rose} {r : Nat} {t0 : RTI} (c : RootCtx a t r t0) : Rep a t0.id t0 := by
  rw [t0_id c]; exact c.rep

theorem isRooted_ctx {a : Arena} {t : Rose} {r : Nat} {t0 : RTI} (c : RootCtx a t r t0) :
    isRooted a = .ok ((nd a r).children.length == 2) := by
  have := size_ne_zero c
  simp [isRooted, root_ok c, this]

/-- `is_rooted`: the root of the tree has exactly two kids -/
theorem isRooted_refines {a : Arena} (g : Good a) (h1 : AtMostOneRoot a) {t : Rose} (h : absRoot a = .ok t) :
    isRooted a = .ok (isRootedR t) := by
  obtain ⟨r, t0, c⟩ := absRoot_ctx g h1 h
  rw [isRooted_ctx c, c.dec, isRootedR, isRootedNL]
  have := dec_kids_len (rep' c)
  rw [t0_id c] at this
  rw [← dec, this]

end AR
