import PhyloModel.Arena.OneRoot
import PhyloModel.Arena.LevelFacts
import PhyloModel.Arena.ResolvePost
/-! C11, postcondition of `ladderize`: every child list is the stable sort of what it was, by the number
    of proper descendants (`descCount`).  The count array the executable model fills bottom-up over the
    reversed level order holds `descCount` for every node already processed, because level order lists every
    child after its parent. -/
namespace AR

/-- number of proper descendants: the length of the executable pre-order listing of the subtree, minus one -/
def descCount (a : Arena) (v : Nat) : Nat :=
  match preorderF (fuelOf a) a v with
  | some l => l.length - 1
  | none => 0

theorem rep_live {a : Arena} {v : Nat} {t : RTI} (h : Rep a v t) : live a v := by
  cases t; simp only [Rep] at h; exact h.2.1

theorem descCount_rep {a : Arena} (hinv : Inv a) {v : Nat} {t : RTI} (h : Rep a v t) :
    descCount a v + 1 = szR t := by
  obtain ⟨t', ht', _, hh, _⟩ := rep_total hinv v (rep_live h)
  have := rep_unique a t t' v h ht'
  subst this
  have hp := preorder_rep a t _ v h hh
  unfold descCount
  rw [hp, szR_pre]
  cases t with
  | node j ks => simp [pre]

theorem szRL_sum {a : Arena} (hinv : Inv a) : ∀ (cs : List Nat) (ts : List RTI), RepL a cs ts →
    szRL ts = (cs.map (fun c => descCount a c + 1)).sum
  | [], [], _ => by simp [szRL]
  | [], _ :: _, h => by simp [RepL] at h
  | _ :: _, [], h => by simp [RepL] at h
  | c :: cs, t :: ts, h => by
    simp only [RepL] at h
    simp only [szRL, List.map_cons, List.sum_cons, descCount_rep hinv h.1, szRL_sum hinv cs ts h.2]

/-- the recursive equation `ladderize` computes with -/
theorem descCount_kids {a : Arena} (hinv : Inv a) {v : Nat} (hl : live a v) :
    descCount a v = ((nd a v).children.map (fun c => descCount a c + 1)).sum := by
  obtain ⟨t, ht, _⟩ := rep_total hinv v hl
  have h1 := descCount_rep hinv ht
  cases t with
  | node j ks =>
    simp only [Rep] at ht
    have := szRL_sum hinv _ _ ht.2.2
    simp only [szR] at h1
    omega

/-- `descCount` really counts the proper descendants: they form a duplicate-free list of that length -/
theorem descCount_spec {a : Arena} (hinv : Inv a) {v : Nat} (hl : live a v) :
    ∃ l : List Nat, l.Nodup ∧ (∀ u, u ∈ l ↔ ∃ k, BelowK a v u (k + 1)) ∧ descCount a v = l.length := by
  obtain ⟨t, ht, _⟩ := rep_total hinv v hl
  have h1 := descCount_rep hinv ht
  have hnd := pre_nodup hinv.toW t v ht
  have hmem := mem_pre_iff hinv.toW t v ht
  cases t with
  | node j ks =>
    have hj : v = j := by simp only [Rep] at ht; exact ht.1
    subst hj
    simp only [pre, List.nodup_cons] at hnd
    refine ⟨preL ks, hnd.2, ?_, ?_⟩
    · intro u
      have hu := hmem u
      simp only [pre, List.mem_cons] at hu
      constructor
      · intro hin
        obtain ⟨k, hb⟩ := hu.1 (Or.inr hin)
        cases k with
        | zero => cases hb; exact absurd hin hnd.1
        | succ k => exact ⟨k, hb⟩
      · rintro ⟨k, hb⟩
        rcases hu.2 ⟨_, hb⟩ with h | h
        · subst h
          have := BelowK.rank hinv.toW hb
          omega
        · exact h
    · rw [szR_pre] at h1
      simp only [pre, List.length_cons] at h1
      omega

/-! ### level order lists every child after its parent -/

/-- in `L`, the children of every entry occur later -/
def After (a : Arena) (L : List Nat) : Prop :=
  ∀ L1 x L2, L = L1 ++ x :: L2 → ∀ c ∈ (nd a x).children, c ∈ L2

theorem levelF_after (a : Arena) : ∀ (f : Nat) (q acc L : List Nat), levelF f a q acc = some L →
    ∃ L', L = acc.reverse ++ L' ∧ (∀ x ∈ q, x ∈ L') ∧ After a L' := by
  have hnil : After a [] := by intro L1 x L2 h; simp at h
  intro f
  induction f with
  | zero =>
    intro q acc L h
    cases q with
    | nil => simp only [levelF, Option.some.injEq] at h; exact ⟨[], by simp [h], by simp, hnil⟩
    | cons x q => simp [levelF] at h
  | succ f ih =>
    intro q acc L h
    cases q with
    | nil => simp only [levelF, Option.some.injEq] at h; exact ⟨[], by simp [h], by simp, hnil⟩
    | cons x q =>
      simp only [levelF] at h
      split at h
      · obtain ⟨L', e, hq, haft⟩ := ih _ _ _ h
        refine ⟨x :: L', by rw [e]; simp, ?_, ?_⟩
        · intro y hy
          simp only [List.mem_cons] at hy ⊢
          rcases hy with hy | hy
          · exact Or.inl hy
          · exact Or.inr (hq y (by simp [hy]))
        · intro L1 z L2 heq c hc
          cases L1 with
          | nil =>
            simp only [List.nil_append, List.cons.injEq] at heq
            obtain ⟨rfl, rfl⟩ := heq
            exact hq c (by simp [hc])
          | cons y L1' =>
            simp only [List.cons_append, List.cons.injEq] at heq
            exact haft L1' z L2 heq.2 c hc
      · cases h

theorem levelorder_after {a : Arena} {r : Nat} {order : List Nat} (h : levelorder a r = some order) :
    After a order := by
  obtain ⟨L', e, _, haft⟩ := levelF_after a _ _ _ _ h
  simp only [List.reverse_nil, List.nil_append] at e
  rw [e]; exact haft

/-! ### the fold of `ladderize` -/

theorem getD_setIfInBounds (c : Array Nat) (x v y : Nat) :
    (c.setIfInBounds x v).getD y 0 = if y = x ∧ x < c.size then v else c.getD y 0 := by
  simp only [Array.getD_eq_getD_getElem?, Array.getElem?_setIfInBounds]
  grind

/-- the child list of `v` stably sorted by the number of proper descendants -/
def sortedKids (a : Arena) (v : Nat) : List Nat :=
  (nd a v).children.mergeSort (fun x y => decide (descCount a x ≤ descCount a y))

/-- state of the fold after the nodes in `done` -/
structure LInv (a : Arena) (done : List Nat) (st : Arena × Array Nat) : Prop where
  csize : st.2.size = a.size
  cnt : ∀ x ∈ done, st.2.getD x 0 = descCount a x
  bsize : st.1.size = a.size
  sorted : ∀ x ∈ done, nd st.1 x = { nd a x with children := sortedKids a x }
  rest : ∀ x, x ∉ done → nd st.1 x = nd a x

theorem ladderStep_linv {a : Arena} (hinv : Inv a) {done : List Nat} {st : Arena × Array Nat}
    (h : LInv a done st) {x : Nat} (hx : x ∉ done) (hl : live a x)
    (hk : ∀ c ∈ (nd a x).children, c ∈ done) : LInv a (done ++ [x]) (ladderStep st x) := by
  obtain ⟨b, cnt⟩ := st
  have hcs : cnt.size = a.size := h.csize
  have hbs : b.size = a.size := h.bsize
  have hkids : nd b x = nd a x := h.rest x hx
  have hxk : x ∉ (nd a x).children := fun hm => by
    have := (hinv.child_ok x x hl hm).2.2.1; omega
  have hcv : ((nd a x).children.map (fun c => cnt.getD c 0 + 1)).sum = descCount a x := by
    rw [descCount_kids hinv hl]
    congr 1
    apply List.map_congr_left
    intro c hc; rw [h.cnt c (hk c hc)]
  have hxlt : x < cnt.size := by rw [hcs]; exact hl.1
  have hget : ∀ y, (cnt.setIfInBounds x (descCount a x)).getD y 0 =
      if y = x then descCount a x else cnt.getD y 0 := by
    intro y; rw [getD_setIfInBounds]; simp [hxlt]
  have hkey : ∀ c ∈ (nd a x).children, (cnt.setIfInBounds x (descCount a x)).getD c 0 = descCount a c := by
    intro c hc
    have : c ≠ x := fun e => hxk (e ▸ hc)
    rw [hget, if_neg this, h.cnt c (hk c hc)]
  have hsort : (nd a x).children.mergeSort (fun c d =>
      decide ((cnt.setIfInBounds x (descCount a x)).getD c 0 ≤ (cnt.setIfInBounds x (descCount a x)).getD d 0))
      = sortedKids a x := by
    have := List.map_mergeSort (f := id) (l := (nd a x).children)
      (r := fun c d => decide ((cnt.setIfInBounds x (descCount a x)).getD c 0 ≤
        (cnt.setIfInBounds x (descCount a x)).getD d 0))
      (s := fun c d => decide (descCount a c ≤ descCount a d))
      (by intro c hc d hd; simp only [id, hkey c hc, hkey d hd])
    simpa [sortedKids] using this
  have hstep : ladderStep (b, cnt) x =
      (b.setIfInBounds x { nd a x with children := sortedKids a x }, cnt.setIfInBounds x (descCount a x)) := by
    simp only [ladderStep, hkids, hcv, hsort]
  rw [hstep]
  have hxb : x < b.size := by rw [hbs]; exact hl.1
  refine ⟨by simp [hcs], ?_, by simp [hbs], ?_, ?_⟩
  · intro y hy
    show (cnt.setIfInBounds x (descCount a x)).getD y 0 = _
    rw [hget]
    by_cases hyx : y = x
    · simp [hyx]
    · rw [if_neg hyx]
      rcases List.mem_append.1 hy with hy | hy
      · exact h.cnt y hy
      · simp at hy; exact absurd hy hyx
  · intro y hy
    show nd (b.setIfInBounds x _) y = _
    rw [nd_set]
    by_cases hyx : y = x
    · subst hyx; simp [hxb]
    · have : ¬ (y = x ∧ x < b.size) := fun hh => hyx hh.1
      rw [if_neg this]
      rcases List.mem_append.1 hy with hy | hy
      · exact h.sorted y hy
      · simp at hy; exact absurd hy hyx
  · intro y hy
    simp only [List.mem_append, List.mem_singleton, not_or] at hy
    show nd (b.setIfInBounds x _) y = _
    rw [nd_set]
    have : ¬ (y = x ∧ x < b.size) := fun hh => hy.2 hh.1
    rw [if_neg this]
    exact h.rest y hy.1

theorem ladderFold_linv {a : Arena} (hinv : Inv a) : ∀ (todo done : List Nat) (st : Arena × Array Nat),
    LInv a done st → (done ++ todo).Nodup → (∀ x ∈ todo, live a x) →
    (∀ T1 x T2, todo = T1 ++ x :: T2 → ∀ c ∈ (nd a x).children, c ∈ done ++ T1) →
    LInv a (done ++ todo) (todo.foldl ladderStep st)
  | [], done, st, h, _, _, _ => by simpa using h
  | x :: todo, done, st, h, hnd, hlive, hk => by
    rw [List.foldl_cons]
    have hx : x ∉ done := by
      intro hm
      have := (List.nodup_append.1 hnd).2.2 x hm x (by simp)
      exact this rfl
    have h1 := ladderStep_linv hinv h hx (hlive x (by simp)) (fun c hc => by simpa using hk [] x todo rfl c hc)
    have := ladderFold_linv hinv todo (done ++ [x]) _ h1 (by simpa using hnd)
      (fun y hy => hlive y (by simp [hy]))
      (fun T1 y T2 heq c hc => by
        have := hk (x :: T1) y T2 (by rw [heq]; rfl) c hc
        simpa using this)
    simpa using this

/-- reversing a list in which children come later gives one in which they come earlier -/
theorem After.reverse {a : Arena} {L : List Nat} (h : After a L) :
    ∀ T1 x T2, L.reverse = T1 ++ x :: T2 → ∀ c ∈ (nd a x).children, c ∈ T1 := by
  intro T1 x T2 heq c hc
  have : L = T2.reverse ++ x :: T1.reverse := by
    have := congrArg List.reverse heq
    simpa using this
  have := h _ _ _ this c hc
  simpa using this

/-- **what `ladderize` leaves in every slot**: a node of the root's tree keeps everything but the order of
    its child list, which becomes the stable sort of the old list by the number of proper descendants;
    every other slot is untouched -/
theorem ladderize_slots {a : Arena} (g : Good a) {r : Nat} (hr : getRoot a = some r) :
    (ladderize a).2 = .ok none ∧
    (∀ v, (∃ k, BelowK a r v k) → nd (ladderize a).1 v = { nd a v with children := sortedKids a v }) ∧
    (∀ v, (¬ ∃ k, BelowK a r v k) → nd (ladderize a).1 v = nd a v) := by
  obtain ⟨hlr, _⟩ := getRoot_spec hr
  obtain ⟨order, ho, hnd, hmem, _⟩ := levelorder_closed g.1 r hlr
  have haft := levelorder_after ho
  have h0 : LInv a [] (a, Array.replicate a.size 0) :=
    ⟨by simp, by simp, rfl, by simp, fun _ _ => rfl⟩
  have hfold := ladderFold_linv g.1 order.reverse [] _ h0 (by simpa using (List.reverse_perm order).nodup_iff.2 hnd)
    (fun x hx => by
      obtain ⟨k, hb⟩ := (hmem x).1 (by simpa using hx)
      exact hb.is_live)
    (fun T1 x T2 heq c hc => by simpa using haft.reverse T1 x T2 heq c hc)
  simp only [List.nil_append] at hfold
  have hlad : ladderize a = ((order.reverse.foldl ladderStep (a, Array.replicate a.size 0)).1, .ok none) := by
    simp only [ladderize, hr, ho]
  rw [hlad]
  refine ⟨rfl, ?_, ?_⟩
  · intro v hv
    exact hfold.sorted v (by simpa using (hmem v).2 hv)
  · intro v hv
    exact hfold.rest v (by intro hm; exact hv ((hmem v).1 (by simpa using hm)))

/-! ### the key is the same in the new arena -/

theorem PermKids.live_iff {a b : Arena} (h : PermKids a b) (i : Nat) : live b i ↔ live a i := by
  simp only [live, h.1, (h.2 i).2.2.2.2.1]

theorem PermKids.below {a b : Arena} (h : PermKids a b) {x v k : Nat} : BelowK b x v k ↔ BelowK a x v k := by
  constructor
  · intro hb
    induction hb with
    | refl hl => exact BelowK.refl ((h.live_iff _).1 hl)
    | step _ hl hp ih => exact BelowK.step ih ((h.live_iff _).1 hl) (by rw [← (h.2 _).2.1]; exact hp)
  · intro hb
    induction hb with
    | refl hl => exact BelowK.refl ((h.live_iff _).2 hl)
    | step _ hl hp ih => exact BelowK.step ih ((h.live_iff _).2 hl) (by rw [(h.2 _).2.1]; exact hp)

/-- reordering child lists does not change the number of proper descendants of any node -/
theorem PermKids.descCount {a b : Arena} (h : PermKids a b) (ga : Good a) (gb : Good b) (v : Nat) :
    descCount b v = descCount a v := by
  by_cases hl : live a v
  · obtain ⟨l, n1, m1, e1⟩ := descCount_spec ga.1 hl
    obtain ⟨l', n2, m2, e2⟩ := descCount_spec gb.1 ((h.live_iff v).2 hl)
    rw [e1, e2]
    apply List.Perm.length_eq
    rw [List.perm_ext_iff_of_nodup n2 n1]
    intro u
    rw [m1, m2]
    constructor
    · rintro ⟨k, hb⟩; exact ⟨k, h.below.1 hb⟩
    · rintro ⟨k, hb⟩; exact ⟨k, h.below.2 hb⟩
  · have hl' : ¬ live b v := fun hh => hl ((h.live_iff v).1 hh)
    have d1 : AR.descCount a v = 0 := by
      unfold AR.descCount fuelOf
      have : ¬ (v < a.size ∧ (nd a v).deleted = false) := hl
      simp [preorderF, this]
    have d2 : AR.descCount b v = 0 := by
      unfold AR.descCount fuelOf
      have : ¬ (v < b.size ∧ (nd b v).deleted = false) := hl'
      simp [preorderF, this]
    rw [d1, d2]

/-- **postcondition of `ladderize`**: when a root is present, every node of the root's tree has, in the
    resulting arena, its children ordered by their number of proper descendants in the resulting arena
    (non-decreasing), and the new child list is exactly the stable sort of the old one by that key -/
theorem ladderize_post {a : Arena} (g : Good a) {r : Nat} (hr : getRoot a = some r) (v : Nat)
    (hv : ∃ k, BelowK a r v k) :
    (nd (ladderize a).1 v).children.Pairwise
        (fun c d => descCount (ladderize a).1 c ≤ descCount (ladderize a).1 d) ∧
    (nd (ladderize a).1 v).children = (nd a v).children.mergeSort
        (fun c d => decide (descCount (ladderize a).1 c ≤ descCount (ladderize a).1 d)) ∧
    (nd (ladderize a).1 v).children.Perm (nd a v).children := by
  have hslot := (ladderize_slots g hr).2.1 v hv
  have hkey : ∀ c, descCount (ladderize a).1 c = descCount a c :=
    (ladderize_frame a).descCount g (ladderize_good g)
  have hfun : (fun c d => decide (descCount (ladderize a).1 c ≤ descCount (ladderize a).1 d)) =
      (fun c d => decide (descCount a c ≤ descCount a d)) := by
    funext c d; rw [hkey c, hkey d]
  have hch : (nd (ladderize a).1 v).children = sortedKids a v := by rw [hslot]
  refine ⟨?_, ?_, ?_⟩
  · rw [hch]
    simp only [hkey]
    have := List.pairwise_mergeSort (le := fun x y => decide (descCount a x ≤ descCount a y))
      (by intro a b c h1 h2; simp at *; omega) (by intro a b; simp; omega) (nd a v).children
    simpa [sortedKids] using this
  · rw [hch, hfun]; rfl
  · rw [hch]; exact List.mergeSort_perm _ _

/-- with at most one parentless live node (every tree the crate builds), this covers every live node -/
theorem ladderize_post_all {a : Arena} (g : Good a) (h1 : AtMostOneRoot a) (v : Nat) (hl : live a v) :
    (nd (ladderize a).1 v).children.Pairwise
        (fun c d => descCount (ladderize a).1 c ≤ descCount (ladderize a).1 d) ∧
    (nd (ladderize a).1 v).children = (nd a v).children.mergeSort
        (fun c d => decide (descCount (ladderize a).1 c ≤ descCount (ladderize a).1 d)) ∧
    (nd (ladderize a).1 v).children.Perm (nd a v).children := by
  obtain ⟨t, _, hr, _, hall⟩ := one_tree g h1 v hl
  exact ladderize_post g hr v (hall v hl)

/-! ### non-vacuity: root 0 with children 1 (two tips 3, 4 below it) and 2 (a tip) -/

def exL : Arena := runOps #[] [.add none, .addChild 0 (some 1) none, .addChild 0 (some 2) none,
  .addChild 1 (some 3) none, .addChild 1 (some 4) none]

theorem exL_good : Good exL := runOps_good _ empty_good
theorem exL_root : getRoot exL = some 0 := by decide
theorem exL_below : ∃ k, BelowK exL 0 0 k := ⟨0, BelowK.refl (by unfold live; decide)⟩

example : descCount exL 1 = 2 ∧ descCount exL 2 = 0 ∧ (nd exL 0).children = [1, 2] := by decide

/-- the hypotheses of `ladderize_post` hold at the root of `exL`, whose child list `[1, 2]` becomes `[2, 1]` -/
example : (nd (ladderize exL).1 0).children = [2, 1] := by
  have h := (ladderize_slots exL_good exL_root).2.1 0 exL_below
  rw [h]
  show sortedKids exL 0 = [2, 1]
  have hk : (nd exL 0).children = [1, 2] := by decide
  have d1 : descCount exL 1 = 2 := by decide
  have d2 : descCount exL 2 = 0 := by decide
  simp [sortedKids, hk, List.mergeSort, d1, d2]

end AR
