import PhyloModel.Arena.Traverse
import PhyloModel.Arena.PathFacts
import PhyloModel.Arena.DepthBound
/-! What the represented tree of a live slot contains: exactly the nodes below the slot, each once; hence
    its size is at most the arena size and the fuel of the executable traversals always suffices. -/
namespace AR

/-- extend a descent at its top end -/
theorem BelowK.push_top {a : Arena} {i c v k : Nat} (h : BelowK a c v k) (hli : live a i)
    (hpar : (nd a c).parent = some i) : BelowK a i v (k + 1) := by
  induction h with
  | refl hlc => exact BelowK.step (BelowK.refl hli) hlc hpar
  | step _ hl hp ih => exact BelowK.step ih hl hp

mutual
theorem pre_below {a : Arena} {r : Nat → Nat} (w : W a r) : ∀ (t : RTI) (i : Nat), Rep a i t →
    ∀ v ∈ pre t, ∃ k, BelowK a i v k
  | .node j ks, i, h, v, hv => by
    simp only [Rep] at h
    obtain ⟨rfl, hl, hk⟩ := h
    simp only [pre, List.mem_cons] at hv
    rcases hv with rfl | hv
    · exact ⟨0, BelowK.refl hl⟩
    · obtain ⟨c, hc, k, hb⟩ := preL_below w ks _ hk v hv
      exact ⟨k + 1, hb.push_top hl (w.child_ok i c hl hc).2.1⟩
theorem preL_below {a : Arena} {r : Nat → Nat} (w : W a r) : ∀ (ts : List RTI) (cs : List Nat), RepL a cs ts →
    ∀ v ∈ preL ts, ∃ c ∈ cs, ∃ k, BelowK a c v k
  | [], _, _, v, hv => by simp [preL] at hv
  | t :: ts, cs, h, v, hv => by
    cases cs with
    | nil => simp [RepL] at h
    | cons c cs =>
      simp only [RepL] at h
      simp only [preL, List.mem_append] at hv
      rcases hv with hv | hv
      · obtain ⟨k, hb⟩ := pre_below w t c h.1 v hv
        exact ⟨c, by simp, k, hb⟩
      · obtain ⟨c', hc', k, hb⟩ := preL_below w ts cs h.2 v hv
        exact ⟨c', by simp [hc'], k, hb⟩
end

mutual
theorem pre_nodup {a : Arena} {r : Nat → Nat} (w : W a r) : ∀ (t : RTI) (i : Nat), Rep a i t → (pre t).Nodup
  | .node j ks, i, h => by
    simp only [Rep] at h
    obtain ⟨rfl, hl, hk⟩ := h
    simp only [pre, List.nodup_cons]
    refine ⟨?_, preL_nodup w ks i _ hl (fun c hc => hc) (w.nodup i) hk⟩
    intro hin
    obtain ⟨c, hc, k, hb⟩ := preL_below w ks _ hk i hin
    have h1 := (w.child_ok i c hl hc).2.2
    have h2 := BelowK.rank w hb
    omega
theorem preL_nodup {a : Arena} {r : Nat → Nat} (w : W a r) : ∀ (ts : List RTI) (x : Nat) (cs : List Nat),
    live a x → (∀ c ∈ cs, c ∈ (nd a x).children) → cs.Nodup → RepL a cs ts → (preL ts).Nodup
  | [], _, _, _, _, _, _ => by simp [preL]
  | t :: ts, x, cs, hlx, hsub, hnd, h => by
    cases cs with
    | nil => simp [RepL] at h
    | cons c cs =>
      simp only [RepL] at h
      simp only [List.nodup_cons] at hnd
      simp only [preL]
      rw [List.nodup_append]
      refine ⟨pre_nodup w t c h.1, preL_nodup w ts x cs hlx (fun c' hc' => hsub c' (by simp [hc'])) hnd.2 h.2, ?_⟩
      intro u hu v hv huv
      subst huv
      obtain ⟨k1, hb1⟩ := pre_below w t c h.1 u hu
      obtain ⟨c', hc', k2, hb2⟩ := preL_below w ts cs h.2 u hv
      have hne : c ≠ c' := fun e => hnd.1 (e ▸ hc')
      exact BelowK.disjoint w hlx (hsub c (by simp)) (hsub c' (by simp [hc'])) hne hb1 hb2
end

theorem rep_head {a : Arena} : ∀ (t : RTI) (i : Nat), Rep a i t → i ∈ pre t
  | .node j ks, i, h => by
    simp only [Rep] at h
    simp [pre, h.1]

theorem repL_heads {a : Arena} : ∀ (ts : List RTI) (cs : List Nat), RepL a cs ts → ∀ c ∈ cs, c ∈ preL ts
  | [], cs, h, c, hc => by cases cs <;> simp_all [RepL]
  | t :: ts, cs, h, c, hc => by
    cases cs with
    | nil => simp at hc
    | cons c0 cs =>
      simp only [RepL] at h
      simp only [preL, List.mem_append]
      simp only [List.mem_cons] at hc
      rcases hc with rfl | hc
      · exact Or.inl (rep_head t _ h.1)
      · exact Or.inr (repL_heads ts cs h.2 c hc)

mutual
theorem pre_closed {a : Arena} : ∀ (t : RTI) (i : Nat), Rep a i t →
    ∀ p ∈ pre t, ∀ c ∈ (nd a p).children, c ∈ pre t
  | .node j ks, i, h, p, hp, c, hc => by
    simp only [Rep] at h
    obtain ⟨rfl, _, hk⟩ := h
    simp only [pre, List.mem_cons] at hp ⊢
    rcases hp with rfl | hp
    · exact Or.inr (repL_heads ks _ hk c hc)
    · exact Or.inr (preL_closed ks _ hk p hp c hc)
theorem preL_closed {a : Arena} : ∀ (ts : List RTI) (cs : List Nat), RepL a cs ts →
    ∀ p ∈ preL ts, ∀ c ∈ (nd a p).children, c ∈ preL ts
  | [], _, _, p, hp, _, _ => by simp [preL] at hp
  | t :: ts, cs, h, p, hp, c, hc => by
    cases cs with
    | nil => simp [RepL] at h
    | cons c0 cs =>
      simp only [RepL] at h
      simp only [preL, List.mem_append] at hp ⊢
      rcases hp with hp | hp
      · exact Or.inl (pre_closed t c0 h.1 p hp c hc)
      · exact Or.inr (preL_closed ts cs h.2 p hp c hc)
end

/-- the represented tree lists exactly the nodes below its root -/
theorem mem_pre_iff {a : Arena} {r : Nat → Nat} (w : W a r) (t : RTI) (i : Nat) (h : Rep a i t) (v : Nat) :
    v ∈ pre t ↔ ∃ k, BelowK a i v k := by
  constructor
  · exact pre_below w t i h v
  · rintro ⟨k, hb⟩
    induction hb with
    | refl _ => exact rep_head t i h
    | step _ hl hp ih => exact pre_closed t i h _ ih _ (w.parent_ok _ _ hl hp).2

mutual
theorem szR_pre : ∀ t : RTI, szR t = (pre t).length
  | .node _ ks => by simp only [szR, pre, List.length_cons, szRL_preL ks]; omega
theorem szRL_preL : ∀ ts : List RTI, szRL ts = (preL ts).length
  | [] => by simp [szRL, preL]
  | t :: ts => by simp only [szRL, preL, List.length_append, szR_pre t, szRL_preL ts]
end

mutual
theorem height_le_szR : ∀ t : RTI, height t ≤ szR t
  | .node _ ks => by simp only [height, szR]; have := heightL_le_szRL ks; omega
theorem heightL_le_szRL : ∀ ts : List RTI, heightL ts ≤ szRL ts
  | [] => by simp [heightL]
  | t :: ts => by
    simp only [heightL, szRL]
    have := height_le_szR t
    have := heightL_le_szRL ts
    omega
end

/-- the represented tree has at most as many nodes as the arena has slots -/
theorem szR_le_size {a : Arena} {r : Nat → Nat} (w : W a r) (t : RTI) (i : Nat) (h : Rep a i t) :
    szR t ≤ a.size := by
  rw [szR_pre]
  apply pigeon _ _ (pre_nodup w t i h)
  intro v hv
  obtain ⟨k, hb⟩ := pre_below w t i h v hv
  exact hb.is_live.1

/-- under the invariant every live slot represents a tree the executable traversals can walk with the
    fuel they are given -/
theorem rep_total {a : Arena} (hinv : Inv a) (i : Nat) (hl : live a i) :
    ∃ t, Rep a i t ∧ szR t ≤ a.size ∧ height t ≤ fuelOf a ∧ szR t ≤ fuelOf a := by
  obtain ⟨t, ht⟩ := rep_exists a hinv a.size (depth_le_size hinv) (a.size - (nd a i).depth) i hl (Nat.le_refl _)
  have h1 := szR_le_size hinv.toW t i ht
  have h2 := height_le_szR t
  exact ⟨t, ht, h1, by simp only [fuelOf]; omega, by simp only [fuelOf]; omega⟩

/-- level order never exhausts its fuel on a live start node -/
theorem levelorder_total {a : Arena} (hinv : Inv a) (i : Nat) (hl : live a i) :
    ∃ l, levelorder a i = some l := by
  obtain ⟨t, ht, _, _, hs⟩ := rep_total hinv i hl
  have := levelF_rep a (fuelOf a) [i] [(t, 0)] [] (by simp [RepL, ht]) (by simpa [szQ, szRL] using hs)
  exact ⟨_, this⟩

/-- closed form of the three recursive listings under the invariant: with the fuel the executable model
    supplies they return the pre-order (resp. post-order) of the represented tree, which lists exactly the
    nodes below the start node, each once -/
theorem traversals_total {a : Arena} (hinv : Inv a) (i : Nat) (hl : live a i) :
    ∃ t, Rep a i t ∧ preorderF (fuelOf a) a i = some (pre t) ∧ postorderF (fuelOf a) a i = some (post t) ∧
      (pre t).Nodup ∧ (post t).Nodup ∧ (∀ v, v ∈ pre t ↔ ∃ k, BelowK a i v k) ∧
      (∀ v, v ∈ post t ↔ ∃ k, BelowK a i v k) := by
  obtain ⟨t, ht, _, hh, _⟩ := rep_total hinv i hl
  have hnd := pre_nodup hinv.toW t i ht
  refine ⟨t, ht, preorder_rep a t _ i ht hh, postorder_rep a t _ i ht hh, hnd,
    (post_perm t).nodup_iff.2 hnd, mem_pre_iff hinv.toW t i ht, fun v => ?_⟩
  rw [(post_perm t).mem_iff]
  exact mem_pre_iff hinv.toW t i ht v

end AR
