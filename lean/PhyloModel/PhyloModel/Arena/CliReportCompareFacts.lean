import PhyloModel.Arena.CliReportFacts
import PhyloModel.Props.C07
/-! Facts about the `compare` rows of the command-line model (`Arena/CliReport.lean`), used by `Props/C18Report.lean`. -/
namespace CLIR
open AR SPM

theorem bind_eq_ok {α β : Type} (x : QR α) (f : α → QR β) (v : β) :
    (x >>= f) = .ok v ↔ ∃ u, x = .ok u ∧ f u = .ok v := by
  cases x <;> simp

theorem absRoot_ok_root {a : Arena} {t : Rose} (h : absRoot a = .ok t) : ∃ r, getRoot a = some r := by
  unfold absRoot root at h
  cases hr : getRoot a with
  | none => simp [hr, QR.ofOpt] at h
  | some r => exact ⟨r, rfl⟩

/-- on an arena with a tree, `get_partitions` is the bipartition set of the abstract tree -/
theorem partsOf_of_absRoot {a : Arena} {t : Rose} (h : absRoot a = .ok t) :
    partsOf a = (do let _ ← leafIndex t; partitions t) := by
  obtain ⟨r, hr⟩ := absRoot_ok_root h
  unfold partsOf partitionsArena
  simp only [hr, h, QR.bind_ok]
  cases leafIndex t with
  | ok ls => cases partitions t <;> rfl
  | err k => rfl
  | panic => rfl

theorem partitions_ok_leafIndex {t : Rose} {ps : List Part} (h : partitions t = .ok ps) : ∃ ls, leafIndex t = .ok ls := by
  unfold partitions at h
  cases hl : leafIndex t with
  | ok ls => exact ⟨ls, rfl⟩
  | err k => simp [hl] at h
  | panic => simp [hl] at h

theorem partsOf_of_absRoot_ok {a : Arena} {t : Rose} {ps : List Part} (h : absRoot a = .ok t) (hp : partitions t = .ok ps) :
    partsOf a = .ok ps := by
  obtain ⟨ls, hl⟩ := partitions_ok_leafIndex hp
  rw [partsOf_of_absRoot h, hl, QR.bind_ok, hp]

/-- everything a successful `compareTopologies` says about its intermediate values -/
theorem compareTopologies_ok {s o : Rose} {st : Report} (h : compareTopologies s o = .ok st) :
    ∃ ls ps po ms mo, leafIndex s = .ok ls ∧ leafIndex o = .ok ls ∧ partitions s = .ok ps ∧ partitions o = .ok po ∧
      withLengths ps = .ok ms ∧ withLengths po = .ok mo := by
  unfold compareTopologies at h
  cases hps : partitions s with
  | err k => simp [hps] at h
  | panic => simp [hps] at h
  | ok ps =>
    cases hms : withLengths ps with
    | err k => simp [hps, hms] at h
    | panic => simp [hps, hms] at h
    | ok ms =>
      cases hpo : partitions o with
      | err k => simp [hps, hms, hpo] at h
      | panic => simp [hps, hms, hpo] at h
      | ok po =>
        cases hmo : withLengths po with
        | err k => simp [hps, hms, hpo, hmo] at h
        | panic => simp [hps, hms, hpo, hmo] at h
        | ok mo =>
          obtain ⟨ls, hls⟩ := partitions_ok_leafIndex hps
          obtain ⟨lo, hlo⟩ := partitions_ok_leafIndex hpo
          simp only [hps, hms, hpo, hmo, hls, hlo, QR.bind_ok] at h
          by_cases hne : ls = lo
          · subst hne
            exact ⟨ls, ps, po, ms, mo, hls, hlo, rfl, rfl, hms, hmo⟩
          · have h1 : (ls != lo) = true := by simpa using hne
            simp [h1] at h

/-- a successful row, spelled out -/
theorem compareRow_ok_iff (ref cmp : Arena) (row : CompareRow) :
    cliCompareRow ref cmp = .ok row ↔
      ∃ s o ps po st, absRoot ref = .ok s ∧ absRoot cmp = .ok o ∧ partitions s = .ok ps ∧ partitions o = .ok po ∧
        compareTopologies s o = .ok st ∧
        row = ((compareColumns ps po).1, (compareColumns ps po).2.1, (compareColumns ps po).2.2, st) := by
  constructor
  · intro h
    simp only [cliCompareRow, compareRowWith, bind_eq_ok, QR.pure_eq, QR.ok.injEq] at h
    obtain ⟨pr, hpr, pc, hpc, st, ⟨s, hs, o, ho, hst⟩, hrow⟩ := h
    obtain ⟨ls, ps, po, ms, mo, hls, hlo, hps, hpo, hms, hmo⟩ := compareTopologies_ok hst
    rw [partsOf_of_absRoot_ok hs hps] at hpr
    rw [partsOf_of_absRoot_ok ho hpo] at hpc
    cases hpr; cases hpc
    exact ⟨s, o, _, _, st, hs, ho, hps, hpo, hst, hrow.symm⟩
  · rintro ⟨s, o, ps, po, st, hs, ho, hps, hpo, hst, rfl⟩
    simp only [cliCompareRow, compareRowWith, partsOf_of_absRoot_ok hs hps, partsOf_of_absRoot_ok ho hpo, hs, ho, hst,
      QR.bind_ok, QR.pure_eq]


/-! ### the three counting columns -/

theorem inter_le_left (a b : List Side) : inter a b ≤ a.length := List.length_filter_le _ _

theorem sides_length (ps : List Part) : (sides ps).length = ps.length := by simp [sides]

theorem columns_facts (ps po : List Part) (hs : (sides ps).Nodup) (ho : (sides po).Nodup) :
    (compareColumns ps po).1 + (compareColumns ps po).2.1 = ps.length ∧
    (compareColumns ps po).2.2 + (compareColumns ps po).2.1 = po.length ∧
    (compareColumns ps po).1 + (compareColumns ps po).2.2 = C06.delta ps po ∧
    (compareColumns ps po).1 = ((sides ps).filter (fun x => !(sides po).contains x)).length ∧
    (compareColumns ps po).2.2 = ((sides po).filter (fun x => !(sides ps).contains x)).length ∧
    (compareColumns ps po).2.1 = ((sides ps).filter (fun x => (sides po).contains x)).length := by
  have h1 := inter_le_left (sides ps) (sides po)
  have h2 := inter_le_left (sides po) (sides ps)
  have h3 := inter_symm (sides ps) (sides po) hs ho
  have h4 := length_filter_split (fun x => (sides po).contains x) (sides ps)
  have h5 := length_filter_split (fun x => (sides ps).contains x) (sides po)
  rw [sides_length] at h1 h2 h4 h5
  simp only [compareColumns, C06.delta]
  unfold inter at *
  refine ⟨by omega, by omega, by omega, by omega, by omega, rfl⟩

theorem columns_swap (ps po : List Part) (hs : (sides ps).Nodup) (ho : (sides po).Nodup) :
    compareColumns po ps = ((compareColumns ps po).2.2, (compareColumns ps po).2.1, (compareColumns ps po).1) := by
  simp only [compareColumns, inter_symm (sides po) (sides ps) ho hs]

theorem inter_congr {a a' b b' : List Side} (ha : a.Perm a') (hb : ∀ x, x ∈ b ↔ x ∈ b') : inter a b = inter a' b' := by
  unfold inter
  have hf : (fun s => b.contains s) = (fun s => b'.contains s) := by
    funext s
    have := hb s
    by_cases h : s ∈ b <;> simp_all
  rw [hf]
  exact (ha.filter _).length_eq

/-- the columns depend only on the two SETS of bipartitions -/
theorem columns_congr {ps ps' po po' : List Part} (hs : (sides ps).Nodup) (hs' : (sides ps').Nodup)
    (ho : (sides po).Nodup) (ho' : (sides po').Nodup)
    (h1 : ∀ x, x ∈ sides ps ↔ x ∈ sides ps') (h2 : ∀ x, x ∈ sides po ↔ x ∈ sides po') :
    compareColumns ps po = compareColumns ps' po' := by
  have p1 := (List.perm_ext_iff_of_nodup hs hs').mpr h1
  have p2 := (List.perm_ext_iff_of_nodup ho ho').mpr h2
  have l1 := p1.length_eq
  have l2 := p2.length_eq
  rw [sides_length, sides_length] at l1 l2
  simp only [compareColumns, inter_congr p1 h2, l1, l2]

/-! ### the library report is symmetric -/

theorem compareTopologies_symm {s o : Rose} {st : Report} (h : compareTopologies s o = .ok st) :
    compareTopologies o s = .ok st := by
  obtain ⟨ls, ps, po, ms, mo, hls, hlo, hps, hpo, hms, hmo⟩ := compareTopologies_ok h
  have nds : (ms.map (·.1)).Nodup := by rw [withLengths_keys ps ms hms]; exact C05.partitions_nodup s ps hps
  have ndo : (mo.map (·.1)).Nodup := by rw [withLengths_keys po mo hmo]; exact C05.partitions_nodup o po hpo
  simp only [compareTopologies, hps, hpo, hms, hmo, hls, hlo, QR.bind_ok, bne_self_eq_false, Bool.false_eq_true,
    ↓reduceIte, QR.pure_eq, QR.ok.injEq] at h ⊢
  rw [← h, inter_symm _ _ nds ndo, C06.sameSet_symm (rootSides ls o), sumOver_symm iabs iabs_neg ms mo nds ndo,
    sumOver_symm (fun x => x * x) (fun x => Int.neg_mul_neg x x) ms mo nds ndo, Nat.add_comm ms.length,
    Bool.and_comm (isRootedR o)]

theorem compareTopologies_total {s o : Rose} {st : Report} {ps po : List Part} (h : compareTopologies s o = .ok st)
    (hps : partitions s = .ok ps) (hpo : partitions o = .ok po) : st.2.1 = po.length + ps.length := by
  obtain ⟨ls, ps', po', ms, mo, hls, hlo, hps', hpo', hms, hmo⟩ := compareTopologies_ok h
  rw [hps] at hps'; cases hps'
  rw [hpo] at hpo'; cases hpo'
  have l1 : ms.length = ps.length := by
    have := congrArg List.length (withLengths_keys ps ms hms); simpa [sides] using this
  have l2 : mo.length = po.length := by
    have := congrArg List.length (withLengths_keys po mo hmo); simpa [sides] using this
  simp only [compareTopologies, hps, hpo, hms, hmo, hls, hlo, QR.bind_ok, bne_self_eq_false, Bool.false_eq_true,
    ↓reduceIte, QR.pure_eq, QR.ok.injEq] at h
  rw [← h, l1, l2]

theorem exists_rows_of_forall {α β : Type} (f : α → QR β) : ∀ ps : List α, (∀ p ∈ ps, ∃ r, f p = .ok r) →
    ∃ rows : List β, ps.map f = rows.map QR.ok
  | [], _ => ⟨[], rfl⟩
  | p :: ps, h => by
    obtain ⟨r, hr⟩ := h p (by simp)
    obtain ⟨rs, hrs⟩ := exists_rows_of_forall f ps (fun q hq => h q (List.mem_cons_of_mem _ hq))
    exact ⟨r :: rs, by simp [hr, hrs]⟩

/-- swapping the two trees swaps the outer columns and keeps the rest of the row -/
theorem compareRow_swap {ref cmp : Arena} {ro c co : Nat} {st : Report} (h : cliCompareRow ref cmp = .ok (ro, c, co, st)) :
    cliCompareRow cmp ref = .ok (co, c, ro, st) := by
  obtain ⟨s, o, ps, po, st', hs, ho, hps, hpo, hst, hrow⟩ := (compareRow_ok_iff ref cmp _).mp h
  simp only [Prod.mk.injEq] at hrow
  obtain ⟨rfl, rfl, rfl, rfl⟩ := hrow
  refine (compareRow_ok_iff cmp ref _).mpr ⟨o, s, po, ps, _, ho, hs, hpo, hps, compareTopologies_symm hst, ?_⟩
  rw [columns_swap ps po (C05.partitions_nodup s ps hps) (C05.partitions_nodup o po hpo)]

/-! ### the rows of `compare` -/

theorem compareRowWith_eq {ref : Arena} {pr : List Part} (h : partsOf ref = .ok pr) (c : Arena) :
    compareRowWith ref pr c = cliCompareRow ref c := by
  simp [cliCompareRow, h]

theorem zip_fst_snd {α β : Type} : ∀ l : List (α × β), (l.map (·.1)).zip (l.map (·.2)) = l
  | [] => rfl
  | x :: xs => by simp [zip_fst_snd xs]

theorem zip_range_eq {α : Type} (rows : List (Nat × α)) (n : Nat) (h : rows.map (·.1) = List.range n) :
    rows = (List.range (rows.map (·.2)).length).zip (rows.map (·.2)) := by
  have hn : n = rows.length := by
    have := congrArg List.length h
    simpa using this.symm
  subst hn
  rw [List.length_map, ← h, zip_fst_snd]

/-- the whole `compare` table: the reference has a bipartition set, row `i` is the row of `compare REF Ci`, numbered `i` -/
theorem cliCompare_ok_iff (ref : Arena) (cmps : List Arena) (rows : List (Nat × CompareRow)) :
    cliCompare ref cmps = .ok rows ↔
      (∃ pr, partsOf ref = .ok pr) ∧ cmps.map (cliCompareRow ref) = (rows.map (·.2)).map QR.ok ∧
        rows.map (·.1) = List.range cmps.length := by
  constructor
  · intro h
    simp only [cliCompare, bind_eq_ok, QR.pure_eq, QR.ok.injEq] at h
    obtain ⟨pr, hpr, rs, hrs, rfl⟩ := h
    rw [mapQ_ok_iff] at hrs
    have hl : cmps.length = rs.length := by simpa using congrArg List.length hrs
    have hf : (fun c => compareRowWith ref pr c) = cliCompareRow ref := funext (compareRowWith_eq hpr)
    refine ⟨⟨pr, hpr⟩, ?_, ?_⟩
    · rw [← hf, hrs, List.map_snd_zip (by simp)]
    · rw [List.map_fst_zip (by simp), hl]
  · rintro ⟨⟨pr, hpr⟩, h1, h2⟩
    have hf : (fun c => compareRowWith ref pr c) = cliCompareRow ref := funext (compareRowWith_eq hpr)
    have hm : mapQ (compareRowWith ref pr) cmps = .ok (rows.map (·.2)) := by
      rw [mapQ_ok_iff, ← h1, ← hf]
    simp only [cliCompare, hpr, hm, QR.bind_ok, QR.pure_eq, QR.ok.injEq]
    exact (zip_range_eq rows _ h2).symm


theorem mapQ_append {α β : Type} (f : α → QR β) (xs ys : List α) (rs : List β) :
    mapQ f (xs ++ ys) = .ok rs ↔ ∃ r1 r2, mapQ f xs = .ok r1 ∧ mapQ f ys = .ok r2 ∧ rs = r1 ++ r2 := by
  simp only [mapQ_ok_iff, List.map_append]
  constructor
  · intro h
    obtain ⟨l1, l2, rfl, h1, h2⟩ := List.map_eq_append_iff.mp h.symm
    exact ⟨l1, l2, h1.symm, h2.symm, rfl⟩
  · rintro ⟨r1, r2, h1, h2, rfl⟩
    simp [h1, h2]

theorem number_append {α : Type} (r1 r2 : List α) :
    (List.range (r1 ++ r2).length).zip (r1 ++ r2) =
      (List.range r1.length).zip r1 ++ ((List.range r2.length).zip r2).map (fun p => (p.1 + r1.length, p.2)) := by
  rw [List.length_append, List.range_add, List.zip_append (by simp), List.zip_map_left]
  congr 1
  apply List.map_congr_left
  intro p _
  simp [Prod.map, Nat.add_comm]

/-- `compare REF (xs ++ ys)` is `compare REF xs` followed by `compare REF ys` renumbered -/
theorem cliCompare_append (ref : Arena) (xs ys : List Arena) (rows : List (Nat × CompareRow)) :
    cliCompare ref (xs ++ ys) = .ok rows ↔
      ∃ r1 r2, cliCompare ref xs = .ok r1 ∧ cliCompare ref ys = .ok r2 ∧
        rows = r1 ++ r2.map (fun p => (p.1 + xs.length, p.2)) := by
  simp only [cliCompare, bind_eq_ok, QR.pure_eq, QR.ok.injEq, mapQ_append]
  constructor
  · rintro ⟨pr, hpr, rs, ⟨r1, r2, h1, h2, rfl⟩, rfl⟩
    refine ⟨_, _, ⟨pr, hpr, r1, h1, rfl⟩, ⟨pr, hpr, r2, h2, rfl⟩, ?_⟩
    have hl : xs.length = r1.length := by simpa using congrArg List.length ((mapQ_ok_iff _ _ _).mp h1)
    rw [hl, number_append]
  · rintro ⟨_, _, ⟨pr, hpr, r1, h1, rfl⟩, ⟨pr', hpr', r2, h2, rfl⟩, rfl⟩
    rw [hpr] at hpr'; cases hpr'
    refine ⟨pr, hpr, r1 ++ r2, ⟨r1, r2, h1, h2, rfl⟩, ?_⟩
    have hl : xs.length = r1.length := by simpa using congrArg List.length ((mapQ_ok_iff _ _ _).mp h1)
    rw [hl, number_append]

/-! ### refusals of a row -/

theorem compareRow_different_leaves {ref cmp : Arena} {s o : Rose} {ps po : List Part} {ms mo : List (Side × Nat × Int)}
    {ls lo : List String} (hs : absRoot ref = .ok s) (ho : absRoot cmp = .ok o)
    (hps : partitions s = .ok ps) (hpo : partitions o = .ok po) (hms : withLengths ps = .ok ms) (hmo : withLengths po = .ok mo)
    (hls : leafIndex s = .ok ls) (hlo : leafIndex o = .ok lo) (hne : ls ≠ lo) :
    cliCompareRow ref cmp = .err "DifferentTipIndices" := by
  have h1 : (ls != lo) = true := by simpa using hne
  simp only [cliCompareRow, compareRowWith, partsOf_of_absRoot_ok hs hps, partsOf_of_absRoot_ok ho hpo, hs, ho,
    compareTopologies, hps, hpo, hms, hmo, hls, hlo, h1, QR.bind_ok, ↓reduceIte, QR.bind_err]

theorem compareRow_missing_length {ref cmp : Arena} {s o : Rose} {ps po : List Part}
    (hs : absRoot ref = .ok s) (ho : absRoot cmp = .ok o)
    (hps : partitions s = .ok ps) (hpo : partitions o = .ok po)
    (hmiss : ps.any (fun p => p.len.isNone) = true ∨ po.any (fun p => p.len.isNone) = true) :
    cliCompareRow ref cmp = .err "MissingBranchLengths" := by
  have hw : ∀ qs : List Part, qs.any (fun p => p.len.isNone) = true → withLengths qs = .err "MissingBranchLengths" := by
    intro qs h; simp [withLengths, h]
  simp only [cliCompareRow, compareRowWith, partsOf_of_absRoot_ok hs hps, partsOf_of_absRoot_ok ho hpo, hs, ho,
    compareTopologies, hps, hpo, QR.bind_ok]
  rcases hmiss with h | h
  · simp [hw ps h]
  · by_cases hp : ps.any (fun p => p.len.isNone) = true
    · simp [hw ps hp]
    · have : withLengths ps = .ok (ps.map (fun p => (p.side, p.depth, p.len.getD 0))) := by simp [withLengths, hp]
      simp [this, hw po h]


/-! ### `compare` ends with rows or with an error exit -/

theorem np_leafIndex (t : Rose) : NP (leafIndex t) := by
  unfold leafIndex
  simp only
  split
  · exact np_err _
  · split
    · exact np_err _
    · exact np_ok _

theorem np_partitions (t : Rose) : NP (partitions t) := np_bind (np_leafIndex t) fun _ => np_pure _

theorem np_withLengths (ps : List Part) : NP (withLengths ps) := by
  unfold withLengths
  split
  · exact np_err _
  · exact np_ok _

theorem np_absRoot (a : Arena) : NP (absRoot a) := np_bind (np_root a) fun _ => np_ofOpt _ _

theorem np_compareTopologies (s o : Rose) : NP (compareTopologies s o) := by
  unfold compareTopologies
  refine np_bind (np_bind (np_partitions s) np_withLengths) fun ms => ?_
  refine np_bind (np_bind (np_partitions o) np_withLengths) fun mo => ?_
  refine np_bind (np_leafIndex s) fun ls => np_bind (np_leafIndex o) fun lo => ?_
  split
  · exact np_err _
  · exact np_pure _

theorem np_partitionsArena (a : Arena) : NP (partitionsArena a) := by
  unfold partitionsArena
  split
  · split
    · exact np_err _
    · exact np_ok _
  · exact np_bind (np_absRoot a) fun t => np_bind (np_leafIndex t) fun _ => np_bind (np_partitions t) fun _ => np_pure _

theorem np_partsOf (a : Arena) : NP (partsOf a) := np_bind (np_partitionsArena a) fun _ => np_pure _

theorem np_compareRowWith (ref : Arena) (pr : List Part) (cmp : Arena) : NP (compareRowWith ref pr cmp) :=
  np_bind (np_partsOf cmp) fun _ =>
    np_bind (np_bind (np_absRoot ref) fun s => np_bind (np_absRoot cmp) fun o => np_compareTopologies s o) fun _ => np_pure _

theorem bind_eq_err {α β : Type} (x : QR α) (f : α → QR β) (k : String) :
    (x >>= f) = .err k ↔ x = .err k ∨ ∃ u, x = .ok u ∧ f u = .err k := by
  cases x <;> simp

theorem np_cliCompare (ref : Arena) (cmps : List Arena) : NP (cliCompare ref cmps) :=
  np_bind (np_partsOf ref) fun pr => np_bind (mapQ_np _ (np_compareRowWith ref pr) _) fun _ => np_pure _

/-- when `compare` is an error exit: the reference has no bipartition set, or the first compared tree without a row -/
theorem cliCompare_err_iff (ref : Arena) (cmps : List Arena) (k : String) :
    cliCompare ref cmps = .err k ↔
      partsOf ref = .err k ∨
      ((∃ pr, partsOf ref = .ok pr) ∧ ∃ pre c post, cmps = pre ++ c :: post ∧
        (∀ q ∈ pre, ∃ r, cliCompareRow ref q = .ok r) ∧ cliCompareRow ref c = .err k) := by
  unfold cliCompare
  rw [bind_eq_err]
  constructor
  · rintro (h | ⟨pr, hpr, h⟩)
    · exact .inl h
    · right
      rw [bind_eq_err] at h
      rcases h with h | ⟨_, _, h⟩
      · rw [mapQ_err_iff _ (np_compareRowWith ref pr)] at h
        obtain ⟨pre, c, post, he, hpre, hc⟩ := h
        refine ⟨⟨pr, hpr⟩, pre, c, post, he, ?_, ?_⟩
        · intro q hq
          rw [← compareRowWith_eq hpr]; exact hpre q hq
        · rw [← compareRowWith_eq hpr]; exact hc
      · cases h
  · rintro (h | ⟨⟨pr, hpr⟩, pre, c, post, he, hpre, hc⟩)
    · exact .inl h
    · right
      refine ⟨pr, hpr, ?_⟩
      rw [bind_eq_err]
      left
      rw [mapQ_err_iff _ (np_compareRowWith ref pr)]
      refine ⟨pre, c, post, he, ?_, ?_⟩
      · intro q hq
        rw [compareRowWith_eq hpr]; exact hpre q hq
      · rw [compareRowWith_eq hpr]; exact hc

end CLIR
