import PhyloModel.Arena.QueryRefineDiam
/-! # Node-to-node distances as a function of the abstract tree

Nodes are addressed id-free by their position in the pre-order of the tree.  `distNL T i j` is the textbook
answer of `get_distance` between the `i`-th and the `j`-th node of `T` (sum of the branch lengths on the
connecting path, absent when one is absent; number of edges), computed from the root-to-node paths of `T`.
`distance_refines`: the executable `distance` between the `i`-th and `j`-th node of the abstract tree of an
arena returns `distNL (erase t) i j`. -/
namespace AR

/-! ### root-to-node paths -/

mutual
/-- for every node, in pre-order, the steps (kid index, branch length) leading from the root to it -/
def nodePathsNL : RoseNL → List (List Step)
  | .node _ _ ks => [] :: nodePathsNLL 0 ks
def nodePathsNLL : Nat → List RoseNL → List (List Step)
  | _, [] => []
  | j, k :: ks => (nodePathsNL k).map (fun p => (j, k.len) :: p) ++ nodePathsNLL (j + 1) ks
end

/-- `get_distance` between the `i`-th and `j`-th node (pre-order positions) -/
def distNL (T : RoseNL) (i j : Nat) : Option Int × Nat :=
  let P := nodePathsNL T
  let p := joinPaths (P.getD i []) (P.getD j [])
  (optSum (p.map (·.2)), p.length)

mutual
def nodeSteps : RTI → List (List (Nat × Nat))
  | .node _ ks => [] :: nodeStepsL 0 ks
def nodeStepsL : Nat → List RTI → List (List (Nat × Nat))
  | _, [] => []
  | j, k :: ks => (nodeSteps k).map (fun s => (j, k.id) :: s) ++ nodeStepsL (j + 1) ks
end

mutual
theorem nodePathsNL_dec (a : Arena) : ∀ t : RTI,
    nodePathsNL (dec a t) = (nodeSteps t).map (fun s => s.map (stepF a))
  | .node i ks => by
    have := nodePathsNLL_dec a 0 ks
    simp only [dec, decorate, erase, nodePathsNL, nodeSteps, eraseL_decorateL, List.map_cons, List.map_nil]
    rw [this]
theorem nodePathsNLL_dec (a : Arena) : ∀ (j : Nat) (ts : List RTI),
    nodePathsNLL j (ts.map (dec a)) = (nodeStepsL j ts).map (fun s => s.map (stepF a))
  | _, [] => by simp [nodePathsNLL, nodeStepsL]
  | j, k :: ks => by
    simp only [List.map_cons, nodePathsNLL, nodeStepsL, List.map_append, List.map_map, nodePathsNL_dec a k,
      nodePathsNLL_dec a (j + 1) ks]
    congr 1
    apply List.map_congr_left
    intro s _
    simp [stepF]
end

mutual
/-- the step lists end, in pre-order, at the nodes of the tree -/
theorem nodeSteps_ends : ∀ (t : RTI), (nodeSteps t).map (fun s => endOf t.id (idsOf s)) = pre t
  | .node j ks => by
    have := nodeStepsL_ends 0 ks j
    simp only [nodeSteps, List.map_cons, pre, RTI.id, this]
    simp [idsOf, endOf]
theorem nodeStepsL_ends : ∀ (j : Nat) (ts : List RTI) (i : Nat),
    (nodeStepsL j ts).map (fun s => endOf i (idsOf s)) = preL ts
  | _, [], _ => by simp [nodeStepsL, preL]
  | j, t :: ts, i => by
    have h1 := nodeSteps_ends t
    have h2 := nodeStepsL_ends (j + 1) ts i
    simp only [nodeStepsL, List.map_append, List.map_map, preL, h2, ← h1]
    congr 1
end

mutual
theorem nodeSteps_path {a : Arena} {rk : Nat → Nat} (w : W a rk) : ∀ (t : RTI) (i : Nat) (lp : List Nat),
    Rep a i t → Path a lp i → ∀ s ∈ nodeSteps t, Path a (lp ++ idsOf s) (endOf i (idsOf s))
  | .node j ks, i, lp, h, hp, s, hs => by
    simp only [Rep] at h
    obtain ⟨rfl, hl, hk⟩ := h
    simp only [nodeSteps, List.mem_cons] at hs
    rcases hs with rfl | hs
    · simpa [idsOf, endOf] using hp
    · exact nodeStepsL_path w 0 ks _ i lp hl (fun c hc => hc) hk hp s hs
theorem nodeStepsL_path {a : Arena} {rk : Nat → Nat} (w : W a rk) : ∀ (j : Nat) (ts : List RTI) (cs : List Nat)
    (i : Nat) (lp : List Nat), live a i → (∀ c ∈ cs, c ∈ (nd a i).children) → RepL a cs ts → Path a lp i →
    ∀ s ∈ nodeStepsL j ts, Path a (lp ++ idsOf s) (endOf i (idsOf s))
  | _, [], _, _, _, _, _, _, _, s, hs => by simp [nodeStepsL] at hs
  | j, t :: ts, cs, i, lp, hl, hsub, h, hp, s, hs => by
    cases cs with
    | nil => simp [RepL] at h
    | cons c cs =>
      simp only [RepL] at h
      simp only [nodeStepsL, List.mem_append, List.mem_map] at hs
      rcases hs with ⟨s', hs', rfl⟩ | hs
      · have hc := w.child_ok i c hl (hsub c (by simp))
        have hpc : Path a (lp ++ [c]) c := Path.step hp hc.1 hc.2.1
        have := nodeSteps_path w t c (lp ++ [c]) h.1 hpc s' hs'
        simpa [idsOf, endOf, h.1.id_eq] using this
      · exact nodeStepsL_path w (j + 1) ts cs i lp hl (fun c' hc' => hsub c' (by simp [hc'])) h.2 hp s hs
end

theorem nodeStepsL_head {a : Arena} : ∀ (j : Nat) (ts : List RTI) (cs : List Nat), RepL a cs ts →
    ∀ s ∈ nodeStepsL j ts, ∃ j' c rest, s = (j', c) :: rest ∧ j ≤ j' ∧ c ∈ cs
  | _, [], _, _, s, hs => by simp [nodeStepsL] at hs
  | j, t :: ts, cs, h, s, hs => by
    cases cs with
    | nil => simp [RepL] at h
    | cons c cs =>
      simp only [RepL] at h
      simp only [nodeStepsL, List.mem_append, List.mem_map] at hs
      rcases hs with ⟨s', _, rfl⟩ | hs
      · exact ⟨j, c, s', by rw [h.1.id_eq], Nat.le_refl _, by simp⟩
      · obtain ⟨j', c', rest, e, hj, hc⟩ := nodeStepsL_head (j + 1) ts cs h.2 s hs
        exact ⟨j', c', rest, e, by omega, by simp [hc]⟩

theorem coh_nil_left (s : List (Nat × Nat)) : Coh [] s := by simp [Coh]
theorem coh_nil_right (s : List (Nat × Nat)) : Coh s [] := by cases s <;> simp [Coh]

mutual
theorem nodeSteps_coh {a : Arena} {rk : Nat → Nat} (w : W a rk) : ∀ (t : RTI) (i : Nat), Rep a i t →
    ∀ sx ∈ nodeSteps t, ∀ sy ∈ nodeSteps t, Coh sx sy
  | .node j ks, i, h, sx, hx, sy, hy => by
    simp only [Rep] at h
    obtain ⟨rfl, _, hk⟩ := h
    simp only [nodeSteps, List.mem_cons] at hx hy
    rcases hx with rfl | hx
    · exact coh_nil_left _
    · rcases hy with rfl | hy
      · exact coh_nil_right _
      · exact nodeStepsL_coh w 0 ks _ (w.nodup i) hk sx hx sy hy
theorem nodeStepsL_coh {a : Arena} {rk : Nat → Nat} (w : W a rk) : ∀ (j : Nat) (ts : List RTI) (cs : List Nat),
    cs.Nodup → RepL a cs ts → ∀ sx ∈ nodeStepsL j ts, ∀ sy ∈ nodeStepsL j ts, Coh sx sy
  | _, [], _, _, _, sx, hx, _, _ => by simp [nodeStepsL] at hx
  | j, t :: ts, cs, hnd, h, sx, hx, sy, hy => by
    cases cs with
    | nil => simp [RepL] at h
    | cons c cs =>
      simp only [RepL] at h
      simp only [List.nodup_cons] at hnd
      simp only [nodeStepsL, List.mem_append, List.mem_map] at hx hy
      have hid := h.1.id_eq
      rcases hx with ⟨sx', hx', rfl⟩ | hx <;> rcases hy with ⟨sy', hy', rfl⟩ | hy
      · simp only [Coh, true_and]
        exact fun _ => nodeSteps_coh w t c h.1 sx' hx' sy' hy'
      · obtain ⟨j', c', rest, rfl, hj, hc⟩ := nodeStepsL_head (j + 1) ts cs h.2 sy hy
        have h1 : ¬ j = j' := by omega
        have h2 : ¬ t.id = c' := by rw [hid]; intro e; exact hnd.1 (e ▸ hc)
        simp [Coh, h1, h2]
      · obtain ⟨j', c', rest, rfl, hj, hc⟩ := nodeStepsL_head (j + 1) ts cs h.2 sx hx
        have h1 : ¬ j' = j := by omega
        have h2 : ¬ c' = t.id := by rw [hid]; intro e; exact hnd.1 (e ▸ hc)
        simp [Coh, h1, h2]
      · exact nodeStepsL_coh w (j + 1) ts cs hnd.2 h.2 sx hx sy hy
end

theorem joinIds_self : ∀ q : List Nat, joinIds q q = []
  | [] => by simp [joinIds_nil_left]
  | x :: xs => by rw [joinIds_cons]; simp [joinIds_self xs]

/-- positions: the `i`-th node of the tree and its step list -/
theorem pre_getElem? {a : Arena} {t : Rose} {r : Nat} {t0 : RTI} (c : RootCtx a t r t0) (i x : Nat)
    (h : (idsR t)[i]? = some x) : ∃ s, (nodeSteps t0)[i]? = some s ∧ s ∈ nodeSteps t0 ∧ endOf r (idsOf s) = x := by
  rw [c.dec, idsR_decorate, ← nodeSteps_ends t0, List.getElem?_map, t0_id c] at h
  cases hs : (nodeSteps t0)[i]? with
  | none => rw [hs] at h; simp at h
  | some s =>
    rw [hs] at h
    simp only [Option.map_some, Option.some.injEq] at h
    exact ⟨s, rfl, List.mem_of_getElem? hs, h⟩

/-- **`get_distance` between any two nodes** of the tree, addressed by their pre-order positions, is the
    textbook path length of the erased tree -/
theorem distance_refines {a : Arena} (g : Good a) (h1 : AtMostOneRoot a) {t : Rose} (h : absRoot a = .ok t)
    (i j x y : Nat) (hx : (idsR t)[i]? = some x) (hy : (idsR t)[j]? = some y) :
    distance a x y = .ok (distNL (erase t) i j) := by
  obtain ⟨r, t0, c⟩ := absRoot_ctx g h1 h
  have w := g.1.toW
  have hroot : Path a [r] r := Path.root c.is_root.1 c.is_root.2
  obtain ⟨sx, hsx, hmx, rfl⟩ := pre_getElem? c i x hx
  obtain ⟨sy, hsy, hmy, rfl⟩ := pre_getElem? c j y hy
  have px := nodeSteps_path w t0 r [r] c.rep hroot sx hmx
  have py := nodeSteps_path w t0 r [r] c.rep hroot sy hmy
  have hcoh := nodeSteps_coh w t0 r c.rep sx hmx sy hmy
  -- tree side
  have htree : distNL (erase t) i j = edgesOf a (joinIds (idsOf sx) (idsOf sy)) := by
    rw [c.dec, ← dec]
    have hj := coh_join sx sy hcoh
    simp only [distNL, nodePathsNL_dec, List.getD_eq_getElem?_getD, List.getElem?_map, hsx, hsy, Option.map_some,
      Option.getD_some, joinPaths_map, edgesOf, ← hj, List.map_map, List.length_map]
    simp only [idsOf, List.map_map, List.length_map]
    rfl
  rw [htree]
  by_cases hne : endOf r (idsOf sx) = endOf r (idsOf sy)
  · have := Path.unique px (hne ▸ py)
    simp only [List.cons_append, List.nil_append, List.cons.injEq, true_and] at this
    rw [hne, this, joinIds_self]
    simp [distance, edgesOf, optSum]
  · exact distance_paths w px py hne

/-- C04 corollary: the node-to-node distances, nodes addressed by pre-order position, depend only on the tree -/
theorem distances_depend_only_on_tree {a b : Arena} (ga : Good a) (gb : Good b) (ha : AtMostOneRoot a)
    (hb : AtMostOneRoot b) {ta tb : Rose} (hta : absRoot a = .ok ta) (htb : absRoot b = .ok tb)
    (he : erase ta = erase tb) (i j xa ya xb yb : Nat) (h1 : (idsR ta)[i]? = some xa)
    (h2 : (idsR ta)[j]? = some ya) (h3 : (idsR tb)[i]? = some xb) (h4 : (idsR tb)[j]? = some yb) :
    distance a xa ya = distance b xb yb := by
  rw [distance_refines ga ha hta i j xa ya h1 h2, distance_refines gb hb htb i j xb yb h3 h4, he]

end AR
