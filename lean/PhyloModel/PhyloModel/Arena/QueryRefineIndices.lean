import PhyloModel.Arena.QueryRefineBinary
/-! `sackin` and `colless` as functions of the abstract tree -/
namespace AR

/-! ### the rooted-binary guard -/

def checkRBR (t : Rose) : QR Unit :=
  if !isRootedR t then .err "IsNotRooted" else if !isBinaryR t then .err "IsNotBinary" else .ok ()

theorem checkRootedBinary_refines {a : Arena} (g : Good a) (h1 : AtMostOneRoot a) {t : Rose}
    (h : absRoot a = .ok t) : checkRootedBinary a = checkRBR t := by
  simp only [checkRootedBinary, isRooted_refines g h1 h, isBinary_refines g h1 h, QR.bind_ok, checkRBR]
  cases isRootedR t <;> cases isBinaryR t <;> rfl

/-! ### Sackin -/

theorem repL_nil {a : Arena} {cs : List Nat} (h : RepL a cs []) : cs = [] := by
  cases cs with
  | nil => rfl
  | cons c cs => simp [RepL] at h

theorem repL_cons_ne {a : Arena} {cs : List Nat} {k : RTI} {ks : List RTI} (h : RepL a cs (k :: ks)) : cs ≠ [] := by
  cases cs with
  | nil => simp [RepL] at h
  | cons c cs => simp

mutual
theorem tipDepthSum_pre (a : Arena) : ∀ (t : RTI) (i : Nat), Rep a i t →
    C12.tipDepthSum a t = (((pre t).filter (tipp a)).map (fun i => (nd a i).depth)).sum
  | .node j [], i, h => by
    simp only [Rep] at h
    obtain ⟨rfl, _, hk⟩ := h
    have := repL_nil hk
    simp [C12.tipDepthSum, pre, preL, tipp, this]
  | .node j (k :: ks), i, h => by
    simp only [Rep] at h
    obtain ⟨rfl, _, hk⟩ := h
    have hne := repL_cons_ne hk
    have htip : tipp a i = false := by
      simp only [tipp, List.isEmpty_eq_false_iff]; exact hne
    rw [C12.tipDepthSum, pre, List.filter_cons, htip, tipDepthSumL_pre a (k :: ks) _ hk]
    simp
theorem tipDepthSumL_pre (a : Arena) : ∀ (ts : List RTI) (cs : List Nat), RepL a cs ts →
    C12.tipDepthSumL a ts = (((preL ts).filter (tipp a)).map (fun i => (nd a i).depth)).sum
  | [], _, _ => by simp [C12.tipDepthSumL, preL]
  | t :: ts, cs, h => by
    cases cs with
    | nil => simp [RepL] at h
    | cons c cs =>
      simp only [RepL] at h
      rw [C12.tipDepthSumL, tipDepthSum_pre a t c h.1, tipDepthSumL_pre a ts cs h.2, preL]
      simp
end

mutual
theorem shapeNL_dec (a : Arena) : ∀ t : RTI, shapeNL (dec a t) = C12.shape t
  | .node i ks => by
    have := shapeNLL_dec a ks
    simp only [dec, decorate, erase, shapeNL, C12.shape] at this ⊢
    rw [this]
theorem shapeNLL_dec (a : Arena) : ∀ ts : List RTI, shapeNLL (eraseL (decorateL a ts)) = C12.shape.shapeL ts
  | [] => by simp [decorateL, eraseL, shapeNLL, C12.shape.shapeL]
  | t :: ts => by
    have h1 := shapeNL_dec a t
    have h2 := shapeNLL_dec a ts
    simp only [dec] at h1
    simp only [decorateL, eraseL, shapeNLL, C12.shape.shapeL, h1, h2]
end

/-- `sackin`: refused on unrooted / non-binary trees, otherwise the textbook Sackin index of the tree.  The
    code adds up CACHED depths of the tips; under the invariant these are the edge counts to the root. -/
theorem sackin_refines {a : Arena} (g : Good a) (h1 : AtMostOneRoot a) {t : Rose} (h : absRoot a = .ok t) :
    sackin a = (do checkRBR t; pure (sackinR t)) := by
  obtain ⟨r, t0, c⟩ := absRoot_ctx g h1 h
  simp only [sackin, checkRootedBinary_refines g h1 h]
  congr 1
  funext _
  congr 1
  rw [((leaves_perm_ctx c).map _).sum_nat, ← tipDepthSum_pre a t0 r c.rep,
    C12.sackin_is_textbook a g.1 t0 r c.rep c.is_root.2, c.dec, sackinR, sackinNL, ← dec, shapeNL_dec]

/-! ### Colless -/

theorem mapM_loop_ok {α β : Type} (f : α → QR β) (g : α → β) : ∀ (l : List α) (acc : List β),
    (∀ x ∈ l, f x = .ok (g x)) → List.mapM.loop f l acc = .ok (acc.reverse ++ l.map g)
  | [], acc, _ => by simp [List.mapM.loop]
  | x :: l, acc, h => by
    have hx := h x (by simp)
    have ih := mapM_loop_ok f g l (g x :: acc) (fun y hy => h y (by simp [hy]))
    simp only [List.mapM.loop, hx, QR.bind_ok, ih]
    simp

theorem mapM_ok {α β : Type} (f : α → QR β) (g : α → β) (l : List α) (h : ∀ x ∈ l, f x = .ok (g x)) :
    l.mapM f = .ok (l.map g) := by
  simpa [List.mapM] using mapM_loop_ok f g l [] h

/-- number of tips `get_subtree_leaves` finds below a slot -/
def nTipsBelow (a : Arena) (c : Nat) : Nat :=
  match subtreeLeaves a c with
  | .ok l => l.length
  | _ => 0

theorem subtreeLeaves_rep {a : Arena} (hinv : Inv a) {c : Nat} {k : RTI} (h : Rep a c k) :
    subtreeLeaves a c = .ok ((pre k).filter (tipp a)) := by
  obtain ⟨t', ht', _, hh, _⟩ := rep_total hinv c h.is_live
  have := rep_unique a t' k c ht' h
  subst this
  simp only [subtreeLeaves, subtree, preorder_rep a t' _ c ht' hh, QR.ofOpt, QR.bind_ok, QR.pure_eq]
  rfl

theorem nTipsBelow_rep {a : Arena} (hinv : Inv a) {c : Nat} {k : RTI} (h : Rep a c k) :
    nTipsBelow a c = nLeavesNL (dec a k) := by
  simp only [nTipsBelow, subtreeLeaves_rep hinv h, nLeavesNL_dec h]

/-- the Colless term of a slot, textbook form -/
def collTermB (a : Arena) (i : Nat) : Nat :=
  match (nd a i).children with
  | [l, r] => absDiff (nTipsBelow a l) (nTipsBelow a r)
  | [l] => nTipsBelow a l
  | _ => 0

theorem collessTerm_dec {a : Arena} (hinv : Inv a) {s0 : RTI} (h : Rep a s0.id s0) :
    collessTermNL (dec a s0) = collTermB a s0.id := by
  have hk := h.kids_ids
  have hkid := h.kid
  simp only [collessTermNL, collTermB, dec_kids, ← hk]
  match hm : s0.kids with
  | [] => simp
  | [x] =>
    have hx := hkid x (by simp [hm])
    simp [nTipsBelow_rep hinv hx]
  | [x, y] =>
    have hx := hkid x (by simp [hm])
    have hy := hkid y (by simp [hm])
    simp [nTipsBelow_rep hinv hx, nTipsBelow_rep hinv hy]
  | x :: y :: z :: rest => simp

theorem collessNL_dec {a : Arena} (hinv : Inv a) {i : Nat} {t0 : RTI} (h : Rep a i t0) :
    collessNL (dec a t0) = ((pre t0).map (collTermB a)).sum := by
  have := list_map (a := a) (dec a) collessTermNL (collTermB a) (fun s0 h0 => collessTerm_dec hinv h0)
    (subs t0) (subs_rep t0 i h)
  rw [collessNL, nodesNL_dec, this, subs_ids]

/-- the term the executable `colless` computes for slot `i` -/
def collTermQ (a : Arena) (i : Nat) : QR Nat := do
  let kids := (nd a i).children
  let l ← subtreeLeaves a (kids.getD 0 0)
  let r ← if kids.length > 1 then subtreeLeaves a (kids.getD 1 0) else pure []
  pure (absDiff l.length r.length)

theorem colless_eq (a : Arena) : colless a = (do
    checkRootedBinary a
    let terms ← ((List.range a.size).filter (fun i => !(nd a i).children.isEmpty)).mapM (collTermQ a)
    pure terms.sum) := rfl

theorem absDiff_zero (n : Nat) : absDiff n 0 = n := by unfold absDiff; split <;> omega

theorem collTermQ_ok {a : Arena} (hinv : Inv a) {s0 : RTI} (h : Rep a s0.id s0)
    (h2 : (nd a s0.id).children.length ≤ 2) (h0 : (nd a s0.id).children ≠ []) :
    collTermQ a s0.id = .ok (collTermB a s0.id) := by
  have hk := h.kids_ids
  have hkid := h.kid
  simp only [collTermQ, collTermB]
  rw [← hk] at h2 h0 ⊢
  match hm : s0.kids with
  | [] => simp [hm] at h0
  | [x] =>
    have hx := hkid x (by simp [hm])
    simp [subtreeLeaves_rep hinv hx, nTipsBelow, absDiff_zero]
  | [x, y] =>
    have hx := hkid x (by simp [hm])
    have hy := hkid y (by simp [hm])
    simp [subtreeLeaves_rep hinv hx, subtreeLeaves_rep hinv hy, nTipsBelow]
  | x :: y :: z :: rest => simp [hm] at h2

theorem sum_map_filter_zero (l : List Nat) (p : Nat → Bool) (f : Nat → Nat) (h : ∀ x ∈ l, p x = false → f x = 0) :
    ((l.filter p).map f).sum = (l.map f).sum := by
  induction l with
  | nil => rfl
  | cons x l ih =>
    have ih' := ih (fun y hy => h y (by simp [hy]))
    simp only [List.filter_cons]
    cases hp : p x with
    | true => simp [ih']
    | false => simp [ih', h x (by simp) hp]

/-- `colless`: refused on unrooted / non-binary trees, otherwise the sum over the nodes of the tree of
    `|L − R|`, `L`, `R` the numbers of tips below the two kids (`R = 0` for a node with a single kid) -/
theorem colless_refines {a : Arena} (g : Good a) (h1 : AtMostOneRoot a) {t : Rose} (h : absRoot a = .ok t) :
    colless a = (do checkRBR t; pure (collessR t)) := by
  obtain ⟨r, t0, c⟩ := absRoot_ctx g h1 h
  rw [colless_eq, checkRootedBinary_refines g h1 h]
  simp only [checkRBR]
  cases hr : isRootedR t with
  | false => rfl
  | true =>
  cases hb : isBinaryR t with
  | false => rfl
  | true =>
  simp only [Bool.not_true, Bool.false_eq_true, ↓reduceIte, QR.bind_ok, QR.pure_eq]
  -- arities from the guard
  have hbin := isBinaryNL_dec c
  have hb' : isBinaryNL (dec a t0) = true := by rw [← hb, c.dec, isBinaryR, dec]
  rw [hbin, Bool.and_eq_true, List.all_eq_true] at hb'
  have hr' : (nd a r).children.length = 2 := by
    have := isRooted_refines g h1 h
    rw [isRooted_ctx c, hr] at this
    simpa using this
  have harity : ∀ i ∈ pre t0, (nd a i).children.length ≤ 2 := by
    intro i hi
    rw [c.pre_eq, List.mem_cons] at hi
    rcases hi with rfl | hi
    · omega
    · simpa using hb'.2 i hi
  -- every scanned slot with children is a node of the tree
  have hperm := scan_perm' c (fun i => !(nd a i).children.isEmpty) (by
    intro i _ hp
    rcases c.cases_slot g i with rfl | hi' | ⟨hc, _, _⟩
    · exact (isLive_iff a i).2 c.is_root.1
    · exact (isLive_iff a i).2 (c.nonroot i hi').1
    · simp [hc] at hp)
  have hterms : ∀ i ∈ (List.range a.size).filter (fun i => !(nd a i).children.isEmpty),
      collTermQ a i = .ok (collTermB a i) := by
    intro i hi
    have hi' := hperm.mem_iff.1 hi
    rw [List.mem_filter] at hi'
    obtain ⟨hmem, hne⟩ := hi'
    rw [← subs_ids, List.mem_map] at hmem
    obtain ⟨s0, hs0, rfl⟩ := hmem
    have hrep := subs_rep t0 r c.rep s0 hs0
    refine collTermQ_ok g.1 hrep (harity _ (by rw [← subs_ids]; exact List.mem_map_of_mem hs0)) ?_
    intro he; simp [he] at hne
  rw [mapM_ok _ _ _ hterms]
  simp only [QR.bind_ok, QR.pure_eq]
  congr 1
  rw [(hperm.map _).sum_nat, c.dec, collessR, ← dec, collessNL_dec g.1 c.rep]
  apply sum_map_filter_zero
  intro i _ hp
  have : (nd a i).children = [] := by simpa using hp
  simp [collTermB, this]

end AR
