import PhyloModel.Arena.Group3
/-! The depth repair, stated once: the depth clauses of the invariant hold outside a *dirty* region `P`;
    one `reset_depth_impl` call on a node whose parent is clean removes that node's subtree from the
    dirty region.  Used for `merge_children` on two parentless nodes, for `reset_depths`, and as the
    common shape behind the repairs of `compress_node` and of the regrouping step. -/
namespace AR

/-- the depth clauses of `Inv`, required only for nodes outside `P` -/
structure DOK (a : Arena) (P : Nat → Prop) : Prop where
  edge : ∀ i c, live a i → c ∈ (nd a i).children → ¬ P i → ¬ P c → (nd a c).depth = (nd a i).depth + 1
  root : ∀ i, live a i → (nd a i).parent = none → ¬ P i → (nd a i).depth = 0

theorem DepthOK.toDOK {a : Arena} (h : DepthOK a) (P : Nat → Prop) : DOK a P :=
  ⟨fun i c hl hc _ _ => h.edge i c hl hc, fun i hl hp _ => h.root i hl hp⟩

theorem DOK.toDepthOK {a : Arena} (h : DOK a (fun _ => False)) : DepthOK a :=
  ⟨fun i c hl hc => h.edge i c hl hc (fun x => x) (fun x => x), fun i hl hp => h.root i hl hp (fun x => x)⟩

theorem DOK.mono {a : Arena} {P Q : Nat → Prop} (h : DOK a P) (hpq : ∀ v, P v → Q v) : DOK a Q :=
  ⟨fun i c hl hc hi hc' => h.edge i c hl hc (fun x => hi (hpq _ x)) (fun x => hc' (hpq _ x)),
   fun i hl hp hi => h.root i hl hp (fun x => hi (hpq _ x))⟩

/-- resetting below `x` (whose parent `p` keeps its depth) with `depth p + 1` cleans the subtree of `x` -/
theorem reset_clean {g g' : Arena} {r : Nat → Nat} (w : W g r) (x p : Nat) (P : Nat → Prop)
    (hlx : live g x) (hpar : (nd g x).parent = some p)
    (hd : DOK g (fun v => P v ∨ ∃ k, BelowK g x v k))
    (ok : ResetOK g g' x ((nd g p).depth + 1)) : DOK g' P := by
  have hlive : ∀ i, live g' i ↔ live g i := ok.eqv.live_iff
  obtain ⟨hlp, hxmem⟩ := w.parent_ok x p hlx hpar
  have hrank := (w.child_ok p x hlp hxmem).2.2
  have hpout : ∀ k, ¬ BelowK g x p k := fun k hk => by have := BelowK.rank w hk; omega
  constructor
  · intro i c hli hc hPi hPc
    rw [hlive] at hli
    rw [ok.eqv.children i] at hc
    obtain ⟨g1, g2, _⟩ := w.child_ok i c hli hc
    by_cases hb : ∃ k, BelowK g x c k
    · obtain ⟨k, hk⟩ := hb
      cases hk with
      | refl _ =>
        rw [hpar] at g2
        have hip : i = p := (Option.some.inj g2).symm
        subst hip
        rw [ok.inside x 0 (BelowK.refl hlx), ok.outside i hpout]
      | step hp' _ hpar' =>
        rw [g2] at hpar'
        have := Option.some.inj hpar'
        subst this
        rw [ok.inside c _ (BelowK.step hp' g1 g2), ok.inside i _ hp']; omega
    · have hci : ∀ k, ¬ BelowK g x c k := fun k hk => hb ⟨k, hk⟩
      have hii : ∀ k, ¬ BelowK g x i k := fun k hk => hb ⟨k + 1, BelowK.step hk g1 g2⟩
      rw [ok.outside c hci, ok.outside i hii]
      exact hd.edge i c hli hc (by rintro (h | ⟨k, h⟩); exact hPi h; exact hii k h)
        (by rintro (h | ⟨k, h⟩); exact hPc h; exact hci k h)
  · intro i hli hroot hPi
    rw [hlive] at hli
    rw [ok.eqv.parent i] at hroot
    have hii : ∀ k, ¬ BelowK g x i k := by
      intro k hk
      cases hk with
      | refl _ => rw [hpar] at hroot; cases hroot
      | step _ _ hpar' => rw [hroot] at hpar'; cases hpar'
    rw [ok.outside i hii]
    exact hd.root i hli hroot (by rintro (h | ⟨k, h⟩); exact hPi h; exact hii k h)

/-- resetting below a parentless node with depth 0 cleans its subtree -/
theorem reset_clean_root {g g' : Arena} {r : Nat → Nat} (w : W g r) (x : Nat) (P : Nat → Prop)
    (hlx : live g x) (hpar : (nd g x).parent = none)
    (hd : DOK g (fun v => P v ∨ ∃ k, BelowK g x v k))
    (ok : ResetOK g g' x 0) : DOK g' P := by
  have hlive : ∀ i, live g' i ↔ live g i := ok.eqv.live_iff
  constructor
  · intro i c hli hc hPi hPc
    rw [hlive] at hli
    rw [ok.eqv.children i] at hc
    obtain ⟨g1, g2, _⟩ := w.child_ok i c hli hc
    by_cases hb : ∃ k, BelowK g x c k
    · obtain ⟨k, hk⟩ := hb
      cases hk with
      | refl _ => rw [hpar] at g2; cases g2
      | step hp' _ hpar' =>
        rw [g2] at hpar'
        have := Option.some.inj hpar'
        subst this
        rw [ok.inside c _ (BelowK.step hp' g1 g2), ok.inside i _ hp']; omega
    · have hci : ∀ k, ¬ BelowK g x c k := fun k hk => hb ⟨k, hk⟩
      have hii : ∀ k, ¬ BelowK g x i k := fun k hk => hb ⟨k + 1, BelowK.step hk g1 g2⟩
      rw [ok.outside c hci, ok.outside i hii]
      exact hd.edge i c hli hc (by rintro (h | ⟨k, h⟩); exact hPi h; exact hii k h)
        (by rintro (h | ⟨k, h⟩); exact hPc h; exact hci k h)
  · intro i hli hroot hPi
    rw [hlive] at hli
    rw [ok.eqv.parent i] at hroot
    by_cases hb : ∃ k, BelowK g x i k
    · obtain ⟨k, hk⟩ := hb
      cases hk with
      | refl _ => rw [ok.inside x 0 (BelowK.refl hlx)]
      | step _ _ hpar' => rw [hroot] at hpar'; cases hpar'
    · have hii : ∀ k, ¬ BelowK g x i k := fun k hk => hb ⟨k, hk⟩
      rw [ok.outside i hii]
      exact hd.root i hli hroot (by rintro (h | ⟨k, h⟩); exact hPi h; exact hii k h)

theorem Tomb.transfer {a b : Arena} (h : SameButDepth a b) (t : Tomb a) : Tomb b := by
  intro i hdel
  obtain ⟨p1, p2, _, p4, p5⟩ := h.2 i
  rw [p5] at hdel
  rw [p1, p2, p4]
  exact t i hdel

/-- two repairs below two distinct children `c1`, `c2` of a clean node `p`: if everything outside their
    subtrees already satisfies the depth clauses, the result satisfies the whole invariant -/
theorem repair2 {g : Arena} {r : Nat → Nat} (hs : S g r) (p c1 c2 : Nat) (hlp : live g p)
    (hm1 : c1 ∈ (nd g p).children) (hm2 : c2 ∈ (nd g p).children)
    (hd : DOK g (fun v => (∃ k, BelowK g c2 v k) ∨ ∃ k, BelowK g c1 v k))
    (D f : Nat) (hrD : ∀ i, live g i → r i ≤ D) (hf : D < f) :
    ∃ b1 b2, resetF f g c1 ((nd g p).depth + 1) = some b1 ∧ resetF f b1 c2 ((nd g p).depth + 1) = some b2 ∧
      Inv b2 ∧ SameButDepth g b2 := by
  have w := hs.toW
  obtain ⟨hl1, hp1, hr1⟩ := w.child_ok p c1 hlp hm1
  obtain ⟨hl2, hp2, hr2⟩ := w.child_ok p c2 hlp hm2
  obtain ⟨b1, hres1, ok1⟩ := reset_main f D r g c1 ((nd g p).depth + 1) w hl1 hrD (by omega)
  have hsame1 := resetF_same _ _ _ _ _ hres1
  have he1 : Eqv g b1 := sameButDepth_eqv hsame1
  have w1 : W b1 r := he1.W w
  have hlb2 : live b1 c2 := (he1.live_iff c2).2 hl2
  have hpb : (nd b1 p).depth = (nd g p).depth :=
    ok1.outside p (fun k hk => by have := BelowK.rank w hk; omega)
  obtain ⟨b2, hres2, ok2⟩ := reset_main f D r b1 c2 ((nd g p).depth + 1) w1 hlb2
    (fun i hl => hrD i ((he1.live_iff i).1 hl)) (by omega)
  have hsame2 := resetF_same _ _ _ _ _ hres2
  refine ⟨b1, b2, hres1, hres2, ?_, hsame1.trans hsame2⟩
  have hs2 : S b2 r := (hs.transfer hsame1).transfer hsame2
  apply inv_of_S_DepthOK hs2
  apply DOK.toDepthOK
  have d1 : DOK b1 (fun v => ∃ k, BelowK g c2 v k) := reset_clean w c1 p _ hl1 hp1 hd ok1
  have d1' : DOK b1 (fun v => False ∨ ∃ k, BelowK b1 c2 v k) :=
    d1.mono (fun v ⟨k, hk⟩ => Or.inr ⟨k, he1.symm.below hk⟩)
  have hp2' : (nd b1 c2).parent = some p := by rw [he1.parent]; exact hp2
  have ok2' : ResetOK b1 b2 c2 ((nd b1 p).depth + 1) := by rw [hpb]; exact ok2
  exact reset_clean w1 c2 p _ hlb2 hp2' d1' ok2'

end AR
