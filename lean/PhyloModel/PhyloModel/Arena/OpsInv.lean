import PhyloModel.Arena.Ops
import PhyloModel.Arena.Repair
import PhyloModel.Arena.DepthBound
import PhyloModel.Arena.PruneBTop
import PhyloModel.Arena.Fuel
import PhyloModel.Arena.RepFacts
/-! Operation-level preservation: every executable operation of `Arena/Ops.lean` maps an arena satisfying
    the invariant (`Inv`, with blank tombstones `Tomb`) to one satisfying it, and never exhausts the fuel
    `fuelOf` the executable model hands to the recursive procedures. -/
namespace AR

/-- the state predicate carried through every edit history -/
def Good (a : Arena) : Prop := Inv a ∧ Tomb a

/-- all fields the invariant reads agree (payload may differ) -/
def SameStruct (a b : Arena) : Prop :=
  b.size = a.size ∧ ∀ i, (nd b i).parent = (nd a i).parent ∧ (nd b i).children = (nd a i).children ∧
    (nd b i).pedge = (nd a i).pedge ∧ (nd b i).cedges = (nd a i).cedges ∧
    (nd b i).deleted = (nd a i).deleted ∧ (nd b i).depth = (nd a i).depth

theorem Good.transfer {a b : Arena} (h : SameStruct a b) (g : Good a) : Good b := by
  obtain ⟨hinv, ht⟩ := g
  have hl : ∀ i, live b i ↔ live a i := fun i => by simp only [live, h.1, (h.2 i).2.2.2.2.1]
  refine ⟨⟨?_, ?_, ?_, ?_, ?_⟩, ?_⟩
  · intro i c hli hc
    rw [hl] at hli; rw [(h.2 i).2.1] at hc
    obtain ⟨k1, k2, k3, k4⟩ := hinv.child_ok i c hli hc
    refine ⟨(hl c).2 k1, ?_, ?_, ?_⟩
    · rw [(h.2 c).1]; exact k2
    · rw [(h.2 c).2.2.2.2.2, (h.2 i).2.2.2.2.2]; exact k3
    · rw [(h.2 i).2.2.2.1, (h.2 c).2.2.1]; exact k4
  · intro i p hli hp
    rw [hl] at hli; rw [(h.2 i).1] at hp
    obtain ⟨k1, k2⟩ := hinv.parent_ok i p hli hp
    exact ⟨(hl p).2 k1, by rw [(h.2 p).2.1]; exact k2⟩
  · intro i; rw [(h.2 i).2.1]; exact hinv.nodup i
  · intro i hli hp
    rw [hl] at hli; rw [(h.2 i).1] at hp
    rw [(h.2 i).2.2.2.2.2]; exact hinv.root_depth i hli hp
  · intro i c hs
    rw [(h.2 i).2.2.2.1] at hs; rw [(h.2 i).2.1]; exact hinv.cedge_dom i c hs
  · intro i hd
    rw [(h.2 i).2.2.2.2.1] at hd
    rw [(h.2 i).1, (h.2 i).2.1, (h.2 i).2.2.2.1]
    exact ht i hd

theorem setName_same (a : Arena) (i : Nat) (n : Option String) : SameStruct a (setName a i n) := by
  refine ⟨by simp [setName], fun j => ?_⟩
  rw [setName, nd_set]
  split
  next h => obtain ⟨rfl, _⟩ := h; simp
  next => simp

theorem setName_good {a : Arena} (i : Nat) (n : Option String) (g : Good a) : Good (setName a i n) :=
  g.transfer (setName_same a i n)

theorem sameButDepth_good {a b : Arena} (h : SameButDepth a b) (hi : Inv b) (t : Tomb a) : Good b :=
  ⟨hi, t.transfer h⟩

theorem nd_empty (i : Nat) : nd #[] i = dead := by simp [nd]

theorem empty_good : Good #[] := by
  refine ⟨⟨?_, ?_, ?_, ?_, ?_⟩, ?_⟩
  · intro i c hl; exact absurd hl.1 (by simp)
  · intro i p hl; exact absurd hl.1 (by simp)
  · intro i; simp [nd_empty, dead]
  · intro i hl; exact absurd hl.1 (by simp)
  · intro i c hs; simp [nd_empty, dead, alGet] at hs
  · intro i _; simp [nd_empty, dead]

/-! ### add, add_child -/

theorem add_good {a : Arena} (name : Option String) (g : Good a) : Good (add a name).1 := by
  obtain ⟨hinv, ht⟩ := g
  have hc := hinv.child_ok; have hpo := hinv.parent_ok; have hnd := hinv.nodup
  have hrd := hinv.root_depth; have hcd := hinv.cedge_dom
  refine ⟨⟨?_, ?_, ?_, ?_, ?_⟩, ?_⟩
  · intro i c hl hmem
    simp only [add, live, nd_push, Array.size_push] at hl hmem ⊢
    have := hc i c
    simp only [live] at *
    grind
  · intro i p hl hp
    simp only [add, live, nd_push, Array.size_push] at hl hp ⊢
    have := hpo i p
    simp only [live] at *
    grind
  · intro i
    simp only [add, nd_push]
    have := hnd i
    grind
  · intro i hl hp
    simp only [add, live, nd_push, Array.size_push] at hl hp ⊢
    have := hrd i
    simp only [live] at *
    grind
  · intro i c hs
    simp only [add, nd_push] at hs ⊢
    have := hcd i c
    grind [alGet]
  · intro i hd
    simp only [add, nd_push] at hd ⊢
    have := ht i
    grind

theorem addChild_tomb {a a' : Arena} {p id : Nat} {e : Option Int} (ht : Tomb a)
    (h : addChild a p e = some (a', id)) : Tomb a' := by
  unfold addChild at h
  split at h
  next hp =>
    simp at h
    obtain ⟨ha, _⟩ := h
    subst ha
    intro i hd
    simp only [nd_push, nd_set, Array.size_setIfInBounds] at hd ⊢
    have := ht i
    grind [setCedge_deleted]
  · simp at h

theorem addChildNamed_good {a : Arena} (p : Nat) (e : Option Int) (name : Option String) (g : Good a) :
    Good (addChildNamed a p e name).1 := by
  unfold addChildNamed
  split
  next a' id h =>
    exact setName_good id name ⟨(addChild_inv a p e a' id g.1 h).1, addChild_tomb g.2 h⟩
  next => exact g

/-! ### prune -/

theorem prune_good {a : Arena} (x : Nat) (g : Good a) : Good (prune a x).1 ∧ (prune a x).2 ≠ .diverge := by
  unfold prune
  split
  next hx =>
    have hl := (isLive_iff a x).1 hx
    obtain ⟨a1, h1, ok⟩ := prune_main2 (fuelOf a) a.size a x g.1 g.2 hl (depth_le_size g.1)
      (by simp only [fuelOf]; omega)
    simp only [h1]
    exact ⟨⟨ok.inv, ok.tomb⟩, by simp⟩
  next => exact ⟨g, by simp⟩

/-! ### compress_node, compress -/

theorem splice_tomb (a : Arena) (v p c : Nat) (e : Option Int) (hlv : live a v) (hlp : live a p) (hlc : live a c)
    (hpc : p ≠ c) (hvc : v ≠ c) (hvp : v ≠ p) (ht : Tomb a) : Tomb (splice a v p c e) := by
  intro i hd
  rw [nd_splice a v p c e hlv.1 hlp.1 hlc.1 hpc hvc hvp] at hd ⊢
  have hti := ht i
  have hdp := hlp.2
  have hdc := hlc.2
  by_cases h1 : i = v
  · simp [h1, dead]
  · by_cases h2 : i = p
    · subst h2; simp [h1, removeChild] at hd; simp_all
    · by_cases h3 : i = c
      · subst h3; simp [h1, h2] at hd; simp_all
      · simp only [h1, h2, h3, ↓reduceIte] at hd ⊢; exact hti hd

theorem compress_core {a : Arena} (v p c : Nat) (e : Option Int) (g : Good a) (hlv : live a v)
    (hpar : (nd a v).parent = some p) (hch : (nd a v).children = [c]) :
    ∃ a2, resetF (fuelOf a) (splice a v p c e) c ((nd (splice a v p c e) p).depth + 1) = some a2 ∧ Good a2 := by
  obtain ⟨hinv, ht⟩ := g
  obtain ⟨a2, h2, hi2⟩ := compressNode_inv a v p c e hinv hlv hpar hch a.size (depth_le_size hinv)
  have h2' := resetF_mono (a.size + 1) (fuelOf a) (by simp only [fuelOf]; omega) _ _ _ _ h2
  refine ⟨a2, h2', hi2, ?_⟩
  have hc := hinv.child_ok; have hpo := hinv.parent_ok
  obtain ⟨hlp, hvmem⟩ := hpo v p hlv hpar
  obtain ⟨hlc, _, hcdep, _⟩ := hc v c hlv (by simp [hch])
  have hvdep := (hc p v hlp hvmem).2.2.1
  have hvc : v ≠ c := by intro h; subst h; omega
  have hvp : v ≠ p := by intro h; subst h; omega
  have hpc : p ≠ c := by intro h; subst h; omega
  exact (splice_tomb a v p c e hlv hlp hlc hpc hvc hvp ht).transfer (resetF_same _ _ _ _ _ h2')

theorem compressNode_good {a : Arena} (v : Nat) (g : Good a) :
    Good (compressNode a v).1 ∧ (compressNode a v).2 ≠ .diverge := by
  unfold compressNode
  split
  · exact ⟨g, by simp⟩
  next hv =>
    have hlv : live a v := (isLive_iff a v).1 (by simpa using hv)
    split
    next p c hpar hch =>
      split
      · exact ⟨g, by simp⟩
      next e _ =>
        split
        · exact ⟨g, by simp⟩
        · obtain ⟨a2, h2, g2⟩ := compress_core v p c e g hlv hpar hch
          simp only [h2]
          exact ⟨g2, by simp⟩
    · exact ⟨g, by simp⟩

theorem compressLoop_good : ∀ (vs : List Nat) {a : Arena}, Good a →
    Good (compressLoop vs a).1 ∧ (compressLoop vs a).2 ≠ .diverge
  | [], a, g => by simp [compressLoop, g]
  | v :: vs, a, g => by
    have h := compressNode_good v g
    unfold compressLoop
    split
    next a' _ heq => rw [heq] at h; exact compressLoop_good vs h.1
    next r hne => exact h

theorem compress_good {a : Arena} (g : Good a) : Good (compress a).1 ∧ (compress a).2 ≠ .diverge :=
  compressLoop_good _ g

/-! ### rescale -/

theorem alGet_scale (l : List (Nat × Int)) (k : Int) (c : Nat) :
    alGet (l.map (fun (p : Nat × Int) => (p.1, p.2 * k))) c = (alGet l c).map (· * k) := by
  induction l with
  | nil => simp [alGet]
  | cons x xs ih =>
    obtain ⟨j, v⟩ := x
    simp only [List.map_cons, alGet]
    split <;> simp_all

theorem nd_map (a : Arena) (f : Node → Node) (hf : f dead = dead) (i : Nat) : nd (a.map f) i = f (nd a i) := by
  simp only [nd, Array.getD_eq_getD_getElem?, Array.getElem?_map]
  cases a[i]? <;> simp [hf]

theorem scaleNode_dead (k : Int) : scaleNode k dead = dead := by simp [scaleNode, dead]

theorem rescale_good {a : Arena} (k : Int) (g : Good a) : Good (rescale a k) := by
  obtain ⟨hinv, ht⟩ := g
  have hn : ∀ i, nd (rescale a k) i = scaleNode k (nd a i) := nd_map a _ (scaleNode_dead k)
  have hl : ∀ i, live (rescale a k) i ↔ live a i := fun i => by
    have hsz : (rescale a k).size = a.size := by simp [rescale]
    simp only [live, hn, hsz]; simp [scaleNode]
  have hce : ∀ i c, alGet (scaleNode k (nd a i)).cedges c = (alGet (nd a i).cedges c).map (· * k) :=
    fun i c => alGet_scale _ k c
  refine ⟨⟨?_, ?_, ?_, ?_, ?_⟩, ?_⟩
  · intro i c hli hc
    rw [hl] at hli
    rw [hn] at hc
    obtain ⟨k1, k2, k3, k4⟩ := hinv.child_ok i c hli (by simpa [scaleNode] using hc)
    rw [hl, hn, hn, hce, k4]
    exact ⟨k1, by simpa [scaleNode] using k2, by simpa [scaleNode] using k3, by simp [scaleNode]⟩
  · intro i p hli hp
    rw [hl] at hli
    rw [hn] at hp
    obtain ⟨k1, k2⟩ := hinv.parent_ok i p hli (by simpa [scaleNode] using hp)
    rw [hl, hn]
    exact ⟨k1, by simpa [scaleNode] using k2⟩
  · intro i; rw [hn]; simpa [scaleNode] using hinv.nodup i
  · intro i hli hp
    rw [hl] at hli
    rw [hn] at hp ⊢
    simpa [scaleNode] using hinv.root_depth i hli (by simpa [scaleNode] using hp)
  · intro i c hs
    rw [hn] at hs ⊢
    rw [hce] at hs
    have := hinv.cedge_dom i c (by simpa using hs)
    simpa [scaleNode] using this
  · intro i hd
    rw [hn] at hd ⊢
    obtain ⟨t1, t2, t3⟩ := ht i (by simpa [scaleNode] using hd)
    simp [scaleNode, t1, t2, t3]

/-! ### regrouping: merge_children, one round of resolve -/

theorem group_tomb (a : Arena) (q c1 c2 : Nat) (pe e1 e2 : Option Int) (hlq : live a q) (hl1 : live a c1)
    (hl2 : live a c2) (hq1 : q ≠ c1) (hq2 : q ≠ c2) (h12 : c1 ≠ c2) (ht : Tomb a) :
    Tomb (group a q c1 c2 pe e1 e2) := by
  intro i hd
  rw [nd_group a q c1 c2 pe e1 e2 hlq.1 hl1.1 hl2.1 hq1 hq2 h12] at hd ⊢
  have hti := ht i
  have hdq := hlq.2; have hd1 := hl1.2; have hd2 := hl2.2
  by_cases h0 : i = a.size
  · subst h0; simp [wNode] at hd
  · by_cases h1 : i = q
    · subst h1; simp [h0, qNode, removeChild] at hd; simp_all
    · by_cases h2 : i = c1
      · subst h2; simp [h0, h1] at hd; simp_all
      · by_cases h3 : i = c2
        · subst h3; simp [h0, h1, h2] at hd; simp_all
        · simp only [h0, h1, h2, h3, ↓reduceIte] at hd ⊢; exact hti hd

/-- regrouping two children of `q` under a fresh node and repairing both depths, with the fuel and the
    depth argument the executable model uses -/
theorem group_core {a : Arena} (q c1 c2 : Nat) (pe e1 e2 : Option Int) (g : Good a) (hlq : live a q)
    (hm1 : c1 ∈ (nd a q).children) (hm2 : c2 ∈ (nd a q).children) (h12 : c1 ≠ c2) :
    let a1 := group a q c1 c2 pe e1 e2
    ∃ b1 b2, resetF (fuelOf a1) a1 c1 ((nd a1 a.size).depth + 1) = some b1 ∧
      resetF (fuelOf a1) b1 c2 ((nd a1 a.size).depth + 1) = some b2 ∧ Good b2 := by
  intro a1
  obtain ⟨hinv, ht⟩ := g
  obtain ⟨_, hsz, _, hdep⟩ := group_S a q c1 c2 pe e1 e2 hinv hlq hm1 hm2 h12
  obtain ⟨b1, b2, r1, r2, hi2⟩ := group_inv a q c1 c2 pe e1 e2 hinv hlq hm1 hm2 h12 a.size (depth_le_size hinv)
  have hd : (nd a1 a.size).depth + 1 = (nd a q).depth + 2 := by
    have := hdep a.size
    simp only [↓reduceIte] at this
    show (nd (group a q c1 c2 pe e1 e2) a.size).depth + 1 = _
    omega
  have hfu : 2 * a.size + 3 ≤ fuelOf a1 := by
    have : a1.size = a.size + 1 := hsz
    simp only [fuelOf, this]; omega
  rw [hd]
  have r1' := resetF_mono _ _ hfu _ _ _ _ r1
  have r2' := resetF_mono _ _ hfu _ _ _ _ r2
  refine ⟨b1, b2, r1', r2', hi2, ?_⟩
  have hc := hinv.child_ok
  obtain ⟨hl1, _, hd1, _⟩ := hc q c1 hlq hm1
  obtain ⟨hl2, _, hd2, _⟩ := hc q c2 hlq hm2
  have hq1 : q ≠ c1 := by intro h; subst h; omega
  have hq2 : q ≠ c2 := by intro h; subst h; omega
  exact (group_tomb a q c1 c2 pe e1 e2 hlq hl1 hl2 hq1 hq2 h12 ht).transfer
    ((resetF_same _ _ _ _ _ r1').trans (resetF_same _ _ _ _ _ r2'))

theorem nd_rootGroup (a : Arena) (c1 c2 : Nat) (e1 e2 : Option Int) (h1 : c1 < a.size) (h2 : c2 < a.size)
    (h12 : c1 ≠ c2) (i : Nat) :
    nd (rootGroup a c1 c2 e1 e2) i =
      if i = a.size then setCedge (setCedge { children := [c1, c2] } c1 e1) c2 e2
      else if i = c1 then { nd a c1 with parent := some a.size, pedge := e1 }
      else if i = c2 then { nd a c2 with parent := some a.size, pedge := e2 }
      else nd a i := by
  simp only [rootGroup, nd_push, nd_set, Array.size_setIfInBounds]
  grind

/-- the slot updates of `merge_children` on two distinct parentless nodes: structure (with a ghost rank
    that puts the fresh root below everything), liveness, depths, and the dirty-region depth clauses -/
theorem rootGroup_S (a : Arena) (c1 c2 : Nat) (e1 e2 : Option Int) (hinv : Inv a) (hl1 : live a c1)
    (hl2 : live a c2) (hr1 : (nd a c1).parent = none) (hr2 : (nd a c2).parent = none) (h12 : c1 ≠ c2) :
    let g := rootGroup a c1 c2 e1 e2
    let r : Nat → Nat := fun i => if i = a.size then 0 else (nd a i).depth + 1
    S g r ∧ g.size = a.size + 1 ∧ (∀ i, live g i ↔ (i = a.size ∨ live a i)) ∧ (nd g a.size).depth = 0 ∧
    (nd g a.size).children = [c1, c2] ∧
    DOK g (fun v => (∃ k, BelowK g c2 v k) ∨ ∃ k, BelowK g c1 v k) := by
  intro g r
  have hc := hinv.child_ok; have hpo := hinv.parent_ok; have hnd := hinv.nodup; have hcd := hinv.cedge_dom
  have h1w : c1 ≠ a.size := Nat.ne_of_lt hl1.1
  have h2w : c2 ≠ a.size := Nat.ne_of_lt hl2.1
  have hns := nd_rootGroup a c1 c2 e1 e2 hl1.1 hl2.1 h12
  have hsz : g.size = a.size + 1 := by simp [g, rootGroup]
  have hsw : nd g a.size = setCedge (setCedge { children := [c1, c2] } c1 e1) c2 e2 := by rw [hns]; simp
  have hs1 : nd g c1 = { nd a c1 with parent := some a.size, pedge := e1 } := by rw [hns]; simp [h1w]
  have hs2 : nd g c2 = { nd a c2 with parent := some a.size, pedge := e2 } := by
    rw [hns]; simp [h2w, Ne.symm h12]
  have hso : ∀ i, i ≠ a.size → i ≠ c1 → i ≠ c2 → nd g i = nd a i := by
    intro i g1 g3 g4; rw [hns]; simp [g1, g3, g4]
  have hwch : (nd g a.size).children = [c1, c2] := by rw [hsw]; simp
  have hwce : ∀ x, alGet (nd g a.size).cedges x = if x = c2 then e2 else if x = c1 then e1 else none := by
    intro x
    rw [hsw]; simp only [setCedge_get]
    by_cases g2 : x = c2
    · subst g2; cases e2 <;> cases e1 <;> simp [Ne.symm h12, alGet]
    · by_cases g1 : x = c1
      · subst g1; cases e1 <;> simp [g2, alGet]
      · simp [g1, g2, alGet]
  have hdel : ∀ i, i ≠ a.size → (nd g i).deleted = (nd a i).deleted := by
    intro i g0
    by_cases g2 : i = c1
    · subst g2; rw [hs1]
    · by_cases g3 : i = c2
      · subst g3; rw [hs2]
      · rw [hso i g0 g2 g3]
  have hlive : ∀ i, live g i ↔ (i = a.size ∨ live a i) := by
    intro i
    simp only [live, hsz]
    by_cases g0 : i = a.size
    · subst g0; rw [hsw]; simp
    · rw [hdel i g0]
      constructor
      · rintro ⟨k1, k2⟩; exact Or.inr ⟨by omega, k2⟩
      · rintro (k | ⟨k1, k2⟩)
        · exact absurd k g0
        · exact ⟨by omega, k2⟩
  have hchild : ∀ i, i ≠ a.size → (nd g i).children = (nd a i).children := by
    intro i g0
    by_cases g2 : i = c1
    · subst g2; rw [hs1]
    · by_cases g3 : i = c2
      · subst g3; rw [hs2]
      · rw [hso i g0 g2 g3]
  have hcedges : ∀ i, i ≠ a.size → (nd g i).cedges = (nd a i).cedges := by
    intro i g0
    by_cases g2 : i = c1
    · subst g2; rw [hs1]
    · by_cases g3 : i = c2
      · subst g3; rw [hs2]
      · rw [hso i g0 g2 g3]
  have hdepth : ∀ i, i ≠ a.size → (nd g i).depth = (nd a i).depth := by
    intro i g0
    by_cases g2 : i = c1
    · subst g2; rw [hs1]
    · by_cases g3 : i = c2
      · subst g3; rw [hs2]
      · rw [hso i g0 g2 g3]
  have hwdepth : (nd g a.size).depth = 0 := by rw [hsw]; simp
  -- a child of an old node is neither c1 nor c2 nor the fresh node
  have hkid : ∀ i x, live a i → x ∈ (nd a i).children → x ≠ a.size ∧ x ≠ c1 ∧ x ≠ c2 := by
    intro i x hli hx
    obtain ⟨k1, k2, _, _⟩ := hc i x hli hx
    refine ⟨Nat.ne_of_lt k1.1, ?_, ?_⟩
    · intro h; subst h; rw [hr1] at k2; cases k2
    · intro h; subst h; rw [hr2] at k2; cases k2
  have hS : S g r := by
    refine ⟨?_, ?_, ?_, ?_⟩
    · intro i x hl hx
      rw [hlive] at hl
      rw [hlive]
      by_cases g0 : i = a.size
      · subst g0
        rw [hwch] at hx
        simp only [List.mem_cons, List.not_mem_nil, or_false] at hx
        rcases hx with rfl | rfl
        · rw [hs1, hwce]
          refine ⟨Or.inr hl1, by simp, ?_, by simp [h12]⟩
          simp only [r, h1w, ↓reduceIte]; omega
        · rw [hs2, hwce]
          refine ⟨Or.inr hl2, by simp, ?_, by simp⟩
          simp only [r, h2w, ↓reduceIte]; omega
      · have hli : live a i := by rcases hl with h | h; exact absurd h g0; exact h
        rw [hchild i g0] at hx
        obtain ⟨x0, x1, x2⟩ := hkid i x hli hx
        obtain ⟨k1, k2, k3, k4⟩ := hc i x hli hx
        rw [hso x x0 x1 x2, hcedges i g0]
        refine ⟨Or.inr k1, k2, ?_, k4⟩
        simp only [r, g0, x0, ↓reduceIte]; omega
    · intro i p hl hp
      rw [hlive] at hl
      rw [hlive]
      by_cases g0 : i = a.size
      · subst g0; rw [hsw] at hp; simp at hp
      · have hli : live a i := by rcases hl with h | h; exact absurd h g0; exact h
        by_cases g1 : i = c1
        · subst g1; rw [hs1] at hp; simp at hp; subst hp
          exact ⟨Or.inl rfl, by rw [hwch]; simp⟩
        · by_cases g2 : i = c2
          · subst g2; rw [hs2] at hp; simp at hp; subst hp
            exact ⟨Or.inl rfl, by rw [hwch]; simp⟩
          · rw [hso i g0 g1 g2] at hp
            obtain ⟨k1, k2⟩ := hpo i p hli hp
            have hpw : p ≠ a.size := Nat.ne_of_lt k1.1
            exact ⟨Or.inr k1, by rw [hchild p hpw]; exact k2⟩
    · intro i
      by_cases g0 : i = a.size
      · subst g0; rw [hwch]; simp [h12]
      · rw [hchild i g0]; exact hnd i
    · intro i x hs
      by_cases g0 : i = a.size
      · subst g0
        rw [hwce] at hs; rw [hwch]
        by_cases g2 : x = c2
        · simp [g2]
        · by_cases g1 : x = c1
          · simp [g1]
          · simp [g1, g2] at hs
      · rw [hcedges i g0] at hs; rw [hchild i g0]; exact hcd i x hs
  have hlg1 : live g c1 := (hlive c1).2 (Or.inr hl1)
  have hlg2 : live g c2 := (hlive c2).2 (Or.inr hl2)
  refine ⟨hS, hsz, hlive, hwdepth, hwch, ?_, ?_⟩
  · intro i x hl hx hPi hPx
    rw [hlive] at hl
    by_cases g0 : i = a.size
    · subst g0
      rw [hwch] at hx
      simp only [List.mem_cons, List.not_mem_nil, or_false] at hx
      rcases hx with rfl | rfl
      · exact absurd (Or.inr ⟨0, BelowK.refl hlg1⟩) hPx
      · exact absurd (Or.inl ⟨0, BelowK.refl hlg2⟩) hPx
    · have hli : live a i := by rcases hl with h | h; exact absurd h g0; exact h
      rw [hchild i g0] at hx
      obtain ⟨x0, _, _⟩ := hkid i x hli hx
      rw [hdepth x x0, hdepth i g0]
      exact (hc i x hli hx).2.2.1
  · intro i hl hroot hPi
    rw [hlive] at hl
    by_cases g0 : i = a.size
    · subst g0; exact hwdepth
    · have hli : live a i := by rcases hl with h | h; exact absurd h g0; exact h
      have g1 : i ≠ c1 := by intro h; subst h; rw [hs1] at hroot; simp at hroot
      have g2 : i ≠ c2 := by intro h; subst h; rw [hs2] at hroot; simp at hroot
      rw [hso i g0 g1 g2] at hroot ⊢
      exact hinv.root_depth i hli hroot

theorem rootGroup_tomb (a : Arena) (c1 c2 : Nat) (e1 e2 : Option Int) (hl1 : live a c1) (hl2 : live a c2)
    (h12 : c1 ≠ c2) (ht : Tomb a) : Tomb (rootGroup a c1 c2 e1 e2) := by
  intro i hd
  rw [nd_rootGroup a c1 c2 e1 e2 hl1.1 hl2.1 h12] at hd ⊢
  have hti := ht i
  have hd1 := hl1.2; have hd2 := hl2.2
  by_cases h0 : i = a.size
  · subst h0; simp at hd
  · by_cases h2 : i = c1
    · subst h2; simp [h0] at hd; simp_all
    · by_cases h3 : i = c2
      · subst h3; simp [h0, h2] at hd; simp_all
      · simp only [h0, h2, h3, ↓reduceIte] at hd ⊢; exact hti hd

theorem rootGroup_core {a : Arena} (c1 c2 : Nat) (e1 e2 : Option Int) (g : Good a) (hl1 : live a c1)
    (hl2 : live a c2) (hr1 : (nd a c1).parent = none) (hr2 : (nd a c2).parent = none) (h12 : c1 ≠ c2) :
    let a1 := rootGroup a c1 c2 e1 e2
    ∃ b1 b2, resetF (fuelOf a1) a1 c1 ((nd a1 a.size).depth + 1) = some b1 ∧
      resetF (fuelOf a1) b1 c2 ((nd a1 a.size).depth + 1) = some b2 ∧ Good b2 := by
  intro a1
  obtain ⟨hinv, ht⟩ := g
  obtain ⟨hS, hsz, hlive, hwd, hwch, hdok⟩ := rootGroup_S a c1 c2 e1 e2 hinv hl1 hl2 hr1 hr2 h12
  have hlw : live a1 a.size := (hlive a.size).2 (Or.inl rfl)
  have hrD : ∀ i, live a1 i → (fun i => if i = a.size then 0 else (nd a i).depth + 1) i ≤ a.size + 1 := by
    intro i hl
    by_cases g0 : i = a.size
    · simp [g0]
    · have hli : live a i := by rcases (hlive i).1 hl with h | h; exact absurd h g0; exact h
      have := depth_le_size hinv i hli
      simp only [g0, ↓reduceIte]; omega
  have hfu : a.size + 1 < fuelOf a1 := by
    have : a1.size = a.size + 1 := hsz
    simp only [fuelOf, this]; omega
  obtain ⟨b1, b2, r1, r2, hi2, hsame⟩ := repair2 hS a.size c1 c2 hlw (by rw [hwch]; simp) (by rw [hwch]; simp)
    hdok (a.size + 1) (fuelOf a1) hrD hfu
  exact ⟨b1, b2, r1, r2, hi2, (rootGroup_tomb a c1 c2 e1 e2 hl1 hl2 h12 ht).transfer hsame⟩

theorem mergeChildren_good {a : Arena} (c1 c2 : Nat) (e1 e2 pe : Option Int) (name : Option String) (g : Good a) :
    Good (mergeChildren a c1 c2 e1 e2 pe name).1 ∧ (mergeChildren a c1 c2 e1 e2 pe name).2 ≠ .diverge := by
  unfold mergeChildren
  split
  · exact ⟨g, by simp⟩
  next h1 =>
  split
  · exact ⟨g, by simp⟩
  next h2 =>
  split
  · exact ⟨g, by simp⟩
  next h3 =>
  have hl1 : live a c1 := (isLive_iff a c1).1 (by simpa using h1)
  have hl2 : live a c2 := (isLive_iff a c2).1 (by simpa using h2)
  have h12 : c1 ≠ c2 := fun h => h3 (Or.inl h)
  have hpp : (nd a c1).parent = (nd a c2).parent := by
    by_cases h : (nd a c1).parent = (nd a c2).parent
    · exact h
    · exact absurd (Or.inr h) h3
  cases hp : (nd a c1).parent with
  | none =>
    have hr2 : (nd a c2).parent = none := by rw [← hpp, hp]
    obtain ⟨b1, b2, r1, r2, g2⟩ := rootGroup_core c1 c2 e1 e2 g hl1 hl2 hp hr2 h12
    simp only [r1, r2]
    exact ⟨setName_good _ _ g2, by simp⟩
  | some q =>
    have hp2 : (nd a c2).parent = some q := by rw [← hpp, hp]
    obtain ⟨hlq, hm1⟩ := g.1.parent_ok c1 q hl1 hp
    obtain ⟨_, hm2⟩ := g.1.parent_ok c2 q hl2 hp2
    have hq : isLive a q = true := (isLive_iff a q).2 hlq
    obtain ⟨b1, b2, r1, r2, g2⟩ := group_core q c1 c2 pe e1 e2 g hlq hm1 hm2 h12
    simp only [hq, ↓reduceIte, r1, r2]
    exact ⟨setName_good _ _ g2, by simp⟩

/-- one round of `resolve` -/
theorem resolveRound_good {a a' : Arena} (q x y : Nat) (g : Good a) (h : resolveRound a q x y = some a') :
    Good a' := by
  unfold resolveRound at h
  split at h
  next hc =>
    simp only [Bool.and_eq_true, decide_eq_true_eq, List.contains_iff_mem] at hc
    obtain ⟨⟨⟨⟨⟨hq, hxy⟩, hmx⟩, hmy⟩, _⟩, _⟩ := hc
    have hlq := (isLive_iff a q).1 hq
    obtain ⟨b1, b2, r1, r2, g2⟩ := group_core q x y (some 0) (nd a x).pedge (nd a y).pedge g hlq hmx hmy hxy
    simp only [r1] at h
    rw [r2] at h
    cases h
    exact g2
  · cases h

theorem resolveNode_good : ∀ (f : Nat) {a : Arena} (q : Nat) (picks : List (Nat × Nat)) {a' : Arena}
    {rest : List (Nat × Nat)}, Good a → resolveNode f a q picks = some (a', rest) → Good a'
  | 0, _, _, _, _, _, _, h => by simp [resolveNode] at h
  | f + 1, a, q, picks, a', rest, g, h => by
    unfold resolveNode at h
    split at h
    · cases h
    next x y rest' =>
      split at h
      · cases h
      next a1 hr =>
        have g1 := resolveRound_good q x y g hr
        simp only at h
        split at h
        · cases h; exact g1
        · exact resolveNode_good f q rest' g1 h

theorem resolveLoop_good : ∀ (qs : List Nat) {a : Arena} (picks : List (Nat × Nat)) {a' : Arena}
    {rest : List (Nat × Nat)}, Good a → resolveLoop qs a picks = some (a', rest) → Good a'
  | [], a, picks, a', rest, g, h => by simp [resolveLoop] at h; obtain ⟨rfl, _⟩ := h; exact g
  | q :: qs, a, picks, a', rest, g, h => by
    unfold resolveLoop at h
    split at h
    · cases h
    next a1 rest1 hn => exact resolveLoop_good qs rest1 (resolveNode_good _ q picks g hn) h

theorem resolve_good {a a' : Arena} (picks : List (Nat × Nat)) (g : Good a) (h : resolve a picks = some a') :
    Good a' := by
  unfold resolve at h
  split at h
  next a1 hl => cases h; exact resolveLoop_good _ picks g hl
  · cases h

/-! ### ladderize, reset_depths -/

/-- replacing a child list by a permutation of itself preserves the invariant -/
theorem permChildren_good {a : Arena} (v : Nat) (l : List Nat) (hp : l.Perm (nd a v).children) (g : Good a) :
    Good (a.setIfInBounds v { nd a v with children := l }) := by
  obtain ⟨hinv, ht⟩ := g
  let b := a.setIfInBounds v { nd a v with children := l }
  have hn : ∀ i, nd b i = if i = v ∧ v < a.size then { nd a v with children := l } else nd a i := nd_set a v _
  have hsz : b.size = a.size := by simp [b]
  have hpar : ∀ i, (nd b i).parent = (nd a i).parent := by intro i; rw [hn]; split <;> simp_all
  have hdel : ∀ i, (nd b i).deleted = (nd a i).deleted := by intro i; rw [hn]; split <;> simp_all
  have hdep : ∀ i, (nd b i).depth = (nd a i).depth := by intro i; rw [hn]; split <;> simp_all
  have hpe : ∀ i, (nd b i).pedge = (nd a i).pedge := by intro i; rw [hn]; split <;> simp_all
  have hce : ∀ i, (nd b i).cedges = (nd a i).cedges := by intro i; rw [hn]; split <;> simp_all
  have hch : ∀ i, (nd b i).children.Perm (nd a i).children := by
    intro i; rw [hn]; split
    next h => obtain ⟨rfl, _⟩ := h; exact hp
    next => exact List.Perm.refl _
  have hl : ∀ i, live b i ↔ live a i := fun i => by simp only [live, hsz, hdel]
  show Good b
  refine ⟨⟨?_, ?_, ?_, ?_, ?_⟩, ?_⟩
  · intro i c hli hc
    rw [hl] at hli
    obtain ⟨k1, k2, k3, k4⟩ := hinv.child_ok i c hli ((hch i).mem_iff.1 hc)
    rw [hl, hpar, hdep, hdep, hce, hpe]
    exact ⟨k1, k2, k3, k4⟩
  · intro i p hli hpp
    rw [hl] at hli; rw [hpar] at hpp
    obtain ⟨k1, k2⟩ := hinv.parent_ok i p hli hpp
    exact ⟨(hl p).2 k1, (hch p).mem_iff.2 k2⟩
  · intro i; exact (hch i).nodup_iff.2 (hinv.nodup i)
  · intro i hli hpp
    rw [hl] at hli; rw [hpar] at hpp; rw [hdep]
    exact hinv.root_depth i hli hpp
  · intro i c hs
    rw [hce] at hs
    exact (hch i).mem_iff.2 (hinv.cedge_dom i c hs)
  · intro i hd
    rw [hdel] at hd
    obtain ⟨t1, t2, t3⟩ := ht i hd
    rw [hpar, hce]
    refine ⟨?_, t2, t3⟩
    have := hch i
    rw [t1] at this
    exact List.perm_nil.1 this

theorem ladderStep_good (st : Arena × Array Nat) (v : Nat) (g : Good st.1) : Good (ladderStep st v).1 := by
  unfold ladderStep
  exact permChildren_good v _ (List.mergeSort_perm _ _) g

theorem ladderFold_good : ∀ (l : List Nat) (st : Arena × Array Nat), Good st.1 → Good (l.foldl ladderStep st).1
  | [], _, g => g
  | v :: l, st, g => by
    rw [List.foldl_cons]
    exact ladderFold_good l _ (ladderStep_good st v g)

theorem ladderize_good {a : Arena} (g : Good a) : Good (ladderize a).1 := by
  unfold ladderize
  split
  · exact g
  · split
    · exact g
    · exact ladderFold_good _ _ g

theorem getRoot_spec {a : Arena} {r : Nat} (h : getRoot a = some r) : live a r ∧ (nd a r).parent = none := by
  unfold getRoot at h
  have := List.find?_some h
  simp only [Bool.and_eq_true, Option.isNone_iff_eq_none] at this
  exact ⟨(isLive_iff a r).1 this.1, this.2⟩

theorem resetDepths_good {a : Arena} (g : Good a) :
    Good (resetDepths a).1 ∧ (resetDepths a).2 ≠ .diverge := by
  unfold resetDepths
  split
  · exact ⟨g, by simp⟩
  next r hr =>
    obtain ⟨hlr, hpr⟩ := getRoot_spec hr
    obtain ⟨hinv, ht⟩ := g
    have w := hinv.toW
    obtain ⟨a', h1, ok⟩ := reset_main (fuelOf a) a.size (fun i => (nd a i).depth) a r 0 w hlr
      (depth_le_size hinv) (by simp only [fuelOf]; omega)
    simp only [h1]
    have hsame := resetF_same _ _ _ _ _ h1
    refine ⟨⟨?_, ht.transfer hsame⟩, by simp⟩
    apply inv_of_S_DepthOK (hinv.toS.transfer hsame)
    apply DOK.toDepthOK
    exact reset_clean_root w r _ hlr hpr (hinv.toDepthOK.toDOK _) ok

theorem ladderize_no_diverge {a : Arena} (g : Good a) : (ladderize a).2 ≠ .diverge := by
  unfold ladderize
  split
  · simp
  next r hr =>
    obtain ⟨l, hl⟩ := levelorder_total g.1 r (getRoot_spec hr).1
    simp [hl]

/-! ### every edit history -/

/-- the public construction and editing operations (arguments are arbitrary: invalid ones are refused by
    the operation itself; `resolve` takes the outcome of its random choices as an oracle) -/
inductive Op where
  | add (name : Option String)
  | addChild (p : Nat) (e : Option Int) (name : Option String)
  | setName (i : Nat) (name : Option String)
  | prune (x : Nat)
  | compressNode (v : Nat)
  | compress
  | rescale (k : Int)
  | merge (c1 c2 : Nat) (e1 e2 pe : Option Int) (name : Option String)
  | resolve (picks : List (Nat × Nat))
  | ladderize
  | resetDepths

def applyOp (a : Arena) : Op → Arena × Out
  | .add n => ((add a n).1, .ok (some (add a n).2))
  | .addChild p e n => addChildNamed a p e n
  | .setName i n => (setName a i n, .ok none)
  | .prune x => prune a x
  | .compressNode v => compressNode a v
  | .compress => compress a
  | .rescale k => (rescale a k, .ok none)
  | .merge c1 c2 e1 e2 pe n => mergeChildren a c1 c2 e1 e2 pe n
  | .resolve picks =>
    match resolve a picks with
    | some a' => (a', .ok none)
    | none => (a, .err "ill-formed oracle")
  | .ladderize => ladderize a
  | .resetDepths => resetDepths a

/-- the arena after a history of operations, starting from `a` -/
def runOps (a : Arena) (ops : List Op) : Arena := ops.foldl (fun a op => (applyOp a op).1) a

theorem applyOp_good {a : Arena} (op : Op) (g : Good a) :
    Good (applyOp a op).1 ∧ (applyOp a op).2 ≠ .diverge := by
  cases op with
  | add n => exact ⟨add_good n g, by simp [applyOp]⟩
  | addChild p e n =>
    refine ⟨addChildNamed_good p e n g, ?_⟩
    simp only [applyOp, addChildNamed]; split <;> simp
  | setName i n => exact ⟨setName_good i n g, by simp [applyOp]⟩
  | prune x => exact prune_good x g
  | compressNode v => exact compressNode_good v g
  | compress => exact compress_good g
  | rescale k => exact ⟨rescale_good k g, by simp [applyOp]⟩
  | merge c1 c2 e1 e2 pe n => exact mergeChildren_good c1 c2 e1 e2 pe n g
  | resolve picks =>
    simp only [applyOp]
    split
    next a' h => exact ⟨resolve_good picks g h, by simp⟩
    next => exact ⟨g, by simp⟩
  | ladderize => exact ⟨ladderize_good g, ladderize_no_diverge g⟩
  | resetDepths => exact resetDepths_good g

theorem runOps_good : ∀ (ops : List Op) {a : Arena}, Good a → Good (runOps a ops)
  | [], _, g => g
  | op :: ops, a, g => by
    simp only [runOps, List.foldl_cons]
    exact runOps_good ops (applyOp_good op g).1

end AR
