import PhyloModel.Arena.QueryRefineIndices
import PhyloModel.Props.C09
/-! `height` and `diameter` as functions of the abstract tree -/
namespace AR

/-! ### root-to-tip step lists of an id tree: (index of the kid taken, id of the kid) -/

mutual
def tipSteps : RTI → List (List (Nat × Nat))
  | .node _ [] => [[]]
  | .node _ (k :: ks) => tipStepsL 0 (k :: ks)
def tipStepsL : Nat → List RTI → List (List (Nat × Nat))
  | _, [] => []
  | j, k :: ks => (tipSteps k).map (fun s => (j, k.id) :: s) ++ tipStepsL (j + 1) ks
end

def stepF (a : Arena) (s : Nat × Nat) : Step := (s.1, (nd a s.2).pedge)

theorem eraseL_decorateL (a : Arena) (ks : List RTI) : eraseL (decorateL a ks) = ks.map (dec a) := by
  rw [decorateL_eq_map, eraseL_eq_map, List.map_map]; rfl

mutual
theorem tipPathsNL_dec (a : Arena) : ∀ t : RTI, tipPathsNL (dec a t) = (tipSteps t).map (fun s => s.map (stepF a))
  | .node i [] => by simp [dec, decorate, decorateL, erase, eraseL, tipPathsNL, tipSteps]
  | .node i (k :: ks) => by
    have := tipPathsNLL_dec a 0 (k :: ks)
    simp only [dec, decorate, decorateL, erase, eraseL, tipPathsNL, tipSteps, eraseL_decorateL]
    simpa [dec] using this
theorem tipPathsNLL_dec (a : Arena) : ∀ (j : Nat) (ts : List RTI),
    tipPathsNLL j (ts.map (dec a)) = (tipStepsL j ts).map (fun s => s.map (stepF a))
  | _, [] => by simp [tipPathsNLL, tipStepsL]
  | j, k :: ks => by
    simp only [List.map_cons, tipPathsNLL, tipStepsL, List.map_append, List.map_map, tipPathsNL_dec a k,
      tipPathsNLL_dec a (j + 1) ks]
    congr 1
    apply List.map_congr_left
    intro s _
    simp [stepF]
end

/-- the node a list of ids leads to, starting at `i` -/
def endOf (i : Nat) : List Nat → Nat
  | [] => i
  | x :: xs => endOf x xs

def idsOf (s : List (Nat × Nat)) : List Nat := s.map (·.2)

mutual
/-- the step lists end, left to right, at the tips of the tree -/
theorem tipSteps_ends (a : Arena) : ∀ (t : RTI) (i : Nat), Rep a i t →
    (tipSteps t).map (fun s => endOf i (idsOf s)) = (pre t).filter (tipp a)
  | .node j [], i, h => by
    simp only [Rep] at h
    obtain ⟨rfl, _, hk⟩ := h
    have := repL_nil hk
    simp [tipSteps, pre, preL, tipp, this, endOf, idsOf]
  | .node j (k :: ks), i, h => by
    simp only [Rep] at h
    obtain ⟨rfl, _, hk⟩ := h
    have hne := repL_cons_ne hk
    have htip : tipp a i = false := by
      simp only [tipp, List.isEmpty_eq_false_iff]; exact hne
    rw [tipSteps, pre, List.filter_cons, htip, tipStepsL_ends a 0 (k :: ks) _ i hk]
    simp
theorem tipStepsL_ends (a : Arena) : ∀ (j : Nat) (ts : List RTI) (cs : List Nat) (i : Nat), RepL a cs ts →
    (tipStepsL j ts).map (fun s => endOf i (idsOf s)) = (preL ts).filter (tipp a)
  | _, [], _, _, _ => by simp [tipStepsL, preL]
  | j, t :: ts, cs, i, h => by
    cases cs with
    | nil => simp [RepL] at h
    | cons c cs =>
      simp only [RepL] at h
      have h1 := tipSteps_ends a t c h.1
      have h2 := tipStepsL_ends a (j + 1) ts cs i h.2
      simp only [tipStepsL, List.map_append, List.map_map, preL, List.filter_append, h2, ← h1]
      congr 1
      apply List.map_congr_left
      intro s _
      simp [idsOf, endOf, h.1.id_eq]
end

mutual
/-- a step list appended to the root path of the sub-tree's root is the root path of its tip -/
theorem tipSteps_path {a : Arena} {rk : Nat → Nat} (w : W a rk) : ∀ (t : RTI) (i : Nat) (lp : List Nat),
    Rep a i t → Path a lp i → ∀ s ∈ tipSteps t, Path a (lp ++ idsOf s) (endOf i (idsOf s))
  | .node j [], i, lp, _, hp, s, hs => by
    simp only [tipSteps, List.mem_singleton] at hs
    subst hs
    simpa [idsOf, endOf] using hp
  | .node j (k :: ks), i, lp, h, hp, s, hs => by
    simp only [Rep] at h
    obtain ⟨rfl, hl, hk⟩ := h
    rw [tipSteps] at hs
    exact tipStepsL_path w 0 (k :: ks) _ i lp hl (fun c hc => hc) hk hp s hs
theorem tipStepsL_path {a : Arena} {rk : Nat → Nat} (w : W a rk) : ∀ (j : Nat) (ts : List RTI) (cs : List Nat)
    (i : Nat) (lp : List Nat), live a i → (∀ c ∈ cs, c ∈ (nd a i).children) → RepL a cs ts → Path a lp i →
    ∀ s ∈ tipStepsL j ts, Path a (lp ++ idsOf s) (endOf i (idsOf s))
  | _, [], _, _, _, _, _, _, _, s, hs => by simp [tipStepsL] at hs
  | j, t :: ts, cs, i, lp, hl, hsub, h, hp, s, hs => by
    cases cs with
    | nil => simp [RepL] at h
    | cons c cs =>
      simp only [RepL] at h
      simp only [tipStepsL, List.mem_append, List.mem_map] at hs
      rcases hs with ⟨s', hs', rfl⟩ | hs
      · have hc := w.child_ok i c hl (hsub c (by simp))
        have hpc : Path a (lp ++ [c]) c := Path.step hp hc.1 hc.2.1
        have := tipSteps_path w t c (lp ++ [c]) h.1 hpc s' hs'
        simpa [idsOf, endOf, h.1.id_eq] using this
      · exact tipStepsL_path w (j + 1) ts cs i lp hl (fun c' hc' => hsub c' (by simp [hc'])) h.2 hp s hs
end

/-! ### the distance the executable query reports, from root paths -/

def joinIds (qx qy : List Nat) : List Nat := qx.drop (cursor qx qy) ++ qy.drop (cursor qx qy)

def edgesOf (a : Arena) (l : List Nat) : Option Int × Nat := (optSum (l.map (fun i => (nd a i).pedge)), l.length)

theorem distance_paths {a : Arena} {rk : Nat → Nat} (w : W a rk) {r x y : Nat} {qx qy : List Nat}
    (hx : Path a (r :: qx) x) (hy : Path a (r :: qy) y) (hne : x ≠ y) :
    distance a x y = .ok (edgesOf a (joinIds qx qy)) := by
  simp only [distance, hne, ↓reduceIte, pathFromRoot_eq w hx, pathFromRoot_eq w hy, QR.bind_ok, QR.pure_eq,
    cursor, List.drop_succ_cons, edgesOf, joinIds]

theorem distance_root {a : Arena} {rk : Nat → Nat} (w : W a rk) {r x : Nat} {qx : List Nat}
    (hr : Path a [r] r) (hx : Path a (r :: qx) x) : distance a r x = .ok (edgesOf a qx) := by
  by_cases hne : r = x
  · subst hne
    have := Path.unique hx hr
    simp only [List.cons.injEq, true_and] at this
    subst this
    simp [distance, edgesOf, optSum]
  · rw [distance_paths w hr hx hne]
    simp [joinIds, cursor]

/-- the value of a distance query as the caller uses it -/
def distOr (unit : Int) (q : QR (Option Int × Nat)) : Int :=
  match q with
  | .ok d => distVal unit d
  | _ => 0

theorem pathLen_steps (a : Arena) (unit : Int) (s : List (Nat × Nat)) :
    pathLen unit (s.map (stepF a)) = distVal unit (edgesOf a (idsOf s)) := by
  simp only [pathLen, edgesOf, idsOf, List.map_map, List.length_map]
  rfl

/-! ### maxima -/

theorem maxOf_ext {l1 l2 : List Int} (h : ∀ x, x ∈ l1 ↔ x ∈ l2) : maxOf l1 = maxOf l2 := by
  cases h1 : maxOf l1 with
  | none =>
    cases l1 with
    | cons x xs => simp [maxOf] at h1
    | nil =>
      cases l2 with
      | nil => rfl
      | cons y ys => have := (h y).2 (by simp); simp at this
  | some m1 =>
    cases h2 : maxOf l2 with
    | none =>
      cases l2 with
      | cons x xs => simp [maxOf] at h2
      | nil =>
        have := C12.maxOf_spec l1 m1 h1
        have := (h m1).1 this.1
        simp at this
    | some m2 =>
      have s1 := C12.maxOf_spec l1 m1 h1
      have s2 := C12.maxOf_spec l2 m2 h2
      have a1 := s2.2 m1 ((h m1).1 s1.1)
      have a2 := s1.2 m2 ((h m2).2 s2.1)
      rw [Int.le_antisymm a1 a2]

theorem maxOf_perm {l1 l2 : List Int} (h : l1.Perm l2) : maxOf l1 = maxOf l2 :=
  maxOf_ext (fun _ => h.mem_iff)

/-! ### height -/

theorem treeHeight_eq (a : Arena) (unit : Int) (r : Nat) (b : Bool) (hr : root a = .ok r) (hb : isRooted a = .ok b) :
    treeHeight a unit = if !b then .err "IsNotRooted" else (do
      let ds ← (leaves a).mapM (fun l => do let d ← distance a r l; pure (distVal unit d))
      QR.ofOpt (maxOf ds) "IsEmpty") := by
  simp only [treeHeight, hb, hr, QR.bind_ok]

theorem height_core {a : Arena} (g : Good a) {t : Rose} {r : Nat} {t0 : RTI} (c : RootCtx a t r t0) (unit : Int) :
    ((pre t0).filter (tipp a)).map (fun l => distOr unit (distance a r l))
      = (tipPathsNL (dec a t0)).map (pathLen unit) ∧
    ∀ l ∈ (pre t0).filter (tipp a), ∃ d, distance a r l = .ok d := by
  have w := g.1.toW
  have hroot : Path a [r] r := Path.root c.is_root.1 c.is_root.2
  have hpath := tipSteps_path w t0 r [r] c.rep hroot
  have hval : ∀ s ∈ tipSteps t0, distance a r (endOf r (idsOf s)) = .ok (edgesOf a (idsOf s)) :=
    fun s hs => distance_root w hroot (hpath s hs)
  constructor
  · rw [← tipSteps_ends a t0 r c.rep, tipPathsNL_dec, List.map_map, List.map_map]
    apply List.map_congr_left
    intro s hs
    simp only [Function.comp, hval s hs, distOr, pathLen_steps]
  · intro l hl
    rw [← tipSteps_ends a t0 r c.rep, List.mem_map] at hl
    obtain ⟨s, hs, rfl⟩ := hl
    exact ⟨_, hval s hs⟩

/-- `height`: refused on unrooted trees, otherwise the largest root-to-tip path length of the tree (sum of
    branch lengths, edge count when a length on the path is absent) -/
theorem treeHeight_refines {a : Arena} (g : Good a) (h1 : AtMostOneRoot a) {t : Rose} (h : absRoot a = .ok t)
    (unit : Int) :
    treeHeight a unit = if !isRootedR t then .err "IsNotRooted" else QR.ofOpt (heightR unit t) "IsEmpty" := by
  obtain ⟨r, t0, c⟩ := absRoot_ctx g h1 h
  rw [treeHeight_eq a unit r _ (root_ok c) (isRooted_refines g h1 h)]
  split
  · rfl
  · obtain ⟨k1, k2⟩ := height_core g c unit
    have hperm := leaves_perm_ctx c
    have hm : (leaves a).mapM (fun l => do let d ← distance a r l; pure (distVal unit d))
        = .ok ((leaves a).map (fun l => distOr unit (distance a r l))) := by
      apply mapM_ok
      intro l hl
      obtain ⟨d, hd⟩ := k2 l (hperm.mem_iff.1 hl)
      simp [hd, distOr]
    rw [hm]
    simp only [QR.bind_ok]
    congr 1
    rw [maxOf_perm (hperm.map _), k1, c.dec, heightR, heightNL, dec]

end AR
