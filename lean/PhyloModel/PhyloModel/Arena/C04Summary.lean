import PhyloModel.Arena.FreshArena
import PhyloModel.Arena.MatrixDependsOnTree
import PhyloModel.Arena.QueryRefine
/-! # C04, assembled

One statement for the whole property: the arena `a` reached by any admissible edit history answers every
id-free read-only query — shape statistics, leaf names, name searches, traversals, bipartitions and tree
comparison, node-to-node distances and common ancestors (nodes addressed by pre-order position), both
distance matrices — exactly like the arena `freshArena' (erase ta)` built afresh (root by `add`, all other
nodes by `add_child` in pre-order, the way the Newick parser builds it) from the current tree of `a`. -/
namespace AR
open SPM DMF

theorem C04_history_vs_fresh (ops : List Op) (hadm : AdmissibleRun #[] ops) {ta : Rose}
    (hta : absRoot (runOps #[] ops) = .ok ta) :
    let a := runOps #[] ops
    let b := freshArena' (erase ta)
    ∃ tb, absRoot b = .ok tb ∧ erase tb = erase ta ∧
    -- shape statistics
    nLeaves a = nLeaves b ∧ isRooted a = isRooted b ∧ isBinary a = isBinary b ∧
    totalLength a = totalLength b ∧ cherries a = cherries b ∧ colless a = colless b ∧ sackin a = sackin b ∧
    (∀ u, treeHeight a u = treeHeight b u) ∧ (∀ u, diameter a u = diameter b u) ∧
    -- leaf names and name searches
    ((leaves a).map (fun i => (nd a i).name)).Perm ((leaves b).map (fun i => (nd b i).name)) ∧
    (∀ n, (searchName a n).length = (searchName b n).length) ∧
    -- traversals and listings from the root, read as names
    qnames a (subtree a ta.id) = qnames b (subtree b tb.id) ∧
    qnames a (postorder a ta.id) = qnames b (postorder b tb.id) ∧
    qnames a (inorder a ta.id) = qnames b (inorder b tb.id) ∧
    qnames a (levelorderQ a ta.id) = qnames b (levelorderQ b tb.id) ∧
    qnames a (subtreeLeaves a ta.id) = qnames b (subtreeLeaves b tb.id) ∧
    qnames a (descendants a ta.id) = qnames b (descendants b tb.id) ∧
    -- bipartitions
    partitionsArena a = partitionsArena b ∧
    -- distance matrices
    dmRecursive a = dmRecursive b ∧ (∀ u, dmRose a u = dmRose b u) ∧
    -- node-to-node distances, nodes addressed by pre-order position
    (∀ (i j xa ya xb yb : Nat), (idsR ta)[i]? = some xa → (idsR ta)[j]? = some ya → (idsR tb)[i]? = some xb →
      (idsR tb)[j]? = some yb → distance a xa ya = distance b xb yb) := by
  intro a b
  have h0 : AtMostOneRoot #[] := by intro i j hi; exact absurd hi.1.1 (by simp)
  obtain ⟨ga, ha⟩ := runOps_oneRoot ops empty_good h0 hadm
  obtain ⟨gb, hb, _, tb, htb, hetb⟩ := freshArena'_spec (erase ta)
  have he : erase ta = erase tb := hetb.symm
  obtain ⟨s1, s2, s3, s4, s5, s6, s7, s8, s9, s10, s11⟩ := answers_depend_only_on_tree ga gb ha hb hta htb he
  obtain ⟨_, _, t1, t2, t3, t4, t5, t6⟩ := traversals_depend_only_on_tree ga gb ha hb hta htb he
  exact ⟨tb, htb, hetb, s1, s2, s3, s4, s5, s6, s7, s8, s9, s10, s11, t1, t2, t3, t4, t5, t6,
    (partitions_depend_only_on_tree ga gb ha hb hta htb he).2.2,
    dmRecursive_depends_only_on_tree ga gb ha hb hta htb he,
    fun u => dmRose_depends_only_on_tree ga gb ha hb hta htb he u,
    fun i j xa ya xb yb k1 k2 k3 k4 => distances_depend_only_on_tree ga gb ha hb hta htb he i j xa ya xb yb k1 k2 k3 k4⟩

/-- non-vacuity: the history with a removal (`exB`) satisfies the hypotheses; e.g. its distance matrix equals
    that of the freshly built cherry -/
example : dmRecursive exB = dmRecursive (freshArena' (erase exTb)) := by
  have hadm : AdmissibleRun #[] [.add none, .addChild 0 (some 9) (some "z"), .prune 1,
      .addChild 0 (some 3) (some "x"), .addChild 0 (some 4) (some "y")] := by
    simp only [AdmissibleRun, Admissible, and_true]
    intro i hi; exact absurd hi.1.1 (by simp)
  obtain ⟨tb, _, _, rest⟩ := C04_history_vs_fresh _ hadm (ta := exTb) exB_abs
  exact rest.2.2.2.2.2.2.2.2.2.2.2.2.2.2.2.2.2.2.1

end AR
