import PhyloModel.Arena.Query
/-! Executable abstraction of an arena slot to a rose tree carrying the fields queries read. -/
namespace AR

inductive Rose where
  | node (id : Nat) (name : Option String) (len : Option Int) (depth : Nat) (kids : List Rose)
deriving Repr, Inhabited

def Rose.id : Rose → Nat | .node i _ _ _ _ => i
def Rose.name : Rose → Option String | .node _ n _ _ _ => n
def Rose.len : Rose → Option Int | .node _ _ l _ _ => l
def Rose.depth : Rose → Nat | .node _ _ _ d _ => d
def Rose.kids : Rose → List Rose | .node _ _ _ _ k => k

/-- the rose tree below slot `x` (child lists followed); `none` = dead slot reached or fuel exhausted -/
def absF : Nat → Arena → Nat → Option Rose
  | 0, _, _ => none
  | f + 1, a, x =>
    if isLive a x then
      ((nd a x).children.mapM (fun c => absF f a c)).map
        (fun ks => .node x (nd a x).name (nd a x).pedge (nd a x).depth ks)
    else none

def absRoot (a : Arena) : QR Rose := do
  let r ← root a
  QR.ofOpt (absF (fuelOf a) a r) "NodeNotFound"

end AR
