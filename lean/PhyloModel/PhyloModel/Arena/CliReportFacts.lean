import PhyloModel.Arena.CliReport
import PhyloModel.Arena.QRLemmas
namespace CLIR
open AR SPM

deriving instance DecidableEq for AR.QR

def NP {α : Type} (x : QR α) : Prop := x ≠ QR.panic

theorem np_ok {α : Type} (v : α) : NP (QR.ok v) := by simp [NP]
theorem np_pure {α : Type} (v : α) : NP (pure v : QR α) := by simp [NP]
theorem np_err {α : Type} (k : String) : NP (QR.err k : QR α) := by simp [NP]
theorem np_ofOpt {α : Type} (o : Option α) (k : String) : NP (QR.ofOpt o k) := by
  cases o <;> simp [NP, QR.ofOpt]
theorem np_bind {α β : Type} {x : QR α} {f : α → QR β} (hx : NP x) (hf : ∀ v, NP (f v)) : NP (x >>= f) := by
  cases x with
  | ok v => exact hf v
  | err k => simp [NP]
  | panic => exact absurd rfl hx
theorem np_ite {α : Type} {c : Prop} [Decidable c] {x y : QR α} (hx : NP x) (hy : NP y) : NP (if c then x else y) := by
  split <;> assumption

theorem np_mapM_loop {α β : Type} (f : α → QR β) (hf : ∀ x, NP (f x)) : ∀ (l : List α) (acc : List β),
    NP (List.mapM.loop f l acc)
  | [], acc => by simp [List.mapM.loop, NP]
  | x :: l, acc => by
    simp only [List.mapM.loop]
    exact np_bind (hf x) (fun v => np_mapM_loop f hf l (v :: acc))

theorem np_mapM {α β : Type} (f : α → QR β) (hf : ∀ x, NP (f x)) (l : List α) : NP (l.mapM f) := by
  simpa [List.mapM] using np_mapM_loop f hf l []

theorem np_root (a : Arena) : NP (root a) := np_ofOpt _ _
theorem np_isRooted (a : Arena) : NP (isRooted a) := np_bind (np_root a) (fun _ => np_pure _)
theorem np_isBinary (a : Arena) : NP (isBinary a) := by
  unfold isBinary
  split
  · exact np_bind (np_pure _) (fun _ => np_pure _)
  · exact np_bind (np_isRooted a) (fun _ => np_pure _)
theorem np_distance (a : Arena) (s t : Nat) : NP (distance a s t) := by
  unfold distance
  exact np_ite (np_ok _) (np_bind (np_ofOpt _ _) fun _ => np_bind (np_ofOpt _ _) fun _ => np_pure _)
theorem np_treeHeight (a : Arena) (u : Int) : NP (treeHeight a u) := by
  unfold treeHeight
  refine np_bind (np_isRooted a) fun r => ?_
  refine np_ite (np_err _) ?_
  refine np_bind (np_root a) fun r => ?_
  refine np_bind (np_mapM _ (fun l => np_bind (np_distance _ _ _) fun _ => np_pure _) _) fun _ => np_ofOpt _ _
theorem np_diameter (a : Arena) (u : Int) : NP (diameter a u) := by
  unfold diameter
  refine np_bind (np_mapM _ (fun l => np_bind (np_distance _ _ _) fun _ => np_pure _) _) fun _ => np_ofOpt _ _
theorem np_checkRB (a : Arena) : NP (checkRootedBinary a) := by
  unfold checkRootedBinary
  refine np_bind (np_isRooted a) fun r => np_ite (np_err _) ?_
  exact np_bind (np_isBinary a) fun r => np_ite (np_err _) (np_pure _)
theorem np_cherries (a : Arena) : NP (cherries a) := by
  unfold cherries
  exact np_bind (np_isBinary a) fun r => np_ite (np_err _) (np_ite (np_err _) (np_pure _))
theorem np_subtreeLeaves (a : Arena) (x : Nat) : NP (subtreeLeaves a x) :=
  np_bind (np_ofOpt _ _) fun _ => np_pure _
theorem np_colless (a : Arena) : NP (colless a) := by
  unfold colless
  refine np_bind (np_checkRB a) fun _ => ?_
  refine np_bind (np_mapM _ (fun i => ?_) _) fun _ => np_pure _
  refine np_bind (np_subtreeLeaves _ _) fun _ => ?_
  split
  · exact np_bind (np_subtreeLeaves _ _) fun _ => np_pure _
  · exact np_bind (np_pure _) fun _ => np_pure _
theorem np_sackin (a : Arena) : NP (sackin a) :=
  np_bind (np_checkRB a) fun _ => np_pure _

/-! ### `toRepr` -/
theorem toRepr_some {α : Type} (x : QR α) (v : α) : toRepr x = some v ↔ x = .ok v := by
  cases x <;> simp [toRepr]
theorem toRepr_none {α : Type} (x : QR α) (hx : NP x) : toRepr x = none ↔ ∃ k, x = .err k := by
  cases x <;> simp [toRepr, NP] at *

/-! ### `pairsInOrder` -/
theorem pairsInOrder_cons {α : Type} (x : α) (xs : List α) :
    pairsInOrder (x :: xs) = xs.map (fun y => (x, y)) ++ pairsInOrder xs := rfl

theorem pairsInOrder_length2 {α : Type} : ∀ l : List α, 2 * (pairsInOrder l).length = l.length * (l.length - 1)
  | [] => rfl
  | x :: xs => by
    have ih := pairsInOrder_length2 xs
    simp only [pairsInOrder_cons, List.length_append, List.length_map, List.length_cons, Nat.add_sub_cancel]
    cases h : xs.length with
    | zero => simp [h] at ih ⊢; exact ih
    | succ n => rw [h] at ih; simp only [Nat.add_sub_cancel] at ih; grind

theorem pairsInOrder_length {α : Type} (l : List α) : (pairsInOrder l).length = l.length * (l.length - 1) / 2 := by
  have := pairsInOrder_length2 l
  omega

theorem pairsInOrder_map {α β : Type} (f : α → β) : ∀ l : List α,
    pairsInOrder (l.map f) = (pairsInOrder l).map (fun p => (f p.1, f p.2))
  | [] => rfl
  | x :: xs => by
    simp [pairsInOrder_cons, pairsInOrder_map f xs, List.map_map, Function.comp_def]

theorem mem_pairsInOrder {α : Type} : ∀ (l : List α) (x y : α),
    (x, y) ∈ pairsInOrder l ↔ ∃ i j : Nat, i < j ∧ l[i]? = some x ∧ l[j]? = some y
  | [], x, y => by simp [pairsInOrder]
  | z :: zs, x, y => by
    rw [pairsInOrder_cons, List.mem_append, mem_pairsInOrder zs x y]
    constructor
    · rintro (h | ⟨i, j, hij, hi, hj⟩)
      · obtain ⟨w, hw, he⟩ := List.mem_map.mp h
        cases he
        obtain ⟨j, hj⟩ := List.getElem?_of_mem hw
        exact ⟨0, j + 1, by omega, by simp, by simpa using hj⟩
      · exact ⟨i + 1, j + 1, by omega, by simpa using hi, by simpa using hj⟩
    · rintro ⟨i, j, hij, hi, hj⟩
      cases j with
      | zero => omega
      | succ j =>
        cases i with
        | zero =>
          left
          simp only [List.getElem?_cons_zero, Option.some.injEq] at hi
          subst hi
          simp only [List.getElem?_cons_succ] at hj
          exact List.mem_map.mpr ⟨y, List.mem_of_getElem? hj, rfl⟩
        | succ i =>
          right
          exact ⟨i, j, by omega, by simpa using hi, by simpa using hj⟩

theorem pairsInOrder_fst_mem {α : Type} (l : List α) (x y : α) (h : (x, y) ∈ pairsInOrder l) : x ∈ l ∧ y ∈ l := by
  obtain ⟨i, j, _, hi, hj⟩ := (mem_pairsInOrder l x y).mp h
  exact ⟨List.mem_of_getElem? hi, List.mem_of_getElem? hj⟩

theorem pairsInOrder_nodup {α : Type} : ∀ l : List α, l.Nodup → (pairsInOrder l).Nodup
  | [], _ => by simp [pairsInOrder]
  | x :: xs, h => by
    rw [List.nodup_cons] at h
    rw [pairsInOrder_cons, List.nodup_append]
    refine ⟨?_, pairsInOrder_nodup xs h.2, ?_⟩
    · exact List.Pairwise.map _ (fun a b hab hc => hab (by cases hc; rfl)) h.2
    · intro p hp q hq hpq
      subst hpq
      obtain ⟨w, _, he⟩ := List.mem_map.mp hp
      subst he
      exact h.1 (pairsInOrder_fst_mem xs x w hq).1

theorem map_some_eq_range {α : Type} (l : List α) : l.map some = (List.range l.length).map (fun i => l[i]?) := by
  apply List.ext_getElem?
  intro i
  simp only [List.getElem?_map]
  by_cases h : i < l.length
  · simp [h]
  · simp [h]

theorem pairsInOrder_positions {α : Type} (l : List α) :
    (pairsInOrder l).map (fun p => (some p.1, some p.2)) =
      (pairsInOrder (List.range l.length)).map (fun p => (l[p.1]?, l[p.2]?)) := by
  rw [← pairsInOrder_map some l, map_some_eq_range, pairsInOrder_map]


/-! ### `distance` -/

/-- what a successful row says -/
def RowOK (a : Arena) (p : String × String) (r : String × String × Int) : Prop :=
  r.1 = p.1 ∧ r.2.1 = p.2 ∧ ∃ i j c, getByName a p.1 = some i ∧ getByName a p.2 = some j ∧
    distancePub a i j = .ok (some r.2.2, c)

theorem distanceRow_ok_iff (a : Arena) (p : String × String) (r : String × String × Int) :
    distanceRow a p = .ok r ↔ RowOK a p r := by
  unfold distanceRow RowOK
  constructor
  · intro h
    split at h
    · cases h
    · split at h
      · cases h
      · rename_i i1 h1 i2 h2
        split at h
        · rename_i d c hd
          cases h
          exact ⟨rfl, rfl, _, _, _, ‹_›, ‹_›, ‹_›⟩
        · cases h
        · cases h
  · rintro ⟨h1, h2, i, j, c, hi, hj, hd⟩
    simp only [hi, hj, hd]
    obtain ⟨r1, r2, r3⟩ := r
    simp only at h1 h2
    subst h1 h2
    rfl

theorem distanceRow_np (a : Arena) (p : String × String) : NP (distanceRow a p) := by
  unfold distanceRow NP
  repeat' split
  all_goals simp

/-- the kinds of refusal of one row -/
theorem distanceRow_err_iff (a : Arena) (p : String × String) (k : String) :
    distanceRow a p = .err k ↔
      ((getByName a p.1 = none ∨ getByName a p.2 = none) ∧ k = "panic-unknown-name") ∨
      (∃ i j, getByName a p.1 = some i ∧ getByName a p.2 = some j ∧
        ((∃ c, distancePub a i j = .ok (none, c)) ∧ k = "panic-missing-length" ∨
         (∀ r, distancePub a i j ≠ .ok r) ∧ k = "panic-distance-refused")) := by
  unfold distanceRow
  cases h1 : getByName a p.1 with
  | none => simp [eq_comm]
  | some i =>
    cases h2 : getByName a p.2 with
    | none => simp [eq_comm]
    | some j =>
      simp only [reduceCtorEq, or_self, false_and, Option.some.injEq, exists_and_left, exists_eq_left', false_or]
      cases hd : distancePub a i j with
      | ok r =>
        obtain ⟨d, c⟩ := r
        cases d <;> simp [eq_comm]
      | err e => simp [eq_comm]
      | panic => simp [eq_comm]

theorem mapQ_ok_iff {α β : Type} (f : α → QR β) : ∀ (ps : List α) (rows : List β),
    mapQ f ps = .ok rows ↔ ps.map f = rows.map QR.ok
  | [], rows => by
    cases rows <;> simp [mapQ]
  | p :: ps, rows => by
    simp only [mapQ, List.map_cons]
    cases hr : f p with
    | ok r =>
      cases hrs : mapQ f ps with
      | ok rs =>
        have ih := (mapQ_ok_iff f ps rs).mp hrs
        simp only [QR.ok.injEq]
        constructor
        · rintro rfl
          simp [ih]
        · intro h
          cases rows with
          | nil => simp at h
          | cons r' rows' =>
            simp only [List.map_cons, List.cons.injEq, QR.ok.injEq] at h
            have := (mapQ_ok_iff f ps rows').mpr h.2
            rw [hrs] at this; cases this
            rw [h.1]
      | err k =>
        simp only [reduceCtorEq, false_iff]
        intro h
        cases rows with
        | nil => simp at h
        | cons r' rows' =>
          simp only [List.map_cons, List.cons.injEq] at h
          have := (mapQ_ok_iff f ps rows').mpr h.2
          rw [hrs] at this; cases this
      | panic =>
        simp only [reduceCtorEq, false_iff]
        intro h
        cases rows with
        | nil => simp at h
        | cons r' rows' =>
          simp only [List.map_cons, List.cons.injEq] at h
          have := (mapQ_ok_iff f ps rows').mpr h.2
          rw [hrs] at this; cases this
    | err k =>
      cases rows <;> simp
    | panic =>
      cases rows <;> simp

theorem mapQ_np {α β : Type} (f : α → QR β) (hf : ∀ x, NP (f x)) : ∀ ps : List α, NP (mapQ f ps)
  | [] => by simp [mapQ, NP]
  | p :: ps => by
    have ih := mapQ_np f hf ps
    have hp := hf p
    simp only [mapQ, NP] at *
    cases hr : f p with
    | ok r => cases hrs : mapQ f ps <;> simp_all
    | err k => simp
    | panic => exact absurd hr hp

/-- the first failing element decides -/
theorem mapQ_err_iff {α β : Type} (f : α → QR β) (hf : ∀ x, NP (f x)) (k : String) : ∀ ps : List α,
    mapQ f ps = .err k ↔ ∃ pre p post, ps = pre ++ p :: post ∧
      (∀ q ∈ pre, ∃ r, f q = .ok r) ∧ f p = .err k
  | [] => by simp [mapQ]
  | p :: ps => by
    have ih := mapQ_err_iff f hf k ps
    simp only [mapQ]
    cases hr : f p with
    | ok r =>
      constructor
      · intro h
        have h' : mapQ f ps = .err k := by
          cases hrs : mapQ f ps <;> simp_all
        obtain ⟨pre, q, post, he, hpre, hq⟩ := ih.mp h'
        refine ⟨p :: pre, q, post, by simp [he], ?_, hq⟩
        intro z hz
        rcases List.mem_cons.mp hz with rfl | hz
        · exact ⟨r, hr⟩
        · exact hpre z hz
      · rintro ⟨pre, q, post, he, hpre, hq⟩
        cases pre with
        | nil =>
          simp only [List.nil_append, List.cons.injEq] at he
          obtain ⟨rfl, _⟩ := he
          rw [hr] at hq; cases hq
        | cons z pre =>
          simp only [List.cons_append, List.cons.injEq] at he
          obtain ⟨rfl, he⟩ := he
          have h' := ih.mpr ⟨pre, q, post, he, fun w hw => hpre w (List.mem_cons_of_mem _ hw), hq⟩
          simp [h']
    | err e =>
      constructor
      · intro h
        cases h
        exact ⟨[], p, ps, rfl, by simp, hr⟩
      · rintro ⟨pre, q, post, he, hpre, hq⟩
        cases pre with
        | nil =>
          simp only [List.nil_append, List.cons.injEq] at he
          obtain ⟨rfl, _⟩ := he
          rw [hr] at hq; cases hq; rfl
        | cons z pre =>
          simp only [List.cons_append, List.cons.injEq] at he
          obtain ⟨rfl, he⟩ := he
          obtain ⟨r, hr'⟩ := hpre p (by simp)
          rw [hr] at hr'; cases hr'
    | panic => exact absurd hr (hf p)

end CLIR
