import Batteries.Data.List.Perm
import PhyloModel.Arena.Lca
import PhyloModel.Arena.Query
import PhyloModel.Arena.QRLemmas
/-! Root paths are duplicate-free lists of live slots, hence no longer than the arena: the executable
    model's fuel (`arena size + 1`) always suffices for `get_path_from_root`. -/
namespace AR

theorem pigeon (l : List Nat) (n : Nat) (hd : l.Nodup) (hb : ∀ x ∈ l, x < n) : l.length ≤ n := by
  have hsub : l ⊆ List.range n := fun x hx => List.mem_range.mpr (hb x hx)
  have := (List.subperm_of_subset hd hsub).length_le
  simpa using this

theorem Path.ranks {a : Arena} {r : Nat → Nat} (w : W a r) {l : List Nat} {x : Nat} (h : Path a l x) :
    l.Pairwise (fun u v => r u < r v) ∧ (∀ y ∈ l, live a y ∧ r y ≤ r x) := by
  induction h with
  | root hl hp => exact ⟨by simp, by intro y hy; simp at hy; subst hy; exact ⟨hl, Nat.le_refl _⟩⟩
  | @step l p c hpath hl hp ih =>
    obtain ⟨hpw, hall⟩ := ih
    obtain ⟨hlp, hmem⟩ := w.parent_ok c p hl hp
    have hlt := (w.child_ok p c hlp hmem).2.2
    constructor
    · rw [List.pairwise_append]
      refine ⟨hpw, by simp, ?_⟩
      intro u hu v hv
      simp at hv; subst hv
      have := (hall u hu).2; omega
    · intro y hy
      rcases List.mem_append.mp hy with hy | hy
      · have := (hall y hy); exact ⟨this.1, by omega⟩
      · simp at hy; subst hy; exact ⟨hl, Nat.le_refl _⟩

theorem Path.length_le {a : Arena} {r : Nat → Nat} (w : W a r) {l : List Nat} {x : Nat} (h : Path a l x) :
    l.length ≤ a.size := by
  obtain ⟨hpw, hall⟩ := h.ranks w
  apply pigeon l a.size
  · exact hpw.imp (fun {u v} h => by intro he; subst he; omega)
  · intro y hy; exact (hall y hy).1.1

/-- the executable `get_path_from_root` returns the root path -/
theorem pathFromRoot_eq {a : Arena} {r : Nat → Nat} (w : W a r) {l : List Nat} {x : Nat} (h : Path a l x) :
    pathFromRoot a x = .ok l := by
  have hlen := h.length_le w
  have := climb_path h (fuelOf a) [] (by unfold fuelOf; omega)
  simp [pathFromRoot, this, QR.ofOpt]

theorem pathFromRoot_dead (a : Arena) (x : Nat) (h : ¬ live a x) : pathFromRoot a x = .err "NodeNotFound" := by
  unfold pathFromRoot fuelOf
  rw [climbF]
  have : ¬ (x < a.size ∧ (nd a x).deleted = false) := h
  simp [this, QR.ofOpt]

end AR
