import PhyloModel.Arena.DistBase
import PhyloModel.Arena.CompressPost
/-! C11, `compress_node` / `compress`: splicing out a one-child non-root node `v` (its two branch lengths
    added) keeps the length of the connecting path between any two live nodes other than `v`; the edge count
    can only drop.  Lifted to `compress`: every pair of live nodes that are not themselves spliced out — in
    particular every pair of tips — keeps its path length. -/
namespace AR

/-! ### lists in which `v` is always followed by `c` and `c` always preceded by `v` -/

inductive Linked (v c : Nat) : List Nat → Prop where
  | nil : Linked v c []
  | other {z l} : z ≠ v → z ≠ c → Linked v c l → Linked v c (z :: l)
  | pair {l} : Linked v c l → Linked v c (v :: c :: l)

theorem Linked.append {v c : Nat} {l1 l2 : List Nat} (h1 : Linked v c l1) (h2 : Linked v c l2) :
    Linked v c (l1 ++ l2) := by
  induction h1 with
  | nil => simpa using h2
  | other hz1 hz2 _ ih => exact Linked.other hz1 hz2 ih
  | pair _ ih => exact Linked.pair ih

/-- a suffix that does not start with `c` is linked again -/
theorem Linked.suffix {v c : Nat} {L : List Nat} (h : Linked v c L) :
    ∀ (C X : List Nat), L = C ++ X → X.head? ≠ some c → Linked v c X := by
  induction h with
  | nil =>
    intro C X heq _
    have : X = [] := by
      cases X with
      | nil => rfl
      | cons _ _ => simp at heq
    subst this; exact Linked.nil
  | @other z l hz1 hz2 hl ih =>
    intro C X heq hh
    cases C with
    | nil => simp only [List.nil_append] at heq; subst heq; exact Linked.other hz1 hz2 hl
    | cons y C' =>
      simp only [List.cons_append, List.cons.injEq] at heq
      exact ih C' X heq.2 hh
  | @pair l hl ih =>
    intro C X heq hh
    cases C with
    | nil => simp only [List.nil_append] at heq; subst heq; exact Linked.pair hl
    | cons y C' =>
      simp only [List.cons_append, List.cons.injEq] at heq
      cases C' with
      | nil =>
        simp only [List.nil_append] at heq
        rw [← heq.2] at hh
        simp at hh
      | cons y' C'' =>
        simp only [List.cons_append, List.cons.injEq] at heq
        exact ih C'' X heq.2.2 hh

/-- erase `v` -/
def dropV (v : Nat) (l : List Nat) : List Nat := l.filter (fun z => decide (z ≠ v))

theorem dropV_append (v : Nat) (l1 l2 : List Nat) : dropV v (l1 ++ l2) = dropV v l1 ++ dropV v l2 := by
  simp [dropV]

theorem dropV_length_le (v : Nat) (l : List Nat) : (dropV v l).length ≤ l.length := List.length_filter_le _ _

/-- the sum over a linked list with `v` erased and the length of `v` moved onto `c` -/
theorem Linked.sum {v c : Nat} (hvc : v ≠ c) {pe pe' : Nat → Option Int}
    (hc : sumLen (pe v) (pe c) = some (pe' c)) (ho : ∀ z, z ≠ v → z ≠ c → pe' z = pe z)
    {L : List Nat} (h : Linked v c L) : optSum ((dropV v L).map pe') = optSum (L.map pe) := by
  induction h with
  | nil => rfl
  | @other z l hz1 hz2 _ ih =>
    have : dropV v (z :: l) = z :: dropV v l := by simp [dropV, hz1]
    rw [this, List.map_cons, List.map_cons, optSum_cons, optSum_cons, ih, ho z hz1 hz2]
  | @pair l _ ih =>
    have : dropV v (v :: c :: l) = c :: dropV v l := by simp [dropV, Ne.symm hvc]
    rw [this]
    simp only [List.map_cons, optSum_cons, ih]
    cases hv : pe v <;> cases hcc : pe c <;> simp only [hv, hcc, sumLen] at hc
    · injection hc with hc; rw [← hc]; simp [optAdd_none_left]
    · cases hc
    · cases hc
    · injection hc with hc; rw [← hc, ← optAdd_assoc]; rfl

/-- after erasing `v`, two linked lists with different heads still have different heads -/
theorem Linked.heads {v c : Nat} (hvc : v ≠ c) {X Y : List Nat} (hx : Linked v c X) (hy : Linked v c Y)
    (hd : ∀ x y, X.head? = some x → Y.head? = some y → x ≠ y) :
    ∀ x y, (dropV v X).head? = some x → (dropV v Y).head? = some y → x ≠ y := by
  have hcv : c ≠ v := Ne.symm hvc
  intro x y h1 h2
  cases hx with
  | nil => simp [dropV] at h1
  | @other z l hz1 hz2 _ =>
    have e1 : dropV v (z :: l) = z :: dropV v l := by simp [dropV, hz1]
    rw [e1] at h1; simp at h1; subst h1
    cases hy with
    | nil => simp [dropV] at h2
    | @other z' l' hz1' hz2' _ =>
      have e2 : dropV v (z' :: l') = z' :: dropV v l' := by simp [dropV, hz1']
      rw [e2] at h2; simp at h2; subst h2
      exact hd _ _ rfl rfl
    | @pair l' _ =>
      have e2 : dropV v (v :: c :: l') = c :: dropV v l' := by simp [dropV, hcv]
      rw [e2] at h2; simp at h2; subst h2
      exact hz2
  | @pair l _ =>
    have e1 : dropV v (v :: c :: l) = c :: dropV v l := by simp [dropV, hcv]
    rw [e1] at h1; simp at h1; subst h1
    cases hy with
    | nil => simp [dropV] at h2
    | @other z' l' hz1' hz2' _ =>
      have e2 : dropV v (z' :: l') = z' :: dropV v l' := by simp [dropV, hz1']
      rw [e2] at h2; simp at h2; subst h2
      exact Ne.symm hz2'
    | @pair l' _ => exact absurd rfl (hd v v rfl rfl)

/-! ### root paths ending in a given node -/

theorem Path.live_end {a : Arena} {l : List Nat} {x : Nat} (h : Path a l x) : live a x := by
  cases h <;> assumption

theorem Path.snoc_inv {a : Arena} {l : List Nat} {x y : Nat} (h : Path a (l ++ [x]) y) :
    y = x ∧ ((l = [] ∧ (nd a x).parent = none) ∨ ∃ p, Path a l p ∧ (nd a x).parent = some p) := by
  generalize hL : l ++ [x] = L at h
  cases h with
  | root hl hp =>
    have : l = [] ∧ x = y := by
      cases l with
      | nil => simpa using hL
      | cons z zs => cases zs <;> simp at hL
    obtain ⟨rfl, rfl⟩ := this
    exact ⟨rfl, Or.inl ⟨rfl, hp⟩⟩
  | @step l0 p0 _ hpath hl hp =>
    obtain ⟨e1, e2⟩ := List.append_inj' hL (by simp)
    simp only [List.cons.injEq, and_true] at e2
    subst e1 e2
    exact ⟨rfl, Or.inr ⟨p0, hpath, hp⟩⟩

/-! ### what one successful `compress_node v` does to the fields `get_distance` reads -/

structure Spliced (a a' : Arena) (v p c : Nat) : Prop where
  lv : live a v
  par : (nd a v).parent = some p
  kids : (nd a v).children = [c]
  dead : ¬ live a' v
  liveo : ∀ i, i ≠ v → (live a' i ↔ live a i)
  parc : (nd a' c).parent = some p
  paro : ∀ i, i ≠ v → i ≠ c → (nd a' i).parent = (nd a i).parent
  pec : sumLen (nd a v).pedge (nd a c).pedge = some (nd a' c).pedge
  peo : ∀ i, i ≠ v → i ≠ c → (nd a' i).pedge = (nd a i).pedge

theorem compressNode_spliced {a a' : Arena} {v : Nat} {o : Option Nat} (g : Good a)
    (h : compressNode a v = (a', .ok o)) : ∃ p c, Spliced a a' v p c := by
  unfold compressNode at h
  split at h
  · simp at h
  next hv =>
    have hlv : live a v := (isLive_iff a v).1 (by simpa using hv)
    split at h
    next p c hpar hch =>
      split at h
      · simp at h
      next e he =>
        split at h
        · simp at h
        · obtain ⟨a2, h2, _⟩ := compress_core v p c e g hlv hpar hch
          simp only [h2] at h
          have ha : a2 = a' := by injection h
          subst ha
          have hinv := g.1
          have hc := hinv.child_ok; have hpo := hinv.parent_ok
          obtain ⟨hlp, hvmem⟩ := hpo v p hlv hpar
          obtain ⟨hlc, hcpar, hcdep, hce⟩ := hc v c hlv (by simp [hch])
          have hvdep := (hc p v hlp hvmem).2.2.1
          have hvc : v ≠ c := by intro h; subst h; omega
          have hvp : v ≠ p := by intro h; subst h; omega
          have hpc : p ≠ c := by intro h; subst h; omega
          have hsame := resetF_same _ _ _ _ _ h2
          have hns := nd_splice a v p c e hlv.1 hlp.1 hlc.1 hpc hvc hvp
          have hsz : (splice a v p c e).size = a.size := by simp [splice]
          rw [hce] at he
          refine ⟨p, c, hlv, hpar, hch, ?_, ?_, ?_, ?_, ?_, ?_⟩
          · intro hl
            have := hl.2
            rw [(hsame.2 v).2.2.2.2, hns] at this
            simp [dead] at this
          · intro i hi
            simp only [live, hsame.1, hsz, (hsame.2 i).2.2.2.2, hns, hi, ↓reduceIte]
            by_cases h2' : i = p
            · subst h2'; simp [removeChild]
            · by_cases h3 : i = c
              · subst h3; simp [h2']
              · simp [h2', h3]
          · rw [(hsame.2 c).1, hns]; simp [Ne.symm hvc, Ne.symm hpc]
          · intro i h1 h3
            rw [(hsame.2 i).1, hns]
            by_cases h2' : i = p
            · subst h2'; simp [h1, removeChild]
            · simp [h1, h2', h3]
          · rw [(hsame.2 c).2.2.1, hns]; simp [Ne.symm hvc, Ne.symm hpc, he]
          · intro i h1 h3
            rw [(hsame.2 i).2.2.1, hns]
            by_cases h2' : i = p
            · subst h2'; simp [h1, removeChild]
            · simp [h1, h2', h3]
    · simp at h

section
variable {a a' : Arena} {v p c : Nat}

theorem Spliced.facts (s : Spliced a a' v p c) (hinv : Inv a) :
    live a c ∧ (nd a c).parent = some v ∧ live a p ∧ v ≠ c ∧ v ≠ p ∧ p ≠ c := by
  have hc := hinv.child_ok; have hpo := hinv.parent_ok
  obtain ⟨hlp, hvmem⟩ := hpo v p s.lv s.par
  obtain ⟨hlc, hcpar, hcdep, _⟩ := hc v c s.lv (by simp [s.kids])
  have hvdep := (hc p v hlp hvmem).2.2.1
  exact ⟨hlc, hcpar, hlp, by intro h; subst h; omega, by intro h; subst h; omega, by intro h; subst h; omega⟩

/-- root paths of the old arena are linked -/
theorem Spliced.linked (s : Spliced a a' v p c) (hinv : Inv a) {l : List Nat} {x : Nat} (h : Path a l x) :
    (x ≠ v → Linked v c l) ∧ (x = v → ∃ l', l = l' ++ [v] ∧ Linked v c l') := by
  obtain ⟨hlc, hcpar, hlp, hvc, hvp, hpc⟩ := s.facts hinv
  induction h with
  | @root x hl hp =>
    constructor
    · intro hx
      have hxc : x ≠ c := by intro h; subst h; rw [hcpar] at hp; cases hp
      exact Linked.other hx hxc Linked.nil
    · intro hx; subst hx; rw [s.par] at hp; cases hp
  | @step l p0 c0 hpath hl hp ih =>
    constructor
    · intro hc0
      by_cases hp0 : p0 = v
      · subst hp0
        obtain ⟨l', rfl, hl'⟩ := ih.2 rfl
        have hm := (hinv.parent_ok c0 p0 hl hp).2
        rw [s.kids] at hm
        simp only [List.mem_cons, List.not_mem_nil, or_false] at hm
        subst hm
        rw [List.append_assoc]
        exact hl'.append (Linked.pair Linked.nil)
      · have hcc : c0 ≠ c := by
          intro h; subst h; rw [hcpar] at hp; exact hp0 (Option.some.inj hp).symm
        exact (ih.1 hp0).append (Linked.other hc0 hcc Linked.nil)
    · intro hc0
      subst hc0
      rw [s.par] at hp
      have : p0 = p := (Option.some.inj hp).symm
      subst this
      exact ⟨l, rfl, ih.1 (Ne.symm hvp)⟩

/-- the root path of a surviving node in the new arena is its old root path with `v` erased -/
theorem Spliced.path (s : Spliced a a' v p c) (hinv : Inv a) {l : List Nat} {x : Nat} (h : Path a l x) :
    Path a' (dropV v l) (if x = v then p else x) := by
  obtain ⟨hlc, hcpar, hlp, hvc, hvp, hpc⟩ := s.facts hinv
  induction h with
  | @root x hl hp =>
    have hx : x ≠ v := by intro h; subst h; rw [s.par] at hp; cases hp
    have hxc : x ≠ c := by intro h; subst h; rw [hcpar] at hp; cases hp
    have : dropV v [x] = [x] := by simp [dropV, hx]
    rw [this]; simp only [hx, ↓reduceIte]
    exact Path.root ((s.liveo x hx).2 hl) (by rw [s.paro x hx hxc]; exact hp)
  | @step l p0 c0 hpath hl hp ih =>
    rw [dropV_append]
    by_cases hc0 : c0 = v
    · subst hc0
      rw [s.par] at hp
      have : p0 = p := (Option.some.inj hp).symm
      subst this
      have : dropV c0 [c0] = [] := by simp [dropV]
      rw [this, List.append_nil]
      simpa [Ne.symm hvp] using ih
    · have e1 : dropV v [c0] = [c0] := by simp [dropV, hc0]
      rw [e1]; simp only [hc0, ↓reduceIte]
      have hl' : live a' c0 := (s.liveo c0 hc0).2 hl
      by_cases hp0 : p0 = v
      · subst hp0
        have hm := (hinv.parent_ok c0 p0 hl hp).2
        rw [s.kids] at hm
        simp only [List.mem_cons, List.not_mem_nil, or_false] at hm
        subst hm
        simp only [↓reduceIte] at ih
        exact Path.step ih hl' s.parc
      · simp only [hp0, ↓reduceIte] at ih
        have hcc : c0 ≠ c := by
          intro h; subst h; rw [hcpar] at hp; exact hp0 (Option.some.inj hp).symm
        exact Path.step ih hl' (by rw [s.paro c0 hc0 hcc]; exact hp)

/-- `v` has a single child, so it is never the point where the root paths of two other nodes part:
    the tail of a root path after the common prefix does not start with `c` -/
theorem Spliced.tail_head (s : Spliced a a' v p c) (hinv : Inv a) {C X Y : List Nat} {x y : Nat}
    (hp : Path a (C ++ X) x) (hq : Path a (C ++ Y) y) (hy : y ≠ v)
    (hd : ∀ x y, X.head? = some x → Y.head? = some y → x ≠ y) : X.head? ≠ some c := by
  obtain ⟨hlc, hcpar, hlp, hvc, hvp, hpc⟩ := s.facts hinv
  intro hh
  cases X with
  | nil => simp at hh
  | cons x0 X1 =>
    simp only [List.head?_cons, Option.some.injEq] at hh
    subst hh
    have h1 := (hp.split C X1 x0 rfl).1
    obtain ⟨_, h1 | ⟨p0, hC, hpar0⟩⟩ := h1.snoc_inv
    · rw [hcpar] at h1; cases h1.2
    · rw [hcpar] at hpar0
      have : p0 = v := (Option.some.inj hpar0).symm
      subst this
      cases Y with
      | nil =>
        rw [List.append_nil] at hq
        have := hC.last; rw [hq.last] at this
        exact hy (Option.some.inj this)
      | cons y0 Y1 =>
        have h2 := (hq.split C Y1 y0 rfl).1
        have hly0 := h2.live_end
        obtain ⟨_, h2 | ⟨p1, hC', hpar1⟩⟩ := h2.snoc_inv
        · exact hC.ne_nil h2.1
        · have := hC.last; rw [hC'.last] at this
          have : p1 = p0 := Option.some.inj this
          subst this
          have hm := (hinv.parent_ok y0 p1 hly0 hpar1).2
          rw [s.kids] at hm
          simp only [List.mem_cons, List.not_mem_nil, or_false] at hm
          exact hd x0 y0 rfl rfl hm.symm

/-- **one `compress_node` keeps path lengths**: for two distinct live nodes other than the spliced one,
    `get_distance` answers before and after with the same length (sum of branch lengths, or "a length is
    missing"); the number of edges does not grow -/
theorem Spliced.sameLen (s : Spliced a a' v p c) (g : Good a) (g' : Good a') {x y : Nat}
    (hlx : live a x) (hly : live a y) (hxv : x ≠ v) (hyv : y ≠ v) (hxy : x ≠ y) :
    ∃ n n', SameLen a a' x y n n' ∧ n' ≤ n := by
  have hinv := g.1
  obtain ⟨hlc, hcpar, hlp, hvc, hvp, hpc⟩ := s.facts hinv
  obtain ⟨P, hP⟩ := path_total g x hlx
  obtain ⟨Q, hQ⟩ := path_total g y hly
  obtain ⟨C, X, Y, e1, e2, _, hd⟩ := cursor_spec P Q
  subst e1 e2
  have hd' : ∀ x y, Y.head? = some x → X.head? = some y → x ≠ y := fun x y h1 h2 => Ne.symm (hd y x h2 h1)
  have hX : Linked v c X := ((s.linked hinv hP).1 hxv).suffix C X rfl (s.tail_head hinv hP hQ hyv hd)
  have hY : Linked v c Y := ((s.linked hinv hQ).1 hyv).suffix C Y rfl (s.tail_head hinv hQ hP hxv hd')
  have hP' := s.path hinv hP
  have hQ' := s.path hinv hQ
  simp only [hxv, hyv, ↓reduceIte, dropV_append] at hP' hQ'
  have d1 := distance_of_paths hinv.toW hP hQ hxy
  have d2 := distance_of_paths g'.1.toW hP' hQ' hxy
  rw [distOf_split a C X Y hd] at d1
  rw [distOf_split a' _ _ _ (Linked.heads hvc hX hY hd)] at d2
  refine ⟨(X ++ Y).length, (dropV v X ++ dropV v Y).length, ⟨_, d1, ?_⟩, ?_⟩
  · rw [d2, ← dropV_append]
    congr 2
    exact Linked.sum hvc s.pec s.peo (hX.append hY)
  · rw [← dropV_append]; exact dropV_length_le _ _

end

/-- `compress_node v` succeeded: same conclusion, stated on the executable operation -/
theorem compressNode_sameLen {a a' : Arena} {v : Nat} {o : Option Nat} (g : Good a)
    (h : compressNode a v = (a', .ok o)) {x y : Nat} (hlx : live a x) (hly : live a y) (hxv : x ≠ v)
    (hyv : y ≠ v) (hxy : x ≠ y) : ∃ n n', SameLen a a' x y n n' ∧ n' ≤ n := by
  obtain ⟨p, c, s⟩ := compressNode_spliced g h
  have g' := (compressNode_good v g).1
  rw [h] at g'
  exact s.sameLen g g' hlx hly hxv hyv hxy

/-- the loop of `compress` over any list of nodes: pairs of live nodes outside the list keep their path
    length -/
theorem compressLoop_sameLen : ∀ (vs : List Nat) {a a' : Arena} {o : Option Nat}, Good a →
    compressLoop vs a = (a', .ok o) → ∀ {x y : Nat}, live a x → live a y → x ∉ vs → y ∉ vs → x ≠ y →
    ∃ n n', SameLen a a' x y n n' ∧ n' ≤ n
  | [], a, a', o, g, h, x, y, hlx, hly, _, _, hxy => by
    simp only [compressLoop] at h
    have : a = a' := by injection h
    subst this
    obtain ⟨P, hP⟩ := path_total g x hlx
    obtain ⟨Q, hQ⟩ := path_total g y hly
    have d := distance_of_paths g.1.toW hP hQ hxy
    exact ⟨_, _, ⟨_, d, d⟩, Nat.le_refl _⟩
  | v :: vs, a, a', o, g, h, x, y, hlx, hly, hx, hy, hxy => by
    unfold compressLoop at h
    split at h
    next a1 o1 heq =>
      have g1 := (compressNode_good v g)
      rw [heq] at g1
      simp only [List.mem_cons, not_or] at hx hy
      obtain ⟨n, n1, s1, le1⟩ := compressNode_sameLen g heq hlx hly hx.1 hy.1 hxy
      obtain ⟨_, e1, e2⟩ := s1
      obtain ⟨hlx1, hly1⟩ := distance_ok_live hxy e2
      obtain ⟨n1', n2, s2, le2⟩ := compressLoop_sameLen vs g1.1 h hlx1 hly1 hx.2 hy.2 hxy
      obtain ⟨s3, e⟩ := SameLen.trans ⟨_, e1, e2⟩ s2
      subst e
      exact ⟨n, n2, s3, by omega⟩
    next r hne =>
      have : compressNode a v = (a', .ok o) := h
      exact absurd this (by intro e; exact hne a' o e)

/-- **`compress` keeps every path length** between live nodes that are not themselves one-child non-root
    nodes (those are exactly the nodes `compress` removes) -/
theorem compress_sameLen {a a' : Arena} {o : Option Nat} (g : Good a) (h : compress a = (a', .ok o))
    {x y : Nat} (hlx : live a x) (hly : live a y) (hx : ¬ Unary a x) (hy : ¬ Unary a y) (hxy : x ≠ y) :
    ∃ n n', SameLen a a' x y n n' ∧ n' ≤ n :=
  compressLoop_sameLen _ g h hlx hly (fun hm => hx ((mem_toCompress a x).1 hm))
    (fun hm => hy ((mem_toCompress a y).1 hm)) hxy

theorem IsTip.not_unary {a : Arena} {x : Nat} (h : IsTip a x) : ¬ Unary a x := by
  intro hu; have := hu.2.2; rw [h.2] at this; simp at this

/-- **leaf-to-leaf path lengths are unchanged by `compress`**: the tips after are the tips before, and for
    any two distinct tips `get_distance` answers before and after with the same length; the edge count
    does not grow -/
theorem compress_tip_distances {a a' : Arena} {o : Option Nat} (g : Good a) (h : compress a = (a', .ok o)) :
    (∀ i, IsTip a' i ↔ IsTip a i) ∧
    ∀ x y, IsTip a x → IsTip a y → x ≠ y →
      ∃ d n n', distance a x y = .ok (d, n) ∧ distance a' x y = .ok (d, n') ∧ n' ≤ n := by
  refine ⟨(compress_post g h).2, ?_⟩
  intro x y hx hy hxy
  obtain ⟨n, n', ⟨d, e1, e2⟩, hle⟩ := compress_sameLen g h hx.1 hy.1 hx.not_unary hy.not_unary hxy
  exact ⟨d, n, n', e1, e2, hle⟩

/-! ### whatever the outcome: `compress` can stop half-way (a one-child node with only one of its two lengths
    present is refused, `MissingBranchLengths`), leaving the nodes before it spliced out -/

/-- a `compress_node` that does not succeed leaves the arena as it was -/
theorem compressNode_refused {a a' : Arena} {v : Nat} {out : Out} (g : Good a)
    (h : compressNode a v = (a', out)) (hne : ∀ o, out ≠ .ok o) : a' = a := by
  unfold compressNode at h
  split at h
  · injection h with h1 _; exact h1.symm
  next hv =>
    have hlv : live a v := (isLive_iff a v).1 (by simpa using hv)
    split at h
    next p c hpar hch =>
      split at h
      · injection h with h1 _; exact h1.symm
      next e _ =>
        split at h
        · injection h with h1 _; exact h1.symm
        · obtain ⟨a2, h2, _⟩ := compress_core v p c e g hlv hpar hch
          simp only [h2] at h
          injection h with _ h3
          exact absurd h3.symm (hne none)
    · injection h with h1 _; exact h1.symm

/-- the loop of `compress`, whatever its outcome: the tips stay the same nodes, and pairs of live nodes
    outside the list keep their path length -/
theorem compressLoop_any : ∀ (vs : List Nat) {a : Arena}, Good a →
    (∀ i, IsTip (compressLoop vs a).1 i ↔ IsTip a i) ∧
    ∀ (x y : Nat), live a x → live a y → x ∉ vs → y ∉ vs → x ≠ y →
      ∃ n n', SameLen a (compressLoop vs a).1 x y n n' ∧ n' ≤ n
  | [], a, g => by
    refine ⟨fun _ => Iff.rfl, ?_⟩
    intro x y hlx hly _ _ hxy
    obtain ⟨P, hP⟩ := path_total g x hlx
    obtain ⟨Q, hQ⟩ := path_total g y hly
    have d := distance_of_paths g.1.toW hP hQ hxy
    exact ⟨_, _, ⟨_, d, d⟩, Nat.le_refl _⟩
  | v :: vs, a, g => by
    have hstop : ∀ a1 out, compressNode a v = (a1, out) → (∀ o, out ≠ .ok o) →
        (compressLoop (v :: vs) a).1 = a := by
      intro a1 out heq hne
      have e := compressNode_refused g heq hne
      subst e
      unfold compressLoop
      split
      next a' o heq' => rw [heq] at heq'; injection heq' with _ h2; exact absurd h2 (hne o)
      next => rw [heq]
    cases hcn : compressNode a v with
    | mk a1 out =>
      cases out with
      | ok o =>
        have hgo : compressLoop (v :: vs) a = compressLoop vs a1 := by
          rw [compressLoop]; simp only [hcn]
        have g1 := (compressNode_good v g)
        rw [hcn] at g1
        obtain ⟨t1, s1⟩ := compressLoop_any vs g1.1
        rw [hgo]
        refine ⟨fun i => (t1 i).trans ((compressNode_step g hcn).2 i), ?_⟩
        intro x y hlx hly hx hy hxy
        simp only [List.mem_cons, not_or] at hx hy
        obtain ⟨n, n1, ⟨d, e1, e2⟩, le1⟩ := compressNode_sameLen g hcn hlx hly hx.1 hy.1 hxy
        obtain ⟨hlx1, hly1⟩ := distance_ok_live hxy e2
        obtain ⟨n1', n2, s2, le2⟩ := s1 x y hlx1 hly1 hx.2 hy.2 hxy
        obtain ⟨s3, e⟩ := SameLen.trans ⟨d, e1, e2⟩ s2
        subst e
        exact ⟨n, n2, s3, by omega⟩
      | err k =>
        rw [hstop a1 _ hcn (by intro o; simp)]
        refine ⟨fun _ => Iff.rfl, ?_⟩
        intro x y hlx hly _ _ hxy
        obtain ⟨P, hP⟩ := path_total g x hlx
        obtain ⟨Q, hQ⟩ := path_total g y hly
        have d := distance_of_paths g.1.toW hP hQ hxy
        exact ⟨_, _, ⟨_, d, d⟩, Nat.le_refl _⟩
      | panic =>
        rw [hstop a1 _ hcn (by intro o; simp)]
        refine ⟨fun _ => Iff.rfl, ?_⟩
        intro x y hlx hly _ _ hxy
        obtain ⟨P, hP⟩ := path_total g x hlx
        obtain ⟨Q, hQ⟩ := path_total g y hly
        have d := distance_of_paths g.1.toW hP hQ hxy
        exact ⟨_, _, ⟨_, d, d⟩, Nat.le_refl _⟩
      | diverge =>
        rw [hstop a1 _ hcn (by intro o; simp)]
        refine ⟨fun _ => Iff.rfl, ?_⟩
        intro x y hlx hly _ _ hxy
        obtain ⟨P, hP⟩ := path_total g x hlx
        obtain ⟨Q, hQ⟩ := path_total g y hly
        have d := distance_of_paths g.1.toW hP hQ hxy
        exact ⟨_, _, ⟨_, d, d⟩, Nat.le_refl _⟩

/-- **leaf-to-leaf path lengths are unchanged by `compress`, whatever its outcome** (also when it stops
    half-way with an error): same tips, same length between any two of them -/
theorem compress_tip_distances_any {a : Arena} (g : Good a) :
    (∀ i, IsTip (compress a).1 i ↔ IsTip a i) ∧
    ∀ x y, IsTip a x → IsTip a y → x ≠ y →
      ∃ d n n', distance a x y = .ok (d, n) ∧ distance (compress a).1 x y = .ok (d, n') ∧ n' ≤ n := by
  obtain ⟨t1, s1⟩ := compressLoop_any (toCompress a) g
  refine ⟨t1, ?_⟩
  intro x y hx hy hxy
  obtain ⟨n, n', ⟨d, e1, e2⟩, hle⟩ := s1 x y hx.1 hy.1
    (fun hm => hx.not_unary ((mem_toCompress a x).1 hm)) (fun hm => hy.not_unary ((mem_toCompress a y).1 hm)) hxy
  exact ⟨d, n, n', e1, e2, hle⟩

/-! ### non-vacuity: root 0 with the chain 0 - 1 - 2 (node 1 has one child), tips 3, 4 below 2 and tip 5 below 0 -/

def exC : Arena := runOps #[] [.add none, .addChild 0 (some 2) none, .addChild 1 (some 3) none,
  .addChild 2 (some 1) none, .addChild 2 (some 5) none, .addChild 0 (some 7) none]

theorem exC_good : Good exC := runOps_good _ empty_good

theorem exC_compress : compress exC = ((compress exC).1, .ok none) :=
  Prod.ext rfl (by decide)

theorem exC_tips : IsTip exC 3 ∧ IsTip exC 5 := by
  unfold IsTip live; decide

/-- the hypotheses of `compress_tip_distances` hold for `exC` and the tips 3, 5; the common length is 13,
    over 4 edges before and 3 edges after -/
example : distance exC 3 5 = .ok (some 13, 4) ∧ distance (compress exC).1 3 5 = .ok (some 13, 3) :=
  ⟨distIs_eq (by decide), distIs_eq (by decide)⟩

example : ∃ d n n', distance exC 3 5 = .ok (d, n) ∧ distance (compress exC).1 3 5 = .ok (d, n') ∧ n' ≤ n :=
  (compress_tip_distances exC_good exC_compress).2 3 5 exC_tips.1 exC_tips.2 (by decide)

/-- a tree on which `compress` stops half-way: node 1 is spliced out, then node 5 (length 7 above, no length
    below) is refused; the tips 3 and 6 keep their (missing) length, over one edge fewer -/
def exC2 : Arena := runOps #[] [.add none, .addChild 0 (some 2) none, .addChild 1 (some 3) none,
  .addChild 2 (some 1) none, .addChild 2 (some 5) none, .addChild 0 (some 7) none, .addChild 5 none none]

example : (compress exC2).2 = .err "MissingBranchLengths" ∧
    distance exC2 3 6 = .ok (none, 5) ∧ distance (compress exC2).1 3 6 = .ok (none, 4) ∧
    distance exC2 3 4 = .ok (some 6, 2) ∧ distance (compress exC2).1 3 4 = .ok (some 6, 2) :=
  ⟨by decide, distIs_eq (by decide), distIs_eq (by decide), distIs_eq (by decide), distIs_eq (by decide)⟩

end AR
