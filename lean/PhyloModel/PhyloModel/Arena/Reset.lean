import PhyloModel.Arena.Below
/-! Scratch prototype: `reset_depth_impl` re-establishes depths on a subtree (used by the depth repair) -/
namespace AR

/-- `Tree::reset_depth_impl` with fuel -/
def resetF : Nat → Arena → Nat → Nat → Option Arena
  | 0, _, _, _ => none
  | f + 1, a, x, d =>
    if x < a.size ∧ (nd a x).deleted = false then
      (nd a x).children.foldlM (fun acc c => resetF f acc c (d + 1))
        (a.setIfInBounds x { nd a x with depth := d })
    else none

/-- same arena up to the cached depths -/
structure Eqv (a b : Arena) : Prop where
  size : b.size = a.size
  parent : ∀ i, (nd b i).parent = (nd a i).parent
  children : ∀ i, (nd b i).children = (nd a i).children
  deleted : ∀ i, (nd b i).deleted = (nd a i).deleted

theorem Eqv.refl (a : Arena) : Eqv a a := ⟨rfl, fun _ => rfl, fun _ => rfl, fun _ => rfl⟩
theorem Eqv.trans {a b c : Arena} (h1 : Eqv a b) (h2 : Eqv b c) : Eqv a c :=
  ⟨by rw [h2.size, h1.size], fun i => by rw [h2.parent, h1.parent], fun i => by rw [h2.children, h1.children],
   fun i => by rw [h2.deleted, h1.deleted]⟩
theorem Eqv.live_iff {a b : Arena} (h : Eqv a b) (i : Nat) : live b i ↔ live a i := by
  simp only [live, h.size, h.deleted]

theorem Eqv.W {a b : Arena} {r : Nat → Nat} (h : Eqv a b) (w : W a r) : W b r := by
  constructor
  · intro i c hl hc
    rw [h.live_iff] at hl; rw [h.children] at hc
    have := w.child_ok i c hl hc
    rw [h.live_iff, h.parent]; exact this
  · intro i p hl hp
    rw [h.live_iff] at hl; rw [h.parent] at hp
    have := w.parent_ok i p hl hp
    rw [h.live_iff, h.children]; exact this
  · intro i; rw [h.children]; exact w.nodup i

theorem Eqv.below {a b : Arena} (h : Eqv a b) {x v k : Nat} (hb : BelowK b x v k) : BelowK a x v k := by
  induction hb with
  | refl hl => exact BelowK.refl ((h.live_iff _).1 hl)
  | step _ hl hpar ih => exact BelowK.step ih ((h.live_iff _).1 hl) (by rw [← h.parent]; exact hpar)

theorem Eqv.symm {a b : Arena} (h : Eqv a b) : Eqv b a :=
  ⟨h.size.symm, fun i => (h.parent i).symm, fun i => (h.children i).symm, fun i => (h.deleted i).symm⟩

theorem eqv_setDepth (a : Arena) (x d : Nat) : Eqv a (a.setIfInBounds x { nd a x with depth := d }) := by
  constructor
  · simp
  · intro i; rw [nd_set]; split <;> simp_all
  · intro i; rw [nd_set]; split <;> simp_all
  · intro i; rw [nd_set]; split <;> simp_all

/-- result of a successful reset below `x` -/
structure ResetOK (a a' : Arena) (x d : Nat) : Prop where
  eqv : Eqv a a'
  inside : ∀ v k, BelowK a x v k → (nd a' v).depth = d + k
  outside : ∀ v, (∀ k, ¬ BelowK a x v k) → (nd a' v).depth = (nd a v).depth

theorem reset_loop (f D : Nat) (r : Nat → Nat)
    (ih : ∀ a c d, W a r → live a c → (∀ i, live a i → r i ≤ D) → D < f + r c →
        ∃ a', resetF f a c d = some a' ∧ ResetOK a a' c d) :
    ∀ (cs done : List Nat) (a b : Arena) (x d : Nat), W a r → live a x → (∀ i, live a i → r i ≤ D) →
      D < f + r x + 1 → (nd a x).children = done ++ cs → Eqv a b →
      (nd b x).depth = d →
      (∀ c v k, c ∈ done → BelowK a c v k → (nd b v).depth = d + 1 + k) →
      (∀ v, v ≠ x → (∀ c k, c ∈ done → ¬ BelowK a c v k) → (nd b v).depth = (nd a v).depth) →
      ∃ b', cs.foldlM (fun acc c => resetF f acc c (d + 1)) b = some b' ∧ Eqv a b' ∧
        (nd b' x).depth = d ∧
        (∀ c v k, c ∈ (nd a x).children → BelowK a c v k → (nd b' v).depth = d + 1 + k) ∧
        (∀ v, v ≠ x → (∀ c k, c ∈ (nd a x).children → ¬ BelowK a c v k) → (nd b' v).depth = (nd a v).depth) := by
  intro cs
  induction cs with
  | nil =>
    intro done a b x d _ _ _ _ hch he hdx hin hout
    simp only [List.append_nil] at hch
    exact ⟨b, by simp [List.foldlM], he, hdx, by rw [hch]; exact hin, by rw [hch]; exact hout⟩
  | cons c cs ihcs =>
    intro done a b x d w hlx hD hf hch he hdx hin hout
    have hcmem : c ∈ (nd a x).children := by rw [hch]; simp
    obtain ⟨hlc, hcp, hrk⟩ := w.child_ok x c hlx hcmem
    have wb : W b r := he.W w
    have hlcb : live b c := (he.live_iff c).2 hlc
    obtain ⟨b1, hb1, ok⟩ := ih b c (d + 1) wb hlcb (fun i hl => hD i ((he.live_iff i).1 hl)) (by omega)
    have he1 : Eqv a b1 := he.trans ok.eqv
    have hnodup := w.nodup x
    rw [hch] at hnodup
    have hcnd : c ∉ done := by
      intro hm
      have := (List.nodup_append.1 hnodup).2.2 c hm c (by simp) rfl
      exact this
    -- x is not below c
    have hx_not : ∀ k, ¬ BelowK a c x k := fun k hb => by have := BelowK.rank w hb; omega
    have hx_not_b : ∀ k, ¬ BelowK b c x k := fun k hb => hx_not k (he.below hb)
    obtain ⟨b', hfold, h1, h2, h3, h4⟩ := ihcs (done ++ [c]) a b1 x d w hlx hD hf
      (by rw [hch]; simp) he1
      (by rw [ok.outside x hx_not_b]; exact hdx)
      (by
        intro c0 v k hc0 hb
        simp only [List.mem_append, List.mem_singleton] at hc0
        rcases hc0 with hc0 | rfl
        · -- v below an earlier child: untouched by the reset below c
          have hc0mem : c0 ∈ (nd a x).children := by rw [hch]; simp [hc0]
          have hne : c0 ≠ c := fun h => hcnd (h ▸ hc0)
          have : ∀ k', ¬ BelowK b c v k' := fun k' hb' =>
            BelowK.disjoint w hlx hc0mem hcmem hne hb (he.below hb')
          rw [ok.outside v this]; exact hin c0 v k hc0 hb
        · have := ok.inside v k (he.symm.below hb)
          rw [this])
      (by
        intro v hvx hnb
        have hnbc : ∀ k', ¬ BelowK b c v k' := fun k' hb' => hnb c k' (by simp) (he.below hb')
        rw [ok.outside v hnbc]
        exact hout v hvx (fun c0 k hc0 => hnb c0 k (by simp [hc0])))
    exact ⟨b', by simp [List.foldlM, hb1, hfold], h1, h2, h3, h4⟩

end AR
