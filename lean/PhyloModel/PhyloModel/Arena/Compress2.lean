import PhyloModel.Arena.Compress
namespace AR

theorem removeChild_children (n : Node) (x : Nat) : (removeChild n x).children = n.children.erase x := rfl
theorem removeChild_cedges (n : Node) (x : Nat) : (removeChild n x).cedges = alErase n.cedges x := rfl

theorem splice_S (a : Arena) (v p c : Nat) (e : Option Int) (hinv : Inv a) (hlv : live a v)
    (hpar : (nd a v).parent = some p) (hch : (nd a v).children = [c]) :
    S (splice a v p c e) (fun i => (nd a i).depth) ∧ (splice a v p c e).size = a.size ∧
    (∀ i, live (splice a v p c e) i ↔ (i ≠ v ∧ live a i)) ∧
    (∀ i, (nd (splice a v p c e) i).depth = if i = v then 0 else (nd a i).depth) := by
  have hc := hinv.child_ok; have hpo := hinv.parent_ok; have hnd := hinv.nodup
  have hrd := hinv.root_depth; have hcd := hinv.cedge_dom
  obtain ⟨hlp, hvmem⟩ := hpo v p hlv hpar
  obtain ⟨hlc, hcpar, hcdep, hcedge⟩ := hc v c hlv (by simp [hch])
  have hvdep := (hc p v hlp hvmem).2.2.1
  have hpc : p ≠ c := by intro h; subst h; omega
  have hvc : v ≠ c := by intro h; subst h; omega
  have hvp : v ≠ p := by intro h; subst h; omega
  have hns := nd_splice a v p c e hlv.1 hlp.1 hlc.1 hpc hvc hvp
  have hsz : (splice a v p c e).size = a.size := by simp [splice]
  have hcnotin : c ∉ (nd a p).children := by
    intro hm; have := (hc p c hlp hm).2.1; rw [hcpar] at this; exact hvp (Option.some.inj this)
  have hlive : ∀ i, live (splice a v p c e) i ↔ (i ≠ v ∧ live a i) := by
    intro i
    simp only [live, hsz, hns i]
    by_cases h1 : i = v
    · subst h1; simp [dead]
    · by_cases h2 : i = p
      · subst h2; simp [h1, removeChild]
      · by_cases h3 : i = c
        · subst h3; simp [h1, h2]
        · simp [h1, h2, h3]
  have hmem_erase : ∀ x, x ∈ ((nd a p).children ++ [c]).erase v ↔ (x ≠ v ∧ (x ∈ (nd a p).children ∨ x = c)) := by
    intro x
    have hnd' : ((nd a p).children ++ [c]).Nodup := by
      rw [List.nodup_append]; refine ⟨hnd p, by simp, ?_⟩
      intro y hy z hz; simp at hz; subst hz; intro h; subst h; exact hcnotin hy
    rw [List.Nodup.mem_erase_iff hnd']; simp
  have hnoc : alGet (nd a p).cedges c = none := by
    cases h : alGet (nd a p).cedges c with
    | none => rfl
    | some w => exact absurd (hcd p c (by simp [h])) hcnotin
  -- slots
  have hsv : nd (splice a v p c e) v = dead := by rw [hns]; simp
  have hsp : nd (splice a v p c e) p =
      removeChild (setCedge { nd a p with children := (nd a p).children ++ [c] } c e) v := by
    rw [hns]; simp [Ne.symm hvp]
  have hsc : nd (splice a v p c e) c = { nd a c with parent := some p, pedge := e } := by
    rw [hns]; simp [Ne.symm hvc, Ne.symm hpc]
  have hso : ∀ i, i ≠ v → i ≠ p → i ≠ c → nd (splice a v p c e) i = nd a i := by
    intro i h1 h2 h3; rw [hns]; simp [h1, h2, h3]
  have hpch : (nd (splice a v p c e) p).children = ((nd a p).children ++ [c]).erase v := by
    rw [hsp]; simp [removeChild_children]
  have hpce : ∀ x, alGet (nd (splice a v p c e) p).cedges x =
      if x = v then none else if x = c then e else alGet (nd a p).cedges x := by
    intro x
    rw [hsp, removeChild_cedges, alGet_erase, setCedge_get]
    by_cases h1 : x = v
    · simp [h1]
    · by_cases h2 : x = c
      · subst h2; simp [h1, hnoc]
      · simp [h1, h2]
  have hppar : (nd (splice a v p c e) p).parent = (nd a p).parent := by rw [hsp]; simp [removeChild]
  have hppe : (nd (splice a v p c e) p).pedge = (nd a p).pedge := by rw [hsp]; simp [removeChild]
  refine ⟨⟨?_, ?_, ?_, ?_⟩, hsz, hlive, ?_⟩
  · -- child_ok
    intro i x hl hx
    rw [hlive] at hl
    obtain ⟨hiv, hli⟩ := hl
    rw [hlive]
    by_cases hip : i = p
    · subst hip
      rw [hpch, hmem_erase] at hx
      obtain ⟨hxv, hx⟩ := hx
      rcases hx with hx | hx
      · have hxc : x ≠ c := fun h => hcnotin (h ▸ hx)
        obtain ⟨g1, g2, g3, g4⟩ := hc i x hli hx
        have hxp : x ≠ i := by intro h; subst h; omega
        rw [hso x hxv hxp hxc, hpce x]
        simp only [hxv, hxc, ↓reduceIte]
        exact ⟨⟨hxv, g1⟩, g2, by show (nd a i).depth < (nd a x).depth; omega, g4⟩
      · subst hx
        rw [hsc, hpce x]
        simp only [Ne.symm hvc, ↓reduceIte]
        exact ⟨⟨Ne.symm hvc, hlc⟩, trivial, by show (nd a i).depth < (nd a x).depth; omega, trivial⟩
    · by_cases hic : i = c
      · subst hic
        rw [hsc] at hx ⊢
        simp only at hx ⊢
        obtain ⟨g1, g2, g3, g4⟩ := hc i x hli hx
        have hxv : x ≠ v := by intro h; subst h; rw [hpar] at g2; exact hip (Option.some.inj g2).symm
        have hxp : x ≠ p := by intro h; subst h; omega
        have hxi : x ≠ i := by intro h; subst h; omega
        rw [hso x hxv hxp hxi]
        exact ⟨⟨hxv, g1⟩, g2, by show (nd a i).depth < (nd a x).depth; omega, g4⟩
      · rw [hso i hiv hip hic] at hx ⊢
        obtain ⟨g1, g2, g3, g4⟩ := hc i x hli hx
        have hxv : x ≠ v := by intro h; subst h; rw [hpar] at g2; exact hip (Option.some.inj g2).symm
        have hxc : x ≠ c := by intro h; subst h; rw [hcpar] at g2; exact hiv (Option.some.inj g2).symm
        by_cases hxp : x = p
        · subst hxp
          rw [hppar, hppe]
          exact ⟨⟨hxv, g1⟩, g2, by show (nd a i).depth < (nd a x).depth; omega, g4⟩
        · rw [hso x hxv hxp hxc]
          exact ⟨⟨hxv, g1⟩, g2, by show (nd a i).depth < (nd a x).depth; omega, g4⟩
  · -- parent_ok
    intro i q hl hq
    rw [hlive] at hl
    obtain ⟨hiv, hli⟩ := hl
    rw [hlive]
    by_cases hic : i = c
    · subst hic
      rw [hsc] at hq
      simp only [Option.some.injEq] at hq
      subst hq
      rw [hpch, hmem_erase]
      exact ⟨⟨Ne.symm hvp, hlp⟩, Ne.symm hvc, Or.inr rfl⟩
    · have hq' : (nd a i).parent = some q := by
        by_cases hip : i = p
        · subst hip; rw [hppar] at hq; exact hq
        · rw [hso i hiv hip hic] at hq; exact hq
      obtain ⟨g1, g2⟩ := hpo i q hli hq'
      have hqv : q ≠ v := by
        intro h; subst h; rw [hch] at g2; simp at g2; exact hic g2
      refine ⟨⟨hqv, g1⟩, ?_⟩
      by_cases hqp : q = p
      · subst hqp; rw [hpch, hmem_erase]; exact ⟨hiv, Or.inl g2⟩
      · by_cases hqc : q = c
        · subst hqc; rw [hsc]; exact g2
        · rw [hso q hqv hqp hqc]; exact g2
  · -- nodup
    intro i
    by_cases hiv : i = v
    · subst hiv; rw [hsv]; simp [dead]
    · by_cases hip : i = p
      · subst hip; rw [hpch]
        have hnd' : ((nd a i).children ++ [c]).Nodup := by
          rw [List.nodup_append]; refine ⟨hnd i, by simp, ?_⟩
          intro y hy z hz; simp at hz; subst hz; intro h; subst h; exact hcnotin hy
        exact List.Nodup.erase v hnd'
      · by_cases hic : i = c
        · subst hic; rw [hsc]; exact hnd i
        · rw [hso i hiv hip hic]; exact hnd i
  · -- cedge_dom
    intro i x hs
    by_cases hiv : i = v
    · subst hiv; rw [hsv] at hs; simp [dead, alGet] at hs
    · by_cases hip : i = p
      · subst hip
        rw [hpce x] at hs
        rw [hpch, hmem_erase]
        by_cases hxv : x = v
        · simp [hxv] at hs
        · by_cases hxc : x = c
          · exact ⟨hxv, Or.inr hxc⟩
          · simp only [hxv, hxc, ↓reduceIte] at hs
            exact ⟨hxv, Or.inl (hcd i x hs)⟩
      · by_cases hic : i = c
        · subst hic; rw [hsc] at hs ⊢; exact hcd i x hs
        · rw [hso i hiv hip hic] at hs ⊢; exact hcd i x hs
  · intro i
    simp only [hns]
    by_cases h1 : i = v
    · subst h1; simp [dead]
    · by_cases h2 : i = p
      · subst h2; simp [h1, removeChild]
      · by_cases h3 : i = c
        · subst h3; simp [h1, h2]
        · simp [h1, h2, h3]

end AR
