import PhyloModel.Arena.QueryRefine
/-! # C04 corollary: the answers depend only on the tree

Two arenas — whatever their slot layout, tombstones, cached depths and edit histories — whose abstract trees
agree after forgetting ids and cached depths (`erase`, i.e. agree as Newick trees: names, branch lengths,
ordered topology) give the same answer to every id-free read-only query.  In particular the arena reached
by an edit history answers like the arena of a freshly parsed tree with the same Newick text.
(Read-only queries are pure functions `Arena → answer` in the model, so they cannot change the answer of a
later query; the interplay with the two caches of the Rust code is `Props/C04.lean`.) -/
namespace AR

/-- **layout / history independence of the id-free answers** -/
theorem answers_depend_only_on_tree {a b : Arena} (ga : Good a) (gb : Good b) (ha : AtMostOneRoot a)
    (hb : AtMostOneRoot b) {ta tb : Rose} (hta : absRoot a = .ok ta) (htb : absRoot b = .ok tb)
    (he : erase ta = erase tb) :
    nLeaves a = nLeaves b ∧ isRooted a = isRooted b ∧ isBinary a = isBinary b ∧
    totalLength a = totalLength b ∧ cherries a = cherries b ∧ colless a = colless b ∧ sackin a = sackin b ∧
    (∀ u, treeHeight a u = treeHeight b u) ∧ (∀ u, diameter a u = diameter b u) ∧
    ((leaves a).map (fun i => (nd a i).name)).Perm ((leaves b).map (fun i => (nd b i).name)) ∧
    (∀ n, (searchName a n).length = (searchName b n).length) := by
  have e1 : isRootedR ta = isRootedR tb := by simp only [isRootedR, he]
  have e2 : isBinaryR ta = isBinaryR tb := by simp only [isBinaryR, he]
  have e3 : checkRBR ta = checkRBR tb := by simp only [checkRBR, e1, e2]
  refine ⟨?_, ?_, ?_, ?_, ?_, ?_, ?_, ?_, ?_, ?_, ?_⟩
  · rw [nLeaves_refines ga ha hta, nLeaves_refines gb hb htb, nLeavesR, nLeavesR, he]
  · rw [isRooted_refines ga ha hta, isRooted_refines gb hb htb, e1]
  · rw [isBinary_refines ga ha hta, isBinary_refines gb hb htb, e2]
  · rw [totalLength_refines ga ha hta, totalLength_refines gb hb htb, totalLengthR, totalLengthR, he]
  · rw [cherries_refines ga ha hta, cherries_refines gb hb htb, e2, cherriesR, cherriesR, he]
  · rw [colless_refines ga ha hta, colless_refines gb hb htb, e3, collessR, collessR, he]
  · rw [sackin_refines ga ha hta, sackin_refines gb hb htb, e3, sackinR, sackinR, he]
  · intro u
    rw [treeHeight_refines ga ha hta, treeHeight_refines gb hb htb, e1, heightR, heightR, he]
  · intro u
    rw [diameter_refines ga ha hta, diameter_refines gb hb htb, diameterR, diameterR, he]
  · have h1 := leafNames_refines ga ha hta
    have h2 := leafNames_refines gb hb htb
    rw [leafNamesR, he] at h1
    exact h1.trans h2.symm
  · intro n
    rw [searchName_count ga ha hta, searchName_count gb hb htb, countNameR, countNameR, he]

/-- name lookup: with blank tombstones, `get_by_name` finds a node in one arena iff it does in the other -/
theorem getByName_depends_only_on_tree_partial {a b : Arena} (ga : Good a) (gb : Good b) (ha : AtMostOneRoot a)
    (hb : AtMostOneRoot b) (na : BlankNames a) (nb : BlankNames b) {ta tb : Rose} (hta : absRoot a = .ok ta)
    (htb : absRoot b = .ok tb) (he : erase ta = erase tb) (s : String) :
    (getByName a s = none ↔ getByName b s = none) := by
  have h1 := (getByName_refines_partial ga ha na hta s).2
  have h2 := (getByName_refines_partial gb hb nb htb s).2
  have e : (idsNamedR ta (some s)).length = (idsNamedR tb (some s)).length := by
    rw [← countNameR_eq, ← countNameR_eq, countNameR, countNameR, he]
  rw [h1, h2, ← List.length_eq_zero_iff, ← List.length_eq_zero_iff, e]

/-- **edit histories**: the arena reached by ANY admissible edit history answers every id-free query like
    any other well-formed arena holding the same tree — e.g. the one the parser builds from the current
    Newick text -/
theorem history_irrelevant {a0 b : Arena} (ops : List Op) (g0 : Good a0) (r0 : AtMostOneRoot a0)
    (hadm : AdmissibleRun a0 ops) (gb : Good b) (hb : AtMostOneRoot b) {ta tb : Rose}
    (hta : absRoot (runOps a0 ops) = .ok ta) (htb : absRoot b = .ok tb) (he : erase ta = erase tb) :
    let a := runOps a0 ops
    nLeaves a = nLeaves b ∧ isRooted a = isRooted b ∧ isBinary a = isBinary b ∧
    totalLength a = totalLength b ∧ cherries a = cherries b ∧ colless a = colless b ∧ sackin a = sackin b ∧
    (∀ u, treeHeight a u = treeHeight b u) ∧ (∀ u, diameter a u = diameter b u) ∧
    ((leaves a).map (fun i => (nd a i).name)).Perm ((leaves b).map (fun i => (nd b i).name)) ∧
    (∀ n, (searchName a n).length = (searchName b n).length) := by
  obtain ⟨ga, ha⟩ := runOps_oneRoot ops g0 r0 hadm
  exact answers_depend_only_on_tree ga gb ha hb hta htb he

/-! ### non-vacuity: two different layouts of the cherry `(x:3,y:4);` -/

mutual
def Rose.beq : Rose → Rose → Bool
  | .node i n l d ks, .node i' n' l' d' ks' => i == i' && n == n' && l == l' && d == d' && Rose.beqL ks ks'
def Rose.beqL : List Rose → List Rose → Bool
  | [], [] => true
  | k :: ks, k' :: ks' => Rose.beq k k' && Rose.beqL ks ks'
  | _, _ => false
end

mutual
theorem Rose.beq_eq : ∀ t t' : Rose, Rose.beq t t' = true → t = t'
  | .node i n l d ks, .node i' n' l' d' ks', h => by
    simp only [Rose.beq, Bool.and_eq_true, beq_iff_eq] at h
    obtain ⟨⟨⟨⟨rfl, rfl⟩, rfl⟩, rfl⟩, hk⟩ := h
    rw [Rose.beqL_eq ks ks' hk]
theorem Rose.beqL_eq : ∀ ts ts' : List Rose, Rose.beqL ts ts' = true → ts = ts'
  | [], [], _ => rfl
  | [], _ :: _, h => by simp [Rose.beqL] at h
  | _ :: _, [], h => by simp [Rose.beqL] at h
  | k :: ks, k' :: ks', h => by
    simp only [Rose.beqL, Bool.and_eq_true] at h
    rw [Rose.beq_eq k k' h.1, Rose.beqL_eq ks ks' h.2]
end

theorem absRoot_of_check (a : Arena) (t : Rose)
    (h : (match absRoot a with | .ok t' => Rose.beq t' t | _ => false) = true) : absRoot a = .ok t := by
  cases hr : absRoot a with
  | ok t' => rw [hr] at h; rw [Rose.beq_eq t' t h]
  | err k => rw [hr] at h; cases h
  | panic => rw [hr] at h; cases h

/-- built directly: slots 0 (root), 1, 2 -/
def exA : Arena := runOps #[] [.add none, .addChild 0 (some 3) (some "x"), .addChild 0 (some 4) (some "y")]
/-- built with a detour: a first child is added and pruned again (slot 1 is a tombstone), slots 2, 3 are the tips -/
def exB : Arena := runOps #[] [.add none, .addChild 0 (some 9) (some "z"), .prune 1,
  .addChild 0 (some 3) (some "x"), .addChild 0 (some 4) (some "y")]

def exTa : Rose := .node 0 none none 0 [.node 1 (some "x") (some 3) 1 [], .node 2 (some "y") (some 4) 1 []]
def exTb : Rose := .node 0 none none 0 [.node 2 (some "x") (some 3) 1 [], .node 3 (some "y") (some 4) 1 []]

theorem exA_ok : Good exA ∧ AtMostOneRoot exA :=
  runOps_oneRoot _ empty_good (by intro i j hi; exact absurd hi.1.1 (by simp)) (by
    simp only [AdmissibleRun, Admissible, and_true]
    intro i hi; exact absurd hi.1.1 (by simp))
theorem exB_ok : Good exB ∧ AtMostOneRoot exB :=
  runOps_oneRoot _ empty_good (by intro i j hi; exact absurd hi.1.1 (by simp)) (by
    simp only [AdmissibleRun, Admissible, and_true]
    intro i hi; exact absurd hi.1.1 (by simp))

theorem exA_abs : absRoot exA = .ok exTa := absRoot_of_check _ _ (by decide)
theorem exB_abs : absRoot exB = .ok exTb := absRoot_of_check _ _ (by decide)
theorem ex_erase : erase exTa = erase exTb := rfl

/-- the hypotheses of `answers_depend_only_on_tree` are satisfiable by two arenas of different size and
    layout (one with a tombstone) -/
example : nLeaves exA = nLeaves exB ∧ sackin exA = sackin exB ∧ (∀ u, diameter exA u = diameter exB u) := by
  have := answers_depend_only_on_tree exA_ok.1 exB_ok.1 exA_ok.2 exB_ok.2 exA_abs exB_abs ex_erase
  exact ⟨this.1, this.2.2.2.2.2.2.1, this.2.2.2.2.2.2.2.2.1⟩

example : exA.size = 3 ∧ exB.size = 4 ∧ idsR exTa = [0, 1, 2] ∧ idsR exTb = [0, 2, 3] := by decide

end AR
