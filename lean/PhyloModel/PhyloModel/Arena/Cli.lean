import PhyloModel.Arena.Query
/-! The command-line tool's own logic (src/bin/phylotree/main.rs) on the arena model: `collapse` (repaired:
    the root has no branch to collapse), `remove` (repaired: an internal node that lost all of its children
    is removed as well), as compositions of the library model. -/
namespace AR

/-- body of the `collapse` loop for one node of the pre-order -/
def collapseNode (thr : Int) (excludeTips : Bool) (a : Arena) (x : Nat) : Arena :=
  let n := nd a x
  if excludeTips && n.children.isEmpty then a else
  match n.parent, n.pedge with
  | some p, some len =>
    if len < thr then
      let a1 := a.setIfInBounds x { n with pedge := some 0 }
      a1.setIfInBounds p (setCedge (nd a1 p) x (some 0))
    else a
  | _, _ => a

/-- `phylotree collapse <tree> <threshold> [-e]` -/
def cliCollapse (a : Arena) (thr : Int) (excludeTips : Bool) : QR Arena := do
  let r ← root a
  let order ← subtree a r
  pure (order.foldl (collapseNode thr excludeTips) a)

/-- after pruning a tip: ancestors that lost all their children are not tips of the original tree and are
    removed as well (never the root) -/
def pruneEmptied : Nat → Arena → Option Nat → Arena
  | 0, a, _ => a
  | _, a, none => a
  | f + 1, a, some p =>
    if isLive a p && (nd a p).children.isEmpty && (nd a p).parent.isSome then
      let up := (nd a p).parent
      pruneEmptied f (prune a p).1 up
    else a

/-- `phylotree remove <tree> <tips...>`: every named tip is pruned, then unary nodes are compressed.
    `err "NotATip"` / `err "NoSuchName"` stand for the tool's panics (an error exit). -/
def cliRemove (a : Arena) (tips : List String) : QR Arena := do
  let a1 ← tips.foldlM (fun (a : Arena) name => do
      let x ← QR.ofOpt (getByName a name) "NoSuchName"
      if !(nd a x).children.isEmpty then .err "NotATip" else
      let parent := (nd a x).parent
      let (a', o) := prune a x
      match o with
      | .ok _ => pure (pruneEmptied (fuelOf a) a' parent)
      | _ => .err "PruneFailed") a
  let (a2, o) := compress a1
  match o with
  | .ok _ => pure a2
  | .err k => .err k
  | _ => .err "CompressFailed"

end AR
