import PhyloModel.Arena.Query
/-! The command-line tool's own logic (src/bin/phylotree/main.rs) on the arena model: `collapse` (repaired:
    the root has no branch to collapse), `remove` (repaired: an internal node that lost all of its children
    is removed as well), as compositions of the library model. -/
namespace AR

/-- body of the `collapse` loop for one node of the pre-order -/
def collapseNode (thr : Int) (excludeTips : Bool) (a : Arena) (x : Nat) : Arena :=
  let n := nd a x
  if excludeTips && n.children.isEmpty then a else
  match n.parent, n.pedge with
  | some p, some len =>
    if len < thr then
      let a1 := a.setIfInBounds x { n with pedge := some 0 }
      a1.setIfInBounds p (setCedge (nd a1 p) x (some 0))
    else a
  | _, _ => a

/-- `phylotree collapse <tree> <threshold> [-e]` -/
def cliCollapse (a : Arena) (thr : Int) (excludeTips : Bool) : QR Arena := do
  let r ← root a
  let order ← subtree a r
  pure (order.foldl (collapseNode thr excludeTips) a)

/-- after pruning a tip: ancestors that lost all their children are not tips of the original tree and are
    removed as well (never the root) -/
def pruneEmptied : Nat → Arena → Option Nat → Arena
  | 0, a, _ => a
  | _, a, none => a
  | f + 1, a, some p =>
    if isLive a p && (nd a p).children.isEmpty && (nd a p).parent.isSome then
      let up := (nd a p).parent
      pruneEmptied f (prune a p).1 up
    else a

/-- `phylotree remove <tree> <tips...>`: every named tip is pruned, then unary nodes are compressed.
    `err "NotATip"` / `err "NoSuchName"` stand for the tool's panics (an error exit). -/
def cliRemove (a : Arena) (tips : List String) : QR Arena := do
  let a1 ← tips.foldlM (fun (a : Arena) name => do
      let x ← QR.ofOpt (getByName a name) "NoSuchName"
      if !(nd a x).children.isEmpty then .err "NotATip" else
      let parent := (nd a x).parent
      let (a', o) := prune a x
      match o with
      | .ok _ => pure (pruneEmptied (fuelOf a) a' parent)
      | _ => .err "PruneFailed") a
  let (a2, o) := compress a1
  match o with
  | .ok _ => pure a2
  | .err k => .err k
  | _ => .err "CompressFailed"

/-! ### two further requests of the line protocol (compositions of the library model) -/

/-- `ar.setlen x v`: a branch length overwritten in place through the public setters, both records —
    `tree.get_mut(x).set_parent(p, Some(v)); tree.get_mut(p).set_child_edge(x, Some(v))` (what `collapse` does for one node);
    refused for a removed or unknown id and for a node without a parent -/
def setLenOp (a : Arena) (x : Nat) (v : Int) : Arena × Out :=
  if isLive a x then
    match (nd a x).parent with
    | some p =>
      let a1 := a.setIfInBounds x { nd a x with pedge := some v }
      (a1.setIfInBounds p (setCedge (nd a1 p) x (some v)), .ok none)
    | none => (a, .err "root")
  else (a, .err "NodeNotFound")

/-- payload edit: the comment of slot `i` -/
def setComment (a : Arena) (i : Nat) (c : Option String) : Arena :=
  a.setIfInBounds i { nd a i with comment := c }

/-- `ar.add_copy src p e`: `tree.add_child(tree.get(src)?.clone(), p, e)` (repaired: only the payload of the copied node — its
    name and comment — enters the tree; its links are dropped): a fresh child of `p` carrying the payload of `src` -/
def addCopy (a : Arena) (src p : Nat) (e : Option Int) : Arena × Out :=
  if isLive a src then
    match addChildNamed a p e (nd a src).name with
    | (a', .ok (some id)) => (setComment a' id (nd a src).comment, .ok (some id))
    | r => r
  else (a, .err "NodeNotFound")

end AR
