import PhyloModel.Arena.Compress3
/-! Scratch prototype: grouping two children under a fresh node — the common core of `merge_children`
    (with the depth repair) and of one round of `resolve` -/
namespace AR

def wNode (a : Arena) (q c1 c2 : Nat) (pe e1 e2 : Option Int) : Node :=
  setCedge (setCedge { parent := some q, children := [c1, c2], pedge := pe, depth := (nd a q).depth + 1 } c1 e1) c2 e2

def qNode (a : Arena) (q c1 c2 : Nat) (pe : Option Int) : Node :=
  let qn1 := removeChild (removeChild (nd a q) c1) c2
  setCedge { qn1 with children := qn1.children ++ [a.size] } a.size pe

/-- slot updates: fresh node `w = a.size` under `q` with children `[c1, c2]` taken away from `q` -/
def group (a : Arena) (q c1 c2 : Nat) (pe e1 e2 : Option Int) : Arena :=
  let a1 := a.setIfInBounds q (qNode a q c1 c2 pe)
  let a2 := a1.setIfInBounds c1 { nd a1 c1 with parent := some a.size, pedge := e1 }
  let a3 := a2.setIfInBounds c2 { nd a2 c2 with parent := some a.size, pedge := e2 }
  a3.push (wNode a q c1 c2 pe e1 e2)

theorem nd_group (a : Arena) (q c1 c2 : Nat) (pe e1 e2 : Option Int) (hq : q < a.size) (h1 : c1 < a.size)
    (h2 : c2 < a.size) (hq1 : q ≠ c1) (hq2 : q ≠ c2) (h12 : c1 ≠ c2) (i : Nat) :
    nd (group a q c1 c2 pe e1 e2) i =
      if i = a.size then wNode a q c1 c2 pe e1 e2
      else if i = q then qNode a q c1 c2 pe
      else if i = c1 then { nd a c1 with parent := some a.size, pedge := e1 }
      else if i = c2 then { nd a c2 with parent := some a.size, pedge := e2 }
      else nd a i := by
  simp only [group, nd_push, nd_set, Array.size_setIfInBounds]
  grind

end AR
