/-! Model of the `RefCell<Option<_>>` caches of `Tree` (`leaf_index`, `partitions`): a read-only query fills
    the cache on first use and answers from it afterwards; `reset_bipartition_cache` empties it; editing
    operations do NOT touch it (so it may be stale until the documented reset). -/
namespace CacheM

structure Cached (T V : Type) where
  tree : T
  cache : Option V

variable {T V : Type}

/-- a cached read-only query computing `f` -/
def query (f : T → V) (s : Cached T V) : V × Cached T V :=
  match s.cache with
  | some v => (v, s)
  | none => (f s.tree, { s with cache := some (f s.tree) })

/-- `reset_bipartition_cache` -/
def reset (s : Cached T V) : Cached T V := { s with cache := none }

/-- an editing operation: the cache is left as it is -/
def edit (g : T → T) (s : Cached T V) : Cached T V := { s with tree := g s.tree }

/-- the cache, if filled, holds the value for the CURRENT tree -/
def CacheOK (f : T → V) (s : Cached T V) : Prop := ∀ v, s.cache = some v → v = f s.tree

/-- `n` queries in a row -/
def queries (f : T → V) : Nat → Cached T V → List V × Cached T V
  | 0, s => ([], s)
  | n + 1, s => let (v, s1) := query f s; let (vs, s2) := queries f n s1; (v :: vs, s2)

end CacheM
