import PhyloModel.Arena.Group2
namespace AR

theorem sameButDepth_eqv {a b : Arena} (h : SameButDepth a b) : Eqv a b :=
  ⟨h.1, fun i => (h.2 i).1, fun i => (h.2 i).2.1, fun i => (h.2 i).2.2.2.2⟩

/-- grouping two children under a fresh node, followed by the depth repair on both moved subtrees,
    preserves the arena invariant (core of `merge_children` and of one round of `resolve`) -/
theorem group_inv (a : Arena) (q c1 c2 : Nat) (pe e1 e2 : Option Int) (hinv : Inv a) (hlq : live a q)
    (hm1 : c1 ∈ (nd a q).children) (hm2 : c2 ∈ (nd a q).children) (h12 : c1 ≠ c2) (D : Nat)
    (hD : ∀ i, live a i → (nd a i).depth ≤ D) :
    ∃ b1 b2, resetF (2 * D + 3) (group a q c1 c2 pe e1 e2) c1 ((nd a q).depth + 2) = some b1 ∧
      resetF (2 * D + 3) b1 c2 ((nd a q).depth + 2) = some b2 ∧ Inv b2 := by
  obtain ⟨hs, hsz, hlive, hdep⟩ := group_S a q c1 c2 pe e1 e2 hinv hlq hm1 hm2 h12
  let g := group a q c1 c2 pe e1 e2
  let r : Nat → Nat := fun i => if i = a.size then 2 * (nd a q).depth + 1 else 2 * (nd a i).depth
  have hs : S g r := hs
  have hlive : ∀ i, live g i ↔ (i = a.size ∨ live a i) := hlive
  have hdep : ∀ i, (nd g i).depth = if i = a.size then (nd a q).depth + 1 else (nd a i).depth := hdep
  have hc := hinv.child_ok; have hpo := hinv.parent_ok
  obtain ⟨hl1, hp1, hd1, _⟩ := hc q c1 hlq hm1
  obtain ⟨hl2, hp2, hd2, _⟩ := hc q c2 hlq hm2
  have hq1 : q ≠ c1 := by intro h; subst h; omega
  have hq2 : q ≠ c2 := by intro h; subst h; omega
  have hqw : q ≠ a.size := Nat.ne_of_lt hlq.1
  have h1w : c1 ≠ a.size := Nat.ne_of_lt hl1.1
  have h2w : c2 ≠ a.size := Nat.ne_of_lt hl2.1
  have hns := nd_group a q c1 c2 pe e1 e2 hlq.1 hl1.1 hl2.1 hq1 hq2 h12
  have hdq := hD q hlq
  have w := hs.toW
  have hrD : ∀ i, live g i → r i ≤ 2 * D + 1 := by
    intro i hl
    rcases (hlive i).1 hl with rfl | hl'
    · simp only [r, ↓reduceIte]; omega
    · have := hD i hl'
      by_cases hiw : i = a.size
      · simp only [r, hiw, ↓reduceIte]; omega
      · simp only [r, hiw, ↓reduceIte]; omega
  have hlg1 : live g c1 := (hlive c1).2 (Or.inr hl1)
  have hlg2 : live g c2 := (hlive c2).2 (Or.inr hl2)
  have hlgw : live g a.size := (hlive _).2 (Or.inl rfl)
  have hr1 : r c1 = 2 * ((nd a q).depth + 1) := by simp only [r, h1w, ↓reduceIte, hd1]
  have hr2 : r c2 = 2 * ((nd a q).depth + 1) := by simp only [r, h2w, ↓reduceIte, hd2]
  have hrw : r a.size = 2 * (nd a q).depth + 1 := by simp only [r, ↓reduceIte]
  -- first reset
  obtain ⟨b1, hres1, ok1⟩ := reset_main (2 * D + 3) (2 * D + 1) r g c1 ((nd a q).depth + 2) w hlg1 hrD (by omega)
  have hsame1 := resetF_same _ _ _ _ _ hres1
  have he1 : Eqv g b1 := sameButDepth_eqv hsame1
  have w1 : W b1 r := he1.W w
  have hlb2 : live b1 c2 := (he1.live_iff c2).2 hlg2
  obtain ⟨b2, hres2, ok2⟩ := reset_main (2 * D + 3) (2 * D + 1) r b1 c2 ((nd a q).depth + 2) w1 hlb2
    (fun i hl => hrD i ((he1.live_iff i).1 hl)) (by omega)
  have hsame2 := resetF_same _ _ _ _ _ hres2
  refine ⟨b1, b2, hres1, hres2, ?_⟩
  have hs2 : S b2 r := (hs.transfer hsame1).transfer hsame2
  apply inv_of_S_DepthOK hs2
  have hsame := hsame1.trans hsame2
  have hl' : ∀ i, live b2 i ↔ live g i := fun i => by simp only [live, hsame.1, (hsame.2 i).2.2.2.2]
  -- parent facts in g
  have hpar1 : (nd g c1).parent = some a.size := by rw [hns]; simp [h1w, Ne.symm hq1]
  have hpar2 : (nd g c2).parent = some a.size := by rw [hns]; simp [h2w, Ne.symm hq2, Ne.symm h12]
  have hparw : (nd g a.size).parent = some q := by rw [hns]; simp [wNode]
  have hwch : (nd g a.size).children = [c1, c2] := by rw [hns]; simp [wNode]
  -- BelowK transfers between g and b1
  have hb_gb : ∀ {x v k}, BelowK g x v k → BelowK b1 x v k := fun h => he1.symm.below h
  have hb_bg : ∀ {x v k}, BelowK b1 x v k → BelowK g x v k := fun h => he1.below h
  -- the two moved subtrees are disjoint, and w, q lie in neither
  have hdisj : ∀ v k1 k2, BelowK g c1 v k1 → BelowK g c2 v k2 → False := fun v k1 k2 h1 h2 =>
    BelowK.disjoint w hlgw (by rw [hwch]; simp) (by rw [hwch]; simp) h12 h1 h2
  have hin1 : ∀ v k, BelowK g c1 v k → (nd b2 v).depth = (nd a q).depth + 2 + k := by
    intro v k hk
    have : ∀ k', ¬ BelowK b1 c2 v k' := fun k' hk' => hdisj v k k' hk (hb_bg hk')
    rw [ok2.outside v this, ok1.inside v k hk]
  have hin2 : ∀ v k, BelowK g c2 v k → (nd b2 v).depth = (nd a q).depth + 2 + k := by
    intro v k hk
    exact ok2.inside v k (hb_gb hk)
  have hout : ∀ v, (∀ k, ¬ BelowK g c1 v k) → (∀ k, ¬ BelowK g c2 v k) → (nd b2 v).depth = (nd g v).depth := by
    intro v n1 n2
    have n2' : ∀ k, ¬ BelowK b1 c2 v k := fun k hk => n2 k (hb_bg hk)
    rw [ok2.outside v n2', ok1.outside v n1]
  -- nodes of rank ≤ r w are in neither subtree
  have hlow : ∀ v, live g v → r v ≤ 2 * (nd a q).depth + 1 → (∀ k, ¬ BelowK g c1 v k) ∧ (∀ k, ¬ BelowK g c2 v k) := by
    intro v _ hrv
    constructor
    · intro k hk; have := BelowK.rank w hk; omega
    · intro k hk; have := BelowK.rank w hk; omega
  constructor
  · -- edge clause
    intro i x hli hx
    rw [hl'] at hli
    rw [(hsame.2 i).2.1] at hx
    obtain ⟨g1, g2, g3, _⟩ := hs.child_ok i x hli hx
    by_cases hb1 : ∃ k, BelowK g c1 i k
    · obtain ⟨k, hk⟩ := hb1
      rw [hin1 i k hk, hin1 x (k + 1) (BelowK.step hk g1 g2)]; omega
    · by_cases hb2 : ∃ k, BelowK g c2 i k
      · obtain ⟨k, hk⟩ := hb2
        rw [hin2 i k hk, hin2 x (k + 1) (BelowK.step hk g1 g2)]; omega
      · have n1 : ∀ k, ¬ BelowK g c1 i k := fun k hk => hb1 ⟨k, hk⟩
        have n2 : ∀ k, ¬ BelowK g c2 i k := fun k hk => hb2 ⟨k, hk⟩
        rw [hout i n1 n2]
        by_cases hx1 : x = c1
        · subst hx1
          rw [hpar1] at g2; have hiw : i = a.size := (Option.some.inj g2).symm
          subst hiw
          rw [hin1 x 0 (BelowK.refl hlg1), hdep]; simp
        · by_cases hx2 : x = c2
          · subst hx2
            rw [hpar2] at g2; have hiw : i = a.size := (Option.some.inj g2).symm
            subst hiw
            rw [hin2 x 0 (BelowK.refl hlg2), hdep]; simp
          · -- x is in neither subtree
            have nx1 : ∀ k, ¬ BelowK g c1 x k := by
              intro k hk
              cases hk with
              | refl _ => exact hx1 rfl
              | step hp' _ hpar' => rw [g2] at hpar'; cases hpar'; exact n1 _ hp'
            have nx2 : ∀ k, ¬ BelowK g c2 x k := by
              intro k hk
              cases hk with
              | refl _ => exact hx2 rfl
              | step hp' _ hpar' => rw [g2] at hpar'; cases hpar'; exact n2 _ hp'
            rw [hout x nx1 nx2, hdep i, hdep x]
            by_cases hxw : x = a.size
            · subst hxw
              rw [hparw] at g2; have hiq : i = q := (Option.some.inj g2).symm
              subst hiq; simp [hqw]
            · have hiw : i ≠ a.size := by
                intro h; subst h
                rw [hwch] at hx; simp at hx; rcases hx with h | h
                · exact hx1 h
                · exact hx2 h
              simp only [hiw, hxw, ↓reduceIte]
              -- an old edge of `a`
              have hxpar_a : (nd a x).parent = some i := by
                have g2' : (nd (group a q c1 c2 pe e1 e2) x).parent = some i := g2
                rw [hns] at g2'
                by_cases hxq : x = q
                · subst hxq; simpa [hxw, qNode, removeChild] using g2'
                · simpa [hxw, hxq, hx1, hx2] using g2'
              have hlx : live a x := by rcases (hlive x).1 g1 with h | h; exact absurd h hxw; exact h
              obtain ⟨q1, q2⟩ := hpo x i hlx hxpar_a
              exact (hc i x q1 q2).2.2.1
  · -- root clause
    intro i hli hroot
    rw [hl'] at hli
    rw [(hsame.2 i).1] at hroot
    have hiw : i ≠ a.size := by intro h; subst h; rw [hparw] at hroot; cases hroot
    have hi1 : i ≠ c1 := by intro h; subst h; rw [hpar1] at hroot; cases hroot
    have hi2 : i ≠ c2 := by intro h; subst h; rw [hpar2] at hroot; cases hroot
    have n1 : ∀ k, ¬ BelowK g c1 i k := by
      intro k hk
      cases hk with
      | refl _ => exact hi1 rfl
      | step _ _ hpar' => rw [hroot] at hpar'; cases hpar'
    have n2 : ∀ k, ¬ BelowK g c2 i k := by
      intro k hk
      cases hk with
      | refl _ => exact hi2 rfl
      | step _ _ hpar' => rw [hroot] at hpar'; cases hpar'
    rw [hout i n1 n2, hdep i]; simp only [hiw, ↓reduceIte]
    have hroot_a : (nd a i).parent = none := by
      have g' : (nd (group a q c1 c2 pe e1 e2) i).parent = none := hroot
      rw [hns] at g'
      by_cases hiq : i = q
      · subst hiq; simpa [hiw, qNode, removeChild] using g'
      · simpa [hiw, hiq, hi1, hi2] using g'
    have hli_a : live a i := by rcases (hlive i).1 hli with h | h; exact absurd h hiw; exact h
    exact hinv.root_depth i hli_a hroot_a

end AR
