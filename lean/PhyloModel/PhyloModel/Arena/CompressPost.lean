import PhyloModel.Arena.OpsInv
/-! Postcondition and frame of `compress`: when it succeeds no live non-root node with exactly one child is
    left, and the set of leaves is what it was. -/
namespace AR

/-- a live non-root node with exactly one child -/
def Unary (a : Arena) (i : Nat) : Prop :=
  live a i ∧ (nd a i).parent.isSome = true ∧ (nd a i).children.length = 1
/-- a live node without children -/
def IsTip (a : Arena) (i : Nat) : Prop := live a i ∧ (nd a i).children = []

theorem SameButDepth.unary {a b : Arena} (h : SameButDepth a b) (i : Nat) : Unary b i ↔ Unary a i := by
  obtain ⟨p1, p2, _, _, p5⟩ := h.2 i
  simp only [Unary, live, h.1, p1, p2, p5]
theorem SameButDepth.tip {a b : Arena} (h : SameButDepth a b) (i : Nat) : IsTip b i ↔ IsTip a i := by
  obtain ⟨_, p2, _, _, p5⟩ := h.2 i
  simp only [IsTip, live, h.1, p2, p5]

/-- one successful `compress_node v`: `v` disappears, no other node changes its status as a one-child
    non-root node or as a tip -/
theorem compressNode_step {a a' : Arena} {v : Nat} {o : Option Nat} (g : Good a)
    (h : compressNode a v = (a', .ok o)) :
    (∀ i, Unary a' i ↔ (Unary a i ∧ i ≠ v)) ∧ (∀ i, IsTip a' i ↔ IsTip a i) := by
  unfold compressNode at h
  split at h
  · simp at h
  next hv =>
    have hlv : live a v := (isLive_iff a v).1 (by simpa using hv)
    split at h
    next p c hpar hch =>
      split at h
      · simp at h
      next e _ =>
        split at h
        · simp at h
        · obtain ⟨a2, h2, _⟩ := compress_core v p c e g hlv hpar hch
          simp only [h2] at h
          have ha : a2 = a' := by injection h
          subst ha
          have hinv := g.1
          have hc := hinv.child_ok; have hpo := hinv.parent_ok
          obtain ⟨hlp, hvmem⟩ := hpo v p hlv hpar
          obtain ⟨hlc, hcpar, hcdep, _⟩ := hc v c hlv (by simp [hch])
          have hvdep := (hc p v hlp hvmem).2.2.1
          have hvc : v ≠ c := by intro h; subst h; omega
          have hvp : v ≠ p := by intro h; subst h; omega
          have hpc : p ≠ c := by intro h; subst h; omega
          have hsame := resetF_same _ _ _ _ _ h2
          have hns := nd_splice a v p c e hlv.1 hlp.1 hlc.1 hpc hvc hvp
          have hsz : (splice a v p c e).size = a.size := by simp [splice]
          have hcnotin : c ∉ (nd a p).children := by
            intro hm
            have := (hc p c hlp hm).2.1
            rw [hcpar] at this; exact hvp (Option.some.inj this)
          have hplen : ((nd a p).children ++ [c]).erase v = (nd a p).children.erase v ++ [c] := by
            rw [List.erase_append_left _ hvmem]
          have hplen' : (((nd a p).children ++ [c]).erase v).length = (nd a p).children.length := by
            rw [hplen, List.length_append, List.length_erase_of_mem hvmem]
            have : 0 < (nd a p).children.length := List.length_pos_of_mem hvmem
            simp; omega
          constructor
          · intro i
            rw [hsame.unary i]
            simp only [Unary, live, hsz]
            rw [hns]
            by_cases h1 : i = v
            · subst h1; simp [dead]
            · by_cases h2' : i = p
              · subst h2'
                simp only [h1, ↓reduceIte, removeChild, setCedge_children, setCedge_deleted, setCedge_parent, hplen']
                simp [h1]
              · by_cases h3 : i = c
                · subst h3
                  simp only [h1, h2', ↓reduceIte]
                  simp [hcpar, h1]
                · simp only [h1, h2', h3, ↓reduceIte]
                  simp [h1]
          · intro i
            rw [hsame.tip i]
            simp only [IsTip, live, hsz]
            rw [hns]
            by_cases h1 : i = v
            · subst h1; simp [dead, hch, hlv.2]
            · by_cases h2' : i = p
              · subst h2'
                simp only [h1, ↓reduceIte, removeChild, setCedge_children, setCedge_deleted, hplen]
                have : (nd a i).children ≠ [] := List.ne_nil_of_mem hvmem
                simp [this]
              · by_cases h3 : i = c
                · subst h3; simp only [h1, h2', ↓reduceIte]
                · simp only [h1, h2', h3, ↓reduceIte]
    · simp at h

/-- `compress` succeeded: the loop over the initial list of one-child non-root nodes removed them all and
    created no new one; the tips are the same nodes -/
theorem compressLoop_post : ∀ (vs : List Nat) {a a' : Arena} {o : Option Nat}, Good a → vs.Nodup →
    (∀ i, Unary a i ↔ i ∈ vs) → compressLoop vs a = (a', .ok o) →
    (∀ i, ¬ Unary a' i) ∧ (∀ i, IsTip a' i ↔ IsTip a i)
  | [], a, a', o, _, _, hu, h => by
    simp only [compressLoop] at h
    have : a = a' := by injection h
    subst this
    exact ⟨fun i hi => by simpa using (hu i).1 hi, fun _ => Iff.rfl⟩
  | v :: vs, a, a', o, g, hnd, hu, h => by
    unfold compressLoop at h
    split at h
    next a1 o1 heq =>
      have g1 := (compressNode_good v g)
      rw [heq] at g1
      obtain ⟨s1, s2⟩ := compressNode_step g heq
      simp only [List.nodup_cons] at hnd
      have hu1 : ∀ i, Unary a1 i ↔ i ∈ vs := by
        intro i
        rw [s1 i, hu i]
        simp only [List.mem_cons]
        constructor
        · rintro ⟨h1 | h1, h2⟩
          · exact absurd h1 h2
          · exact h1
        · intro h1
          exact ⟨Or.inr h1, fun e => hnd.1 (e ▸ h1)⟩
      obtain ⟨r1, r2⟩ := compressLoop_post vs g1.1 hnd.2 hu1 h
      exact ⟨r1, fun i => (r2 i).trans (s2 i)⟩
    next r hne =>
      have : compressNode a v = (a', .ok o) := h
      exact absurd this (by intro e; exact hne a' o e)

theorem mem_toCompress (a : Arena) (i : Nat) : i ∈ toCompress a ↔ Unary a i := by
  simp only [toCompress, List.mem_filter, List.mem_range, Bool.and_eq_true, beq_iff_eq, Unary]
  constructor
  · rintro ⟨_, ⟨h1, h2⟩, h3⟩; exact ⟨(isLive_iff a i).1 h1, h2, h3⟩
  · rintro ⟨h1, h2, h3⟩; exact ⟨h1.1, ⟨(isLive_iff a i).2 h1, h2⟩, h3⟩

/-- **postcondition of `compress`**: on success no live non-root node has exactly one child, and the tips
    are exactly the tips before -/
theorem compress_post {a a' : Arena} {o : Option Nat} (g : Good a) (h : compress a = (a', .ok o)) :
    (∀ i, ¬ Unary a' i) ∧ (∀ i, IsTip a' i ↔ IsTip a i) :=
  compressLoop_post _ g (List.Nodup.sublist List.filter_sublist List.nodup_range) (fun i => (mem_toCompress a i).symm) h

end AR
