import PhyloModel.Arena.GTrav
import PhyloModel.Arena.QueryRefineIndices
import PhyloModel.Props.C10
/-! # Traversals and subtree listings as functions of the abstract tree

For every node `s` of the abstract tree `t` of a well-formed arena `a` (i.e. for every live slot `s.id`), the
four traversals started at `s.id`, `get_subtree`, `get_subtree_leaves` and `get_descendants` return the
corresponding list of ids of `s`; and the NAMES read along the returned list are the id-free traversal of the
erased tree `erase s`. -/
namespace AR

/-! ### the textbook answers -/

def idTree (s : Rose) : GT Nat := GT.map Prod.fst (roseGT s)

def preIdsR (s : Rose) : List Nat := (idTree s).pre
def postIdsR (s : Rose) : List Nat := (idTree s).post
def inoIdsR (s : Rose) : Option (List Nat) := (idTree s).ino
def levelIdsR (s : Rose) : List Nat := (idTree s).level

def preNamesNL (T : RoseNL) : List (Option String) := (nlGT T).pre
def postNamesNL (T : RoseNL) : List (Option String) := (nlGT T).post
def inoNamesNL (T : RoseNL) : Option (List (Option String)) := (nlGT T).ino
def levelNamesNL (T : RoseNL) : List (Option String) := (nlGT T).level

/-- in-order as the query reports it -/
def inoQ' {α : Type} (o : Option (List α)) : QR (List α) :=
  match o with
  | some l => .ok l
  | none => .err "IsNotBinary"

/-! ### links -/

theorem idTree_decorate (a : Arena) (s0 : RTI) : idTree (decorate a s0) = GT.map id (rtiGT s0) := by
  rw [idTree, roseGT_decorate, GT.map_map]; rfl

theorem nlGT_dec (a : Arena) (s0 : RTI) :
    nlGT (erase (decorate a s0)) = GT.map (fun i => (nd a i).name) (rtiGT s0) := by
  rw [roseGT_erase, roseGT_decorate, GT.map_map]; rfl

theorem preIdsR_decorate (a : Arena) (s0 : RTI) : preIdsR (decorate a s0) = pre s0 := by
  rw [preIdsR, idTree_decorate, GT.pre_map, pre_rtiGT, List.map_id]
theorem postIdsR_decorate (a : Arena) (s0 : RTI) : postIdsR (decorate a s0) = post s0 := by
  rw [postIdsR, idTree_decorate, GT.post_map, post_rtiGT, List.map_id]
theorem inoIdsR_decorate (a : Arena) (s0 : RTI) : inoIdsR (decorate a s0) = ino s0 := by
  rw [inoIdsR, idTree_decorate, GT.ino_map, ino_rtiGT]
  cases ino s0 <;> simp
theorem levelIdsR_decorate (a : Arena) (s0 : RTI) : levelIdsR (decorate a s0) = (rtiGT s0).level := by
  rw [levelIdsR, idTree_decorate, GT.level_map, List.map_id]

theorem preIdsR_eq (s : Rose) : preIdsR s = idsR s := by
  have h1 : ∀ t : Rose, (idTree t).pre = (nodesR t).map Rose.id := by
    intro t
    have key : (∀ t : Rose, (roseGT t).pre.map Prod.fst = (nodesR t).map Rose.id) := by
      intro t
      exact (aux t).1
    rw [idTree, GT.pre_map]; exact key t
  exact h1 s
where
  aux : ∀ t : Rose, ((roseGT t).pre.map Prod.fst = (nodesR t).map Rose.id) ∧ True
    | .node i n l d ks => by
      refine ⟨?_, trivial⟩
      simp only [roseGT, GT.pre, nodesR, List.map_cons, Rose.id]
      congr 1
      exact auxL ks
  auxL : ∀ ts : List Rose, (GT.preL (roseGTL ts)).map Prod.fst = (nodesRL ts).map Rose.id
    | [] => by simp [roseGTL, GT.preL, nodesRL]
    | t :: ts => by
      simp only [roseGTL, GT.preL, nodesRL, List.map_append, (aux t).1, auxL ts]

/-! ### the refinement -/

theorem fuel_ok {a : Arena} (hinv : Inv a) {i : Nat} {s0 : RTI} (h : Rep a i s0) :
    height s0 ≤ fuelOf a ∧ szR s0 ≤ fuelOf a := by
  obtain ⟨t', ht', _, hh, hs⟩ := rep_total hinv i h.is_live
  have := rep_unique a t' s0 i ht' h
  subst this
  exact ⟨hh, hs⟩

theorem descendants_fold {a : Arena} (hinv : Inv a) : ∀ (ks : List RTI) (cs : List Nat) (acc : List Nat),
    RepL a cs ks →
    cs.foldlM (fun acc c => do let l ← subtree a c; pure (acc ++ l)) acc = QR.ok (acc ++ preL ks)
  | [], cs, acc, h => by
    have := repL_nil h
    subst this
    simp [preL]
  | k :: ks, cs, acc, h => by
    cases cs with
    | nil => simp [RepL] at h
    | cons c cs =>
      simp only [RepL] at h
      have hsub : subtree a c = .ok (pre k) := by
        simp [subtree, preorder_rep a k _ c h.1 (fuel_ok hinv h.1).1, QR.ofOpt]
      rw [List.foldlM_cons, hsub]
      show cs.foldlM (fun acc c => do let l ← subtree a c; pure (acc ++ l)) (acc ++ pre k) = _
      rw [descendants_fold hinv ks cs (acc ++ pre k) h.2]
      simp [preL]

theorem traversals_refine_rep {a : Arena} (hinv : Inv a) {s0 : RTI} (hrep : Rep a s0.id s0) :
    subtree a s0.id = .ok (pre s0) ∧ postorder a s0.id = .ok (post s0) ∧
    inorder a s0.id = inoQ' (ino s0) ∧ levelorderQ a s0.id = .ok (rtiGT s0).level ∧
    subtreeLeaves a s0.id = .ok ((pre s0).filter (tipp a)) ∧ descendants a s0.id = .ok (pre s0).tail := by
  obtain ⟨hh, hz⟩ := fuel_ok hinv hrep
  have hl := hrep.is_live
  refine ⟨?_, ?_, ?_, ?_, ?_, ?_⟩
  · simp [subtree, preorder_rep a s0 _ _ hrep hh, QR.ofOpt]
  · simp [postorder, postorder_rep a s0 _ _ hrep hh, QR.ofOpt]
  · obtain ⟨t', ht', he⟩ := inorder_closed hinv _ hl
    have := rep_unique a t' s0 _ ht' hrep
    subst this
    rw [he]
    unfold inoQ inoQ'
    cases ino t' <;> rfl
  · have := (C10.levelorder_refines a s0 (fuelOf a) _ hrep hz).1
    simp only [levelorderQ, levelorder, this, QR.ofOpt, bfsD_level s0 _ hz]
  · exact subtreeLeaves_rep hinv hrep
  · have hget : AR.get a s0.id = .ok (nd a s0.id) := by
      simp [AR.get, (isLive_iff a _).2 hl]
    simp only [descendants, hget, QR.bind_ok]
    rw [descendants_fold hinv s0.kids _ [] hrep.kids_rep, AR.pre_eq]
    simp

/-- **ids**: every traversal / listing started at a node of the tree returns the textbook list of that
    node's sub-tree -/
theorem traversals_refine {a : Arena} (g : Good a) (h1 : AtMostOneRoot a) {t : Rose} (h : absRoot a = .ok t)
    (s : Rose) (hs : s ∈ nodesR t) :
    subtree a s.id = .ok (preIdsR s) ∧ postorder a s.id = .ok (postIdsR s) ∧
    inorder a s.id = inoQ' (inoIdsR s) ∧ levelorderQ a s.id = .ok (levelIdsR s) ∧
    subtreeLeaves a s.id = .ok (tipIdsR s) ∧ descendants a s.id = .ok (preIdsR s).tail := by
  obtain ⟨r, t0, c⟩ := absRoot_ctx g h1 h
  rw [c.dec] at hs
  obtain ⟨s0, _, rfl, hrep, _⟩ := mem_nodesR_decorate c.rep s hs
  rw [decorate_id] at hrep
  have := traversals_refine_rep g.1 hrep
  rw [decorate_id, preIdsR_decorate, postIdsR_decorate, inoIdsR_decorate, levelIdsR_decorate,
    tipIdsR_decorate hrep]
  exact this

/-- names read along a reported id list -/
def qnames (a : Arena) (q : QR (List Nat)) : QR (List (Option String)) :=
  match q with
  | .ok l => .ok (l.map (fun i => (nd a i).name))
  | .err k => .err k
  | .panic => .panic

/-- **names**: the names read along the reported lists are the id-free traversals of the erased sub-tree -/
theorem traversal_names {a : Arena} (g : Good a) (h1 : AtMostOneRoot a) {t : Rose} (h : absRoot a = .ok t)
    (s : Rose) (hs : s ∈ nodesR t) :
    qnames a (subtree a s.id) = .ok (preNamesNL (erase s)) ∧
    qnames a (postorder a s.id) = .ok (postNamesNL (erase s)) ∧
    qnames a (inorder a s.id) = inoQ' (inoNamesNL (erase s)) ∧
    qnames a (levelorderQ a s.id) = .ok (levelNamesNL (erase s)) ∧
    qnames a (subtreeLeaves a s.id) = .ok (leafNamesNL (erase s)) ∧
    qnames a (descendants a s.id) = .ok (preNamesNL (erase s)).tail := by
  obtain ⟨k1, k2, k3, k4, k5, k6⟩ := traversals_refine g h1 h s hs
  obtain ⟨r, t0, c⟩ := absRoot_ctx g h1 h
  rw [c.dec] at hs
  obtain ⟨s0, _, rfl, hrep, _⟩ := mem_nodesR_decorate c.rep s hs
  rw [decorate_id] at hrep
  rw [k1, k2, k3, k4, k5, k6]
  refine ⟨?_, ?_, ?_, ?_, ?_, ?_⟩
  · simp only [qnames, preNamesNL, nlGT_dec, GT.pre_map, preIdsR_decorate, pre_rtiGT]
  · simp only [qnames, postNamesNL, nlGT_dec, GT.post_map, postIdsR_decorate, post_rtiGT]
  · simp only [inoNamesNL, nlGT_dec, GT.ino_map, inoIdsR_decorate, ino_rtiGT]
    cases ino s0 <;> simp [inoQ', qnames]
  · simp only [qnames, levelNamesNL, nlGT_dec, GT.level_map, levelIdsR_decorate]
  · have := tipNames_decorate hrep
    simp only [leafNamesR] at this
    simp only [qnames, this, tipIdsR_decorate hrep]
  · simp only [qnames, preNamesNL, nlGT_dec, GT.pre_map, preIdsR_decorate, pre_rtiGT, List.map_tail]

/-- C04 corollary for the traversals from the root: two well-formed arenas with the same erased tree report
    the same sequences of names -/
theorem traversals_depend_only_on_tree {a b : Arena} (ga : Good a) (gb : Good b) (ha : AtMostOneRoot a)
    (hb : AtMostOneRoot b) {ta tb : Rose} (hta : absRoot a = .ok ta) (htb : absRoot b = .ok tb)
    (he : erase ta = erase tb) :
    root a = .ok ta.id ∧ root b = .ok tb.id ∧
    qnames a (subtree a ta.id) = qnames b (subtree b tb.id) ∧
    qnames a (postorder a ta.id) = qnames b (postorder b tb.id) ∧
    qnames a (inorder a ta.id) = qnames b (inorder b tb.id) ∧
    qnames a (levelorderQ a ta.id) = qnames b (levelorderQ b tb.id) ∧
    qnames a (subtreeLeaves a ta.id) = qnames b (subtreeLeaves b tb.id) ∧
    qnames a (descendants a ta.id) = qnames b (descendants b tb.id) := by
  have hma : ta ∈ nodesR ta := by cases ta; simp [nodesR]
  have hmb : tb ∈ nodesR tb := by cases tb; simp [nodesR]
  obtain ⟨a1, a2, a3, a4, a5, a6⟩ := traversal_names ga ha hta ta hma
  obtain ⟨b1, b2, b3, b4, b5, b6⟩ := traversal_names gb hb htb tb hmb
  obtain ⟨ra, t0a, ca⟩ := absRoot_ctx ga ha hta
  obtain ⟨rb, t0b, cb⟩ := absRoot_ctx gb hb htb
  have ida : ta.id = ra := by rw [ca.dec, decorate_id, t0_id ca]
  have idb : tb.id = rb := by rw [cb.dec, decorate_id, t0_id cb]
  refine ⟨by rw [ida]; exact root_ok ca, by rw [idb]; exact root_ok cb, ?_, ?_, ?_, ?_, ?_, ?_⟩
  · rw [a1, b1, he]
  · rw [a2, b2, he]
  · rw [a3, b3, he]
  · rw [a4, b4, he]
  · rw [a5, b5, he]
  · rw [a6, b6, he]

end AR
