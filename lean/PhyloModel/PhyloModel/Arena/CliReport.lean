import PhyloModel.Arena.Query
import PhyloModel.Arena.QueryMore
import PhyloModel.Split.Model
/-! The command-line tool's own logic for the REPORT subcommands (src/bin/phylotree/main.rs): `stats`, `distance`,
    `compare`, as compositions of the library model.  Definitions only (the driver imports this file); the theorems
    are in `Arena/CliReportFacts.lean` and `Props/C18Report.lean`.

    A panic / failed `unwrap` of the tool (an error exit) is an `.err` outcome of the model. -/
namespace CLIR
open AR SPM

/-- a loop whose body may fail (`unwrap` / `panic!` inside `for`): the results in order; the first failing element
    decides the outcome and nothing after it is evaluated -/
def mapQ {α β : Type} (f : α → QR β) : List α → QR (List β)
  | [] => .ok []
  | x :: xs =>
    match f x with
    | .ok r => (match mapQ f xs with | .ok rs => .ok (r :: rs) | e => e)
    | .err k => .err k
    | .panic => .panic

/-! ### `stats` -/

/-- `to_repr`: a refused value is printed as `-` (`none`) -/
def toRepr {α : Type} : QR α → Option α
  | .ok v => some v
  | _ => none

/-- one row of `phylotree stats`: height diameter nodes tips rooted binary ncherries colless sackin.
    `nodes` (`tree.size()`) and `tips` (`tree.n_leaves()`) are plain numbers in the crate and are never `-`. -/
structure StatsRow where
  height : Option Int
  diameter : Option Int
  nodes : Nat
  tips : Nat
  rooted : Option Bool
  binary : Option Bool
  cherries : Option Nat
  colless : Option Nat
  sackin : Option Nat
deriving Repr, DecidableEq

/-- `print_stats` (the values of the row; `unit` is the scale of the integer lengths, as for `treeHeight`) -/
def statsRow (a : Arena) (unit : Int) : StatsRow :=
  { height := toRepr (treeHeight a unit), diameter := toRepr (diameter a unit), nodes := AR.sizeOf a, tips := nLeaves a,
    rooted := toRepr (isRooted a), binary := toRepr (isBinary a), cherries := toRepr (cherries a),
    colless := toRepr (colless a), sackin := toRepr (sackin a) }

/-- `phylotree stats F1 .. Fk`: one row per file, in argument order -/
def cliStats (as : List Arena) (unit : Int) : List StatsRow := as.map (fun a => statsRow a unit)

/-- the leading `filename` column is printed iff more than one file is given -/
def statsHasNameColumn (k : Nat) : Bool := decide (k > 1)

/-- the header line of `stats` -/
def statsHeader (k : Nat) : List String :=
  (if statsHasNameColumn k then ["filename"] else []) ++
    ["height", "diameter", "nodes", "tips", "rooted", "binary", "ncherries", "colless", "sackin"]

/-! ### `distance` -/

/-- `itertools::combinations(2)`: all pairs (x, y) with x before y in the list, in lexicographic position order -/
def pairsInOrder {α : Type} : List α → List (α × α)
  | [] => []
  | x :: xs => xs.map (fun y => (x, y)) ++ pairsInOrder xs

/-- one row of `phylotree distance`: both names are looked up (`get_by_name(..).unwrap()`), the distance is asked
    (`get_distance(..).unwrap()`), and a sum that is absent because a length is missing is a panic -/
def distanceRow (a : Arena) (p : String × String) : QR (String × String × Int) :=
  match getByName a p.1 with
  | none => .err "panic-unknown-name"
  | some i1 =>
    match getByName a p.2 with
    | none => .err "panic-unknown-name"
    | some i2 =>
      match distancePub a i1 i2 with
      | .ok (some d, _) => .ok (p.1, p.2, d)
      | .ok (none, _) => .err "panic-missing-length"
      | _ => .err "panic-distance-refused"

/-- `phylotree distance FILE tip1 .. tipk` (rows after the header `Seq1 Seq2 Distance`) -/
def cliDistance (a : Arena) (tips : List String) : QR (List (String × String × Int)) :=
  mapQ (distanceRow a) (pairsInOrder tips)

/-! ### `compare` -/

/-- the comparison report of the library on the two abstract trees: (rf, total, weighted rf, squared branch score) -/
abbrev Report := Nat × Nat × Int × Int

/-- one row without its number: reference-only, common, compared-only, library report -/
abbrev CompareRow := Nat × Nat × Nat × Report

/-- `get_partitions().unwrap()`: the reported bipartitions (the leaf index is kept by the tree itself) -/
def partsOf (a : Arena) : QR (List Part) := do
  let r ← partitionsArena a
  pure r.2

/-- the three counting columns from the two bipartition lists: `common` is the number of bipartitions of the reference
    that occur in the other list (the size of the set intersection for duplicate-free lists) -/
def compareColumns (pr pc : List Part) : Nat × Nat × Nat :=
  let common := inter (sides pr) (sides pc)
  (pr.length - common, common, pc.length - common)

/-- body of the `compare` loop, the reference's bipartitions having been computed before the loop -/
def compareRowWith (ref : Arena) (pr : List Part) (cmp : Arena) : QR CompareRow := do
  let pc ← partsOf cmp
  let cols := compareColumns pr pc
  let stats ← (do let s ← absRoot ref; let o ← absRoot cmp; compareTopologies s o)
  pure (cols.1, cols.2.1, cols.2.2, stats)

/-- one row of `phylotree compare REF CMP` -/
def cliCompareRow (ref cmp : Arena) : QR CompareRow := do
  let pr ← partsOf ref
  compareRowWith ref pr cmp

/-- `phylotree compare REF C1 .. Ck`: rows numbered from 0 in argument order.  The reference's bipartitions are asked
    for (and may be refused) before the first row, also when no tree is compared. -/
def cliCompare (ref : Arena) (cmps : List Arena) : QR (List (Nat × CompareRow)) := do
  let pr ← partsOf ref
  let rows ← mapQ (compareRowWith ref pr) cmps
  pure ((List.range rows.length).zip rows)

end CLIR
