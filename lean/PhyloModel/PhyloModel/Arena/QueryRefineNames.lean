import PhyloModel.Arena.QueryRefineBinary
/-! `search_nodes` (by name) and `get_by_name` as functions of the abstract tree -/
namespace AR

def namep (a : Arena) (n : Option String) (i : Nat) : Bool := (nd a i).name == n

theorem idsNamedR_decorate {a : Arena} {i : Nat} {t0 : RTI} (h : Rep a i t0) (n : Option String) :
    idsNamedR (decorate a t0) n = (pre t0).filter (namep a n) := by
  have := list_filter_map (a := a) (decorate a) (fun s => s.name == n) (namep a n) Rose.id id
    (fun s0 _ => by simp [namep]) (fun s0 _ => by simp) (subs t0) (subs_rep t0 i h)
  simp only [idsNamedR, nodesR_decorate, this, subs_ids, List.map_id]

/-- `search_nodes` with a name test lists, in arena order, exactly the nodes of the tree carrying the name -/
theorem searchName_refines {a : Arena} (g : Good a) (h1 : AtMostOneRoot a) {t : Rose} (h : absRoot a = .ok t)
    (n : Option String) : (searchName a n).Perm (idsNamedR t n) := by
  obtain ⟨r, t0, c⟩ := absRoot_ctx g h1 h
  rw [c.dec, idsNamedR_decorate c.rep]
  exact scan_perm c (namep a n)

/-- the number of hits of a name search is the number of nodes of the tree carrying the name -/
theorem searchName_count {a : Arena} (g : Good a) (h1 : AtMostOneRoot a) {t : Rose} (h : absRoot a = .ok t)
    (n : Option String) : (searchName a n).length = countNameR t n := by
  rw [(searchName_refines g h1 h n).length_eq, countNameR_eq]

/-- removed slots keep no name (what `prune` leaves behind; `Tomb` does not say it because names are payload) -/
def BlankNames (a : Arena) : Prop := ∀ i, (nd a i).deleted = true → (nd a i).name = none

/-- `get_by_name` does NOT filter removed slots (neither does the Rust code), and the model's `setName` can
    name a tombstone; so without `BlankNames` only this holds: a LIVE answer is a node of the tree carrying the
    name, and when nothing is found no node of the tree carries the name. -/
theorem getByName_refines_live {a : Arena} (g : Good a) (h1 : AtMostOneRoot a) {t : Rose}
    (h : absRoot a = .ok t) (s : String) :
    (∀ i, getByName a s = some i → live a i → i ∈ idsNamedR t (some s)) ∧
    (getByName a s = none → idsNamedR t (some s) = []) := by
  obtain ⟨r, t0, c⟩ := absRoot_ctx g h1 h
  rw [c.dec, idsNamedR_decorate c.rep]
  constructor
  · intro i hi hl
    rw [getByName, List.find?_range_eq_some] at hi
    rw [List.mem_filter]
    exact ⟨(c.mem i).2 hl, hi.1⟩
  · intro hn
    rw [getByName, List.find?_range_eq_none] at hn
    rw [List.filter_eq_nil_iff]
    intro i hi
    have hl := (c.mem i).1 hi
    have := hn i hl.1
    simpa [namep] using this

/-- full statement asked for: `getByName a s = some i → i` is a node of `t` named `s`, and `= none ↔` no node
    of `t` is named `s`.  PARTIAL: needs the added hypothesis `BlankNames a` (false otherwise: a `Good` arena may
    hold a named tombstone in a lower slot, which `get_by_name` returns).  Under it the answer is moreover the
    smallest id among the nodes of the tree carrying the name. -/
theorem getByName_refines_partial {a : Arena} (g : Good a) (h1 : AtMostOneRoot a) (hb : BlankNames a) {t : Rose}
    (h : absRoot a = .ok t) (s : String) :
    (∀ i, getByName a s = some i → i ∈ idsNamedR t (some s) ∧ ∀ j ∈ idsNamedR t (some s), i ≤ j) ∧
    (getByName a s = none ↔ idsNamedR t (some s) = []) := by
  have hlive : ∀ i, i < a.size → (nd a i).name = some s → live a i := by
    intro i hi hn
    refine ⟨hi, ?_⟩
    cases hd : (nd a i).deleted with
    | false => rfl
    | true => rw [hb i hd] at hn; cases hn
  obtain ⟨k1, k2⟩ := getByName_refines_live g h1 h s
  obtain ⟨r, t0, c⟩ := absRoot_ctx g h1 h
  constructor
  · intro i hi
    have hi' := hi
    rw [getByName, List.find?_range_eq_some] at hi'
    have hname : (nd a i).name = some s := by simpa using hi'.1
    refine ⟨k1 i hi (hlive i (List.mem_range.1 hi'.2.1) hname), ?_⟩
    intro j hj
    rw [c.dec, idsNamedR_decorate c.rep, List.mem_filter] at hj
    apply Classical.byContradiction
    intro hlt
    have := hi'.2.2 j (by omega)
    simp only [namep] at hj
    simp [hj.2] at this
  · constructor
    · exact k2
    · intro he
      rw [getByName, List.find?_range_eq_none]
      intro i hi
      cases hp : ((nd a i).name == some s) with
      | false => rfl
      | true =>
        have hname : (nd a i).name = some s := by simpa using hp
        have hl := hlive i hi hname
        have : i ∈ idsNamedR t (some s) := by
          rw [c.dec, idsNamedR_decorate c.rep, List.mem_filter]
          exact ⟨(c.mem i).2 hl, by simp [namep, hname]⟩
        rw [he] at this
        cases this

/-- `BlankNames` holds for every arena produced by the constructor and is what `checkInv` (the oracle the
    harness runs against the real arena) checks: a slot passing `checkInv` that is deleted has no name -/
theorem blankNames_of_checkInv (a : Arena) (h : checkInv a = true) : BlankNames a := by
  intro i hd
  by_cases hi : i < a.size
  · simp only [checkInv, List.all_eq_true, List.mem_range] at h
    have := h i hi
    simp only [hd, ↓reduceIte, Bool.and_eq_true, Option.isNone_iff_eq_none] at this
    exact this.1.2
  · rw [nd_dead a i (by omega)]; rfl

end AR
