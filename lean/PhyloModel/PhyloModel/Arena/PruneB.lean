import PhyloModel.Arena.PruneRec
import PhyloModel.Arena.Below
/-! Scratch prototype: `prune` with the exact frame — what dies is exactly what is below `x` -/
namespace AR

theorem Inv.toW {a : Arena} (h : Inv a) : W a (fun i => (nd a i).depth) := by
  constructor
  · intro i c hl hc
    obtain ⟨h1, h2, h3, _⟩ := h.child_ok i c hl hc
    exact ⟨h1, h2, by show (nd a i).depth < (nd a c).depth; omega⟩
  · exact h.parent_ok
  · exact h.nodup

structure PruneOK2 (a a1 : Arena) (c : Nat) : Prop where
  inv : Inv a1
  tomb : Tomb a1
  size : a1.size = a.size
  gone : ∀ v k, BelowK a c v k → ¬ live a1 v
  kept : ∀ i, live a i → (∀ k, ¬ BelowK a c i k) → live a1 i
  sub : ∀ i, live a1 i → live a i
  same : ∀ i, live a1 i → (nd a c).parent ≠ some i → nd a1 i = nd a i
  par : ∀ p, (nd a c).parent = some p → nd a1 p = removeChild (nd a p) c

/-- `BelowK` only looks at the slots below the start -/
theorem BelowK.transfer {a b : Arena} {x v k : Nat} (h : BelowK a x v k)
    (hl : ∀ u j, BelowK a x u j → live b u ∧ (nd b u).parent = (nd a u).parent) : BelowK b x v k := by
  induction h with
  | refl hlx => exact BelowK.refl (hl x 0 (BelowK.refl hlx)).1
  | step hp hlc hpar ih =>
    have := hl _ _ (BelowK.step hp hlc hpar)
    exact BelowK.step ih this.1 (by rw [this.2]; exact hpar)

theorem prune_loop2 (f D : Nat)
    (ih : ∀ a c, Inv a → Tomb a → live a c → (∀ i, live a i → (nd a i).depth ≤ D) →
        D < f + (nd a c).depth → ∃ a1, pruneF f a c = some a1 ∧ PruneOK2 a a1 c) :
    ∀ (cs done : List Nat) (a b : Arena) (x : Nat), Inv a → live a x → (nd a x).children = done ++ cs →
      Inv b → Tomb b → live b x → (nd b x).children = cs → b.size = a.size →
      (∀ i, live b i → (nd b i).depth ≤ D) → D < f + (nd b x).depth + 1 →
      (∀ i, live b i → live a i) →
      (∀ c0 v k, c0 ∈ done → BelowK a c0 v k → ¬ live b v) →
      (∀ i, live a i → (∀ c0 k, c0 ∈ done → ¬ BelowK a c0 i k) → live b i) →
      (∀ i, live b i → i ≠ x → nd b i = nd a i) →
      (nd b x).parent = (nd a x).parent → (nd b x).depth = (nd a x).depth →
      ∃ b', cs.foldlM (fun acc c => pruneF f acc c) b = some b' ∧
        Inv b' ∧ Tomb b' ∧ live b' x ∧ (nd b' x).children = [] ∧ b'.size = a.size ∧
        (∀ i, live b' i → live a i) ∧
        (∀ c0 v k, c0 ∈ (nd a x).children → BelowK a c0 v k → ¬ live b' v) ∧
        (∀ i, live a i → (∀ c0 k, c0 ∈ (nd a x).children → ¬ BelowK a c0 i k) → live b' i) ∧
        (∀ i, live b' i → i ≠ x → nd b' i = nd a i) ∧
        (nd b' x).parent = (nd a x).parent ∧ (nd b' x).depth = (nd a x).depth := by
  intro cs
  induction cs with
  | nil =>
    intro done a b x _ _ hch hib htb hlb hcb hsz _ _ hsub hgone hkept hsame hpar hdep
    simp only [List.append_nil] at hch
    exact ⟨b, by simp [List.foldlM], hib, htb, hlb, hcb, hsz, hsub, by rw [hch]; exact hgone,
      by rw [hch]; exact hkept, hsame, hpar, hdep⟩
  | cons c cs ihcs =>
    intro done a b x hia hla hch hib htb hlb hcb hsz hD hf hsub hgone hkept hsame hpar hdep
    have wa := hia.toW
    have wb := hib.toW
    have hcmem_a : c ∈ (nd a x).children := by rw [hch]; simp
    have hcmem_b : c ∈ (nd b x).children := by rw [hcb]; simp
    obtain ⟨hlc_a, hcp_a, hcd_a, _⟩ := hia.child_ok x c hla hcmem_a
    obtain ⟨hlc, hcp, hcd, _⟩ := hib.child_ok x c hlb hcmem_b
    obtain ⟨b1, hb1, ok⟩ := ih b c hib htb hlc hD (by omega)
    have hnodup_a := hia.nodup x
    rw [hch] at hnodup_a
    have hcnd : c ∉ done := fun hm => (List.nodup_append.1 hnodup_a).2.2 c hm c (by simp) rfl
    -- below c: identical in a and b
    have hbelow_ab : ∀ u j, BelowK a c u j → live b u ∧ (nd b u).parent = (nd a u).parent := by
      intro u j hb
      have hlu := hb.is_live
      have hux : u ≠ x := by
        intro h; subst h
        have := BelowK.rank wa hb; omega
      have hlb_u : live b u := hkept u hlu (fun c0 k hc0 hb0 =>
        BelowK.disjoint wa hla (by rw [hch]; simp [hc0]) hcmem_a (fun h => hcnd (h ▸ hc0)) hb0 hb)
      exact ⟨hlb_u, by rw [hsame u hlb_u hux]⟩
    have hbelow_ba : ∀ u j, BelowK b c u j → live a u ∧ (nd a u).parent = (nd b u).parent := by
      intro u j hb
      have hlu := hb.is_live
      have hux : u ≠ x := by
        intro h; subst h
        have := BelowK.rank wb hb; omega
      exact ⟨hsub u hlu, by rw [hsame u hlu hux]⟩
    -- x survives the prune of c
    have hx_notbelow : ∀ k, ¬ BelowK b c x k := fun k hb => by
      have := BelowK.rank wb hb; omega
    have hxb1 : live b1 x := ok.kept x hlb hx_notbelow
    have hb1x : nd b1 x = removeChild (nd b x) c := ok.par x hcp
    have hnodup_b := hib.nodup x
    have hcs : (nd b1 x).children = cs := by
      rw [hb1x]; simp only [removeChild, hcb]; simp
    have hb1same : ∀ i, live b1 i → i ≠ x → nd b1 i = nd b i := fun i hli hne =>
      ok.same i hli (by rw [hcp]; intro h; exact hne (Option.some.inj h).symm)
    obtain ⟨b', hfold, h1, h2, h3, h4, h5, h6, h7, h8, h9, h10, h11⟩ :=
      ihcs (done ++ [c]) a b1 x hia hla (by rw [hch]; simp) ok.inv ok.tomb hxb1 hcs
        (by rw [ok.size, hsz])
        (fun i hli => by
          by_cases hix : i = x
          · subst hix; rw [hb1x]; simp [removeChild]; exact hD _ hlb
          · rw [hb1same i hli hix]; exact hD i (ok.sub i hli))
        (by rw [hb1x]; simpa [removeChild] using hf)
        (fun i hli => hsub i (ok.sub i hli))
        (by
          intro c0 v k hc0 hb
          simp only [List.mem_append, List.mem_singleton] at hc0
          rcases hc0 with hc0 | rfl
          · exact fun hl1 => hgone c0 v k hc0 hb (ok.sub v hl1)
          · exact ok.gone v k (hb.transfer hbelow_ab))
        (by
          intro i hlai hnb
          apply ok.kept i (hkept i hlai (fun c0 k hc0 => hnb c0 k (by simp [hc0])))
          intro k hb
          exact hnb c k (by simp) (hb.transfer hbelow_ba))
        (fun i hli hne => by rw [hb1same i hli hne]; exact hsame i (ok.sub i hli) hne)
        (by rw [hb1x]; simpa [removeChild] using hpar)
        (by rw [hb1x]; simpa [removeChild] using hdep)
    exact ⟨b', by simp [List.foldlM, hb1, hfold], h1, h2, h3, h4, h5, h6, h7, h8, h9, h10, h11⟩

end AR
