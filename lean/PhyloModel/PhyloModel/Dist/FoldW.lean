import PhyloModel.Arena.RepFacts
import PhyloModel.Dist.Keys
/-! # Integer-weighted mirror of the rose-level distance-matrix core

The arena fold `DMF.dmFast` computes with scaled integers (`Int`), the rose-level mathematics of
`Dist/Basic.lean` is stated over `Rat`.  This file defines the same per-node caches and contributions over
the id-only rose tree `AR.RTI` with an integer weight function `w : Nat → Int` (the length of the edge above
a node) and proves that casting to `Rat` gives exactly `DM.cache` / `DM.pairs` of the tree `toRT w t`.
It also splits `pairs` into the contributions made AT each node (`crossWL` of the node's children), which is
the shape in which the fold produces them. -/
namespace DMW
open AR

def rid : RTI → Nat | .node i _ => i
def rkids : RTI → List RTI | .node _ ks => ks

def shiftI (d : Int) (c : List (Nat × Int)) : List (Nat × Int) := c.map (fun p => (p.1, d + p.2))

mutual
/-- `subtree_distances` of a node in scaled integers -/
def cacheW (w : Nat → Int) : RTI → List (Nat × Int)
  | .node i [] => [(i, 0)]
  | .node _ (k :: ks) => cacheWL w (k :: ks)
def cacheWL (w : Nat → Int) : List RTI → List (Nat × Int)
  | [] => []
  | k :: ks => shiftI (w (rid k)) (cacheW w k) ++ cacheWL w ks
end

def crossI (c rest : List (Nat × Int)) : List ((Nat × Nat) × Int) :=
  c.flatMap (fun p => rest.map (fun q => ((p.1, q.1), p.2 + q.2)))

/-- the contributions made while processing ONE node whose children are `ks` -/
def crossWL (w : Nat → Int) : List RTI → List ((Nat × Nat) × Int)
  | [] => []
  | k :: ks => crossI (shiftI (w (rid k)) (cacheW w k)) (cacheWL w ks) ++ crossWL w ks

mutual
def pairsW (w : Nat → Int) : RTI → List ((Nat × Nat) × Int)
  | .node _ ks => pairsWL w ks
def pairsWL (w : Nat → Int) : List RTI → List ((Nat × Nat) × Int)
  | [] => []
  | k :: ks => pairsW w k ++ (crossI (shiftI (w (rid k)) (cacheW w k)) (cacheWL w ks) ++ pairsWL w ks)
end

mutual
def leafR : RTI → List Nat
  | .node i [] => [i]
  | .node _ (k :: ks) => leafRL (k :: ks)
def leafRL : List RTI → List Nat
  | [] => []
  | k :: ks => leafR k ++ leafRL ks
end

mutual
/-- all subtrees, in pre-order -/
def subs : RTI → List RTI
  | .node i ks => .node i ks :: subsL ks
def subsL : List RTI → List RTI
  | [] => []
  | k :: ks => subs k ++ subsL ks
end

mutual
def toRT (w : Nat → Int) : RTI → DM.RT
  | .node i ks => .node i ((w i : Int) : Rat) (toRTL w ks)
def toRTL (w : Nat → Int) : List RTI → List DM.RT
  | [] => []
  | k :: ks => toRT w k :: toRTL w ks
end

def castC (c : List (Nat × Int)) : List (Nat × Rat) := c.map (fun p => (p.1, ((p.2 : Int) : Rat)))
def castP (c : List ((Nat × Nat) × Int)) : List ((Nat × Nat) × Rat) := c.map (fun p => (p.1, ((p.2 : Int) : Rat)))

/-! ### unfolding equations -/

theorem cacheW_leaf (w) (i : Nat) : cacheW w (.node i []) = [(i, 0)] := by rw [cacheW]
theorem cacheW_cons (w) (i : Nat) (k : RTI) (ks : List RTI) : cacheW w (.node i (k :: ks)) = cacheWL w (k :: ks) := by
  rw [cacheW]
theorem cacheWL_nil (w) : cacheWL w [] = [] := by rw [cacheWL]
theorem cacheWL_cons (w) (k : RTI) (ks : List RTI) :
    cacheWL w (k :: ks) = shiftI (w (rid k)) (cacheW w k) ++ cacheWL w ks := by rw [cacheWL]
theorem pairsW_node (w) (i : Nat) (ks : List RTI) : pairsW w (.node i ks) = pairsWL w ks := by rw [pairsW]
theorem pairsWL_nil (w) : pairsWL w [] = [] := by rw [pairsWL]
theorem pairsWL_cons (w) (k : RTI) (ks : List RTI) :
    pairsWL w (k :: ks) = pairsW w k ++ (crossI (shiftI (w (rid k)) (cacheW w k)) (cacheWL w ks) ++ pairsWL w ks) := by
  rw [pairsWL]
theorem leafR_leaf (i : Nat) : leafR (.node i []) = [i] := by rw [leafR]
theorem leafR_cons (i : Nat) (k : RTI) (ks : List RTI) : leafR (.node i (k :: ks)) = leafRL (k :: ks) := by rw [leafR]
theorem leafRL_nil : leafRL [] = [] := by rw [leafRL]
theorem leafRL_cons (k : RTI) (ks : List RTI) : leafRL (k :: ks) = leafR k ++ leafRL ks := by rw [leafRL]
theorem subs_node (i : Nat) (ks : List RTI) : subs (.node i ks) = .node i ks :: subsL ks := by rw [subs]
theorem subsL_nil : subsL [] = [] := by rw [subsL]
theorem subsL_cons (k : RTI) (ks : List RTI) : subsL (k :: ks) = subs k ++ subsL ks := by rw [subsL]
theorem toRT_node (w) (i : Nat) (ks : List RTI) : toRT w (.node i ks) = .node i ((w i : Int) : Rat) (toRTL w ks) := by
  rw [toRT]
theorem toRTL_nil (w) : toRTL w [] = [] := by rw [toRTL]
theorem toRTL_cons (w) (k : RTI) (ks : List RTI) : toRTL w (k :: ks) = toRT w k :: toRTL w ks := by rw [toRTL]

theorem toRT_len (w) (k : RTI) : (toRT w k).len = ((w (rid k) : Int) : Rat) := by
  cases k with | node i ks => rw [toRT_node]; rfl

/-! ### casting to `Rat` gives the rose-level definitions -/

theorem castC_append (c d : List (Nat × Int)) : castC (c ++ d) = castC c ++ castC d := by
  simp [castC]
theorem castP_append (c d : List ((Nat × Nat) × Int)) : castP (c ++ d) = castP c ++ castP d := by
  simp [castP]

theorem castC_shiftI (d : Int) (c : List (Nat × Int)) : castC (shiftI d c) = DM.shift ((d : Int) : Rat) (castC c) := by
  simp only [castC, shiftI, DM.shift, List.map_map]
  apply List.map_congr_left
  intro p _
  simp only [Function.comp_def, Prod.mk.injEq, true_and]
  rw [Rat.intCast_add, Rat.add_comm]

theorem castP_crossI (c r : List (Nat × Int)) : castP (crossI c r) = DM.cross (castC c) (castC r) := by
  simp only [castP, crossI, DM.cross, castC, List.map_flatMap, List.flatMap_map, List.map_map, Function.comp_def,
    Rat.intCast_add]

mutual
theorem cache_toRT (w) : ∀ t : RTI, DM.cache (toRT w t) = castC (cacheW w t)
  | .node i [] => by rw [toRT_node, toRTL_nil, cacheW_leaf]; simp [DM.cache, castC]
  | .node i (k :: ks) => by
    rw [toRT_node, toRTL_cons, cacheW_cons, DM.cache, ← toRTL_cons]
    exact cacheL_toRTL w (k :: ks)
theorem cacheL_toRTL (w) : ∀ ks : List RTI, DM.cacheL (toRTL w ks) = castC (cacheWL w ks)
  | [] => by rw [toRTL_nil, cacheWL_nil]; simp [DM.cacheL, castC]
  | k :: ks => by
    rw [toRTL_cons, cacheWL_cons, DM.cacheL, castC_append, castC_shiftI, cache_toRT w k, cacheL_toRTL w ks, toRT_len]
end

mutual
theorem pairs_toRT (w) : ∀ t : RTI, DM.pairs (toRT w t) = castP (pairsW w t)
  | .node i ks => by rw [toRT_node, pairsW_node, DM.pairs]; exact pairsL_toRTL w ks
theorem pairsL_toRTL (w) : ∀ ks : List RTI, DM.pairsL (toRTL w ks) = castP (pairsWL w ks)
  | [] => by rw [toRTL_nil, pairsWL_nil]; simp [DM.pairsL, castP]
  | k :: ks => by
    rw [toRTL_cons, pairsWL_cons, DM.pairsL, castP_append, castP_append, castP_crossI, castC_shiftI,
      pairs_toRT w k, pairsL_toRTL w ks, cache_toRT w k, cacheL_toRTL w ks, toRT_len]
end

mutual
theorem leafIds_toRT (w) : ∀ t : RTI, DM.leafIds (toRT w t) = leafR t
  | .node i [] => by rw [toRT_node, toRTL_nil, leafR_leaf]; simp [DM.leafIds]
  | .node i (k :: ks) => by
    rw [toRT_node, toRTL_cons, leafR_cons, DM.leafIds, ← toRTL_cons]
    exact leafIdsL_toRTL w (k :: ks)
theorem leafIdsL_toRTL (w) : ∀ ks : List RTI, DM.leafIdsL (toRTL w ks) = leafRL ks
  | [] => by rw [toRTL_nil, leafRL_nil]; simp [DM.leafIdsL]
  | k :: ks => by rw [toRTL_cons, leafRL_cons, DM.leafIdsL, leafIds_toRT w k, leafIdsL_toRTL w ks]
end

/-! ### keys of the integer caches -/

def ckeysI (c : List (Nat × Int)) : List Nat := c.map (·.1)

theorem ckeysI_shiftI (d : Int) (c : List (Nat × Int)) : ckeysI (shiftI d c) = ckeysI c := by
  simp [ckeysI, shiftI, List.map_map, Function.comp_def]

mutual
theorem ckeysI_cacheW (w) : ∀ t : RTI, ckeysI (cacheW w t) = leafR t
  | .node i [] => by rw [cacheW_leaf, leafR_leaf]; simp [ckeysI]
  | .node i (k :: ks) => by rw [cacheW_cons, leafR_cons]; exact ckeysI_cacheWL w (k :: ks)
theorem ckeysI_cacheWL (w) : ∀ ks : List RTI, ckeysI (cacheWL w ks) = leafRL ks
  | [] => by rw [cacheWL_nil, leafRL_nil]; simp [ckeysI]
  | k :: ks => by
    rw [cacheWL_cons, leafRL_cons, ← ckeysI_cacheW w k, ← ckeysI_cacheWL w ks]
    simp only [ckeysI, List.map_append]
    congr 1
    exact ckeysI_shiftI _ _
end

/-! ### the contributions, node by node -/

theorem flatMap_append_perm {α β : Type} (f g : α → List β) : ∀ l : List α,
    (l.flatMap (fun x => f x ++ g x)).Perm (l.flatMap f ++ l.flatMap g)
  | [] => by simp
  | x :: l => by
    simp only [List.flatMap_cons, List.append_assoc]
    apply List.Perm.append_left
    refine ((flatMap_append_perm f g l).append_left (g x)).trans ?_
    simp only [← List.append_assoc]
    exact List.Perm.append_right _ List.perm_append_comm

mutual
/-- `pairs` = the contributions made at each node of the tree, over all nodes -/
theorem pairsW_perm (w) : ∀ t : RTI, (pairsW w t).Perm ((subs t).flatMap (fun s => crossWL w (rkids s)))
  | .node i ks => by
    rw [pairsW_node, subs_node, List.flatMap_cons]
    simp only [rkids]
    exact (pairsWL_perm w ks).trans List.perm_append_comm
theorem pairsWL_perm (w) : ∀ ks : List RTI,
    (pairsWL w ks).Perm ((subsL ks).flatMap (fun s => crossWL w (rkids s)) ++ crossWL w ks)
  | [] => by rw [pairsWL_nil, subsL_nil]; simp [crossWL]
  | k :: ks => by
    rw [pairsWL_cons, subsL_cons, List.flatMap_append, crossWL]
    have h1 := pairsW_perm w k
    have h2 := pairsWL_perm w ks
    refine (List.Perm.append h1 (List.Perm.append_left _ h2)).trans ?_
    simp only [List.append_assoc]
    apply List.Perm.append_left
    -- C ++ (S ++ X) ~ S ++ (C ++ X)
    simp only [← List.append_assoc]
    exact List.Perm.append_right _ List.perm_append_comm
end

/-! ### subtrees and the arena -/

mutual
theorem pre_eq_subs : ∀ t : RTI, pre t = (subs t).map rid
  | .node i ks => by rw [pre, subs_node, List.map_cons, preL_eq_subsL ks]; rfl
theorem preL_eq_subsL : ∀ ks : List RTI, preL ks = (subsL ks).map rid
  | [] => by rw [preL, subsL_nil]; rfl
  | k :: ks => by rw [preL, subsL_cons, List.map_append, pre_eq_subs k, preL_eq_subsL ks]
end

mutual
/-- every subtree of a represented tree is the tree represented by its own root slot -/
theorem subs_rep {a : Arena} : ∀ (t : RTI) (i : Nat), Rep a i t → ∀ s ∈ subs t, Rep a (rid s) s
  | .node j ks, i, h, s, hs => by
    rw [subs_node, List.mem_cons] at hs
    rcases hs with rfl | hs
    · have h' := h
      simp only [Rep] at h'
      obtain ⟨rfl, _⟩ := h'
      exact h
    · simp only [Rep] at h
      exact subsL_rep ks _ h.2.2 s hs
theorem subsL_rep {a : Arena} : ∀ (ks : List RTI) (cs : List Nat), RepL a cs ks → ∀ s ∈ subsL ks, Rep a (rid s) s
  | [], _, _, s, hs => by rw [subsL_nil] at hs; simp at hs
  | k :: ks, cs, h, s, hs => by
    cases cs with
    | nil => simp [RepL] at h
    | cons c cs =>
      simp only [RepL] at h
      rw [subsL_cons, List.mem_append] at hs
      rcases hs with hs | hs
      · exact subs_rep k c h.1 s hs
      · exact subsL_rep ks cs h.2 s hs
end

/-- with a choice function `tr` of represented trees, the children's trees are the images of the child ids -/
theorem repL_map {a : Arena} (tr : Nat → RTI) (htr : ∀ v t, Rep a v t → tr v = t) :
    ∀ (cs : List Nat) (ks : List RTI), RepL a cs ks → ks = cs.map tr
  | [], [], _ => rfl
  | [], _ :: _, h => by simp [RepL] at h
  | _ :: _, [], h => by simp [RepL] at h
  | c :: cs, k :: ks, h => by
    simp only [RepL] at h
    rw [List.map_cons, htr c k h.1, ← repL_map tr htr cs ks h.2]

theorem rep_rid {a : Arena} {i : Nat} {t : RTI} (h : Rep a i t) : rid t = i := by
  cases t with | node j ks => simp only [Rep] at h; simp [rid, h.1]

mutual
/-- the leaves are a sublist of the pre-order -/
theorem leafR_sublist : ∀ t : RTI, (leafR t).Sublist (pre t)
  | .node i [] => by rw [leafR_leaf]; simp [pre, preL]
  | .node i (k :: ks) => by
    rw [leafR_cons, pre]
    exact List.Sublist.cons _ (leafRL_sublist (k :: ks))
theorem leafRL_sublist : ∀ ks : List RTI, (leafRL ks).Sublist (preL ks)
  | [] => by rw [leafRL_nil]; simp
  | k :: ks => by
    rw [leafRL_cons, preL]
    exact List.Sublist.append (leafR_sublist k) (leafRL_sublist ks)
end

end DMW
