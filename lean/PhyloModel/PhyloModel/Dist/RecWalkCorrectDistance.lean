import PhyloModel.Dist.RecWalkCorrect
import PhyloModel.Arena.DistBase
/-! # The cells of `dmRecWalk` are the distances `Tree::get_distance` computes

The path length `pathW` / `DM.pathLen` of the represented tree, between two different tips, is the sum of branch
lengths that the executable model `AR.distance` of `Tree::get_distance` returns for the two slots (root paths, common
prefix dropped) -- provided every branch of the tree carries a length.  Hence the matrix `dmRecWalk` returns holds
`get_distance` of every pair of tips. -/
namespace DMF
open AR DMW

def pedgeOf (a : Arena) (i : Nat) : Option Int := (nd a i).pedge

theorem optAdd_some (x y : Int) : optAdd (some x) (some y) = some (x + y) := rfl

mutual
/-- the root path of a tip of the subtree `t` extends the root path of the root of `t`; the lengths along the
    extension add up to the depth of the tip in `t` -/
theorem depth_path {a : Arena} (hinv : Inv a) (x : Nat) : ∀ (t : RTI) (c : Nat) (lc : List Nat), Rep a c t →
    Path a lc c → x ∈ leafR t → allLensW a t = true →
    ∃ q d, Path a (lc ++ q) x ∧ depthW (wOf a 0) t x = some d ∧ optSum (q.map (pedgeOf a)) = some d
  | .node j [], c, lc, h, hp, hx, _ => by
    simp only [Rep] at h
    obtain ⟨rfl, _, _⟩ := h
    rw [leafR_leaf] at hx
    simp only [List.mem_singleton] at hx
    subst hx
    exact ⟨[], 0, by simpa using hp, by rw [depthW_leaf]; simp, rfl⟩
  | .node j (k :: ks), c, lc, h, hp, hx, hl => by
    simp only [Rep] at h
    obtain ⟨rfl, hlc, hk⟩ := h
    rw [leafR_cons] at hx
    rw [allLensW_node] at hl
    rw [depthW_cons]
    obtain ⟨k', q, d, _, _, h3, h4, h5⟩ := depth_pathL hinv x (k :: ks) _ c lc hk hp
      (fun c' hc' => (hinv.child_ok c c' hlc hc').2.1) hx hl
    exact ⟨rid k' :: q, d, h3, h4, h5⟩
theorem depth_pathL {a : Arena} (hinv : Inv a) (x : Nat) : ∀ (ks : List RTI) (cs : List Nat) (c : Nat)
    (lc : List Nat), RepL a cs ks → Path a lc c → (∀ c' ∈ cs, (nd a c').parent = some c) → x ∈ leafRL ks →
    allLensWL a ks = true →
    ∃ k q d, k ∈ ks ∧ x ∈ leafR k ∧ Path a (lc ++ rid k :: q) x ∧ depthWL (wOf a 0) ks x = some d ∧
      optSum ((rid k :: q).map (pedgeOf a)) = some d
  | [], _, _, _, _, _, _, hx, _ => by rw [leafRL_nil] at hx; simp at hx
  | k :: ks, cs, c, lc, h, hp, hpar, hx, hl => by
    cases cs with
    | nil => simp [RepL] at h
    | cons ck cs =>
      simp only [RepL] at h
      have hck := rep_rid h.1
      rw [allLensWL_cons] at hl
      simp only [Bool.and_eq_true] at hl
      rw [depthWL_cons]
      by_cases hxk : x ∈ leafR k
      · have hpk : Path a (lc ++ [ck]) ck := Path.step hp (rep_live h.1) (hpar ck (by simp))
        obtain ⟨q, d, h1, h2, h3⟩ := depth_path hinv x k ck (lc ++ [ck]) h.1 hpk hxk hl.1.2
        obtain ⟨l, hpe⟩ : ∃ l, (nd a ck).pedge = some l := by
          have := hl.1.1; rw [hck] at this
          cases hc : (nd a ck).pedge with
          | none => rw [hc] at this; simp at this
          | some l => exact ⟨l, rfl⟩
        refine ⟨k, q, d + l, by simp, hxk, ?_, ?_, ?_⟩
        · rw [hck]; simpa using h1
        · rw [h2, hck, wOf_some hpe]
        · rw [hck, List.map_cons, optSum_cons, h3, pedgeOf, hpe, optAdd_some, Int.add_comm]
      · rw [leafRL_cons, List.mem_append] at hx
        have hx' : x ∈ leafRL ks := hx.resolve_left hxk
        obtain ⟨k', q, d, h1, h2, h3, h4, h5⟩ := depth_pathL hinv x ks cs c lc h.2 hp
          (fun c' hc' => hpar c' (by simp [hc'])) hx' hl.2
        refine ⟨k', q, d, by simp [h1], h2, h3, ?_, h5⟩
        rw [depthW_none _ k x hxk]
        exact h4
end

/-- two different children of a node represent different trees with different root slots -/
theorem rid_ne_of_leaf {a : Arena} {k k' : RTI} {x : Nat} (hk : Rep a (rid k) k) (hk' : Rep a (rid k') k')
    (hx : x ∈ leafR k) (hx' : x ∉ leafR k') : rid k ≠ rid k' := by
  intro e
  rw [e] at hk
  have := rep_unique a k k' _ hk hk'
  subst this
  exact hx' hx

theorem repL_mem_rep {a : Arena} : ∀ (ks : List RTI) (cs : List Nat), RepL a cs ks → ∀ k ∈ ks, Rep a (rid k) k
  | [], _, _, k, hk => by simp at hk
  | t :: ts, cs, h, k, hk => by
    cases cs with
    | nil => simp [RepL] at h
    | cons c cs =>
      simp only [RepL] at h
      rcases List.mem_cons.1 hk with rfl | hk
      · rw [rep_rid h.1]; exact h.1
      · exact repL_mem_rep ts cs h.2 k hk

mutual
/-- **path length = `get_distance`**: between two different tips of a represented tree all of whose branches carry a
    length -/
theorem pathW_distance {a : Arena} (hinv : Inv a) (x y : Nat) (hxy : x ≠ y) : ∀ (t : RTI) (c : Nat) (lc : List Nat),
    Rep a c t → Path a lc c → (leafR t).Nodup → x ∈ leafR t → y ∈ leafR t → allLensW a t = true →
    ∃ v n, pathW (wOf a 0) t x y = some v ∧ distance a x y = .ok (some v, n)
  | .node j [], c, lc, _, _, _, hx, hy, _ => by
    rw [leafR_leaf] at hx hy
    simp only [List.mem_singleton] at hx hy
    exact absurd (hx.trans hy.symm) hxy
  | .node j (k :: ks), c, lc, h, hp, hn, hx, hy, hl => by
    simp only [Rep] at h
    obtain ⟨rfl, hlc, hk⟩ := h
    rw [leafR_cons] at hx hy hn
    rw [allLensW_node] at hl
    rw [pathW_node]
    exact pathWL_distance hinv x y hxy (k :: ks) _ c lc hk hp
      (fun c' hc' => (hinv.child_ok c c' hlc hc').2.1) hn hx hy hl
theorem pathWL_distance {a : Arena} (hinv : Inv a) (x y : Nat) (hxy : x ≠ y) : ∀ (ks : List RTI) (cs : List Nat)
    (c : Nat) (lc : List Nat), RepL a cs ks → Path a lc c → (∀ c' ∈ cs, (nd a c').parent = some c) →
    (leafRL ks).Nodup → x ∈ leafRL ks → y ∈ leafRL ks → allLensWL a ks = true →
    ∃ v n, pathWL (wOf a 0) ks x y = some v ∧ distance a x y = .ok (some v, n)
  | [], _, _, _, _, _, _, _, hx, _, _ => by rw [leafRL_nil] at hx; simp at hx
  | k :: ks, cs, c, lc, h, hp, hpar, hn, hx, hy, hl => by
    cases cs with
    | nil => simp [RepL] at h
    | cons ck cs =>
      have hall := h
      simp only [RepL] at h
      have hck := rep_rid h.1
      have hl' := hl
      rw [allLensWL_cons] at hl'
      simp only [Bool.and_eq_true] at hl'
      rw [leafRL_cons, List.nodup_append] at hn
      rw [leafRL_cons, List.mem_append] at hx hy
      rw [pathWL_cons]
      have hpar' : ∀ c' ∈ cs, (nd a c').parent = some c := fun c' hc' => hpar c' (by simp [hc'])
      have hpk : Path a (lc ++ [ck]) ck := Path.step hp (rep_live h.1) (hpar ck (by simp))
      have w := hinv.toW
      obtain ⟨l, hpe⟩ : ∃ l, (nd a ck).pedge = some l := by
        have := hl'.1.1; rw [hck] at this
        cases hc : (nd a ck).pedge with
        | none => rw [hc] at this; simp at this
        | some l => exact ⟨l, rfl⟩
      have hrk : Rep a (rid k) k := by rw [hck]; exact h.1
      by_cases hxk : x ∈ leafR k <;> by_cases hyk : y ∈ leafR k
      · -- both below the same child
        obtain ⟨dx, hdx⟩ := depthW_some (wOf a 0) k x hxk
        obtain ⟨dy, hdy⟩ := depthW_some (wOf a 0) k y hyk
        rw [hdx, hdy]
        exact pathW_distance hinv x y hxy k ck (lc ++ [ck]) h.1 hpk hn.1 hxk hyk hl'.1.2
      · -- `x` below this child, `y` below a later one
        have hy' : y ∈ leafRL ks := hy.resolve_left hyk
        obtain ⟨qx, dx, h1, h2, h3⟩ := depth_path hinv x k ck (lc ++ [ck]) h.1 hpk hxk hl'.1.2
        obtain ⟨ky, qy, Dy, g1, g2, g3, g4, g5⟩ := depth_pathL hinv y ks cs c lc h.2 hp hpar' hy' hl'.2
        have hne : ck ≠ rid ky := by
          have := rid_ne_of_leaf (repL_mem_rep ks cs h.2 ky g1) hrk g2 hyk
          rw [hck] at this; exact Ne.symm this
        have px : Path a (lc ++ ck :: qx) x := by simpa using h1
        have hd := distance_of_paths w px g3 hxy
        rw [distOf_split a lc (ck :: qx) (rid ky :: qy) (by
          intro u v hu hv; simp only [List.head?_cons, Option.some.injEq] at hu hv; rw [← hu, ← hv]; exact hne)] at hd
        rw [h2, depthW_none _ k y hyk, g4, hck, wOf_some hpe]
        refine ⟨(dx + l) + Dy, (ck :: qx ++ rid ky :: qy).length, rfl, ?_⟩
        rw [hd]
        have e : optSum ((ck :: qx ++ rid ky :: qy).map (fun i => (nd a i).pedge)) = some ((dx + l) + Dy) := by
          have e1 : optSum ((ck :: qx).map (pedgeOf a)) = some (l + dx) := by
            rw [List.map_cons, optSum_cons, h3, pedgeOf, hpe, optAdd_some]
          have e2 : (ck :: qx ++ rid ky :: qy).map (fun i => (nd a i).pedge)
              = (ck :: qx).map (pedgeOf a) ++ (rid ky :: qy).map (pedgeOf a) := by
            rw [← List.map_append]; rfl
          rw [e2, optSum_append, e1, g5, optAdd_some, Int.add_comm l dx]
        rw [e]
      · -- `y` below this child, `x` below a later one
        have hx' : x ∈ leafRL ks := hx.resolve_left hxk
        obtain ⟨qy, dy, h1, h2, h3⟩ := depth_path hinv y k ck (lc ++ [ck]) h.1 hpk hyk hl'.1.2
        obtain ⟨kx, qx, Dx, g1, g2, g3, g4, g5⟩ := depth_pathL hinv x ks cs c lc h.2 hp hpar' hx' hl'.2
        have hne : rid kx ≠ ck := by
          have := rid_ne_of_leaf (repL_mem_rep ks cs h.2 kx g1) hrk g2 hxk
          rw [hck] at this; exact this
        have py : Path a (lc ++ ck :: qy) y := by simpa using h1
        have hd := distance_of_paths w g3 py hxy
        rw [distOf_split a lc (rid kx :: qx) (ck :: qy) (by
          intro u v hu hv; simp only [List.head?_cons, Option.some.injEq] at hu hv; rw [← hu, ← hv]; exact hne)] at hd
        rw [depthW_none _ k x hxk, h2, g4, hck, wOf_some hpe]
        refine ⟨Dx + (dy + l), (rid kx :: qx ++ ck :: qy).length, rfl, ?_⟩
        rw [hd]
        have e : optSum ((rid kx :: qx ++ ck :: qy).map (fun i => (nd a i).pedge)) = some (Dx + (dy + l)) := by
          have e1 : optSum ((ck :: qy).map (pedgeOf a)) = some (l + dy) := by
            rw [List.map_cons, optSum_cons, h3, pedgeOf, hpe, optAdd_some]
          have e2 : (rid kx :: qx ++ ck :: qy).map (fun i => (nd a i).pedge)
              = (rid kx :: qx).map (pedgeOf a) ++ (ck :: qy).map (pedgeOf a) := by
            rw [← List.map_append]; rfl
          rw [e2, optSum_append, e1, g5, optAdd_some, Int.add_comm l dy]
        rw [e]
      · -- both below later children
        have hx' : x ∈ leafRL ks := hx.resolve_left hxk
        have hy' : y ∈ leafRL ks := hy.resolve_left hyk
        rw [depthW_none _ k x hxk, depthW_none _ k y hyk]
        exact pathWL_distance hinv x y hxy ks cs c lc h.2 hp hpar' hn.2.1 hx' hy' hl'.2
end

/-- **The cells are the distances of `get_distance`.**  Same hypotheses as `dmRecWalk_correct`: the cell of the taxa
    `j < i` is the sum of branch lengths `AR.distance` (the model of `Tree::get_distance`) returns for the two tips. -/
theorem dmRecWalk_distances (a : Arena) (hinv : Inv a) (h1 : AtMostOneRoot a) (hne : a.size ≠ 0)
    (hnamed : ∀ l ∈ leaves a, (nd a l).name.isSome)
    (hdist : ∀ x ∈ leaves a, ∀ y ∈ leaves a, (nd a x).name = (nd a y).name → x = y)
    (hlen : ∀ i, live a i → (nd a i).parent.isSome → (nd a i).pedge.isSome) :
    ∃ cells, dmRecWalk a = .ok ((leafOrder a).map (fun l => ((nd a l).name).getD ""), cells) ∧
      cells.length = Tri.T (leafOrder a).length ∧
      ∀ (i j : Nat) (_ : j < i) (hi : i < (leafOrder a).length),
        ∃ edges, distance a (leafOrder a)[i] (leafOrder a)[j] = .ok (some (cells.getD (MX.cell i j) 0), edges) := by
  obtain ⟨hc1, hc2⟩ := checks_pass a (leaves a) (leaves_nodup a) hnamed hdist
  have hW : dmRecWalk a = walkPart a := by
    rw [dmRecWalk_eq]; simp only [hne, hc1, hc2, Bool.false_eq_true, ↓reduceIte]
  cases hgr : getRoot a with
  | none =>
    have hl : leaves a = [] := by
      apply List.eq_nil_iff_forall_not_mem.2
      intro x hx
      exact no_root_no_live hinv hgr x (mem_leaves.1 hx).1
    have hO : leafOrder a = [] := by rw [leafOrder, hl, List.mergeSort_nil]
    refine ⟨[], ?_, by rw [hO]; rfl, ?_⟩
    · rw [hW, walkPart_noroot hinv hgr, hO]; rfl
    · intro i j _ hi
      rw [hO] at hi; simp at hi
  | some r =>
    have hroot := getRoot_spec hgr
    obtain ⟨t, ht, _, _, _⟩ := rep_total hinv r hroot.1
    have hall := allLensW_of_lens hinv hlen t r ht
    obtain ⟨hP1, hP2⟩ := walkPart_ok hinv h1 hgr ht hall
    refine ⟨_, by rw [hW]; exact hP1, rowMajor_length _ _, ?_⟩
    intro i j hj hi
    have hjl : j < (leafOrder a).length := by omega
    have ei : (leafOrder a).getD i 0 = (leafOrder a)[i] := by simp [List.getD_eq_getElem?_getD, hi]
    have ej : (leafOrder a).getD j 0 = (leafOrder a)[j] := by simp [List.getD_eq_getElem?_getD, hjl]
    have hp := hP2 i j hj hi
    rw [ei, ej] at hp
    have hcell : MX.cell i j = Tri.T i + j := by
      simp only [MX.cell, gt_iff_lt, hj, ↓reduceIte, Tri.idx_eq]
    have hperm := leafR_perm_leaves hinv h1 hgr ht
    have hOperm := leafOrder_perm a
    have hxy : (leafOrder a)[i] ≠ (leafOrder a)[j] := fun e => by
      have := (List.getElem_inj (leafOrder_nodup a)).1 e; omega
    have hxt : (leafOrder a)[i] ∈ leafR t := hperm.mem_iff.2 (hOperm.mem_iff.1 (List.getElem_mem hi))
    have hyt : (leafOrder a)[j] ∈ leafR t := hperm.mem_iff.2 (hOperm.mem_iff.1 (List.getElem_mem hjl))
    have hn : (leafR t).Nodup := (leafR_sublist t).nodup (pre_nodup hinv.toW t r ht)
    obtain ⟨v, n, hv1, hv2⟩ := pathW_distance hinv _ _ hxy t r [r] ht (Path.root hroot.1 hroot.2) hn hxt hyt hall
    rw [hp] at hv1
    simp only [Option.some.injEq] at hv1
    rw [hcell, rowMajor_getD _ _ i j hj hi, hv1]
    exact ⟨n, hv2⟩

end DMF
