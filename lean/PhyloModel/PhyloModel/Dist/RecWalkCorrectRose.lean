import PhyloModel.Dist.RecWalk
import PhyloModel.Dist.FoldRose
/-! # The walk of `distance_matrix_recursive_impl`, by structural recursion on the represented tree

`downW a t acc L` : the walk INTO the subtree `t` (coming from its parent) with accumulated length `L`.
`upW a x t acc`   : the part of the walk that starts at the tip `x` of `t` and stays inside `t`: it climbs from `x` to
                    the root of `t`, at every node on the way walking into the other subtrees; it returns the cache
                    and the length accumulated at the root of `t`.
Both refuse (`MissingBranchLengths`) exactly when a branch inside `t` lacks a length; otherwise `upW` records at every
other tip `y` of `t` the path length between `x` and `y`.  Lengths are read from the arena slots (`pedge`), the
semantics is stated with the integer mirrors `depthW` / `pathW` of `DM.depthTo` / `DM.pathLen`. -/
namespace DMF
open AR DMW

/-! ### the association list -/

theorem kvGet_kvInsert (m : List (Nat × Int)) (k : Nat) (v : Int) (k' : Nat) :
    kvGet (kvInsert m k v) k' = if k' = k then some v else kvGet m k' := by
  simp only [kvGet, kvInsert, List.find?_cons]
  by_cases h : k' = k
  · subst h; simp
  · have h1 : (k == k') = false := by simp [Ne.symm h]
    simp only [h1, h, ↓reduceIte]
    congr 1
    induction m with
    | nil => rfl
    | cons p m ih =>
      simp only [List.filter_cons, List.find?_cons]
      by_cases hp : p.1 = k
      · simp [hp, h1, ih]
      · have hpk : (p.1 != k) = true := by simp [hp]
        simp only [hpk, ↓reduceIte, List.find?_cons]
        cases hb : (p.1 == k') <;> simp [ih]

/-! ### integer mirrors of `DM.depthTo` / `DM.pathLen` -/

mutual
def depthW (w : Nat → Int) : RTI → Nat → Option Int
  | .node i [], x => if i = x then some 0 else none
  | .node _ (k :: ks), x => depthWL w (k :: ks) x
def depthWL (w : Nat → Int) : List RTI → Nat → Option Int
  | [], _ => none
  | k :: ks, x => match depthW w k x with
    | some d => some (d + w (rid k))
    | none => depthWL w ks x
end

mutual
def pathW (w : Nat → Int) : RTI → Nat → Nat → Option Int
  | .node _ ks, x, y => pathWL w ks x y
def pathWL (w : Nat → Int) : List RTI → Nat → Nat → Option Int
  | [], _, _ => none
  | k :: ks, x, y =>
    match depthW w k x, depthW w k y with
    | some _, some _ => pathW w k x y
    | some dx, none => (depthWL w ks y).map (fun dy => (dx + w (rid k)) + dy)
    | none, some dy => (depthWL w ks x).map (fun dx => dx + (dy + w (rid k)))
    | none, none => pathWL w ks x y
end

theorem depthW_leaf (w) (i x : Nat) : depthW w (.node i []) x = if i = x then some 0 else none := by rw [depthW]
theorem depthW_cons (w) (i : Nat) (k : RTI) (ks : List RTI) (x : Nat) :
    depthW w (.node i (k :: ks)) x = depthWL w (k :: ks) x := by rw [depthW]
theorem depthWL_nil (w) (x : Nat) : depthWL w [] x = none := by rw [depthWL]
theorem depthWL_cons (w) (k : RTI) (ks : List RTI) (x : Nat) :
    depthWL w (k :: ks) x = match depthW w k x with
      | some d => some (d + w (rid k))
      | none => depthWL w ks x := by rw [depthWL]
theorem pathW_node (w) (i : Nat) (ks : List RTI) (x y : Nat) : pathW w (.node i ks) x y = pathWL w ks x y := by rw [pathW]
theorem pathWL_nil (w) (x y : Nat) : pathWL w [] x y = none := by rw [pathWL]
theorem pathWL_cons (w) (k : RTI) (ks : List RTI) (x y : Nat) :
    pathWL w (k :: ks) x y = match depthW w k x, depthW w k y with
      | some _, some _ => pathW w k x y
      | some dx, none => (depthWL w ks y).map (fun dy => (dx + w (rid k)) + dy)
      | none, some dy => (depthWL w ks x).map (fun dx => dx + (dy + w (rid k)))
      | none, none => pathWL w ks x y := by rw [pathWL]

def castO (o : Option Int) : Option Rat := o.map (fun z => ((z : Int) : Rat))

mutual
theorem depthTo_toRT (w) : ∀ (t : RTI) (x : Nat), DM.depthTo (toRT w t) x = castO (depthW w t x)
  | .node i [], x => by
    rw [toRT_node, toRTL_nil, depthW_leaf, DM.depthTo]
    by_cases h : i = x <;> simp [h, castO]
  | .node i (k :: ks), x => by
    rw [toRT_node, toRTL_cons, depthW_cons, DM.depthTo, ← toRTL_cons]
    exact depthToL_toRTL w (k :: ks) x
theorem depthToL_toRTL (w) : ∀ (ks : List RTI) (x : Nat), DM.depthToL (toRTL w ks) x = castO (depthWL w ks x)
  | [], x => by rw [toRTL_nil, depthWL_nil, DM.depthToL]; rfl
  | k :: ks, x => by
    rw [toRTL_cons, depthWL_cons, DM.depthToL, depthTo_toRT w k x, depthToL_toRTL w ks x, toRT_len]
    cases h : depthW w k x with
    | none => simp [castO]
    | some d => simp [castO, Rat.intCast_add]
end

mutual
theorem pathLen_toRT (w) : ∀ (t : RTI) (x y : Nat), DM.pathLen (toRT w t) x y = castO (pathW w t x y)
  | .node i ks, x, y => by
    rw [toRT_node, pathW_node, DM.pathLen]
    exact pathLenL_toRTL w ks x y
theorem pathLenL_toRTL (w) : ∀ (ks : List RTI) (x y : Nat), DM.pathLenL (toRTL w ks) x y = castO (pathWL w ks x y)
  | [], x, y => by rw [toRTL_nil, pathWL_nil, DM.pathLenL]; rfl
  | k :: ks, x, y => by
    rw [toRTL_cons, pathWL_cons, DM.pathLenL, depthTo_toRT w k x, depthTo_toRT w k y, depthToL_toRTL w ks x,
      depthToL_toRTL w ks y, toRT_len, pathLen_toRT w k x y, pathLenL_toRTL w ks x y]
    cases hx : depthW w k x <;> cases hy : depthW w k y <;> simp only [castO, Option.map_some, Option.map_none]
    · cases depthWL w ks x <;> simp [Rat.intCast_add]
    · cases depthWL w ks y <;> simp [Rat.intCast_add]
end

theorem depthW_isSome (w) (t : RTI) (x : Nat) : (depthW w t x).isSome ↔ x ∈ leafR t := by
  have h := depthTo_toRT w t x
  constructor
  · intro hs
    cases hd : depthW w t x with
    | none => simp [hd] at hs
    | some d =>
      rw [hd] at h
      have := DM.depthTo_mem _ _ _ h
      rwa [leafIds_toRT] at this
  · intro hm
    obtain ⟨d, hd⟩ := DM.mem_depthTo (toRT w t) x (by rw [leafIds_toRT]; exact hm)
    rw [hd] at h
    cases hd' : depthW w t x with
    | none => simp [hd', castO] at h
    | some _ => rfl

theorem depthW_none (w) (t : RTI) (x : Nat) (h : x ∉ leafR t) : depthW w t x = none := by
  cases hd : depthW w t x with
  | none => rfl
  | some d => exact absurd ((depthW_isSome w t x).1 (by simp [hd])) h

theorem depthW_some (w) (t : RTI) (x : Nat) (h : x ∈ leafR t) : ∃ d, depthW w t x = some d := by
  have := (depthW_isSome w t x).2 h
  cases hd : depthW w t x with
  | none => simp [hd] at this
  | some d => exact ⟨d, rfl⟩

theorem depthWL_none (w) : ∀ (ks : List RTI) (x : Nat), x ∉ leafRL ks → depthWL w ks x = none
  | [], x, _ => depthWL_nil w x
  | k :: ks, x, h => by
    rw [leafRL_cons, List.mem_append, not_or] at h
    rw [depthWL_cons, depthW_none w k x h.1]
    exact depthWL_none w ks x h.2

theorem depthWL_some (w) : ∀ (ks : List RTI) (x : Nat), x ∈ leafRL ks → ∃ d, depthWL w ks x = some d
  | [], x, h => by rw [leafRL_nil] at h; simp at h
  | k :: ks, x, h => by
    rw [depthWL_cons]
    cases hd : depthW w k x with
    | some d => exact ⟨_, rfl⟩
    | none =>
      rw [leafRL_cons, List.mem_append] at h
      rcases h with h | h
      · obtain ⟨d, hd'⟩ := depthW_some w k x h
        rw [hd] at hd'; cases hd'
      · exact depthWL_some w ks x h

theorem leafRL_append : ∀ (l1 l2 : List RTI), leafRL (l1 ++ l2) = leafRL l1 ++ leafRL l2
  | [], l2 => by rw [leafRL_nil]; rfl
  | k :: l1, l2 => by rw [List.cons_append, leafRL_cons, leafRL_cons, leafRL_append l1 l2, List.append_assoc]

/-- **path length through a list of sibling subtrees**: `x` is a tip of the subtree `k`; the path to a tip of the same
    subtree stays in it, the path to a tip `y` of another sibling is the two legs through the common parent -/
theorem pathWL_split (w) (k : RTI) (l2 : List RTI) (x : Nat) (dx : Int) (hdx : depthW w k x = some dx) :
    ∀ (l1 : List RTI), (leafRL (l1 ++ k :: l2)).Nodup →
      depthWL w (l1 ++ k :: l2) x = some (dx + w (rid k)) ∧
      (∀ y, y ∈ leafR k → pathWL w (l1 ++ k :: l2) x y = pathW w k x y) ∧
      (∀ y D, depthWL w (l1 ++ l2) y = some D → pathWL w (l1 ++ k :: l2) x y = some ((dx + w (rid k)) + D))
  | [], hn => by
    have hxk : x ∈ leafR k := (depthW_isSome w k x).1 (by simp [hdx])
    simp only [List.nil_append] at hn ⊢
    rw [leafRL_cons, List.nodup_append] at hn
    refine ⟨by rw [depthWL_cons, hdx], ?_, ?_⟩
    · intro y hy
      obtain ⟨dy, hdy⟩ := depthW_some w k y hy
      rw [pathWL_cons, hdx, hdy]
    · intro y D hD
      have hy2 : y ∈ leafRL l2 := by
        apply Classical.byContradiction; intro hc
        rw [depthWL_none w l2 y hc] at hD; cases hD
      have hyk : y ∉ leafR k := fun hc => hn.2.2 y hc y hy2 rfl
      rw [pathWL_cons, hdx, depthW_none w k y hyk, hD]
      rfl
  | k0 :: l1, hn => by
    have hxk : x ∈ leafR k := (depthW_isSome w k x).1 (by simp [hdx])
    simp only [List.cons_append] at hn ⊢
    rw [leafRL_cons, List.nodup_append] at hn
    obtain ⟨ih1, ih2, ih3⟩ := pathWL_split w k l2 x dx hdx l1 hn.2.1
    have hxin : x ∈ leafRL (l1 ++ k :: l2) := by
      rw [leafRL_append, leafRL_cons]; simp [hxk]
    have hx0 : x ∉ leafR k0 := fun hc => hn.2.2 x hc x hxin rfl
    have hdx0 := depthW_none w k0 x hx0
    refine ⟨by rw [depthWL_cons, hdx0]; exact ih1, ?_, ?_⟩
    · intro y hy
      have hyin : y ∈ leafRL (l1 ++ k :: l2) := by
        rw [leafRL_append, leafRL_cons]; simp [hy]
      have hy0 : y ∉ leafR k0 := fun hc => hn.2.2 y hc y hyin rfl
      rw [pathWL_cons, hdx0, depthW_none w k0 y hy0]
      exact ih2 y hy
    · intro y D hD
      rw [depthWL_cons] at hD
      rw [pathWL_cons, hdx0]
      cases hdy : depthW w k0 y with
      | some dy =>
        rw [hdy] at hD
        simp only [Option.some.injEq] at hD
        subst hD
        simp only [ih1, Option.map_some]
      | none =>
        rw [hdy] at hD
        simp only []
        exact ih3 y D hD

/-! ### the walk into a subtree -/

mutual
def downW (a : Arena) : RTI → List (Nat × Int) → Int → QR (List (Nat × Int))
  | .node i [], acc, L => .ok (kvInsert acc i L)
  | .node _ (k :: ks), acc, L => downWL a (k :: ks) acc L
def downWL (a : Arena) : List RTI → List (Nat × Int) → Int → QR (List (Nat × Int))
  | [], acc, _ => .ok acc
  | k :: ks, acc, L =>
    match (nd a (rid k)).pedge with
    | none => .err "MissingBranchLengths"
    | some l => (downW a k acc (L + l)) >>= fun acc1 => downWL a ks acc1 L
end

theorem downW_leaf (a) (i : Nat) (acc L) : downW a (.node i []) acc L = .ok (kvInsert acc i L) := by rw [downW]
theorem downW_cons (a) (i : Nat) (k : RTI) (ks : List RTI) (acc L) :
    downW a (.node i (k :: ks)) acc L = downWL a (k :: ks) acc L := by rw [downW]
theorem downWL_nil (a) (acc L) : downWL a [] acc L = .ok acc := by rw [downWL]
theorem downWL_cons (a) (k : RTI) (ks : List RTI) (acc L) :
    downWL a (k :: ks) acc L = match (nd a (rid k)).pedge with
      | none => .err "MissingBranchLengths"
      | some l => (downW a k acc (L + l)) >>= fun acc1 => downWL a ks acc1 L := by rw [downWL]

theorem downWL_append (a) : ∀ (l1 l2 : List RTI) (acc : List (Nat × Int)) (L : Int),
    downWL a (l1 ++ l2) acc L = (downWL a l1 acc L) >>= fun acc1 => downWL a l2 acc1 L
  | [], l2, acc, L => by rw [downWL_nil]; rfl
  | k :: l1, l2, acc, L => by
    rw [List.cons_append, downWL_cons, downWL_cons]
    cases (nd a (rid k)).pedge with
    | none => rfl
    | some l =>
      simp only []
      cases downW a k acc (L + l) with
      | ok acc1 => simp only [QR.bind_ok]; exact downWL_append a l1 l2 acc1 L
      | err e => rfl
      | panic => rfl

/-! ### the climb from a tip -/

mutual
def upW (a : Arena) (x : Nat) : RTI → List (Nat × Int) → QR (List (Nat × Int) × Int)
  | .node _ [], acc => .ok (acc, 0)
  | .node _ (k :: ks), acc => upWL a x [] (k :: ks) acc
def upWL (a : Arena) (x : Nat) : List RTI → List RTI → List (Nat × Int) → QR (List (Nat × Int) × Int)
  | _, [], _ => .err "panic-unreachable"
  | left, k :: ks, acc =>
    if x ∈ leafR k then
      (upW a x k acc) >>= fun r =>
        match (nd a (rid k)).pedge with
        | none => .err "MissingBranchLengths"
        | some e => (downWL a (left ++ ks) r.1 (r.2 + e)) >>= fun acc2 => .ok (acc2, r.2 + e)
    else upWL a x (left ++ [k]) ks acc
end

theorem upW_leaf (a) (x i : Nat) (acc) : upW a x (.node i []) acc = .ok (acc, 0) := by rw [upW]
theorem upW_cons (a) (x i : Nat) (k : RTI) (ks : List RTI) (acc) :
    upW a x (.node i (k :: ks)) acc = upWL a x [] (k :: ks) acc := by rw [upW]
theorem upWL_nil (a) (x : Nat) (left : List RTI) (acc) : upWL a x left [] acc = .err "panic-unreachable" := by rw [upWL]
theorem upWL_cons (a) (x : Nat) (left : List RTI) (k : RTI) (ks : List RTI) (acc) :
    upWL a x left (k :: ks) acc =
      if x ∈ leafR k then
        (upW a x k acc) >>= fun r =>
          match (nd a (rid k)).pedge with
          | none => .err "MissingBranchLengths"
          | some e => (downWL a (left ++ ks) r.1 (r.2 + e)) >>= fun acc2 => .ok (acc2, r.2 + e)
      else upWL a x (left ++ [k]) ks acc := by rw [upWL]

/-! ### every branch of the tree carries a length -/

mutual
def allLensW (a : Arena) : RTI → Bool
  | .node _ ks => allLensWL a ks
def allLensWL (a : Arena) : List RTI → Bool
  | [] => true
  | k :: ks => (nd a (rid k)).pedge.isSome && allLensW a k && allLensWL a ks
end

theorem allLensW_node (a) (i : Nat) (ks : List RTI) : allLensW a (.node i ks) = allLensWL a ks := by rw [allLensW]
theorem allLensWL_nil (a) : allLensWL a [] = true := by rw [allLensWL]
theorem allLensWL_cons (a) (k : RTI) (ks : List RTI) :
    allLensWL a (k :: ks) = ((nd a (rid k)).pedge.isSome && allLensW a k && allLensWL a ks) := by rw [allLensWL]

theorem allLensWL_append (a) : ∀ (l1 l2 : List RTI), allLensWL a (l1 ++ l2) = (allLensWL a l1 && allLensWL a l2)
  | [], l2 => by rw [allLensWL_nil]; rfl
  | k :: l1, l2 => by
    rw [List.cons_append, allLensWL_cons, allLensWL_cons, allLensWL_append a l1 l2]
    simp [Bool.and_assoc]

theorem roseOf_len (a : Arena) (t : RTI) : (roseOf a t).len = (nd a (rid t)).pedge := by
  cases t with | node i ks => rw [roseOf_node]; rfl

mutual
theorem allLens_roseOf (a : Arena) : ∀ t : RTI, allLens (roseOf a t) = allLensW a t
  | .node i ks => by rw [roseOf_node, allLens, allLensW_node]; exact allLensL_roseOfL a ks
theorem allLensL_roseOfL (a : Arena) : ∀ ks : List RTI, allLensL (roseOfL a ks) = allLensWL a ks
  | [] => by rw [roseOfL_nil, allLensL, allLensWL_nil]
  | k :: ks => by
    rw [roseOfL_cons, allLensL, allLensWL_cons, roseOf_len, allLens_roseOf a k, allLensL_roseOfL a ks]
end

/-! ### refusal: a branch without a length inside the tree -/

mutual
/-- the walk into a subtree succeeds exactly when every branch inside it carries a length -/
theorem downW_dich (a : Arena) : ∀ (t : RTI) (acc : List (Nat × Int)) (L : Int),
    (allLensW a t = true ∧ ∃ acc', downW a t acc L = .ok acc') ∨
    (allLensW a t = false ∧ downW a t acc L = .err "MissingBranchLengths")
  | .node i [], acc, L => by
    left; rw [allLensW_node, allLensWL_nil, downW_leaf]; exact ⟨rfl, _, rfl⟩
  | .node i (k :: ks), acc, L => by
    rw [allLensW_node, downW_cons]; exact downWL_dich a (k :: ks) acc L
theorem downWL_dich (a : Arena) : ∀ (ks : List RTI) (acc : List (Nat × Int)) (L : Int),
    (allLensWL a ks = true ∧ ∃ acc', downWL a ks acc L = .ok acc') ∨
    (allLensWL a ks = false ∧ downWL a ks acc L = .err "MissingBranchLengths")
  | [], acc, L => by left; rw [allLensWL_nil, downWL_nil]; exact ⟨rfl, _, rfl⟩
  | k :: ks, acc, L => by
    rw [allLensWL_cons, downWL_cons]
    cases hp : (nd a (rid k)).pedge with
    | none => right; simp
    | some l =>
      simp only [Option.isSome_some, Bool.true_and]
      rcases downW_dich a k acc (L + l) with ⟨h1, acc1, h2⟩ | ⟨h1, h2⟩
      · rw [h1, h2]
        simp only [QR.bind_ok, Bool.true_and]
        exact downWL_dich a ks acc1 L
      · right; rw [h1, h2]; exact ⟨rfl, rfl⟩
end

mutual
/-- the climb from a tip of the tree succeeds exactly when every branch inside the tree carries a length -/
theorem upW_dich (a : Arena) (x : Nat) : ∀ (t : RTI) (acc : List (Nat × Int)), x ∈ leafR t →
    (allLensW a t = true ∧ ∃ r, upW a x t acc = .ok r) ∨
    (allLensW a t = false ∧ upW a x t acc = .err "MissingBranchLengths")
  | .node i [], acc, _ => by
    left; rw [allLensW_node, allLensWL_nil, upW_leaf]; exact ⟨rfl, _, rfl⟩
  | .node i (k :: ks), acc, hx => by
    rw [leafR_cons] at hx
    rw [allLensW_node, upW_cons]
    have := upWL_dich a x [] (k :: ks) acc hx
    simpa using this
theorem upWL_dich (a : Arena) (x : Nat) : ∀ (left right : List RTI) (acc : List (Nat × Int)), x ∈ leafRL right →
    (allLensWL a (left ++ right) = true ∧ ∃ r, upWL a x left right acc = .ok r) ∨
    (allLensWL a (left ++ right) = false ∧ upWL a x left right acc = .err "MissingBranchLengths")
  | left, [], acc, hx => by rw [leafRL_nil] at hx; simp at hx
  | left, k :: ks, acc, hx => by
    rw [upWL_cons]
    by_cases hk : x ∈ leafR k
    · simp only [hk, ↓reduceIte]
      have hsplit : allLensWL a (left ++ k :: ks)
          = ((nd a (rid k)).pedge.isSome && allLensW a k && allLensWL a (left ++ ks)) := by
        rw [allLensWL_append, allLensWL_cons, allLensWL_append]
        cases (nd a (rid k)).pedge.isSome <;> cases allLensW a k <;> cases allLensWL a left <;> simp
      rw [hsplit]
      rcases upW_dich a x k acc hk with ⟨h1, r, h2⟩ | ⟨h1, h2⟩
      · rw [h1, h2]
        simp only [QR.bind_ok]
        cases hp : (nd a (rid k)).pedge with
        | none => right; simp
        | some e =>
          simp only [Option.isSome_some, Bool.true_and]
          rcases downWL_dich a (left ++ ks) r.1 (r.2 + e) with ⟨h3, acc2, h4⟩ | ⟨h3, h4⟩
          · left; rw [h3, h4]; exact ⟨rfl, _, rfl⟩
          · right; rw [h3, h4]; exact ⟨rfl, rfl⟩
      · right; rw [h1, h2]; simp
    · simp only [hk, ↓reduceIte]
      rw [leafRL_cons, List.mem_append] at hx
      have hx' : x ∈ leafRL ks := hx.resolve_left hk
      have := upWL_dich a x (left ++ [k]) ks acc hx'
      rwa [List.append_assoc, List.singleton_append] at this
end

/-! ### what the walk records -/

/-- the length of the branch above a node, as the weights of the integer mirror (`DMF.wOf a 0`) -/
theorem wOf_some {a : Arena} {i : Nat} {l : Int} (h : (nd a i).pedge = some l) : wOf a 0 i = l := by
  simp [wOf, h]

mutual
/-- the walk into a subtree records at every tip of it the accumulated length plus the depth of the tip, and
    touches no other entry -/
theorem downW_sem (a : Arena) : ∀ (t : RTI) (acc acc' : List (Nat × Int)) (L : Int), (leafR t).Nodup →
    downW a t acc L = .ok acc' →
    ∀ y, (y ∈ leafR t → ∃ d, depthW (wOf a 0) t y = some d ∧ kvGet acc' y = some (L + d)) ∧
         (y ∉ leafR t → kvGet acc' y = kvGet acc y)
  | .node i [], acc, acc', L, _, h, y => by
    rw [downW_leaf] at h
    simp only [QR.ok.injEq] at h
    subst h
    rw [leafR_leaf, depthW_leaf]
    constructor
    · intro hy
      simp only [List.mem_singleton] at hy
      subst hy
      exact ⟨0, by simp, by simp [kvGet_kvInsert]⟩
    · intro hy
      simp only [List.mem_singleton] at hy
      rw [kvGet_kvInsert, if_neg hy]
  | .node i (k :: ks), acc, acc', L, hn, h, y => by
    rw [downW_cons] at h
    rw [leafR_cons] at hn ⊢
    rw [depthW_cons]
    exact downWL_sem a (k :: ks) acc acc' L hn h y
theorem downWL_sem (a : Arena) : ∀ (ks : List RTI) (acc acc' : List (Nat × Int)) (L : Int), (leafRL ks).Nodup →
    downWL a ks acc L = .ok acc' →
    ∀ y, (y ∈ leafRL ks → ∃ d, depthWL (wOf a 0) ks y = some d ∧ kvGet acc' y = some (L + d)) ∧
         (y ∉ leafRL ks → kvGet acc' y = kvGet acc y)
  | [], acc, acc', L, _, h, y => by
    rw [downWL_nil] at h
    simp only [QR.ok.injEq] at h
    subst h
    rw [leafRL_nil]
    simp
  | k :: ks, acc, acc', L, hn, h, y => by
    rw [downWL_cons] at h
    rw [leafRL_cons, List.nodup_append] at hn
    cases hp : (nd a (rid k)).pedge with
    | none => rw [hp] at h; cases h
    | some l =>
      rw [hp] at h
      simp only [] at h
      cases h1 : downW a k acc (L + l) with
      | err e => rw [h1] at h; cases h
      | panic => rw [h1] at h; cases h
      | ok acc1 =>
        rw [h1] at h
        simp only [QR.bind_ok] at h
        have s1 := downW_sem a k acc acc1 (L + l) hn.1 h1 y
        have s2 := downWL_sem a ks acc1 acc' L hn.2.1 h y
        rw [leafRL_cons, depthWL_cons]
        constructor
        · intro hy
          rw [List.mem_append] at hy
          by_cases hyk : y ∈ leafR k
          · obtain ⟨d, hd, hg⟩ := s1.1 hyk
            have hy2 : y ∉ leafRL ks := fun hc => hn.2.2 y hyk y hc rfl
            refine ⟨d + wOf a 0 (rid k), by rw [hd], ?_⟩
            rw [s2.2 hy2, hg, wOf_some hp]
            congr 1; omega
          · have hy2 : y ∈ leafRL ks := hy.resolve_left hyk
            obtain ⟨d, hd, hg⟩ := s2.1 hy2
            exact ⟨d, by rw [depthW_none _ k y hyk]; exact hd, hg⟩
        · intro hy
          rw [List.mem_append, not_or] at hy
          rw [s2.2 hy.2, s1.2 hy.1]
end

mutual
/-- **the climb from the tip `x` of `t`** returns the depth of `x` in `t` and a cache that holds, for every other tip
    `y` of `t`, the path length between `x` and `y` -/
theorem upW_sem (a : Arena) (x : Nat) : ∀ (t : RTI) (acc acc' : List (Nat × Int)) (d : Int), (leafR t).Nodup →
    x ∈ leafR t → upW a x t acc = .ok (acc', d) →
    depthW (wOf a 0) t x = some d ∧
      ∀ y, y ∈ leafR t → y ≠ x → ∃ v, kvGet acc' y = some v ∧ pathW (wOf a 0) t x y = some v
  | .node i [], acc, acc', d, _, hx, h => by
    rw [upW_leaf] at h
    simp only [QR.ok.injEq, Prod.mk.injEq] at h
    rw [leafR_leaf] at hx ⊢
    simp only [List.mem_singleton] at hx
    subst hx
    refine ⟨by rw [depthW_leaf]; simp [h.2.symm], ?_⟩
    intro y hy hne
    simp only [List.mem_singleton] at hy
    exact absurd hy hne
  | .node i (k :: ks), acc, acc', d, hn, hx, h => by
    rw [upW_cons] at h
    rw [leafR_cons] at hn hx ⊢
    rw [depthW_cons]
    have := upWL_sem a x [] (k :: ks) acc acc' d (by simpa using hn) hx h
    simp only [List.nil_append] at this
    obtain ⟨h1, h2⟩ := this
    refine ⟨h1, ?_⟩
    intro y hy hne
    rw [pathW_node]
    exact h2 y hy hne
theorem upWL_sem (a : Arena) (x : Nat) : ∀ (left right : List RTI) (acc acc' : List (Nat × Int)) (d : Int),
    (leafRL (left ++ right)).Nodup → x ∈ leafRL right → upWL a x left right acc = .ok (acc', d) →
    depthWL (wOf a 0) (left ++ right) x = some d ∧
      ∀ y, y ∈ leafRL (left ++ right) → y ≠ x →
        ∃ v, kvGet acc' y = some v ∧ pathWL (wOf a 0) (left ++ right) x y = some v
  | left, [], acc, acc', d, _, hx, _ => by rw [leafRL_nil] at hx; simp at hx
  | left, k :: ks, acc, acc', d, hn, hx, h => by
    rw [upWL_cons] at h
    by_cases hk : x ∈ leafR k
    · simp only [hk, ↓reduceIte] at h
      cases h1 : upW a x k acc with
      | err e => rw [h1] at h; cases h
      | panic => rw [h1] at h; cases h
      | ok r =>
        obtain ⟨acc1, d1⟩ := r
        rw [h1] at h
        simp only [QR.bind_ok] at h
        cases hp : (nd a (rid k)).pedge with
        | none => rw [hp] at h; cases h
        | some e =>
          rw [hp] at h
          simp only [] at h
          cases h2 : downWL a (left ++ ks) acc1 (d1 + e) with
          | err e' => rw [h2] at h; cases h
          | panic => rw [h2] at h; cases h
          | ok acc2 =>
            rw [h2] at h
            simp only [QR.bind_ok, QR.ok.injEq, Prod.mk.injEq] at h
            obtain ⟨rfl, rfl⟩ := h
            -- duplicate-freeness of the parts
            have hnk : (leafR k).Nodup := by
              rw [leafRL_append, leafRL_cons] at hn
              exact ((List.nodup_append.1 (List.nodup_append.1 hn).2.1).1)
            have hnrest : (leafRL (left ++ ks)).Nodup := by
              rw [leafRL_append, leafRL_cons] at hn
              rw [leafRL_append]
              have h' := List.nodup_append.1 hn
              have h'' := List.nodup_append.1 h'.2.1
              rw [List.nodup_append]
              refine ⟨h'.1, h''.2.1, ?_⟩
              intro u hu v hv
              exact h'.2.2 u hu v (by simp [hv])
            have hdisj : ∀ y, y ∈ leafR k → y ∉ leafRL (left ++ ks) := by
              intro y hy hc
              rw [leafRL_append, leafRL_cons] at hn
              rw [leafRL_append, List.mem_append] at hc
              have h' := List.nodup_append.1 hn
              have h'' := List.nodup_append.1 h'.2.1
              rcases hc with hc | hc
              · exact h'.2.2 y hc y (by simp [hy]) rfl
              · exact h''.2.2 y hy y hc rfl
            obtain ⟨s1, s2⟩ := upW_sem a x k acc acc1 d1 hnk hk h1
            have sd := downWL_sem a (left ++ ks) acc1 acc2 (d1 + e) hnrest h2
            obtain ⟨p1, p2, p3⟩ := pathWL_split (wOf a 0) k ks x d1 s1 left hn
            rw [wOf_some hp] at p1 p3
            refine ⟨p1, ?_⟩
            intro y hy hne
            by_cases hyk : y ∈ leafR k
            · obtain ⟨v, hv1, hv2⟩ := s2 y hyk hne
              refine ⟨v, ?_, ?_⟩
              · rw [(sd y).2 (hdisj y hyk)]; exact hv1
              · rw [p2 y hyk]; exact hv2
            · have hy' : y ∈ leafRL (left ++ ks) := by
                rw [leafRL_append, leafRL_cons] at hy
                rw [leafRL_append]
                simp only [List.mem_append] at hy ⊢
                rcases hy with hy | hy | hy
                · exact Or.inl hy
                · exact absurd hy hyk
                · exact Or.inr hy
              obtain ⟨D, hD, hg⟩ := (sd y).1 hy'
              exact ⟨(d1 + e) + D, hg, p3 y D hD⟩
    · simp only [hk, ↓reduceIte] at h
      rw [leafRL_cons, List.mem_append] at hx
      have hx' : x ∈ leafRL ks := hx.resolve_left hk
      have := upWL_sem a x (left ++ [k]) ks acc acc' d
        (by rwa [List.append_assoc, List.singleton_append]) hx' h
      rwa [List.append_assoc, List.singleton_append] at this
end

end DMF
