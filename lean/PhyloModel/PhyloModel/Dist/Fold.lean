import PhyloModel.Arena.Abs
import PhyloModel.Dist.Basic
import PhyloModel.Misc.MatrixStore
/-! Executable models of the two distance-matrix computations of `Tree`.

* `dmFast`: `Tree::distance_matrix` as it is written — a fold over the REVERSED level order of the arena, with
  the per-node `subtree_distances` caches and the keyed accumulation into the triangular vector; a missing
  branch length counts as 1 (`unit` in scaled integers), as in the code.
* `dmRose`: the same contributions computed by structural recursion on the rose tree (`DM.pairs`), for which
  `DM.pairs_correct` / `DM.keys_pairs` prove that every ordered leaf pair receives exactly one contribution,
  equal to its path length.
* `dmRecursive`: `Tree::distance_matrix_recursive` (path length from every tip, error if a length is missing). -/
namespace DMF
open AR

structure FState where
  sd : Array (Option (List (Nat × Int)))
  pw : Array Int

def kvInsert (m : List (Nat × Int)) (k : Nat) (v : Int) : List (Nat × Int) := (k, v) :: m.filter (fun p => p.1 != k)
def kvGet (m : List (Nat × Int)) (k : Nat) : Option Int := (m.find? (fun p => p.1 == k)).map (·.2)

def pairsOfList : List Nat → List (Nat × Nat)
  | [] => []
  | x :: xs => xs.map (fun y => (x, y)) ++ pairsOfList xs

/-- one iteration of the main loop of `distance_matrix` -/
def dmStep (a : Arena) (unit : Int) (idxOf : Nat → Option Nat) (st : QR FState) (node : Nat) : QR FState := do
  let st ← st
  let n ← get a node
  let cache0 : List (Nat × Int) := if n.children.isEmpty then [(node, 0)] else []
  -- distances from the current node to the leaves below it
  let cache ← n.children.foldlM (fun (cache : List (Nat × Int)) c => do
      let cn ← get a c
      let clen := cn.pedge.getD unit
      let sub ← QR.ofOpt ((st.sd.getD c none)) "MissingBranchLengths"
      pure (sub.foldl (fun cache p => kvInsert cache p.1 (clen + p.2)) cache)) cache0
  -- distances between leaves of different children
  let pw ← (pairsOfList n.children).foldlM (fun (pw : Array Int) (cc : Nat × Nat) => do
      let s1 ← QR.ofOpt (st.sd.getD cc.1 none) "MissingBranchLengths"
      let s2 ← QR.ofOpt (st.sd.getD cc.2 none) "MissingBranchLengths"
      s1.foldlM (fun pw p1 => s2.foldlM (fun (pw : Array Int) p2 => do
        let d1 ← QR.ofOpt (kvGet cache p1.1) "panic-unwrap"
        let d2 ← QR.ofOpt (kvGet cache p2.1) "panic-unwrap"
        let i ← QR.ofOpt (idxOf p1.1) "NodeNotFound"
        let j ← QR.ofOpt (idxOf p2.1) "NodeNotFound"
        let k := MX.cell i j
        pure (pw.setIfInBounds k (pw.getD k 0 + (d1 + d2)))) pw) pw) st.pw
  pure { sd := st.sd.setIfInBounds node (some cache), pw := pw }

def nameLe (x y : Option String) : Bool :=
  match x, y with
  | none, _ => true
  | some _, none => false
  | some p, some q => decide (p ≤ q)

/-- `Tree::distance_matrix` (repaired: unnamed leaves are an error, an empty tree has no pairs) -/
def dmFast (a : Arena) (unit : Int) : QR (List String × List Int) := do
  let order := (leaves a).mergeSort (fun x y => nameLe (nd a x).name (nd a y).name)
  if order.any (fun l => (nd a l).name.isNone) then .err "UnnamedLeaves" else
  let n := order.length
  let idxOf (leaf : Nat) : Option Nat := let i := order.findIdx (· == leaf); if i < n then some i else none
  let r ← root a
  let lo ← QR.ofOpt (levelorder a r) "NodeNotFound"
  let st ← lo.reverse.foldl (dmStep a unit idxOf) (.ok { sd := Array.replicate a.size none, pw := Array.replicate (Tri.T n) 0 })
  pure (order.map (fun l => ((nd a l).name).getD ""), st.pw.toList)

/-- arena → `DM.RT` (a missing length is `unit`) -/
def absDM (unit : Int) : Rose → DM.RT
  | .node i _ l _ ks => .node i ((l.getD unit : Int) : Rat) (absDML unit ks)
where absDML (unit : Int) : List Rose → List DM.RT
  | [] => []
  | k :: ks => absDM unit k :: absDML unit ks

mutual
def tipsWithNames : Rose → List (Nat × Option String)
  | .node i n _ _ [] => [(i, n)]
  | .node _ _ _ _ (k :: ks) => tipsWithNamesL (k :: ks)
def tipsWithNamesL : List Rose → List (Nat × Option String)
  | [] => []
  | k :: ks => tipsWithNames k ++ tipsWithNamesL ks
end

mutual
def allLens : Rose → Bool
  | .node _ _ _ _ ks => allLensL ks
def allLensL : List Rose → Bool
  | [] => true
  | k :: ks => k.len.isSome && allLens k && allLensL ks
end

def ratToInt (r : Rat) : Int := r.num / r.den

/-- the matrix from a pairwise function on leaf ids, taxa in sorted order, cells in triangular order -/
def matrixOf (t : Rose) (f : Nat → Nat → Option Rat) : QR (List String × List Int) := do
  let tips := tipsWithNames t
  if tips.any (fun p => p.2.isNone) then .err "UnnamedLeaves" else
  let sorted := tips.mergeSort (fun x y => nameLe x.2 y.2)
  let n := sorted.length
  let cells ← (List.range n).foldlM (fun (acc : List Int) i =>
      (List.range i).foldlM (fun (acc : List Int) j => do
        let v ← QR.ofOpt (f ((sorted.getD i (0, none)).1) ((sorted.getD j (0, none)).1)) "MissingBranchLengths"
        pure (acc ++ [ratToInt v])) acc) []
  pure (sorted.map (fun p => p.2.getD ""), cells)

/-- the fast algorithm's contributions by structural recursion: sum of the contributions keyed by the pair -/
def dmRose (a : Arena) (unit : Int) : QR (List String × List Int) := do
  let t ← absRoot a
  let ps := DM.pairs (absDM unit t)
  matrixOf t (fun x y =>
    let cs := ps.filter (fun p => (p.1.1 == x && p.1.2 == y) || (p.1.1 == y && p.1.2 == x))
    some (cs.foldl (fun s p => s + p.2) 0))

/-- `Tree::distance_matrix_recursive`: true path lengths, refused when a branch lacks a length or leaf names
    are missing / duplicated -/
def dmRecursive (a : Arena) : QR (List String × List Int) := do
  -- an arena whose nodes were all removed has no leaves: the crate returns the empty matrix
  if a.size ≠ 0 ∧ (getRoot a).isNone then .ok ([], []) else
  let t ← absRoot a
  let names := (tipsWithNames t).map (·.2)
  if names.any Option.isNone then .err "UnnamedLeaves" else
  if (names.filterMap id).eraseDups.length != names.length then .err "DuplicateLeafNames" else
  if !allLens t then .err "MissingBranchLengths" else
  matrixOf t (fun x y => DM.pathLen (absDM 0 t) x y)

end DMF
