import PhyloModel.Dist.Fold
import PhyloModel.Dist.CSum
import PhyloModel.Arena.QRLemmas
/-! # Step 2 of the `dmFast` proof: one iteration of the main loop

`DMF.dmStep` at a node whose children all carry a correct `subtree_distances` cache (a permutation of the
integer cache `DMW.cacheW` of the child's tree) stores a correct cache at the node, leaves all other caches
alone, and adds to the triangular vector exactly the contributions `DMW.crossWL` of the node. -/
namespace DMF
open AR DMW

/-! ### generic: a monadic fold all of whose steps succeed is a pure fold -/

theorem foldlM_ok {α β : Type} (f : β → α → QR β) (g : β → α → β) : ∀ (l : List α) (acc : β),
    (∀ x ∈ l, ∀ b, f b x = .ok (g b x)) → l.foldlM f acc = .ok (l.foldl g acc)
  | [], acc, _ => rfl
  | x :: l, acc, h => by
    rw [List.foldlM_cons, h x (by simp) acc]
    exact foldlM_ok f g l (g acc x) (fun y hy b => h y (by simp [hy]) b)

/-! ### the key/value list used for `subtree_distances` -/

theorem kvInsert_fresh (m : List (Nat × Int)) (k : Nat) (v : Int) (h : k ∉ ckeysI m) :
    kvInsert m k v = (k, v) :: m := by
  simp only [kvInsert, List.cons.injEq, true_and, List.filter_eq_self]
  intro p hp
  simp only [bne_iff_ne, ne_eq]
  intro e
  exact h (by simp only [ckeysI, List.mem_map]; exact ⟨p, hp, e⟩)

theorem foldl_kvInsert_fresh (d : Int) : ∀ (sub acc : List (Nat × Int)), (ckeysI sub ++ ckeysI acc).Nodup →
    sub.foldl (fun cache p => kvInsert cache p.1 (d + p.2)) acc = (shiftI d sub).reverse ++ acc
  | [], acc, _ => by simp [shiftI]
  | p :: sub, acc, h => by
    have hp : p.1 ∉ ckeysI acc := by
      simp only [ckeysI, List.map_cons, List.cons_append, List.nodup_cons, List.mem_append] at h
      exact fun hm => h.1 (Or.inr hm)
    have h' : (ckeysI sub ++ ckeysI ((p.1, d + p.2) :: acc)).Nodup := by
      simp only [ckeysI, List.map_cons, List.cons_append, List.nodup_cons, List.mem_append, List.nodup_append,
        List.mem_cons] at h ⊢
      grind
    rw [List.foldl_cons, kvInsert_fresh _ _ _ hp, foldl_kvInsert_fresh d sub _ h']
    simp [shiftI]

theorem kvGet_mem : ∀ (m : List (Nat × Int)) (k : Nat) (v : Int), (ckeysI m).Nodup → (k, v) ∈ m →
    kvGet m k = some v
  | [], _, _, _, h => by simp at h
  | p :: m, k, v, hn, h => by
    simp only [ckeysI, List.map_cons, List.nodup_cons, List.mem_map, not_exists, not_and] at hn
    simp only [List.mem_cons] at h
    simp only [kvGet, List.find?_cons]
    rcases h with rfl | h
    · simp
    · have hne : p.1 ≠ k := fun e => hn.1 (k, v) h e.symm
      have : (p.1 == k) = false := by simp [hne]
      rw [this]
      have ih := kvGet_mem m k v hn.2 h
      simpa [kvGet] using ih

/-! ### `dmStep` with its loop bodies named -/

def cacheBody (a : Arena) (unit : Int) (sd : Array (Option (List (Nat × Int)))) (cache : List (Nat × Int))
    (c : Nat) : QR (List (Nat × Int)) := do
  let cn ← get a c
  let clen := cn.pedge.getD unit
  let sub ← QR.ofOpt ((sd.getD c none)) "MissingBranchLengths"
  pure (sub.foldl (fun cache p => kvInsert cache p.1 (clen + p.2)) cache)

def pwCell (idxOf : Nat → Option Nat) (cache : List (Nat × Int)) (p1 p2 : Nat × Int) (pw : Array Int) :
    QR (Array Int) := do
  let d1 ← QR.ofOpt (kvGet cache p1.1) "panic-unwrap"
  let d2 ← QR.ofOpt (kvGet cache p2.1) "panic-unwrap"
  let i ← QR.ofOpt (idxOf p1.1) "NodeNotFound"
  let j ← QR.ofOpt (idxOf p2.1) "NodeNotFound"
  let k := MX.cell i j
  pure (pw.setIfInBounds k (pw.getD k 0 + (d1 + d2)))

def pwBody (sd : Array (Option (List (Nat × Int)))) (idxOf : Nat → Option Nat) (cache : List (Nat × Int))
    (pw : Array Int) (cc : Nat × Nat) : QR (Array Int) := do
  let s1 ← QR.ofOpt (sd.getD cc.1 none) "MissingBranchLengths"
  let s2 ← QR.ofOpt (sd.getD cc.2 none) "MissingBranchLengths"
  s1.foldlM (fun pw p1 => s2.foldlM (fun (pw : Array Int) p2 => pwCell idxOf cache p1 p2 pw) pw) pw

theorem dmStep_eq (a : Arena) (unit : Int) (idxOf : Nat → Option Nat) (st : FState) (node : Nat) :
    dmStep a unit idxOf (.ok st) node = (do
      let n ← get a node
      let cache0 : List (Nat × Int) := if n.children.isEmpty then [(node, 0)] else []
      let cache ← n.children.foldlM (cacheBody a unit st.sd) cache0
      let pw ← (pairsOfList n.children).foldlM (pwBody st.sd idxOf cache) st.pw
      pure { sd := st.sd.setIfInBounds node (some cache), pw := pw }) := rfl

/-! ### the cache loop -/

/-- length of the edge above slot `c` as the loop reads it (a missing length counts as `unit`) -/
def wOf (a : Arena) (unit : Int) (c : Nat) : Int := (nd a c).pedge.getD unit

theorem cacheBody_ok {a : Arena} {unit : Int} {sd : Array (Option (List (Nat × Int)))} {acc m : List (Nat × Int)}
    {c : Nat} (hl : live a c) (hs : sd.getD c none = some m) (hn : (ckeysI m ++ ckeysI acc).Nodup) :
    cacheBody a unit sd acc c = .ok ((shiftI (wOf a unit c) m).reverse ++ acc) := by
  have h1 : isLive a c = true := (isLive_iff a c).2 hl
  simp only [cacheBody, AR.get, h1, ↓reduceIte, hs, QR.ofOpt, QR.bind_ok, QR.pure_eq]
  rw [foldl_kvInsert_fresh _ _ _ hn]
  rfl

theorem perm_rev_mid {α : Type} (S acc R : List α) : ((S.reverse ++ acc) ++ R).Perm (acc ++ (S ++ R)) := by
  rw [List.append_assoc]
  exact ((List.reverse_perm S).append_right _).trans (List.perm_append_comm_assoc _ _ _)

/-- the cache loop over the children `cs`, the caches of which are `m c` with pairwise disjoint, duplicate-free
    key sets that are also disjoint from the keys of the starting value -/
theorem cacheLoop_ok {a : Arena} {unit : Int} {sd : Array (Option (List (Nat × Int)))} (m : Nat → List (Nat × Int)) :
    ∀ (cs : List Nat) (acc : List (Nat × Int)), (∀ c ∈ cs, live a c) → (∀ c ∈ cs, sd.getD c none = some (m c)) →
      (ckeysI acc ++ cs.flatMap (fun c => ckeysI (m c))).Nodup →
      ∃ cache, cs.foldlM (cacheBody a unit sd) acc = .ok cache ∧
        cache.Perm (acc ++ cs.flatMap (fun c => shiftI (wOf a unit c) (m c)))
  | [], acc, _, _, _ => ⟨acc, rfl, by simp⟩
  | c :: cs, acc, hl, hs, hn => by
    have hn1 : (ckeysI (m c) ++ ckeysI acc).Nodup := by
      simp only [List.flatMap_cons, List.nodup_append, List.mem_append] at hn ⊢
      grind
    have hb := cacheBody_ok (unit := unit) (hl c (by simp)) (hs c (by simp)) hn1
    have hn2 : (ckeysI ((shiftI (wOf a unit c) (m c)).reverse ++ acc) ++ cs.flatMap (fun c => ckeysI (m c))).Nodup := by
      have e : ckeysI ((shiftI (wOf a unit c) (m c)).reverse ++ acc) = (ckeysI (m c)).reverse ++ ckeysI acc := by
        rw [← ckeysI_shiftI (wOf a unit c) (m c)]
        simp [ckeysI]
      rw [e, (perm_rev_mid _ _ _).nodup_iff]
      simpa only [List.flatMap_cons] using hn
    obtain ⟨cache, h1, h2⟩ := cacheLoop_ok m cs _ (fun c' hc' => hl c' (by simp [hc']))
      (fun c' hc' => hs c' (by simp [hc'])) hn2
    refine ⟨cache, ?_, ?_⟩
    · rw [List.foldlM_cons, hb]; exact h1
    · refine h2.trans ?_
      rw [List.flatMap_cons]
      exact perm_rev_mid _ _ _

/-! ### the accumulation loop -/

/-- the cell of an (unordered) pair of leaf ids -/
def keyOf (idxOf : Nat → Option Nat) (p : Nat × Nat) : Nat := MX.cell ((idxOf p.1).getD 0) ((idxOf p.2).getD 0)

theorem pwCell_ok {idxOf : Nat → Option Nat} {cache : List (Nat × Int)} {p1 p2 : Nat × Int} {d1 d2 : Int}
    (h1 : kvGet cache p1.1 = some d1) (h2 : kvGet cache p2.1 = some d2) (hi : (idxOf p1.1).isSome)
    (hj : (idxOf p2.1).isSome) (pw : Array Int) :
    pwCell idxOf cache p1 p2 pw = .ok (addAt pw (keyOf idxOf (p1.1, p2.1)) (d1 + d2)) := by
  obtain ⟨i, hi⟩ := Option.isSome_iff_exists.1 hi
  obtain ⟨j, hj⟩ := Option.isSome_iff_exists.1 hj
  simp only [pwCell, h1, h2, hi, hj, QR.ofOpt, QR.bind_ok, QR.pure_eq, addAt, keyOf, Option.getD_some]

theorem pwBody_ok {sd : Array (Option (List (Nat × Int)))} {idxOf : Nat → Option Nat} {cache : List (Nat × Int)}
    {c1 c2 : Nat} {m1 m2 : List (Nat × Int)} {e1 e2 : Int}
    (hs1 : sd.getD c1 none = some m1) (hs2 : sd.getD c2 none = some m2)
    (hD1 : ∀ p ∈ m1, kvGet cache p.1 = some (e1 + p.2)) (hD2 : ∀ p ∈ m2, kvGet cache p.1 = some (e2 + p.2))
    (hI1 : ∀ p ∈ m1, (idxOf p.1).isSome) (hI2 : ∀ p ∈ m2, (idxOf p.1).isSome) (pw : Array Int) :
    pwBody sd idxOf cache pw (c1, c2) =
      .ok ((crossI (shiftI e1 m1) (shiftI e2 m2)).foldl (fun pw c => addAt pw (keyOf idxOf c.1) c.2) pw) := by
  simp only [pwBody, hs1, hs2, QR.ofOpt, QR.bind_ok]
  rw [foldlM_ok _ (fun pw p1 => m2.foldl (fun pw p2 =>
      addAt pw (keyOf idxOf (p1.1, p2.1)) ((e1 + p1.2) + (e2 + p2.2))) pw)]
  · simp only [crossI, shiftI, List.foldl_flatMap, List.foldl_map]
  · intro p1 hp1 b
    apply foldlM_ok
    intro p2 hp2 b'
    exact pwCell_ok (hD1 p1 hp1) (hD2 p2 hp2) (hI1 p1 hp1) (hI2 p2 hp2) b'

theorem pairsOfList_mem : ∀ (cs : List Nat) (cc : Nat × Nat), cc ∈ pairsOfList cs → cc.1 ∈ cs ∧ cc.2 ∈ cs
  | [], cc, h => by simp [pairsOfList] at h
  | c :: cs, cc, h => by
    simp only [pairsOfList, List.mem_append, List.mem_map] at h
    rcases h with ⟨y, hy, rfl⟩ | h
    · simp [hy]
    · have := pairsOfList_mem cs cc h
      simp [this.1, this.2]

/-- the contributions one iteration makes, in the order the loop makes them -/
def stepCs (e : Nat → Int) (m : Nat → List (Nat × Int)) (cs : List Nat) : List ((Nat × Nat) × Int) :=
  (pairsOfList cs).flatMap (fun cc => crossI (shiftI (e cc.1) (m cc.1)) (shiftI (e cc.2) (m cc.2)))

theorem pwLoop_ok {sd : Array (Option (List (Nat × Int)))} {idxOf : Nat → Option Nat} {cache : List (Nat × Int)}
    (m : Nat → List (Nat × Int)) (e : Nat → Int) (cs : List Nat)
    (hs : ∀ c ∈ cs, sd.getD c none = some (m c))
    (hD : ∀ c ∈ cs, ∀ p ∈ m c, kvGet cache p.1 = some (e c + p.2))
    (hI : ∀ c ∈ cs, ∀ p ∈ m c, (idxOf p.1).isSome) (pw : Array Int) :
    (pairsOfList cs).foldlM (pwBody sd idxOf cache) pw =
      .ok ((stepCs e m cs).foldl (fun pw c => addAt pw (keyOf idxOf c.1) c.2) pw) := by
  rw [foldlM_ok _ (fun pw cc => (crossI (shiftI (e cc.1) (m cc.1)) (shiftI (e cc.2) (m cc.2))).foldl
      (fun pw c => addAt pw (keyOf idxOf c.1) c.2) pw)]
  · simp only [stepCs, List.foldl_flatMap]
  · intro cc hcc b
    obtain ⟨h1, h2⟩ := pairsOfList_mem cs cc hcc
    obtain ⟨c1, c2⟩ := cc
    exact pwBody_ok (hs c1 h1) (hs c2 h2) (hD c1 h1) (hD c2 h2) (hI c1 h1) (hI c2 h2) b

end DMF
