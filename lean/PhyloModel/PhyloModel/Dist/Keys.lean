import PhyloModel.Dist.Lemmas
namespace DM

def prodPairs (l1 l2 : List Nat) : List (Nat × Nat) := l1.flatMap (fun a => l2.map (fun b => (a, b)))

def allPairs : List Nat → List (Nat × Nat)
  | [] => []
  | a :: l => l.map (fun b => (a, b)) ++ allPairs l

theorem prodPairs_cons (a : Nat) (l1 l2 : List Nat) :
    prodPairs (a :: l1) l2 = l2.map (fun b => (a, b)) ++ prodPairs l1 l2 := by
  simp [prodPairs]

theorem allPairs_append (l1 l2 : List Nat) :
    (allPairs (l1 ++ l2)).Perm (allPairs l1 ++ (prodPairs l1 l2 ++ allPairs l2)) := by
  induction l1 with
  | nil => simp [allPairs, prodPairs]
  | cons a l ih =>
    simp only [List.cons_append, allPairs, List.map_append, prodPairs_cons, List.append_assoc]
    apply List.Perm.append_left
    -- goal: map l2 ++ allPairs (l ++ l2) ~ allPairs l ++ (map l2 ++ (prodPairs l l2 ++ allPairs l2))
    have h1 : (l2.map (fun b => (a, b)) ++ allPairs (l ++ l2)).Perm
        (l2.map (fun b => (a, b)) ++ (allPairs l ++ (prodPairs l l2 ++ allPairs l2))) :=
      List.Perm.append_left _ ih
    refine h1.trans ?_
    have h2 : (l2.map (fun b => (a, b)) ++ allPairs l ++ (prodPairs l l2 ++ allPairs l2)).Perm
        (allPairs l ++ l2.map (fun b => (a, b)) ++ (prodPairs l l2 ++ allPairs l2)) :=
      List.Perm.append_right _ List.perm_append_comm
    simpa [List.append_assoc] using h2

def keys (l : List ((Nat × Nat) × Rat)) : List (Nat × Nat) := l.map (·.1)
def ckeys (l : List (Nat × Rat)) : List Nat := l.map (·.1)

theorem ckeys_shift (d : Rat) (c : List (Nat × Rat)) : ckeys (shift d c) = ckeys c := by
  simp [ckeys, shift, List.map_map, Function.comp_def]

theorem keys_cross (c r : List (Nat × Rat)) : keys (cross c r) = prodPairs (ckeys c) (ckeys r) := by
  simp only [keys, cross, prodPairs, ckeys, List.map_flatMap, List.flatMap_map, List.map_map, Function.comp_def]

mutual
theorem ckeys_cache : ∀ t : RT, ckeys (cache t) = leafIds t
  | .node i _ [] => by simp [cache, ckeys, leafIds]
  | .node _ _ (k :: ks) => by simp only [cache, leafIds]; exact ckeys_cacheL (k :: ks)
theorem ckeys_cacheL : ∀ ks : List RT, ckeys (cacheL ks) = leafIdsL ks
  | [] => by simp [cacheL, ckeys, leafIdsL]
  | k :: ks => by
    have h1 := ckeys_cache k
    have h2 := ckeys_cacheL ks
    simp only [cacheL, leafIdsL]
    simp only [ckeys, List.map_append] at *
    rw [← h1, ← h2]
    congr 1
    exact ckeys_shift k.len (cache k)
end

-- the contributions are keyed by exactly the ordered leaf pairs (earlier leaf first), each once
mutual
theorem keys_pairs : ∀ t : RT, (keys (pairs t)).Perm (allPairs (leafIds t))
  | .node i _ [] => by simp [pairs, pairsL, keys, leafIds, allPairs]
  | .node _ _ (k :: ks) => by simp only [pairs, leafIds]; exact keys_pairsL (k :: ks)
theorem keys_pairsL : ∀ ks : List RT, (keys (pairsL ks)).Perm (allPairs (leafIdsL ks))
  | [] => by simp [pairsL, keys, leafIdsL, allPairs]
  | k :: ks => by
    have h1 := keys_pairs k
    have h2 := keys_pairsL ks
    simp only [pairsL, leafIdsL]
    refine List.Perm.trans ?_ (allPairs_append (leafIds k) (leafIdsL ks)).symm
    have hk : keys (pairs k ++ (cross (shift k.len (cache k)) (cacheL ks) ++ pairsL ks))
        = keys (pairs k) ++ (prodPairs (leafIds k) (leafIdsL ks) ++ keys (pairsL ks)) := by
      simp only [keys, List.map_append]
      congr 2
      have := keys_cross (shift k.len (cache k)) (cacheL ks)
      simp only [keys] at this
      rw [this, ckeys_shift, ckeys_cache, ckeys_cacheL]
    rw [hk]
    exact List.Perm.append h1 (List.Perm.append_left _ h2)
end

end DM
