import PhyloModel.Dist.FoldCorrect
/-! Non-vacuity of the hypotheses of `DMF.dmFast_correct` / `dmFast_correct_forest` / `dmFast_ok`: a concrete
    arena built with the model's own constructors, `(x:2,(y:5,z:7))` with the inner edge WITHOUT a length
    (counted as `unit = 10`), satisfies the invariant, has one root, and `dmFast` returns the expected matrix. -/
namespace DMF
open AR DMW

def ex0 : Arena := (add #[] none).1
def ex1 : Arena := (addChildNamed ex0 0 (some 2) (some "x")).1
def ex2 : Arena := (addChildNamed ex1 0 none none).1
def ex3 : Arena := (addChildNamed ex2 2 (some 5) (some "y")).1
def ex4 : Arena := (addChildNamed ex3 2 (some 7) (some "z")).1

theorem ex4_good : Good ex4 :=
  addChildNamed_good _ _ _ (addChildNamed_good _ _ _ (addChildNamed_good _ _ _ (addChildNamed_good _ _ _
    (add_good none empty_good))))

theorem ex4_oneRoot : AtMostOneRoot ex4 := by
  have h0 : AtMostOneRoot ex0 := add_oneRoot none (fun i h => absurd h.1.1 (by simp))
  have r1 : RootsSub ex0 ex1 := addChildNamed_roots _ _ _
  have r2 : RootsSub ex1 ex2 := addChildNamed_roots _ _ _
  have r3 : RootsSub ex2 ex3 := addChildNamed_roots _ _ _
  have r4 : RootsSub ex3 ex4 := addChildNamed_roots _ _ _
  exact (((r1.trans r2).trans r3).trans r4).atMostOne h0

theorem leaves_ex4 : leaves ex4 = [1, 3, 4] := by decide

theorem leafOrder_ex4 : leafOrder ex4 = [1, 3, 4] := by
  rw [leafOrder, leaves_ex4]
  have n1 : (nd ex4 1).name = some "x" := by decide
  have n3 : (nd ex4 3).name = some "y" := by decide
  have n4 : (nd ex4 4).name = some "z" := by decide
  have h : ([1, 3, 4] : List Nat).Pairwise (fun x y => nameLe (nd ex4 x).name (nd ex4 y).name = true) := by
    simp [n1, n3, n4, nameLe]
  exact List.mergeSort_of_pairwise h

/-- the hypotheses of the main theorem hold for a three-taxon tree, with this result -/
theorem dmFast_ex4 : dmFast ex4 10 = .ok (["x", "y", "z"], [17, 19, 12]) := by
  rw [dmFast_eq, leafOrder_ex4]
  rfl

example : ∃ a names cells, Inv a ∧ AtMostOneRoot a ∧ dmFast a 10 = .ok (names, cells) ∧ cells.length = 3 :=
  ⟨ex4, _, _, ex4_good.1, ex4_oneRoot, dmFast_ex4, rfl⟩

/-- totality instantiated (its hypotheses are decidable facts about the example) -/
example : ∃ names cells, dmFast ex4 10 = .ok (names, cells) :=
  dmFast_ok ex4 10 ex4_good.1 (by decide) (by decide)

/-- the main theorem instantiated: the path length between taxon 1 (`y`, slot 3) and taxon 0 (`x`, slot 1)
    in the abstracted tree is the cell `(1, 0)` of the returned vector, `17 = 5 + 10 + 2` -/
example : ∃ t, absRoot ex4 = .ok t ∧ DM.pathLen (absDM 10 t) 3 1 = some 17 := by
  obtain ⟨t, h1, _, _, _, _, _, h7⟩ := dmFast_correct ex4 10 ex4_good.1 ex4_oneRoot _ _ dmFast_ex4
  refine ⟨t, h1, ?_⟩
  have := h7 1 0 (by omega) (by rw [leafOrder_ex4]; decide)
  simp only [leafOrder_ex4] at this
  simpa [MX.cell, Tri.idx] using this

end DMF
