import PhyloModel.Dist.FoldW
import PhyloModel.Misc.MatrixStore
/-! # Keyed sums of contributions and the triangular accumulator

`csum key cs k`: the sum of all contributions of `cs` whose pair is mapped to cell `k` by `key`.  The vector
`pairwise_vec` of `Tree::distance_matrix` is abstracted as "cell `k` holds `csum key cs k` for the list `cs` of
contributions made so far" (`accum_getD`).  When the keys of the contributions are pairwise distinct, a cell
holds the single contribution made for its pair (`csum_unique`); together with `DM.keys_pairs` and
`DM.pairs_correct` that is the path length (`csum_pairs_pathLen`). -/
namespace DMW
open AR

def csum (key : Nat × Nat → Nat) : List ((Nat × Nat) × Int) → Nat → Int
  | [], _ => 0
  | c :: cs, k => (if key c.1 = k then c.2 else 0) + csum key cs k

theorem csum_nil (key : Nat × Nat → Nat) (k : Nat) : csum key [] k = 0 := rfl
theorem csum_cons (key : Nat × Nat → Nat) (c : (Nat × Nat) × Int) (cs) (k : Nat) :
    csum key (c :: cs) k = (if key c.1 = k then c.2 else 0) + csum key cs k := rfl

theorem csum_append (key : Nat × Nat → Nat) : ∀ (l1 l2 : List ((Nat × Nat) × Int)) (k : Nat),
    csum key (l1 ++ l2) k = csum key l1 k + csum key l2 k
  | [], l2, k => by simp [csum_nil]
  | c :: l1, l2, k => by
    simp only [List.cons_append, csum_cons, csum_append key l1 l2 k]; omega

theorem csum_perm (key : Nat × Nat → Nat) {l1 l2 : List ((Nat × Nat) × Int)} (h : l1.Perm l2) (k : Nat) :
    csum key l1 k = csum key l2 k := by
  induction h with
  | nil => rfl
  | cons x _ ih => simp only [csum_cons, ih]
  | swap x y l => simp only [csum_cons]; omega
  | trans _ _ ih1 ih2 => rw [ih1, ih2]

theorem csum_none (key : Nat × Nat → Nat) : ∀ (cs : List ((Nat × Nat) × Int)) (k : Nat), (∀ c ∈ cs, key c.1 ≠ k) → csum key cs k = 0
  | [], _, _ => rfl
  | c :: cs, k, h => by
    have h1 : key c.1 ≠ k := h c (by simp)
    simp only [csum_cons, h1, ↓reduceIte, Int.zero_add]
    exact csum_none key cs k (fun c' hc' => h c' (by simp [hc']))

/-- with pairwise distinct keys a cell holds the contribution made for it -/
theorem csum_unique (key : Nat × Nat → Nat) : ∀ (cs : List ((Nat × Nat) × Int)), (cs.map (fun c => key c.1)).Nodup →
    ∀ c ∈ cs, csum key cs (key c.1) = c.2
  | [], _, c, hc => by simp at hc
  | c0 :: cs, hn, c, hc => by
    simp only [List.map_cons, List.nodup_cons, List.mem_map, not_exists, not_and] at hn
    simp only [List.mem_cons] at hc
    simp only [csum_cons]
    rcases hc with rfl | hc
    · simp only [↓reduceIte]
      rw [csum_none key cs _ (fun c' hc' => hn.1 c' hc')]; omega
    · have hne : key c0.1 ≠ key c.1 := fun e => hn.1 c hc e.symm
      simp only [hne, ↓reduceIte, Int.zero_add]
      exact csum_unique key cs hn.2 c hc

/-! ### the accumulator -/

/-- `pairwise_vec[k] += d` -/
def addAt (pw : Array Int) (k : Nat) (d : Int) : Array Int := pw.setIfInBounds k (pw.getD k 0 + d)

@[simp] theorem addAt_size (pw : Array Int) (k : Nat) (d : Int) : (addAt pw k d).size = pw.size := by
  simp [addAt]

theorem addAt_getD (pw : Array Int) (k : Nat) (d : Int) (k' : Nat) (h : k' < pw.size) :
    (addAt pw k d).getD k' 0 = pw.getD k' 0 + (if k = k' then d else 0) := by
  simp only [addAt, Array.getD_eq_getD_getElem?, Array.getElem?_setIfInBounds]
  by_cases hk : k = k'
  · subst hk; simp [h]
  · simp [hk]

theorem accum_size (key : Nat × Nat → Nat) : ∀ (cs : List ((Nat × Nat) × Int)) (pw : Array Int),
    (cs.foldl (fun pw c => addAt pw (key c.1) c.2) pw).size = pw.size
  | [], pw => rfl
  | c :: cs, pw => by simp only [List.foldl_cons]; rw [accum_size key cs]; simp

/-- after accumulating the contributions `cs`, every cell has grown by its keyed sum -/
theorem accum_getD (key : Nat × Nat → Nat) : ∀ (cs : List ((Nat × Nat) × Int)) (pw : Array Int) (k : Nat), k < pw.size →
    (cs.foldl (fun pw c => addAt pw (key c.1) c.2) pw).getD k 0 = pw.getD k 0 + csum key cs k
  | [], pw, k, _ => by simp [csum_nil]
  | c :: cs, pw, k, h => by
    simp only [List.foldl_cons, csum_cons]
    rw [accum_getD key cs _ k (by simpa using h), addAt_getD pw _ _ k h]
    omega

/-! ### each unordered pair of leaves has its own cell -/

/-- `key` separates the unordered pairs of distinct elements of `O` -/
def KeyInj (key : Nat × Nat → Nat) (O : List Nat) : Prop :=
  ∀ a b a' b', a ∈ O → b ∈ O → a' ∈ O → b' ∈ O → a ≠ b → a' ≠ b' → key (a, b) = key (a', b') →
    (a = a' ∧ b = b') ∨ (a = b' ∧ b = a')

theorem allPairs_mem : ∀ (L : List Nat), L.Nodup → ∀ a b, (a, b) ∈ DM.allPairs L → a ∈ L ∧ b ∈ L ∧ a ≠ b
  | [], _, a, b, h => by simp [DM.allPairs] at h
  | x :: L, hn, a, b, h => by
    simp only [List.nodup_cons] at hn
    simp only [DM.allPairs, List.mem_append, List.mem_map, Prod.mk.injEq] at h
    rcases h with ⟨y, hy, rfl, rfl⟩ | h
    · refine ⟨by simp, by simp [hy], ?_⟩
      intro e; subst e; exact hn.1 hy
    · obtain ⟨h1, h2, h3⟩ := allPairs_mem L hn.2 a b h
      exact ⟨by simp [h1], by simp [h2], h3⟩

theorem allPairs_total : ∀ (L : List Nat) (x y : Nat), x ∈ L → y ∈ L → x ≠ y →
    (x, y) ∈ DM.allPairs L ∨ (y, x) ∈ DM.allPairs L
  | [], _, _, hx, _, _ => by simp at hx
  | z :: L, x, y, hx, hy, hxy => by
    simp only [List.mem_cons] at hx hy
    simp only [DM.allPairs, List.mem_append, List.mem_map, Prod.mk.injEq]
    rcases hx with rfl | hx
    · rcases hy with rfl | hy
      · exact absurd rfl hxy
      · exact Or.inl (Or.inl ⟨y, hy, rfl, rfl⟩)
    · rcases hy with rfl | hy
      · exact Or.inr (Or.inl ⟨x, hx, rfl, rfl⟩)
      · rcases allPairs_total L x y hx hy hxy with h | h
        · exact Or.inl (Or.inr h)
        · exact Or.inr (Or.inr h)

theorem allPairs_key_nodup (key : Nat × Nat → Nat) (O : List Nat) (hk : KeyInj key O) :
    ∀ (L : List Nat), L.Nodup → (∀ x ∈ L, x ∈ O) → ((DM.allPairs L).map key).Nodup
  | [], _, _ => by simp [DM.allPairs]
  | x :: L, hn, hsub => by
    simp only [List.nodup_cons] at hn
    have hxO : x ∈ O := hsub x (by simp)
    have hLO : ∀ y ∈ L, y ∈ O := fun y hy => hsub y (by simp [hy])
    simp only [DM.allPairs, List.map_append, List.map_map]
    rw [List.nodup_append]
    refine ⟨?_, allPairs_key_nodup key O hk L hn.2 hLO, ?_⟩
    · -- the pairs (x, y), y ∈ L
      rw [List.nodup_iff_pairwise_ne, List.pairwise_map]
      refine List.Pairwise.imp_of_mem ?_ (List.nodup_iff_pairwise_ne.1 hn.2)
      intro y y' hy hy' hne e
      simp only [Function.comp_def] at e
      have hxy : x ≠ y := fun e => hn.1 (e ▸ hy)
      have hxy' : x ≠ y' := fun e => hn.1 (e ▸ hy')
      rcases hk x y x y' hxO (hLO y hy) hxO (hLO y' hy') hxy hxy' e with ⟨_, h2⟩ | ⟨h1, _⟩
      · exact hne h2
      · exact hxy' h1
    · intro k1 h1 k2 h2 e
      subst e
      simp only [List.mem_map, Function.comp_def] at h1 h2
      obtain ⟨y, hy, rfl⟩ := h1
      obtain ⟨⟨a', b'⟩, hab, e⟩ := h2
      obtain ⟨ha', hb', hne'⟩ := allPairs_mem L hn.2 a' b' hab
      have hxy : x ≠ y := fun e => hn.1 (e ▸ hy)
      rcases hk a' b' x y (hLO a' ha') (hLO b' hb') hxO (hLO y hy) hne' hxy e with ⟨h1, _⟩ | ⟨_, h2⟩
      · exact hn.1 (h1 ▸ ha')
      · exact hn.1 (h2 ▸ hb')

/-! ### path length is symmetric -/

mutual
theorem pathLen_symm : ∀ (t : DM.RT) (x y : Nat), DM.pathLen t x y = DM.pathLen t y x
  | .node _ _ ks, x, y => by simp only [DM.pathLen]; exact pathLenL_symm ks x y
theorem pathLenL_symm : ∀ (ks : List DM.RT) (x y : Nat), DM.pathLenL ks x y = DM.pathLenL ks y x
  | [], _, _ => by simp [DM.pathLenL]
  | k :: ks, x, y => by
    simp only [DM.pathLenL]
    cases hx : DM.depthTo k x <;> cases hy : DM.depthTo k y <;> simp only []
    · exact pathLenL_symm ks x y
    · congr 1; funext d; rw [Rat.add_comm]
    · congr 1; funext d; rw [Rat.add_comm]
    · exact pathLen_symm k x y
end

/-! ### summary: the accumulated cell of a leaf pair is its path length -/

theorem keys_castP (cs : List ((Nat × Nat) × Int)) : DM.keys (castP cs) = cs.map (·.1) := by
  simp [DM.keys, castP, List.map_map, Function.comp_def]

theorem mem_castP {cs : List ((Nat × Nat) × Int)} {c : (Nat × Nat) × Int} (h : c ∈ cs) :
    (c.1, ((c.2 : Int) : Rat)) ∈ castP cs := by
  simp only [castP, List.mem_map]; exact ⟨c, h, rfl⟩

/-- `cs` is (a permutation of) the contributions of the fast algorithm on `t`; `key` maps an (unordered) pair
    of leaves to its cell, injectively on the leaf list `O ⊇ leaves t`.  Then the cell of two distinct leaves
    of `t` holds their path length. -/
theorem csum_pairs_pathLen (w : Nat → Int) (t : RTI) (hn : (leafR t).Nodup) (key : Nat × Nat → Nat)
    (O : List Nat) (hO : ∀ x ∈ leafR t, x ∈ O) (hinj : KeyInj key O) (hsym : ∀ a b, key (a, b) = key (b, a))
    (cs : List ((Nat × Nat) × Int)) (hcs : cs.Perm (pairsW w t)) (x y : Nat) (hx : x ∈ leafR t)
    (hy : y ∈ leafR t) (hxy : x ≠ y) :
    DM.pathLen (toRT w t) x y = some (((csum key cs (key (x, y)) : Int)) : Rat) := by
  rw [csum_perm key hcs]
  have hkeys : ((pairsW w t).map (·.1)).Perm (DM.allPairs (leafR t)) := by
    have := DM.keys_pairs (toRT w t)
    rwa [pairs_toRT, keys_castP, leafIds_toRT] at this
  have hnd : ((pairsW w t).map (fun c => key c.1)).Nodup := by
    have h1 := allPairs_key_nodup key O hinj (leafR t) hn hO
    have h2 : ((pairsW w t).map (fun c => key c.1)).Perm ((DM.allPairs (leafR t)).map key) := by
      have := hkeys.map key
      simpa [List.map_map, Function.comp_def] using this
    exact h2.nodup_iff.2 h1
  have hnd' : (DM.leafIds (toRT w t)).Nodup := by rw [leafIds_toRT]; exact hn
  have main : ∀ u v, (u, v) ∈ DM.allPairs (leafR t) →
      DM.pathLen (toRT w t) u v = some (((csum key (pairsW w t) (key (u, v)) : Int)) : Rat) := by
    intro u v huv
    have hm := hkeys.mem_iff.2 huv
    simp only [List.mem_map] at hm
    obtain ⟨c, hc, hc1⟩ := hm
    have hcu := csum_unique key _ hnd c hc
    rw [hc1] at hcu
    rw [hcu]
    have hp := mem_castP hc
    rw [← pairs_toRT, hc1] at hp
    exact DM.pairs_correct _ u v _ hnd' hp
  rcases allPairs_total (leafR t) x y hx hy hxy with h | h
  · exact main x y h
  · rw [pathLen_symm, hsym]; exact main y x h

/-- ... and a cell of a pair of leaves of `O` that are not both leaves of `t` receives nothing -/
theorem csum_pairs_zero (w : Nat → Int) (t : RTI) (hn : (leafR t).Nodup) (key : Nat × Nat → Nat)
    (O : List Nat) (hO : ∀ x ∈ leafR t, x ∈ O) (hinj : KeyInj key O)
    (cs : List ((Nat × Nat) × Int)) (hcs : cs.Perm (pairsW w t)) (x y : Nat) (hx : x ∈ O)
    (hy : y ∈ O) (hxy : x ≠ y) (hout : ¬ (x ∈ leafR t ∧ y ∈ leafR t)) :
    csum key cs (key (x, y)) = 0 := by
  rw [csum_perm key hcs]
  apply csum_none
  intro c hc e
  have hkeys : ((pairsW w t).map (·.1)).Perm (DM.allPairs (leafR t)) := by
    have := DM.keys_pairs (toRT w t)
    rwa [pairs_toRT, keys_castP, leafIds_toRT] at this
  have hm : c.1 ∈ DM.allPairs (leafR t) := hkeys.mem_iff.1 (List.mem_map.2 ⟨c, hc, rfl⟩)
  obtain ⟨⟨u, v⟩, d⟩ := c
  obtain ⟨hu, hv, huv⟩ := allPairs_mem _ hn u v hm
  rcases hinj u v x y (hO u hu) (hO v hv) hx hy huv hxy e with ⟨rfl, rfl⟩ | ⟨rfl, rfl⟩
  · exact hout ⟨hu, hv⟩
  · exact hout ⟨hv, hu⟩

end DMW
