import PhyloModel.Dist.FoldInv
import PhyloModel.Arena.OpsInv
import PhyloModel.Arena.OneRoot
/-! # `DMF.dmFast` returns the path lengths

The executable arena fold `DMF.dmFast` (the transcription of `Tree::distance_matrix`: reversed level order,
per-slot `subtree_distances` caches, keyed accumulation into the triangular vector) is tied to the rose-level
mathematics of `Dist/{Basic,Lemmas,Keys}.lean`: under the arena invariant every cell of the returned vector is
the path length `DM.pathLen` between the two taxa of the cell, in the tree `absRoot a` represents. -/
namespace DMF
open AR DMW

/-! ### the rose tree `absRoot` computes, from the id-only tree -/

mutual
def roseOf (a : Arena) : RTI → Rose
  | .node i ks => .node i (nd a i).name (nd a i).pedge (nd a i).depth (roseOfL a ks)
def roseOfL (a : Arena) : List RTI → List Rose
  | [] => []
  | k :: ks => roseOf a k :: roseOfL a ks
end

theorem roseOf_node (a : Arena) (i : Nat) (ks : List RTI) :
    roseOf a (.node i ks) = .node i (nd a i).name (nd a i).pedge (nd a i).depth (roseOfL a ks) := by rw [roseOf]
theorem roseOfL_nil (a : Arena) : roseOfL a [] = [] := by rw [roseOfL]
theorem roseOfL_cons (a : Arena) (k : RTI) (ks : List RTI) : roseOfL a (k :: ks) = roseOf a k :: roseOfL a ks := by
  rw [roseOfL]

mutual
theorem absF_rep (a : Arena) : ∀ (t : RTI) (f i : Nat), Rep a i t → height t ≤ f → absF f a i = some (roseOf a t)
  | .node j ks, f, i, h, hf => by
    simp only [Rep] at h
    obtain ⟨rfl, hl, hk⟩ := h
    cases f with
    | zero => simp [height] at hf
    | succ f =>
      have h1 : isLive a i = true := (isLive_iff a i).mpr hl
      simp only [absF, h1, ↓reduceIte]
      rw [absFL_rep a ks f (nd a i).children hk (by simp [height] at hf; omega), roseOf_node]
      rfl
theorem absFL_rep (a : Arena) : ∀ (ts : List RTI) (f : Nat) (cs : List Nat), RepL a cs ts → heightL ts ≤ f →
    cs.mapM (fun c => absF f a c) = some (roseOfL a ts)
  | [], f, cs, h, _ => by
    cases cs with
    | nil => simp [roseOfL_nil]
    | cons c cs => simp [RepL] at h
  | t :: ts, f, cs, h, hf => by
    cases cs with
    | nil => simp [RepL] at h
    | cons c cs =>
      simp only [RepL] at h
      simp only [heightL] at hf
      have h1 := absF_rep a t f c h.1 (by omega)
      have h2 := absFL_rep a ts f cs h.2 (by omega)
      simp only [List.mapM_cons, h1, h2, roseOfL_cons]
      rfl
end

theorem absDM_node (unit : Int) (i : Nat) (n : Option String) (l : Option Int) (d : Nat) (ks : List Rose) :
    absDM unit (.node i n l d ks) = .node i ((l.getD unit : Int) : Rat) (absDM.absDML unit ks) := by rw [absDM]
theorem absDML_nil (unit : Int) : absDM.absDML unit [] = [] := by rw [absDM.absDML]
theorem absDML_cons (unit : Int) (k : Rose) (ks : List Rose) :
    absDM.absDML unit (k :: ks) = absDM unit k :: absDM.absDML unit ks := by rw [absDM.absDML]

mutual
theorem absDM_roseOf (a : Arena) (unit : Int) : ∀ t : RTI, absDM unit (roseOf a t) = toRT (wOf a unit) t
  | .node i ks => by rw [roseOf_node, absDM_node, toRT_node, absDML_roseOfL a unit ks]; rfl
theorem absDML_roseOfL (a : Arena) (unit : Int) : ∀ ks : List RTI,
    absDM.absDML unit (roseOfL a ks) = toRTL (wOf a unit) ks
  | [] => by rw [roseOfL_nil, absDML_nil, toRTL_nil]
  | k :: ks => by rw [roseOfL_cons, absDML_cons, toRTL_cons, absDM_roseOf a unit k, absDML_roseOfL a unit ks]
end

/-! ### leaves of the represented tree = childless nodes of it -/

mutual
theorem leafR_spec {a : Arena} : ∀ (t : RTI) (i : Nat), Rep a i t → ∀ x ∈ leafR t, live a x ∧ (nd a x).children = []
  | .node j [], i, h, x, hx => by
    simp only [Rep] at h
    obtain ⟨rfl, hl, hk⟩ := h
    rw [leafR_leaf] at hx; simp only [List.mem_singleton] at hx; subst hx
    refine ⟨hl, ?_⟩
    cases hc : (nd a x).children with
    | nil => rfl
    | cons c cs => rw [hc] at hk; simp [RepL] at hk
  | .node j (k :: ks), i, h, x, hx => by
    simp only [Rep] at h
    rw [leafR_cons] at hx
    exact leafRL_spec (k :: ks) _ h.2.2 x hx
theorem leafRL_spec {a : Arena} : ∀ (ts : List RTI) (cs : List Nat), RepL a cs ts →
    ∀ x ∈ leafRL ts, live a x ∧ (nd a x).children = []
  | [], _, _, x, hx => by rw [leafRL_nil] at hx; simp at hx
  | t :: ts, cs, h, x, hx => by
    cases cs with
    | nil => simp [RepL] at h
    | cons c cs =>
      simp only [RepL] at h
      rw [leafRL_cons, List.mem_append] at hx
      rcases hx with hx | hx
      · exact leafR_spec t c h.1 x hx
      · exact leafRL_spec ts cs h.2 x hx
end

mutual
theorem leafR_of_pre {a : Arena} : ∀ (t : RTI) (i : Nat), Rep a i t → ∀ x ∈ pre t, (nd a x).children = [] → x ∈ leafR t
  | .node j [], i, h, x, hx, _ => by
    simp only [pre, preL, List.mem_cons, List.not_mem_nil, or_false] at hx
    rw [leafR_leaf]; simp [hx]
  | .node j (k :: ks), i, h, x, hx, hc => by
    simp only [Rep] at h
    obtain ⟨rfl, hl, hk⟩ := h
    rw [leafR_cons]
    simp only [pre, List.mem_cons] at hx
    rcases hx with rfl | hx
    · rw [hc] at hk; simp [RepL] at hk
    · exact leafRL_of_pre (k :: ks) _ hk x hx hc
theorem leafRL_of_pre {a : Arena} : ∀ (ts : List RTI) (cs : List Nat), RepL a cs ts →
    ∀ x ∈ preL ts, (nd a x).children = [] → x ∈ leafRL ts
  | [], _, _, x, hx, _ => by simp [preL] at hx
  | t :: ts, cs, h, x, hx, hc => by
    cases cs with
    | nil => simp [RepL] at h
    | cons c cs =>
      simp only [RepL] at h
      simp only [preL, List.mem_append] at hx
      rw [leafRL_cons, List.mem_append]
      rcases hx with hx | hx
      · exact Or.inl (leafR_of_pre t c h.1 x hx hc)
      · exact Or.inr (leafRL_of_pre ts cs h.2 x hx hc)
end

/-! ### the taxon order and the leaf index -/

/-- the taxa in matrix order: the live tips, stably sorted by name -/
def leafOrder (a : Arena) : List Nat := (leaves a).mergeSort (fun x y => nameLe (nd a x).name (nd a y).name)

/-- position of a leaf id in the taxon order -/
def idxIn (order : List Nat) (leaf : Nat) : Option Nat :=
  let i := order.findIdx (· == leaf); if i < order.length then some i else none

theorem dmFast_eq (a : Arena) (unit : Int) : dmFast a unit =
    (if (leafOrder a).any (fun l => (nd a l).name.isNone) then .err "UnnamedLeaves" else do
      let r ← root a
      let lo ← QR.ofOpt (levelorder a r) "NodeNotFound"
      let st ← lo.reverse.foldl (dmStep a unit (idxIn (leafOrder a))) (.ok (st0 a (Tri.T (leafOrder a).length)))
      pure ((leafOrder a).map (fun l => ((nd a l).name).getD ""), st.pw.toList)) := rfl

theorem leafOrder_perm (a : Arena) : (leafOrder a).Perm (leaves a) := List.mergeSort_perm _ _

theorem leaves_nodup (a : Arena) : (leaves a).Nodup := List.Nodup.sublist List.filter_sublist List.nodup_range

theorem leafOrder_nodup (a : Arena) : (leafOrder a).Nodup := (leafOrder_perm a).nodup_iff.2 (leaves_nodup a)

theorem mem_leaves {a : Arena} {x : Nat} : x ∈ leaves a ↔ live a x ∧ (nd a x).children = [] := by
  simp only [leaves, List.mem_filter, List.mem_range, Bool.and_eq_true, isLive_iff, List.isEmpty_iff]
  constructor
  · rintro ⟨_, h1, h2⟩; exact ⟨h1, h2⟩
  · rintro ⟨h1, h2⟩; exact ⟨h1.1, h1, h2⟩

theorem idxIn_mem {order : List Nat} {x : Nat} (h : x ∈ order) :
    ∃ i, idxIn order x = some i ∧ ∃ hi : i < order.length, order[i] = x := by
  have hlt : order.findIdx (· == x) < order.length := List.findIdx_lt_length_of_exists ⟨x, h, by simp⟩
  refine ⟨order.findIdx (· == x), by simp only [idxIn, hlt, ↓reduceIte], hlt, ?_⟩
  have := List.findIdx_getElem (p := (· == x)) (xs := order) (w := hlt)
  simpa using this

theorem idxIn_getElem {order : List Nat} (hn : order.Nodup) {i : Nat} (hi : i < order.length) :
    idxIn order order[i] = some i := by
  obtain ⟨k, hk, hkl, he⟩ := idxIn_mem (List.getElem_mem hi)
  rw [hk, (List.getElem_inj hn).1 he]

theorem keyOf_inj (order : List Nat) : KeyInj (keyOf (idxIn order)) order := by
  intro x y x' y' hx hy hx' hy' hxy hxy' e
  obtain ⟨i, hi, hil, rfl⟩ := idxIn_mem hx
  obtain ⟨j, hj, hjl, rfl⟩ := idxIn_mem hy
  obtain ⟨i', hi', hil', rfl⟩ := idxIn_mem hx'
  obtain ⟨j', hj', hjl', rfl⟩ := idxIn_mem hy'
  simp only [keyOf, hi, hj, hi', hj', Option.getD_some] at e
  have hij : i ≠ j := fun e => hxy (by subst e; rfl)
  have hij' : i' ≠ j' := fun e => hxy' (by subst e; rfl)
  rcases MX.cell_inj hij hij' e with ⟨rfl, rfl⟩ | ⟨rfl, rfl⟩
  · exact Or.inl ⟨rfl, rfl⟩
  · exact Or.inr ⟨rfl, rfl⟩

theorem keyOf_symm (idxOf : Nat → Option Nat) (x y : Nat) : keyOf idxOf (x, y) = keyOf idxOf (y, x) := by
  simp only [keyOf]
  by_cases h : (idxOf x).getD 0 = (idxOf y).getD 0
  · rw [h]
  · exact MX.cell_symm _ _ h

/-! ### a choice of represented trees -/

open Classical in
noncomputable def trOf (a : Arena) (v : Nat) : RTI :=
  if h : ∃ t, Rep a v t then Classical.choose h else .node 0 []

theorem trOf_spec {a : Arena} (v : Nat) (t : RTI) (h : Rep a v t) : trOf a v = t := by
  have hex : ∃ t, Rep a v t := ⟨t, h⟩
  simp only [trOf, hex, ↓reduceDIte]
  exact rep_unique a _ _ v (Classical.choose_spec hex) h

/-! ### the whole loop -/

/-- under the invariant, from the root the loop of `distance_matrix` runs to completion, and cell `k` of its
    final vector holds the keyed sum of (a permutation of) the rose-level contributions `pairsW` of the tree
    the root represents -/
theorem dmLoop_ok {a : Arena} (unit : Int) (hinv : Inv a) {r : Nat} (hgr : getRoot a = some r) (N : Nat) :
    ∃ t lo st, Rep a r t ∧ height t ≤ fuelOf a ∧ levelorder a r = some lo ∧
      lo.reverse.foldl (dmStep a unit (idxIn (leafOrder a))) (.ok (st0 a N)) = .ok st ∧ st.pw.size = N ∧
      ∃ cs, cs.Perm (pairsW (wOf a unit) t) ∧
        ∀ k, k < N → st.pw.getD k 0 = csum (keyOf (idxIn (leafOrder a))) cs k := by
  obtain ⟨hlr, _⟩ := getRoot_spec hgr
  obtain ⟨lo, hlo, hlond, hlomem, _⟩ := levelorder_closed hinv r hlr
  obtain ⟨t, ht, _, hht, _⟩ := rep_total hinv r hlr
  have htr : ∀ v t, Rep a v t → trOf a v = t := trOf_spec
  have hrep : ∀ v ∈ lo, Rep a v (trOf a v) := by
    intro v hv
    obtain ⟨k, hb⟩ := (hlomem v).1 hv
    obtain ⟨tv, htv, _⟩ := rep_total hinv v hb.is_live
    rw [htr v tv htv]; exact htv
  have hnd : ∀ v ∈ lo, (leafR (trOf a v)).Nodup := fun v hv =>
    (leafR_sublist (trOf a v)).nodup (pre_nodup hinv.toW _ v (hrep v hv))
  have hidx : ∀ v ∈ lo, ∀ x ∈ leafR (trOf a v), (idxIn (leafOrder a) x).isSome := by
    intro v hv x hx
    have hx' := leafR_spec _ v (hrep v hv) x hx
    have hmem : x ∈ leafOrder a := (leafOrder_perm a).mem_iff.2 (mem_leaves.2 hx')
    obtain ⟨i, hi, _⟩ := idxIn_mem hmem
    simp [hi]
  obtain ⟨st, hst, hfinv⟩ := fold_inv (unit := unit) (idxOf := idxIn (leafOrder a)) (N := N) htr lo
    (levelorder_topDown hlo) hrep hnd hidx
  refine ⟨t, lo, st, ht, hht, hlo, hst, hfinv.pwsize, _, ?_, hfinv.pw_ok⟩
  -- the contributions, node by node, are those of `pairsW`
  have hperm : lo.Perm (pre t) := by
    rw [List.perm_ext_iff_of_nodup hlond (pre_nodup hinv.toW t r ht)]
    intro v
    rw [hlomem v, mem_pre_iff hinv.toW t r ht v]
  refine (hperm.flatMap_right _).trans ?_
  rw [pre_eq_subs, List.flatMap_map]
  refine (flatMap_perm_left _ (fun s => crossWL (wOf a unit) (rkids s)) _ ?_).trans (pairsW_perm _ t).symm
  intro s hs
  simp only [crossAt]
  rw [htr (rid s) s (subs_rep t r ht s hs)]

theorem absRoot_rep {a : Arena} {r : Nat} {t : RTI} (hgr : getRoot a = some r) (ht : Rep a r t)
    (hht : height t ≤ fuelOf a) : absRoot a = .ok (roseOf a t) := by
  simp only [absRoot, root, hgr, QR.ofOpt, QR.bind_ok, absF_rep a t _ r ht hht]

theorem toList_getD (pw : Array Int) (k : Nat) : pw.toList.getD k 0 = pw.getD k 0 := by
  simp [Array.getD_eq_getD_getElem?, List.getD_eq_getElem?_getD]

/-- what `dmFast` returns, in terms of the id-only tree `t` the root slot represents -/
theorem dmFast_core (a : Arena) (unit : Int) (hinv : Inv a) (names : List String) (cells : List Int)
    (h : dmFast a unit = .ok (names, cells)) :
    ∃ r t, getRoot a = some r ∧ Rep a r t ∧ absRoot a = .ok (roseOf a t) ∧
      names = (leafOrder a).map (fun l => ((nd a l).name).getD "") ∧
      (∀ l ∈ leafOrder a, (nd a l).name.isSome) ∧
      cells.length = Tri.T (leafOrder a).length ∧
      (leafR t).Nodup ∧
      (∀ x, x ∈ leafR t → x ∈ leafOrder a) ∧
      ∀ (i j : Nat) (_ : j < i) (hi : i < (leafOrder a).length),
        ((leafOrder a)[i] ∈ leafR t ∧ (leafOrder a)[j] ∈ leafR t →
          DM.pathLen (toRT (wOf a unit) t) (leafOrder a)[i] (leafOrder a)[j]
            = some (((cells.getD (MX.cell i j) 0 : Int)) : Rat)) ∧
        (¬ ((leafOrder a)[i] ∈ leafR t ∧ (leafOrder a)[j] ∈ leafR t) → cells.getD (MX.cell i j) 0 = 0) := by
  rw [dmFast_eq] at h
  split at h
  · cases h
  next hnamed =>
  cases hgr : getRoot a with
  | none => simp [root, hgr, QR.ofOpt] at h
  | some r =>
    obtain ⟨t, lo, st, ht, hht, hlo, hst, hsz, cs, hcs, hpw⟩ :=
      dmLoop_ok unit hinv hgr (Tri.T (leafOrder a).length)
    simp only [root, hgr, QR.ofOpt, QR.bind_ok, hlo, hst, QR.pure_eq, QR.ok.injEq, Prod.mk.injEq] at h
    obtain ⟨hnames, hcells⟩ := h
    have hleafnd : (leafR t).Nodup := (leafR_sublist t).nodup (pre_nodup hinv.toW t r ht)
    have hleafO : ∀ x ∈ leafR t, x ∈ leafOrder a := fun x hx =>
      (leafOrder_perm a).mem_iff.2 (mem_leaves.2 (leafR_spec t r ht x hx))
    refine ⟨r, t, rfl, ht, absRoot_rep hgr ht hht, hnames.symm, ?_, ?_, hleafnd, hleafO, ?_⟩
    · intro l hl
      simp only [List.any_eq_true, not_exists, not_and] at hnamed
      have := hnamed l hl
      cases hn : (nd a l).name <;> simp_all
    · rw [← hcells, Array.length_toList, hsz]
    · intro i j hj hi
      have hjl : j < (leafOrder a).length := by omega
      have hond := leafOrder_nodup a
      have hxy : (leafOrder a)[i] ≠ (leafOrder a)[j] := fun e => by
        have := (List.getElem_inj hond).1 e; omega
      have hkey : keyOf (idxIn (leafOrder a)) ((leafOrder a)[i], (leafOrder a)[j]) = MX.cell i j := by
        simp only [keyOf, idxIn_getElem hond hi, idxIn_getElem hond hjl, Option.getD_some]
      have hlt : MX.cell i j < Tri.T (leafOrder a).length := MX.cell_lt (by omega) hi hjl
      have hcell : cells.getD (MX.cell i j) 0 = csum (keyOf (idxIn (leafOrder a))) cs (MX.cell i j) := by
        rw [← hcells, toList_getD, hpw _ hlt]
      rw [hcell, ← hkey]
      constructor
      · rintro ⟨hx, hy⟩
        exact csum_pairs_pathLen (wOf a unit) t hleafnd _ (leafOrder a) hleafO (keyOf_inj _)
          (keyOf_symm _) cs hcs _ _ hx hy hxy
      · intro hout
        exact csum_pairs_zero (wOf a unit) t hleafnd _ (leafOrder a) hleafO (keyOf_inj _) cs hcs _ _
          (List.getElem_mem hi) (List.getElem_mem hjl) hxy hout

/-- **Main theorem (forest form).**  If `dmFast` returns a matrix then, in the tree `t` that `absRoot`
    abstracts from the arena, the taxa are the live tips in name order and every cell `(i, j)`, `j < i`, holds
    the path length between taxa `i` and `j` when both are tips of `t`; a cell of a pair of tips that are not
    both below the root (possible only when the arena holds several trees) is `0`. -/
theorem dmFast_correct_forest (a : Arena) (unit : Int) (hinv : Inv a) (names : List String) (cells : List Int)
    (h : dmFast a unit = .ok (names, cells)) :
    ∃ t, absRoot a = .ok t ∧
      names = (leafOrder a).map (fun l => ((nd a l).name).getD "") ∧
      (∀ l ∈ leafOrder a, (nd a l).name.isSome) ∧
      cells.length = Tri.T (leafOrder a).length ∧
      (DM.leafIds (absDM unit t)).Nodup ∧
      (∀ x, x ∈ DM.leafIds (absDM unit t) → x ∈ leafOrder a) ∧
      ∀ (i j : Nat) (_ : j < i) (hi : i < (leafOrder a).length),
        ((leafOrder a)[i] ∈ DM.leafIds (absDM unit t) ∧ (leafOrder a)[j] ∈ DM.leafIds (absDM unit t) →
          DM.pathLen (absDM unit t) (leafOrder a)[i] (leafOrder a)[j]
            = some (((cells.getD (MX.cell i j) 0 : Int)) : Rat)) ∧
        (¬ ((leafOrder a)[i] ∈ DM.leafIds (absDM unit t) ∧ (leafOrder a)[j] ∈ DM.leafIds (absDM unit t)) →
          cells.getD (MX.cell i j) 0 = 0) := by
  obtain ⟨r, t, _, _, h1, h2, h3, h4, h5, h6, h7⟩ := dmFast_core a unit hinv names cells h
  refine ⟨roseOf a t, h1, h2, h3, h4, ?_, ?_, ?_⟩
  · rw [absDM_roseOf, leafIds_toRT]; exact h5
  · rw [absDM_roseOf, leafIds_toRT]; exact h6
  · rw [absDM_roseOf, leafIds_toRT]; exact h7

/-- in an arena holding one tree every live tip is a tip of the tree below the root -/
theorem leaves_below_root {a : Arena} (hinv : Inv a) (h1 : AtMostOneRoot a) {r : Nat} {t : RTI}
    (hgr : getRoot a = some r) (ht : Rep a r t) {x : Nat} (hx : x ∈ leaves a) : x ∈ leafR t := by
  obtain ⟨hl, hc⟩ := mem_leaves.1 hx
  obtain ⟨r', k, hr', hb⟩ := root_above hinv.toW _ x hl (Nat.le_refl _)
  have hr : isRoot a r := getRoot_spec hgr
  rw [h1 r' r hr' hr] at hb
  exact leafR_of_pre t r ht x ((mem_pre_iff hinv.toW t r ht x).2 ⟨k, hb⟩) hc

/-- **Main theorem.**  For an arena satisfying the invariant and holding one tree (at most one parentless live
    slot): if the executable transcription `dmFast` of `Tree::distance_matrix` returns `(names, cells)` then
    `absRoot a` is a tree `t`, its tips are exactly the taxa `leafOrder a` (the live tips stably sorted by name,
    as `dmFast` orders them), `names` are their names, the vector has `n(n-1)/2` cells, and the cell of every
    pair `j < i` is the path length `DM.pathLen` between taxon `i` and taxon `j` in `t` (lengths in the scaled
    integers of the model, a missing length counted as `unit`). -/
theorem dmFast_correct (a : Arena) (unit : Int) (hinv : Inv a) (h1 : AtMostOneRoot a) (names : List String)
    (cells : List Int) (h : dmFast a unit = .ok (names, cells)) :
    ∃ t, absRoot a = .ok t ∧
      names = (leafOrder a).map (fun l => ((nd a l).name).getD "") ∧
      (∀ l ∈ leafOrder a, (nd a l).name.isSome) ∧
      cells.length = Tri.T (leafOrder a).length ∧
      (DM.leafIds (absDM unit t)).Nodup ∧
      (∀ x, x ∈ DM.leafIds (absDM unit t) ↔ x ∈ leafOrder a) ∧
      ∀ (i j : Nat) (_ : j < i) (hi : i < (leafOrder a).length),
        DM.pathLen (absDM unit t) (leafOrder a)[i] (leafOrder a)[j]
          = some (((cells.getD (MX.cell i j) 0 : Int)) : Rat) := by
  obtain ⟨r, t, hgr, ht, h2, h3, h4, h5, h6, h7, h8⟩ := dmFast_core a unit hinv names cells h
  have hall : ∀ x, x ∈ leafOrder a → x ∈ leafR t := fun x hx =>
    leaves_below_root hinv h1 hgr ht ((leafOrder_perm a).mem_iff.1 hx)
  refine ⟨roseOf a t, h2, h3, h4, h5, ?_, ?_, ?_⟩
  · rw [absDM_roseOf, leafIds_toRT]; exact h6
  · rw [absDM_roseOf, leafIds_toRT]; exact fun x => ⟨h7 x, hall x⟩
  · intro i j hj hi
    rw [absDM_roseOf]
    exact (h8 i j hj hi).1 ⟨hall _ (List.getElem_mem hi), hall _ (List.getElem_mem (by omega))⟩

/-! ### totality -/

/-- **Totality.**  Under the invariant `dmFast` never panics and never reports `NodeNotFound`,
    `MissingBranchLengths` or the `unwrap` failure: it returns a matrix unless a tip is unnamed
    (`UnnamedLeaves`) or the arena has no live slot (`RootNotFound`). -/
theorem dmFast_total (a : Arena) (unit : Int) (hinv : Inv a) :
    (dmFast a unit = .err "UnnamedLeaves" ∧ ∃ l ∈ leaves a, (nd a l).name = none) ∨
    (dmFast a unit = .err "RootNotFound" ∧ getRoot a = none ∧ ∀ i, ¬ live a i) ∨
    (∃ names cells, dmFast a unit = .ok (names, cells)) := by
  rw [dmFast_eq]
  split
  next hun =>
    refine Or.inl ⟨rfl, ?_⟩
    simp only [List.any_eq_true, Option.isNone_iff_eq_none] at hun
    obtain ⟨l, hl, hn⟩ := hun
    exact ⟨l, (leafOrder_perm a).mem_iff.1 hl, hn⟩
  next hnamed =>
    cases hgr : getRoot a with
    | none =>
      refine Or.inr (Or.inl ⟨by simp [root, hgr, QR.ofOpt], rfl, ?_⟩)
      intro i hl
      obtain ⟨r, _, hr, _⟩ := root_above hinv.toW _ i hl (Nat.le_refl _)
      unfold getRoot at hgr
      rw [List.find?_eq_none] at hgr
      have := hgr r (List.mem_range.2 hr.1.1)
      simp [(isLive_iff a r).2 hr.1, hr.2] at this
    | some r =>
      obtain ⟨t, lo, st, ht, hht, hlo, hst, hsz, cs, hcs, hpw⟩ :=
        dmLoop_ok unit hinv hgr (Tri.T (leafOrder a).length)
      refine Or.inr (Or.inr ⟨(leafOrder a).map (fun l => ((nd a l).name).getD ""), st.pw.toList, ?_⟩)
      simp only [root, hgr, QR.ofOpt, QR.bind_ok, hlo, hst, QR.pure_eq]

/-- in particular: a rooted arena all of whose tips are named always gets its matrix -/
theorem dmFast_ok (a : Arena) (unit : Int) (hinv : Inv a) (hroot : (getRoot a).isSome)
    (hnamed : ∀ l ∈ leaves a, (nd a l).name.isSome) : ∃ names cells, dmFast a unit = .ok (names, cells) := by
  rcases dmFast_total a unit hinv with ⟨_, l, hl, hn⟩ | ⟨_, hn, _⟩ | h
  · have := hnamed l hl; simp [hn] at this
  · simp [hn] at hroot
  · exact h

end DMF
