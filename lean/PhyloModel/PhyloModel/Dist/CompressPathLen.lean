import PhyloModel.Dist.CompressReach
namespace DM

theorem pathLen_node (i : Nat) (l : Rat) (ks : List RT) (x y : Nat) :
    pathLen (.node i l ks) x y = pathLenL ks x y := by rw [pathLen]
theorem pathLenL_nil (x y : Nat) : pathLenL [] x y = none := by rw [pathLenL]
theorem pathLenL_ss (k : RT) (ks : List RT) (x y : Nat) (dx dy : Rat) (hx : depthTo k x = some dx)
    (hy : depthTo k y = some dy) : pathLenL (k :: ks) x y = pathLen k x y := by rw [pathLenL, hx, hy]
theorem pathLenL_sn (k : RT) (ks : List RT) (x y : Nat) (dx : Rat) (hx : depthTo k x = some dx)
    (hy : depthTo k y = none) : pathLenL (k :: ks) x y = (depthToL ks y).map (fun dy => (dx + k.len) + dy) := by
  rw [pathLenL, hx, hy]
theorem pathLenL_ns (k : RT) (ks : List RT) (x y : Nat) (dy : Rat) (hx : depthTo k x = none)
    (hy : depthTo k y = some dy) : pathLenL (k :: ks) x y = (depthToL ks x).map (fun dx => dx + (dy + k.len)) := by
  rw [pathLenL, hx, hy]
theorem pathLenL_nn (k : RT) (ks : List RT) (x y : Nat) (hx : depthTo k x = none) (hy : depthTo k y = none) :
    pathLenL (k :: ks) x y = pathLenL ks x y := by rw [pathLenL, hx, hy]

/-- presence below `comp t` is presence below `t` -/
theorem depthTo_comp_isSome (t : RT) (x : Nat) : (depthTo (comp t) x).isSome = (depthTo t x).isSome := by
  have := reach_comp t x
  simp only [reach] at this
  cases h1 : depthTo (comp t) x <;> cases h2 : depthTo t x <;> simp_all

mutual
theorem pathLen_none_right : ∀ (t : RT) (x y : Nat), depthTo t y = none → pathLen t x y = none
  | .node i l [], x, y, _ => by rw [pathLen_node, pathLenL_nil]
  | .node i l (k :: ks), x, y, h => by
    rw [pathLen_node]; rw [depthTo_cons] at h; exact pathLenL_none_right (k :: ks) x y h
theorem pathLenL_none_right : ∀ (ks : List RT) (x y : Nat), depthToL ks y = none → pathLenL ks x y = none
  | [], x, y, _ => pathLenL_nil x y
  | k :: ks, x, y, h => by
    have hk : depthTo k y = none := by
      cases hk : depthTo k y with
      | none => rfl
      | some d => rw [depthToL_cons_some k ks y d hk] at h; cases h
    have hr : depthToL ks y = none := by rw [depthToL_cons_none k ks y hk] at h; exact h
    cases hx : depthTo k x with
    | none => rw [pathLenL_nn k ks x y hx hk]; exact pathLenL_none_right ks x y hr
    | some dx => rw [pathLenL_sn k ks x y dx hx hk, hr]; rfl
end

mutual
theorem pathLen_none_left : ∀ (t : RT) (x y : Nat), depthTo t x = none → pathLen t x y = none
  | .node i l [], x, y, _ => by rw [pathLen_node, pathLenL_nil]
  | .node i l (k :: ks), x, y, h => by
    rw [pathLen_node]; rw [depthTo_cons] at h; exact pathLenL_none_left (k :: ks) x y h
theorem pathLenL_none_left : ∀ (ks : List RT) (x y : Nat), depthToL ks x = none → pathLenL ks x y = none
  | [], x, y, _ => pathLenL_nil x y
  | k :: ks, x, y, h => by
    have hk : depthTo k x = none := by
      cases hk : depthTo k x with
      | none => rfl
      | some d => rw [depthToL_cons_some k ks x d hk] at h; cases h
    have hr : depthToL ks x = none := by rw [depthToL_cons_none k ks x hk] at h; exact h
    cases hy : depthTo k y with
    | none => rw [pathLenL_nn k ks x y hk hy]; exact pathLenL_none_left ks x y hr
    | some dy => rw [pathLenL_ns k ks x y dy hk hy, hr]; rfl
end

-- C11 (prototype): compress keeps every leaf-to-leaf path length
mutual
theorem pathLen_comp : ∀ (t : RT) (x y : Nat), pathLen (comp t) x y = pathLen t x y
  | .node i l [], x, y => by rw [comp]
  | .node i l [c], x, y => by
    have ih := pathLen_comp c x y
    have hc : comp (.node i l [c]) = .node (comp c).id (l + (comp c).len) (comp c).kids := by rw [comp]
    have e1 : pathLen (.node (comp c).id (l + (comp c).len) (comp c).kids) x y = pathLen (comp c) x y := by
      cases hcc : comp c with
      | node j l' ks' => simp only [RT.id, RT.kids, RT.len]; rw [pathLen_node, pathLen_node]
    rw [hc, e1, ih, pathLen_node]
    -- the unary node passes the question on to its child, or answers `none` exactly when the child does
    cases hx : depthTo c x with
    | none =>
      rw [pathLen_none_left c x y hx]
      cases hy : depthTo c y with
      | none => rw [pathLenL_nn c [] x y hx hy, pathLenL_nil]
      | some dy => rw [pathLenL_ns c [] x y dy hx hy, depthToL_nil]; rfl
    | some dx =>
      cases hy : depthTo c y with
      | none => rw [pathLen_none_right c x y hy, pathLenL_sn c [] x y dx hx hy, depthToL_nil]; rfl
      | some dy => rw [pathLenL_ss c [] x y dx dy hx hy]
  | .node i l (k1 :: k2 :: ks), x, y => by
    have ih := pathLenL_comp (k1 :: k2 :: ks) x y
    have hc : comp (.node i l (k1 :: k2 :: ks)) = .node i l (compL (k1 :: k2 :: ks)) := by rw [comp]
    rw [hc, pathLen_node, pathLen_node, ih]
theorem pathLenL_comp : ∀ (ks : List RT) (x y : Nat), pathLenL (compL ks) x y = pathLenL ks x y
  | [], x, y => by rw [compL]
  | k :: ks, x, y => by
    have h1 := pathLen_comp k x y
    have h2 := pathLenL_comp ks x y
    have hl : compL (k :: ks) = comp k :: compL ks := by rw [compL]
    have hrx := reach_comp k x
    have hry := reach_comp k y
    have hdx := depthToL_comp ks x
    have hdy := depthToL_comp ks y
    rw [hl]
    simp only [reach] at hrx hry
    cases hx : depthTo k x with
    | none =>
      have hx' : depthTo (comp k) x = none := by
        have := depthTo_comp_isSome k x; rw [hx] at this; cases h : depthTo (comp k) x <;> simp_all
      cases hy : depthTo k y with
      | none =>
        have hy' : depthTo (comp k) y = none := by
          have := depthTo_comp_isSome k y; rw [hy] at this; cases h : depthTo (comp k) y <;> simp_all
        rw [pathLenL_nn _ _ x y hx' hy', pathLenL_nn _ _ x y hx hy, h2]
      | some dy =>
        obtain ⟨dy', hy'⟩ : ∃ d, depthTo (comp k) y = some d := by
          have := depthTo_comp_isSome k y; rw [hy] at this; cases h : depthTo (comp k) y <;> simp_all
        rw [pathLenL_ns _ _ x y dy' hx' hy', pathLenL_ns _ _ x y dy hx hy, hdx]
        rw [hy, hy'] at hry; simp at hry
        rw [hry]
    | some dx =>
      obtain ⟨dx', hx'⟩ : ∃ d, depthTo (comp k) x = some d := by
        have := depthTo_comp_isSome k x; rw [hx] at this; cases h : depthTo (comp k) x <;> simp_all
      rw [hx, hx'] at hrx; simp at hrx
      cases hy : depthTo k y with
      | none =>
        have hy' : depthTo (comp k) y = none := by
          have := depthTo_comp_isSome k y; rw [hy] at this; cases h : depthTo (comp k) y <;> simp_all
        rw [pathLenL_sn _ _ x y dx' hx' hy', pathLenL_sn _ _ x y dx hx hy, hdy, hrx]
      | some dy =>
        obtain ⟨dy', hy'⟩ : ∃ d, depthTo (comp k) y = some d := by
          have := depthTo_comp_isSome k y; rw [hy] at this; cases h : depthTo (comp k) y <;> simp_all
        rw [pathLenL_ss _ _ x y dx' dy' hx' hy', pathLenL_ss _ _ x y dx dy hx hy, h1]
end

end DM
