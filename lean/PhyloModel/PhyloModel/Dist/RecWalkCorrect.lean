import PhyloModel.Dist.RecWalkCorrectArena
import PhyloModel.Arena.MatrixDependsOnTree
import PhyloModel.Arena.QueryRefineIndices
import PhyloModel.Split.PartSpec
/-! # The transcription of `Tree::distance_matrix_recursive` returns the matrix of path lengths

`DMF.dmRecWalk` (the walk of `distance_matrix_recursive_impl` from every tip, the cache rows, the cells read from the
cache) and `DMF.dmRecursive` (the matrix of the path lengths `DM.pathLen` of the abstracted tree, refused when a
branch lacks a length) agree on every arena that satisfies the invariant and holds at most one tree:
same refusals, same taxa, same cells. -/
namespace DMF
open AR DMW

/-! ### the duplicate-name test does not depend on the order of the tips -/

def dupCheck (names : List (Option String)) : Bool := (names.filterMap id).eraseDups.length != names.length

theorem dupCheck_false_iff (names : List (Option String)) :
    dupCheck names = false ↔ ((names.filterMap id).length = names.length ∧ (names.filterMap id).Nodup) := by
  have h1 := SPM.eraseDups_length_le _ (names.filterMap id) (Nat.le_refl _)
  have h2 : (names.filterMap id).length ≤ names.length := List.length_filterMap_le _ _
  simp only [dupCheck, bne_eq_false_iff_eq]
  constructor
  · intro h
    refine ⟨by omega, SPM.nodup_of_eraseDups_length _ _ (Nat.le_refl _) (by omega)⟩
  · rintro ⟨h3, h4⟩
    rw [SPM.eraseDups_of_nodup _ _ (Nat.le_refl _) h4, h3]

theorem dupCheck_perm {l1 l2 : List (Option String)} (h : l1.Perm l2) : dupCheck l1 = dupCheck l2 := by
  have hp := h.filterMap id
  have e : dupCheck l1 = false ↔ dupCheck l2 = false := by
    rw [dupCheck_false_iff, dupCheck_false_iff, hp.length_eq, h.length_eq, hp.nodup_iff]
  cases h1 : dupCheck l1 <;> cases h2 : dupCheck l2 <;> simp_all

theorem all_some_eq : ∀ (l : List (Option String)), l.any Option.isNone = false → l = (l.filterMap id).map some
  | [], _ => rfl
  | none :: l, h => by simp at h
  | some s :: l, h => by
    simp only [List.any_cons, Option.isNone_some, Bool.false_or] at h
    simp only [List.filterMap_cons, id, List.map_cons]
    rw [← all_some_eq l h]

theorem nodup_map_some : ∀ l : List String, l.Nodup → (l.map some).Nodup
  | [], _ => by simp
  | x :: l, h => by
    rw [List.nodup_cons] at h
    rw [List.map_cons, List.nodup_cons]
    exact ⟨by simpa using h.1, nodup_map_some l h.2⟩

theorem inj_of_nodup_map {α β : Type} (f : α → β) : ∀ l : List α, (l.map f).Nodup →
    ∀ x ∈ l, ∀ y ∈ l, f x = f y → x = y
  | [], _, x, hx, _, _, _ => by simp at hx
  | z :: l, h, x, hx, y, hy, e => by
    rw [List.map_cons, List.nodup_cons] at h
    rcases List.mem_cons.1 hx with ex | hx' <;> rcases List.mem_cons.1 hy with ey | hy'
    · rw [ex, ey]
    · exact absurd (List.mem_map.2 ⟨y, hy', by rw [← e, ex]⟩) h.1
    · exact absurd (List.mem_map.2 ⟨x, hx', by rw [e, ey]⟩) h.1
    · exact inj_of_nodup_map f l h.2 x hx' y hy' e

/-- tips that pass both tests of `init_leaf_index` carry pairwise different names -/
theorem names_distinct (a : Arena) (ls : List Nat)
    (h1 : (ls.map (fun l => (nd a l).name)).any Option.isNone = false)
    (h2 : dupCheck (ls.map (fun l => (nd a l).name)) = false) :
    (∀ x ∈ ls, (nd a x).name.isSome) ∧ ∀ x ∈ ls, ∀ y ∈ ls, (nd a x).name = (nd a y).name → x = y := by
  constructor
  · intro x hx
    rw [List.any_eq_false] at h1
    have := h1 _ (List.mem_map.2 ⟨x, hx, rfl⟩)
    cases hn : (nd a x).name <;> simp_all
  · have hn : (ls.map (fun l => (nd a l).name)).Nodup := by
      rw [all_some_eq _ h1]
      exact nodup_map_some _ ((dupCheck_false_iff _).1 h2).2
    intro x hx y hy e
    exact inj_of_nodup_map _ ls hn x hx y hy e

/-! ### the cell loops -/

/-- the cell loop of `dmRecWalk` -/
def cellsW (rows : List (Nat × List (Nat × Int))) (order : List Nat) : QR (List Int) :=
  (List.range order.length).foldlM (fun (acc : List Int) i =>
      (List.range i).foldlM (fun (acc : List Int) j => do
        let x := order.getD i 0
        let y := order.getD j 0
        let d ← if x ≤ y then cacheGet rows x y else cacheGet rows y x
        pure (acc ++ [d])) acc) []

/-- the part of `dmRecWalk` after `init_leaf_index`: the walks and the cells -/
def walkPart (a : Arena) : QR (List String × List Int) :=
  ((leaves a).mapM (fun tip => (walkFrom a tip) >>= fun m => pure (tip, m))) >>= fun rows =>
  (cellsW rows (leafOrder a)) >>= fun cells =>
  .ok ((leafOrder a).map (fun l => ((nd a l).name).getD ""), cells)

theorem dmRecWalk_eq (a : Arena) : dmRecWalk a =
    if a.size = 0 then .err "RootNotFound" else
    if ((leaves a).map (fun l => (nd a l).name)).any Option.isNone then .err "UnnamedLeaves" else
    if dupCheck ((leaves a).map (fun l => (nd a l).name)) then .err "DuplicateLeafNames" else
    walkPart a := rfl

theorem cellsW_ok (rows : List (Nat × List (Nat × Int))) (order : List Nat) (G : Nat → Nat → Int)
    (h : ∀ i j, j < i → i < order.length →
      (if order.getD i 0 ≤ order.getD j 0 then cacheGet rows (order.getD i 0) (order.getD j 0)
        else cacheGet rows (order.getD j 0) (order.getD i 0)) = .ok (G i j)) :
    cellsW rows order = .ok (rowMajor order.length G) := by
  unfold cellsW
  rw [foldlM_ok _ (fun acc i => acc ++ (List.range i).map (G i))]
  · rw [foldl_appendF]; rfl
  · intro i hi acc
    rw [foldlM_ok _ (fun acc j => acc ++ [G i j])]
    · rw [foldl_snoc]
    · intro j hj acc'
      have := h i j (List.mem_range.1 hj) (List.mem_range.1 hi)
      by_cases hle : order.getD i 0 ≤ order.getD j 0
      · simp only [hle, ↓reduceIte] at this ⊢
        rw [this]; rfl
      · simp only [hle, ↓reduceIte] at this ⊢
        rw [this]; rfl

theorem cellsOf_ok (sorted : List (Nat × Option String)) (f : Nat → Nat → Option Rat) (F : Nat → Nat → Rat)
    (h : ∀ i j, j < i → i < sorted.length →
      f ((sorted.getD i (0, none)).1) ((sorted.getD j (0, none)).1) = some (F i j)) :
    cellsOf sorted f = .ok (rowMajor sorted.length (fun i j => ratToInt (F i j))) := by
  unfold cellsOf
  rw [foldlM_ok _ (fun acc i => acc ++ (List.range i).map (fun j => ratToInt (F i j)))]
  · rw [foldl_appendF]; rfl
  · intro i hi acc
    rw [foldlM_ok _ (fun acc j => acc ++ [ratToInt (F i j)])]
    · rw [foldl_snoc]
    · intro j hj acc'
      rw [h i j (List.mem_range.1 hj) (List.mem_range.1 hi)]
      rfl

/-! ### the cache rows -/

/-- the cache row the walk from the tip `x` fills -/
def rowOf (a : Arena) (t : RTI) (x : Nat) : List (Nat × Int) :=
  match upW a x t [] with
  | .ok p => p.1
  | _ => []

theorem find_row (g : Nat → List (Nat × Int)) : ∀ (ls : List Nat) (x : Nat), x ∈ ls →
    ((ls.map (fun x => (x, g x))).find? (fun p => p.1 == x)).map (·.2) = some (g x)
  | [], _, h => by simp at h
  | z :: ls, x, h => by
    simp only [List.map_cons, List.find?_cons]
    by_cases e : z = x
    · subst e; simp
    · have : (z == x) = false := by simp [e]
      simp only [this]
      exact find_row g ls x ((List.mem_cons.1 h).resolve_left (fun e' => e e'.symm))

theorem leafR_nonempty : ∀ t : RTI, ∃ x, x ∈ leafR t
  | .node i [] => ⟨i, by rw [leafR_leaf]; simp⟩
  | .node i (k :: ks) => by
    obtain ⟨x, hx⟩ := leafR_nonempty k
    exact ⟨x, by rw [leafR_cons, leafRL_cons]; simp [hx]⟩

theorem pathW_symm (w : Nat → Int) (t : RTI) (x y : Nat) : pathW w t x y = pathW w t y x := by
  have h := pathLen_symm (toRT w t) x y
  rw [pathLen_toRT, pathLen_toRT] at h
  cases h1 : pathW w t x y <;> cases h2 : pathW w t y x <;> simp_all [castO]

/-- a branch without a length anywhere in the tree: the walk from every tip is refused -/
theorem walkFrom_err {a : Arena} (hinv : Inv a) {r : Nat} {t : RTI} (hgr : getRoot a = some r) (ht : Rep a r t)
    (hlen : allLensW a t = false) {x : Nat} (hx : x ∈ leafR t) :
    walkFrom a x = .err "MissingBranchLengths" := by
  rw [walkFrom_eq hinv hgr ht hx]
  rcases upW_dich a x t [] hx with ⟨h1, _⟩ | ⟨_, h2⟩
  · rw [hlen] at h1; cases h1
  · rw [h2]; rfl

/-- every branch carries a length: the walk from a tip fills its cache row with the path lengths to all other tips -/
theorem walkFrom_ok {a : Arena} (hinv : Inv a) {r : Nat} {t : RTI} (hgr : getRoot a = some r) (ht : Rep a r t)
    (hlen : allLensW a t = true) {x : Nat} (hx : x ∈ leafR t) :
    walkFrom a x = .ok (rowOf a t x) ∧
      ∀ y, y ∈ leafR t → y ≠ x → ∃ v, kvGet (rowOf a t x) y = some v ∧ pathW (wOf a 0) t x y = some v := by
  have hn : (leafR t).Nodup := (leafR_sublist t).nodup (pre_nodup hinv.toW t r ht)
  rw [walkFrom_eq hinv hgr ht hx]
  rcases upW_dich a x t [] hx with ⟨_, p, h2⟩ | ⟨h1, _⟩
  · obtain ⟨acc', d⟩ := p
    have hs := upW_sem a x t [] acc' d hn hx h2
    have hrow : rowOf a t x = acc' := by simp [rowOf, h2]
    rw [hrow, h2]
    exact ⟨rfl, hs.2⟩
  · rw [hlen] at h1; cases h1

/-- the cell `(i, j)` of the matrix: the path length between taxon `i` and taxon `j` -/
def cellOf (a : Arena) (t : RTI) (i j : Nat) : Int :=
  (pathW (wOf a 0) t ((leafOrder a).getD i 0) ((leafOrder a).getD j 0)).getD 0

/-- **the walks and the cell loop**: when every branch carries a length, every walk succeeds, no cell reads an
    entry that was never written, and the cell of two taxa is the path length between them -/
theorem walkPart_ok {a : Arena} (hinv : Inv a) (h1 : AtMostOneRoot a) {r : Nat} {t : RTI} (hgr : getRoot a = some r)
    (ht : Rep a r t) (hlen : allLensW a t = true) :
    walkPart a = .ok ((leafOrder a).map (fun l => ((nd a l).name).getD ""),
        rowMajor (leafOrder a).length (cellOf a t)) ∧
      ∀ i j, j < i → i < (leafOrder a).length →
        pathW (wOf a 0) t ((leafOrder a).getD i 0) ((leafOrder a).getD j 0) = some (cellOf a t i j) := by
  have hperm := leafR_perm_leaves hinv h1 hgr ht
  have hrows : (leaves a).mapM (fun tip => (walkFrom a tip) >>= fun m => (pure (tip, m) : QR _))
      = .ok ((leaves a).map (fun x => (x, rowOf a t x))) := by
    apply mapM_ok
    intro x hx
    rw [(walkFrom_ok hinv hgr ht hlen (hperm.mem_iff.2 hx)).1]
    rfl
  have hOperm := leafOrder_perm a
  have hOnd := leafOrder_nodup a
  have hcell : ∀ i j, j < i → i < (leafOrder a).length →
      ∃ v, pathW (wOf a 0) t ((leafOrder a).getD i 0) ((leafOrder a).getD j 0) = some v ∧
        (if (leafOrder a).getD i 0 ≤ (leafOrder a).getD j 0
          then cacheGet ((leaves a).map (fun x => (x, rowOf a t x))) ((leafOrder a).getD i 0) ((leafOrder a).getD j 0)
          else cacheGet ((leaves a).map (fun x => (x, rowOf a t x))) ((leafOrder a).getD j 0) ((leafOrder a).getD i 0))
          = .ok v := by
    intro i j hj hi
    have hjl : j < (leafOrder a).length := by omega
    have ei : (leafOrder a).getD i 0 = (leafOrder a)[i] := by simp [List.getD_eq_getElem?_getD, hi]
    have ej : (leafOrder a).getD j 0 = (leafOrder a)[j] := by simp [List.getD_eq_getElem?_getD, hjl]
    rw [ei, ej]
    have hxy : (leafOrder a)[i] ≠ (leafOrder a)[j] := fun e => by
      have := (List.getElem_inj hOnd).1 e; omega
    have hxl : (leafOrder a)[i] ∈ leaves a := hOperm.mem_iff.1 (List.getElem_mem hi)
    have hyl : (leafOrder a)[j] ∈ leaves a := hOperm.mem_iff.1 (List.getElem_mem hjl)
    have hxt := hperm.mem_iff.2 hxl
    have hyt := hperm.mem_iff.2 hyl
    by_cases hle : (leafOrder a)[i] ≤ (leafOrder a)[j]
    · obtain ⟨v, hv1, hv2⟩ := (walkFrom_ok hinv hgr ht hlen hxt).2 _ hyt (Ne.symm hxy)
      refine ⟨v, hv2, ?_⟩
      simp only [hle, ↓reduceIte, cacheGet, find_row (rowOf a t) _ _ hxl, QR.ofOpt, QR.bind_ok, hv1]
    · obtain ⟨v, hv1, hv2⟩ := (walkFrom_ok hinv hgr ht hlen hyt).2 _ hxt hxy
      refine ⟨v, by rw [pathW_symm]; exact hv2, ?_⟩
      simp only [hle, ↓reduceIte, cacheGet, find_row (rowOf a t) _ _ hyl, QR.ofOpt, QR.bind_ok, hv1]
  constructor
  · rw [walkPart, hrows]
    simp only [QR.bind_ok]
    rw [cellsW_ok _ _ (cellOf a t) (fun i j hj hi => by
      obtain ⟨v, hv1, hv2⟩ := hcell i j hj hi
      rw [hv2]; simp only [cellOf, hv1, Option.getD_some])]
    rfl
  · intro i j hj hi
    obtain ⟨v, hv1, _⟩ := hcell i j hj hi
    simp only [cellOf, hv1, Option.getD_some]

/-! ### assembly -/

/-- **The transcription agrees with the specification-level model.**  For an arena that satisfies the invariant and
    holds at most one tree, `dmRecWalk` (the walks of `distance_matrix_recursive_impl`) and `dmRecursive` (the matrix of
    path lengths of the abstracted tree) return the same answer: the same refusal, or the same taxa and cells. -/
theorem dmRecWalk_eq_dmRecursive_inv (a : Arena) (hinv : Inv a) (h1 : AtMostOneRoot a) :
    dmRecWalk a = dmRecursive a := by
  rw [dmRecWalk_eq]
  by_cases h0 : a.size = 0
  · have hgr : getRoot a = none := by simp [getRoot, h0]
    simp [h0, dmRecursive, absRoot, root, hgr, QR.ofOpt]
  simp only [h0, ↓reduceIte]
  cases hgr : getRoot a with
  | none =>
    have hR : dmRecursive a = .ok ([], []) := by simp [dmRecursive, h0, hgr]
    have hl : leaves a = [] := by
      apply List.eq_nil_iff_forall_not_mem.2
      intro x hx
      exact no_root_no_live hinv hgr x (mem_leaves.1 hx).1
    have hO : leafOrder a = [] := by rw [leafOrder, hl, List.mergeSort_nil]
    rw [hR, walkPart, hO, hl]
    rfl
  | some r =>
    have hroot := getRoot_spec hgr
    obtain ⟨t, ht, _, hht, _⟩ := rep_total hinv r hroot.1
    rw [dmRecursive_eq hgr (absRoot_rep hgr ht hht), dmRecR, allLens_roseOf, absDM_roseOf]
    have hperm := leafR_perm_leaves hinv h1 hgr ht
    have hnames : (tipsWithNames (roseOf a t)).map (·.2) = (leafR t).map (fun l => (nd a l).name) := by
      rw [tipsWithNames_roseOf, List.map_map]; rfl
    have hpn : ((leafR t).map (fun l => (nd a l).name)).Perm ((leaves a).map (fun l => (nd a l).name)) :=
      hperm.map _
    simp only [hnames]
    rw [hpn.any_eq]
    have hdup : ((((leafR t).map (fun l => (nd a l).name)).filterMap id).eraseDups.length
        != ((leafR t).map (fun l => (nd a l).name)).length) = dupCheck ((leaves a).map (fun l => (nd a l).name)) :=
      dupCheck_perm hpn
    rw [hdup]
    by_cases hun : ((leaves a).map (fun l => (nd a l).name)).any Option.isNone = true
    · simp only [hun, ↓reduceIte]
    have hun' : ((leaves a).map (fun l => (nd a l).name)).any Option.isNone = false := by
      cases hb : ((leaves a).map (fun l => (nd a l).name)).any Option.isNone
      · rfl
      · exact absurd hb hun
    simp only [hun', Bool.false_eq_true, ↓reduceIte]
    by_cases hdp : dupCheck ((leaves a).map (fun l => (nd a l).name)) = true
    · simp only [hdp, ↓reduceIte]
    have hdp' : dupCheck ((leaves a).map (fun l => (nd a l).name)) = false := by
      cases hb : dupCheck ((leaves a).map (fun l => (nd a l).name))
      · rfl
      · exact absurd hb hdp
    simp only [hdp', Bool.false_eq_true, ↓reduceIte]
    obtain ⟨hnamed, hdist⟩ := names_distinct a (leaves a) hun' hdp'
    cases hlen : allLensW a t with
    | false =>
      -- a branch without a length: the first walk is refused
      simp only [Bool.not_false, ↓reduceIte]
      obtain ⟨x0, hx0⟩ := leafR_nonempty t
      cases hl : leaves a with
      | nil => rw [hl] at hperm; exact absurd (hperm.mem_iff.1 hx0) (by simp)
      | cons z zs =>
        have hz : z ∈ leafR t := hperm.mem_iff.2 (by rw [hl]; simp)
        rw [walkPart, hl]
        simp only [List.mapM, List.mapM.loop, walkFrom_err hinv hgr ht hlen hz, QR.bind_err]
    | true =>
      simp only [Bool.not_true, Bool.false_eq_true, ↓reduceIte]
      obtain ⟨hW, hP⟩ := walkPart_ok hinv h1 hgr ht hlen
      rw [hW]
      -- the taxa
      have hsorted : ((leafR t).map (fun i => (i, (nd a i).name))).mergeSort tipLe
          = (leafOrder a).map (fun i => (i, (nd a i).name)) := by
        have hm := List.map_mergeSort (r := slotLe a) (s := tipLe)
          (f := fun i => (i, (nd a i).name)) (l := leafR t) (fun _ _ _ _ => rfl)
        rw [← hm, leafOrder_eq]
        congr 1
        apply sorted_unique a _ _ hperm
        · intro x hx; exact hnamed x (hperm.mem_iff.1 hx)
        · intro x hx y hy
          exact hdist x (hperm.mem_iff.1 hx) y (hperm.mem_iff.1 hy)
      have hanyT : (tipsWithNames (roseOf a t)).any (fun p => p.2.isNone) = false := by
        rw [tipsWithNames_roseOf, List.any_map]
        have : ((leafR t).any ((fun p : Nat × Option String => p.2.isNone) ∘ fun i => (i, (nd a i).name)))
            = ((leafR t).map (fun l => (nd a l).name)).any Option.isNone := by
          rw [List.any_map]; rfl
        rw [this, hpn.any_eq, hun']
      rw [matrixOf_eq, hanyT, tipsWithNames_roseOf, hsorted]
      simp only [Bool.false_eq_true, ↓reduceIte]
      -- the cells
      rw [cellsOf_ok _ _ (fun i j => ((cellOf a t i j : Int) : Rat)) (fun i j hj hi => by
        rw [List.length_map] at hi
        have hv1 := hP i j hj hi
        have ei : (leafOrder a).getD i 0 = (leafOrder a)[i] := by simp [List.getD_eq_getElem?_getD, hi]
        have ej : (leafOrder a).getD j 0 = (leafOrder a)[j] := by
          simp [List.getD_eq_getElem?_getD, (by omega : j < (leafOrder a).length)]
        rw [getD_map_fst a _ i hi, getD_map_fst a _ j (by omega), pathLen_toRT]
        rw [ei, ej] at hv1
        rw [hv1]; rfl)]
      simp only [QR.bind_ok, List.map_map, List.length_map, ratToInt_intCast, Function.comp_def, QR.pure_eq]

/-- the same with the hypothesis `Good a` (invariant and tombstone discipline) that the reachable states satisfy -/
theorem dmRecWalk_eq_dmRecursive (a : Arena) (g : Good a) (h1 : AtMostOneRoot a) : dmRecWalk a = dmRecursive a :=
  dmRecWalk_eq_dmRecursive_inv a g.1 h1

/-! ### the direct statement: what `dmRecWalk` returns -/

theorem rowMajor_succ (n : Nat) (G : Nat → Nat → Int) :
    rowMajor (n + 1) G = rowMajor n G ++ (List.range n).map (G n) := by
  simp only [rowMajor, List.range_succ, List.flatMap_append, List.flatMap_singleton]

theorem rowMajor_length (G : Nat → Nat → Int) : ∀ n, (rowMajor n G).length = Tri.T n
  | 0 => rfl
  | n + 1 => by rw [rowMajor_succ, List.length_append, rowMajor_length G n]; simp [Tri.T]

theorem rowMajor_getD (G : Nat → Nat → Int) : ∀ n i j, j < i → i < n → (rowMajor n G).getD (Tri.T i + j) 0 = G i j
  | 0, _, _, _, h => by omega
  | n + 1, i, j, hj, hi => by
    rw [rowMajor_succ, List.getD_eq_getElem?_getD]
    by_cases hin : i < n
    · have hlt : Tri.T i + j < (rowMajor n G).length := by
        rw [rowMajor_length]; have := Tri.T_succ_le hin; omega
      rw [List.getElem?_append_left hlt, ← List.getD_eq_getElem?_getD]
      exact rowMajor_getD G n i j hj hin
    · have : i = n := by omega
      subst this
      rw [List.getElem?_append_right (by rw [rowMajor_length]; omega), rowMajor_length]
      simp [hj]

mutual
theorem allLensW_of_lens {a : Arena} (hinv : Inv a)
    (hlen : ∀ i, live a i → (nd a i).parent.isSome → (nd a i).pedge.isSome) :
    ∀ (t : RTI) (c : Nat), Rep a c t → allLensW a t = true
  | .node j ks, c, h => by
    simp only [Rep] at h
    obtain ⟨rfl, hl, hk⟩ := h
    rw [allLensW_node]
    exact allLensWL_of_lens hinv hlen ks _ c hk (fun c' hc' => (hinv.child_ok c c' hl hc').2.1)
theorem allLensWL_of_lens {a : Arena} (hinv : Inv a)
    (hlen : ∀ i, live a i → (nd a i).parent.isSome → (nd a i).pedge.isSome) :
    ∀ (ks : List RTI) (cs : List Nat) (cur : Nat), RepL a cs ks → (∀ c ∈ cs, (nd a c).parent = some cur) →
      allLensWL a ks = true
  | [], _, _, _, _ => allLensWL_nil a
  | k :: ks, cs, cur, h, hpar => by
    cases cs with
    | nil => simp [RepL] at h
    | cons c cs =>
      simp only [RepL] at h
      have hp := hpar c (by simp)
      rw [allLensWL_cons, rep_rid h.1, allLensW_of_lens hinv hlen k c h.1,
        allLensWL_of_lens hinv hlen ks cs cur h.2 (fun c' hc' => hpar c' (by simp [hc']))]
      simp [hlen c (rep_live h.1) (by simp [hp])]
end

theorem allLensWL_pedge {a : Arena} : ∀ (ks : List RTI), allLensWL a ks = true →
    ∀ i ∈ preL ks, (nd a i).pedge.isSome
  | [], _, i, hi => by simp [preL] at hi
  | .node j ks' :: ks, h, i, hi => by
    rw [allLensWL_cons, allLensW_node] at h
    simp only [Bool.and_eq_true] at h
    simp only [preL, pre, List.cons_append, List.mem_cons, List.mem_append] at hi
    rcases hi with rfl | hi | hi
    · exact h.1.1
    · exact allLensWL_pedge ks' h.1.2 i hi
    · exact allLensWL_pedge ks h.2 i hi

theorem nodup_map_of_inj {α β : Type} (f : α → β) : ∀ l : List α, l.Nodup →
    (∀ x ∈ l, ∀ y ∈ l, f x = f y → x = y) → (l.map f).Nodup
  | [], _, _ => by simp
  | z :: l, hn, h => by
    rw [List.nodup_cons] at hn
    rw [List.map_cons, List.nodup_cons]
    refine ⟨?_, nodup_map_of_inj f l hn.2 (fun x hx y hy => h x (by simp [hx]) y (by simp [hy]))⟩
    intro hm
    obtain ⟨y, hy, e⟩ := List.mem_map.1 hm
    have := h y (by simp [hy]) z (by simp) e
    exact hn.1 (this ▸ hy)

theorem nodup_of_map_some : ∀ l : List String, (l.map some).Nodup → l.Nodup
  | [], _ => by simp
  | x :: l, h => by
    rw [List.map_cons, List.nodup_cons] at h
    rw [List.nodup_cons]
    exact ⟨fun hm => h.1 (List.mem_map.2 ⟨x, hm, rfl⟩), nodup_of_map_some l h.2⟩

/-- tips that are all named, with pairwise different names, pass both tests of `init_leaf_index` -/
theorem checks_pass (a : Arena) (ls : List Nat) (hnd : ls.Nodup) (hnamed : ∀ l ∈ ls, (nd a l).name.isSome)
    (hdist : ∀ x ∈ ls, ∀ y ∈ ls, (nd a x).name = (nd a y).name → x = y) :
    (ls.map (fun l => (nd a l).name)).any Option.isNone = false ∧
      dupCheck (ls.map (fun l => (nd a l).name)) = false := by
  have h1 : (ls.map (fun l => (nd a l).name)).any Option.isNone = false := by
    rw [List.any_eq_false]
    intro o ho
    obtain ⟨l, hl, rfl⟩ := List.mem_map.1 ho
    have := hnamed l hl
    cases hn : (nd a l).name <;> simp_all
  refine ⟨h1, (dupCheck_false_iff _).2 ?_⟩
  have he := all_some_eq _ h1
  have hn := nodup_map_of_inj (fun l => (nd a l).name) ls hnd hdist
  constructor
  · have := congrArg List.length he
    rw [List.length_map (f := some)] at this
    exact this.symm
  · rw [he] at hn
    exact nodup_of_map_some _ hn

/-- **What the transcription returns.**  An arena that satisfies the invariant, holds at most one tree and has at
    least one slot; all tips named, with pairwise different names; every node other than the root has a branch
    length.  Then `dmRecWalk` succeeds: the taxa are the tip names in sorted order (`leafOrder a`), there are
    `n(n-1)/2` cells, and the cell of taxa `j < i` is the path length between the two tips in the tree the arena
    represents. -/
theorem dmRecWalk_correct (a : Arena) (hinv : Inv a) (h1 : AtMostOneRoot a) (hne : a.size ≠ 0)
    (hnamed : ∀ l ∈ leaves a, (nd a l).name.isSome)
    (hdist : ∀ x ∈ leaves a, ∀ y ∈ leaves a, (nd a x).name = (nd a y).name → x = y)
    (hlen : ∀ i, live a i → (nd a i).parent.isSome → (nd a i).pedge.isSome) :
    ∃ cells, dmRecWalk a = .ok ((leafOrder a).map (fun l => ((nd a l).name).getD ""), cells) ∧
      cells.length = Tri.T (leafOrder a).length ∧
      ∀ t, absRoot a = .ok t → ∀ (i j : Nat) (_ : j < i) (hi : i < (leafOrder a).length),
        DM.pathLen (absDM 0 t) (leafOrder a)[i] (leafOrder a)[j]
          = some (((cells.getD (MX.cell i j) 0 : Int)) : Rat) := by
  obtain ⟨hc1, hc2⟩ := checks_pass a (leaves a) (leaves_nodup a) hnamed hdist
  have hW : dmRecWalk a = walkPart a := by
    rw [dmRecWalk_eq]; simp only [hne, hc1, hc2, Bool.false_eq_true, ↓reduceIte]
  cases hgr : getRoot a with
  | none =>
    have hl : leaves a = [] := by
      apply List.eq_nil_iff_forall_not_mem.2
      intro x hx
      exact no_root_no_live hinv hgr x (mem_leaves.1 hx).1
    have hO : leafOrder a = [] := by rw [leafOrder, hl, List.mergeSort_nil]
    refine ⟨[], ?_, by rw [hO]; rfl, ?_⟩
    · rw [hW, walkPart, hO, hl]; rfl
    · intro t _ i j _ hi
      rw [hO] at hi; simp at hi
  | some r =>
    have hroot := getRoot_spec hgr
    obtain ⟨t, ht, _, hht, _⟩ := rep_total hinv r hroot.1
    have hall := allLensW_of_lens hinv hlen t r ht
    obtain ⟨hP1, hP2⟩ := walkPart_ok hinv h1 hgr ht hall
    refine ⟨_, by rw [hW]; exact hP1, rowMajor_length _ _, ?_⟩
    intro t' ht' i j hj hi
    rw [absRoot_rep hgr ht hht] at ht'
    simp only [QR.ok.injEq] at ht'
    subst ht'
    have hjl : j < (leafOrder a).length := by omega
    have ei : (leafOrder a).getD i 0 = (leafOrder a)[i] := by simp [List.getD_eq_getElem?_getD, hi]
    have ej : (leafOrder a).getD j 0 = (leafOrder a)[j] := by simp [List.getD_eq_getElem?_getD, hjl]
    have hp := hP2 i j hj hi
    rw [ei, ej] at hp
    have hcell : MX.cell i j = Tri.T i + j := by
      simp only [MX.cell, gt_iff_lt, hj, ↓reduceIte, Tri.idx_eq]
    rw [absDM_roseOf, pathLen_toRT, hp, hcell, rowMajor_getD _ _ i j hj hi]
    rfl

/-- **Refusal.**  Same arena, but some node other than the root lacks a branch length: the transcription answers
    `MissingBranchLengths` (the walk from the first tip crosses every branch of the tree). -/
theorem dmRecWalk_missing (a : Arena) (hinv : Inv a) (h1 : AtMostOneRoot a)
    (hnamed : ∀ l ∈ leaves a, (nd a l).name.isSome)
    (hdist : ∀ x ∈ leaves a, ∀ y ∈ leaves a, (nd a x).name = (nd a y).name → x = y)
    (i : Nat) (hli : live a i) (hpi : (nd a i).parent.isSome) (hei : (nd a i).pedge = none) :
    dmRecWalk a = .err "MissingBranchLengths" := by
  obtain ⟨hc1, hc2⟩ := checks_pass a (leaves a) (leaves_nodup a) hnamed hdist
  have hne : a.size ≠ 0 := by have := hli.1; omega
  have hW : dmRecWalk a = walkPart a := by
    rw [dmRecWalk_eq]; simp only [hne, hc1, hc2, Bool.false_eq_true, ↓reduceIte]
  cases hgr : getRoot a with
  | none => exact absurd hli (no_root_no_live hinv hgr i)
  | some r =>
    have hroot := getRoot_spec hgr
    obtain ⟨t, ht, _, _, _⟩ := rep_total hinv r hroot.1
    have hperm := leafR_perm_leaves hinv h1 hgr ht
    -- the node without a length lies strictly below the root
    have hall : allLensW a t = false := by
      cases hb : allLensW a t with
      | false => rfl
      | true =>
        exfalso
        obtain ⟨r', k, hr', hb'⟩ := root_above hinv.toW _ i hli (Nat.le_refl _)
        have hrr : r' = r := h1 r' r hr' hroot
        subst hrr
        have hmem : i ∈ pre t := (mem_pre_iff hinv.toW t r' ht i).2 ⟨k, hb'⟩
        cases t with
        | node j ks =>
          have hj : j = r' := by simp only [Rep] at ht; exact ht.1.symm
          simp only [pre, List.mem_cons] at hmem
          rw [allLensW_node] at hb
          rcases hmem with e | hmem
          · rw [e, hj, hroot.2] at hpi; simp at hpi
          · have := allLensWL_pedge ks hb i hmem
            rw [hei] at this; simp at this
    obtain ⟨x0, hx0⟩ := leafR_nonempty t
    cases hl : leaves a with
    | nil => rw [hl] at hperm; exact absurd (hperm.mem_iff.1 hx0) (by simp)
    | cons z zs =>
      have hz : z ∈ leafR t := hperm.mem_iff.2 (by rw [hl]; simp)
      rw [hW, walkPart, hl]
      simp only [List.mapM, List.mapM.loop, walkFrom_err hinv hgr ht hall hz, QR.bind_err]

/-! ### the possible outcomes -/

theorem walkPart_noroot {a : Arena} (hinv : Inv a) (hgr : getRoot a = none) : walkPart a = .ok ([], []) := by
  have hl : leaves a = [] := by
    apply List.eq_nil_iff_forall_not_mem.2
    intro x hx
    exact no_root_no_live hinv hgr x (mem_leaves.1 hx).1
  have hO : leafOrder a = [] := by rw [leafOrder, hl, List.mergeSort_nil]
  rw [walkPart, hO, hl]; rfl

theorem walkPart_err {a : Arena} (hinv : Inv a) (h1 : AtMostOneRoot a) {r : Nat} {t : RTI} (hgr : getRoot a = some r)
    (ht : Rep a r t) (hlen : allLensW a t = false) : walkPart a = .err "MissingBranchLengths" := by
  have hperm := leafR_perm_leaves hinv h1 hgr ht
  obtain ⟨x0, hx0⟩ := leafR_nonempty t
  cases hl : leaves a with
  | nil => rw [hl] at hperm; exact absurd (hperm.mem_iff.1 hx0) (by simp)
  | cons z zs =>
    have hz : z ∈ leafR t := hperm.mem_iff.2 (by rw [hl]; simp)
    rw [walkPart, hl]
    simp only [List.mapM, List.mapM.loop, walkFrom_err hinv hgr ht hlen hz, QR.bind_err]

/-- **The transcription never goes wrong**: on an arena that satisfies the invariant and holds at most one tree the
    answer is one of the four refusals of the real function or a matrix -- the walk never exhausts its fuel, never
    meets a removed slot, and no cell reads a cache entry that was never written (the `INFINITY` of the code). -/
theorem dmRecWalk_total (a : Arena) (hinv : Inv a) (h1 : AtMostOneRoot a) :
    (dmRecWalk a = .err "RootNotFound" ∧ a.size = 0) ∨
    (dmRecWalk a = .err "UnnamedLeaves" ∧ ∃ l ∈ leaves a, (nd a l).name = none) ∨
    (dmRecWalk a = .err "DuplicateLeafNames" ∧
      ∃ x ∈ leaves a, ∃ y ∈ leaves a, x ≠ y ∧ (nd a x).name = (nd a y).name) ∨
    (dmRecWalk a = .err "MissingBranchLengths" ∧
      ∃ i, live a i ∧ (nd a i).parent.isSome ∧ (nd a i).pedge = none) ∨
    (∃ names cells, dmRecWalk a = .ok (names, cells)) := by
  rw [dmRecWalk_eq]
  by_cases h0 : a.size = 0
  · left; simp [h0]
  right
  simp only [h0, ↓reduceIte]
  by_cases hun : ((leaves a).map (fun l => (nd a l).name)).any Option.isNone = true
  · left
    simp only [hun, ↓reduceIte, true_and]
    rw [List.any_eq_true] at hun
    obtain ⟨o, ho, hn⟩ := hun
    obtain ⟨l, hl, rfl⟩ := List.mem_map.1 ho
    exact ⟨l, hl, by simpa using hn⟩
  right
  simp only [hun, Bool.false_eq_true, ↓reduceIte]
  by_cases hdp : dupCheck ((leaves a).map (fun l => (nd a l).name)) = true
  · left
    simp only [hdp, ↓reduceIte, true_and]
    apply Classical.byContradiction
    intro hcon
    have hun' : ((leaves a).map (fun l => (nd a l).name)).any Option.isNone = false := by
      cases hb : ((leaves a).map (fun l => (nd a l).name)).any Option.isNone
      · rfl
      · exact absurd hb hun
    have hnamed : ∀ l ∈ leaves a, (nd a l).name.isSome := by
      intro x hx
      rw [List.any_eq_false] at hun'
      have := hun' _ (List.mem_map.2 ⟨x, hx, rfl⟩)
      cases hn : (nd a x).name <;> simp_all
    have hdist : ∀ x ∈ leaves a, ∀ y ∈ leaves a, (nd a x).name = (nd a y).name → x = y := by
      intro x hx y hy e
      apply Classical.byContradiction
      intro hne
      exact hcon ⟨x, hx, y, hy, hne, e⟩
    have := (checks_pass a (leaves a) (leaves_nodup a) hnamed hdist).2
    rw [this] at hdp; cases hdp
  right
  simp only [hdp, Bool.false_eq_true, ↓reduceIte]
  cases hgr : getRoot a with
  | none => right; exact ⟨_, _, walkPart_noroot hinv hgr⟩
  | some r =>
    have hroot := getRoot_spec hgr
    obtain ⟨t, ht, _, _, _⟩ := rep_total hinv r hroot.1
    cases hlen : allLensW a t with
    | true => right; exact ⟨_, _, (walkPart_ok hinv h1 hgr ht hlen).1⟩
    | false =>
      left
      refine ⟨walkPart_err hinv h1 hgr ht hlen, ?_⟩
      apply Classical.byContradiction
      intro hcon
      have hl : ∀ i, live a i → (nd a i).parent.isSome → (nd a i).pedge.isSome := by
        intro i hli hpi
        cases he : (nd a i).pedge with
        | some _ => rfl
        | none => exact absurd ⟨i, hli, hpi, he⟩ hcon
      rw [allLensW_of_lens hinv hl t r ht] at hlen
      cases hlen

end DMF
