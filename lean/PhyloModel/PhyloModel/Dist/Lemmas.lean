import PhyloModel.Dist.Basic
namespace DM

theorem mem_shift {d : Rat} {c : List (Nat × Rat)} {x : Nat} {v : Rat} :
    (x, v) ∈ shift d c ↔ ∃ v0, (x, v0) ∈ c ∧ v = v0 + d := by
  simp only [shift, List.mem_map, Prod.mk.injEq]
  constructor
  · rintro ⟨⟨a, b⟩, hm, h1, h2⟩; exact ⟨b, by simpa [← h1] using hm, h2.symm⟩
  · rintro ⟨v0, hm, rfl⟩; exact ⟨(x, v0), hm, rfl, rfl⟩

mutual
theorem cache_mem_leaf : ∀ (t : RT) (x : Nat) (d : Rat), (x, d) ∈ cache t → x ∈ leafIds t
  | .node i _ [], x, d, h => by simp [cache] at h; simp [leafIds, h.1]
  | .node _ _ (k :: ks), x, d, h => by
    simp only [cache] at h; simp only [leafIds]; exact cacheL_mem_leaf (k :: ks) x d h
theorem cacheL_mem_leaf : ∀ (ks : List RT) (x : Nat) (d : Rat), (x, d) ∈ cacheL ks → x ∈ leafIdsL ks
  | [], _, _, h => by simp [cacheL] at h
  | k :: ks, x, d, h => by
    simp only [cacheL, List.mem_append] at h
    simp only [leafIdsL, List.mem_append]
    rcases h with h | h
    · obtain ⟨v0, hm, _⟩ := mem_shift.1 h
      exact Or.inl (cache_mem_leaf k x v0 hm)
    · exact Or.inr (cacheL_mem_leaf ks x d h)
end

mutual
theorem depthTo_mem : ∀ (t : RT) (x : Nat) (d : Rat), depthTo t x = some d → x ∈ leafIds t
  | .node i _ [], x, d, h => by
    simp only [depthTo] at h; split at h <;> simp_all [leafIds]
  | .node _ _ (k :: ks), x, d, h => by
    simp only [depthTo] at h; simp only [leafIds]; exact depthToL_mem (k :: ks) x d h
theorem depthToL_mem : ∀ (ks : List RT) (x : Nat) (d : Rat), depthToL ks x = some d → x ∈ leafIdsL ks
  | [], _, _, h => by simp [depthToL] at h
  | k :: ks, x, d, h => by
    simp only [depthToL] at h
    simp only [leafIdsL, List.mem_append]
    cases hk : depthTo k x with
    | some d0 => exact Or.inl (depthTo_mem k x d0 hk)
    | none => rw [hk] at h; exact Or.inr (depthToL_mem ks x d h)
end

theorem depthTo_none_of_not_mem (t : RT) (x : Nat) (h : x ∉ leafIds t) : depthTo t x = none := by
  cases hd : depthTo t x with
  | none => rfl
  | some d => exact absurd (depthTo_mem t x d hd) h

mutual
theorem cache_depthTo : ∀ (t : RT) (x : Nat) (d : Rat), (leafIds t).Nodup → (x, d) ∈ cache t →
    depthTo t x = some d
  | .node i _ [], x, d, _, h => by simp [cache] at h; simp [depthTo, h.1, h.2]
  | .node _ _ (k :: ks), x, d, hn, h => by
    simp only [cache] at h; simp only [leafIds] at hn; simp only [depthTo]
    exact cacheL_depthToL (k :: ks) x d hn h
theorem cacheL_depthToL : ∀ (ks : List RT) (x : Nat) (d : Rat), (leafIdsL ks).Nodup → (x, d) ∈ cacheL ks →
    depthToL ks x = some d
  | [], _, _, _, h => by simp [cacheL] at h
  | k :: ks, x, d, hn, h => by
    simp only [leafIdsL, List.nodup_append] at hn
    obtain ⟨hn1, hn2, hdisj⟩ := hn
    simp only [cacheL, List.mem_append] at h
    simp only [depthToL]
    rcases h with h | h
    · obtain ⟨v0, hm, rfl⟩ := mem_shift.1 h
      rw [cache_depthTo k x v0 hn1 hm]
    · have hx := cacheL_mem_leaf ks x d h
      have : x ∉ leafIds k := fun hk => hdisj x hk x hx rfl
      rw [depthTo_none_of_not_mem k x this]
      exact cacheL_depthToL ks x d hn2 h
end

mutual
theorem pairs_mem_leaf : ∀ (t : RT) (x y : Nat) (d : Rat), ((x, y), d) ∈ pairs t →
    x ∈ leafIds t ∧ y ∈ leafIds t
  | .node i _ [], x, y, d, h => by simp [pairs, pairsL] at h
  | .node _ _ (k :: ks), x, y, d, h => by
    simp only [pairs] at h; simp only [leafIds]; exact pairsL_mem_leaf (k :: ks) x y d h
theorem pairsL_mem_leaf : ∀ (ks : List RT) (x y : Nat) (d : Rat), ((x, y), d) ∈ pairsL ks →
    x ∈ leafIdsL ks ∧ y ∈ leafIdsL ks
  | [], _, _, _, h => by simp [pairsL] at h
  | k :: ks, x, y, d, h => by
    simp only [pairsL, List.mem_append] at h
    simp only [leafIdsL, List.mem_append]
    rcases h with h | h | h
    · have := pairs_mem_leaf k x y d h; exact ⟨Or.inl this.1, Or.inl this.2⟩
    · simp only [cross, List.mem_flatMap, List.mem_map, Prod.mk.injEq] at h
      obtain ⟨⟨a, da⟩, hma, ⟨b, db⟩, hmb, ⟨h1, h2⟩, _⟩ := h
      simp only at h1 h2; subst h1 h2
      obtain ⟨v0, hm, _⟩ := mem_shift.1 hma
      exact ⟨Or.inl (cache_mem_leaf k a v0 hm), Or.inr (cacheL_mem_leaf ks b db hmb)⟩
    · have := pairsL_mem_leaf ks x y d h; exact ⟨Or.inr this.1, Or.inr this.2⟩
end

mutual
theorem mem_depthTo : ∀ (t : RT) (x : Nat), x ∈ leafIds t → ∃ d, depthTo t x = some d
  | .node i _ [], x, h => by simp [leafIds] at h; exact ⟨0, by simp [depthTo, h]⟩
  | .node _ _ (k :: ks), x, h => by
    simp only [leafIds] at h; simp only [depthTo]; exact mem_depthToL (k :: ks) x h
theorem mem_depthToL : ∀ (ks : List RT) (x : Nat), x ∈ leafIdsL ks → ∃ d, depthToL ks x = some d
  | [], _, h => by simp [leafIdsL] at h
  | k :: ks, x, h => by
    simp only [leafIdsL, List.mem_append] at h
    simp only [depthToL]
    cases hk : depthTo k x with
    | some d0 => exact ⟨_, rfl⟩
    | none =>
      rcases h with h | h
      · obtain ⟨d, hd⟩ := mem_depthTo k x h; rw [hd] at hk; cases hk
      · exact mem_depthToL ks x h
end

-- every contribution of the fast algorithm carries the LCA-based path length of its pair
mutual
theorem pairs_correct : ∀ (t : RT) (x y : Nat) (d : Rat), (leafIds t).Nodup → ((x, y), d) ∈ pairs t →
    pathLen t x y = some d
  | .node i _ [], x, y, d, _, h => by simp [pairs, pairsL] at h
  | .node _ _ (k :: ks), x, y, d, hn, h => by
    simp only [pairs] at h; simp only [leafIds] at hn; simp only [pathLen]
    exact pairsL_correct (k :: ks) x y d hn h
theorem pairsL_correct : ∀ (ks : List RT) (x y : Nat) (d : Rat), (leafIdsL ks).Nodup →
    ((x, y), d) ∈ pairsL ks → pathLenL ks x y = some d
  | [], _, _, _, _, h => by simp [pairsL] at h
  | k :: ks, x, y, d, hn, h => by
    simp only [leafIdsL, List.nodup_append] at hn
    obtain ⟨hn1, hn2, hdisj⟩ := hn
    simp only [pairsL, List.mem_append] at h
    simp only [pathLenL]
    rcases h with h | h | h
    · have hm := pairs_mem_leaf k x y d h
      obtain ⟨dx, hdx⟩ := mem_depthTo k x hm.1
      obtain ⟨dy, hdy⟩ := mem_depthTo k y hm.2
      rw [hdx, hdy]
      exact pairs_correct k x y d hn1 h
    · simp only [cross, List.mem_flatMap, List.mem_map, Prod.mk.injEq] at h
      obtain ⟨⟨a, da⟩, hma, ⟨b, db⟩, hmb, ⟨h1, h2⟩, h3⟩ := h
      simp only at h1 h2 h3; subst h1 h2 h3
      obtain ⟨v0, hm, rfl⟩ := mem_shift.1 hma
      have hb := cacheL_mem_leaf ks b db hmb
      have hbk : b ∉ leafIds k := fun hk => hdisj b hk b hb rfl
      rw [cache_depthTo k a v0 hn1 hm, depthTo_none_of_not_mem k b hbk,
          cacheL_depthToL ks b db hn2 hmb]
      simp
    · have hm := pairsL_mem_leaf ks x y d h
      have hxk : x ∉ leafIds k := fun hk => hdisj x hk x hm.1 rfl
      have hyk : y ∉ leafIds k := fun hk => hdisj y hk y hm.2 rfl
      rw [depthTo_none_of_not_mem k x hxk, depthTo_none_of_not_mem k y hyk]
      exact pairsL_correct ks x y d hn2 h
end

end DM
