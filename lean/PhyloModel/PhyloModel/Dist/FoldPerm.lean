import PhyloModel.Dist.FoldStep
/-! # The contributions of one iteration, as a permutation of the rose-level `crossWL`

The loop of `dmStep` enumerates (pair of children) × (leaf of the first) × (leaf of the second); the
rose-level definition enumerates (child) × (leaf of the child) × (leaf of any later child).  Both list the
same contributions (`stepCs_perm`). -/
namespace DMF
open AR DMW

theorem flatMap_perm_left {α β : Type} (f g : α → List β) : ∀ l : List α, (∀ x ∈ l, (f x).Perm (g x)) →
    (l.flatMap f).Perm (l.flatMap g)
  | [], _ => by simp
  | x :: l, h => by
    simp only [List.flatMap_cons]
    exact List.Perm.append (h x (by simp)) (flatMap_perm_left f g l (fun y hy => h y (by simp [hy])))

theorem flatMap_comm_perm {α β γ : Type} (f : α → β → List γ) (l2 : List β) : ∀ l1 : List α,
    (l1.flatMap fun a => l2.flatMap fun b => f a b).Perm (l2.flatMap fun b => l1.flatMap fun a => f a b)
  | [] => by simp
  | a :: l1 => by
    simp only [List.flatMap_cons]
    refine ((flatMap_comm_perm f l2 l1).append_left _).trans ?_
    exact (flatMap_append_perm (fun b => f a b) (fun b => l1.flatMap fun a => f a b) l2).symm

theorem shiftI_perm (d : Int) {m m' : List (Nat × Int)} (h : m.Perm m') : (shiftI d m).Perm (shiftI d m') :=
  h.map _

theorem crossI_perm {A A' B B' : List (Nat × Int)} (hA : A.Perm A') (hB : B.Perm B') :
    (crossI A B).Perm (crossI A' B') := by
  simp only [crossI]
  refine (hA.flatMap_right _).trans ?_
  apply flatMap_perm_left
  intro p _
  exact hB.map _

theorem crossI_flatMap_right (A : List (Nat × Int)) (S : Nat → List (Nat × Int)) (cs : List Nat) :
    (crossI A (cs.flatMap S)).Perm (cs.flatMap (fun c => crossI A (S c))) := by
  simp only [crossI, List.map_flatMap]
  exact flatMap_comm_perm (fun p c => (S c).map (fun q => ((p.1, q.1), p.2 + q.2))) cs A

/-- child × leaf × (leaf of a later child) -/
def crossS (S : Nat → List (Nat × Int)) : List Nat → List ((Nat × Nat) × Int)
  | [] => []
  | c :: cs => crossI (S c) (cs.flatMap S) ++ crossS S cs

theorem stepCs_perm_crossS (e : Nat → Int) (m : Nat → List (Nat × Int)) : ∀ cs : List Nat,
    (stepCs e m cs).Perm (crossS (fun c => shiftI (e c) (m c)) cs)
  | [] => by simp [stepCs, pairsOfList, crossS]
  | c :: cs => by
    have ih := stepCs_perm_crossS e m cs
    simp only [stepCs] at ih
    simp only [stepCs, pairsOfList, List.flatMap_append, List.flatMap_map, crossS]
    refine List.Perm.append ?_ ih
    exact (crossI_flatMap_right _ (fun c => shiftI (e c) (m c)) cs).symm

theorem cacheWL_map (w : Nat → Int) (tr : Nat → RTI) : ∀ cs : List Nat, (∀ c ∈ cs, rid (tr c) = c) →
    cacheWL w (cs.map tr) = cs.flatMap (fun c => shiftI (w c) (cacheW w (tr c)))
  | [], _ => by simp [cacheWL_nil]
  | c :: cs, h => by
    rw [List.map_cons, cacheWL_cons, List.flatMap_cons, h c (by simp),
      cacheWL_map w tr cs (fun c' hc' => h c' (by simp [hc']))]

theorem leafRL_map (tr : Nat → RTI) : ∀ cs : List Nat, leafRL (cs.map tr) = cs.flatMap (fun c => leafR (tr c))
  | [] => by simp [leafRL_nil]
  | c :: cs => by rw [List.map_cons, leafRL_cons, List.flatMap_cons, leafRL_map tr cs]

theorem crossS_perm_crossWL (w : Nat → Int) (tr : Nat → RTI) (m : Nat → List (Nat × Int)) : ∀ cs : List Nat,
    (∀ c ∈ cs, rid (tr c) = c) → (∀ c ∈ cs, (m c).Perm (cacheW w (tr c))) →
    (crossS (fun c => shiftI (w c) (m c)) cs).Perm (crossWL w (cs.map tr))
  | [], _, _ => by simp [crossS, crossWL]
  | c :: cs, hr, hm => by
    have hr' : ∀ c' ∈ cs, rid (tr c') = c' := fun c' hc' => hr c' (by simp [hc'])
    have hm' : ∀ c' ∈ cs, (m c').Perm (cacheW w (tr c')) := fun c' hc' => hm c' (by simp [hc'])
    simp only [crossS, List.map_cons, crossWL]
    refine List.Perm.append ?_ (crossS_perm_crossWL w tr m cs hr' hm')
    rw [hr c (by simp), cacheWL_map w tr cs hr']
    apply crossI_perm (shiftI_perm _ (hm c (by simp)))
    apply flatMap_perm_left
    intro c' hc'
    exact shiftI_perm _ (hm' c' hc')

/-- the contributions of one iteration are those of the rose-level definition at this node -/
theorem stepCs_perm (w : Nat → Int) (tr : Nat → RTI) (m : Nat → List (Nat × Int)) (cs : List Nat)
    (hr : ∀ c ∈ cs, rid (tr c) = c) (hm : ∀ c ∈ cs, (m c).Perm (cacheW w (tr c))) :
    (stepCs w m cs).Perm (crossWL w (cs.map tr)) :=
  (stepCs_perm_crossS w m cs).trans (crossS_perm_crossWL w tr m cs hr hm)

theorem cacheW_node_eq (w : Nat → Int) (i : Nat) (ks : List RTI) :
    cacheW w (.node i ks) = (if ks.isEmpty then [(i, 0)] else []) ++ cacheWL w ks := by
  cases ks with
  | nil => rw [cacheW_leaf, cacheWL_nil]; simp
  | cons k ks => rw [cacheW_cons]; simp

theorem leafR_node_eq (i : Nat) (ks : List RTI) :
    leafR (.node i ks) = (if ks.isEmpty then [i] else []) ++ leafRL ks := by
  cases ks with
  | nil => rw [leafR_leaf, leafRL_nil]; simp
  | cons k ks => rw [leafR_cons]; simp

theorem repL_map_mem {a : Arena} (tr : Nat → RTI) : ∀ cs : List Nat, RepL a cs (cs.map tr) → ∀ c ∈ cs, Rep a c (tr c)
  | [], _, c, hc => by simp at hc
  | c0 :: cs, h, c, hc => by
    simp only [List.map_cons, RepL] at h
    simp only [List.mem_cons] at hc
    rcases hc with rfl | hc
    · exact h.1
    · exact repL_map_mem tr cs h.2 c hc

end DMF
