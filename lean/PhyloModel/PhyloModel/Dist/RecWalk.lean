import PhyloModel.Dist.Fold
/-! Executable TRANSCRIPTION of `Tree::distance_matrix_recursive` (`src/tree/tree_impl.rs`).

* `walkF` is `distance_matrix_recursive_impl`: the walk from `current` away from `prev` over the UNDIRECTED tree
  (neighbours = the children in child order, then the parent), the running length handed down, a write into
  `lengths[current]` at every tip reached from somewhere (`prev.is_some() && is_tip()`), the refusal
  `MissingBranchLengths` as soon as a neighbour other than `prev` is joined by a branch without a length (for a
  child the length is the CHILD's `parent_edge`, for the parent it is `current`'s own).  The slice `lengths` is an
  association list (later write wins); an id that was never written reads as the code's `INFINITY`.
  Recursion is on fuel: `none` = fuel exhausted.
* `dmRecWalk` is `distance_matrix_recursive`: `init_leaf_index` (refusals `IsEmpty` -- reported under the name the
  other model entry points use for an arena without slots, `RootNotFound` --, `UnnamedLeaves`,
  `DuplicateLeafNames`), one walk per tip of `get_leaves()` into its own row of the cache, then the cells of the
  triangular matrix over the SORTED taxa; the cell of two taxa is read from the cache row of the one that comes
  FIRST in `get_leaves()` (`combinations(2)` of the leaves in arena order; `matrix.set` stores by name).

`Dist/RecWalkCorrect.lean` proves `dmRecWalk a = dmRecursive a` for every well-formed arena holding one tree. -/
namespace DMF
open AR

/-- the neighbours of a node in the order the loop of `distance_matrix_recursive_impl` visits them, each with the
    length of the branch that joins it to the node -/
def neighbours (a : Arena) (n : Node) : List (Nat × Option Int) :=
  n.children.map (fun c => (c, (nd a c).pedge)) ++ (match n.parent with | some p => [(p, n.pedge)] | none => [])

/-- one iteration of the loop over the neighbours; `rec` is the recursive call (`neighbor`, accumulated cache, new length) -/
def walkStep (rec : Nat → List (Nat × Int) → Int → Option (QR (List (Nat × Int)))) (prev : Option Nat) (len : Int)
    (st : Option (QR (List (Nat × Int)))) (nb : Nat × Option Int) : Option (QR (List (Nat × Int))) :=
  match st with
  | some (.ok acc) =>
    if some nb.1 != prev then
      match nb.2 with
      | some l => rec nb.1 acc (len + l)
      | none => some (.err "MissingBranchLengths")
    else some (.ok acc)
  | other => other

/-- `Tree::distance_matrix_recursive_impl` with fuel -/
def walkF : Nat → Arena → Nat → Option Nat → List (Nat × Int) → Int → Option (QR (List (Nat × Int)))
  | 0, _, _, _, _, _ => none
  | f + 1, a, cur, prev, acc, len =>
    if !isLive a cur then some (.err "NodeNotFound") else          -- `self.get(current)?`
    let n := nd a cur
    if prev.isSome && n.children.isEmpty then some (.ok (kvInsert acc cur len)) else
    if n.children.any (fun c => !isLive a c) then some .panic else   -- `self.get(idx).unwrap()`
    (neighbours a n).foldl (walkStep (fun nb acc' len' => walkF f a nb (some cur) acc' len') prev len) (some (.ok acc))

/-- the cache row of one tip: `distance_matrix_recursive_impl(tip, None, &mut cache[tip], 0.0)` -/
def walkFrom (a : Arena) (tip : Nat) : QR (List (Nat × Int)) :=
  match walkF (fuelOf a) a tip none [] 0 with
  | some r => r
  | none => .err "diverge"

/-- cache lookup `cache[i1][i2]`; a row that does not exist / an entry that was never written (the code's `INFINITY`)
    is reported, never defaulted -/
def cacheGet (rows : List (Nat × List (Nat × Int))) (i1 i2 : Nat) : QR Int := do
  let row ← QR.ofOpt ((rows.find? (fun p => p.1 == i1)).map (·.2)) "panic-unreachable"
  QR.ofOpt (kvGet row i2) "panic-infinity"

/-- `Tree::distance_matrix_recursive` -/
def dmRecWalk (a : Arena) : QR (List String × List Int) := do
  if a.size = 0 then .err "RootNotFound" else                       -- `init_leaf_index`: `IsEmpty`
  let ls := leaves a
  let names := ls.map (fun l => (nd a l).name)
  if names.any Option.isNone then .err "UnnamedLeaves" else
  if (names.filterMap id).eraseDups.length != names.length then .err "DuplicateLeafNames" else
  let rows ← ls.mapM (fun tip => do let m ← walkFrom a tip; pure (tip, m))
  let order := ls.mergeSort (fun x y => nameLe (nd a x).name (nd a y).name)
  let n := order.length
  let cells ← (List.range n).foldlM (fun (acc : List Int) i =>
      (List.range i).foldlM (fun (acc : List Int) j => do
        let x := order.getD i 0
        let y := order.getD j 0
        -- the pair as `get_leaves().combinations(2)` lists it: the tip with the smaller slot index first
        let d ← if x ≤ y then cacheGet rows x y else cacheGet rows y x
        pure (acc ++ [d])) acc) []
  pure (order.map (fun l => ((nd a l).name).getD ""), cells)

end DMF
