import PhyloModel.Arena.LevelFacts
/-! # Step 1 of the `dmFast` proof: level order is a top-down order

`TopDown a e`: in the list `e` every node's children occur LATER than the node.  Level order has this
property (a direct induction on the queue loop: every queued node is emitted later), hence in the REVERSED
level order -- the order `Tree::distance_matrix` walks -- every node's children have been processed before
the node itself.  No depth argument is needed. -/
namespace AR

/-- every node of the list has all its children later in the list -/
def TopDown (a : Arena) : List Nat → Prop
  | [] => True
  | v :: e => (∀ c ∈ (nd a v).children, c ∈ e) ∧ TopDown a e

theorem TopDown.split {a : Arena} : ∀ {e e₁ : List Nat} {v : Nat} {e₂ : List Nat}, TopDown a e →
    e = e₁ ++ v :: e₂ → ∀ c ∈ (nd a v).children, c ∈ e₂
  | [], e₁, v, e₂, _, h => by cases e₁ <;> simp at h
  | x :: e, [], v, e₂, ht, h => by
    simp only [List.nil_append, List.cons.injEq] at h
    obtain ⟨rfl, rfl⟩ := h
    exact ht.1
  | x :: e, y :: e₁, v, e₂, ht, h => by
    simp only [List.cons_append, List.cons.injEq] at h
    exact TopDown.split ht.2 h.2

/-- the queue loop of `levelorder`: what it emits after `acc` contains the whole queue and is top-down -/
theorem levelF_topDown (a : Arena) : ∀ (f : Nat) (q acc res : List Nat), levelF f a q acc = some res →
    ∃ e, res = acc.reverse ++ e ∧ (∀ x ∈ q, x ∈ e) ∧ TopDown a e := by
  intro f
  induction f with
  | zero =>
    intro q acc res h
    cases q with
    | nil => simp only [levelF, Option.some.injEq] at h; exact ⟨[], by simp [h], by simp, trivial⟩
    | cons x q => simp [levelF] at h
  | succ f ih =>
    intro q acc res h
    cases q with
    | nil => simp only [levelF, Option.some.injEq] at h; exact ⟨[], by simp [h], by simp, trivial⟩
    | cons x q =>
      simp only [levelF] at h
      split at h
      next hx =>
        obtain ⟨e, he, hq, ht⟩ := ih _ _ _ h
        refine ⟨x :: e, by simp [he], ?_, ?_, ht⟩
        · intro y hy
          simp only [List.mem_cons] at hy ⊢
          rcases hy with rfl | hy
          · exact Or.inl rfl
          · exact Or.inr (hq y (by simp [hy]))
        · intro c hc
          exact hq c (by simp [hc])
      next => simp at h

/-- level order lists every node before its children -/
theorem levelorder_topDown {a : Arena} {x : Nat} {l : List Nat} (h : levelorder a x = some l) :
    TopDown a l := by
  obtain ⟨e, he, _, ht⟩ := levelF_topDown a _ _ _ _ h
  simp only [List.reverse_nil, List.nil_append] at he
  rw [he]; exact ht

/-- the bottom-up form: in the REVERSED level order every node's children occur earlier than the node -/
theorem levelorder_reverse_bottomUp {a : Arena} {x : Nat} {l : List Nat} (h : levelorder a x = some l)
    {l₁ : List Nat} {v : Nat} {l₂ : List Nat} (hs : l.reverse = l₁ ++ v :: l₂) :
    ∀ c ∈ (nd a v).children, c ∈ l₁ := by
  have h2 : l = l₂.reverse ++ v :: l₁.reverse := by
    have := congrArg List.reverse hs
    simpa using this
  intro c hc
  have := (levelorder_topDown h).split h2 c hc
  simpa using this

/-- reversed level order from a live node is a bottom-up order of the subtree: duplicate-free, exactly the
    nodes below the start node, children before parents -/
theorem levelorder_bottomUp {a : Arena} (hinv : Inv a) (x : Nat) (hl : live a x) :
    ∃ l, levelorder a x = some l ∧ l.reverse.Nodup ∧ (∀ v, v ∈ l.reverse ↔ ∃ k, BelowK a x v k) ∧
      ∀ l₁ v l₂, l.reverse = l₁ ++ v :: l₂ → ∀ c ∈ (nd a v).children, c ∈ l₁ := by
  obtain ⟨l, h1, h2, h3, _⟩ := levelorder_closed hinv x hl
  refine ⟨l, h1, (List.reverse_perm l).nodup_iff.2 h2, fun v => by rw [List.mem_reverse]; exact h3 v, ?_⟩
  intro l₁ v l₂ hs
  exact levelorder_reverse_bottomUp h1 hs

/-- non-vacuity: level order of a three-leaf tree built with the model's constructors -/
example :
    let a0 := (add #[] none).1
    let a1 := (addChildNamed a0 0 (some 2) (some "x")).1
    let a2 := (addChildNamed a1 0 none none).1
    let a3 := (addChildNamed a2 2 (some 5) (some "y")).1
    let a4 := (addChildNamed a3 2 (some 7) (some "z")).1
    levelorder a4 0 = some [0, 1, 2, 3, 4] := by decide

end AR
