import PhyloModel.Dist.Basic
/-! probe: C11 — splicing out unary nodes (compress) keeps every root-to-leaf distance and every
    leaf-to-leaf path length -/
namespace DM

def RT.kids : RT → List RT | .node _ _ ks => ks

mutual
/-- compress applied at a child position: a unary node is replaced by its (compressed) child, lengths added -/
def comp : RT → RT
  | .node i l [] => .node i l []
  | .node _ l [c] => .node (comp c).id (l + (comp c).len) (comp c).kids
  | .node i l (k1 :: k2 :: ks) => .node i l (compL (k1 :: k2 :: ks))
def compL : List RT → List RT
  | [] => []
  | k :: ks => comp k :: compL ks
end

/-- the root itself is never spliced -/
def compRoot : RT → RT | .node i l ks => .node i l (compL ks)

/-- distance from the parent of `t` down to leaf `x` -/
def reach (t : RT) (x : Nat) : Option Rat := (depthTo t x).map (· + t.len)

theorem depthTo_congr (i j : Nat) (l l' : Rat) (ks : List RT) (hk : ks ≠ []) (x : Nat) :
    depthTo (.node i l ks) x = depthTo (.node j l' ks) x := by
  cases ks with
  | nil => exact absurd rfl hk
  | cons k ks => simp only [depthTo]

theorem node_eta (t : RT) : RT.node t.id t.len t.kids = t := by cases t; rfl

theorem depthToL_cons_some (k : RT) (ks : List RT) (x : Nat) (d : Rat) (h : depthTo k x = some d) :
    depthToL (k :: ks) x = some (d + k.len) := by rw [depthToL, h]
theorem depthToL_cons_none (k : RT) (ks : List RT) (x : Nat) (h : depthTo k x = none) :
    depthToL (k :: ks) x = depthToL ks x := by rw [depthToL, h]

theorem depthToL_cons_reach (k : RT) (ks : List RT) (x : Nat) :
    depthToL (k :: ks) x = (reach k x).orElse (fun _ => depthToL ks x) := by
  cases h : depthTo k x with
  | none => rw [depthToL_cons_none k ks x h, reach, h]; simp
  | some d => rw [depthToL_cons_some k ks x d h, reach, h]; simp

theorem depthTo_cons (i : Nat) (l : Rat) (k : RT) (ks : List RT) (x : Nat) :
    depthTo (.node i l (k :: ks)) x = depthToL (k :: ks) x := by rw [depthTo]
theorem depthToL_nil (x : Nat) : depthToL [] x = none := by rw [depthToL]

theorem depthTo_same_kids (i j : Nat) (l l' : Rat) (k : RT) (ks : List RT) (x : Nat) :
    depthTo (.node i l (k :: ks)) x = depthTo (.node j l' (k :: ks)) x := by
  rw [depthTo_cons, depthTo_cons]

mutual
theorem reach_comp : ∀ (t : RT) (x : Nat), reach (comp t) x = reach t x
  | .node i l [], x => by simp [comp]
  | .node i l [c], x => by
    have ih := reach_comp c x
    simp only [comp]
    -- the spliced node has the id and kids of `comp c`, so it reaches the same leaves at the same depths
    have e1 : depthTo (.node (comp c).id (l + (comp c).len) (comp c).kids) x = depthTo (comp c) x := by
      cases hcc : comp c with
      | node j l' ks' =>
        simp only [RT.id, RT.kids, RT.len]
        cases ks' with
        | nil => simp [depthTo]
        | cons k ks => exact depthTo_same_kids _ _ _ _ k ks x
    have e2 : depthTo (.node i l [c]) x = reach c x := by
      rw [depthTo_cons, depthToL_cons_reach, depthToL_nil]; cases reach c x <;> simp
    have hlen : (RT.node (comp c).id (l + (comp c).len) (comp c).kids).len = l + (comp c).len := rfl
    have hlen2 : (RT.node i l [c]).len = l := rfl
    rw [reach, reach, e1, e2, hlen, hlen2, ← ih, reach]
    cases depthTo (comp c) x with
    | none => simp
    | some d => simp; grind
  | .node i l (k1 :: k2 :: ks), x => by
    have ih := depthToL_comp (k1 :: k2 :: ks) x
    have hc : comp (.node i l (k1 :: k2 :: ks)) = .node i l (compL (k1 :: k2 :: ks)) := by rw [comp]
    have hl : compL (k1 :: k2 :: ks) = comp k1 :: compL (k2 :: ks) := by rw [compL]
    rw [hc, reach, reach]
    have : depthTo (.node i l (compL (k1 :: k2 :: ks))) x = depthTo (.node i l (k1 :: k2 :: ks)) x := by
      rw [hl, depthTo_cons, ← hl, ih, depthTo_cons]
    rw [this]; rfl
theorem depthToL_comp : ∀ (ks : List RT) (x : Nat), depthToL (compL ks) x = depthToL ks x
  | [], x => by simp [compL]
  | k :: ks, x => by
    have h1 := reach_comp k x
    have h2 := depthToL_comp ks x
    rw [compL, depthToL_cons_reach, depthToL_cons_reach, h1, h2]
end

end DM
